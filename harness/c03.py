"""C03 — Array proxies: file scaling applied exactly; partial reads equal slicing.

Model: coq/C03/Model.v (array_from_file, ArrayProxy._get_unscaled/_get_scaled/reshape,
AFNIArrayProxy, PARRECArrayProxy, EcatImageArrayProxy, Minc1File._normalize) on top of C06's
fileslice model.  Theorems: coq/C03/Props.v.

Case lines (coq/C03/driver.ml) — index tokens as in C06: i<k> | s<a>:<b>:<c> (_ = None) | n | e
  ap <mm> <order> <shape> <w> <off> <ix>          afni <mm> <shape> <w> <off> <hasfac> <ix>
  parrec <mm> <shape> <nrec> <ind> <w> <ix>       ecat <mm> <shape3> <nfr> <w> <fmap> <gap> <ix>
  minc <shape> <nscales> <ix>                     reshape <shape> <newshape>
The model answers "ok <shape> <raw element index per output position> <factor index per output
position>" (buffer order of the proxy); the harness turns that into values with its OWN decode
of the file bytes (c03_lib.expected_flat) and compares with proxy[ix] exactly.

Per case:  (1) correspondence  proxy[ix] vs model;  (2) np.asarray(proxy) vs independent decode
(once per proxy instance);  (3) DIRECT PREDICATE  proxy[ix] == np.asarray(proxy)[ix] bitwise
(shape, dtype, bytes), NumPy raises <=> proxy raises;  (4) HISTORY, once per proxy instance: convert (also with dtype=),
edit every returned array in place when writeable, convert again / index: still the independent decode, never the same object.
"""
import bz2
import gzip
import itertools
import os
import warnings

import numpy as np

from common import Check, ensure_impl_path, run_model_parallel, vm_crosscheck
import c03_lib as L

PROP = 'C03'


# ------------------------------------------------------------------ index tuples
def o2s(v):
    return '_' if v is None else str(int(v))


def ix2s(ix):
    if not isinstance(ix, tuple):
        ix = (ix,)
    if len(ix) == 0:
        return '()'
    out = []
    for x in ix:
        if x is None:
            out.append('n')
        elif x is Ellipsis:
            out.append('e')
        elif isinstance(x, slice):
            out.append(f's{o2s(x.start)}:{o2s(x.stop)}:{o2s(x.step)}')
        else:
            out.append('i%d' % int(x))
    return ','.join(out)


def s2ix(toks):
    if toks == '()':
        return ()
    ix = []
    for t in toks.split(','):
        if t == 'n':
            ix.append(None)
        elif t == 'e':
            ix.append(Ellipsis)
        elif t[0] == 'i':
            ix.append(int(t[1:]))
        else:
            a, b, c = [None if v == '_' else int(v) for v in t[1:].split(':')]
            ix.append(slice(a, b, c))
    return tuple(ix)


def lst(l):
    return '[' + ','.join(str(int(x)) for x in l) + ']'


def slices_for(n):
    vals = [None] + list(range(-n - 2, n + 3))
    steps = [None, 1, 2, 3, -1, -2, -3]
    return [slice(a, b, c) for a in vals for b in vals for c in steps]


def reps_for(n):
    """one slice per distinct selection of range(n) + every int in range + the two nearest bad ints"""
    seen = {}
    for s in slices_for(n):
        seen.setdefault(tuple(range(n)[s]), s)
    return list(seen.values()) + list(range(-n, n)) + [n, -n - 1]


def rand_index(rng, shape, bad=0.04):
    nd = len(shape)
    k = rng.choice([nd, nd, nd, nd, max(0, nd - 1), max(0, nd - 2)])
    ix = []
    for ax in range(k):
        n = shape[ax]
        r = rng.random()
        if r < 0.33:
            ix.append(rng.randrange(-n, n) if rng.random() > bad else rng.choice([n, -n - 1, n + 2]))
        else:
            vals = [None] * 3 + list(range(-n - 2, n + 3))
            ix.append(slice(rng.choice(vals), rng.choice(vals), rng.choice([None, None, 1, 2, 3, -1, -1, -2, -3])))
    for _ in range(rng.choice([0, 0, 0, 1, 1, 2])):
        ix.insert(rng.randrange(len(ix) + 1), None)
    r = rng.random()
    if r < 0.35:
        ix.insert(rng.randrange(len(ix) + 1), Ellipsis)
    elif r < 0.37:
        ix.append(0)            # possibly too many indices
    return tuple(ix)


# ------------------------------------------------------------------ configurations
MMAPS = [True, False, 'c', 'r']
COMPS = ['plain', 'gz', 'bz2', 'zst']


def open_fobj(path):
    if path.endswith('.gz') or path.endswith('.mgz'):
        return gzip.GzipFile(path, 'rb')
    if path.endswith('.bz2'):
        return bz2.BZ2File(path, 'rb')
    if path.endswith('.zst'):
        import pyzstd
        return pyzstd.ZstdFile(path, 'rb')
    return open(path, 'rb')


def is_comp(path):
    return path.endswith(('.gz', '.mgz', '.bz2', '.zst'))


class Target:
    """one synthetic file (with compressed siblings) + how to build a proxy under a configuration"""

    def __init__(self, name, spec, paths, build, comps=('plain',), mmaps=(True,), kfos=(None,), srcs=('path',),
                 igz=(True,)):
        self.name, self.spec, self.paths, self.build = name, spec, paths, build
        self.cfgs = [c for c in itertools.product(mmaps, kfos, comps, igz, srcs)
                     if not (c[3] is False and c[2] != 'gz')]       # indexed_gzip only matters for .gz
        self.cache = {}
        self.exp = L.expected_flat(spec)
        self.n_eval = 0

    def proxy(self, cfg, chk):
        """(proxy, full array, fileobjs to reposition)"""
        if cfg not in self.cache:
            import nibabel.openers as openers
            openers.HAVE_INDEXED_GZIP = bool(cfg[3]) and C['have_igzip']
            with warnings.catch_warnings():
                warnings.simplefilter('ignore')
                p, fobjs = self.build(self, cfg)
                try:
                    full = np.asarray(p)
                except Exception as e:      # the file is valid: a raising __array__ is a violation, not a refusal
                    full = None
                    self.broken = getattr(self, 'broken', 0) + 1
                    if self.broken <= 1:
                        chk.violation('property_violation', case={'target': self.name, 'gen': self.gen, 'cfg': [str(c) for c in cfg],
                                                                  'ix': '()', 'what': 'asarray'},
                                      impl_output=f'{type(e).__name__}: {str(e)[:200]}',
                                      predicate='np.asarray(proxy) raised on a valid file written by the harness')
            if full is None:                # fall back on the independent decode as the reference array
                s = self.spec
                full = np.asarray(self.exp).reshape(s['shape'], order=s['order'])
            else:
                check_full(chk, self, cfg, p, full)
                if not history_check(chk, self, cfg, p, full):
                    s = self.spec           # the reference may have been edited through an alias: use the decode
                    full = np.asarray(self.exp).reshape(s['shape'], order=s['order']).astype(full.dtype)
            self.cache[cfg] = (p, full, fobjs)
        return self.cache[cfg]

    def mm(self, cfg):
        return int(cfg[0] is not False and cfg[2] == 'plain')


import random as _random
C = {'have_igzip': False, 'seek_rng': _random.Random(12345)}


def model_line(t, ix, cfg):
    s = t.spec
    mm = t.mm(cfg)
    ixs = ix2s(ix)
    k = s['kind']
    if k == 'ap':
        return f"ap {mm} {s['order']} {lst(s['shape'])} {s['w']} {s['off']} {ixs}"
    if k == 'afni':
        return f"afni {mm} {lst(s['shape'])} {s['w']} {s['off']} {int(s['slopes'] is not None)} {ixs}"
    if k == 'parrec':
        return f"parrec {mm} {lst(s['shape'])} {s['nrec']} {lst(s['ind'])} {s['w']} {ixs}"
    if k == 'ecat':
        nfr = s['shape'][3]
        return f"ecat {mm} {lst(s['shape'][:3])} {nfr} {s['w']} {lst(range(nfr))} 3 {ixs}"
    if k == 'minc':
        return f"minc {lst(s['shape'])} {s['nscales']} {int(bool(s.get('isfloat')))} {ixs}"
    raise ValueError(k)


def model_values(t, res):
    """('ok', shape, values) from the model's (element index, factor index) lists, through the
    harness's own decode of the file; ('err', enum)"""
    if not res.startswith('ok '):
        return ('err', res[4:] if res.startswith('err ') else res)
    _, sh, el, fl = res.split(' ')[:4]
    shape = tuple(int(x) for x in sh[1:-1].split(',') if x)
    e = np.array([int(x) for x in el[1:-1].split(',') if x], dtype=np.int64)
    f = np.array([int(x) for x in fl[1:-1].split(',') if x], dtype=np.int64)
    s = t.spec
    raw = np.asarray(s['raw'])
    if s['kind'] == 'minc' and not s.get('isfloat'):
        raw = np.clip(raw, *L.MINC_VR)      # _normalize clips to valid_range (part of MINC's `scale`)
    if s['kind'] == 'ecat':
        m = int(np.prod(s['shape'][:3]))
        e = (e // (m + 3)) * m + e % (m + 3)          # model record stride m + gap(3) -> concatenated frames
    if 'model_full' in s:         # bit-exact targets: values come from the Flocq model of the arithmetic (ModelS.v)
        return ('ok', shape, s['model_full'][e])
    if s['slopes'] is None:
        if len(f) and not np.all(f == (-1 if s['kind'] in ('afni', 'minc') else 0)):
            return ('ok', shape, None)
        return ('ok', shape, raw[e])
    if len(f) and (f.min() < 0 or f.max() >= len(s['slopes'])):
        return ('ok', shape, None)
    vals = raw[e].astype(np.float64) * np.asarray(s['slopes'])[f] + np.asarray(s['inters'])[f]
    return ('ok', shape, vals)


def native(a):
    """same values in native byte order (0-d results come back as native NumPy scalars)"""
    a = np.asarray(a)
    return a.astype(a.dtype.newbyteorder('='), copy=False)


def err_enum(e):
    if isinstance(e, IndexError):
        return 'index'
    if isinstance(e, (ValueError, TypeError)):
        return 'value'
    if isinstance(e, (OSError, EOFError)):
        return 'io'
    return 'other:' + type(e).__name__


def check_full(chk, t, cfg, p, full):
    """np.asarray(proxy) against the independent decode of the file bytes"""
    s = t.spec
    exp = t.exp.reshape(s['shape'], order=s['order']) if int(np.prod(s['shape'])) == t.exp.size else t.exp
    chk.count(key=('full', t.name, str(cfg)), tag='asarray:' + s['kind'])
    zero = int(np.prod(s['shape'])) == 0
    ok = full.shape == tuple(s['shape']) and np.array_equal(full, exp) and tuple(p.shape) == tuple(s['shape'])
    if 'model_full' in s:
        ok = ok and L.same_bits(full, exp)
    if not ok:
        C['full_viol'] = C.get('full_viol', 0) + 1
        if C['full_viol'] > 3:
            chk.violations.append(('property_violation', chk.violations[-1][1] if chk.violations else '', True))
            return
        chk.violation('property_violation', case={'target': t.name, 'gen': t.gen, 'cfg': list(map(str, cfg)), 'ix': '()', 'what': 'asarray'},
                      impl_output={'shape': list(full.shape), 'dtype': str(full.dtype), 'head': full.ravel()[:8].tolist()},
                      model_output={'shape': list(s['shape']), 'head': np.asarray(exp).ravel()[:8].tolist()},
                      predicate='np.asarray(proxy) differs from the independent decode of the file bytes '
                                '(raw stored elements transformed by the scale factors recorded in the file)')


def history_check(chk, t, cfg, p, full):
    """convert, EDIT THE RESULT IN PLACE (when it is writeable), convert again: every conversion and every proxy[ix]
    must still be the independent decode of the file, and no two conversions may hand out the same object"""
    s = t.spec
    if int(np.prod(s['shape'])) == 0 or 'model_full' in s:      # bit-exact targets have their own dtype= comparison (G9)
        return True
    exp = np.asarray(t.exp).reshape(s['shape'], order=s['order'])
    why = []
    edited = 0
    with warnings.catch_warnings():
        warnings.simplefilter('ignore')
        try:
            a = np.asarray(p)
            a2 = np.asarray(p)
            if a2 is a or a is full:
                why.append('two conversions of the proxy returned the same object')
            convs = [a]
            for dt in (np.float64, np.float32):
                try:
                    d = np.asarray(p, dtype=dt)
                except Exception:
                    continue                      # dtype argument not supported / not castable: nothing to compare
                if d.shape != exp.shape or not np.array_equal(d, exp.astype(dt)):
                    why.append(f'np.asarray(proxy, dtype={np.dtype(dt)}) differs from the independent decode cast to that dtype')
                convs.append(d)
            for c_ in convs:                      # edit the very objects that were handed out
                if c_.flags.writeable:
                    c_[...] = c_ * 0 + 77 if c_.dtype.kind != 'b' else ~c_
                    edited += 1
            b = np.asarray(p)
            if any(b is c_ for c_ in convs):
                why.append('a later conversion returned an object handed out before')
            if b.shape != exp.shape or not np.array_equal(b, exp):
                why.append(('after an in-place edit of an earlier conversion result, np.asarray(proxy) is no longer the stored '
                              'elements transformed by the file\'s scale factors'))
            for dt in (np.float64,):
                try:
                    d = np.asarray(p, dtype=dt)
                except Exception:
                    continue
                if not np.array_equal(d, exp.astype(dt)):
                    why.append('after an in-place edit, np.asarray(proxy, dtype=float64) differs from the independent decode')
            ix = (Ellipsis, slice(None, None, -1)) if len(s['shape']) else ()
            g = p[ix]
            if g.shape != exp[ix].shape or not np.array_equal(g, exp[ix]):
                why.append('after an in-place edit of a conversion result, proxy[..., ::-1] differs from the independent decode')
        except Exception as e:
            why.append(f'history raised {type(e).__name__}: {str(e)[:120]}')
    chk.count(key=('history', t.name, str(cfg)), tag='H:history:' + s['kind'])
    chk.tagc('H:edited-in-place', edited)
    chk.tagc('H:not-writeable', 0 if edited else 1)
    if why:
        C['hist_viol'] = C.get('hist_viol', 0) + 1
        if C['hist_viol'] <= 3:
            chk.violation('property_violation', case={'target': t.name, 'gen': t.gen, 'cfg': [str(c) for c in cfg], 'ix': '()',
                                                      'what': 'history'},
                          predicate='history convert / edit the returned array in place / convert again: ' + '; '.join(why))
        else:
            chk.violations.append(('property_violation', chk.violations[-1][1] if chk.violations else '', True))
        return False
    return True


class Runner:
    def __init__(self, chk):
        self.chk = chk
        self.lines = []
        self.pending = []     # (cid, target, cfg, ix, got-or-exc, pred_failed)
        self.nviol = 0
        self.ncase = 0

    def case(self, t, cfg, ix, tag, sample=False):
        chk = self.chk
        import nibabel.openers as openers
        p, full, fobjs = t.proxy(cfg, chk)
        openers.HAVE_INDEXED_GZIP = bool(cfg[3]) and C['have_igzip']
        for f, size in fobjs:
            f.seek(C['seek_rng'].randrange(0, max(1, size)))
        try:
            want = full[ix]
            np_err = None
        except Exception as e:        # NumPy refuses the index
            want, np_err = None, e
        try:
            with warnings.catch_warnings():
                warnings.simplefilter('ignore')
                got = p[ix]
            g_err = None
        except Exception as e:
            got, g_err = None, e
        t.n_eval += 1
        ixs = ix2s(ix)
        nontriv = want is not None and 0 < want.size < max(1, full.size)
        chk.count(key=(t.name, ixs, cfg) if nontriv else None, tag=tag,
                  sample={'target': t.name, 'kind': t.spec['kind'], 'shape': list(t.spec['shape']), 'ix': ixs,
                          'cfg': list(map(str, cfg))} if sample else None)
        chk.tagc('kind:' + t.spec['kind'])
        chk.tagc(f'cfg:mmap={cfg[0]}')
        chk.tagc(f'cfg:kfo={cfg[1]}')
        chk.tagc(f'cfg:comp={cfg[2]}')
        chk.tagc(f'cfg:igzip={cfg[3]}')
        chk.tagc(f'cfg:src={cfg[4]}')
        # ---- direct property predicate
        pred = None
        zero_known = False
        if (np_err is None) != (g_err is None):
            if g_err is not None:
                pred = f'proxy[ix] raised {type(g_err).__name__}({str(g_err)[:80]}) where NumPy returns shape {want.shape}'
            else:
                pred = f'NumPy raises {type(np_err).__name__} for this index on the loaded array but proxy[ix] returned shape {got.shape}'
        elif np_err is None:
            if got.shape != want.shape:
                pred = f'shape {got.shape} != {want.shape}'
            elif native(got).dtype != native(want).dtype:
                pred = f'dtype {got.dtype} != {want.dtype} of np.asarray(proxy)[ix]'
            elif not L.same_bits(got, want):
                pred = 'values of proxy[ix] differ from np.asarray(proxy)[ix]'
        else:
            chk.refusal(err_enum(g_err))
        if pred and not zero_known:
            self.nviol += 1
            if self.nviol <= 5:
                chk.violation('property_violation',
                              case={'target': t.name, 'gen': t.gen, 'cfg': [str(c) for c in cfg], 'ix': ixs},
                              impl_output=None if got is None else {'shape': list(got.shape), 'dtype': str(got.dtype),
                                                                    'head': np.asarray(got).ravel()[:8].tolist()},
                              model_output=None, predicate=pred)
        cid = f'c{self.ncase}'
        self.ncase += 1
        self.lines.append(f'{cid} {model_line(t, ix, cfg)}')
        self.pending.append((cid, t, cfg, ixs, got, g_err, bool(pred) and not zero_known))

    def finish(self):
        chk = self.chk
        mod = run_model_parallel(PROP, self.lines, jobs=8)
        ncorr = 0
        for cid, t, cfg, ixs, got, g_err, pred_failed in self.pending:
            r = mod.get(cid, '<missing>')
            mv = model_values(t, r)
            dis = None
            if mv[0] == 'err':
                if got is not None:
                    dis = (r, f'ok shape {got.shape}')
                elif mv[1] != err_enum(g_err) and not (mv[1] in ('value', 'index') and err_enum(g_err) in ('value', 'index')):
                    dis = (r, 'err ' + err_enum(g_err))
            else:
                if got is None:
                    dis = (r[:120], f'err {err_enum(g_err)}: {str(g_err)[:80]}')
                elif mv[2] is None:
                    dis = (r[:120], 'factor index out of range in model output')
                elif tuple(got.shape) != mv[1]:
                    dis = (f'shape {mv[1]}', f'shape {got.shape}')
                else:
                    flat = np.asarray(got).ravel(order=t.spec['order'])
                    if not (L.same_bits(flat, mv[2]) if 'model_full' in t.spec else np.array_equal(flat, mv[2])):
                        dis = ('values ' + str(np.asarray(mv[2])[:8].tolist()), 'values ' + str(flat[:8].tolist()))
            if dis:
                ncorr += 1
                chk.disagreements += 1
                if ncorr <= 3 and not pred_failed and self.nviol == 0:
                    chk.violation('correspondence', case={'target': t.name, 'gen': t.gen, 'cfg': [str(c) for c in cfg], 'ix': ixs,
                                                          'line': [l for l in self.lines if l.startswith(cid + ' ')][0][:300]},
                                  model_output=dis[0], impl_output=dis[1],
                                  predicate='model (with the harness\'s own decode of the file) and proxy[ix] disagree; the '
                                            'property predicate holds on this case', found_input=False,
                                  theorem='correspondence C03/Model.v <-> nibabel array proxies')
        chk.extra['model_lines'] = len(self.lines)
        chk.extra['correspondence_mismatches'] = ncorr
        return mod


# ------------------------------------------------------------------ proxy builders
def build_direct(t, cfg):
    """ArrayProxy(file_like, (shape, dtype, offset, slope, inter), mmap, order, keep_file_open)"""
    from nibabel.arrayproxy import ArrayProxy
    mmap, kfo, comp, igz, src = cfg
    s = t.spec
    path = t.paths[comp]
    fobjs = []
    fl = path
    if src == 'fileobj':
        fl = open_fobj(path)
        fobjs.append((fl, len(t.plain)))
    slope = 1.0 if s['slopes'] is None else s['slopes'][0]
    inter = 0.0 if s['slopes'] is None else s['inters'][0]
    kw = {} if src == 'fileobj' and kfo is None else {'keep_file_open': kfo}
    p = ArrayProxy(fl, (s['shape'], s['dtype'], s['off'], slope, inter), mmap=mmap, order=s['order'], **kw)
    return p, fobjs


def build_loader(klass, has_kfo=True, extra=None):
    def build(t, cfg):
        from nibabel.fileholders import FileHolder
        mmap, kfo, comp, igz, src = cfg
        s = t.spec
        kw = dict(extra or {})
        if mmap is not None:
            kw['mmap'] = mmap
        if has_kfo and kfo is not None:
            kw['keep_file_open'] = kfo
        fobjs = []
        if src == 'path':
            img = klass.from_filename(t.paths[comp], **kw)
        else:
            imgf = open_fobj(t.paths[comp])
            fobjs.append((imgf, t.plain_size))
            if s['one_file']:
                fm = {k: FileHolder(fileobj=imgf) for k, _ in klass.files_types}
            else:
                hf = open(s['hdr_file'], 'rb')
                fm = {'image': FileHolder(fileobj=imgf), 'header': FileHolder(fileobj=hf)}
                if 'mat' in dict(klass.files_types):
                    fm['mat'] = FileHolder(filename=s['hdr_file'] + '.nomat')
            img = klass.from_file_map(fm, **kw)
        t.img = img
        return img.dataobj, fobjs
    return build


def add_gen(t, gen):
    t.gen = gen
    return t


# ------------------------------------------------------------------ the check
def run(chk: Check):
    ensure_impl_path()
    import nibabel as nib
    import nibabel.openers as openers
    from nibabel.ecat import EcatImage
    chk.rule = ('synthetic files written by the harness (raw ints |v|<2^12, dyadic factors: exact arithmetic): direct '
                'ArrayProxy over a data file (rank 1: every slice with start/stop in [-n-2,n+2]|None, step in '
                '[-3,3]\\{0}|None and every int, n<=4; rank 2: every pair of per-axis representatives (one slice per '
                'distinct selection, every int, two out-of-range ints), axes<=4, orders F and C, + None/Ellipsis '
                'variants: exhaustive, seed independent); NIfTI-1 single/pair, NIfTI-2, Analyze, SPM99, SPM2, MGH/MGZ '
                '(rank 3-5), direct ArrayProxy rank 3-5 in F and C order, AFNI HEAD/BRIK (>=2 sub-bricks, BRICK_FLOAT_FACS with zeros), PAR/REC (sorted, '
                'slice-major and interleaved record order, dv and fp scaling, 3-D and 4-D), multi-frame ECAT (4 '
                'frames, per-frame factors; frame axis exhaustive: every slice and int under three in-frame slicers), MINC1 (netcdf) and MINC2 (h5py) with 0/1/2 scaling dimensions, CIFTI-2 '
                'reshaped proxy and ArrayProxy.reshape, zero-size images: random index tuples incl. Ellipsis/None/'
                'bad ints/too many indices; configurations cycled over mmap{True,False,c,r} x keep_file_open x '
                '{plain,gz,bz2,zst} x indexed_gzip{on,off} x {path, open file object re-positioned at random before '
                'every access}; once per proxy instance the history convert (also with dtype=) / edit the returned arrays in place / convert and index again must still give the independent decode and never the same object. A case is non-trivial when the result is neither the whole array nor empty nor an '
                'error; distinct by (file, index, configuration)')
    chk.assumptions = ['files are synthesised by the harness from nibabel writers / repo fixture headers: agreement of real '
                       'scanner files with these layouts is outside the claim',
                       'values are chosen so that raw*slope+inter is exact in float32 and float64 (rounding is C02)',
                       'h5py / netCDF decoding of MINC variables is an oracle (the harness writes the files through them)']
    chk.trusted.append('reader oracle: seek(off); read(len) of any opener (plain/gzip/bz2/zstd/indexed_gzip, kept open or '
                       'not, path or positioned file object) returns those bytes of the uncompressed stream '
                       '(reader_ok, premise of the C03 theorems; exercised by the configuration grid)')
    chk.trusted.append('NumPy basic indexing / CPython slice.indices yardstick (Base/PySlice.v, C06 np_index; validated by C06)')
    chk.trusted.append('np.broadcast_arrays of per-slice factors modelled by bcast (element o -> factor o div m); h5py/netCDF '
                       'indexing of MINC image variables modelled by np_index; independent decode in harness/c03_lib.py')
    chk.build()
    chk.run_probes()
    if not chk.model_ok:
        return
    C['have_igzip'] = bool(openers.HAVE_INDEXED_GZIP)
    real_igzip = openers.HAVE_INDEXED_GZIP
    rng = chk.rng
    W = chk.workdir
    R = Runner(chk)
    try:
        _run(chk, R, W, rng, nib, EcatImage)
    finally:
        openers.HAVE_INDEXED_GZIP = real_igzip


def _run(chk, R, W, rng, nib, EcatImage):
    full_grid = dict(comps=COMPS, mmaps=MMAPS, kfos=(True, False), srcs=('path', 'fileobj'), igz=(True, False))
    targets = []

    # ---------------- G1: direct ArrayProxy, exhaustive rank <= 2
    n_elem = 4096
    dts = ['<i2', '>i2', '<i4', 'u1', '<f4', '>i4']
    datafiles = {}
    for di, dt in enumerate(dts):
        base = os.path.join(W, f'data_{di}.bin')
        rawfile = L.raw_values(n_elem, dt, salt=di)
        with open(base, 'wb') as f:
            f.write(b'\x5a' * 7 + rawfile.tobytes())          # 7 filler bytes: offsets 7 + k*itemsize
        datafiles[dt] = (L.compress_variants(base), rawfile, open(base, 'rb').read())
    scl = [(2.0, 3.0), (0.5, -7.5), (1.0, 0.0), (-1.5, 100.0), (0.25, 0.0), (1.0, 8.0)]

    def direct_target(shape, order, k):
        dt = dts[k % len(dts)]
        paths, rawfile, plain = datafiles[dt]
        w = np.dtype(dt).itemsize
        skip = (k * 5) % 11                                  # elements skipped before the array
        off = 7 + skip * w
        n = int(np.prod(shape))
        slope, inter = scl[k % len(scl)]
        spec = dict(kind='ap', shape=tuple(shape), raw=rawfile[skip:skip + n], order=order, fac_of_elem=np.zeros(n, int),
                    slopes=None if (slope, inter) == (1.0, 0.0) else [slope], inters=None if (slope, inter) == (1.0, 0.0) else [inter],
                    w=w, off=off, dtype=np.dtype(dt), one_file=True)
        t = Target(f'direct{shape}{order}{dt}', spec, paths, build_direct, **full_grid)
        t.plain = plain
        t.gen = {'g': 'direct', 'shape': list(shape), 'order': order, 'k': k}
        return t

    ci = 0
    k = 0
    for n in range(1, 5):
        t = direct_target((n,), 'F', k)
        k += 1
        targets.append(t)
        for ix in slices_for(n) + list(range(-n - 1, n + 1)):
            R.case(t, t.cfgs[ci % len(t.cfgs)], (ix,), 'G1:rank1-exhaustive', sample=(ci == 500))
            ci += 1
        for ix in [(), (Ellipsis,), (None,), (Ellipsis, None), (None, Ellipsis), (slice(None), None), (0, None), (None, -1)]:
            R.case(t, t.cfgs[ci % len(t.cfgs)], ix, 'G1:rank1-exhaustive')
            ci += 1
    maxn = chk.n(4, 5)
    reps = {n: reps_for(n) for n in range(1, maxn + 1)}
    for a in range(1, maxn + 1):
        for b in range(1, maxn + 1):
            for order in 'FC':
                t = direct_target((a, b), order, k)
                k += 1
                targets.append(t)
                for x in reps[a]:
                    for y in reps[b]:
                        R.case(t, t.cfgs[ci % len(t.cfgs)], (x, y), 'G1:rank2-exhaustive', sample=(ci == 9000))
                        ci += 1
                for x in reps[a]:
                    for ix in [(x,), (x, Ellipsis), (Ellipsis, x), (None, x), (x, None), (x, slice(None), None)]:
                        R.case(t, t.cfgs[ci % len(t.cfgs)], ix, 'G1:rank2-exhaustive')
                        ci += 1
    chk.extra['exhaustive_core_cases'] = ci
    # ---------------- G1b: direct ArrayProxy, rank 3-5, both orders, random index tuples
    for rep in range(chk.n(6, 40)):
        nd = rng.choice([3, 4, 5])
        shape = tuple(rng.choice([1, 2, 2, 3, 3, 4]) for _ in range(nd))
        t = direct_target(shape, 'FC'[rep % 2], k)
        k += 1
        targets.append(t)
        for j in range(chk.n(150, 1500)):
            R.case(t, t.cfgs[ci % len(t.cfgs)], rand_index(rng, shape), 'G1b:direct-rank3-5-random', sample=(j == 7 and rep == 1))
            ci += 1
    # ---------------- spec validation of `bcast` (np.broadcast_arrays of per-slab factors = factor o // m in F order)
    nb = 0
    for shape, kk in [((2, 3, 4), 2), ((2, 3, 2, 2), 2), ((3, 1, 2, 4), 3), ((1, 1, 3), 2), ((2, 2, 2, 3), 3)]:
        trail = shape[kk:]
        fac = np.arange(int(np.prod(trail)), dtype=np.float64) + 10
        _, b = np.broadcast_arrays(np.empty(shape), fac.reshape((1,) * kk + trail, order='F'))
        m = int(np.prod(shape[:kk]))
        want = fac[np.arange(int(np.prod(shape))) // m]
        chk.count(key=('bcast', shape, kk), tag='spec:bcast')
        if not np.array_equal(b.ravel(order='F'), want):
            nb += 1
            chk.disagreements += 1
            chk.violation('correspondence', case={'bcast': [list(shape), kk]}, predicate='SPECIFICATION MISMATCH: bcast (factor o div m) '
                          'is not what np.broadcast_arrays gives', found_input=False, theorem='spec validation: C03 bcast')
    chk.extra['bcast_spec_mismatches'] = nb

    # ---------------- G2: formats behind the generic ArrayProxy, rank 3-5, random indices
    def shape_for(nd):
        return tuple(rng.choice([1, 2, 2, 3, 3, 4]) for _ in range(nd))

    fmt = [(nib.Nifti1Image, 'nii1', ('plain', 'gz', 'bz2', 'zst'), 5), (nib.Nifti1Pair, 'nii1pair', ('plain', 'gz'), 4),
           (nib.Nifti2Image, 'nii2', ('plain', 'gz', 'zst'), 5), (nib.AnalyzeImage, 'analyze', ('plain', 'gz'), 4),
           (nib.Spm99AnalyzeImage, 'spm99', ('plain', 'bz2'), 3), (nib.Spm2AnalyzeImage, 'spm2', ('plain',), 4)]
    gen_targets = []
    for fi, (klass, nm, comps, nd) in enumerate(fmt):
        for rep in range(chk.n(1, 3)):
            shape = shape_for(rng.choice([3, nd]))
            dt = rng.choice(['i2', 'u1', 'i4', 'f4'])
            endian = rng.choice('<>')
            slope, inter = rng.choice(scl)
            offset = None
            if klass in (nib.Nifti1Image, nib.Nifti2Image) and rng.random() < 0.5:
                offset = (352 if klass is nib.Nifti1Image else 544) + 16 * rng.randrange(1, 4)
            base = os.path.join(W, f'{nm}_{rep}')
            load, img_file, spec = L.write_analyze_like(klass, base, shape, dt, slope, inter, endian=endian,
                                                        offset=offset, salt=fi + rep)
            paths = L.compress_variants(img_file, [c for c in comps if c != 'plain'])
            if not spec['one_file']:      # header file must carry the same suffix as the image file
                for c, pth in L.compress_variants(spec['hdr_file'], [c for c in comps if c != 'plain']).items():
                    pass
            t = Target(f'{nm}_{rep}', spec, paths, build_loader(klass), comps=comps, mmaps=MMAPS, kfos=(True, False),
                       srcs=('path', 'fileobj'), igz=(True, False))
            t.plain_size = os.path.getsize(img_file)
            t.gen = {'g': 'fmt', 'fmt': nm, 'shape': list(shape)}
            gen_targets.append(t)
    for rep in range(chk.n(2, 4)):
        shape = shape_for(rng.choice([3, 4]))
        if len(shape) == 4 and shape[3] == 1:        # MGH stores (a,b,c,1) as 3-D: the writer refuses (C01's subject)
            shape = shape[:3] + (2,)
        dt = rng.choice(['i2', 'u1', 'i4', 'f4'])
        gz = rep % 2 == 1
        load, img_file, spec = L.write_mgh(os.path.join(W, f'mgh_{rep}'), shape, dt, salt=rep, gz=gz)
        t = Target(f'mgh_{rep}', spec, {'gz' if gz else 'plain': load}, build_loader(nib.MGHImage),
                   comps=('gz' if gz else 'plain',), mmaps=MMAPS, kfos=(True, False), srcs=('path', 'fileobj'), igz=(True, False))
        t.plain_size = 284 + spec['raw'].nbytes
        t.gen = {'g': 'mgh', 'shape': list(shape)}
        gen_targets.append(t)

    # ---------------- G3: AFNI
    for rep, facs in enumerate([[2.0, 0.0, 0.25], [0.0, 0.0], [0.5, 4.0, 1.0, 2.0]][:chk.n(3, 3)]):
        shape = tuple(rng.choice([1, 2, 3, 4]) for _ in range(3)) + (len(facs),)
        head, brik, spec = L.write_afni(os.path.join(W, f'afni_{rep}'), shape, facs, dtype=['<i2', 'u1', '<f4'][rep % 3], salt=rep)
        paths = L.compress_variants(brik, ['gz', 'bz2'])
        t = Target(f'afni_{rep}', spec, paths, None, comps=('plain', 'gz', 'bz2'), mmaps=MMAPS, kfos=(True, False),
                   srcs=('path', 'fileobj'), igz=(True, False))
        t.plain_size = os.path.getsize(brik)

        def build_afni(t, cfg, head=head):
            from nibabel.brikhead import AFNIImage
            from nibabel.fileholders import FileHolder
            mmap, kfo, comp, igz, src = cfg
            fobjs = []
            if src == 'path':
                fm = {'header': FileHolder(head), 'image': FileHolder(t.paths[comp])}
            else:
                f = open_fobj(t.paths[comp])
                fobjs.append((f, t.plain_size))
                fm = {'header': FileHolder(fileobj=open(head, 'rt')), 'image': FileHolder(fileobj=f)}
            img = AFNIImage.from_file_map(fm, mmap=mmap, keep_file_open=kfo)
            t.img = img
            return img.dataobj, fobjs
        t.build = build_afni
        t.gen = {'g': 'afni', 'shape': list(shape)}
        gen_targets.append(t)

    # ---------------- G4: PAR/REC
    from nibabel.parrec import PARRECImage
    pr = [((3, 2, 3, 2), 'sorted', 'dv'), ((2, 3, 3, 2), 'shuffled', 'dv'), ((3, 2, 2, 3), 'slice_major', 'fp'),
          ((2, 2, 4), 'shuffled', 'dv'), ((4, 3, 3), 'sorted', 'fp')]
    for rep, (shape, ok, scaling) in enumerate(pr[:chk.n(5, 5)]):
        par, rec, spec = L.write_parrec(os.path.join(W, f'parrec_{rep}'), shape, ok, rng, scaling=scaling)
        t = Target(f'parrec_{rep}_{ok}_{scaling}', spec, {'plain': par}, build_loader(PARRECImage, has_kfo=False, extra={'scaling': scaling}),
                   comps=('plain',), mmaps=MMAPS, kfos=(None,), srcs=('path', 'fileobj'))
        spec['img_file'] = rec

        def build_par(t, cfg, par=par, rec=rec, scaling=scaling):
            from nibabel.fileholders import FileHolder
            mmap, kfo, comp, igz, src = cfg
            fobjs = []
            if src == 'path':
                img = PARRECImage.from_filename(par, mmap=mmap, scaling=scaling)
            else:
                f = open(rec, 'rb')
                fobjs.append((f, os.path.getsize(rec)))
                img = PARRECImage.from_file_map({'header': FileHolder(par), 'image': FileHolder(fileobj=f)}, mmap=mmap, scaling=scaling)
            t.img = img
            got_ind = [int(v) for v in img.header.get_sorted_slice_indices()]      # public header API
            if got_ind != list(t.spec['ind']):
                raise RuntimeError(f'generator: sorted slice indices {got_ind} != {t.spec["ind"]}')
            return img.dataobj, fobjs
        t.build = build_par
        t.gen = {'g': 'parrec', 'shape': list(shape), 'order': ok, 'scaling': scaling}
        gen_targets.append(t)

    # ---------------- G5: ECAT (>= 3 frames)
    for rep, (fs, nfr) in enumerate([((4, 3, 2), 4), ((2, 2, 3), 3)][:chk.n(2, 2)]):
        pth, _, spec = L.write_ecat(os.path.join(W, f'ecat_{rep}.v'), fs, nfr, rng)
        t = Target(f'ecat_{rep}', spec, {'plain': pth}, None, comps=('plain',), mmaps=(True,), kfos=(None,), srcs=('path', 'fileobj'))

        def build_ecat(t, cfg, pth=pth):
            from nibabel.fileholders import FileHolder
            fobjs = []
            if cfg[4] == 'path':
                img = EcatImage.load(pth)
            else:
                f = open(pth, 'rb')
                fobjs.append((f, os.path.getsize(pth)))
                img = EcatImage.from_file_map({'header': FileHolder(fileobj=f), 'image': FileHolder(fileobj=f)})
            t.img = img
            return img.dataobj, fobjs
        t.build = build_ecat
        t.gen = {'g': 'ecat', 'shape': list(fs) + [nfr]}
        gen_targets.append(t)

    # ---------------- G6: MINC1 / MINC2
    from nibabel.minc1 import Minc1Image
    from nibabel.minc2 import Minc2Image
    mi = 0
    for shape, ns, fl_ in [((3, 2, 4), 0, 0), ((2, 3, 4), 1, 0), ((3, 2, 3), 2, 0), ((2, 3, 2, 3), 1, 0), ((3, 2, 2, 2), 2, 0),
                           ((2, 3, 2), 1, 1), ((3, 2, 2), 0, 1)]:
        for ver in (1, 2):
            pth = os.path.join(W, f'minc{ver}_{mi}.mnc')
            if fl_:                  # float-typed image (returned unscaled): arbitrary finite float bit patterns
                fraw = rand_raw(rng, ['f4', 'f8'][mi % 2], int(np.prod(shape)))
                if ver == 1:
                    _, _, spec = L.write_minc1(pth, shape, ns, raw=fraw, code=['f', 'd'][mi % 2])
                else:
                    _, _, spec = L.write_minc2(pth, shape, ns, dtype=['<f4', '<f8'][mi % 2], raw=fraw)
                spec['model_full'] = np.asarray(spec['raw']).astype(np.dtype(spec['dtype']).newbyteorder('='))   # bit-level: the data as read
            else:
                _, _, spec = (L.write_minc1 if ver == 1 else L.write_minc2)(pth, shape, ns, salt=mi)
            klass = Minc1Image if ver == 1 else Minc2Image
            paths = {'plain': pth}
            comps = ('plain',)
            if ver == 1:
                paths = L.compress_variants(pth, ['gz', 'bz2'])
                comps = ('plain', 'gz', 'bz2')
            t = Target(f'minc{ver}_{mi}', spec, paths, build_loader(klass, has_kfo=False), comps=comps, mmaps=(True, False),
                       kfos=(None,), srcs=('path',), igz=(True, False))
            t.gen = {'g': 'minc', 'ver': ver, 'shape': list(shape), 'nscales': ns}
            gen_targets.append(t)
            mi += 1

    # ---------------- random index tuples over G2-G6
    nrand = chk.n(220, 5000)
    gi = 0
    for t in gen_targets:
        targets.append(t)
        shape = t.spec['shape']
        fixed = [(), (Ellipsis,), tuple([slice(None)] * len(shape)), (Ellipsis, slice(1, None)), (Ellipsis, slice(None, None, -1)),
                 (Ellipsis, slice(None, None, -2), None), (Ellipsis, -1), (0,), (Ellipsis, 0, slice(None)),
                 (slice(None, None, -1), Ellipsis), (None, Ellipsis, slice(-1, None, -3)), tuple([0] * len(shape)),
                 (Ellipsis, slice(5, 2)), (slice(0, shape[0], 1),), (Ellipsis, shape[-1]), (Ellipsis, -shape[-1] - 1)]
        for j, ix in enumerate(fixed + [rand_index(rng, shape) for _ in range(nrand)]):
            cfg = t.cfgs[gi % len(t.cfgs)]
            gi += 1
            R.case(t, cfg, ix, 'G:' + t.spec['kind'] + (':fixed' if j < len(fixed) else ':random'), sample=(j == 20 and gi % 3 == 0))

    # ---------------- G5b: ECAT frame axis, exhaustive: every slice of the frame axis (start/stop in [-n-2,n+2]|None,
    # step in [-3,3]\\{0}|None) and every int, under three in-frame slicers (C03_ecat_frames)
    for t in [x for x in gen_targets if x.spec['kind'] == 'ecat'][:1]:
        nfr = t.spec['shape'][3]
        for s3 in slices_for(nfr) + list(range(-nfr - 1, nfr + 1)):
            for pre, post in [((Ellipsis,), ()), ((0, slice(None, None, -1), None), (None,)), ((slice(1, None), -1, slice(None)), ())]:
                if pre[0] is not Ellipsis and len(pre) < 3:
                    continue
                ix = pre + (s3,) + post
                R.case(t, t.cfgs[gi % len(t.cfgs)], ix, 'G5:ecat-frame-axis-exhaustive')
                gi += 1

    # ---------------- G7: CIFTI-2 reshaped proxy and ArrayProxy.reshape
    run_reshape(chk, R, W, rng, nib, targets)

    # ---------------- G9: bit-exact scaling with arbitrary (non-dyadic) factors
    run_bitexact(chk, R, W, rng, nib, targets)

    # ---------------- G8: zero-size images (regression of S-C03b: shape kept without memmap)
    for rep, shape in enumerate([(0, 3, 2), (2, 0, 3), (2, 3, 0)]):
        base = os.path.join(W, f'zero_{rep}')
        load, img_file, spec = L.write_analyze_like(nib.Nifti1Image, base, shape, 'i2', 2.0, 3.0, salt=rep)
        paths = L.compress_variants(img_file, ['gz'])
        t = Target(f'zero_{rep}', spec, paths, build_loader(nib.Nifti1Image), comps=('plain', 'gz'), mmaps=(True, False),
                   kfos=(False,), srcs=('path',), igz=(True,))
        t.plain_size = os.path.getsize(img_file)
        t.gen = {'g': 'zero', 'shape': list(shape)}
        targets.append(t)
        for cfg in t.cfgs:
            for ix in [(), (Ellipsis,), (slice(None), slice(None, 1)), (slice(None, None, -1),), (Ellipsis, None)]:
                R.case(t, cfg, ix, 'G8:zero-size')

    # ---------------- direct predicate on the repo's MINC fixtures (no model: real layouts)
    ddir = L.data_dir()
    for fn in ['minc1_1_scale.mnc', 'minc1_4d.mnc', 'minc2_1_scale.mnc', 'minc2_4d.mnc', 'small.mnc', 'tiny.mnc']:
        pth = os.path.join(ddir, fn)
        if not os.path.exists(pth):
            continue
        try:
            with warnings.catch_warnings():
                warnings.simplefilter('ignore')
                img = nib.load(pth)
                full = np.asarray(img.dataobj)
        except Exception as e:
            chk.violation('property_violation', case={'fixture': fn, 'ix': '()'}, impl_output=f'{type(e).__name__}: {str(e)[:200]}',
                          predicate='np.asarray(proxy) raised on a repo fixture file')
            continue
        for _ in range(chk.n(25, 150)):
            ix = rand_index(rng, full.shape, bad=0.0)
            try:
                want = full[ix]
            except Exception:
                continue
            chk.count(key=('fixture', fn, ix2s(ix)), tag='G6:minc-fixture-direct')
            try:
                got = img.dataobj[ix]
                bad = got.shape != want.shape or native(got).dtype != native(want).dtype or native(got).tobytes() != native(want).tobytes()
                why = 'differs from np.asarray(proxy)[ix]'
            except Exception as e:
                bad, why = True, f'raised {type(e).__name__}: {str(e)[:80]}'
            if bad:
                chk.violation('property_violation', case={'fixture': fn, 'ix': ix2s(ix)}, predicate='proxy[ix] ' + why)

    mod = R.finish()
    chk.extra['targets'] = len(targets)
    chk.extra['proxy_instances'] = sum(len(t.cache) for t in targets)
    chk.extra['unproved_statements'] = UNPROVED
    chk.extra['constant_conditions'] = ([] if C['have_igzip'] else ['indexed_gzip not installed: igzip=on never exercised'])
    chk.exhaustive = False
    vm(chk, R, mod)
    for t in targets:
        for p, full, fobjs in t.cache.values():
            for f, _ in fobjs:
                try:
                    f.close()
                except Exception:
                    pass


UNPROVED = [
    'mmap-independence of np.asarray(proxy) for a RANK-0 proxy (shape ()): REFUTED (C03_mmap_rank0_refuted; array_from_file '
    'keeps its len(shape)==0 early return); no image format yields rank 0, proved for rank >= 1 incl. zero-length axes as '
    'C03_mmap_independent_partial',
    'MINC at the bit level: integer images with float64 image-min/-max and valid_range (ModelS.minc_elem; C03_minc_bitexact) and '
    'float-typed images (returned as read; C03_getitem_eq_index_minc_float) are modelled, proved and compared bit for bit; float32 '
    'image-min/-max variables and valid_min/valid_max attributes instead of valid_range are not',
    'the per-proxy bit-level theorems (C03_afni_bitexact, C03_parrec_bitexact + C03_parrec_raw_is_record, C03_ecat_bitexact, '
    'C03_minc_bitexact) take the per-slab factor VALUES as given lists: how the headers produce them (AFNI BRICK_FLOAT_FACS with 0 -> 1, '
    'PAR dv/fp formulas, ECAT calibration*frame factor fields) is computed by the harness from the file and tied by the bit-level '
    'correspondence only',
    'non-finite scale factors (NaN/inf slope or intercept: the headers map them to "no scaling" before the proxy sees them), '
    'requested dtypes other than float32/float64 (np.asarray(proxy, dtype=int...)), float16 and longdouble ON-DISK dtypes, and '
    'NaN payload/sign bits of results are outside the bit-level model and its correspondence (raw float data are finite)',
    'the decoding of an element\'s bytes to its value (`decode` in C03_scaled_partial_read_bitexact) is any function: byte order and '
    'two\'s complement are C10\'s subject; the harness decodes with NumPy',
    'that the openers (gzip/bz2/zstd/indexed_gzip, keep_file_open policies, mmap) satisfy the reader contract reader_ok is an '
    'oracle premise, exercised by the configuration grid, not proved; locking is C14',
    'MINC: netCDF / h5py decoding and h5py\'s own slicing (with the fall-back to slicing the whole array) are the np_index '
    'oracle; ECAT: the theorem covers any frame-order table, the correspondence only files with frames stored in order; '
    'PARRECArrayProxy with scaling=None does not occur (get_data_scaling always returns factors) and is not modelled',
]


def run_reshape(chk, R, W, rng, nib, targets):
    """ArrayProxy.reshape / CIFTI-2: same bytes, new shape.  Model: `reshape` op + ap on the new shape."""
    from nibabel.cifti2 import Cifti2Header, Cifti2Image, cifti2_axes as ax
    from nibabel.arrayproxy import ArrayProxy
    lines, exp = [], {}
    # CIFTI-2 images saved through nibabel, loaded back: dataobj is a RESHAPED proxy.  Storage: float32 without
    # scaling; int16 1000.. stored as uint8 by the writer (slope 1, inter 1000); uint8 with the NIfTI-2 scl_slope /
    # scl_inter fields patched to (slope != 1, inter 0) and (slope != 1, inter != 0)
    cif = [((3, 4), 'f4', None, None), ((3, 4), 'i2', np.uint8, None), ((2, 5), 'u1', None, (2.0, 0.0)),
           ((4, 3), 'u1', None, (0.5, -7.5)), ((2, 3), 'u1', None, (1.0, 8.0))]
    for rep, ((nr, nc), ddt, store, patch) in enumerate(cif):
        hdr = Cifti2Header.from_axes((ax.SeriesAxis(0, 1, nr), ax.ScalarAxis(['s%d' % i for i in range(nc)])))
        if ddt == 'i2':
            data = (1000 + (np.arange(nr * nc) * 7) % 256).astype(np.int16).reshape(nr, nc)
        else:
            data = L.raw_values(nr * nc, ddt, salt=rep).reshape(nr, nc).astype(ddt)
        pth = os.path.join(W, f'cifti_{rep}.nii')
        with warnings.catch_warnings():
            warnings.simplefilter('ignore')
            im = Cifti2Image(data, hdr)
            if store is not None:
                im.set_data_dtype(store)
            im.to_filename(pth)
        if patch is not None:
            with open(pth, 'r+b') as f:
                f.seek(176)
                f.write(np.array(patch, '<f8').tobytes())
        plain = open(pth, 'rb').read()
        import io
        h2 = nib.Nifti2Header.from_fileobj(io.BytesIO(plain))
        off = int(np.frombuffer(plain[168:176], '<i8')[0])           # NIfTI-2 vox_offset
        fdt = h2.get_data_dtype()
        sl, it = h2.get_slope_inter()
        raw = np.frombuffer(plain, fdt, count=nr * nc, offset=off)
        spec = dict(kind='ap', shape=(nr, nc), raw=raw, order='F', fac_of_elem=np.zeros(nr * nc, int),
                    slopes=None if sl is None else [float(sl)], inters=None if sl is None else [float(it or 0.0)],
                    w=fdt.itemsize, off=off, dtype=fdt, one_file=True, hdr_file=pth, img_file=pth)
        t = Target(f'cifti_{rep}', spec, {'plain': pth}, build_loader(Cifti2Image), comps=('plain',), mmaps=MMAPS, kfos=(True, False),
                   srcs=('path',), igz=(True,))
        t.plain_size = len(plain)
        t.gen = {'g': 'cifti', 'shape': [nr, nc], 'scl': [None if sl is None else float(sl), None if sl is None else float(it or 0.0)]}
        targets.append(t)
        chk.tagc(f'G7:cifti-scl:slope{"=1" if sl is None or float(sl) == 1.0 else "!=1"},inter{"=0" if sl is None or not it else "!=0"}')
        gi = 0
        for ix in [(), (Ellipsis,), (slice(None, None, -1),), (1,), (slice(None), slice(1, None, 2)), (None, -1, slice(None, None, -2))] + \
                  [rand_index(rng, (nr, nc)) for _ in range(chk.n(40, 200))]:
            R.case(t, t.cfgs[gi % len(t.cfgs)], ix, 'G7:cifti2-reshaped')
            gi += 1
        # independent statements about the CIFTI file: the matrix is the F-order data block over (1,1,1,1,nr,nc), scaled by
        # the header's factors; what was saved comes back (exact here: integer / dyadic values)
        exp_m = L.expected_flat(spec).reshape((nr, nc), order='F')
        if patch is None and not np.array_equal(exp_m, data):
            chk.violation('property_violation', case={'target': t.name, 'gen': t.gen, 'what': 'cifti layout'},
                          predicate='CIFTI-2 data block (F order, scaled by the header factors) is not the saved matrix')
        # the reshaped proxy carries the un-reshaped NIfTI proxy's factors
        with warnings.catch_warnings():
            warnings.simplefilter('ignore')
            n2 = nib.Nifti2Image.from_filename(pth)
            c2 = Cifti2Image.from_filename(pth)
        f0 = np.asarray(n2.dataobj)
        f1 = np.asarray(c2.dataobj)
        chk.count(key=('cifti-vs-nifti', rep), tag='G7:cifti-vs-unreshaped')
        if (not np.array_equal(f1, f0.reshape((nr, nc), order='F')) or not np.array_equal(f1, exp_m)
                or (c2.dataobj.slope, c2.dataobj.inter) != (n2.dataobj.slope, n2.dataobj.inter)):
            chk.violation('property_violation', case={'target': t.name, 'gen': t.gen, 'cfg': [str(c) for c in t.cfgs[0]], 'ix': '()',
                                                      'what': 'asarray'},
                          impl_output={'reshaped': f1.ravel(order='F')[:6].tolist(), 'unreshaped': f0.ravel(order='F')[:6].tolist(),
                                       'factors': [str(c2.dataobj.slope), str(c2.dataobj.inter), str(n2.dataobj.slope), str(n2.dataobj.inter)]},
                          predicate='CIFTI-2 (reshaped) proxy differs from the un-reshaped NIfTI-2 proxy of the same file / from raw*slope+inter')
    # ArrayProxy.reshape on a direct proxy and on proxies of NIfTI-1 files: every factorisation incl. one -1, under
    # (slope, inter) in {(!=1, !=0), (1, !=0), (!=1, 0), (1, 0)}
    base, rawfile = reshape_file(W)
    shapes0 = [(2, 3, 4), (24,), (4, 6), (1, 1, 1, 1, 6, 4)]
    news = [(24,), (6, 4), (4, 6), (2, 12), (-1, 4), (3, -1), (2, -1, 2), (-1,), (2, 3, 4), (5, 5), (-1, -1), (-1, 5), (0, -1), (24, 1, -1)]
    ri = 0
    nv = 0

    def report(res, fails, nix, case):
        nonlocal nv
        chk.tagc('G7:reshape-index', nix)
        chk.evaluations += nix
        for why, ixs_ in fails:
            nv += 1
            if nv <= 2:
                chk.violation('property_violation', case=dict(case, ix=ixs_), predicate=why)
            else:
                chk.violations.append(('property_violation', chk.violations[-1][1], True))

    for si, s0 in enumerate(shapes0):
        for order in 'FC':
            for mm in (True, False):
                for sci, scl_ in enumerate(RESHAPE_SCL):
                    for ni, ns in enumerate(news):
                        if sci and (ni + si) % 3:          # all factorisations under the first pair, a third under the others
                            continue
                        cid = f'r{ri}'
                        ri += 1
                        lines.append(f'{cid} reshape {lst(s0)} {lst(ns)}')
                        chk.count(key=('reshape', s0, ns, order, mm, scl_), tag='G7:reshape')
                        chk.tagc(f'G7:reshape-scl:{scl_}')
                        ixs = lambda shape: [rand_index(rng, shape, bad=0.0) for _ in range(3)]
                        res, fails, nix = reshape_eval(base, rawfile, s0, ns, order, mm, ixs, scl_)
                        exp[cid] = res
                        report(res, fails, nix, {'reshape': [list(s0), list(ns)], 'order': order, 'mmap': mm, 'scl': list(scl_), 'via': 'direct'})
    for sci, scl_ in enumerate(RESHAPE_SCL):
        for mm in (True, False):
            for ns in news:
                chk.count(key=('reshape-nifti', ns, mm, scl_), tag='G7:reshape-nifti')
                ixs = lambda shape: [rand_index(rng, shape, bad=0.0) for _ in range(2)]
                res, fails, nix = reshape_eval_nifti(W, ns, mm, ixs, scl_)
                report(res, fails, nix, {'reshape': [[2, 3, 4], list(ns)], 'order': 'F', 'mmap': mm, 'scl': list(scl_), 'via': 'nifti'})
    mod = run_model_parallel(PROP, lines)
    bad = 0
    for cid, e in exp.items():
        if mod.get(cid) != e:
            bad += 1
            chk.disagreements += 1
            if bad <= 2:
                chk.violation('correspondence', case=[l for l in lines if l.startswith(cid + ' ')][0], model_output=mod.get(cid),
                              impl_output=e, predicate='ap_reshape model and ArrayProxy.reshape disagree', found_input=False,
                              theorem='correspondence C03/Model.v ap_reshape <-> ArrayProxy.reshape')


def rand_factor(rng, kind):
    """a finite, generally non-dyadic scale factor as the header / caller hands it over: Python float (float64),
    np.float32 or np.float64; a few structured values (1, 0, tiny, huge)"""
    r = rng.random()
    if r < 0.70:
        v = rng.choice([-1, 1, 1, 1]) * 10 ** rng.uniform(-6, 6) * rng.uniform(0.5, 1.5)
    elif r < 0.78:
        v = 1.0
    elif r < 0.86:
        v = 0.0
    elif r < 0.90:
        v = rng.choice([1e-50, 3e-42, 1.0000001, 0.99999994, -0.0])
    elif r < 0.96:
        v = rng.choice([3e38, 1.7e38, 2.5e36, 1e300, 1.2e308, 5e304])
    else:
        v = float(rng.randrange(-1000, 1000))
    with np.errstate(over='ignore'):
        if kind == 'f32':
            x = np.float32(v)
            return x if np.isfinite(x) else np.float32(3e38)
        if kind == 'f64':
            return np.float64(v)
        if kind == 'py32':                     # Python float holding a float32-representable value (NIfTI-1 fields)
            x = np.float32(v)
            return float(x if np.isfinite(x) else np.float32(3e38))
    return float(v)


def rand_raw(rng, dt, n):
    dt = np.dtype(dt)
    if dt.kind in 'iu':
        ii = np.iinfo(dt)
        vals = [ii.min, ii.max, 0, 1, ii.max - 1] + [rng.randrange(ii.min, ii.max + 1) for _ in range(n)]
        return np.array(vals[:n] if n <= 5 else vals[:5] + vals[5:n], dtype=dt)
    w = dt.itemsize * 8
    out = []
    while len(out) < n:
        bits = rng.getrandbits(w)
        v = np.array([bits], dtype='u%d' % dt.itemsize).view(dt.newbyteorder('='))[0]
        if np.isfinite(v):
            out.append(v)
    out[:3] = [dt.type(0.0), dt.type(-0.0), dt.type(1.0)][:min(3, n)]
    return np.array(out, dtype=dt.newbyteorder('='))


def scl_line(cid, disk_dt, slope, inter, req, raw):
    ks, ki = L.fid_of(slope), L.fid_of(inter)
    toks = ' '.join(L.val_tok(v, disk_dt) for v in raw)
    return (f"{cid} scl {L.dtype_tok(disk_dt)} {ks} {L.float_to_sf(slope, ks)} {ki} {L.float_to_sf(inter, ki)} "
            f"{'-' if req is None else req} {len(raw)} {toks}")


def run_bitexact(chk, R, W, rng, nib, targets):
    """ArrayProxy._get_scaled / apply_read_scaling bit for bit: np.asarray(proxy), np.asarray(proxy, dtype=f32|f64),
    img.get_fdata(dtype=...), dataobj[...] and random partial reads against the Flocq model (ModelS.v), for on-disk
    u1/i1/u2/i2/i4/u4/i8/f4/f8 and random finite float32/float64/Python-float factors; result dtype independent of the index"""
    from nibabel.arrayproxy import ArrayProxy
    disk = ['u1', 'i2', 'i4', 'f4', 'f8', 'i1', 'u2', 'u4', 'i8']
    plans = []
    lines = []
    nt = chk.n(140, 1200)
    # --- direct proxies: any factor dtype
    for rep in range(nt):
        dt = np.dtype(disk[rep % len(disk)]).newbyteorder(rng.choice('<>'))
        shape = tuple(rng.choice([1, 2, 3, 4]) for _ in range(rng.choice([1, 2, 3])))
        n = int(np.prod(shape))
        raw = rand_raw(rng, dt, n)
        slope = rand_factor(rng, rng.choice(['py', 'f32', 'f32', 'f64', 'py32']))
        inter = rand_factor(rng, rng.choice(['py', 'py', 'f32', 'f64', 'py32']))
        off = rng.choice([0, 3, 16])
        pth = os.path.join(W, f'bx_{rep}.bin')
        with open(pth, 'wb') as f:
            f.write(b'\x33' * off + raw.astype(dt).tobytes())
        plans.append(dict(name=f'bx_{rep}', kind='direct', path=pth, dt=dt, shape=shape, raw=raw, slope=slope, inter=inter, off=off))
    # --- files behind nib.load: the header's fields decide dtype and value of the factors
    fmts = [(nib.Nifti1Image, 'nii1', 'py32', 'py32'), (nib.Nifti2Image, 'nii2', 'py', 'py'),
            (nib.Spm99AnalyzeImage, 'spm99', 'f32', None), (nib.Spm2AnalyzeImage, 'spm2', 'py32', None), (nib.Nifti1Pair, 'nii1p', 'py32', 'py32')]
    for rep in range(chk.n(40, 300)):
        klass, nm, sk, ik = fmts[rep % len(fmts)]
        dts = rng.choice(['u1', 'i2', 'i4', 'f4', 'f8'] if nm.startswith('nii') else ['u1', 'i2', 'i4', 'f4'])
        endian = rng.choice('<>')
        shape = tuple(rng.choice([1, 2, 3, 4]) for _ in range(3))
        n = int(np.prod(shape))
        raw = rand_raw(rng, dts, n)
        slope = rand_factor(rng, sk)
        while not np.isfinite(np.float32(slope) if nm != 'nii2' else slope) or float(slope) == 0.0:
            slope = rand_factor(rng, sk)
        inter = rand_factor(rng, ik) if ik else 0.0
        base = os.path.join(W, f'bxf_{rep}')
        hdr = klass.header_class(endianness=endian)
        hdr.set_data_shape(shape)
        hdr.set_data_dtype(dts)
        try:
            hdr.set_slope_inter(slope, inter)
        except Exception:
            continue
        exts = dict(klass.files_types)
        one = exts['image'] == exts.get('header', exts['image'])
        off = (352 if klass is nib.Nifti1Image else 544) if one else 0
        hdr.set_data_offset(off)
        with open(base + exts.get('header', exts['image']), 'wb') as f:
            hdr.write_to(f)
            if one:
                f.write(b'\0' * (off - f.tell()) + raw.astype(np.dtype(dts).newbyteorder(endian)).tobytes())
        if not one:
            with open(base + exts['image'], 'wb') as f:
                f.write(raw.astype(np.dtype(dts).newbyteorder(endian)).tobytes())
        # the factors NumPy will see, from the header bytes on disk: NIfTI/SPM2 -> Python floats, SPM99 slope -> float32 scalar
        with open(base + exts.get('header', exts['image']), 'rb') as f:
            hb = klass.header_class.from_fileobj(f)
        fs, fi = hb.get_slope_inter()
        if fs is None:
            fs, fi = 1.0, 0.0
        fs = np.float32(fs) if nm == 'spm99' else float(fs)
        fi = 0.0 if fi is None else float(fi)
        plans.append(dict(name=f'bxf_{rep}_{nm}', kind='file', klass=klass, path=base + exts['image'], dt=np.dtype(dts).newbyteorder(endian),
                          shape=shape, raw=raw, slope=fs, inter=fi, off=off))
    for i, pl in enumerate(plans):
        for req in (None, 1, 2):
            lines.append(scl_line(f'b{i}.{req}', pl['dt'], pl['slope'], pl['inter'], req, pl['raw']))
    mod = run_model_parallel(PROP, lines)
    nbad = 0

    def bad(pl, what, model, impl):
        nonlocal nbad
        nbad += 1
        chk.disagreements += 1
        if nbad <= 4:
            chk.violation('correspondence', case={'bitexact': pl['name'], 'disk_dtype': str(pl['dt']), 'shape': list(pl['shape']),
                                                  'slope': [repr(pl['slope']), str(np.asanyarray(pl['slope']).dtype)],
                                                  'inter': [repr(pl['inter']), str(np.asanyarray(pl['inter']).dtype)],
                                                  'raw': [repr(v) for v in pl['raw'][:8].tolist()], 'what': what},
                          model_output=model, impl_output=impl,
                          predicate='BIT-LEVEL: the Flocq model of ArrayProxy._get_scaled / apply_read_scaling (ModelS.v) and the '
                                    'implementation disagree on ' + what, found_input=True,
                          theorem='correspondence C03/ModelS.v <-> volumeutils.apply_read_scaling / ArrayProxy._get_scaled')

    def show(a):
        a = np.asarray(a)
        return f'{a.dtype} ' + ' '.join(float(v).hex() if a.dtype.kind == 'f' else str(v) for v in a.ravel(order="F")[:6].tolist())

    for i, pl in enumerate(plans):
        m = {req: L.parse_model_array(mod.get(f'b{i}.{req}', '')) for req in (None, 1, 2)}
        mmap = rng.choice(MMAPS)
        with warnings.catch_warnings(), np.errstate(all='ignore'):
            warnings.simplefilter('ignore')
            if pl['kind'] == 'direct':
                p = ArrayProxy(pl['path'], (pl['shape'], pl['dt'], pl['off'], pl['slope'], pl['inter']), mmap=mmap)
                img = None
            else:
                img = pl['klass'].from_filename(pl['path'], mmap=mmap)
                p = img.dataobj
                if (L.fid_of(p.slope), L.fid_of(p.inter)) != (L.fid_of(pl['slope']), L.fid_of(pl['inter'])) or \
                        float(p.slope) != float(pl['slope']) or float(p.inter) != float(pl['inter']):
                    bad(pl, 'the factors the proxy holds vs the header fields', f"{pl['slope']!r} {pl['inter']!r}", f'{p.slope!r} {p.inter!r}')
                    continue
            chk.count(key=('bitexact', pl['name']), tag='G9:bitexact:' + pl['kind'])
            chk.tagc('G9:disk:' + str(np.dtype(pl['dt']).newbyteorder('=')))
            chk.tagc('G9:slope-dtype:' + str(np.asanyarray(pl['slope']).dtype) + ',inter:' + str(np.asanyarray(pl['inter']).dtype))
            try:
                full = np.asarray(p)
            except ValueError as e:
                full = None
                if m[None] is not None:
                    bad(pl, 'np.asarray(proxy) raised', show(m[None]), repr(e)[:100])
                else:
                    chk.refusal('scaling_overflow')
                continue
            if m[None] is None:
                bad(pl, 'np.asarray(proxy): the model says int_scinter_ftype overflows', 'err overflow', show(full))
                continue
            mfull = m[None].reshape(pl['shape'], order='F')
            chk.tagc('G9:result:' + str(full.dtype.newbyteorder('=')))
            if not L.same_bits(full, mfull):
                bad(pl, 'np.asarray(proxy)', show(mfull), show(full))
                continue
            for req, ft in ((1, np.float32), (2, np.float64)):
                got = np.asarray(p, dtype=ft)
                if not L.same_bits(got, m[req].reshape(pl['shape'], order='F')):
                    bad(pl, f'np.asarray(proxy, dtype={np.dtype(ft)})', show(m[req]), show(got))
                if img is not None:
                    gf = img.get_fdata(dtype=ft, caching='unchanged')
                    if not L.same_bits(gf, m[req].reshape(pl['shape'], order='F')):
                        bad(pl, f'img.get_fdata(dtype={np.dtype(ft)})', show(m[req]), show(gf))
            # dataobj[...] vs np.asarray, and the dtype of every partial read
            ell = p[...]
            if not L.same_bits(ell, full):
                chk.violation('property_violation', case={'bitexact': pl['name'], 'ix': 'e'}, predicate='proxy[...] differs bitwise from np.asarray(proxy) '
                              f'({show(ell)} vs {show(full)})')
        # partial reads through the ordinary machinery: values = model_full[element index], compared bit for bit
        spec = dict(kind='ap', shape=tuple(pl['shape']), raw=pl['raw'], order='F', fac_of_elem=np.zeros(len(pl['raw']), int), slopes=[1.0], inters=[0.0],
                    w=np.dtype(pl['dt']).itemsize, off=pl['off'], dtype=pl['dt'], one_file=True, model_full=m[None])
        if pl['kind'] == 'direct':
            def build(t, cfg, pl=pl):
                return ArrayProxy(pl['path'], (pl['shape'], pl['dt'], pl['off'], pl['slope'], pl['inter']), mmap=cfg[0], keep_file_open=cfg[1]), []
        else:
            def build(t, cfg, pl=pl):
                return pl['klass'].from_filename(pl['path'], mmap=cfg[0], keep_file_open=cfg[1]).dataobj, []
        t = Target(pl['name'], spec, {'plain': pl['path']}, build, comps=('plain',), mmaps=(True, False), kfos=(True, False), srcs=('path',))
        t.exp = m[None]
        t.gen = {'g': 'bitexact', 'name': pl['name']}
        targets.append(t)
        for j in range(chk.n(12, 40)):
            ix = rand_index(rng, pl['shape'], bad=0.0) if j else tuple(0 for _ in pl['shape'])
            R.case(t, t.cfgs[(i + j) % len(t.cfgs)], ix, 'G9:bitexact-partial-read')
    # --- AFNI / PAR-REC / ECAT with non-dyadic factors: one model line per factor group
    others = []
    for rep in range(chk.n(2, 8)):
        facs = [round(rng.uniform(0.0005, 30.0), 6) for _ in range(3)]
        if rep % 2:
            facs[1] = 0.0
        shape = tuple(rng.choice([1, 2, 3]) for _ in range(3)) + (3,)
        ddt = ['<i2', 'u1', '<f4'][rep % 3]
        head, brik, spec = L.write_afni(os.path.join(W, f'bxafni_{rep}'), shape, facs, dtype=ddt, salt=rep)
        spec['raw'] = rand_raw(rng, ddt, len(spec['raw']))
        with open(brik, 'wb') as f:
            f.write(np.asarray(spec['raw']).astype(ddt).tobytes())
        m3 = int(np.prod(shape[:3]))
        groups = [(f"afe {L.dtype_tok(ddt)} {L.float_to_sf(1.0 if v == 0 else v, 2)}", slice(j * m3, (j + 1) * m3)) for j, v in enumerate(facs)]

        def build(t, cfg, head=head, brik=brik):
            from nibabel.brikhead import AFNIImage
            from nibabel.fileholders import FileHolder
            return AFNIImage.from_file_map({'header': FileHolder(head), 'image': FileHolder(brik)}, mmap=cfg[0], keep_file_open=cfg[1]).dataobj, []
        others.append((f'bxafni_{rep}', spec, groups, build, brik))
    from nibabel.parrec import PARRECImage
    for rep in range(chk.n(2, 8)):
        shape = (rng.choice([2, 3]), rng.choice([2, 3]), 3, 2)
        scaling = ['dv', 'fp'][rep % 2]
        par, rec, spec = L.write_parrec(os.path.join(W, f'bxpar_{rep}'), shape, ['shuffled', 'sorted'][rep % 2], rng, scaling=scaling, nondyadic=True)
        spec['raw'] = rand_raw(rng, '<u2', len(spec['raw']))
        with open(rec, 'wb') as f:
            f.write(np.asarray(spec['raw']).tobytes())
        m2 = spec['m']
        # the factors as get_data_scaling computes them (float64 arithmetic on the parsed header values)
        rs, ri, ss = (np.array(spec[k], dtype=np.float64) for k in ('rs', 'ri', 'ss'))
        sl, it = (rs, ri) if scaling == 'dv' else (1.0 / ss, ri / (rs * ss))
        groups = [(f"pre I0:16 {L.float_to_sf(sl[k], 2)} {L.float_to_sf(it[k], 2)}", slice(k * m2, (k + 1) * m2)) for k in range(spec['nrec'])]

        def build(t, cfg, par=par, scaling=scaling):
            return PARRECImage.from_filename(par, mmap=cfg[0], scaling=scaling).dataobj, []
        others.append((f'bxpar_{rep}_{scaling}', spec, groups, build, rec))
    from nibabel.ecat import EcatImage
    for rep in range(chk.n(2, 6)):
        fs, nfr = (rng.choice([2, 3]), rng.choice([2, 3]), 2), 3
        pth, _, spec = L.write_ecat(os.path.join(W, f'bxecat_{rep}.v'), fs, nfr, rng, nondyadic=True)
        m3 = int(np.prod(fs))
        groups = [(f"ece I1:16 {L.float_to_sf(spec['calib'], 2)} {L.float_to_sf(spec['sfacs'][j], 2)}", slice(j * m3, (j + 1) * m3)) for j in range(nfr)]

        def build(t, cfg, pth=pth):
            return EcatImage.load(pth).dataobj, []
        others.append((f'bxecat_{rep}', spec, groups, build, pth))
    from nibabel.minc1 import Minc1Image
    from nibabel.minc2 import Minc2Image
    for rep in range(chk.n(6, 24)):
        ver = 1 + rep % 2
        shape = tuple(rng.choice([1, 2, 3]) for _ in range(3))
        ns = rep % 3
        code, ddt = [('h', '>i2'), ('b', 'i1'), ('i', '>i4')][(rep // 2) % 3] if ver == 1 else ('h', ['<i2', 'u1', '<i4'][(rep // 2) % 3])
        vr = rng.choice([(0.0, 4095.0), (-100.0, 100.0), (float(np.iinfo(ddt).min), float(np.iinfo(ddt).max))])
        if vr[0] < np.iinfo(ddt).min or vr[1] > np.iinfo(ddt).max:
            vr = (float(np.iinfo(ddt).min), float(np.iinfo(ddt).max))
        nl = int(np.prod(shape[:ns])) if ns else 1
        imin = np.array([rng.uniform(-50, 50) for _ in range(nl)])
        imax = imin + np.array([10 ** rng.uniform(-3, 4) for _ in range(nl)])
        raw = rand_raw(rng, ddt, int(np.prod(shape)))
        if vr[1] - vr[0] < 1000:            # keep most values inside the valid range, some outside (clipped)
            raw = np.where(np.arange(raw.size) % 3 == 0, raw, (raw.astype(np.int64) % 150 - 75)).astype(ddt)
        pth = os.path.join(W, f'bxminc{ver}_{rep}.mnc')
        if ver == 1:
            _, _, spec = L.write_minc1(pth, shape, ns, raw=raw, factors=(imin, imax), vr=vr, code=code)
        else:
            _, _, spec = L.write_minc2(pth, shape, ns, dtype=ddt, raw=raw, factors=(imin, imax), vr=vr)
        m_ = int(np.prod(shape[ns:])) if ns else int(np.prod(shape))
        f64 = lambda x: L.float_to_sf(float(x), 2)
        groups = [(f"mne {L.dtype_tok(ddt)} {f64(vr[0])} {f64(vr[1])} {f64(imin[j])} {f64(imax[j])}", slice(j * m_, (j + 1) * m_)) for j in range(nl)]
        klass = Minc1Image if ver == 1 else Minc2Image

        def build(t, cfg, pth=pth, klass=klass):
            return klass.from_filename(pth).dataobj, []
        others.append((f'bxminc{ver}_{rep}', spec, groups, build, pth))
    olines = []
    for oi, (name, spec, groups, build, pth) in enumerate(others):
        raw = np.asarray(spec['raw'])
        for gi_, (head_, sl_) in enumerate(groups):
            vals_ = raw[sl_]
            olines.append(f"o{oi}.{gi_} {head_} {len(vals_)} " + ' '.join(L.val_tok(v, raw.dtype) for v in vals_))
    omod = run_model_parallel(PROP, olines)
    for oi, (name, spec, groups, build, pth) in enumerate(others):
        parts = [L.parse_model_array(omod.get(f'o{oi}.{gi_}', '')) for gi_ in range(len(groups))]
        if any(x is None for x in parts):
            chk.disagreements += 1
            chk.violation('correspondence', case={'bitexact': name}, model_output=str([omod.get(f'o{oi}.{g}', '')[:60] for g in range(len(groups))]),
                          predicate='element-arithmetic model did not answer', found_input=False, theorem='C03/ModelS.v')
            continue
        spec = dict(spec, model_full=np.concatenate(parts))
        comps = ('plain',)
        t = Target(name, spec, {'plain': pth}, build, comps=comps, mmaps=(True, False), kfos=((True, False) if spec['kind'] == 'afni' else (None,)), srcs=('path',))
        if spec['kind'] == 'parrec':        # output element e of the array is REC element ind[e // m] * m + e % m
            e_ = np.arange(int(np.prod(spec['shape'])))
            t.exp = spec['model_full'][np.asarray(spec['ind'])[e_ // spec['m']] * spec['m'] + e_ % spec['m']]
        else:
            t.exp = spec['model_full']
        t.gen = {'g': 'bitexact-' + spec['kind'], 'name': name}
        targets.append(t)
        chk.count(key=('bitexact', name), tag='G9:bitexact:' + spec['kind'])
        for j in range(chk.n(25, 80)):
            ix = rand_index(rng, spec['shape'], bad=0.0) if j > 1 else [(), tuple(0 for _ in spec['shape'])][j]
            R.case(t, t.cfgs[(oi + j) % len(t.cfgs)], ix, 'G9:bitexact-partial-read:' + spec['kind'])
    chk.extra['bitexact_targets'] = len(plans) + len(others)
    chk.extra['bitexact_mismatches'] = nbad


def reshape_file(W):
    rawfile = L.raw_values(64, np.dtype('<i2'), salt=9)
    base = os.path.join(W, 'reshape.bin')
    with open(base, 'wb') as f:
        f.write(b'\0' * 6 + rawfile.tobytes())
    return base, rawfile


RESHAPE_SCL = [(0.5, 4.0), (1.0, 1000.0), (2.0, 0.0), (1.0, 0.0)]


def reshape_eval(base, rawfile, s0, ns, order, mm, ixs, scl=(0.5, 4.0)):
    """ArrayProxy(shape s0, slope, inter).reshape(ns): (model-comparable result, [(failed predicate, ix)], #index cases)"""
    from nibabel.arrayproxy import ArrayProxy
    p0 = ArrayProxy(base, (tuple(s0), np.dtype('<i2'), 6, scl[0], scl[1]), mmap=mm, order=order)
    want = rawfile[:24].astype(np.float64) * scl[0] + scl[1]
    return reshape_eval_proxy(p0, want, ns, ixs, order)


def reshape_eval_nifti(W, ns, mm, ixs, scl):
    """img.dataobj.reshape(ns) for a NIfTI-1 file written with scl_slope / scl_inter = scl"""
    import nibabel as nib
    base = os.path.join(W, 'reshape_nii_%s_%s' % scl)
    if not os.path.exists(base + '.nii'):
        L.write_analyze_like(nib.Nifti1Image, base, (2, 3, 4), 'i2', scl[0], scl[1], salt=5)
    raw = L.raw_values(24, 'i2', 5)
    with warnings.catch_warnings():
        warnings.simplefilter('ignore')
        img = nib.load(base + '.nii', mmap=mm)
    want = raw.astype(np.float64) * scl[0] + scl[1]
    return reshape_eval_proxy(img.dataobj, want, ns, ixs, 'F')


def reshape_eval_proxy(p0, want, ns, ixs, order):
    """reshaped proxy vs (a) raw*slope+inter in F order, (b) the un-reshaped proxy, (c) its own indexing"""
    full0 = np.asarray(p0)
    fails = []
    nix = 0
    try:
        with warnings.catch_warnings():
            warnings.simplefilter('ignore')
            p1 = p0.reshape(tuple(ns))
    except ValueError:
        return 'err value', fails, nix
    full1 = np.asarray(p1)
    # same bytes, same factors: F-order flattening of the reshaped proxy = stored elements, scaled
    if not np.array_equal(full1.ravel(order='F'), want) or full1.shape != tuple(p1.shape):
        fails.append(('reshaped proxy does not present the same stored elements (F order) scaled by the same slope/intercept '
                      '(raw*slope+inter)', '()'))
    # the reshaped proxy has the un-reshaped proxy's factors and, when that one is F-ordered, equals its F-order reshape
    if (p1.slope, p1.inter) != (p0.slope, p0.inter):
        fails.append((f'reshaped proxy has factors ({p1.slope}, {p1.inter}), the proxy it came from ({p0.slope}, {p0.inter})', '()'))
    if order == 'F' and not np.array_equal(full1, np.reshape(full0, p1.shape, order='F')):
        fails.append(('reshape(proxy) != np.reshape(np.asarray(proxy), shape, order="F")', '()'))
    if native(full1).dtype != native(full0).dtype:
        fails.append((f'reshaped proxy yields dtype {full1.dtype}, the un-reshaped one {full0.dtype}', '()'))
    for ix in (ixs(tuple(p1.shape)) if callable(ixs) else ixs):
        if isinstance(ix, str):
            ix = s2ix(ix)
        try:
            w_ = full1[ix]
        except Exception:
            continue
        nix += 1
        try:
            g_ = p1[ix]
            bad = g_.shape != w_.shape or native(g_).tobytes() != native(w_).tobytes()
        except Exception:
            bad = True
        if bad:
            fails.append(('reshaped proxy[ix] != np.asarray(reshaped proxy)[ix]', ix2s(ix)))
    return 'ok ' + lst(p1.shape), fails, nix


def coq_ix(toks):
    out = []
    if toks != '()':
        for t in toks.split(','):
            if t == 'n':
                out.append('INew')
            elif t == 'e':
                out.append('IEll')
            elif t[0] == 'i':
                out.append(f'IInt ({t[1:]})')
            else:
                a, b, c = [('None' if v == '_' else f'(Some ({v}))') for v in t[1:].split(':')]
                out.append(f'ISl (mkSl {a} {b} {c})')
    return '[' + ';'.join(out) + ']'


def coq_zl(s):
    return '[' + ';'.join(x for x in s[1:-1].split(',') if x) + ']'


def vm(chk, R, mod):
    """cross-check extraction + driver against vm_compute inside coqc on a small fixed sample"""
    pairs = []
    want = {'ap': 12, 'afni': 5, 'ecat': 5, 'parrec': 4}
    for line in R.lines[::53]:
        cid, op, *a = line.split()
        r = mod.get(cid, '')
        if want.get(op, 0) <= 0 or not r.startswith('ok '):
            continue
        _, sh, el, fl = r.split(' ')
        if el.count(',') > 40:
            continue
        if op == 'ap':
            mm, o, shape, w, off, ix = a
            n = int(np.prod([int(x) for x in shape[1:-1].split(',') if x]))
            if n > 64:
                continue
            term = (f'ap_getitem (file_reader (index_file {off} {w} {n})) sc {("true" if mm == "1" else "false")} {coq_zl(shape)} {w} {off} '
                    f'{"OrdC" if o == "C" else "OrdF"} 0 {coq_ix(ix)}')
        elif op == 'afni':
            mm, shape, w, off, hf, ix = a
            dims = [int(x) for x in shape[1:-1].split(',')]
            n = int(np.prod(dims))
            if n > 64 or hf != '1':
                continue
            term = (f'afni_getitem (file_reader (index_file {off} {w} {n})) sc nsc (-7) {("true" if mm == "1" else "false")} {coq_zl(shape)} {w} {off} '
                    f'(Some (zseq {dims[-1]})) {coq_ix(ix)}')
        elif op == 'ecat':
            mm, sh3, nfr, w, fmap, gap, ix = a
            d3 = [int(x) for x in sh3[1:-1].split(',')]
            m = int(np.prod(d3))
            nfr = int(nfr)
            if m * nfr > 100:
                continue
            foffs = '[' + ';'.join(str(j * (m + 3) * int(w)) for j in range(nfr)) + ']'
            term = (f'ecat_getitem (file_reader (index_file 0 {w} {nfr * (m + 3)})) sc (-7) (-9,-9) {("true" if mm == "1" else "false")} {coq_zl(sh3)} {nfr} {w} '
                    f'{coq_zl(fmap)} {foffs} (zseq {nfr}) {coq_ix(ix)}')
        else:
            mm, shape, nrec, ind, w, ix = a
            dims = [int(x) for x in shape[1:-1].split(',')]
            m = dims[0] * dims[1]
            if m * int(nrec) > 100:
                continue
            term = (f'parrec_getitem (file_reader (index_file 0 {w} {m * int(nrec)})) sc (-7) {("true" if mm == "1" else "false")} {coq_zl(shape)} {nrec} '
                    f'{coq_zl(ind)} {w} (zseq {nrec}) {coq_ix(ix)}')
        want[op] -= 1
        pairs.append((f'match {term} with Ok (s, l) => zlist_eqb s {coq_zl(sh)} && zlist_eqb (map fst l) {coq_zl(el)} '
                      f'&& zlist_eqb (map snd l) {coq_zl(fl)} | Err _ => false end', line))
    imports = ('From Coq Require Import ZArith List Bool. Import ListNotations. Open Scope Z_scope.\n'
               'From NV Require Import Base.PySlice C06.Model C03.Model.\n'
               'Definition sc (f : Z) (e : list Z) : Z * Z := (dec_be e, f).\n'
               'Definition nsc (e : list Z) : Z * Z := (dec_be e, -1).\n')
    ncase, bad = vm_crosscheck(PROP, imports, pairs)
    chk.vm = {'cases': ncase, 'disagreements': len(bad)}
    if bad:
        chk.disagreements += 1
        chk.violation('correspondence', case={'vm_crosscheck': [str(pairs[b][1]) if isinstance(b, int) and b < len(pairs) else str(b) for b in bad][:5]},
                      predicate='extracted model disagrees with vm_compute evaluation of the model', found_input=False,
                      theorem='extraction cross-check')


def replay(chk, obj):
    """re-create the target from its generator description and re-evaluate the direct predicate"""
    import shutil
    try:
        return _replay(chk, obj)
    finally:
        shutil.rmtree(chk.workdir, ignore_errors=True)


def _replay(chk, obj):
    ensure_impl_path()
    c = obj.get('case')
    if obj.get('inputs') and isinstance(obj['inputs'], dict) and obj['inputs'].get('probe_fn'):
        import defect_probes
        r = defect_probes.PROBES[obj['inputs']['probe_fn']]()
        print('defect present' if r else 'defect absent')
        return 1 if r else 0
    if isinstance(c, dict) and 'reshape' in c:
        scl = tuple(c.get('scl') or (0.5, 4.0))
        if c.get('via') == 'nifti':
            res, fails, _ = reshape_eval_nifti(chk.workdir, c['reshape'][1], c['mmap'], [c.get('ix') or '()'], scl)
        else:
            base, rawfile = reshape_file(chk.workdir)
            res, fails, _ = reshape_eval(base, rawfile, c['reshape'][0], c['reshape'][1], c['order'], c['mmap'], [c.get('ix') or '()'], scl)
        import shutil
        shutil.rmtree(chk.workdir, ignore_errors=True)
        print(res, fails)
        print('property fails on this case' if fails else 'property holds on this case')
        return 1 if fails else 0
    if isinstance(c, dict) and 'fixture' in c:
        import nibabel as nib
        img = nib.load(os.path.join(L.data_dir(), c['fixture']))
        full = np.asarray(img.dataobj)
        ix = s2ix(c['ix'])
        got, want = img.dataobj[ix], full[ix]
        bad = got.shape != want.shape or native(got).tobytes() != native(want).tobytes()
        print('property fails on this case' if bad else 'property holds on this case')
        return 1 if bad else 0
    if not isinstance(c, dict) or 'ix' not in c or 'gen' not in c:
        print('nothing to replay:', obj.get('predicate'))
        return 1
    import random
    chk.rng = random.Random(obj.get('seed', 0))
    chk.tier = obj.get('tier', 'quick')
    hits = []
    chk.violation = lambda *a, **k: chk.violations.append(('replay', '', True)) or ''

    class Stop(Exception):
        pass
    R = Runner(chk)
    orig_case = R.case

    def only(t, cfg, ix, tag, sample=False):
        if t.name != c['target'] or [str(x) for x in cfg] != c['cfg']:
            return
        n0 = len(chk.violations) + len(chk.known_hits)
        if c.get('what') in ('asarray', 'history'):
            t.proxy(cfg, chk)
        elif ix2s(ix) == c['ix']:
            orig_case(t, cfg, ix, tag)
        else:
            return
        hits.append(len(chk.violations) + len(chk.known_hits) > n0)
        raise Stop()
    R.case = only
    R.finish = lambda: {}
    import nibabel as nib
    import nibabel.openers as openers
    from nibabel.ecat import EcatImage
    C['have_igzip'] = bool(openers.HAVE_INDEXED_GZIP)
    C['full_viol'] = 0
    C['hist_viol'] = 0
    try:
        _run(chk, R, chk.workdir, chk.rng, nib, EcatImage)
    except Stop:
        pass
    import shutil
    shutil.rmtree(chk.workdir, ignore_errors=True)
    if not hits:
        print('case not regenerated (generator changed?)')
        return 1
    print('property fails on this case' if hits[0] else 'property holds on this case')
    return 1 if hits[0] else 0
