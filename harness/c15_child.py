"""C15 child process: runs operation histories on the real ArraySequence.

Histories run here and not in the check process because shrink_data / _resize_data_to use
ndarray.resize(refcheck=False): a stale element view would point into freed memory, so a
defect may crash the interpreter.  No element array is ever held across a step; nothing but the
`seqs` list holds a reference to a sequence object, and nothing at all holds `_data`.

stdin : one history per line  `<id> <shape> <kind> <op> <op> ...`  (op grammar: coq/C15/driver.ml;
        shape = trailing dims joined by 'x'; kind = f|i: element dtype is <kind><bpr / rows size>;
        a bpr field '?' in exts/cat is replaced by that of the source's first element)
stdout: `<id>\t<ops as executed>\t<step>;<step>...\t<layout>;<layout>...`  with
        step = <res>#<obs> exactly as printed by the model driver, and
        layout = per live sequence `<i>=<id(_data) number>,<is_view>:<off>.<len>,<off>.<len>...` joined by '&'
"""
import os
import sys
import warnings

import numpy as np


NAMES = {'add': 'add', 'sub': 'sub', 'mul': 'mul', 'lt': 'lt', 'eq': 'eq', 'or': 'or_', 'and': 'and_', 'xor': 'xor',
         'shl': 'lshift', 'shr': 'rshift'}
INAMES = {'add': 'iadd', 'sub': 'isub', 'mul': 'imul', 'or': 'ior', 'and': 'iand', 'xor': 'ixor',
          'shl': 'ilshift', 'shr': 'irshift'}


def run_tract(toks, rows_of, enc_elem):
    """Tractogram layer: `<id> T <op> ...` -> `<id>\t<ops>\t<step>;...\t` with
    step = <res>#<i>=<streamlines>|<data_per_point['c'] or ~>|<data_per_streamline['m'] or ~>&...
    ops: tnew:<elems> ('-' = Tractogram()), tnew8:<elems> (float64 points), tadd:i:j, tiadd:i:j, tcopy:i, tget:i:<idx>,
    tset:i:k:v / tsetp:i:k:v / tsetm:i:k:v (element k of streamlines / data_per_point['c'] /
    data_per_streamline['m']),
    tsets:i:<idx>:v / tsetsp:i:<idx>:v, tiop:i:<fn> / tiopp:i:<fn> (in-place arithmetic),
    taff:i:<k> (apply_affine of a translation by k), tdrop:i.
    A streamline row of value v is [v, v, v]; its per-point datum is v + 1000, the per-streamline
    datum 'm' is first value + 5000."""
    import operator
    from nibabel.streamlines import Tractogram

    def mk(estr, dtype='f4'):
        if estr == '-':
            return Tractogram()
        els = [[] if e == 'e' else [int(v) for v in e.split('.')] for e in estr.split('/')]
        sl = [np.array([[v, v, v] for v in e], dtype=dtype).reshape(len(e), 3) for e in els]
        pp = [np.array([[v + 1000] for v in e], dtype='f4').reshape(len(e), 1) for e in els]
        ps = np.array([[(e[0] if e else 0) + 5000] for e in els], dtype='f4').reshape(len(els), 1)
        return Tractogram(sl, data_per_point={'c': pp}, data_per_streamline={'m': ps}, affine_to_rasmm=np.eye(4))

    def index(s):
        p = s.split(',')
        if p[0] == 's':
            return slice(*[None if x == 'n' else int(x) for x in p[1:]])
        if p[0] == 'l':
            return [int(x) for x in p[1:]]
        return np.array([x == '1' for x in p[1:]], dtype=bool)

    def enc(seq):
        els = [rows_of(x) for x in seq]
        return '-' if not els else '/'.join(enc_elem(e) for e in els)

    def observe(ts):
        parts = []
        for i, t in enumerate(ts):
            if t is None:
                continue
            pp = enc(t.data_per_point['c']) if 'c' in t.data_per_point else '~'
            if 'm' in t.data_per_streamline:
                m = t.data_per_streamline['m']
                pm = '-' if len(m) == 0 else '/'.join(enc_elem(rows_of(m[r:r + 1])) for r in range(len(m)))
            else:
                pm = '~'
            parts.append(f'{i}={enc(t.streamlines)}|{pp}|{pm}')
        return '&'.join(parts)

    def fn_apply(seq, fn):
        p = fn.split(',')
        return getattr(operator, 'i' + p[0])(seq, int(p[1]))

    hid = toks[0]
    ts, steps = [], []
    for tok in toks[2:]:
        f = tok.split(':')
        res = 'ok'
        try:
            o = f[0]
            if o == 'tnew':
                ts.append(mk(f[1]))
            elif o == 'tnew8':
                ts.append(mk(f[1], 'f8'))      # float64 points: np.dot(out=) works in place
            elif o == 'tadd':
                ts.append(ts[int(f[1])] + ts[int(f[2])])
            elif o == 'tiadd':
                t = ts[int(f[1])]
                t += ts[int(f[2])]
                del t
            elif o == 'tcopy':
                ts.append(ts[int(f[1])].copy())
            elif o == 'tget':
                ts.append(ts[int(f[1])][index(f[2])])
            elif o == 'tset':
                ts[int(f[1])].streamlines[int(f[2])] = int(f[3])
            elif o == 'tsetp':
                ts[int(f[1])].data_per_point['c'][int(f[2])] = int(f[3])
            elif o == 'tsetm':
                ts[int(f[1])].data_per_streamline['m'][int(f[2])] = int(f[3])
            elif o == 'tsets':
                ts[int(f[1])].streamlines[index(f[2])] = int(f[3])
            elif o == 'tsetsp':
                ts[int(f[1])].data_per_point['c'][index(f[2])] = int(f[3])
            elif o == 'tiop':
                s_ = ts[int(f[1])].streamlines
                fn_apply(s_, f[2])
                del s_
            elif o == 'tiopp':
                s_ = ts[int(f[1])].data_per_point['c']
                fn_apply(s_, f[2])
                del s_
            elif o == 'taff':
                aff = np.eye(4)
                aff[:3, 3] = int(f[2])
                ts[int(f[1])].apply_affine(aff)       # lazy=False: "performed in-place"
            elif o == 'tdrop':
                ts[int(f[1])] = None
            else:
                res = 'err:BadOp'
        except IndexError:
            res = 'err:Index'
        except ValueError:
            res = 'err:Value'
        except KeyError:
            res = 'err:Key'
        except StopIteration:
            res = 'err:StopIteration'
        except Exception as e:
            res = 'err:Other:' + type(e).__name__
        steps.append(res + '#' + observe(ts))
    sys.stdout.write(hid + '\t' + ' '.join(toks[2:]) + '\t' + ';'.join(steps) + '\t\n')
    sys.stdout.flush()


def main():
    warnings.simplefilter('ignore')
    import nibabel
    want = os.environ.get('VERIF_REPO', '/repo')
    got = os.path.dirname(os.path.dirname(os.path.abspath(nibabel.__file__)))
    if os.path.realpath(got) != os.path.realpath(want):
        print('#BADPATH', got)
        return 2
    from nibabel.streamlines.array_sequence import ArraySequence, concatenate
    import operator

    def enc_elem(vals):
        return 'e' if not vals else '.'.join(str(v) for v in vals)

    CAT_BASE = 100003
    width = [None]        # first trailing dim of the elements of the current history

    def rows_of(x):
        """one integer per row of an element array; '?' when a row is not constant/integral.  A row
        of a concatenate(axis=1) result (k blocks of the history's width) is coded positionally:
        v0 + B*(v1 + B*(v2 ...)), as coq/C15/Model.v:zip_rows does."""
        x = np.asarray(x)
        w = width[0]
        if w and x.ndim >= 2 and x.shape[1] > w and x.shape[1] % w == 0:
            k = x.shape[1] // w
            parts = [rows_of(x[:, b * w:(b + 1) * w]) for b in range(k)]
            out = []
            for r in range(x.shape[0]):
                vals = [p[r] for p in parts]
                if any(v == '?' for v in vals):
                    out.append('?')
                    continue
                acc = 0
                for v in reversed(vals):
                    acc = v + CAT_BASE * acc
                out.append(acc)
            return out
        out = []
        for r in range(x.shape[0]):
            row = x[r].reshape(-1)
            try:
                v = row[0]
                if not np.all(row == v):
                    out.append('?')
                    continue
                if isinstance(v, (np.bool_, bool)):
                    out.append(int(v))
                elif float(v) != int(v):
                    out.append('?')
                else:
                    out.append(int(v))
            except Exception:
                out.append('?')
        return out

    def root_of(a):
        # the array that owns the memory (seq[idx, cols] holds a column view of its parent's buffer)
        while isinstance(a.base, np.ndarray):
            a = a.base
        return a

    # ---- the ONE place where the sequence's storage is read ------------------------------------------------
    # The subject of C15 is who shares a buffer with whom.  What the check needs per object is (buffer identity,
    # (offset, length) of every element).  Both are read from BEHAVIOUR first: the arrays handed out by iterating the
    # object are views into the buffer, so the memory-owning array at the end of their .base chain is the buffer and
    # (address of the element - address of the buffer) / row stride is the offset.  Private attributes are only
    # consulted for what behaviour cannot show (the buffer of an object without elements, the is_view flag), through
    # a list of plausible names; if none answers, the object gets a buffer of its own, '#DEGRADED' is printed and the
    # parent compares sharing among objects with elements only.  A private rename therefore degrades, never crashes.
    DATA_NAMES = ('_data', '_buffer', '_buf', '_rows', '_values', '_array', '_arr')
    OFFS_NAMES = ('_offsets', 'offsets', '_starts', '_offs')
    LENS_NAMES = ('_lengths', 'lengths', '_lens', '_counts', '_sizes')
    VIEW_NAMES = ('_is_view', 'is_view', '_view', '_isview', '_is_a_view')
    degraded = set()
    told = []

    def _attr(s, names, ok):
        for n in names:
            try:
                v = getattr(s, n)
            except Exception:
                continue
            try:
                if ok(v):
                    return v
            except Exception:
                continue
        return None

    def _behaviour(elems):
        if not elems:
            return None
        root = root_of(elems[0])
        if any(root_of(x) is not root for x in elems[1:]):
            return None
        if root.ndim < 1 or root.shape[0] == 0 or root.strides[0] <= 0:
            return None
        rp, st = root.__array_interface__['data'][0], root.strides[0]
        ol = []
        for x in elems:
            d = x.__array_interface__['data'][0] - rp
            if d < 0 or d // st + len(x) > root.shape[0]:
                return None
            ol.append((d // st, len(x)))
        return id(root), ol

    def _private(s, n):
        is1d = lambda v: isinstance(v, np.ndarray) and v.ndim == 1 and len(v) == n and v.dtype.kind in 'iu'
        data = _attr(s, DATA_NAMES, lambda v: isinstance(v, np.ndarray) and v.ndim >= 1)
        offs = _attr(s, OFFS_NAMES, is1d)
        lens = _attr(s, LENS_NAMES, is1d)
        if data is None or offs is None or lens is None:
            return None
        return id(root_of(data)), [(int(o), int(l)) for o, l in zip(offs, lens)]

    def seq_state(s, elems):
        """(buffer identity, is_view flag or 0, [(offset, length)]) of one object; elems = list(iter(s))"""
        got = _behaviour(elems)
        if got is None:
            got = _private(s, len(elems))
            if got is None:
                data = _attr(s, DATA_NAMES, lambda v: isinstance(v, np.ndarray))
                if data is not None and not elems:
                    got = (id(root_of(data)), [])
                else:
                    degraded.add('buffer of an object without elements' if not elems else 'layout')
                    got = (('own', id(s)), [(0, len(x)) for x in elems] if elems else [])
        v = _attr(s, VIEW_NAMES, lambda v: isinstance(v, (bool, np.bool_, int)))
        return got[0], int(bool(v)) if v is not None else 0, got[1]

    def observe(seqs):
        canon = {}
        parts = []
        lay = []
        for i, s in enumerate(seqs):
            if s is None:
                continue
            elems = list(s)
            own, isv, ol = seq_state(s, elems)
            k = canon.setdefault(own, len(canon))
            els = [rows_of(x) for x in elems]          # copied out immediately
            # dtype kind of the arrays the object hands out (b / i / f; '?' without elements): what NumPy's casting
            # rule for in-place operators depends on
            kd = elems[0].dtype.kind if elems else '?'
            kd = 'i' if kd == 'u' else kd if kd in 'bif' else '?'
            del elems
            parts.append(f'{i}@{k}=' + ('-' if not els else '/'.join(enc_elem(e) for e in els)))
            lay.append(f'{i}={k},{isv}{kd}:' + ','.join(f'{o}.{l}' for o, l in ol))
        return '&'.join(parts), '&'.join(lay)

    for line in sys.stdin:
        toks = line.split()
        if not toks:
            continue
        if toks[1] == 'T':
            width[0] = None
            run_tract(toks, rows_of, enc_elem)
            continue
        hid, shape, kind = toks[0], toks[1], toks[2]
        cs = tuple(int(d) for d in shape.split('x'))
        width[0] = cs[0]
        nrow = int(np.prod(cs))

        def dt(bpr):
            return np.dtype(f'{kind}{int(bpr) // nrow}')

        def arr(estr, bpr):
            vals = [] if estr in ('e', '') else [int(v) for v in estr.split('.')]
            a = np.empty((len(vals),) + cs, dtype=dt(bpr))
            for r, v in enumerate(vals):
                a[r] = v
            return a

        def arrs(s, bpr):
            return [] if s == '-' else [arr(e, bpr) for e in s.split('/')]

        def bsz(by):
            return int(by) / 2.0 ** 20

        def index(s):
            p = s.split(',')
            if p[0] == 's':
                return slice(*[None if x == 'n' else int(x) for x in p[1:]])
            if p[0] == 'l':
                return [int(x) for x in p[1:]]
            return np.array([x == '1' for x in p[1:]], dtype=bool)

        def bpr_of(s):
            if len(s) == 0:
                return 0
            e0 = np.asarray(s[0])
            r = int(e0.dtype.itemsize) * nrow
            del e0
            return r

        seqs = []
        steps, lays, echo = [], [], []
        for tok in toks[3:]:
            f = tok.split(':')
            res = 'ok'
            try:
                o = f[0]
                if o == 'new':
                    els = arrs(f[4], f[2])
                    kw = {} if int(f[1]) == 4194304 else {'buffer_size': bsz(f[1])}
                    it = els if f[3] == '1' else (e for e in els)
                    tmp = ArraySequence(it, **kw)
                    seqs.append(tmp)
                    del els, it, tmp
                elif o == 'app':
                    seqs[int(f[1])].append(arr(f[4], f[2]), cache_build=(f[3] == '1'))
                elif o == 'fin':
                    seqs[int(f[1])].finalize_append()
                elif o == 'ext':
                    els = arrs(f[4], f[2])
                    seqs[int(f[1])].extend(els if f[3] == '1' else (e for e in els))
                    del els
                elif o == 'exts':
                    if f[2] == '?':
                        f[2] = str(bpr_of(seqs[int(f[3])]))
                        tok = ':'.join(f)
                    seqs[int(f[1])].extend(seqs[int(f[3])])
                elif o == 'geti':
                    x = seqs[int(f[1])][int(f[2])]
                    res = 'el=' + enc_elem(rows_of(x))
                    del x
                elif o == 'get':
                    seqs.append(seqs[int(f[1])][index(f[2])])
                elif o == 'view':
                    kw = {} if int(f[2]) == 4194304 else {'buffer_size': bsz(f[2])}
                    seqs.append(ArraySequence(seqs[int(f[1])], **kw))
                elif o == 'copy':
                    seqs.append(seqs[int(f[1])].copy())
                elif o == 'dcopy':
                    import copy as _copy
                    seqs.append(_copy.deepcopy(seqs[int(f[1])]))
                elif o == 'seti':
                    seqs[int(f[1])][int(f[2])] = int(f[3])
                elif o == 'setr':
                    seqs[int(f[1])][int(f[2])] = arr(f[3], 8 * nrow)
                elif o == 'set':
                    v = seqs[int(f[3][1:])] if f[3][0] == 'q' else int(f[3][1:])
                    seqs[int(f[1])][index(f[2])] = v
                    del v
                elif o == 'op':
                    s = seqs[int(f[1])]
                    fn = f[2].split(',')
                    inplace = f[3] == '1'
                    if fn[0] == 'neg':
                        r = -s
                    else:
                        k = int(fn[1])
                        if inplace:
                            r = getattr(operator, INAMES[fn[0]])(s, k)
                        else:
                            r = getattr(operator, NAMES[fn[0]])(s, k)
                    if inplace:
                        # `v <op>= k` rebinds the name to whatever the operator returns
                        if r is not s:
                            res = 'ok:rebound'
                        seqs[int(f[1])] = r
                    else:
                        seqs.append(r)
                    del r, s
                elif o == 'opq':
                    s = seqs[int(f[1])]
                    t = seqs[int(f[3])]
                    if f[4] == '1':
                        r = getattr(operator, INAMES[f[2]])(s, t)
                        if r is not s:
                            res = 'ok:rebound'
                        seqs[int(f[1])] = r
                    else:
                        seqs.append(getattr(operator, NAMES[f[2]])(s, t))
                        r = None
                    del r, s, t
                elif o == 'cat':
                    pairs = [p.split(',') for p in f[1].split(';')] if f[1] else []
                    for p in pairs:
                        if p[1] == '?':
                            p[1] = str(bpr_of(seqs[int(p[0])]))
                    tok = 'cat:' + ';'.join(','.join(p) for p in pairs)
                    seqs.append(concatenate([seqs[int(p[0])] for p in pairs], axis=0))
                elif o == 'drop':
                    seqs[int(f[1])] = None
                elif o == 'extbad':
                    # extend(good + [an element of 1 row with another trailing shape] + [extra-1 further rows])
                    els = arrs(f[4], f[2])
                    els.append(np.zeros((1, cs[0] + 3) + cs[1:], dtype=dt(f[2])))
                    if int(f[5]) > 1:
                        els.append(arr('.'.join(['5'] * (int(f[5]) - 1)), f[2]))
                    seqs[int(f[1])].extend(els if f[3] == '1' else (e for e in els))
                    del els
                elif o == 'appbad':
                    # a non-empty element whose trailing shape does not match (nor broadcast)
                    if len(f) > 2 and f[2] == 'b':       # a shape NumPy would broadcast silently: (1, 1, ...)
                        bad = np.full((1, 1) + cs[1:], 7, dtype=dt(8 * nrow))
                    else:
                        bad = np.zeros((1, cs[0] + 3) + cs[1:], dtype=dt(8 * nrow))
                    seqs[int(f[1])].append(bad)
                    del bad
                elif o == 'shrink':
                    seqs[int(f[1])].shrink_data()
                elif o == 'gett':
                    seqs.append(seqs[int(f[1])][index(f[2]), int(f[3]):int(f[4])])
                elif o == 'cat1':
                    seqs.append(concatenate([seqs[int(j)] for j in f[1].split(',')], axis=1))
                else:
                    res = 'err:BadOp'
            except IndexError:
                res = 'err:Index'
            except ValueError:
                res = 'err:Value'
            except StopIteration:
                res = 'err:StopIteration'
            except TypeError:
                # by class only: numpy's UFuncTypeError (an in-place operator whose result dtype cannot be cast
                # 'same_kind' to the buffer's dtype) is a TypeError
                res = 'err:Type'
            except Exception as e:  # anything else is reported by name
                res = 'err:Other:' + type(e).__name__
            ob, lay = observe(seqs)
            steps.append(res + '#' + ob)
            lays.append(lay)
            echo.append(tok)
        sys.stdout.write(hid + '\t' + ' '.join(echo) + '\t' + ';'.join(steps) + '\t' + ';'.join(lays) + '\n')
        if degraded and not told:
            told.append(1)
            sys.stdout.write('#DEGRADED ' + '; '.join(sorted(degraded)) + '\n')
        sys.stdout.flush()
        del seqs
    return 0


if __name__ == '__main__':
    sys.exit(main())
