"""C18 — CIFTI-2 axes, header XML and matrix data stay mutually consistent.

Model: coq/C18/Model.v (resolve/select = NumPy 1-D indexing; ser_* = SeriesAxis; sc_/lab_/par_ =
Scalar/Label/ParcelsAxis; bm_* = BrainModelAxis incl. iter_structures, to_mapping,
from_index_mapping, __eq__; to_header/get_axis; img_save/img_load).  Theorems: coq/C18/Props.v.

Case lines sent to bin/modelrun_c18 (grammar: coq/C18/driver.ml):
  resolve <n> <idx> | ser_get <ser> <idx> | ser_add <ser> <ser> | sc_get/lab_get/par_get <axis> <idx>
  sc_add/lab_add/par_add/bm_add <axis> <axis> | bm_get <bm> <idx> | bm_runs/bm_map/bm_rt <bm>
  setext <exts> <xmlid> | eq <axis> <axis> | header <k> <axis>*k | file <datashape> <k> <axis>*k
Every Python value the code only moves (names, metadata dicts, label tables, parcel voxel tables /
vertex dicts, units) is interned to an integer by content, so a changed value gets a new id.

Per case: (1) SPEC validation  model `resolve` vs np.arange(n)[idx];
          (2) CORRESPONDENCE   model axis op vs the implementation's axis op (canonical strings);
          (3) PROPERTY         implementation alone: len / element descriptions of axis[idx] vs
              np.arange(n)[idx] applied to the element list and to a data matrix along that
              dimension; concatenation vs list concatenation; header/XML/file round trips vs the
              original axes (== both ways, element descriptions) and data.
"""
import io
import itertools
import os
import warnings

import numpy as np

from common import Check, ensure_impl_path, run_model, vm_crosscheck

PROP = 'C18'

# findings of this property that the coordinator may enter into known_findings.json; matched
# structurally (site + input shape), never by message text alone
LOCAL_FINDINGS = {
    'S-C18c': 'map names (Scalar/LabelAxis), metadata keys/values and label names with leading/trailing '
              'whitespace come back stripped from the XML, an empty map name comes back as "None" '
              '(Cifti2Parser.flush_chardata strips character data); silent',
}

SCALE = 4          # affines and dyadic series values are sent to the model as integers * SCALE
UNITS = ['SECOND', 'HERTZ', 'METER', 'RADIAN']


MAX_REPLAYS = 25


def viol(chk, *a, **k):
    """chk.violation, but at most MAX_REPLAYS replay files per run (a broken operation fails on
    thousands of cases); the rest is counted in the evidence"""
    if len(chk.violations) < MAX_REPLAYS:
        return chk.violation(*a, **k)
    chk.extra['violations_without_replay_file'] = chk.extra.get('violations_without_replay_file', 0) + 1
    return None


# --------------------------------------------------------------------------- interning
class Intern:
    def __init__(self):
        self.tab = {}

    def __call__(self, kind, value):
        key = (kind, value)
        if key not in self.tab:
            self.tab[key] = len(self.tab) + 1
        return self.tab[key]


INT = Intern()
STRUCTS = None


def struct_id(name):
    return STRUCTS.index(str(name)) + 1


def canon_meta(m):
    return tuple(sorted((str(k), str(v)) for k, v in dict(m).items()))


def canon_label(l):
    return tuple(sorted((int(k), str(v[0]), tuple(float(x) for x in v[1])) for k, v in dict(l).items()))


def canon_vox(v):
    return tuple(tuple(int(x) for x in row) for row in np.asarray(v).reshape(-1, 3))


def canon_vert(d):
    return tuple(sorted((str(k), tuple(int(x) for x in np.asarray(v).ravel())) for k, v in dict(d).items()))


def lst(l):
    return '[' + ','.join(str(int(x)) for x in l) + ']'


def sc_int(x):
    """x * SCALE as an exact integer (raises if not representable)"""
    v = float(x) * SCALE
    if v != int(v):
        raise ValueError(f'value {x!r} is not a multiple of 1/{SCALE}')
    return int(v)


def vol_tok(affine, shape):
    if affine is None:
        return '_'
    return lst([sc_int(x) for x in np.asarray(affine).ravel()] + [int(s) for s in shape])


def nv_tok(nv):
    return lst([x for k, v in nv.items() for x in (struct_id(k), int(v))])


# --------------------------------------------------------------------------- canonical forms of axes
def bm_tok(a):
    return ' '.join([lst(struct_id(n) for n in a.name), lst(np.asarray(a.voxel).ravel()), lst(a.vertex),
                     vol_tok(a.affine, a.volume_shape), nv_tok(a.nvertices)])


def bm_elems(a):
    out = []
    for n, vx, vt in zip(a.name, a.voxel, a.vertex):
        if str(n) in a.nvertices:
            out.append(('S', struct_id(n), (int(vt),)))
        else:
            out.append(('V', struct_id(n), tuple(int(x) for x in vx)))
    return out


def elems_tok(el):
    return ';'.join(f'{k}:{n}:{lst(ix)}' for k, n, ix in el)


def bm_full(a):
    return bm_tok(a) + ' elems=' + elems_tok(bm_elems(a))


def par_tok(a):
    return ' '.join([lst(INT('name', str(n)) for n in a.name), lst(INT('vox', canon_vox(v)) for v in a.voxels),
                     lst(INT('vert', canon_vert(v)) for v in a.vertices), vol_tok(a.affine, a.volume_shape),
                     nv_tok(a.nvertices)])


def par_elems(a):
    return [(str(n), canon_vox(v), canon_vert(d)) for n, v, d in zip(a.name, a.voxels, a.vertices)]


def sc_tok(a):
    return lst(INT('name', str(n)) for n in a.name) + ' ' + lst(INT('meta', canon_meta(m)) for m in a.meta)


def sc_elems(a):
    return [(str(n), canon_meta(m)) for n, m in zip(a.name, a.meta)]


def lab_tok(a):
    return ' '.join([lst(INT('name', str(n)) for n in a.name), lst(INT('label', canon_label(l)) for l in a.label),
                     lst(INT('meta', canon_meta(m)) for m in a.meta)])


def lab_elems(a):
    return [(str(n), canon_label(l), canon_meta(m)) for n, l, m in zip(a.name, a.label, a.meta)]


def ser_tok(a):
    return f'{sc_int(a.start)} {sc_int(a.step)} {int(a.size)} {UNITS.index(a.unit) + 1}'


def ser_elems(a):
    return [sc_int(t) for t in a.time]


def kind_of(a):
    return type(a).__name__[0] if type(a).__name__ != 'SeriesAxis' else 'T'


KIND = {'BrainModelAxis': 'B', 'ParcelsAxis': 'P', 'ScalarAxis': 'S', 'LabelAxis': 'L', 'SeriesAxis': 'T'}
TOK = {'B': bm_tok, 'P': par_tok, 'S': sc_tok, 'L': lab_tok, 'T': ser_tok}
ELEMS = {'B': bm_elems, 'P': par_elems, 'S': sc_elems, 'L': lab_elems, 'T': ser_elems}
GETOP = {'B': 'bm_get', 'P': 'par_get', 'S': 'sc_get', 'L': 'lab_get', 'T': 'ser_get'}
ADDOP = {'B': 'bm_add', 'P': 'par_add', 'S': 'sc_add', 'L': 'lab_add', 'T': 'ser_add'}


def kd(a):
    return KIND[type(a).__name__]


def axis_tok(a):
    return kd(a) + ' ' + TOK[kd(a)](a)


def axis_out(a):
    """what the model prints for an axis result of <kind>_get / <kind>_add"""
    k = kd(a)
    if k == 'B':
        return bm_full(a)
    if k == 'T':
        return ser_tok(a) + ' time=' + lst(ser_elems(a))
    return TOK[k](a)


def axis_desc(a):
    """JSON-able description for replay files"""
    k = kd(a)
    if k == 'B':
        return {'kind': 'B', 'name': [str(n) for n in a.name], 'voxel': np.asarray(a.voxel).tolist(),
                'vertex': [int(v) for v in a.vertex], 'affine': None if a.affine is None else np.asarray(a.affine).tolist(),
                'shape': None if a.volume_shape is None else list(a.volume_shape), 'nvertices': dict(a.nvertices)}
    if k == 'P':
        return {'kind': 'P', 'name': [str(n) for n in a.name], 'voxels': [np.asarray(v).tolist() for v in a.voxels],
                'vertices': [{str(k2): [int(x) for x in v] for k2, v in d.items()} for d in a.vertices],
                'affine': None if a.affine is None else np.asarray(a.affine).tolist(),
                'shape': None if a.volume_shape is None else list(a.volume_shape), 'nvertices': dict(a.nvertices)}
    if k == 'S':
        return {'kind': 'S', 'name': [str(n) for n in a.name], 'meta': [dict(m) for m in a.meta]}
    if k == 'L':
        return {'kind': 'L', 'name': [str(n) for n in a.name], 'meta': [dict(m) for m in a.meta],
                'label': [[(int(k2), v[0], list(v[1])) for k2, v in l.items()] for l in a.label]}
    return {'kind': 'T', 'start': a.start, 'step': a.step, 'size': int(a.size), 'unit': a.unit}


def axis_from_desc(d):
    from nibabel.cifti2 import cifti2_axes as ax
    k = d['kind']
    if k == 'B':
        return ax.BrainModelAxis(d['name'], np.array(d['voxel']).reshape(-1, 3), d['vertex'],
                                 None if d['affine'] is None else np.array(d['affine']),
                                 None if d['shape'] is None else tuple(d['shape']), d['nvertices'])
    if k == 'P':
        return ax.ParcelsAxis(d['name'], [np.array(v, dtype=int).reshape(-1, 3) for v in d['voxels']],
                              [{k2: np.array(v) for k2, v in dd.items()} for dd in d['vertices']],
                              None if d['affine'] is None else np.array(d['affine']),
                              None if d['shape'] is None else tuple(d['shape']), d['nvertices'])
    if k == 'S':
        return ax.ScalarAxis(d['name'], d['meta'])
    if k == 'L':
        return ax.LabelAxis(d['name'], [{k2: (n, tuple(c)) for k2, n, c in l} for l in d['label']], d['meta'])
    return ax.SeriesAxis(d['start'], d['step'], d['size'], d['unit'])


# --------------------------------------------------------------------------- indices
def o2s(v):
    return '_' if v is None else str(int(v))


def idx_tok(ix):
    if isinstance(ix, slice):
        return f's{o2s(ix.start)}:{o2s(ix.stop)}:{o2s(ix.step)}'
    if isinstance(ix, (int, np.integer)) and not isinstance(ix, (bool, np.bool_)):
        return f'i{int(ix)}'
    a = np.asarray(ix)
    if a.dtype == bool:
        return 'm' + lst(int(x) for x in a)
    return 'l' + lst(a)


def idx_desc(ix):
    if isinstance(ix, slice):
        return {'slice': [ix.start, ix.stop, ix.step]}
    if isinstance(ix, (int, np.integer)) and not isinstance(ix, (bool, np.bool_)):
        return {'int': int(ix)}
    a = np.asarray(ix)
    if a.dtype == bool:
        return {'mask': [bool(x) for x in a]}
    return {'list': [int(x) for x in a]}


def idx_from_desc(d):
    if 'slice' in d:
        return slice(*d['slice'])
    if 'int' in d:
        return int(d['int'])
    if 'mask' in d:
        return np.array(d['mask'], dtype=bool)
    return np.array(d['list'], dtype=int)


def all_slices(n, steps=(None, 1, 2, 3, -1, -2, -3)):
    vals = [None] + list(range(-n - 2, n + 3))
    return [slice(a, b, c) for a in vals for b in vals for c in steps]


def err_enum(e):
    """canonical error class of an implementation exception"""
    if isinstance(e, IndexError):
        return 'index'
    if isinstance(e, ValueError):
        m = str(e)
        if 'step cannot be zero' in m:
            return 'step0'
        if 'different brain volume' in m or 'Affine and volume shape should be defined' in m:
            return 'volume'
        if 'Undefined vertex indices' in m or 'Undefined voxel indices' in m:
            return 'negative'
        if 'inconsistent number of vertices' in m:
            return 'nvert'
        if 'same step' in m:
            return 'step'
        if 'same unit' in m:
            return 'unit'
        if 'does not match shape' in m:
            return 'datashape'
        return 'value:' + m[:40]
    return 'other:' + type(e).__name__


def sample_indices(rng, n, kind, nsl):
    """non-int indices for an axis of length n: special slices + a random sample of all slices
    (bounds in [-n-2, n+2] | None, steps in [-3,3]\\{0} | None), index arrays, masks"""
    out = [slice(None), slice(None, None, -1), slice(None, None, 2), slice(n, None), slice(-n - 2, None),
           slice(None, -n - 2), slice(1, None, 2), slice(None, None, -2), slice(0, 0), slice(n + 2, 0, -1)]
    vals = [None] + list(range(-n - 2, n + 3))
    for _ in range(nsl):
        out.append(slice(rng.choice(vals), rng.choice(vals), rng.choice([None, None, 1, 2, 3, -1, -1, -2, -3])))
    if kind != 'T':
        out.append(np.array([], dtype=int))
        out.append(np.zeros(n, dtype=bool))
        out.append(np.ones(n, dtype=bool))
        out.append(np.ones(n + 1, dtype=bool))          # wrong length -> IndexError
        out.append(np.array([n], dtype=int))            # out of range
        out.append(np.array([-n - 1], dtype=int))
        if n:
            out.append(np.arange(n)[::-1].copy())
            out.append(np.array([rng.randrange(-n, n) for _ in range(rng.randrange(1, 2 * n + 2))], dtype=int))
            out.append(np.array([rng.randrange(-n, n) for _ in range(rng.randrange(1, n + 1))], dtype=int))
            out.append([rng.randrange(-n, n) for _ in range(rng.randrange(1, n + 1))])      # plain list
            p = list(range(n)); rng.shuffle(p)
            out.append(np.array(p, dtype=int))          # permutation (interleaves structures)
            for _ in range(3):
                out.append(np.array([rng.random() < 0.5 for _ in range(n)], dtype=bool))
    return out


# --------------------------------------------------------------------------- generators
NAMES = ['a', 'b', 'thickness', 'curv', 'x y', 'a<b&c>"d\'', 'éü中', 'p\tq', 'n0', 'n1', 'n2', 'a  b', '0', 'None']
METAS = [{}, {'k': 'v'}, {'a': '1', 'b': '2'}, {'key<&>': 'val "q"'}, {'e': ''}, {'ü': '中'}, {'long': 'x' * 40}]
AFFINES = [np.eye(4), np.diag([2., 2., 2., 1.]),
           np.array([[-2, 0, 0, 90], [0, 2, 0, -126], [0, 0, 2, -72], [0, 0, 0, 1.]]),
           np.array([[0, 1.5, 0, -4.25], [0.5, 0, 0, 3], [0, 0, -0.25, 7.75], [0, 0, 0, 1.]])]
SURF_STRUCTS = ['CIFTI_STRUCTURE_CORTEX_LEFT', 'CIFTI_STRUCTURE_CORTEX_RIGHT', 'CIFTI_STRUCTURE_CEREBELLUM',
                'CIFTI_STRUCTURE_CORTEX']
VOL_STRUCTS = ['CIFTI_STRUCTURE_THALAMUS_LEFT', 'CIFTI_STRUCTURE_THALAMUS_RIGHT', 'CIFTI_STRUCTURE_BRAIN_STEM',
               'CIFTI_STRUCTURE_OTHER', 'CIFTI_STRUCTURE_ACCUMBENS_LEFT']


def gen_label_table(rng):
    out = {}
    for _ in range(rng.choice([0, 1, 1, 2, 3, 4])):
        key = rng.choice([0, 1, 2, 3, 7, -1, 100, 65535])
        col = tuple(rng.choice([0, 1, 0.5, 0.25, rng.random(), 1.0, 0.0]) for _ in range(4))
        out[key] = (rng.choice(['lab', '???', 'L_V1', 'a b', 'é', 'x&y']), col)
    return out


class Space:
    """one brain space: a volume (shape, affine) and the vertex count of every surface structure"""

    def __init__(self, rng):
        self.shape = tuple(rng.randrange(1, 4) for _ in range(3))
        self.affine = rng.choice(AFFINES)
        self.nvert = {s: rng.randrange(1, 9) for s in SURF_STRUCTS}


def gen_part(rng, sp, struct):
    """(kind, indices) of one structure: a vertex subset of a surface or the voxels of a 3-D mask"""
    if struct in SURF_STRUCTS:
        nv = sp.nvert[struct]
        verts = [i for i in range(nv) if rng.random() < 0.6] or [rng.randrange(nv)]
        if rng.random() < 0.3:
            rng.shuffle(verts)
        return 'S', verts
    mask = np.array([rng.random() < 0.5 for _ in range(int(np.prod(sp.shape)))]).reshape(sp.shape)
    if not mask.any():
        mask[tuple(rng.randrange(s) for s in sp.shape)] = True
    return 'V', [tuple(int(x) for x in row) for row in np.array(np.where(mask)).T]


def gen_bm_part(rng, sp, struct):
    """the same through the documented factories from_surface / from_mask"""
    from nibabel.cifti2 import cifti2_axes as ax
    kind, ind = gen_part(rng, sp, struct)
    if kind == 'S':
        return ax.BrainModelAxis.from_surface(ind, sp.nvert[struct], name=struct)
    mask = np.zeros(sp.shape, dtype=bool)
    for v in ind:
        mask[v] = True
    return ax.BrainModelAxis.from_mask(mask, name=struct, affine=sp.affine)


def gen_bm(rng, sp=None, interleave=None):
    """a brain-model axis built directly from arrays (not through the code under test):
    1-4 structures, optionally interleaved (same structure in several non-adjacent runs)"""
    from nibabel.cifti2 import cifti2_axes as ax
    sp = sp or Space(rng)
    k = rng.choice([1, 1, 2, 2, 3, 4])
    pool = SURF_STRUCTS + VOL_STRUCTS
    r = rng.random()
    if r < 0.15:
        pool = SURF_STRUCTS
    elif r < 0.3:
        pool = VOL_STRUCTS
    rows = []
    for st in rng.sample(pool, min(k, len(pool))):
        kind, ind = gen_part(rng, sp, st)
        for v in ind:
            rows.append((st, (-1, -1, -1), v) if kind == 'S' else (st, v, -1))
    if interleave is None:
        interleave = rng.random() < 0.45
    if interleave and len(rows) > 1:
        m = len(rows)
        if rng.random() < 0.5:
            p = list(range(m)); rng.shuffle(p)
            rows = [rows[i] for i in p[:rng.randrange(1, m + 1)]]
        else:
            rows = [rows[rng.randrange(m)] for _ in range(rng.randrange(1, m + 3))]
    names = [r0[0] for r0 in rows]
    anyvol = any(n in VOL_STRUCTS for n in names)
    a = ax.BrainModelAxis(names, np.array([r0[1] for r0 in rows], dtype=int).reshape(-1, 3), [r0[2] for r0 in rows],
                          sp.affine if anyvol else None, sp.shape if anyvol else None,
                          {s2: sp.nvert[s2] for s2 in SURF_STRUCTS if s2 in names})
    return a, sp


def gen_par(rng, sp=None):
    """a parcels axis built directly: every parcel has voxels and/or vertex lists on 0-2 surfaces"""
    from nibabel.cifti2 import cifti2_axes as ax
    sp = sp or Space(rng)
    names, voxels, vertices, used = [], [], [], []
    anyvox = False
    for i in range(rng.randrange(1, 6)):
        names.append(rng.choice(NAMES) if rng.random() < 0.5 else f'parcel{i}')
        vox = gen_part(rng, sp, VOL_STRUCTS[0])[1] if rng.random() < 0.6 else []
        if vox and rng.random() < 0.5:
            vox = vox[:rng.randrange(1, len(vox) + 1)]
        vert = {}
        for st in rng.sample(SURF_STRUCTS, rng.choice([0, 1, 1, 2]) if vox else rng.choice([1, 1, 2])):
            vert[st] = np.array(gen_part(rng, sp, st)[1])
            used.append(st)
        anyvox |= bool(vox)
        voxels.append(np.array(vox, dtype=int).reshape(-1, 3))
        vertices.append(vert)
    nv = {st: sp.nvert[st] for st in SURF_STRUCTS if st in used or rng.random() < 0.2}
    vol = anyvox or rng.random() < 0.3
    return ax.ParcelsAxis(names, voxels, vertices, sp.affine if vol else None, sp.shape if vol else None, nv), sp


def gen_sc(rng, n=None):
    from nibabel.cifti2 import cifti2_axes as ax
    n = rng.randrange(1, 8) if n is None else n
    return ax.ScalarAxis([rng.choice(NAMES) for _ in range(n)], [dict(rng.choice(METAS)) for _ in range(n)])


def gen_lab(rng, n=None):
    from nibabel.cifti2 import cifti2_axes as ax
    n = rng.randrange(1, 7) if n is None else n
    return ax.LabelAxis([rng.choice(NAMES) for _ in range(n)], [gen_label_table(rng) for _ in range(n)],
                        [dict(rng.choice(METAS)) for _ in range(n)])


def gen_ser(rng, n=None):
    from nibabel.cifti2 import cifti2_axes as ax
    n = rng.randrange(0, 9) if n is None else n
    r = rng.random()
    if r < 0.6:
        start, step = rng.randrange(-6, 30), rng.choice([1, 1, 2, 3, -1, -2, 5, 100, 0])
    elif r < 0.8:
        start, step = float(rng.randrange(-6, 30)), float(rng.choice([1, 2, -3, 10]))
    else:
        start, step = rng.randrange(-40, 40) / SCALE, rng.choice([1, 2, 3, 5, -1, -7, 10]) / SCALE
    return ax.SeriesAxis(start, step, n, rng.choice(UNITS + ['second', 'Hertz']))


def perturb(rng, a):
    """an axis of the same class and length that differs from `a` in one respect (or, with
    probability ~1/5, only in a value the class documents as ignored / an equal copy)"""
    from nibabel.cifti2 import cifti2_axes as ax
    k = kd(a)
    n = len(a)
    if k == 'T':
        what = rng.choice(['start', 'step', 'size', 'unit', 'copy'])
        return ax.SeriesAxis(a.start + (1 if what == 'start' else 0), a.step + (1 if what == 'step' else 0),
                             a.size + (1 if what == 'size' else 0),
                             UNITS[(UNITS.index(a.unit) + 1) % 4] if what == 'unit' else a.unit)
    if n == 0:
        return a
    i = rng.randrange(n)
    if k == 'S':
        name, meta = list(a.name), [dict(m) for m in a.meta]
        what = rng.choice(['name', 'meta', 'copy'])
        if what == 'name':
            name[i] = str(name[i]) + 'x'
        elif what == 'meta':
            meta[i]['extra'] = 'q'
        return ax.ScalarAxis(name, meta)
    if k == 'L':
        name, lab, meta = list(a.name), [dict(l) for l in a.label], [dict(m) for m in a.meta]
        what = rng.choice(['name', 'meta', 'label', 'label', 'copy'])
        if what == 'name':
            name[i] = str(name[i]) + 'x'
        elif what == 'meta':
            meta[i]['extra'] = 'q'
        elif what == 'label' and not lab[i]:
            lab[i][5] = ('added', (0.5, 0.5, 0.5, 1.0))
        elif what == 'label':
            key = rng.choice(list(lab[i]))
            nm, col = lab[i][key]
            if rng.random() < 0.5:
                lab[i][key] = (nm + 'x', col)
            else:
                lab[i][key] = (nm, (col[0], col[1], col[2], 0.125 if col[3] != 0.125 else 0.75))
        return ax.LabelAxis(name, lab, meta)
    if k == 'P':
        name, voxels, vertices = list(a.name), [np.array(v) for v in a.voxels], [dict(d) for d in a.vertices]
        affine, shape, nv = a.affine, a.volume_shape, dict(a.nvertices)
        what = rng.choice(['name', 'voxels', 'vertices', 'nvert', 'affine', 'copy'])
        if what == 'name':
            name[i] = str(name[i]) + 'x'
        elif what == 'voxels' and len(voxels[i]):
            voxels[i] = voxels[i][::-1].copy() if len(voxels[i]) > 1 else voxels[i] + 1
        elif what == 'vertices' and vertices[i]:
            key = rng.choice(list(vertices[i]))
            vertices[i][key] = np.append(vertices[i][key], 0)
        elif what == 'nvert' and nv:
            key = rng.choice(list(nv))
            nv[key] += 1
        elif what == 'affine' and affine is not None:
            affine = np.array(affine) + np.diag([0, 0, 0.5, 0])
        return ax.ParcelsAxis(name, voxels, vertices, affine, shape, nv)
    name, voxel, vertex = list(a.name), np.array(a.voxel), np.array(a.vertex)
    affine, shape, nv = a.affine, a.volume_shape, dict(a.nvertices)
    surf = str(name[i]) in nv
    what = rng.choice(['index', 'index', 'masked', 'nvert', 'affine', 'shape', 'copy'])
    if what == 'index':
        if surf:
            vertex[i] += 1
        else:
            voxel[i, rng.randrange(3)] += 1
    elif what == 'masked':            # the array that does not describe element i: ignored by ==
        if surf:
            voxel[i] = 7
        else:
            vertex[i] = 7
    elif what == 'nvert' and nv:
        key = rng.choice(list(nv))
        nv[key] += 1
    elif what == 'affine' and affine is not None:
        affine = np.array(affine) + np.diag([0, 0, 0.5, 0])
    elif what == 'shape' and shape is not None:
        shape = (shape[0], shape[1], shape[2] + 1)
    return ax.BrainModelAxis(name, voxel, vertex, affine, shape, nv)


def anc(a):
    """what an axis says besides its per-element descriptions"""
    k = kd(a)
    if k in 'BP':
        return (dict(a.nvertices), None if a.affine is None else
                (tuple(sc_int(x) for x in np.asarray(a.affine).ravel()), tuple(a.volume_shape)))
    if k == 'T':
        return (sc_int(a.start), sc_int(a.step), int(a.size), a.unit)
    return None


def check_eq(R, a, b):
    chk = R.chk
    case = {'op': 'eq', 'axis': axis_desc(a), 'other': axis_desc(b)}
    with warnings.catch_warnings():
        warnings.simplefilter('ignore')
        e1, e2 = bool(a == b), bool(b == a)
    R.add('e', f'eq {axis_tok(a)} {axis_tok(b)}', f'ok {int(e1)}{int(e2)}', case)
    want = type(a) is type(b) and ELEMS[kd(a)](a) == ELEMS[kd(b)](b) and anc(a) == anc(b)
    chk.count(key=('eq', axis_tok(a), axis_tok(b)), tag=f'eq:{kd(a)}:' + ('equal' if want else 'different'))
    if e1 != want or e2 != want:
        viol(chk, 'property_violation', case=case, impl_output=f'a == b: {e1}, b == a: {e2}',
                      predicate='== %s although the axes describe %s rows / spaces' %
                      ('holds' if e1 or e2 else 'fails', 'different' if not want else 'the same'))


GEN = {'B': lambda rng: gen_bm(rng)[0], 'P': lambda rng: gen_par(rng)[0], 'S': gen_sc, 'L': gen_lab, 'T': gen_ser}


# --------------------------------------------------------------------------- the run
class Runner:
    def __init__(self, chk):
        self.chk = chk
        self.lines = []
        self.expect = {}     # id -> (implementation result string, case description)
        self.spec = {}       # id -> (NumPy result string, case description)
        self.n = 0

    def cid(self, p):
        self.n += 1
        return f'{p}{self.n}'

    def add(self, p, line, exp, case, spec=False):
        c = self.cid(p)
        self.lines.append(f'{c} {line}')
        (self.spec if spec else self.expect)[c] = (exp, case)
        return c


def np_positions(n, ix):
    """np.arange(n)[ix] applied to a data matrix along both dimensions -> positions or 'err index'"""
    data = np.arange(n * 2).reshape(n, 2)
    try:
        rows = data[ix]
    except IndexError:
        return None
    except ValueError as e:        # slice step 0
        return None
    cols = data.T[:, ix]
    assert (rows == cols.T).all()
    rows = np.atleast_2d(rows)
    return [int(x) // 2 for x in rows[:, 0]]


def known(chk, fid):
    """report a structurally matched finding; text from known_findings.json when it is entered there"""
    what = next((f['what'] for f in chk.findings if f['id'] == fid), LOCAL_FINDINGS[fid])
    chk.known(fid, what)
    chk.tagc('known:' + fid)


def check_index(R, a, ix, tagp=''):
    """axis[ix]: spec validation, correspondence line, property predicate"""
    chk = R.chk
    k = kd(a)
    n = len(a)
    case = {'op': 'getitem', 'axis': axis_desc(a), 'index': idx_desc(ix)}
    is_int = isinstance(ix, int)
    pos = np_positions(n, ix)
    # (1) spec validation of resolve
    R.add('r', f'resolve {n} {idx_tok(ix)}', 'ok ' + lst(pos) if pos is not None else
          ('err step0' if isinstance(ix, slice) and ix.step == 0 else 'err index'), case, spec=True)
    # implementation
    elems = ELEMS[k](a)
    try:
        with warnings.catch_warnings():
            warnings.simplefilter('ignore')
            r = a[ix]
        err = None
    except Exception as e:          # noqa: BLE001
        r, err = None, e
    # (2) correspondence
    if err is not None:
        exp = 'err ' + err_enum(err)
    elif is_int:
        if k == 'T':
            exp = f'ok elem {sc_int(r)}'
        elif k == 'B':
            typ, idxv, nm = r
            el = ('S' if typ.endswith('SURFACE') else 'V', struct_id(nm), tuple(int(x) for x in np.atleast_1d(idxv)))
            exp = 'ok elem ' + elems_tok([el])
        else:
            exp = None               # get_element of the three plain axes returns the stored objects
    else:
        try:
            exp = 'ok ' + ('axis ' if k in 'BT' else '') + axis_out(r)
        except Exception as e:      # noqa: BLE001
            chk.count(tag=f'index:{k}:malformed')
            viol(chk, 'property_violation', case=case, impl_output=f'{type(e).__name__}: {str(e)[:200]}',
                          predicate='axis[idx] is not a well-formed axis')
            return 'malformed'
    if exp is not None and not (k == 'T' and not isinstance(ix, (int, slice))):
        R.add('g', f'{GETOP[k]} {TOK[k](a)} {idx_tok(ix)}', exp, case)
    # (3) property predicate, independent of the model
    pred = None
    shape = 'int' if is_int else 'slice' if isinstance(ix, slice) else 'mask' if np.asarray(ix).dtype == bool else 'list'
    chk.count(key=(k, TOK[k](a), idx_tok(ix)) if pos not in (None, list(range(n))) else None, tag=f'index:{k}:{shape}',
              sample=case if R.n % 997 == 5 else None)
    if pos is None:
        if err is None:
            pred = 'index rejected by NumPy was accepted by the axis'
        else:
            chk.refusal('index_error')
    elif err is not None:
        pred = f'valid index refused: {type(err).__name__}: {str(err)[:80]}'
    elif is_int:
        want = elems[pos[0]]
        if k == 'T':
            got = sc_int(r)
        elif k == 'B':
            typ, idxv, nm = r
            got = ('S' if typ.endswith('SURFACE') else 'V', struct_id(nm), tuple(int(x) for x in np.atleast_1d(idxv)))
        elif k == 'P':
            got = (str(r[0]), canon_vox(r[1]), canon_vert(r[2]))
        elif k == 'S':
            got = (str(r[0]), canon_meta(r[1]))
        else:
            got = (str(r[0]), canon_label(r[1]), canon_meta(r[2]))
        if got != want:
            pred = f'axis[{ix}] describes {got!r}, row {pos[0]} is {want!r}'
    else:
        want = [elems[j] for j in pos]
        got = ELEMS[k](r)
        if len(r) != len(pos):
            pred = f'len(axis[idx]) = {len(r)} but data[idx] has {len(pos)} rows'
        elif got != want:
            pred = 'axis[idx] does not describe the rows data[idx]'
        elif type(r) is not type(a):
            pred = 'axis[idx] changed class'
    if pred:
        viol(chk, 'property_violation', case=case, predicate=pred,
                      impl_output=('err ' + err_enum(err)) if err is not None else str(exp)[:300])
    return pred


def check_add(R, a, b):
    chk = R.chk
    k = kd(a)
    case = {'op': 'add', 'axis': axis_desc(a), 'other': axis_desc(b)}
    try:
        r = a + b
        err = None
    except Exception as e:          # noqa: BLE001
        r, err = None, e
    try:
        exp = 'err ' + err_enum(err) if err is not None else 'ok ' + axis_out(r)
    except Exception as e:          # noqa: BLE001
        viol(chk, 'property_violation', case=case, impl_output=f'{type(e).__name__}: {str(e)[:200]}',
                      predicate='a + b is not a well-formed axis')
        return
    R.add('a', f'{ADDOP[k]} {TOK[k](a)} {TOK[k](b)}', exp, case)
    chk.count(key=('add', TOK[k](a), TOK[k](b)), tag=f'add:{k}')
    pred = None
    if err is not None:
        chk.refusal('add_' + err_enum(err).split(':')[0])
        compatible = True
        if k in 'BP':
            if a.affine is not None and b.affine is not None and (
                    not np.allclose(a.affine, b.affine) or a.volume_shape != b.volume_shape):
                compatible = False
            if any(k2 in a.nvertices and a.nvertices[k2] != v for k2, v in b.nvertices.items()):
                compatible = False
            if k == 'B' and (any(str(n) in b.nvertices and str(n) not in a.nvertices for n in a.name) or
                             any(str(n) in a.nvertices and str(n) not in b.nvertices for n in b.name)):
                compatible = False      # one structure as a surface in one operand and as voxels in the other
        elif k == 'T':
            compatible = a.step == b.step and a.unit == b.unit
        if compatible:
            pred = f'concatenation of compatible axes refused: {type(err).__name__}: {str(err)[:80]}'
    else:
        ea, eb, er = ELEMS[k](a), ELEMS[k](b), ELEMS[k](r)
        if len(r) != len(a) + len(b):
            pred = 'len(a + b) != len(a) + len(b)'
        elif k == 'T':
            aligned = sc_int(b.start) == sc_int(a.start) + len(a) * sc_int(a.step)
            cont = [sc_int(a.start) + (len(a) + j) * sc_int(a.step) for j in range(len(b))]
            if er != ea + cont:
                pred = 'SeriesAxis a + b is not the regular continuation of a'
            elif aligned and er != ea + eb:
                pred = 'SeriesAxis a + b differs from the concatenated time points although b starts where a ends'
            chk.tagc('series_add:' + ('aligned' if aligned else 'other_start_ignored(documented)'))
        elif er != ea + eb:
            pred = 'a + b does not describe the concatenated rows'
    if pred:
        viol(chk, 'property_violation', case=case, predicate=pred, impl_output=exp[:300])


def parse_header(xml_bytes):
    from nibabel.cifti2.parse_cifti2 import Cifti2Parser
    p = Cifti2Parser()
    p.parse(string=xml_bytes)
    return p.header


def axes_equal(a, b):
    with warnings.catch_warnings():
        warnings.simplefilter('ignore')
        return bool(a == b) and bool(b == a) and ELEMS[kd(a)](a) == ELEMS[kd(b)](b) and type(a) is type(b)


def has_ws_edge(s):
    return s == '' or s != s.strip()


def fragile_strings(a):
    """S-C18c signature: a character-data string that is empty or has leading/trailing whitespace"""
    k = kd(a)
    out = False
    if k in 'SL':
        out |= any(has_ws_edge(str(n)) for n in a.name)
        out |= any(has_ws_edge(str(x)) for m in a.meta for kv in dict(m).items() for x in kv[:1]) \
            or any(str(v) != str(v).strip() for m in a.meta for v in dict(m).values())
    if k == 'L':
        out |= any(has_ws_edge(str(v[0])) for l in a.label for v in dict(l).values())
    return out


def stripped_elems(a):
    """element descriptions of a Scalar/LabelAxis after what flush_chardata does to character data
    (strip; an empty MapName element leaves map_name None -> 'None')"""
    def nm(x):
        return str(x).strip() or 'None'

    def meta(m):
        return tuple(sorted((k.strip(), v.strip()) for k, v in m))
    if kd(a) == 'S':
        return [(nm(n), meta(m)) for n, m in sc_elems(a)]
    return [(nm(n), tuple((k, lab.strip(), col) for k, lab, col in l), meta(m)) for n, l, m in lab_elems(a)]


def check_header(R, axes, data=None, via='xml', tag='header'):
    """from_axes -> to_xml -> parse -> get_axis (via='xml'), or the whole file (via='bytes'|'file')"""
    from nibabel.cifti2 import Cifti2Header, Cifti2Image
    chk = R.chk
    case = {'op': via, 'axes': [axis_desc(a) for a in axes]}
    if data is not None:
        case['data'] = {'dtype': str(data.dtype), 'shape': list(data.shape), 'values': data.ravel().tolist()}
    chk.count(key=(via,) + tuple(axis_tok(a) for a in axes), tag=f'{tag}:{via}:ndim{len(axes)}',
              sample=case if via == 'bytes' and R.n % 50 == 3 else None)
    for a in axes:
        chk.tagc('roundtrip_axis:' + kd(a))
    pred = None
    known_id = None
    out = {}
    try:
        with warnings.catch_warnings():
            warnings.simplefilter('ignore')
            hdr = Cifti2Header.from_axes(axes)
            out['dims_built'] = [list(m.applies_to_matrix_dimension) for m in hdr.matrix]
            if via == 'xml':
                hdr2 = parse_header(hdr.to_xml())
                data2 = None
            else:
                img = Cifti2Image(data, hdr)
                if via == 'bytes':
                    img2 = Cifti2Image.from_bytes(img.to_bytes())
                else:
                    fn = os.path.join(chk.workdir, f'c{R.n}.' + ''.join(kd(a) for a in axes) + '.nii')
                    img.to_filename(fn)
                    img2 = Cifti2Image.from_filename(fn)
                hdr2 = img2.header
                data2 = np.asanyarray(img2.dataobj)
                out['nifti_shape'] = [int(x) for x in img2.nifti_header.get_data_shape()]
                out['shape'] = [int(x) for x in img2.shape]
                if via == 'file':
                    del img2
                    os.remove(fn)
            out['dims'] = [list(m.applies_to_matrix_dimension) for m in hdr2.matrix]
            got = [hdr2.get_axis(i) for i in range(len(axes))]
    except Exception as e:          # noqa: BLE001
        got = None
        out['error'] = f'{type(e).__name__}: {str(e)[:100]}'
        if data is not None and tuple(data.shape) != tuple(len(a) for a in axes) and isinstance(e, ValueError) \
                and 'does not match shape' in str(e):
            chk.refusal('data_shape_mismatch')
            out['refused'] = 'datashape'
        elif isinstance(e, IndexError) and any(kd(a) == 'B' and len(a) == 0 for a in axes):
            # an empty BrainModelAxis has no structures: iter_structures / to_mapping raise (model: Err EIndex)
            chk.refusal('empty_brainmodel_has_no_maps')
            out['refused'] = 'index'
        else:
            pred = 'round trip raised ' + out['error']
    if got is not None:
        bad = [i for i, (a, b) in enumerate(zip(axes, got)) if not axes_equal(a, b)]
        if bad:
            if all(fragile_strings(axes[i]) and type(got[i]) is type(axes[i])
                   and ELEMS[kd(got[i])](got[i]) == stripped_elems(axes[i]) for i in bad):
                known_id = 'S-C18c'
            else:
                pred = f'axis {bad[0]} read back differs from the axis written'
        elif data is not None and (data2.shape != data.shape or data2.dtype != data.dtype
                                   or data2.tobytes() != data.tobytes()):
            pred = 'data matrix read back differs'
        out['axes'] = [axis_tok(b) for b in got]
    if known_id:
        known(chk, known_id)
    if pred:
        viol(chk, 'property_violation', case=case, predicate=pred, impl_output=out)
    # correspondence with the model (only inside its quantifier: no fragile strings)
    if not known_id and not any(fragile_strings(a) for a in axes):
        toks = ' '.join(axis_tok(a) for a in axes)
        if via == 'xml':
            if got is not None:
                exp = 'ok dims=' + ';'.join(lst(d) for d in out['dims']) + ' ' + \
                      ' | '.join(f'{t} eq=1' for t in out['axes'])
                if out['dims'] != out['dims_built']:
                    exp += ' (dims changed by XML: built %r)' % out['dims_built']
            else:
                exp = 'err ' + out.get('refused', out.get('error', '?'))
            R.add('h', f'header {len(axes)} {toks}', exp, case)
        else:
            if got is not None:
                exp = 'ok nifti=' + lst(out['nifti_shape']) + ' shape=' + lst(out['shape']) + ' dims=' + \
                      ';'.join(lst(d) for d in out['dims'])
            else:
                exp = 'err ' + out.get('refused', out.get('error', '?'))
            R.add('f', f'file {lst(data.shape)} {len(axes)} {toks}', exp, case)
    return pred


def ext_list(nifti_header):
    """[(code, interned content)] of a NIfTI header's extensions, in order"""
    out = []
    for e in nifti_header.extensions:
        code = int(e.get_code())
        out.append((code, INT('ext', bytes(e.content).rstrip(b'\0'))))   # on-disk padding NULs (C11)
    return out


def rand_data(rng, shape, dt):
    n = int(np.prod(shape))
    if np.issubdtype(dt, np.floating):
        return np.array([rng.choice([rng.gauss(0, 100), rng.random(), 0.0, 1e30]) for _ in range(n)], dtype=dt).reshape(shape)
    info = np.iinfo(dt)
    return np.array([rng.randint(info.min, info.max) for _ in range(n)], dtype=dt).reshape(shape)


def check_history(R, axes1, data1, axes2, data2, source, extra_ext, via):
    """multi-step file history: img1 (axes1) is saved; img2 is a NEW image with axes2/data2 whose
    nifti_header= comes from img1 after its save ('saved'), from img1 re-loaded ('loaded'), or is
    img1 itself saved a second time unchanged ('same'); img2 is saved (twice) and loaded: the axes
    read back must be axes2, the data data2, and the file must hold exactly one CIFTI-2 extension"""
    from nibabel.cifti2 import Cifti2Image
    from nibabel.cifti2.parse_cifti2 import Cifti2Extension
    from nibabel.nifti1 import Nifti1Extension
    chk = R.chk
    case = {'op': 'history', 'source': source, 'via': via, 'extra_ext': extra_ext,
            'axes1': [axis_desc(a) for a in axes1], 'axes2': [axis_desc(a) for a in axes2],
            'data1': {'dtype': str(data1.dtype), 'shape': list(data1.shape), 'values': data1.ravel().tolist()},
            'data2': {'dtype': str(data2.dtype), 'shape': list(data2.shape), 'values': data2.ravel().tolist()}}
    chk.count(key=('history', source, via, extra_ext) + tuple(axis_tok(a) for a in axes1 + axes2),
              tag=f'history:{source}:{via}' + (':other_ext' if extra_ext else ''),
              sample=case if R.n % 40 == 7 else None)
    pred = None
    out = {}

    def save_load(img, tag):
        if via == 'bytes':
            return Cifti2Image.from_bytes(img.to_bytes())
        fn = os.path.join(chk.workdir, f'h{R.n}.{tag}.nii')
        img.to_filename(fn)
        r = Cifti2Image.from_filename(fn)
        r = Cifti2Image(np.asanyarray(r.dataobj), r.header, r.nifti_header)    # detach from the file
        os.remove(fn)
        return r
    try:
        with warnings.catch_warnings():
            warnings.simplefilter('ignore')
            img1 = Cifti2Image(data1, axes1)
            if extra_ext:
                img1.nifti_header.extensions.append(Nifti1Extension(6, b'comment ' + bytes([65 + extra_ext])))
            first = save_load(img1, 'a')
            if source == 'same':
                img2 = img1                       # saved again below, nothing replaced
            else:
                src = img1.nifti_header if source == 'saved' else first.nifti_header
                img2 = Cifti2Image(data2, axes2, nifti_header=src, dtype=data2.dtype)
            before = ext_list(img2.nifti_header)
            xml2 = INT('ext', bytes(img2.header.to_xml()).rstrip(b'\0'))
            got = []
            for rep in range(2):
                back = save_load(img2, 'b%d' % rep)
                got.append(back)
                if rep == 0:
                    after = ext_list(img2.nifti_header)
            out['before'], out['after'] = before, after
    except Exception as e:          # noqa: BLE001
        viol(chk, 'property_violation', case=case, impl_output=f'{type(e).__name__}: {str(e)[:200]}',
             predicate='a save / load step of the history raised')
        return
    want_axes, want_data = (axes1, data1) if source == 'same' else (axes2, data2)
    for rep, back in enumerate(got):
        exts = ext_list(back.nifti_header)
        ncif = sum(1 for e in back.nifti_header.extensions if isinstance(e, Cifti2Extension))
        d = np.asanyarray(back.dataobj)
        try:
            axes_back = [back.header.get_axis(i) for i in range(len(want_axes))]
        except Exception as e:      # noqa: BLE001
            pred = f'save #{rep + 1}: axes cannot be read back: {type(e).__name__}: {str(e)[:80]}'
            break
        bad = [i for i, (a, b) in enumerate(zip(want_axes, axes_back)) if not axes_equal(a, b)]
        if bad:
            old = source != 'same' and len(axes1) > bad[0] and axes_equal(axes1[bad[0]], axes_back[bad[0]])
            pred = f'save #{rep + 1}: axis {bad[0]} read back is not the axis of the image saved' + \
                   (' (it is the axis of the image the NIfTI header was taken from)' if old else '')
        elif d.shape != want_data.shape or d.dtype != want_data.dtype or d.tobytes() != want_data.tobytes():
            pred = f'save #{rep + 1}: data read back differs'
        elif ncif != 1:
            pred = f'save #{rep + 1}: file holds {ncif} CIFTI-2 extensions'
        elif [e for e in exts if e[0] != 32] != [e for e in before if e[0] != 32]:
            pred = f'save #{rep + 1}: other NIfTI extensions changed'
        if pred:
            break
        out['file_exts%d' % rep] = exts
    if pred:
        viol(chk, 'property_violation', case=case, predicate=pred, impl_output=out)
    # correspondence: the extension list of the image's NIfTI header after to_file_map, and what the file holds
    flat = lst(x for e in before for x in e)
    # (a loaded Cifti2Extension re-serialises its parsed header, so file contents are compared through
    # the axes in the predicate above; here: the extension list the writer was handed)
    exp = 'ok ' + lst(x for e in after for x in e) + ' first=' + str(next((i for c, i in after if c == 32), '_'))
    R.add('x', f'setext {flat} {xml2}', exp, case)


def check_bm_structure(R, a):
    """iter_structures, to_mapping, from_index_mapping(to_mapping) against the model"""
    from nibabel.cifti2 import cifti2_axes as ax
    chk = R.chk
    case = {'op': 'bm_structure', 'axis': axis_desc(a)}
    chk.count(key=('bmrt', bm_tok(a)), tag='bm_roundtrip:' + ('interleaved' if len(set(a.name)) <
              len(list(itertools.groupby(a.name))) else 'grouped'))
    try:
        structs = list(a.iter_structures())
        mim = a.to_mapping(0)
        b = ax.BrainModelAxis.from_index_mapping(mim)
    except Exception as e:          # noqa: BLE001
        if len(a) == 0 and isinstance(e, IndexError):
            # an empty axis has no structures (self.name[0]); model: Err EIndex
            chk.refusal('empty_brainmodel_has_no_maps')
            R.add('s', f'bm_runs {bm_tok(a)}', 'err index', case)
            R.add('m', f'bm_map {bm_tok(a)}', 'err index', case)
            R.add('k', f'bm_make {bm_tok(a)}', 'ok ' + bm_full(a), case)
            return
        viol(chk, 'property_violation', case=case, impl_output=f'{type(e).__name__}: {str(e)[:200]}',
             predicate='iter_structures / to_mapping / from_index_mapping raised on a valid non-empty axis')
        return
    runs = ';'.join(f'{struct_id(nm)}:{sl.start}:{o2s(sl.stop)}' for nm, sl, _ in structs)
    subs = ';'.join(f'{struct_id(nm)}:{sl.start}:{len(b2)}' for nm, sl, b2 in structs)
    R.add('s', f'bm_runs {bm_tok(a)}', f'ok {runs} {subs}', case)
    # hypothesis coverage of the theorems: the axis is a fixpoint of the modelled constructor (bm_wf)
    R.add('k', f'bm_make {bm_tok(a)}', 'ok ' + bm_full(a), case)
    models = []
    for m in mim.brain_models:
        surf = m.model_type == 'CIFTI_MODEL_TYPE_SURFACE'
        ix = lst(m.vertex_indices) if surf else lst(x for row in m.voxel_indices_ijk for x in row)
        models.append(':'.join([str(m.index_offset), str(m.index_count), 'S' if surf else 'V',
                                str(struct_id(m.brain_structure)), o2s(m.surface_number_of_vertices), ix]))
    vol = mim.volume
    vt = '_' if vol is None else vol_tok(vol.transformation_matrix_voxel_indices_ijk_to_xyz.matrix, vol.volume_dimensions)
    R.add('m', f'bm_map {bm_tok(a)}', f'ok {len(models)} ' + ';'.join(models) + ' vol=' + vt, case)
    R.add('t', f'bm_rt {bm_tok(a)}', 'ok ' + bm_full(b) + f' eq={int(b == a)}{int(a == b)}', case)
    # property, directly: structures partition the axis into maximal runs; the decoded axis equals a
    pred = None
    pos = 0
    names = [str(n) for n in a.name]
    for i, (nm, sl, sub) in enumerate(structs):
        stop = len(a) if sl.stop is None else sl.stop
        if sl.start != pos or stop <= sl.start or any(n != nm for n in names[sl.start:stop]) \
                or (stop < len(a) and names[stop] == nm) or bm_elems(sub) != bm_elems(a)[sl.start:stop]:
            pred = f'iter_structures run {i} is not the maximal run of {nm} at {pos}'
            break
        pos = stop
    if pred is None and pos != len(a):
        pred = 'iter_structures does not cover the axis'
    if pred is None and not axes_equal(a, b):
        pred = 'from_index_mapping(to_mapping(axis)) differs from the axis'
    if pred:
        viol(chk, 'property_violation', case=case, predicate=pred, impl_output=bm_full(b)[:300])


def run(chk: Check):
    ensure_impl_path()
    global STRUCTS
    from nibabel.cifti2 import cifti2, cifti2_axes as ax
    STRUCTS = sorted(set(cifti2.CIFTI_BRAIN_STRUCTURES.ciftiname))
    chk.rule = ('(A) exhaustive, seed independent: SeriesAxis of every size n<=5 x every slice with start/stop in '
                '[-n-2,n+2]|None, step in [-3,3]\\{0}|None, step 0, every int in [-n-2,n+2]; (B) random axes of the '
                'five kinds (brain models from random surface vertex subsets / 3-D masks over 1-4 structures, '
                'interleaved by permutation or repeated index arrays; parcels from brain-model pieces; scalar/label '
                'axes with names incl. XML-special and non-ASCII characters, metadata dicts, label tables; series '
                'with int, float and dyadic start/step, size 0-8, four units) x every int in [-n-1,n], special + '
                'random slices (bounds in [-n-2,n+2]|None, all step signs), index arrays (negative, repeated, '
                'permutation, empty, out of range), boolean masks (random, all-false, all-true, wrong length); '
                '(C) iter_structures / to_mapping / from_index_mapping of every brain-model axis; (D) a + b for '
                'compatible and incompatible pairs; (I) constructor refusals, one structure as surface and as voxels; (H) == on perturbed copies; (E) 1-3 axes (with repeated, equal and near-equal axes) -> from_axes -> to_xml '
                '-> Cifti2Parser -> get_axis; (F) Cifti2Image with random data (5 dtypes) through '
                'to_bytes/from_bytes and .nii files; (J) file histories: img1 saved, then a NEW image with other axes/data and nifti_header= of the saved or re-loaded img1 (or img1 saved again unchanged), with other NIfTI extensions present, saved twice and loaded: axes/data of the image saved, exactly one CIFTI-2 extension; (K) empty axes of every kind: indexing, a+b, ==, header/file (an empty brain-model axis has no maps: refused); (G) probes of S-C18c. Non-trivial: the selection is not '
                'the whole axis and not an error; distinct by (axis, index) / (axes tuple)')
    chk.assumptions = ['expat (Cifti2Parser), ElementTree (to_xml) and the NIfTI-2 container are exercised, not modelled: '
                       'the model takes the XML and the container as identity oracles (C18_file_roundtrip premises)',
                       'values the code only moves (names, metadata, label tables, parcel voxel/vertex tables) are interned '
                       'to integers by content; affines and series values are multiples of 1/4 (exact in binary64)']
    chk.trusted.append('NumPy 1-D indexing np.arange(n)[idx] as the yardstick (Model.resolve validated against it on every case)')
    chk.build()
    chk.run_probes()
    if not chk.model_ok:
        return
    rng = chk.rng
    R = Runner(chk)

    # ---------------- (A) SeriesAxis exhaustive (seed independent)
    for n in range(0, 6):
        a = ax.SeriesAxis(3 + n, [2, -1, 3, 1, -2, 5][n], n, UNITS[n % 4])
        for s in all_slices(n) + [slice(None, None, 0), slice(1, 3, 0)]:
            check_index(R, a, s)
        for k in range(-n - 2, n + 3):
            check_index(R, a, k)
    n_exh = chk.evaluations

    # ---------------- (B) random axes x indices, (C) brain-model structure
    nax = chk.n(60, 400)
    nsl = chk.n(24, 60)
    axes_pool = {k: [] for k in 'BPSLT'}
    for k in 'BPSLT':
        for i in range(nax if k != 'T' else nax // 2):
            a = GEN[k](rng)
            axes_pool[k].append(a)
            n = len(a)
            for j in range(-n - 1, n + 1):
                check_index(R, a, j)
            for ix in sample_indices(rng, n, k, nsl):
                check_index(R, a, ix)
            if k == 'B':
                check_bm_structure(R, a)
    # larger brain-model axes (HCP-like order: two surfaces then volume structures)
    for _ in range(chk.n(3, 20)):
        sp = Space(rng)
        sp.shape = (6, 7, 5)
        sp.nvert = {s: 40 for s in SURF_STRUCTS}
        rows = []
        for st in SURF_STRUCTS[:2] + VOL_STRUCTS[:3]:
            kind, ind = gen_part(rng, sp, st)
            rows += [(st, (-1, -1, -1), v) if kind == 'S' else (st, v, -1) for v in ind]
        a = ax.BrainModelAxis([r0[0] for r0 in rows], np.array([r0[1] for r0 in rows]), [r0[2] for r0 in rows],
                              sp.affine, sp.shape, {st: 40 for st in SURF_STRUCTS[:2]})
        check_bm_structure(R, a)
        for ix in sample_indices(rng, len(a), 'B', 6):
            check_index(R, a, ix)

    # ---------------- (D) concatenation
    for _ in range(chk.n(20, 200)):            # the documented factories: from_surface / from_mask parts added up
        sp = Space(rng)
        structs = rng.sample(SURF_STRUCTS + VOL_STRUCTS, rng.randrange(2, 5))
        try:
            parts = [gen_bm_part(rng, sp, st) for st in structs]
        except Exception as e:      # noqa: BLE001
            viol(chk, 'property_violation', case={'op': 'factory', 'structs': structs},
                          predicate=f'from_surface / from_mask raised {type(e).__name__}: {str(e)[:100]}')
            continue
        acc = parts[0]
        for p2 in parts[1:]:
            check_add(R, acc, p2)
            try:
                acc = acc + p2
            except Exception:       # noqa: BLE001  (reported by check_add)
                break
        else:
            check_bm_structure(R, acc)
            try:
                par = ax.ParcelsAxis.from_brain_models([(f'p{i}', p2) for i, p2 in enumerate(parts)] + [('all', acc)])
                want = [(f'p{i}', tuple(e[2] for e in bm_elems(p2) if e[0] == 'V'),
                         canon_vert({STRUCTS[e[1] - 1]: [x[2][0] for x in bm_elems(p2) if x[0] == 'S' and x[1] == e[1]]
                                     for e in bm_elems(p2) if e[0] == 'S'})) for i, p2 in enumerate(parts)]
                chk.count(key=('from_brain_models', par_tok(par)), tag='parcels_from_brain_models')
                if par_elems(par)[:len(parts)] != want:
                    viol(chk, 'property_violation', case={'op': 'from_brain_models', 'parts': [axis_desc(p2) for p2 in parts]},
                                  predicate='ParcelsAxis.from_brain_models does not describe the brain models given',
                                  impl_output=str(par_elems(par))[:300])
                check_header(R, [par, acc], via='xml')
            except Exception as e:  # noqa: BLE001
                viol(chk, 'property_violation', case={'op': 'from_brain_models', 'parts': [axis_desc(p2) for p2 in parts]},
                              predicate=f'ParcelsAxis.from_brain_models raised {type(e).__name__}: {str(e)[:100]}')
    for _ in range(chk.n(200, 1500)):
        k = rng.choice('BBPPSLTT')
        if k == 'B':
            a, sp = gen_bm(rng)
            b, _ = gen_bm(rng, sp if rng.random() < 0.75 else None)
        elif k == 'P':
            a, sp = gen_par(rng)
            b, _ = gen_par(rng, sp if rng.random() < 0.75 else None)
        elif k == 'T':
            a = gen_ser(rng)
            b = gen_ser(rng)
            r = rng.random()
            if r < 0.4:
                b = ax.SeriesAxis(a.start + a.size * a.step, a.step, b.size, a.unit)     # aligned
            elif r < 0.7:
                b = ax.SeriesAxis(b.start, a.step, b.size, a.unit)
        else:
            a, b = GEN[k](rng), GEN[k](rng)
        check_add(R, a, b)

    # ---------------- (I) constructor refusals and a structure used as surface and as voxels
    for _ in range(chk.n(30, 300)):
        a, sp = gen_bm(rng, interleave=False)
        name, voxel, vertex = [str(x) for x in a.name], np.array(a.voxel), np.array(a.vertex)
        i = rng.randrange(len(a))
        surf = name[i] in a.nvertices
        what = rng.choice(['neg', 'noaffine', 'ok'])
        affine, shape = a.affine, a.volume_shape
        if what == 'neg':
            if surf:
                vertex[i] = -1
            else:
                voxel[i, rng.randrange(3)] = -1
        elif what == 'noaffine':
            affine = None
        case = {'op': 'construct', 'name': name, 'voxel': voxel.tolist(), 'vertex': vertex.tolist(),
                'affine': None if affine is None else np.asarray(affine).tolist(), 'shape': shape, 'nvertices': dict(a.nvertices)}
        tok = ' '.join([lst(struct_id(x) for x in name), lst(voxel.ravel()), lst(vertex), vol_tok(affine, shape), nv_tok(a.nvertices)])
        try:
            b = ax.BrainModelAxis(name, voxel, vertex, affine, shape, dict(a.nvertices))
            exp = 'ok ' + bm_full(b)
        except Exception as e:      # noqa: BLE001
            exp = 'err ' + err_enum(e)
            chk.refusal('construct_' + err_enum(e).split(':')[0])
        chk.count(key=('construct', tok), tag='construct:' + what)
        R.add('c', f'bm_make {tok}', exp, case)
    for _ in range(chk.n(6, 40)):
        sp = Space(rng)
        st = rng.choice(SURF_STRUCTS)
        try:
            a = ax.BrainModelAxis.from_surface(gen_part(rng, sp, st)[1], sp.nvert[st], name=st)
            vox = gen_part(rng, sp, VOL_STRUCTS[0])[1]
            b = ax.BrainModelAxis([st] * len(vox), np.array(vox), None, sp.affine, sp.shape, {})
        except Exception as e:      # noqa: BLE001
            viol(chk, 'property_violation', case={'op': 'factory', 'structs': [st]},
                          predicate=f'constructor raised {type(e).__name__}: {str(e)[:100]}')
            continue
        check_add(R, a, b)
        check_add(R, b, a)

    # ---------------- (K) empty axes (an empty selection of every kind, also of brain models since 82b9e2d7)
    for k in 'BPSLT':
        for a in axes_pool[k][:chk.n(12, 60)]:
            n = len(a)
            try:
                e = a[n:]
                e2 = rng.choice(axes_pool[k])[slice(0, 0)]
            except Exception:       # noqa: BLE001  (reported by check_index above)
                continue
            for ix in [slice(None), slice(None, None, -1), slice(1, 5, 2), 0, -1] + \
                      ([np.array([], dtype=int), np.zeros(0, dtype=bool), np.array([0]), np.ones(1, dtype=bool)] if k != 'T' else []):
                check_index(R, e, ix)
            for x, y in ((e, a), (a, e), (e, e2), (e, e)):
                check_add(R, x, y)
            check_eq(R, e, e2)
            check_eq(R, e, a)
            if k == 'B':
                check_bm_structure(R, e)
            other = ax.ScalarAxis(['x', 'y'])
            check_header(R, [e, other], via='xml', tag='empty')
            check_header(R, [other, e], data=np.zeros((2, 0), dtype=np.float32), via='bytes', tag='empty')

    # ---------------- (H) equality
    for k in 'BPSLT':
        for a in axes_pool[k]:
            for _ in range(3):
                check_eq(R, a, perturb(rng, a))
        for a, b in zip(axes_pool[k], axes_pool[k][1:]):
            check_eq(R, a, b)
    check_eq(R, axes_pool['S'][0], axes_pool['L'][0])
    check_eq(R, axes_pool['T'][0], axes_pool['B'][0])

    # ---------------- (E) header / XML, (F) files
    dtypes = [np.float32, np.float64, np.int16, np.uint8, np.int32]

    def pick_axes(nd):
        out = []
        sp = Space(rng)
        for _ in range(nd):
            r = rng.random()
            if out and r < 0.25:
                c = rng.choice(out)            # the same axis again, an equal copy, or a near-equal one
                r2 = rng.random()
                out.append(c if r2 < 0.35 else perturb(rng, c) if r2 < 0.75 else c[slice(None)] if kd(c) != 'T'
                           else ax.SeriesAxis(c.start, c.step, c.size, c.unit))
                continue
            k = rng.choice('BPSLT')
            if k == 'B':
                out.append(gen_bm(rng, sp)[0])
            elif k == 'P':
                out.append(gen_par(rng, sp)[0])
            elif k == 'T':
                out.append(gen_ser(rng, rng.randrange(1, 7)))
            else:
                out.append(GEN[k](rng))
        return out

    for _ in range(chk.n(300, 2500)):
        check_header(R, pick_axes(rng.choice([1, 2, 2, 3, 3])), via='xml')
    for i in range(chk.n(250, 2000)):
        axes = pick_axes(rng.choice([1, 2, 2, 2, 3]))
        shape = tuple(len(a) for a in axes)
        dt = rng.choice(dtypes)
        if np.issubdtype(dt, np.floating):
            data = np.array([rng.choice([rng.gauss(0, 100), rng.random(), 0.0, -0.0, 1e30, np.inf, np.nan])
                             for _ in range(int(np.prod(shape)))], dtype=dt).reshape(shape)
        else:
            info = np.iinfo(dt)
            data = np.array([rng.randint(info.min, info.max) for _ in range(int(np.prod(shape)))], dtype=dt).reshape(shape)
        check_header(R, axes, data=data, via='file' if i % 5 == 0 else 'bytes', tag='file')
    for _ in range(chk.n(6, 40)):             # data shape not matching the axes: refused by to_file_map
        axes = pick_axes(2)
        shape = (len(axes[0]) + 1, len(axes[1]))
        check_header(R, axes, data=np.zeros(shape, dtype=np.float32), via='bytes', tag='file_mismatch')

    # ---------------- (J) multi-step file histories (NIfTI header reused across images / saves)
    for i in range(chk.n(90, 700)):
        nd = rng.choice([1, 2, 2, 3])
        axes1 = pick_axes(nd)
        r = rng.random()
        if r < 0.35:          # same lengths, other axes (perturbed copies where possible)
            axes2 = [perturb(rng, a) if rng.random() < 0.6 and kd(a) != 'T' else GEN[kd(a)](rng) for a in axes1]
            axes2 = [b if len(b) == len(a) and len(b) > 0 else a2 for a, b, a2 in zip(axes1, axes2, axes1)]
            if all(axes_equal(a, b) for a, b in zip(axes1, axes2)):
                axes2 = pick_axes(nd)
        else:
            axes2 = pick_axes(rng.choice([nd, nd, rng.choice([1, 2, 3])]))
        dt = rng.choice(dtypes)
        data1 = rand_data(rng, tuple(len(a) for a in axes1), dt)
        data2 = rand_data(rng, tuple(len(a) for a in axes2), dt if rng.random() < 0.6 else rng.choice(dtypes))
        check_history(R, axes1, data1, axes2, data2, source=['saved', 'loaded', 'same'][i % 3],
                      extra_ext=rng.choice([0, 0, 1, 2]), via='file' if i % 7 == 0 else 'bytes')

    # ---------------- (G) probes of the findings of this property (fixed inputs)
    sc_ws = ax.ScalarAxis(['a', ' b ', ''], [{}, {'k': ' v '}, {}])
    check_header(R, [sc_ws, ax.SeriesAxis(0, 1, 2)], via='xml', tag='probe')
    check_header(R, [ax.LabelAxis(['a', 'b'], [{1: ('one', (0.5, 0.25, 1, 1))}, {}]), ax.SeriesAxis(0, 1, 2)],
                 via='xml', tag='probe')
    check_header(R, [ax.LabelAxis(['a'], [{1: (' one', (0.5, 0.25, 1, 1))}])], via='xml', tag='probe')

    # ---------------- run the model, compare
    mod = run_model(PROP, R.lines)
    nspec_bad = 0
    for c, (exp, case) in R.spec.items():
        got = mod.get(c, '<missing>')
        if got != exp:
            nspec_bad += 1
            chk.disagreements += 1
            if nspec_bad <= 3:
                viol(chk, 'correspondence', case=case, model_output=got[:300], impl_output=exp[:300],
                              predicate='Model.resolve (the yardstick of the theorems) differs from np.arange(n)[idx]',
                              found_input=False, theorem='spec validation C18/Model.v resolve <-> NumPy')
    nbad = 0
    for c, (exp, case) in R.expect.items():
        got = mod.get(c, '<missing>')
        if got != exp:
            nbad += 1
            chk.disagreements += 1
            if nbad <= 5:
                viol(chk, 'correspondence', case=case, model_output=got[:400], impl_output=exp[:400],
                              predicate='model and implementation disagree on ' + str(case.get('op')),
                              found_input=False, theorem='correspondence C18/Model.v <-> nibabel/cifti2/cifti2_axes.py')
    chk.extra['model_cases'] = len(R.lines)
    chk.extra['exhaustive_core_cases'] = n_exh
    chk.extra['unproved_statements'] = [
        'XML layer (Cifti2*._to_xml_element, Cifti2Parser/expat) and NIfTI-2 container are premises (Section '
        'hypotheses) of C18_file_roundtrip, not proved; tied by correspondence streams E/F; the XML premise is '
        'false for empty / whitespace-edged map names, metadata, label names (S-C18c)',
        'to_mapping/from_index_mapping of Parcels/Scalar/Label/Series axes are modelled as the identity on interned '
        'element values (per-element re-packing), tied by correspondence stream E',
        'float arithmetic of SeriesAxis (start + k*step in binary64) is idealised to Z; generator uses multiples of 1/4',
    ]
    chk.extra['candidate_findings'] = LOCAL_FINDINGS

    # ---------------- cross-check extraction against vm_compute on a small fixed sample
    pairs = []
    for n, s in [(5, (None, None, 2)), (5, (-7, None, None)), (4, (None, None, -1)), (3, (5, -9, -2)), (0, (None, None, -1))]:
        a = ax.SeriesAxis(2, 3, n)
        r = a[slice(*s)]
        sl = 'mkSl %s %s %s' % tuple('None' if v is None else f'(Some ({v}))' for v in s)
        pairs.append((f'match ser_getitem_slice (mkSer 2 3 {n} 1) ({sl}) with Ok b => ser_eqb b (mkSer ({r.start}) ({r.step}) {r.size} 1) | Err _ => false end',
                      f'series {n} {s}'))
    for n, ixs in [(5, [0, -1, 4]), (3, [2, 2, -3])]:
        want = '[' + ';'.join(str(int(x)) for x in np.arange(n)[ixs]) + ']'
        pairs.append((f'match resolve {n} (IList [{";".join("(%d)" % x for x in ixs)}]) with Ok l => list_eqb l {want} | Err _ => false end', f'resolve {n} {ixs}'))
    b1 = ax.BrainModelAxis.from_mask([1, 0, 1, 1], name='cortex_left') + \
        ax.BrainModelAxis.from_mask(np.ones((1, 2, 2)), affine=np.eye(4), name='thalamus_left')
    for a in (b1, b1[np.array([0, 4, 1, 5, 2])]):
        def z(x):
            return f'({int(x)})'
        nm = '[' + ';'.join(z(struct_id(x)) for x in a.name) + ']'
        vx = '[' + ';'.join('(%s,%s,%s)' % tuple(z(x) for x in row) for row in a.voxel) + ']'
        vt = '[' + ';'.join(z(x) for x in a.vertex) + ']'
        vol = 'Some ([%s], (%s,%s,%s))' % ((';'.join(z(sc_int(x)) for x in a.affine.ravel()),) + tuple(z(x) for x in a.volume_shape))
        nv = '[' + ';'.join(f'({z(struct_id(k))},{z(v)})' for k, v in a.nvertices.items()) + ']'
        t = f'(mkBm {nm} {vx} {vt} ({vol}) {nv})'
        pairs.append((f'match bm_to_mapping {t} with Ok m => match bm_from_mapping m with Ok b => bm_eqb b {t} && bm_eqb {t} b | Err _ => false end | Err _ => false end',
                      'bm roundtrip'))
        pairs.append((f'match bm_getitem {t} (ISlice (mkSl (Some 9) None None)) with Ok b => (bm_len b =? 0) && is_none (b_vol b) | _ => false end', 'empty selection'))
    imports = ('From Coq Require Import ZArith List Bool. Import ListNotations. Open Scope Z_scope.\n'
               'From NV Require Import Base.PySlice C18.Model.\n')
    ncase, bad = vm_crosscheck(PROP, imports, pairs)
    chk.vm = {'cases': ncase, 'disagreements': len(bad)}
    if bad:
        chk.disagreements += 1
        viol(chk, 'correspondence', case={'vm_crosscheck': [pairs[b][1] if isinstance(b, int) and b < len(pairs) else b for b in bad]},
                      predicate='implementation / extracted model disagree with vm_compute evaluation of the model',
                      found_input=False, theorem='extraction cross-check')


def replay(chk, obj):
    ensure_impl_path()
    global STRUCTS
    from nibabel.cifti2 import cifti2
    STRUCTS = sorted(set(cifti2.CIFTI_BRAIN_STRUCTURES.ciftiname))
    c = obj.get('case')
    if not isinstance(c, dict) or 'op' not in c:
        if (obj.get('inputs') or {}).get('probe_fn'):
            import defect_probes
            r = defect_probes.PROBES[obj['inputs']['probe_fn']]()
            print('defect present' if r else 'defect absent')
            return 1 if r else 0
        print('nothing to replay:', obj.get('predicate'))
        return 1
    R = Runner(chk)
    before = len(chk.violations)
    op = c['op']
    if op == 'getitem':
        check_index(R, axis_from_desc(c['axis']), idx_from_desc(c['index']))
    elif op == 'add':
        check_add(R, axis_from_desc(c['axis']), axis_from_desc(c['other']))
    elif op == 'bm_structure':
        check_bm_structure(R, axis_from_desc(c['axis']))
    elif op == 'eq':
        check_eq(R, axis_from_desc(c['axis']), axis_from_desc(c['other']))
    elif op == 'history':
        def arr(d):
            return np.array(d['values'], dtype=d['dtype']).reshape(d['shape'])
        check_history(R, [axis_from_desc(d) for d in c['axes1']], arr(c['data1']),
                      [axis_from_desc(d) for d in c['axes2']], arr(c['data2']), c['source'], c['extra_ext'], c['via'])
    else:
        data = None
        if 'data' in c:
            data = np.array(c['data']['values'], dtype=c['data']['dtype']).reshape(c['data']['shape'])
        check_header(R, [axis_from_desc(d) for d in c['axes']], data=data, via=op)
    bad = len(chk.violations) > before
    if not bad and obj.get('kind') == 'correspondence':
        # re-run the correspondence lines of this case
        try:
            mod = run_model(PROP, R.lines)
            for cid, (exp, _) in list(R.expect.items()) + list(R.spec.items()):
                if mod.get(cid) != exp:
                    print('model:', mod.get(cid), '\nimpl: ', exp)
                    bad = True
        except Exception as e:      # noqa: BLE001
            print('model run failed:', e)
    print('property/correspondence fails on this case' if bad else 'property holds on this case')
    return 1 if bad else 0
