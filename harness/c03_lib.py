"""C03 helpers: synthetic files for every array-proxy implementation, written by the harness,
each with an INDEPENDENT description of what the fully loaded array must be:

    spec = dict(kind=..., shape=..., raw=<flat raw elements in buffer order>, order='F'|'C',
                fac_of_elem=<factor index per raw element>, slopes=[...], inters=[...] | None,
                w=itemsize, off=data offset, model=<model line prefix pieces>)

`expected_flat(spec)` = raw * slope[fac] + inter[fac] in float64 (or raw itself when the file
says "no scaling"); all factors are dyadic and |raw| < 2**12 so the arithmetic is exact in
float32 and float64 alike and value comparison is exact.
"""
import bz2
import gzip
import os
import re

import numpy as np


def data_dir():
    import nibabel
    return os.path.join(os.path.dirname(nibabel.__file__), 'tests', 'data')


def raw_values(n, dtype, salt=0):
    """n distinct-ish small integers representable in dtype"""
    dt = np.dtype(dtype)
    v = (np.arange(n, dtype=np.int64) * 7 + 3 + 11 * salt) % 4001 - 2000
    if dt.kind == 'u':
        v = v % (256 if dt.itemsize == 1 else 4001)
    elif dt.itemsize == 1:
        v = v % 256 - 128
    return v.astype(dt)


def compress_variants(path, kinds=('gz', 'bz2', 'zst')):
    """write compressed siblings of `path` with the stdlib / pyzstd (not nibabel's openers)"""
    data = open(path, 'rb').read()
    out = {'plain': path}
    if 'gz' in kinds:
        with open(path + '.gz', 'wb') as f:
            f.write(gzip.compress(data, compresslevel=1))
        out['gz'] = path + '.gz'
    if 'bz2' in kinds:
        with open(path + '.bz2', 'wb') as f:
            f.write(bz2.compress(data, 1))
        out['bz2'] = path + '.bz2'
    if 'zst' in kinds:
        import pyzstd
        with open(path + '.zst', 'wb') as f:
            f.write(pyzstd.compress(data, 1))
        out['zst'] = path + '.zst'
    return out


def read_plain(path):
    """independent decompression of a file by its suffix"""
    b = open(path, 'rb').read()
    if path.endswith('.gz') or path.endswith('.mgz'):
        return gzip.decompress(b)
    if path.endswith('.bz2'):
        return bz2.decompress(b)
    if path.endswith('.zst'):
        import pyzstd
        return pyzstd.decompress(b)
    return b


# ------------------------------------------------------------------ generic Analyze family
def write_analyze_like(klass, base, shape, dtype, slope, inter, endian='<', offset=None, salt=0):
    """Header through the class's header writer, raw integers through header.data_to_fileobj
    (rescale=False).  Returns (filename to load, image data filename, spec)."""
    hdr = klass.header_class(endianness=endian)
    hdr.set_data_shape(shape)
    hdr.set_data_dtype(dtype)
    n = int(np.prod(shape))
    raw = raw_values(n, dtype, salt)
    single = klass.files_types[0][1] == klass.files_types[-1][1] and len(klass.files_types) == 1
    for args in ((slope, inter), (slope, 0), None):      # SPM: no intercept; Analyze: no scaling
        if args is None:
            hdr = klass.header_class(endianness=endian)
            hdr.set_data_shape(shape)
            hdr.set_data_dtype(dtype)
            break
        try:
            hdr.set_slope_inter(*args)
            break
        except Exception:
            continue
    ext_img = dict(klass.files_types)['image']
    ext_hdr = dict(klass.files_types).get('header', ext_img)
    one_file = ext_img == ext_hdr
    if one_file:
        off = offset if offset is not None else hdr.single_vox_offset if hasattr(hdr, 'single_vox_offset') else 352
        hdr.set_data_offset(off)
        p = base + ext_img
        with open(p, 'wb') as f:
            hdr.write_to(f)
            f.write(b'\0' * max(0, off - f.tell()))
            hdr.data_to_fileobj(raw.reshape(shape, order='F'), f, rescale=False)
        load, img_file = p, p
    else:
        off = offset or 0
        hdr.set_data_offset(off)
        with open(base + ext_hdr, 'wb') as f:
            hdr.write_to(f)
        with open(base + ext_img, 'wb') as f:
            f.write(b'\xAA' * off)
            hdr.data_to_fileobj(raw.reshape(shape, order='F'), f, rescale=False)
        load, img_file = base + ext_img, base + ext_img
    # what the HEADER BYTES on disk say about scaling (the in-memory header may have been reset
    # by data_to_fileobj)
    with open(base + ext_hdr, 'rb') as f:
        sl, it = klass.header_class.from_fileobj(f).get_slope_inter()
    spec = dict(kind='ap', shape=tuple(shape), raw=raw, order='F', fac_of_elem=np.zeros(n, int),
                slopes=None if sl is None else [float(sl)], inters=None if sl is None else [float(it or 0.0)],
                w=np.dtype(dtype).itemsize, off=off, dtype=np.dtype(dtype).newbyteorder(endian),
                hdr_file=base + ext_hdr, img_file=img_file, one_file=one_file)
    return load, img_file, spec


def write_mgh(base, shape, dtype, salt=0, gz=False):
    import nibabel as nib
    n = int(np.prod(shape))
    raw = raw_values(n, dtype, salt)
    img = nib.MGHImage(raw.reshape(shape, order='F'), np.eye(4))
    p = base + ('.mgz' if gz else '.mgh')
    img.to_filename(p)
    spec = dict(kind='ap', shape=tuple(shape), raw=raw, order='F', fac_of_elem=np.zeros(n, int), slopes=None,
                inters=None, w=np.dtype(dtype).itemsize, off=284, dtype=np.dtype(dtype).newbyteorder('>'),
                img_file=p, hdr_file=p, one_file=True)
    return p, p, spec


# ------------------------------------------------------------------ AFNI
def _afni_attr(typ, name, values):
    if typ == 'string':
        s = "'" + values + '~'
        return f'\ntype = string-attribute\nname = {name}\ncount = {len(values) + 1}\n{s}\n'
    body = ' '.join(repr(float(v)) if typ == 'float' else str(int(v)) for v in values)
    return f'\ntype = {typ}-attribute\nname = {name}\ncount = {len(values)}\n {body}\n'


def write_afni(base, shape, facs, dtype='<i2', salt=0):
    """HEAD text derived from the repo fixture example4d+orig.HEAD with the data-layout
    attributes replaced; BRIK = raw little-endian integers, F order"""
    assert len(shape) == 4
    txt = open(os.path.join(data_dir(), 'example4d+orig.HEAD')).read()
    nvol = shape[3]
    code = {'i2': 1, 'u1': 0, 'f4': 3}[np.dtype(dtype).str[1:]]

    def repl(name, typ, values):
        nonlocal txt
        pat = re.compile(r'\ntype\s*=\s*\S+\nname\s*=\s*%s\ncount\s*=\s*\d+\n.*?(?=\n\ntype|\Z)' % re.escape(name), re.S)
        new = _afni_attr(typ, name, values).rstrip('\n')
        if pat.search(txt):
            txt = pat.sub(lambda m: new, txt, count=1)
        else:
            txt += new + '\n'

    repl('DATASET_DIMENSIONS', 'integer', list(shape[:3]) + [0, 0])
    repl('DATASET_RANK', 'integer', [3, nvol, 0, 0, 0, 0, 0, 0])
    repl('BRICK_TYPES', 'integer', [code] * nvol)
    repl('BRICK_FLOAT_FACS', 'float', list(facs))
    repl('BRICK_STATS', 'float', [0, 1] * nvol)
    repl('BRICK_LABS', 'string', '~'.join('#%d' % i for i in range(nvol)))
    repl('TAXIS_NUMS', 'integer', [nvol, 0, 77002, -999, -999, -999, -999, -999])
    repl('BYTEORDER_STRING', 'string', 'LSB_FIRST')
    head = base + '+orig.HEAD'
    brik = base + '+orig.BRIK'
    with open(head, 'w') as f:
        f.write(txt)
    n = int(np.prod(shape))
    raw = raw_values(n, dtype, salt)
    with open(brik, 'wb') as f:
        f.write(raw.tobytes())
    eff = [1.0 if v == 0 else float(v) for v in facs]
    m = int(np.prod(shape[:3]))
    spec = dict(kind='afni', shape=tuple(shape), raw=raw, order='F', fac_of_elem=np.arange(n) // m,
                slopes=eff if any(facs) else None, inters=[0.0] * nvol if any(facs) else None,
                w=np.dtype(dtype).itemsize, off=0, dtype=np.dtype(dtype), img_file=brik, hdr_file=head, one_file=False)
    return head, brik, spec


# ------------------------------------------------------------------ PAR/REC
def write_parrec(base, shape, order_kind, rng, scaling='dv', nondyadic=False):
    """PAR text from the repo fixture phantom_EPI_asc_CLEAR_2_1.PAR: general information kept,
    image lines regenerated for (slice, dynamic) with our recon size, per-slice rescale
    slope/intercept/scale slope and record order; REC = int16 records in line order."""
    x, y, ns, nd = (list(shape) + [1])[:4]
    src = open(os.path.join(data_dir(), 'phantom_EPI_asc_CLEAR_2_1.PAR')).read().splitlines()
    first = next(i for i, l in enumerate(src) if l.strip() and l.strip()[0].isdigit())
    template = src[first].split()
    head = []
    for l in src[:first]:
        if 'Max. number of slices/locations' in l:
            l = re.sub(r':\s*\d+', ':   %d' % ns, l)
        if 'Max. number of dynamics' in l:
            l = re.sub(r':\s*\d+', ':   %d' % nd, l)
        head.append(l)
    recs = [(s, d) for d in range(nd) for s in range(ns)]          # sorted order
    if order_kind == 'shuffled':
        # random interleaving of the slices; the k-th appearance of a slice is its k-th dynamic
        # (the default, non-strict sort numbers volumes by order of appearance: C20's subject)
        labels = [s for s in range(ns) for _ in range(nd)]
        rng.shuffle(labels)
        seen = {}
        recs = []
        for s in labels:
            recs.append((s, seen.get(s, 0)))
            seen[s] = seen.get(s, 0) + 1
    elif order_kind == 'slice_major':
        recs = [(s, d) for s in range(ns) for d in range(nd)]
    slopes_dyadic = [1.0, 2.0, 0.5, 4.0, 1.5, 0.25, 3.0]
    inters_dyadic = [0.0, 8.0, -4.0, 16.0, 2.0]
    lines = []
    rs, ri, ss = [], [], []
    for k, (s, d) in enumerate(recs):
        t = list(template)
        t[0] = str(s + 1)
        t[2] = str(d + 1)
        t[6] = str(k)
        t[9], t[10] = str(x), str(y)
        RS = slopes_dyadic[(3 * s + 5 * d + 1) % len(slopes_dyadic)]
        RI = inters_dyadic[(s + 2 * d) % len(inters_dyadic)]
        SS = [0.5, 2.0, 4.0][(s + d) % 3]
        if nondyadic:       # decimal text round-trips exactly through repr()/float()
            RS = round(rng.uniform(0.001, 9.0), 5)
            RI = round(rng.uniform(-50.0, 50.0), 4)
            SS = round(rng.uniform(0.01, 3.0), 6)
        t[11], t[12], t[13] = repr(RI), repr(RS), repr(SS)
        rs.append(RS)
        ri.append(RI)
        ss.append(SS)
        lines.append('  ' + '  '.join(t))
    par = base + '.PAR'
    rec = base + '.REC'
    with open(par, 'w') as f:
        f.write('\n'.join(head + lines + ['', '# === END OF DATA DESCRIPTION FILE ===============================================', '']))
    m = x * y
    nrec = len(recs)
    raw = raw_values(m * nrec, '<u2', salt=nrec)
    with open(rec, 'wb') as f:
        f.write(raw.tobytes())
    # independent: output slab (s, d) (F order over the trailing axes) = record k with (s, d)
    ind = [0] * nrec
    for k, (s, d) in enumerate(recs):
        ind[s + ns * d] = k
    if scaling == 'dv':
        slopes, inters = rs, ri
    else:
        slopes = [1.0 / v for v in ss]
        inters = [ri[k] / (rs[k] * ss[k]) for k in range(nrec)]
    spec = dict(kind='parrec', shape=tuple(shape), raw=raw, order='F', ind=ind, nrec=nrec, m=m,
                slopes=slopes, inters=inters, rs=rs, ri=ri, ss=ss, w=2, off=0, dtype=np.dtype('<u2'), img_file=rec, hdr_file=par,
                one_file=False, exact=(scaling == 'dv'))
    # element e of the OUTPUT array (F order) is record ind[e // m], position e % m
    return par, rec, spec


# ------------------------------------------------------------------ ECAT
def write_ecat(path, frame_shape, nfr, rng, nondyadic=False):
    """multi-frame ECAT file assembled from the single-frame fixture's headers (same recipe as
    harness/defect_probes.make_multi_ecat) with our frame shape, per-frame scale factors and
    data; frames are stored at increasing block positions."""
    from nibabel.ecat import EcatHeader, EcatImage
    p = os.path.join(data_dir(), 'tinypet.v')
    rawf = open(p, 'rb').read()
    img = EcatImage.load(p)
    ml = img.get_mlist()
    sub0 = img.get_subheaders().subheaders[0].copy()
    x, y, z = frame_shape
    h2 = EcatHeader(rawf[:512])
    h2['num_frames'] = nfr
    calib = 0.5
    if nondyadic:
        calib = float(np.float32(rng.uniform(0.01, 50.0)))
    h2['ecat_calibration_factor'] = calib
    main = h2.binaryblock
    dirblk = np.zeros((128,), dtype='>i4').reshape(32, 4)
    dirblk[0] = [31 - nfr, 2, 0, nfr]
    m = x * y * z
    nblocks = (m * 2 + 511) // 512
    cur = 3
    frames = b''
    oid = int(ml[0][0])
    facs = []
    raws = []
    offs = []
    for i in range(nfr):
        fid = (oid & ~0x1FF) | (i + 1)
        sub = sub0.copy()
        sub['x_dimension'], sub['y_dimension'], sub['z_dimension'] = x, y, z
        sf = [1.0, 2.0, 0.25, 4.0, 0.5, 8.0][i % 6]
        if nondyadic:
            sf = float(np.float32(10 ** rng.uniform(-6, 3)))
        sub['scale_factor'] = sf
        facs.append(sf)
        d = raw_values(m, '>i2', salt=i + 1)
        raws.append(d)
        dirblk[i + 1] = [fid, cur, cur + nblocks - 1, 1]
        offs.append(cur * 512)
        db = d.tobytes()
        sb = sub.tobytes()
        frames += sb + b'\0' * (512 - len(sb)) + db + b'\x55' * (nblocks * 512 - len(db))
        cur += nblocks + 1
    with open(path, 'wb') as f:
        f.write(main + dirblk.tobytes() + frames)
    raw = np.concatenate(raws)
    spec = dict(kind='ecat', shape=tuple(frame_shape) + (nfr,), raw=raw, order='F',
                fac_of_elem=np.arange(m * nfr) // m, slopes=[calib * s for s in facs], inters=[0.0] * nfr, calib=calib, sfacs=facs,
                w=2, off=offs, dtype=np.dtype('>i2'), img_file=path, hdr_file=path, one_file=True, gap=None)
    return path, path, spec


# ------------------------------------------------------------------ MINC
MINC_VR = (0, 4095)


def _minc_factors(lead_shape, salt):
    n = int(np.prod(lead_shape)) if lead_shape else 1
    # slope = (max - min) / (vr1 - vr0) must be dyadic: vr range 4095 is not a power of two, so
    # choose max - min = k * 4095 / 2**j  exactly representable
    imin = np.array([float((3 * i + salt) % 5 - 2) for i in range(n)])
    imax = imin + np.array([4095.0 * [1, 2, 0.5, 4][(i + salt) % 4] for i in range(n)])
    return imin, imax


def write_minc2(path, shape, nscales, salt=0, dtype='<i2', raw=None, factors=None, vr=MINC_VR):
    import h5py
    names = ['time', 'zspace', 'yspace', 'xspace'][-len(shape):]
    n = int(np.prod(shape))
    if raw is None:
        raw = raw_values(n, dtype, salt) % 4096
    raw = np.asarray(raw).astype(dtype)
    imin, imax = factors if factors is not None else _minc_factors(shape[:nscales], salt)
    with h5py.File(path, 'w') as f:
        g = f.create_group('minc-2.0')
        dims = g.create_group('dimensions')
        for nm, ln in zip(names, shape):
            d = dims.create_dataset(nm, data=np.int32(0))
            d.attrs['step'] = 1.0
            d.attrs['start'] = 0.0
            d.attrs['length'] = np.int32(ln)
            d.attrs['spacing'] = np.bytes_(b'regular__')
            if nm.endswith('space'):
                d.attrs['direction_cosines'] = np.eye(3)[['xspace', 'yspace', 'zspace'].index(nm)]
        img = g.create_group('image').create_group('0')
        im = img.create_dataset('image', data=raw.reshape(shape))
        im.attrs['dimorder'] = np.bytes_(','.join(names).encode())
        im.attrs['valid_range'] = np.array(vr, dtype=np.float64)
        lead = tuple(shape[:nscales])
        for nm, arr in (('image-min', imin), ('image-max', imax)):
            ds = img.create_dataset(nm, data=arr.reshape(lead) if lead else np.float64(arr[0]))
            if nscales:
                ds.attrs['dimorder'] = np.bytes_(','.join(names[:nscales]).encode())
    return path, path, _minc_spec(shape, nscales, raw, imin, imax, np.dtype(dtype), path, vr)


def write_minc1(path, shape, nscales, salt=0, raw=None, factors=None, vr=MINC_VR, code='h'):
    from nibabel.externals.netcdf import netcdf_file
    names = ['time', 'zspace', 'yspace', 'xspace'][-len(shape):]
    n = int(np.prod(shape))
    fdt = {'h': '>i2', 'b': 'i1', 'i': '>i4', 'f': '>f4', 'd': '>f8'}[code]
    if raw is None:
        raw = raw_values(n, '>i2', salt) % 4096
    raw = np.asarray(raw).astype(fdt)
    imin, imax = factors if factors is not None else _minc_factors(shape[:nscales], salt)
    f = netcdf_file(path, 'w')
    for nm, ln in zip(names, shape):
        f.createDimension(nm, ln)
    for nm in names:
        v = f.createVariable(nm, 'i', ())
        v.spacing = b'regular__'
        v.step = 1.0
        v.start = 0.0
    im = f.createVariable('image', code, tuple(names))
    im.signtype = b'signed__'
    im.valid_range = np.array(vr, dtype=np.float64)
    im[:] = raw.reshape(shape)
    for nm, arr in (('image-min', imin), ('image-max', imax)):
        v = f.createVariable(nm, 'd', tuple(names[:nscales]))
        if nscales:
            v[:] = arr.reshape(shape[:nscales])
        else:
            v[...] = arr[0]
    f.close()
    return path, path, _minc_spec(shape, nscales, raw, imin, imax, np.dtype(fdt), path, vr)


def _minc_spec(shape, nscales, raw, imin, imax, dtype, path, vr=MINC_VR):
    n = int(np.prod(shape))
    m = int(np.prod(shape[nscales:]))
    imin, imax = np.asarray(imin, dtype=np.float64), np.asarray(imax, dtype=np.float64)
    slope = (imax - imin) / (vr[1] - vr[0])
    inter = imin - vr[0] * slope
    if np.dtype(dtype).kind == 'f':          # float-typed image: _normalize returns the data as read
        return dict(kind='minc', shape=tuple(shape), raw=np.asarray(raw).ravel(), order='C', nscales=nscales, isfloat=True,
                    fac_of_elem=np.zeros(n, int), slopes=None, inters=None, w=dtype.itemsize, off=None, dtype=dtype,
                    img_file=path, hdr_file=path, one_file=True)
    return dict(kind='minc', shape=tuple(shape), raw=np.asarray(raw).ravel(), order='C', nscales=nscales,
                fac_of_elem=np.arange(n) // m if nscales else np.zeros(n, int),
                slopes=list(slope), inters=list(inter), imin=imin, imax=imax, vr=vr, w=dtype.itemsize, off=None, dtype=dtype,
                img_file=path, hdr_file=path, one_file=True)


# ------------------------------------------------------------------ expectations
def expected_flat(spec):
    """the fully loaded array, flat in buffer order, from the independent description"""
    raw = np.asarray(spec['raw'])
    if spec['kind'] == 'parrec':
        m, ind = spec['m'], np.asarray(spec['ind'])
        e = np.arange(int(np.prod(spec['shape'])))
        src = ind[e // m] * m + e % m
        f = ind[e // m]
        return raw[src].astype(np.float64) * np.asarray(spec['slopes'])[f] + np.asarray(spec['inters'])[f]
    if spec['slopes'] is None:
        return raw
    f = np.asarray(spec['fac_of_elem'])
    return raw.astype(np.float64) * np.asarray(spec['slopes'])[f] + np.asarray(spec['inters'])[f]


# ------------------------------------------------------------------ bit-exact float plumbing (text forms of coq/C03/driver.ml)
KINFO = {0: (11, 16, 'float16', 'uint16'), 1: (24, 128, 'float32', 'uint32'), 2: (53, 1024, 'float64', 'uint64')}


def bits_to_sf(bits, k):
    """IEEE bit pattern of format k -> the model's text form (canonical mantissa/exponent)"""
    prec, emax = KINFO[k][:2]
    w = {0: 16, 1: 32, 2: 64}[k]
    ebits = w - prec
    s = bits >> (w - 1)
    E = (bits >> (prec - 1)) & ((1 << ebits) - 1)
    F = bits & ((1 << (prec - 1)) - 1)
    if E == (1 << ebits) - 1:
        return 'n' if F else 'i%d' % s
    if E == 0:
        if F == 0:
            return 'z%d' % s
        return 'f%d:%d:%d' % (s, F, 3 - emax - prec)
    return 'f%d:%d:%d' % (s, F + (1 << (prec - 1)), E - (emax - 1) - (prec - 1))


def float_to_sf(x, k):
    dt = np.dtype(KINFO[k][2])
    return bits_to_sf(int(np.array(x, dtype=dt).view(KINFO[k][3])), k)


def sf_to_float(tok, k):
    """model text form -> NumPy scalar of format k (0..2) or np.longdouble (3); exact"""
    ft = {0: np.float16, 1: np.float32, 2: np.float64, 3: np.longdouble}[k]
    if tok == 'n':
        return ft('nan')
    if tok[0] == 'i':
        return ft('-inf') if tok[1] == '1' else ft('inf')
    if tok[0] == 'z':
        return ft('-0.0') if tok[1] == '1' else ft('0.0')
    s, m, e = tok[1:].split(':')
    v = np.ldexp(ft(int(m)) if k != 3 else np.longdouble(int(m)), int(e))
    return ft(-v if s == '1' else v)


def dtype_tok(dt):
    dt = np.dtype(dt)
    if dt.kind in 'iu':
        return 'I%d:%d' % (int(dt.kind == 'i'), dt.itemsize * 8)
    return 'F%d' % {2: 0, 4: 1, 8: 2}.get(dt.itemsize, 3)


def tok_dtype(tok):
    if tok[0] == 'I':
        sg, w = tok[1:].split(':')
        return np.dtype(('i' if sg == '1' else 'u') + str(int(w) // 8))
    return np.dtype({0: np.float16, 1: np.float32, 2: np.float64, 3: np.longdouble}[int(tok[1:])])


def fid_of(x):
    """model format index of a scale factor as NumPy sees it (np.asanyarray(x).dtype)"""
    dt = np.asanyarray(x).dtype
    if dt.kind != 'f':
        dt = np.dtype(np.float64)
    return {2: 0, 4: 1, 8: 2}.get(dt.itemsize, 3)


def val_tok(v, dt):
    dt = np.dtype(dt)
    if dt.kind in 'iu':
        return str(int(v))
    return float_to_sf(v, {2: 0, 4: 1, 8: 2}[dt.itemsize])


def parse_model_array(res):
    """'ok <dtype> v...' -> NumPy array of that dtype (bit exact) | None for 'err ...'"""
    if not res.startswith('ok '):
        return None
    toks = res.split(' ')
    dt = tok_dtype(toks[1])
    if dt.kind in 'iu':
        return np.array([int(t) for t in toks[2:]], dtype=dt)
    k = int(toks[1][1:])
    return np.array([sf_to_float(t, k) for t in toks[2:]], dtype=dt)


def same_bits(a, b):
    a, b = np.asarray(a), np.asarray(b)
    na, nb = a.astype(a.dtype.newbyteorder('='), copy=False), b.astype(b.dtype.newbyteorder('='), copy=False)
    if na.dtype != nb.dtype or na.shape != nb.shape:
        return False
    ba, bb = np.ascontiguousarray(na).tobytes(), np.ascontiguousarray(nb).tobytes()
    if na.dtype == np.dtype(np.longdouble) and na.dtype.itemsize == 16:      # x87: 10 significant bytes + 6 of padding
        ua = np.frombuffer(ba, np.uint8).reshape(-1, 16)[:, :10]
        ub = np.frombuffer(bb, np.uint8).reshape(-1, 16)[:, :10]
        return bool(np.array_equal(ua, ub))
    return ba == bb
