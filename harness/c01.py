"""C01 — Lossless voxel round-trip through every writable volume format.

Model: coq/C01/Model.v (write_data = the slab loop of volumeutils._write_data, read_data =
array_from_file in F order, write_single / write_pair_img / write_mgh = file layouts, mgh_shape).
Theorems: coq/C01/Props.v.  Case lines sent to bin/modelrun_c01 (see coq/C01/driver.ml):
  wdata <be> <w> <nc> <shape> <words> | single ... <hdrhex> <exthex> <vox> | pair ... <offset>
  | mgh ... <hdrhex> <footerhex> | read <be> <w> <nc> <shape> <offset> <filehex> | mghshape <shape>
<words> = the array cast to the on-disk type (NumPy astype: oracle), as unsigned words in C
(nested-list) order, nc words of w bytes per element (complex: 2, RGB: 3, RGBA: 4).
Compared with the implementation: the (decompressed) bytes of every written image file against
the model's file for the same header block / offset, and the re-loaded np.asanyarray(img.dataobj)
(words + shape) against the model's reader on those bytes.  Direct predicate on every case: the
re-loaded array has the on-disk dtype, the same shape and is bit-for-bit arr.astype(on_disk)."""
import bz2
import gzip
import io
import itertools
import os
import warnings

import numpy as np

from common import Check, ensure_impl_path, run_model, vm_crosscheck

PROP = 'C01'

RGB = np.dtype([('R', 'u1'), ('G', 'u1'), ('B', 'u1')])
RGBA = np.dtype([('R', 'u1'), ('G', 'u1'), ('B', 'u1'), ('A', 'u1')])
MEM_DTYPES = [np.dtype(t) for t in ('bool', 'i1', 'u1', 'i2', 'u2', 'i4', 'u4', 'i8', 'u8', 'f2', 'f4', 'f8', 'c8', 'c16')] + [RGB, RGBA]

CLASSES = {}


def classes():
    if not CLASSES:
        import nibabel as nib
        CLASSES.update({
            'analyze': dict(cls=nib.AnalyzeImage, ext='.img', single=False, hsize=348, ser=False),
            'spm99': dict(cls=nib.Spm99AnalyzeImage, ext='.img', single=False, hsize=348, ser=False),
            'spm2': dict(cls=nib.Spm2AnalyzeImage, ext='.img', single=False, hsize=348, ser=False),
            'nifti1': dict(cls=nib.Nifti1Image, ext='.nii', single=True, hsize=348, ser=True),
            'nifti1pair': dict(cls=nib.Nifti1Pair, ext='.img', single=False, hsize=348, ser=False),
            'nifti2': dict(cls=nib.Nifti2Image, ext='.nii', single=True, hsize=540, ser=True),
            'nifti2pair': dict(cls=nib.Nifti2Pair, ext='.img', single=False, hsize=540, ser=False),
            'mgh': dict(cls=nib.MGHImage, ext='.mgh', single=True, hsize=90, ser=True),
        })
        for k, e in CLASSES.items():
            e['dtypes'] = disk_dtypes(k, e['cls'])
    return CLASSES


def disk_dtypes(name, cls):
    if name == 'mgh':
        return [np.dtype(t) for t in ('u1', 'i2', 'i4', 'f4')]
    rec = cls.header_class._data_type_codes
    out = []
    for code in sorted(rec.value_set('code')):
        dt = rec.dtype[code]
        if dt.itemsize > 0 and dt not in out:
            out.append(dt)
    return out


def hx(b):
    return 'x' + bytes(b).hex()


def nat(dt):
    return dt.newbyteorder('=') if dt.fields is None else dt


def words_of(a):
    """(w, nc, [unsigned words in C order]) of a native-order array of an on-disk dtype"""
    dt = a.dtype
    a = np.ascontiguousarray(a)
    if dt.fields is not None:
        w, nc = 1, dt.itemsize
    elif dt.kind == 'c':
        w, nc = dt.itemsize // 2, 2
    else:
        w, nc = dt.itemsize, 1
    flat = np.frombuffer(a.tobytes(), dtype='u%d' % w)
    return w, nc, [int(x) for x in flat]


def zl(l):
    return '[' + ','.join(str(x) for x in l) + ']'


# ------------------------------------------------------------------ generators
def no_scaling_pair(m, d):
    """(memory dtype, on-disk dtype) pairs for which exactly representable values need no scaling"""
    if d.fields is not None or m.fields is not None:
        return m == d
    if d.kind == 'c':
        return True
    if m.kind == 'c':
        return False
    if d.kind == 'f':
        return True
    return m.kind in 'biu'          # float -> int always rescales (except all-zero data)


def common_values(rng, m, d, n, special):
    """n values exactly representable in both dtypes (as an array of dtype m)"""
    if m.fields is not None:
        return np.frombuffer(bytes(rng.getrandbits(8) for _ in range(n * m.itemsize)), dtype=m).copy()

    def int_range(dt):
        if dt.kind == 'b':
            return 0, 1
        if dt.kind in 'iu':
            i = np.iinfo(dt)
            return int(i.min), int(i.max)
        base = dt if dt.kind == 'f' else np.dtype('f%d' % (dt.itemsize // 2))
        k = np.finfo(base).nmant + 1
        return -2 ** k, 2 ** k
    lo = max(int_range(m)[0], int_range(d)[0])
    hi = min(int_range(m)[1], int_range(d)[1])
    floaty = m.kind in 'fc' and d.kind in 'fc'
    if m.kind == 'f' and m.itemsize == 2 or d.kind == 'f' and d.itemsize == 2:
        lo, hi = max(lo, -2048), min(hi, 2048)
    pool = [0, 1, lo, hi, hi - 1, lo + 1 if lo < 0 else 0]
    vals = []
    for _ in range(n):
        r = rng.random()
        if r < 0.35:
            vals.append(rng.choice(pool))
        else:
            vals.append(rng.randint(max(lo, -1000), min(hi, 1000)) if rng.random() < 0.5 else rng.randint(lo, hi))
    a = np.array(vals, dtype=object)
    if m.kind in 'biu':
        return np.array([int(v) for v in vals], dtype=m)
    out = np.array([float(v) for v in vals], dtype=m)
    if floaty and special:
        narrow = min((x for x in (m, d)), key=lambda x: x.itemsize if x.kind == 'f' else x.itemsize // 2)
        fb = narrow if narrow.kind == 'f' else np.dtype('f%d' % (narrow.itemsize // 2))
        fi = np.finfo(fb)
        specials = [np.nan, np.inf, -np.inf, -0.0, float(fi.max), float(fi.tiny), float(fi.smallest_subnormal), 0.5, -1.75, float(fi.eps)]
        for i in range(n):
            if rng.random() < 0.4:
                out[i] = rng.choice(specials)
        if m.kind == 'c' and d.kind == 'c':
            for i in range(n):
                if rng.random() < 0.5:
                    out[i] = complex(out[i].real, rng.choice(specials + [1.0, 2.0]))
    return out


SHAPE_AXES = [1, 2, 3, 5]


def gen_shape(rng, rank):
    while True:
        sh = tuple(rng.choice(SHAPE_AXES) for _ in range(rank))
        if int(np.prod(sh)) <= 240:
            return sh


def memory_variant(rng, a, kind):
    """the same logical array in another memory layout"""
    if kind == 'C':
        return np.ascontiguousarray(a)
    if kind == 'F':
        return np.asfortranarray(a)
    if kind == 'strided':
        big = np.zeros(tuple(2 * s for s in a.shape), dtype=a.dtype)
        view = big[tuple(slice(None, None, 2) for _ in a.shape)]
        view[...] = a
        return view
    if kind == 'negative':
        flipped = np.ascontiguousarray(a[tuple(slice(None, None, -1) for _ in a.shape)])
        return flipped[tuple(slice(None, None, -1) for _ in a.shape)]
    if kind == 'transposed':
        return np.ascontiguousarray(a.T).T
    if kind == 'broadcast':       # read-only, zero stride along the last axis (values constant along it)
        return np.broadcast_to(np.ascontiguousarray(a[..., :1]), a.shape)
    raise ValueError(kind)


MEM_KINDS = ['C', 'F', 'strided', 'negative', 'transposed', 'broadcast']
COMPRESSIONS = ['', '.gz', '.bz2', '.zst']
ROUTES = ['filename', 'file_map', 'bytes', 'stream']


def decompress(path):
    raw = open(path, 'rb').read()
    if path.endswith('.gz') or path.endswith('.mgz'):
        return gzip.decompress(raw)
    if path.endswith('.bz2'):
        return bz2.decompress(raw)
    if path.endswith('.zst'):
        import pyzstd
        return pyzstd.decompress(raw)
    return raw


HDRVARS = ['default', 'none', 'same', 'trailing1', 'fewer', 'different', 'otherclass']
DTKWS = ['set', 'type', 'str', 'native', 'swapped']
OTHER_CLASS = {'analyze': 'nifti1', 'spm99': 'analyze', 'spm2': 'nifti1pair', 'nifti1': 'nifti2', 'nifti1pair': 'spm99',
               'nifti2': 'nifti1', 'nifti2pair': 'analyze', 'mgh': 'nifti1'}


def resolve_hdrvar(clsname, hv, m, shape):
    """the explicit-header variant actually applicable to this class / dtype / shape"""
    cs = classes()
    rank = len(shape)
    if hv == 'none' and not any(nat(x) == nat(m) for x in cs[clsname]['dtypes']):
        hv = 'default'                 # header=None takes the dtype from the data: must be a supported one
    if hv == 'trailing1' and rank >= (3 if clsname == 'mgh' else 7):
        hv = 'fewer'
    if hv == 'fewer' and rank == 1:
        hv = 'different'
    if clsname == 'mgh' and hv in ('same', 'fewer', 'different') and rank > 4:
        hv = 'default'
    return hv


def build_header(clsname, hv, shape, be):
    """header given to the image constructor (None for header=None)"""
    cs = classes()
    if hv == 'none':
        return None
    src = OTHER_CLASS[clsname] if hv == 'otherclass' else clsname
    hc = cs[src]['cls'].header_class
    hdr = hc() if src == 'mgh' else hc(endianness='>' if be else '<')
    if hv == 'default':
        return hdr
    if hv in ('same', 'otherclass'):
        hs = tuple(shape)
    elif hv == 'trailing1':
        hs = tuple(shape) + (1,) * (1 + (len(shape) + shape[0]) % 2 if len(shape) + 2 <= (4 if clsname == 'mgh' else 7) else 1)
    elif hv == 'fewer':
        hs = tuple(shape[:-1])
    else:
        hs = tuple(x + 1 for x in shape)
    if src == 'mgh':
        hs = hs[:4]
    hdr.set_data_shape(hs)
    hdr.set_zooms(tuple(1.0 + 0.5 * i for i in range(len(hdr.get_zooms()))))
    return hdr


def expected_be(case):
    """byte order the file must have: the header's; a header of another class is converted to a native one
    (C10: from_header) and header=None gives a native one"""
    import sys
    if case['cls'] == 'mgh':
        return 1
    if case['hdrvar'] in ('none', 'otherclass'):
        return 1 if sys.byteorder == 'big' else 0
    return case['be']


def dtype_kw(case):
    """the value of the dtype= keyword of the save call (None: the dtype was set with set_data_dtype)"""
    d = case['disk']
    k = case['dtkw']
    if k == 'set':
        return None
    if d.fields is not None:
        return d
    if k == 'type':
        return d.type
    if k == 'str':
        return d.name
    if k == 'native':
        return nat(d)
    return nat(d).newbyteorder('S')          # byte-swapped dtype object, e.g. taken from a header of the other order


def make_image(case, arr):
    ent = classes()[case['cls']]
    cls = ent['cls']
    d = case['disk']
    hdr = build_header(case['cls'], case['hdrvar'], case['shape'], case['be'])
    if case['cls'] == 'mgh' and hdr is not None and case['hdrvar'] != 'otherclass':
        hdr.set_data_dtype(d)
    img = cls(arr, np.eye(4), header=hdr)
    if case['dtkw'] == 'set':
        img.set_data_dtype(d)
    if case['cls'] == 'mgh':
        return img
    if case.get('offset'):
        img.header.set_data_offset(case['offset'])
    if case.get('autoscale') and cls.header_class.has_data_slope:
        # the state of an image built without a header: scale factors are chosen at save time
        if cls.header_class.has_data_intercept:
            img.header.set_slope_inter(np.nan, np.nan)
        else:
            img.header.set_slope_inter(np.nan)
    return img


def run_case(chk, case, arr):
    """save + reload on the implementation; returns observables"""
    from nibabel.fileholders import FileHolder
    from nibabel.spatialimages import HeaderDataError
    from nibabel.arraywriters import WriterError
    ent = classes()[case['cls']]
    cls = ent['cls']
    out = {}
    kw = {} if dtype_kw(case) is None else {'dtype': dtype_kw(case)}
    with warnings.catch_warnings():
        warnings.simplefilter('ignore')
        img = make_image(case, arr)
        # the same image object has been saved before, with dtype= overrides (rescaled / not rescaled)
        for hstep, hname in enumerate(case.get('hist', ())):
            fmh = {t: FileHolder(fileobj=io.BytesIO()) for t, _ in cls.files_types}
            try:
                img.to_file_map(fmh, dtype=hist_dtype(case['cls'], hname))
            except (HeaderDataError, WriterError):
                # the earlier (rescaling) save was itself refused, e.g. a float64 range whose slope does not fit the
                # header's float32 field (C02's subject); the image object goes on to the save under test
                chk.refusal('history_save_refused')
                continue
            if hname == 'scale' and hstep == 0:      # generator sanity: the first override really rescales
                pr = cls.from_file_map({t: FileHolder(fileobj=io.BytesIO(v.fileobj.getvalue()))
                                        for t, v in fmh.items()}).dataobj
                if pr.slope == 1.0 and pr.inter == 0.0:
                    raise RuntimeError('history save was expected to rescale')
        route = case['route']
        base = os.path.join(chk.workdir, f"c{case['id']}")
        if route == 'filename':
            if case['cls'] == 'mgh':
                fname = base + ('.mgz' if case['comp'] else '.mgh')
            else:
                fname = base + ent['ext'] + case['comp']
            img.to_filename(fname, **kw)
            out['img_bytes'] = decompress(fname)
            img2 = cls.from_filename(fname)
        elif route == 'file_map':
            fm = {t: FileHolder(fileobj=io.BytesIO()) for t, _ in cls.files_types}
            img.to_file_map(fm, **kw)
            out['img_bytes'] = fm['image'].fileobj.getvalue()
            fm2 = {k: FileHolder(fileobj=io.BytesIO(v.fileobj.getvalue())) for k, v in fm.items()}
            img2 = cls.from_file_map(fm2)
        elif route in ('both_stale', 'both_missing'):
            # holders carrying BOTH a file name and an open file object: the file object wins
            names = {t: base + ext for t, ext in cls.files_types}
            if route == 'both_stale':      # the named files hold an image of the same size with different data
                decoy_arr = np.roll(np.ascontiguousarray(arr).reshape(-1), 1).reshape(arr.shape)
                decoy = make_image(case, decoy_arr)
                decoy.to_filename(names['image'], **kw)
            fm = {t: FileHolder(filename=names[t], fileobj=io.BytesIO()) for t, _ in cls.files_types}
            img.to_file_map(fm, **kw)
            out['img_bytes'] = fm['image'].fileobj.getvalue()
            fm2 = {k: FileHolder(filename=names[k], fileobj=io.BytesIO(v.fileobj.getvalue())) for k, v in fm.items()}
            img2 = cls.from_file_map(fm2)
        elif route == 'bytes':
            b = img.to_bytes(**kw)
            out['img_bytes'] = b
            img2 = cls.from_bytes(b)
        else:
            s = io.BytesIO()
            img.to_stream(s, **kw)
            out['img_bytes'] = s.getvalue()
            img2 = cls.from_stream(io.BytesIO(s.getvalue()))
        arr2 = np.array(np.asanyarray(img2.dataobj))
        fd = img2.get_fdata() if arr2.dtype.fields is None and arr2.dtype.kind != 'c' else None
        out['arr2'] = arr2
        out['fdata'] = fd
        out['shape2'] = tuple(int(x) for x in img2.shape)
        out['offset2'] = int(img2.dataobj.offset)
        out['dtype2'] = img2.get_data_dtype()
        out['be2'] = 1 if img2.header.endianness == '>' else 0
    return out


def gen_cases(chk):
    rng = chk.rng
    cs = classes()
    cases = []

    def add(clsname, m, d, shape, be, comp, route, mem, special=True, offset=0, tag='random', r=rng, hist=(),
            hdrvar='default', dtkw='set'):
        ent = cs[clsname]
        hist = tuple(hist) if hist_ok(clsname, m, d) else ()
        hdrvar = resolve_hdrvar(clsname, hdrvar, m, shape)
        if clsname == 'mgh':
            dtkw = 'set'               # MGHImage.to_file_map has no dtype= keyword
            if hdrvar in ('none', 'otherclass') and not any(nat(x) == nat(m) for x in ent['dtypes']):
                hdrvar = 'default'
        if hdrvar == 'otherclass' and offset:
            offset = 0
        if clsname == 'mgh':
            be = 1
        if route in ('bytes', 'stream') and not ent['ser']:
            route = 'file_map'
        if route.startswith('both') and clsname == 'mgh' and comp:
            comp = ''
        if route != 'filename':
            comp = ''
        if clsname == 'mgh' and comp:
            comp = '.mgz'
        n = int(np.prod(shape))
        if mem == 'broadcast':
            base = common_values(r, m, d, n // shape[-1], special).reshape(tuple(shape[:-1]) + (1,))
            vals = np.ascontiguousarray(np.broadcast_to(base, shape))
        else:
            vals = common_values(r, m, d, n, special).reshape(shape)
        if hist:       # make sure the uint8 override of the history really needs rescaling
            vals = vals.copy()
            vals[(0,) * vals.ndim] = 1.5 if m.kind == 'f' else (100000 if clsname.startswith('spm') else 1000)
            if mem == 'broadcast':
                vals[(0,) * (vals.ndim - 1)] = vals[(0,) * vals.ndim]
        cases.append(dict(id=len(cases), cls=clsname, mem=m, disk=d, shape=tuple(shape), be=be, comp=comp, route=route,
                          layout=mem, offset=offset, tag=tag, vals=vals, hist=hist, hdrvar=hdrvar, dtkw=dtkw,
                          autoscale=bool(hist) or (len(cases) % 2 == 0)))

    # ---- seed-independent core: every class x every on-disk dtype x both byte orders with the
    # same memory dtype, the other axes rotating deterministically; every rank 1..7; MGH ranks 1..5
    import random
    fixed = random.Random(20260930)
    k = 0
    for clsname, ent in cs.items():
        for d in ent['dtypes']:
            for be in (0, 1):
                rank = 1 + k % 7 if clsname != 'mgh' else 3 + k % 2
                sh = gen_shape(fixed, rank)
                if clsname == 'mgh' and len(sh) == 4 and sh[3] == 1:
                    sh = sh[:3] + (2,)
                add(clsname, nat(d), nat(d), sh, be, COMPRESSIONS[k % 4], ROUTES[k % 4], MEM_KINDS[k % 6], tag='core', r=fixed)
                k += 1
    for rank in range(1, 8):
        for clsname in cs:
            if clsname == 'mgh' and rank > 5:
                continue
            d = cs[clsname]['dtypes'][rank % len(cs[clsname]['dtypes'])]
            add(clsname, nat(d), nat(d), gen_shape(fixed, rank), rank % 2, COMPRESSIONS[rank % 4], ROUTES[(rank + 1) % 4],
                MEM_KINDS[rank % 6], tag='core-rank', r=fixed)
    # every (memory dtype, on-disk dtype) pair that needs no scaling, once, on a NIfTI-1 / NIfTI-2 file
    for m in MEM_DTYPES:
        for j, d in enumerate(cs['nifti1']['dtypes']):
            if no_scaling_pair(m, nat(d)):
                add(['nifti1', 'nifti2', 'nifti1pair'][k % 3], m, nat(d), gen_shape(fixed, 1 + k % 4), k % 2, COMPRESSIONS[k % 4],
                    ROUTES[k % 4], MEM_KINDS[k % 6], tag='core-dtype-pair', r=fixed)
                k += 1
    # reused image objects: every class with a slope / intercept x every history, float and integer data
    for clsname in cs:
        for j, h in enumerate(HISTORIES):
            for m, d in ((np.dtype('f4'), np.dtype('f4')), (np.dtype('f8'), np.dtype('f4')), (np.dtype('i4'), np.dtype('i4')),
                         (np.dtype('i4'), np.dtype('f4'))):
                add(clsname, m, d, gen_shape(fixed, 1 + k % 4), k % 2, COMPRESSIONS[k % 4], ROUTES[k % 4], MEM_KINDS[k % 6],
                    tag='core-history', r=fixed, hist=h)
                k += 1
    # explicit-header variants x dtype= keyword forms, every class, both byte orders
    for clsname in cs:
        for hv in HDRVARS:
            for dk in DTKWS:
                d = nat(cs[clsname]['dtypes'][k % len(cs[clsname]['dtypes'])])
                if d.fields is None and d.itemsize == 1:
                    d = nat(cs[clsname]['dtypes'][1])
                rank = (3 + k % 2) if clsname == 'mgh' else 1 + k % 5
                sh = gen_shape(fixed, rank)
                if clsname == 'mgh' and len(sh) == 4 and sh[3] == 1:
                    sh = sh[:3] + (2,)
                add(clsname, d, d, sh, k % 2, COMPRESSIONS[k % 4], ROUTES[k % 4], MEM_KINDS[k % 6],
                    tag='core-header-dtypekw', r=fixed, hdrvar=hv, dtkw=dk)
                k += 1
    # file maps whose holders carry both a file name (stale file / missing file) and a file object
    for clsname in cs:
        for rt in ('both_stale', 'both_missing'):
            for be in (0, 1):
                d = nat(cs[clsname]['dtypes'][k % len(cs[clsname]['dtypes'])])
                sh = gen_shape(fixed, 3 if clsname == 'mgh' else 1 + k % 4)
                add(clsname, d, d, sh, be, '', rt, MEM_KINDS[k % 6], tag='core-both', r=fixed, dtkw=DTKWS[k % 5])
                k += 1
    # user offsets
    for clsname, off in (('analyze', 16), ('spm99', 100), ('nifti1pair', 32), ('nifti1', 352 + 64), ('nifti2', 544 + 16), ('nifti2pair', 7)):
        d = cs[clsname]['dtypes'][1]
        add(clsname, nat(d), nat(d), (2, 3, 2), 1, '.gz', 'filename', 'C', offset=off, tag='core-offset', r=fixed)
        add(clsname, nat(d), nat(d), (3, 2), 0, '.bz2', 'filename', 'F', offset=off, tag='core-offset', r=fixed)
    # ---- random tail
    names = list(cs)
    for _ in range(chk.n(1300, 38000)):
        clsname = rng.choice(names)
        ent = cs[clsname]
        d = nat(rng.choice(ent['dtypes']))
        ms = [m for m in MEM_DTYPES if no_scaling_pair(m, d)]
        m = rng.choice(ms)
        if clsname == 'mgh':
            rank = rng.choice([1, 2, 3, 3, 3, 4, 4, 4, 5])
        else:
            rank = rng.randrange(1, 8)
        off = 0
        if rng.random() < 0.15 and clsname != 'mgh':
            off = (ent['hsize'] + 4 + 16 * rng.randrange(0, 5)) if ent['single'] else rng.choice([1, 16, 100])
        add(clsname, m, d, gen_shape(rng, rank), rng.randrange(2), rng.choice(COMPRESSIONS),
            rng.choice(['filename', 'filename', 'filename', 'file_map', 'bytes', 'stream', 'both_stale', 'both_missing']),
            rng.choice(MEM_KINDS), special=rng.random() < 0.7, offset=off,
            hist=rng.choice(HISTORIES) if rng.random() < 0.3 else (),
            hdrvar=rng.choice(HDRVARS) if rng.random() < 0.6 else 'default', dtkw=rng.choice(DTKWS) if rng.random() < 0.5 else 'set')
    return cases


HISTORIES = [('scale',), ('noscale',), ('scale', 'noscale'), ('noscale', 'scale'), ('scale', 'scale')]


def hist_ok(clsname, m, d):
    """classes with a slope and/or intercept field; data for which dtype=uint8 needs rescaling and the
    save under test needs none"""
    if clsname in ('analyze', 'mgh') or m.fields is not None or d.fields is not None:
        return False
    if m.kind == 'f':
        return d.kind in 'fc'
    need = 4 if clsname.startswith('spm') else 2      # room for the forced out-of-range value
    if m.kind in 'iu' and m.itemsize >= need:
        return (d.kind in 'iu' and d.itemsize >= need) or (d.kind in 'fc' and d.itemsize >= 4)
    return False


def hist_dtype(clsname, hname):
    """dtype= override of an earlier save: 'scale' must need rescaling (SPM has no intercept: a signed type)"""
    if hname == 'noscale':
        return np.float64
    return np.int16 if clsname.startswith('spm') else np.uint8


def describe(c):
    return {'cls': c['cls'], 'mem': str(c['mem']), 'disk': str(c['disk']), 'shape': list(c['shape']), 'be': c['be'],
            'comp': c['comp'], 'route': c['route'], 'layout': c['layout'], 'offset': c['offset'], 'hist': list(c.get('hist', ())),
            'autoscale': bool(c.get('autoscale')), 'hdrvar': c.get('hdrvar', 'default'), 'dtkw': c.get('dtkw', 'set'),
            'vals_hex': np.ascontiguousarray(c['vals']).tobytes().hex()}


def mgh_expected_shape(sh):
    """structural classification for MGH (S-C01a / refusals), independent of the model"""
    if len(sh) > 4:
        return 'refuse'
    if len(sh) < 3:
        return tuple(sh) + (1,) * (3 - len(sh))
    if len(sh) == 4 and sh[3] == 1:
        return 'refuse'
    return tuple(sh)


def run(chk: Check):
    ensure_impl_path()
    import logging
    logging.disable(logging.CRITICAL)
    chk.rule = ('core (seed independent): every writable class x every on-disk dtype x {<,>} with ranks 1-7 (axes in {1,2,3,5}, '
                'size <= 240), compression {none,.gz,.bz2,.zst,.mgz}, route {filename, file_map of BytesIO, to_bytes/from_bytes, '
                'to_stream/from_stream} and memory layout {C,F,strided,negative-stride,transposed} rotating; every (memory dtype, '
                'on-disk dtype) pair that needs no scaling; user data offsets; MGH ranks 1-5. Random tail: all axes drawn at '
                'random, values exactly representable in both dtypes incl. extremes, NaN (payloads), +-inf, -0, subnormals. '
                'Reused image objects: the same image saved before with dtype=uint8 (rescaled) and/or dtype=float64 (not rescaled), every '
                'class with a slope/intercept field x every history. Aliases (child processes): load memory-mapped, save onto the same '
                'file through a symlink / hard link / relative spelling (both directions), fresh load. '
                'A case is non-trivial when the array has more than one element; distinct by the whole configuration + values.')
    chk.assumptions = ['the array cast to the on-disk type is computed by NumPy astype (oracle) and given to the model',
                       'float -> integer storage always rescales (C02) and is outside this property',
                       'compressed files are decompressed with gzip / bz2 / pyzstd before comparison',
                       'images carry no extensions (C11) and an identity affine']
    chk.trusted.append('oracles: NumPy astype between dtypes (value-preserving casts), gzip/bz2/pyzstd '
                       '(decompress(compress b) = b is the Section hypothesis of C01_route_independent), OS files / BytesIO')
    chk.build()
    chk.run_probes()
    if not chk.model_ok:
        return
    from nibabel.spatialimages import HeaderDataError
    cases = gen_cases(chk)
    cs = classes()
    lines = []
    recs = []
    for c in cases:
        ent = cs[c['cls']]
        arr_logical = c['vals']
        arr = memory_variant(None, arr_logical, c['layout'])
        if arr.shape != arr_logical.shape or np.ascontiguousarray(arr).tobytes() != np.ascontiguousarray(arr_logical).tobytes():
            raise RuntimeError('memory variant changed the logical array: ' + c['layout'])
        expected = arr_logical.astype(c['disk'])
        w, nc, words = words_of(expected)
        rec = {'c': c, 'w': w, 'nc': nc, 'expected': expected}
        nontrivial = expected.size > 1
        key = (c['cls'], str(c['mem']), str(c['disk']), c['shape'], c['be'], c['comp'], c['route'], c['layout'], c['offset'],
               c['hist'], c['hdrvar'], c['dtkw'], expected.tobytes())
        chk.count(key=key if nontrivial else None, tag=f"cls:{c['cls']}",
                  sample=describe(c) if c['id'] in (5, 300, 900) else None)
        for t in (f"rank:{len(c['shape'])}", f"route:{c['route']}", f"comp:{c['comp'] or 'none'}", f"layout:{c['layout']}",
                  f"endian:{'>' if c['be'] else '<'}", f"disk:{c['disk'].str if c['disk'].fields is None else ('RGB' if c['disk'].itemsize == 3 else 'RGBA')}",
                  f"gen:{c['tag']}", 'history:' + ('+'.join(c['hist']) or 'fresh'), 'header:' + c['hdrvar'], 'dtype-via:' + c['dtkw'], 'slope-state:' + ('nan(auto)' if c['autoscale'] else 'header'), 'scalingfree:' + ('same-dtype' if c['mem'] == c['disk'] else 'cast')):
            chk.tagc(t)
        mexp = mgh_expected_shape(c['shape']) if c['cls'] == 'mgh' else tuple(c['shape'])
        rec['mexp'] = mexp
        i = c['id']
        if c['cls'] == 'mgh':
            lines.append(f"m{i}.s mghshape {zl(c['shape'])}")
        try:
            o = run_case(chk, c, arr)
            rec['o'] = o
        except (ValueError, HeaderDataError, OSError) as e:
            rec['o'] = None
            rec['err'] = f'{type(e).__name__}: {e}'
            chk.refusal('mgh_shape_refused' if c['cls'] == 'mgh' and rec['mexp'] == 'refuse' else 'other:' + type(e).__name__)
            recs.append(rec)
            continue
        be = expected_be(c)
        shp = zl(c['shape'])
        wd = zl(words)
        img_b = o['img_bytes']
        lines.append(f'm{i}.d wdata {be} {w} {nc} {shp} {wd}')
        if c['cls'] == 'mgh':
            n_data = expected.size * expected.dtype.itemsize
            lines.append(f'm{i}.f mgh {be} {w} {nc} {shp} {wd} {hx(img_b[:90])} {hx(img_b[284 + n_data:])}')
        elif ent['single']:
            hs = ent['hsize']
            lines.append(f"m{i}.f single {be} {w} {nc} {shp} {wd} {hx(img_b[:hs])} {hx(img_b[hs:hs + 4])} {o['offset2']}")
        else:
            lines.append(f"m{i}.f pair {be} {w} {nc} {shp} {wd} {o['offset2']}")
        lines.append(f"m{i}.r read {o['be2']} {w} {nc} {zl(o['shape2'])} {o['offset2']} {hx(img_b)}")
        recs.append(rec)
    mod = run_model(PROP, lines)
    for rec in recs:
        c = rec['c']
        i = c['id']
        o = rec['o']
        case = describe(c)
        dis = []
        pred = None
        known = None
        if c['cls'] == 'mgh':
            ms = mod.get(f'm{i}.s')
            want = 'err refuse' if rec['mexp'] == 'refuse' else 'ok ' + zl(rec['mexp'])
            if ms != want:
                dis.append(('mgh_shape', ms, want))
        if o is None:
            if not (c['cls'] == 'mgh' and rec['mexp'] == 'refuse'):
                pred = 'save/load raised ' + rec['err']
        else:
            expected = rec['expected']
            n_data = expected.size * expected.dtype.itemsize
            off = o['offset2']
            region = o['img_bytes'][off:off + n_data]
            if mod.get(f'm{i}.d') != 'ok ' + hx(region):
                dis.append(('data region', first_diff(mod.get(f'm{i}.d', ''), 'ok ' + hx(region)), ''))
            if mod.get(f'm{i}.f') != 'ok ' + hx(o['img_bytes']):
                dis.append(('file layout', first_diff(mod.get(f'm{i}.f', ''), 'ok ' + hx(o['img_bytes'])), ''))
            a2 = o['arr2']
            w2, nc2, words2 = words_of(a2.astype(nat(a2.dtype)))
            if (w2, nc2) == (rec['w'], rec['nc']):
                if mod.get(f'm{i}.r') != 'ok ' + zl(words2):
                    dis.append(('reloaded array', first_diff(mod.get(f'm{i}.r', ''), 'ok ' + zl(words2)), ''))
            # ---- the property predicate, directly on the implementation
            exp_shape = rec['mexp'] if c['cls'] == 'mgh' else tuple(c['shape'])
            if nat(a2.dtype) != nat(c['disk']) or nat(o['dtype2']) != nat(c['disk']):
                pred = f"on-disk dtype {o['dtype2']} / loaded dtype {a2.dtype}, expected {c['disk']}"
            elif o['be2'] != expected_be(c):
                pred = 'byte order of the written file differs from the header it was given'
            elif tuple(a2.shape) != tuple(c['shape']) or o['shape2'] != tuple(c['shape']):
                pred = f"shape {tuple(c['shape'])} reloaded as {tuple(a2.shape)}"
                if (c['cls'] == 'mgh' and len(c['shape']) < 3 and tuple(a2.shape) == exp_shape
                        and a2.astype(nat(a2.dtype)).tobytes() == expected.reshape(exp_shape).tobytes()):
                    known = 'S-C01a'
            elif a2.astype(nat(a2.dtype)).tobytes() != expected.tobytes():
                pred = 'reloaded array is not bit-for-bit the array cast to the on-disk type'
            elif region != expected.astype(expected.dtype.newbyteorder('>' if expected_be(c) else '<') if expected.dtype.fields is None else expected.dtype).tobytes(order='F'):
                pred = 'raw bytes at the data offset are not the element encodings in F order'
            elif o['fdata'] is not None and not np.array_equal(o['fdata'], expected.astype(np.float64), equal_nan=True) \
                    and expected.dtype.kind in 'biuf' and (expected.dtype.kind == 'f' or expected.dtype.itemsize < 8):
                pred = 'get_fdata() differs from the stored values'
        if pred:
            if known:
                chk.known('S-C01a', 'MGHImage of a 1-D or 2-D array reloads with the shape padded to 3-D (values equal)')
            else:
                chk.violation('property_violation', case=case, predicate=pred, model_output=str(mod.get(f'm{i}.r'))[:200],
                              impl_output=None if o is None else {'shape': o['shape2'], 'dtype': str(o['dtype2']), 'offset': o['offset2']})
        if dis:
            chk.disagreements += 1
            if not pred or known:
                chk.violation('correspondence', case=case, model_output=str(dis[0][1])[:300], impl_output=str(dis[0][2])[:300],
                              predicate='model and implementation disagree at ' + dis[0][0] + '; the property predicate holds on this case',
                              found_input=False, theorem='correspondence C01/Model.v <-> volumeutils / image classes')
    alias_part(chk)
    chk.extra['unproved_statements'] = UNPROVED
    vm_sample(chk, recs)



# ------------------------------------------------------------------ load -> save onto the same file by another name
ALIAS_KINDS = ['symlink', 'hardlink', 'relative']
ALIAS_EXTS = {'analyze': ['.img', '.hdr'], 'spm99': ['.img', '.hdr', '.mat'], 'spm2': ['.img', '.hdr', '.mat'],
              'nifti1': ['.nii'], 'nifti1pair': ['.img', '.hdr'], 'nifti2': ['.nii'], 'nifti2pair': ['.img', '.hdr'],
              'mgh': ['.mgh']}


def alias_cases(chk):
    """seed-independent list: every class x alias kind x direction x {small, several pages}; values from the seed"""
    cs = classes()
    out = []
    k = 0
    for clsname, ent in cs.items():
        dts = [d for d in ent['dtypes']]
        for kind in ALIAS_KINDS:
            for direction in ('load-alias-save-real', 'load-real-save-alias'):
                for shape in ((3, 4, 5), (40, 40, 8)):
                    d = nat(dts[k % len(dts)])
                    be = 1 if clsname == 'mgh' else k % 2
                    n = int(np.prod(shape))
                    vals = common_values(chk.rng, d, d, n, True).reshape(shape)
                    out.append(dict(id=k, part='alias', cls=clsname, disk=str(d) if d.fields is None else ('RGB' if d.itemsize == 3 else 'RGBA'),
                                    shape=list(shape), be=be, kind=kind, direction=direction,
                                    vals_hex=np.ascontiguousarray(vals).tobytes().hex()))
                    k += 1
    return out


def parse_dt(s):
    if s == 'RGB' or (s.startswith('[') and "'A'" not in s):
        return RGB
    if s == 'RGBA' or s.startswith('['):
        return RGBA
    return np.dtype(s)


def alias_one(c, root):
    """executed in the child: returns a verdict string"""
    import shutil
    ent = classes()[c['cls']]
    cls = ent['cls']
    d = parse_dt(c['disk'])
    vals = np.frombuffer(bytes.fromhex(c['vals_hex']), dtype=d).reshape(c['shape'])
    wd = os.path.join(root, f"alias{c['id']}")
    shutil.rmtree(wd, ignore_errors=True)
    os.makedirs(os.path.join(wd, 'sub'))
    os.chdir(wd)
    main_ext = ALIAS_EXTS[c['cls']][0]
    real = os.path.join(wd, 'a' + main_ext)
    with warnings.catch_warnings():
        warnings.simplefilter('ignore')
        if c['cls'] == 'mgh':
            hdr = cls.header_class()
        else:
            hdr = cls.header_class(endianness='>' if c['be'] else '<')
        hdr.set_data_dtype(d)
        img = cls(vals, np.eye(4), header=hdr)
        img.set_data_dtype(d)
        img.to_filename(real)
        del img
        if c['kind'] == 'relative':
            alias = os.path.join('sub', '..', 'a' + main_ext)
        else:
            for ext in ALIAS_EXTS[c['cls']]:
                if os.path.exists(os.path.join(wd, 'a' + ext)):
                    (os.symlink if c['kind'] == 'symlink' else os.link)(os.path.join(wd, 'a' + ext), os.path.join(wd, 'l' + ext))
            alias = os.path.join(wd, 'l' + main_ext)
        load_name, save_name = (alias, real) if c['direction'] == 'load-alias-save-real' else (real, alias)
        img = cls.from_filename(load_name)         # default mmap
        img.to_filename(save_name)
        del img
        arr2 = np.array(np.asanyarray(cls.from_filename(real).dataobj))
    os.chdir(root)
    shutil.rmtree(wd, ignore_errors=True)
    if tuple(arr2.shape) != tuple(c['shape']):
        return f'shape {tuple(arr2.shape)}'
    if arr2.astype(nat(arr2.dtype)).tobytes() != np.ascontiguousarray(vals).tobytes():
        return 'data differ'
    return 'ok'


def alias_child(path):
    import json
    import logging
    import sys
    logging.disable(logging.CRITICAL)
    job = json.load(open(path))
    for c in job['cases']:
        print(f"START {c['id']}", flush=True)
        try:
            v = alias_one(c, job['root'])
        except Exception as e:  # noqa: BLE001 - verdict for the parent
            v = f'exception {type(e).__name__}: {e}'[:200]
        print(f"DONE {c['id']} {v}", flush=True)
    sys.exit(0)


def run_alias_children(chk, cases):
    """batched child processes; a child killed by a signal is attributed to the case it had started"""
    import json
    import subprocess
    import common
    verdicts = {}
    todo = list(cases)
    rounds = 0
    while todo and rounds < len(cases) + 5:
        rounds += 1
        jp = os.path.join(chk.workdir, f'alias_job{rounds}.json')
        with open(jp, 'w') as f:
            json.dump({'root': chk.workdir, 'cases': todo}, f)
        p = subprocess.run([common.PY, os.path.abspath(__file__), '--alias-child', jp], env=common.impl_env(),
                           capture_output=True, text=True, timeout=300, cwd=chk.workdir)
        started = None
        for ln in p.stdout.splitlines():
            parts = ln.split(' ', 2)
            if parts[0] == 'START':
                started = int(parts[1])
            elif parts[0] == 'DONE':
                verdicts[int(parts[1])] = parts[2]
                started = None
        if started is not None:
            verdicts[started] = f'child died (returncode {p.returncode}) ' + p.stderr[-200:].replace('\n', ' ')
        elif p.returncode != 0 and not any(c['id'] not in verdicts for c in todo):
            pass
        elif p.returncode != 0:
            nxt = next(c for c in todo if c['id'] not in verdicts)
            verdicts[nxt['id']] = f'child failed before the case (returncode {p.returncode}) ' + p.stderr[-300:].replace('\n', ' ')
        todo = [c for c in todo if c['id'] not in verdicts]
    for c in todo:
        verdicts[c['id']] = 'not run'
    return verdicts


def alias_part(chk):
    cases = alias_cases(chk)
    verdicts = run_alias_children(chk, cases)
    for c in cases:
        v = verdicts.get(c['id'], 'not run')
        chk.count(key=('alias', c['cls'], c['kind'], c['direction'], tuple(c['shape']), c['vals_hex'][:64]), tag='alias:' + c['kind'],
                  sample={k: x for k, x in c.items() if k != 'vals_hex'} if c['id'] == 5 else None)
        chk.tagc('alias-dir:' + c['direction'])
        if v != 'ok':
            chk.violation('property_violation', case=c, impl_output=v,
                          predicate='load (memory-mapped) then save onto the same file reached by another name, then a fresh load: '
                                    'the data are not the original array (' + v[:80] + ')')


UNPROVED = [
    'C01_no_scaling_decision (DESIGN): ArrayWriter.scaling_needed is not modelled; the generator selects (memory dtype, on-disk dtype, '
    'values) combinations by an independent rule (same dtype / can_cast / integer range / float or complex target) and a case on '
    'which nibabel rescaled would fail the bit-for-bit predicate',
    'the value-preserving casts arr.astype(on_disk) are those of NumPy (oracle): the model starts from the cast array',
    'MGH: C01_roundtrip covers the file layout for the padded shape; that MGHImage.__init__ pads exactly as mgh_shape says is '
    'tied by the correspondence check (op mghshape) and C01_mgh_shape proves padding keeps elements and bytes',
]


def first_diff(a, b):
    if a is None:
        return '<missing>'
    for k, (x, y) in enumerate(zip(a, b)):
        if x != y:
            return f'at char {k}: model ...{a[max(0, k - 20):k + 40]} impl ...{b[max(0, k - 20):k + 40]}'
    return f'lengths {len(a)} vs {len(b)}: {a[-60:]} | {b[-60:]}'


def vm_sample(chk, recs):
    pairs = []
    for rec in recs:
        c = rec['c']
        if rec['o'] is None or rec['expected'].size > 12 or rec['expected'].size < 2 or len(pairs) >= 40:
            continue
        w, nc, words = words_of(rec['expected'])
        elems = '[' + ';'.join('[' + ';'.join(f'{x}%Z' for x in words[j:j + nc]) + ']' for j in range(0, len(words), nc)) + ']'
        sh = '[' + ';'.join(str(s) for s in c['shape']) + ']'
        off = rec['o']['offset2']
        n_data = rec['expected'].size * rec['expected'].dtype.itemsize
        region = rec['o']['img_bytes'][off:off + n_data]
        reg = '[' + ';'.join(f'{x}%Z' for x in region) + ']'
        be = 'true' if c['be'] else 'false'
        pairs.append((f'zl_eqb (data_bytes {be} {w} (of_C_list (repeat 0%Z {nc}) {sh} {elems})) {reg}', f"wdata case {c['id']}"))
    imports = ('From Coq Require Import ZArith List Bool. Import ListNotations.\n'
               'From NV Require Import Base.Bytes C01.Model.\n'
               'Fixpoint zl_eqb (a b : list Z) : bool := match a, b with [], [] => true | x :: a, y :: b => Z.eqb x y && zl_eqb a b | _, _ => false end.\n')
    ncase, bad = vm_crosscheck(PROP, imports, pairs)
    chk.vm = {'cases': ncase, 'disagreements': len(bad)}
    if bad:
        chk.disagreements += 1
        chk.violation('correspondence', case={'vm_crosscheck': [pairs[b][1] if isinstance(b, int) and b < len(pairs) else b for b in bad]},
                      predicate='extracted model / implementation bytes disagree with vm_compute evaluation of the model',
                      found_input=False, theorem='extraction cross-check')


def replay(chk, obj):
    ensure_impl_path()
    import logging
    logging.disable(logging.CRITICAL)
    c = obj.get('case')
    if not isinstance(c, dict) or 'cls' not in c:
        print('nothing to replay:', obj.get('predicate'))
        return 1
    if c.get('part') == 'alias':
        os.makedirs(chk.workdir, exist_ok=True)
        v = run_alias_children(chk, [c]).get(c['id'])
        import shutil
        shutil.rmtree(chk.workdir, ignore_errors=True)
        print('verdict:', v)
        print('property holds on this case' if v == 'ok' else 'property fails on this case')
        return 0 if v == 'ok' else 1
    from nibabel.spatialimages import HeaderDataError

    m, d = parse_dt(c['mem']), parse_dt(c['disk'])
    vals = np.frombuffer(bytes.fromhex(c['vals_hex']), dtype=m).reshape(c['shape'])
    case = dict(id=0, cls=c['cls'], mem=m, disk=d, shape=tuple(c['shape']), be=c['be'], comp=c['comp'], route=c['route'],
                layout=c['layout'], offset=c['offset'], tag='replay', vals=vals, hist=tuple(c.get('hist', ())),
                autoscale=bool(c.get('autoscale')), hdrvar=c.get('hdrvar', 'default'), dtkw=c.get('dtkw', 'set'))
    arr = memory_variant(None, vals, c['layout'])
    expected = vals.astype(d)
    os.makedirs(chk.workdir, exist_ok=True)
    try:
        o = run_case(chk, case, arr)
    except (ValueError, HeaderDataError, OSError) as e:
        print('raised', type(e).__name__, e)
        print('property holds on this case (refusal)' if c['cls'] == 'mgh' else 'property fails on this case')
        return 0 if c['cls'] == 'mgh' else 1
    a2 = o['arr2']
    bad = (tuple(a2.shape) != tuple(c['shape']) or nat(a2.dtype) != nat(d)
           or a2.astype(nat(a2.dtype)).tobytes() != expected.tobytes())
    print('reloaded shape', a2.shape, 'dtype', a2.dtype, 'offset', o['offset2'])
    print('property fails on this case' if bad else 'property holds on this case')
    import shutil
    shutil.rmtree(chk.workdir, ignore_errors=True)
    return 1 if bad else 0


if __name__ == '__main__':
    import sys
    if len(sys.argv) == 3 and sys.argv[1] == '--alias-child':
        alias_child(sys.argv[2])
