"""C06 — Reading a slice straight from file bytes equals NumPy indexing.

Model: coq/C06/Model.v (line-for-line counterparts of nibabel/fileslice.py) + Base/PySlice.v.
Case lines (coq/C06/driver.ml): pyidx / fill / slen <slice> <n>; pshape <shape> <ix>;
outax <ndim> <ix>; canon <shape> <ix>; defs <heur> <shape> <w> <off> <order> <ix>;
fsl <heur> <filehex> <shape> <w> <off> <order> <ix>; np <filehex> <shape> <w> <off> <order> <ix>.
Index tokens: i<k> | s<a>:<b>:<c> (_ = None) | n | e ; "()" = empty tuple.

Three comparisons per case:
  (1) SPEC VALIDATION  model `pyidx` vs CPython range()/slice.indices, model `np` vs NumPy arr[ix]
      (the yardstick of the theorems must itself be NumPy's behaviour);
  (2) CORRESPONDENCE   model fill/slen/pshape/outax/canon/defs/fsl vs the implementation's
      fill_slicer / slice2len / predict_shape / slice2outax / canonical_slicers /
      calc_slicedefs / fileslice (and calc_slicedefs+read_segments for non-default heuristics);
  (3) PROPERTY         implementation vs NumPy directly + every read inside the array's extent.
"""
import io
import itertools
from functools import partial, reduce
import operator

import numpy as np

from common import Check, ensure_impl_path, run_model, run_model_parallel, vm_crosscheck

PROP = 'C06'


def o2s(v):
    return '_' if v is None else str(int(v))


def sl2s(s):
    return f'{o2s(s.start)}:{o2s(s.stop)}:{o2s(s.step)}'


def ix2s(ix):
    if len(ix) == 0:
        return '()'
    out = []
    for x in ix:
        if x is None:
            out.append('n')
        elif x is Ellipsis:
            out.append('e')
        elif isinstance(x, slice):
            out.append('s' + sl2s(x))
        else:
            out.append('i%d' % int(x))
    return ','.join(out)


def lst(l):
    return '[' + ','.join(str(int(x)) for x in l) + ']'


def err_enum(e):
    if isinstance(e, IndexError):
        return 'err index'
    if isinstance(e, (ValueError, TypeError)):
        return 'err value'
    if isinstance(e, (OSError, EOFError)):
        return 'err io'
    return 'err other:' + type(e).__name__


class LogFile(io.BytesIO):
    def __init__(self, b):
        super().__init__(b)
        self.log = []

    def read(self, n=-1):
        p = self.tell()
        r = super().read(n)
        self.log.append((p, len(r), n))
        return r


HEURS = ['full', 'contig', 'fullint', 'none', 't0', 't1', 't5', 't16', 't40', 't256']


def py_heur(name):
    from nibabel.fileslice import threshold_heuristic
    if name == 'full':
        return lambda s, d, st: 'full'
    from numbers import Integral
    if name == 'contig':   # 'contiguous' is not a legal answer for an int index
        return lambda s, d, st: None if isinstance(s, Integral) else 'contiguous'
    if name == 'fullint':
        return lambda s, d, st: 'full' if isinstance(s, Integral) else 'contiguous'
    if name == 'none':
        return lambda s, d, st: None
    return partial(threshold_heuristic, skip_thresh=int(name[1:]))


def impl_fileslice_h(fobj, ix, shape, w, off, order, hname):
    from nibabel import fileslice as fs
    if hname == 'default':
        return fs.fileslice(fobj, ix, shape, np.dtype(f'V{w}'), off, order)
    segs, rshape, post = fs.calc_slicedefs(ix, shape, w, off, order, py_heur(hname))
    n_bytes = reduce(operator.mul, rshape, 1) * w
    data = fs.read_segments(fobj, segs, n_bytes)
    sliced = np.ndarray(rshape, np.dtype(f'V{w}'), buffer=data, order=order)
    return sliced[post]


def arr_out(a, order):
    return 'ok ' + lst(a.shape) + ' x' + np.asarray(a).tobytes(order=order).hex()


def post2s(p):
    if isinstance(p, slice):
        return 's' + sl2s(p)
    if isinstance(p, str):
        return 'd'
    return 'i%d' % int(p)


def slices_for(n, rng=None, full=True):
    """slicers for an axis of length n: start/stop in [-n-2, n+2] U {None}, step in [-3,3]\\{0} U {None}"""
    vals = [None] + list(range(-n - 2, n + 3))
    steps = [None, 1, 2, 3, -1, -2, -3]
    return [slice(a, b, c) for a in vals for b in vals for c in steps]


def rand_index(rng, shape, allow_bad=True):
    nd = len(shape)
    ix = []
    k = rng.choice([nd, nd, nd, max(0, nd - 1), max(0, nd - 2)]) if nd else 0
    for ax in range(k):
        n = shape[ax]
        r = rng.random()
        if r < 0.35:
            if n > 0 and (not allow_bad or rng.random() < 0.93):
                ix.append(rng.randrange(-n, n))
            else:
                ix.append(rng.choice([n, n + 1, -n - 1, -n - 3]))
        else:
            vals = [None] * 3 + list(range(-n - 2, n + 3))
            ix.append(slice(rng.choice(vals), rng.choice(vals), rng.choice([None, None, 1, 2, 3, -1, -1, -2, -3])))
    # None axes and one Ellipsis at random positions
    for _ in range(rng.choice([0, 0, 0, 1, 2])):
        ix.insert(rng.randrange(len(ix) + 1), None)
    r = rng.random()
    if r < 0.3:
        ix.insert(rng.randrange(len(ix) + 1), Ellipsis)
    elif r < 0.33 and allow_bad:
        ix.insert(rng.randrange(len(ix) + 1), Ellipsis)
        ix.insert(rng.randrange(len(ix) + 1), Ellipsis)
    elif r < 0.36 and allow_bad:
        ix.append(0)  # possibly too many indices
    return tuple(ix)


def run(chk: Check):
    ensure_impl_path()
    from nibabel import fileslice as fs
    chk.rule = ('(A) exhaustive: every slice with start/stop in [-n-2,n+2]|None, step in [-3,3]\\{0}|None (+ step 0) on '
                'every axis length n<=5: py_indices (vs CPython), fill_slicer, slice2len; (B) exhaustive 2-axis: shapes '
                '(a,b), a,b<=3, all pairs of per-axis indexers (one representative slice per distinct selected index '
                'list, every int) x {C,F}; (C) random: 1-4 axes of length 0..5, ints (some out of range), slices, '
                'None axes, one/two Ellipsis, too many indices x {C,F} x itemsize {1,2,3,8,16} x offsets {0,1,17} x '
                'heuristics {full, contiguous, none, threshold(0,1,5,16,40,256), default}; also large shapes. '
                'A case is non-trivial when its result is not the whole array and not an error; distinct by '
                '(shape, index, order, itemsize, offset, heuristic)')
    chk.assumptions = ['file object = in-memory BytesIO with logging of (position, length) of every read',
                       'np.ndarray(shape, buffer, order) and NumPy basic indexing are the specification oracle '
                       '(np_index in the model is validated against them on every case)']
    chk.trusted.append('NumPy basic indexing / CPython slice.indices as the yardstick (Base/PySlice.v, np_index validated '
                       'against them on every run)')
    chk.build()
    chk.run_probes()
    if not chk.model_ok:
        return
    rng = chk.rng
    lines = []
    expect = {}     # id -> implementation result string (correspondence)
    spec = {}       # id -> NumPy/CPython result string (spec validation)
    meta = {}

    def add(cid, line, exp=None, sp=None, m=None):
        lines.append(f'{cid} {line}')
        if exp is not None:
            expect[cid] = exp
        if sp is not None:
            spec[cid] = sp
        if m is not None:
            meta[cid] = m

    # ---------------- (A) one axis, exhaustive
    na = 0
    for n in range(0, 6):
        for s in slices_for(n) + [slice(None, None, 0), slice(1, 3, 0)]:
            cid = f'A{na}'
            na += 1
            ss = sl2s(s)
            if s.step == 0:
                sp = 'err value'
            else:
                sp = 'ok ' + lst(list(range(n))[s])
            try:
                f = fs.fill_slicer(s, n)
                e_fill = f'ok {o2s(f.start)}:{o2s(f.stop)}:{o2s(f.step)}'
            except Exception as e:
                e_fill = err_enum(e)
            try:
                e_len = 'ok %d' % fs.slice2len(s, n)
            except Exception as e:
                e_len = err_enum(e)
            if s.step != 0:
                add(cid + '.p', f'pyidx {ss} {n}', sp=sp)
            add(cid + '.f', f'fill {ss} {n}', exp=e_fill)
            add(cid + '.l', f'slen {ss} {n}', exp=e_len)
            # property clause: helper predictions agree with NumPy
            if s.step != 0:
                want = len(range(n)[s])
                nontriv = 0 < want < n
                chk.count(key=('A', n, ss) if nontriv else None, tag='A:one-axis')
                if e_len != f'ok {want}':
                    chk.violation('property_violation', case={'op': 'slice2len', 'slice': ss, 'n': n}, impl_output=e_len,
                                  model_output=None, predicate=f'slice2len != len(range(n)[s]) = {want}')
                if e_fill.startswith('ok'):
                    a, b, c = e_fill[3:].split(':')
                    fsel = list(range(n))[slice(int(a), None if b == '_' else int(b), int(c))]
                    if fsel != list(range(n))[s]:
                        chk.violation('property_violation', case={'op': 'fill_slicer', 'slice': ss, 'n': n}, impl_output=e_fill,
                                      predicate='filled slice selects different elements than the original')
                else:
                    chk.violation('property_violation', case={'op': 'fill_slicer', 'slice': ss, 'n': n}, impl_output=e_fill,
                                  predicate='fill_slicer raised on a valid slice')
    # ---------------- (B)/(C) fileslice cases
    cases = []
    # (B) exhaustive two-axis over representatives
    maxb = chk.n(3, 4)
    reps = {}
    for n in range(1, maxb + 1):
        seen = {}
        for s in slices_for(n):
            key = tuple(range(n)[s])
            if key not in seen:
                seen[key] = s
        reps[n] = list(seen.values()) + list(range(-n, n))
    for a in range(1, maxb + 1):
        for b in range(1, maxb + 1):
            for x in reps[a]:
                for y in reps[b]:
                    for order in 'CF':
                        cases.append(((a, b), (x, y), order, 1, 0, 'none' if (a + b) % 2 else 't1'))
    nB = len(cases)
    # (C) random
    for _ in range(chk.n(30000, 300000)):
        nd = rng.choice([1, 2, 2, 3, 3, 3, 4, 4])
        shape = tuple(rng.choice([0, 1, 1, 2, 3, 4, 5, 5]) for _ in range(nd))
        ix = rand_index(rng, shape)
        cases.append((shape, ix, rng.choice('CF'), rng.choice([1, 1, 2, 3, 8, 16]), rng.choice([0, 0, 1, 17]),
                      rng.choice(HEURS + ['default', 'default'])))
    # larger shapes: thresholds matter
    for _ in range(chk.n(1000, 10000)):
        nd = rng.choice([2, 3])
        shape = tuple(rng.choice([1, 7, 16, 33]) for _ in range(nd))
        ix = rand_index(rng, shape, allow_bad=False)
        cases.append((shape, ix, rng.choice('CF'), rng.choice([1, 2, 8]), rng.choice([0, 17]),
                      rng.choice(['t0', 't16', 't40', 't256', 'default', 'default'])))
    files = {}
    nviol = 0
    for ci, (shape, ix, order, w, off, hname) in enumerate(cases):
        size = int(np.prod(shape)) if shape else 1
        key = (size, w, off)
        if key not in files:
            r = np.random.RandomState(size * 31 + w * 7 + off)
            files[key] = bytes(r.randint(0, 256, size=off + size * w + 5, dtype=np.uint8))
        raw = files[key]
        arr = np.ndarray(shape, np.dtype(f'V{w}'), buffer=raw, offset=off, order=order)
        ixs = ix2s(ix)
        sh = lst(shape)
        cid = f'F{ci}'
        # NumPy = specification
        try:
            want = arr[ix]
            sp = arr_out(want, order)
        except Exception as e:
            want = None
            sp = 'err'
        # implementation
        fobj = LogFile(raw)
        try:
            got = impl_fileslice_h(fobj, ix, shape, w, off, order, hname)
            e_fsl = arr_out(got, order)
        except Exception as e:
            got = None
            e_fsl = err_enum(e)
        try:
            segs, rshape, post = fs.calc_slicedefs(ix, shape, w, off, order,
                                                   py_heur(hname) if hname != 'default' else fs.threshold_heuristic)
            e_defs = ('ok segs=' + (','.join(f'{int(a)}:{int(b)}' for a, b in segs) or '()') + ' rshape=' + lst(rshape)
                      + ' post=' + (','.join(post2s(p) for p in post) or '()'))
        except Exception as e:
            e_defs = err_enum(e)
        mh = 't256' if hname == 'default' else hname
        add(cid + '.d', f'defs {mh} {sh} {w} {off} {order} {ixs}', exp=e_defs)
        small = len(raw) <= 2100
        add(cid + '.v', f'ixvalid {sh} {ixs}', m=('hyp', want is not None))
        if small:
            add(cid + '.s', f'fsl {mh} x{raw.hex()} {sh} {w} {off} {order} {ixs}', exp=e_fsl,
                m=(shape, ixs, order, w, off, hname))
            add(cid + '.n', f'np x{raw.hex()} {sh} {w} {off} {order} {ixs}', sp=sp)
        if ci % 7 == 0:
            try:
                e_ps = 'ok ' + lst(fs.predict_shape(ix, shape))
            except Exception as e:
                e_ps = err_enum(e)
            add(cid + '.p', f'pshape {sh} {ixs}', exp=e_ps)
            if want is not None and e_ps != 'ok ' + lst(want.shape):
                chk.violation('property_violation', case={'op': 'predict_shape', 'shape': shape, 'ix': ixs}, impl_output=e_ps,
                              predicate=f'predict_shape != NumPy shape {want.shape}')
            try:
                e_oa = 'ok ' + (','.join(o2s(v) for v in fs.slice2outax(len(shape), ix)) or '()')
            except Exception as e:
                e_oa = err_enum(e)
            add(cid + '.o', f'outax {len(shape)} {ixs}', exp=e_oa)
        # ---- property predicate on the implementation
        nontriv = want is not None and 0 < want.size < size
        chk.count(key=(shape, ixs, order, w, off, hname) if nontriv else None,
                  tag=('B:two-axis' if ci < nB else 'C:random') + ':' + ('err' if want is None else 'ok'),
                  sample={'shape': shape, 'ix': ixs, 'order': order, 'itemsize': w, 'offset': off, 'heuristic': hname}
                  if ci in (5, nB + 3, nB + 77) else None)
        chk.tagc('heur:' + hname)
        pred = None
        if want is None:
            if got is not None:
                pred = 'NumPy raises for this index but fileslice returned data'
            else:
                chk.refusal(e_fsl)
        else:
            if got is None:
                pred = f'fileslice raised {e_fsl} where NumPy returns shape {want.shape}'
            elif got.shape != want.shape or got.tobytes(order=order) != want.tobytes(order=order):
                pred = f'fileslice result differs from NumPy (shapes {got.shape} vs {want.shape})'
        lo, hi = off, off + size * w
        for (p, l, n) in fobj.log:
            if l and (p < lo or p + l > hi) or (n is not None and n >= 0 and p + n > hi and n > 0) or n is not None and n < 0:
                pred = pred or f'read of {n} bytes at {p} outside the array extent [{lo},{hi})'
        if pred:
            nviol += 1
            if nviol <= 6:
                chk.violation('property_violation',
                              case={'shape': list(shape), 'ix': ixs, 'order': order, 'itemsize': w, 'offset': off, 'heuristic': hname},
                              impl_output=e_fsl[:200], model_output=None, predicate=pred)
    mod = run_model_parallel(PROP, lines, jobs=8)
    # spec validation + correspondence
    nspec = ncorr = 0
    for cid, sp in spec.items():
        got = mod.get(cid, '<missing>')
        ok = (got == sp) if sp != 'err' else got.startswith('err')
        if not ok:
            nspec += 1
            chk.disagreements += 1
            if nspec <= 3:
                chk.violation('correspondence', case=[l for l in lines if l.startswith(cid + ' ')][0][:400],
                              model_output=got[:200], impl_output=sp[:200],
                              predicate='SPECIFICATION MISMATCH: the model of NumPy/CPython indexing (the yardstick of '
                                        'the theorems) disagrees with NumPy/CPython', found_input=False,
                              theorem='spec validation: Base/PySlice.v, C06 np_index')
    for cid, exp in expect.items():
        got = mod.get(cid, '<missing>')
        if got != exp:
            ncorr += 1
            chk.disagreements += 1
            if ncorr <= 3 and nviol == 0:
                chk.violation('correspondence', case=[l for l in lines if l.startswith(cid + ' ')][0][:400],
                              model_output=got[:200], impl_output=exp[:200],
                              predicate='model and implementation disagree; the property predicate holds on this case',
                              found_input=False, theorem='correspondence C06/Model.v <-> nibabel/fileslice.py')
    # hypothesis of C06_fileslice_eq_numpy (canonical index valid) must hold exactly when NumPy accepts the index
    nh = nh_bad = 0
    for cid, m in meta.items():
        if m[0] != 'hyp':
            continue
        nh += 1
        got = mod.get(cid, '<missing>')
        if (got == 'ok 1') != m[1]:
            nh_bad += 1
            chk.disagreements += 1
            if nh_bad <= 2:
                chk.violation('correspondence', case=[l for l in lines if l.startswith(cid + ' ')][0][:300], model_output=got,
                              impl_output=f'NumPy accepts index: {m[1]}',
                              predicate='hypothesis ix_valid of theorem C06_fileslice_eq_numpy does not coincide with NumPy '
                                        'accepting the index', found_input=False, theorem='C06_fileslice_eq_numpy hypothesis coverage')
    chk.extra['theorem_hypothesis_cases'] = nh
    chk.extra['theorem_hypothesis_mismatches'] = nh_bad
    chk.extra['model_lines'] = len(lines)
    chk.extra['spec_validation_cases'] = len(spec)
    chk.extra['correspondence_cases'] = len(expect)
    chk.extra['spec_mismatches'] = nspec
    chk.extra['correspondence_mismatches'] = ncorr
    chk.exhaustive = False
    # vm_compute cross-check of the extraction on a small sample
    pairs = []
    samp = [l for l in lines if ' fill ' in l][::97][:25] + [l for l in lines if ' slen ' in l][::131][:15]
    for l in samp:
        cid, op, ss, n = l.split()
        a, b, c = ss.split(':')
        optz = lambda v: 'None' if v == '_' else f'(Some ({v}))'
        sl = f'(mkSl {optz(a)} {optz(b)} {optz(c)})'
        r = mod.get(cid, '')
        if op == 'fill':
            if r.startswith('ok'):
                x, y, z = r[3:].split(':')
                pairs.append((f'match fill_slicer {sl} {n} with Ok f => fsl_eqb f (mkF ({x}) {optz(y)} ({z})) | _ => false end', l))
            else:
                pairs.append((f'match fill_slicer {sl} {n} with Err _ => true | _ => false end', l))
        else:
            if r.startswith('ok'):
                pairs.append((f'match slice2len {sl} {n} with Ok v => v =? {r[3:]} | _ => false end', l))
            else:
                pairs.append((f'match slice2len {sl} {n} with Err _ => true | _ => false end', l))
    imports = ('From Coq Require Import ZArith List Bool. Import ListNotations. Open Scope Z_scope.\n'
               'From NV Require Import Base.PySlice C06.Model.\n')
    ncase, bad = vm_crosscheck(PROP, imports, pairs)
    chk.vm = {'cases': ncase, 'disagreements': len(bad)}
    if bad:
        chk.disagreements += 1
        chk.violation('correspondence', case={'vm_crosscheck': [str(b) for b in bad][:5]},
                      predicate='extracted model disagrees with vm_compute evaluation of the model', found_input=False,
                      theorem='extraction cross-check')


def replay(chk, obj):
    ensure_impl_path()
    c = obj.get('case')
    if isinstance(c, dict) and 'ix' in c and 'shape' in c and 'order' in c:
        toks = c['ix']
        ix = []
        if toks != '()':
            for t in toks.split(','):
                if t == 'n':
                    ix.append(None)
                elif t == 'e':
                    ix.append(Ellipsis)
                elif t[0] == 'i':
                    ix.append(int(t[1:]))
                else:
                    a, b, cc = [None if v == '_' else int(v) for v in t[1:].split(':')]
                    ix.append(slice(a, b, cc))
        ix = tuple(ix)
        shape = tuple(c['shape'])
        w, off, order = c['itemsize'], c['offset'], c['order']
        size = int(np.prod(shape)) if shape else 1
        raw = bytes(np.random.RandomState(1).randint(0, 256, size=off + size * w + 5, dtype=np.uint8))
        arr = np.ndarray(shape, np.dtype(f'V{w}'), buffer=raw, offset=off, order=order)
        try:
            want = arr[ix]
        except Exception as e:
            want = None
        try:
            got = impl_fileslice_h(LogFile(raw), ix, shape, w, off, order, c['heuristic'])
        except Exception as e:
            got = None
            print('fileslice raised', repr(e))
        bad = (want is None) != (got is None) or (want is not None and (got.shape != want.shape or got.tobytes(order=order) != want.tobytes(order=order)))
        print('property fails on this case' if bad else 'property holds on this case')
        return 1 if bad else 0
    if obj.get('inputs') and obj['inputs'].get('probe_fn'):
        import defect_probes
        r = defect_probes.PROBES[obj['inputs']['probe_fn']]()
        print('defect present' if r else 'defect absent')
        return 1 if r else 0
    print('nothing to replay:', obj.get('predicate'))
    return 1
