"""Child process of the C09 check: runs load / modify / save histories on the implementation.

usage: c09_child.py <jobs.json> <workdir>
jobs.json = list of histories {id, shape, paths:[{name, fmt, init, link}], imgs:[null|{v, fmt, dt, aff}], ops:[tok]}
Each history runs in its own sub-directory.  Output, one line per event, flushed BEFORE an
operation starts so that a SIGBUS is attributed to its operation:
  BEGIN <id> | OP <id> <k> <tok> [alias=<name> rewritten=<own|other>] | RES <id> <k> <token>
  PRED <id> <k> <what> sig=<signature> | END <id>
Result tokens are those of the model driver (coq/C09/driver.ml).
"""
import errno
import json
import mmap as _mmap
import os
import sys
import warnings

import numpy as np

warnings.simplefilter('ignore')
import nibabel as nib  # noqa: E402
from nibabel.freesurfer import MGHImage  # noqa: E402
from nibabel.arraywriters import WriterError  # noqa: E402
from nibabel.filebasedimages import ImageFileError  # noqa: E402

KLASS = {'N': nib.Nifti1Image, 'P': nib.Nifti1Pair, 'M': MGHImage, 'A': nib.Spm2AnalyzeImage}
FULL_EXT = {'N': ('.nii',), 'P': ('.img', '.hdr'), 'M': ('.mgh',), 'A': ('.img', '.hdr', '.mat')}
ATOL = 1e-2      # affine identity; the precision of the stored affine is C04's subject (MGH keeps float32 direction cosines)
NPDT = {'f4': np.float32, 'f8': np.float64, 'i2': np.int16, 'u1': np.uint8}
SCALES = [[]]    # per history: [slope, inter, id] of the scale factors the array writers compute
NVAL = 4
NAFF = 4


SHIFT = [0]      # per history: subtracted from every value (10 gives mixed-sign data)


def value(v, shape):
    n = int(np.prod(shape))
    return ((np.arange(n) * (v + 2) + 3 * v) % 97 + 1 - SHIFT[0]).reshape(shape, order='F')


def core_shape(sh):
    """shape without trailing unit axes (MGH pads images to three axes: C01's finding S-C01a)"""
    sh = [int(x) for x in sh]
    while len(sh) > 1 and sh[-1] == 1:
        sh.pop()
    return tuple(sh)


def snapshot():
    out = {}
    for f in sorted(os.listdir('.')):
        if os.path.isfile(f) and not os.path.islink(f):
            with open(f, 'rb') as fh:
                out[f] = fh.read()
    return out


def affine(a, shape=(2, 3, 4)):
    """0, 1: axis aligned; 2: oblique (rotation about z); 3: the affine an SPM Analyze header with these
    zooms gives by itself (so that a writer may think the .mat side-car is redundant)"""
    if a == 2:
        c, s_ = np.cos(0.3), np.sin(0.3)
        rot = np.array([[c, -s_, 0], [s_, c, 0], [0, 0, 1]])
        out = np.eye(4)
        out[:3, :3] = rot @ np.diag([2., 3, 4])
        out[:3, 3] = [-12, -20, -30]
        return out
    if a == 3:
        h = nib.Spm2AnalyzeHeader()
        h.set_data_shape(shape)
        h.set_zooms((2., 3, 4) + (1.,) * (len(shape) - 3))
        return np.array(h.get_best_affine())
    return np.array([[2., 0, 0, -10 - a], [0, 3, 0, -20], [0, 0, 4, -30], [0, 0, 0, 1]])


def ident(arr, shape):
    """Which source value is this array (or G)?"""
    arr = np.asarray(arr)
    if core_shape(arr.shape) != core_shape(shape):       # MGH pads to three axes (C01's S-C01a)
        return 'G'
    arr = arr.reshape(shape)
    for v in range(NVAL):
        # touches every element; 0.3 absorbs integer quantisation (C02), the value arrays differ by >= 1
        if np.allclose(arr, value(v, shape), rtol=0, atol=0.3):
            return str(v)
    return 'G'


def scale_id(img):
    """scale identity of the slope / intercept a loaded image's proxy holds (0 = none)"""
    d = img.dataobj
    if np.dtype(getattr(d, 'dtype', np.float64)).kind not in 'iu':
        return '0'
    sl, it = float(getattr(d, 'slope', 1.0)), float(getattr(d, 'inter', 0.0))
    if (sl, it) == (1.0, 0.0):
        return '0'
    for s_, i_, k in SCALES[0]:
        if abs(sl - s_) <= 1e-3 * abs(s_) and abs(it - i_) <= 1e-3 * max(1.0, abs(i_)):
            return str(k)
    return '?'


def ident_aff(aff, shape):
    for a in range(NAFF):
        if np.allclose(aff, affine(a, shape), rtol=0, atol=ATOL):
            return str(a)
    return '?'


def dtname(dt):
    dt = np.dtype(dt)
    return {('f', 4): 'f4', ('f', 8): 'f8', ('i', 2): 'i2', ('u', 1): 'u1'}.get((dt.kind, dt.itemsize), dt.str.lstrip('<>|='))


def mapped_file(arr):
    """File name if `arr` is (a view of) a memory map of a file."""
    b = arr
    name = None
    for _ in range(8):
        if isinstance(b, np.memmap) and b.filename is not None:
            name = str(b.filename)
        if isinstance(b, _mmap.mmap):
            return name or '<mmap>'
        b = getattr(b, 'base', None)
        if b is None:
            return None
    return None


def readable(img):
    """Observable state: can the image's data be read at all?  (A proxy whose file no longer holds what its header
    copy says raises on every read; an in-memory array is just there.)"""
    try:
        np.asanyarray(img.dataobj)
        return True
    except Exception:
        return False


def classify(e, kind, img, name_exists=True):
    """Refusal class of an exception, from its TYPE, the operation and observable state only - never from its text."""
    if kind == 'L':
        return 'ref:nofile' if not name_exists else 'ref:other:' + type(e).__name__
    if isinstance(e, OSError) and e.errno == errno.ENOSPC:
        return 'ref:nospace'
    if isinstance(e, WriterError):
        return 'ref:writer'
    if kind == 'B' and isinstance(e, (NotImplementedError, AttributeError)):
        return 'ref:not_serializable'
    if kind == 'T' and isinstance(e, ImageFileError):
        return 'ref:class'            # the name does not belong to the image's class: raised before anything is touched
    if img is not None and not readable(img):
        return 'ref:short_read'       # the data cannot be read: the operation fails before any target is opened
    return 'ref:other:' + type(e).__name__


_MISSING = object()


def cached_array(img):
    """The array get_fdata() has cached, without changing the image: the private attribute when it exists, else the
    public observations (in_memory says whether a cache is full; get_fdata(caching='unchanged') returns it by identity)."""
    c = getattr(img, '_fdata_cache', _MISSING)
    if c is not _MISSING:
        return c
    if isinstance(img.dataobj, np.ndarray) or not img.in_memory:
        return None
    return img.get_fdata(caching='unchanged')


def same_file(a, b):
    try:
        return os.path.exists(a) and os.path.exists(b) and os.path.samefile(a, b)
    except OSError:
        return False


def image_file(img):
    fm = img.file_map
    return fm['image'].filename if 'image' in fm else None


def file_key(f):
    """identity of a file, whatever its name"""
    st = os.stat(f)
    return (st.st_dev, st.st_ino)


def run_history(h, workdir):
    hid = h['id']
    shape = tuple(h['shape'])
    d = os.path.join(workdir, 'h%s' % hid)
    os.makedirs(d, exist_ok=True)
    os.chdir(d)
    names = [p['name'] for p in h['paths']]
    SHIFT[0] = h.get('shift', 0)
    SCALES[0] = h.get('scales', [])
    for p in h['paths']:
        if p['init'] is not None:
            v, dt, a = p['init']
            if dt == 'i2s':      # int16 on disk with slope 0.5, intercept 0.5: raw 2V-1 decodes to V
                src = KLASS[p['fmt']]((2 * value(v, shape) - 1).astype(np.int16), affine(a, shape))
                src.header.set_slope_inter(0.5, 0.5)
                src.to_filename(p['name'])
            else:
                KLASS[p['fmt']](value(v, shape).astype(NPDT[dt]), affine(a, shape)).to_filename(p['name'])
    # other names of the same files: symbolic link, hard link, absolute spelling (every member of a pair)
    for i, p in enumerate(h['paths']):
        if p.get('link') is None:
            continue
        kind, of = p['link']
        src = h['paths'][of]['name']
        if kind == 'abs':
            names[i] = os.path.join(d, src)
            continue
        members = [(src, p['name'])]
        if p['fmt'] == 'P':
            members.append((src[:-4] + '.hdr', p['name'][:-4] + '.hdr'))
        for a, b in members:
            (os.symlink if kind == 'sym' else os.link)(a, b)
    imgs = []
    for s in h['imgs']:
        if s is None:
            imgs.append(None)
        else:
            img = KLASS[s['fmt']](value(s['v'], shape).astype(np.float64), affine(s['aff'], shape))
            img.set_data_dtype(NPDT[s['dt']])
            imgs.append(img)
    built = {}           # slot -> (file, saves to it so far) for array images built around a memory map
    saves = {}           # real path of image file -> list of saver slots, in order
    fill = {}            # slot -> (file, number of saves to it at the time the cache was filled)
    print('BEGIN', hid, flush=True)
    for k, tok in enumerate(h['ops']):
        kind = tok[0]
        s = int(tok[1])
        img = imgs[s] if s < len(imgs) else None
        extra = ''
        if kind == 'F' and img is not None and cached_array(img) is not None:
            mf = mapped_file(cached_array(img))
            if mf is not None:
                f, cnt = fill.get(s, (file_key(mf), 0))
                since = saves.get(f, [])[cnt:]
                if since:
                    extra = ' alias=%s rewritten=%s' % (os.path.basename(mf), 'own' if set(since) == {s} else 'other')
        if img is not None and s in built and isinstance(img.dataobj, np.ndarray) and kind in 'FSTWBXA':
            f, cnt = built[s]
            if saves.get(f, [])[cnt:]:
                extra += ' alias=array rewritten=other'       # the image's own array is a map of a rewritten file
            if kind in 'STW' and not (isinstance(img.dataobj, np.memmap) and img.dataobj.filename is not None):
                tgt = names[int(tok[2])]
                try:
                    base = tgt if not tgt.endswith('.hdr') else tgt[:-4] + '.img'
                    if os.path.exists(base) and file_key(base) == f:
                        extra += ' viewmap=1'                   # a base-class view of a map of the target
                except OSError:
                    pass
        print('OP', hid, k, tok + extra, flush=True)
        res = None
        try:
            if kind == 'L':
                imgs[s] = nib.load(names[int(tok[2])], mmap={'T': True, 'F': False, 'R': 'r'}[tok[3]])
                built.pop(s, None)
                fill.pop(s, None)
                res = 'done'
            elif img is None:
                res = 'ref:noimage'
            elif kind == 'F':
                had = cached_array(img) is not None
                dat = img.get_fdata()
                if not had:
                    mf = mapped_file(dat)
                    if mf is not None:
                        f = file_key(mf)
                        fill[s] = (f, len(saves.get(f, [])))
                res = 'val:' + ident(dat, shape)
            elif kind == 'U':
                img.uncache()
                fill.pop(s, None)
                res = 'done'
            elif kind == 'E':
                if isinstance(img, MGHImage):
                    img.header['tr'] = 2.5
                else:
                    img.header['descrip'] = b'edited'
                res = 'done'
            elif kind == 'I':       # only in the fault histories that are judged by the predicate alone
                img.set_data_dtype(np.int16)
                res = 'done'
            elif kind == 'X':
                # a save that fails with ENOSPC: the name is a link to /dev/full
                fmt = [k for k, K in KLASS.items() if type(img) is K][0]
                for e in FULL_EXT[fmt]:
                    if not os.path.lexists('full' + e):
                        os.symlink('/dev/full', 'full' + e)
                pre = np.array(np.asanyarray(img.dataobj))
                try:
                    nib.save(img, 'full' + FULL_EXT[fmt][0])
                    res = 'ref:other:no_error_from_dev_full'
                except OSError as e:
                    res = classify(e, kind, img)
                try:
                    post = np.asanyarray(img.dataobj)
                    if post.shape != pre.shape or not np.array_equal(post, pre):
                        print('PRED', hid, k, 'unusable_after_fault:differs', 'sig=-', flush=True)
                except Exception as e:
                    print('PRED', hid, k, 'unusable_after_fault:' + type(e).__name__, 'sig=-', flush=True)
            elif kind == 'D':
                if not isinstance(img, MGHImage):
                    cur = np.dtype(img.get_data_dtype())
                    img.set_data_dtype(np.float32 if cur.itemsize == 8 else np.float64)
                res = 'done'
            elif kind == 'C':       # a second image object on the same dataobj (shared proxy / shared array)
                s2 = int(tok[2])
                imgs[s2] = type(img).from_image(img)
                fill.pop(s2, None)
                if s in built:
                    built[s2] = built[s]
                else:
                    built.pop(s2, None)
                res = 'done'
            elif kind == 'A':       # a NEW image object of the same class around an array of this image
                s2 = int(tok[2])
                arr = {'a': lambda: np.asanyarray(img.dataobj), 'f': lambda: img.get_fdata(),
                       'v': lambda: np.asarray(img.dataobj)}[tok[3]]()
                ident(arr, shape)                          # touch it, as a user would look at it
                imgs[s2] = type(img)(arr, img.affine, img.header)
                fill.pop(s2, None)
                mf = mapped_file(arr)
                if mf is not None:
                    built[s2] = (file_key(mf), len(saves.get(file_key(mf), [])))
                else:
                    built.pop(s2, None)
                if tok[3] == 'f':
                    mfc = mapped_file(cached_array(img)) if cached_array(img) is not None else None
                    if mfc is not None and s not in fill:
                        fill[s] = (file_key(mfc), len(saves.get(file_key(mfc), [])))
                res = 'done'
            elif kind == 'M':       # in-place edit of np.asanyarray(img.dataobj) of a proxy image
                if isinstance(img.dataobj, np.ndarray):
                    res = 'done'
                else:
                    arr = np.asanyarray(img.dataobj)
                    ref = np.array(arr)
                    before = snapshot()
                    try:
                        arr[(0,) * arr.ndim] += 1
                    except ValueError:
                        pass                      # a read-only array
                    if snapshot() != before:
                        print('PRED', hid, k, 'edit_of_returned_array_changed_files', 'sig=-', flush=True)
                    elif not np.array_equal(np.asanyarray(img.dataobj), ref):
                        print('PRED', hid, k, 'edit_of_returned_array_changed_image', 'sig=-', flush=True)
                    res = 'done'
            elif kind in 'SWT':
                # W: the save is made with uint8 storage (the class may have to refuse it), then the dtype restored
                p = int(tok[2])
                before = snapshot()
                prev_dt = img.get_data_dtype()
                try:   # what the image holds at this save (read independently of the save)
                    pre = np.array(np.asanyarray(img.dataobj))
                    pre_aff = np.array(img.affine)
                except Exception:
                    pre = None
                own = None
                prox = img.dataobj
                if hasattr(prox, 'file_like') and isinstance(prox.file_like, str):
                    own = prox.file_like
                try:
                    if kind == 'W':
                        img.set_data_dtype(np.uint8)
                    try:
                        if kind == 'T':
                            img.to_filename(names[p])
                        else:
                            nib.save(img, names[p])
                    finally:
                        if kind == 'W':
                            img.set_data_dtype(prev_dt)
                except Exception:
                    if pre is not None:
                        try:
                            post = np.asanyarray(img.dataobj)
                            if post.shape != pre.shape or not np.allclose(post, pre, rtol=0, atol=0.3):
                                print('PRED', hid, k, 'unusable_after_refusal:differs', 'sig=-', flush=True)
                        except Exception as e2:
                            print('PRED', hid, k, 'unusable_after_refusal:' + type(e2).__name__, 'sig=-', flush=True)
                    after = snapshot()
                    changed = sorted(f for f in set(before) | set(after) if before.get(f) != after.get(f))
                    if changed:    # a refused save must leave every file as it was
                        print('PRED', hid, k, 'refused_save_changed_files:' + ','.join(changed), 'sig=-', flush=True)
                    raise
                j = nib.load(names[p], mmap=False)
                f = file_key(image_file(j))
                saves.setdefault(f, []).append(s)
                jd = np.asarray(j.dataobj)
                res = 'saved:%d:%s:%s:%s:%s' % (p, ident(jd, shape), dtname(j.get_data_dtype()), ident_aff(j.affine, shape), scale_id(j))
                if pre is not None:
                    # integer storage of float data, or a history whose sources are scaled integers: C02's bound
                    lossy = np.dtype(j.get_data_dtype()).kind in 'iu' or h.get('approx', False)
                    same = core_shape(jd.shape) == core_shape(pre.shape)
                    if same:
                        jd = jd.reshape(pre.shape)
                        same = np.allclose(jd, pre, rtol=0, atol=0.3, equal_nan=True) if lossy else np.array_equal(jd, pre, equal_nan=True)
                    if not same:
                        print('PRED', hid, k, 'file_differs:data', 'sig=-', flush=True)
                    elif not np.allclose(j.affine, pre_aff, rtol=0, atol=ATOL):
                        print('PRED', hid, k, 'file_differs:affine', 'sig=-', flush=True)
                    sig = '-'
                    if own is not None and same_file(own, image_file(j)):
                        if np.dtype(j.get_data_dtype()).newbyteorder('=') != np.dtype(prox.dtype).newbyteorder('='):
                            sig = 'own_file_dtype_changed'
                        elif (float(getattr(j.dataobj, 'slope', 1)), float(getattr(j.dataobj, 'inter', 0))) != \
                                (float(getattr(prox, 'slope', 1)), float(getattr(prox, 'inter', 0))):
                            sig = 'own_file_scaling_changed'
                    # since 4923d550 a saver whose array was mapped from the target holds the written copy afterwards
                    if s in built and not (isinstance(img.dataobj, np.ndarray) and mapped_file(img.dataobj) is not None):
                        built.pop(s, None)
                    arr_is_map = s in built and isinstance(img.dataobj, np.ndarray) and built[s][0] == f
                    if arr_is_map and np.dtype(j.get_data_dtype()).newbyteorder('=') != np.dtype(img.dataobj.dtype).newbyteorder('='):
                        # the image's own array is a memory map of the file just rewritten with another layout:
                        # touching it here would decide the outcome of THIS step; the model says what a later read does
                        print('PRED', hid, k, 'unusable:array_is_map_of_rewritten_file', 'sig=array_map', flush=True)
                    else:
                        try:
                            post = np.asanyarray(img.dataobj)
                            if post.shape != pre.shape or not (np.allclose(post, pre, rtol=0, atol=0.3, equal_nan=True) if h.get('approx') else
                                                               np.array_equal(post, pre, equal_nan=True)):
                                print('PRED', hid, k, 'unusable:differs', 'sig=' + sig, flush=True)
                        except Exception as e:
                            print('PRED', hid, k, 'unusable:' + type(e).__name__, 'sig=' + sig, flush=True)
            elif kind == 'B':
                b = img.to_bytes()
                j = type(img).from_bytes(b)
                res = 'bytes:%s:%s:%s' % (ident(np.asarray(j.dataobj), shape), dtname(j.get_data_dtype()), ident_aff(j.affine, shape))
            else:
                res = 'ref:other:badop'
        except Exception as e:
            res = classify(e, kind, img, name_exists=(kind != 'L' or os.path.exists(names[int(tok[2])])))
        print('RES', hid, k, res, flush=True)
    print('END', hid, flush=True)


def main():
    jobs = json.load(open(sys.argv[1]))
    workdir = sys.argv[2]
    for h in jobs:
        run_history(h, workdir)
        os.chdir(workdir)
        import shutil
        shutil.rmtree(os.path.join(workdir, 'h%s' % h['id']), ignore_errors=True)


if __name__ == '__main__':
    main()
