(* Base/PySlice.v — CPython slice semantics (PySlice_AdjustIndices / slice.indices /
   len(range(...))): the yardstick for every property that speaks of "what the same index
   gives on the array".  Validated against CPython and NumPy on every run of the C06 check
   (exhaustive on a small domain).  Definitions first, then lemmas.  No axioms. *)
From Coq Require Import ZArith List Bool Lia ZifyBool.
Import ListNotations.
Open Scope Z_scope.

Record pslice := mkSl { s_start : option Z; s_stop : option Z; s_step : option Z }.
Definition sl_none : pslice := mkSl None None None.

Definition opt_eqb (a b : option Z) : bool :=
  match a, b with
  | None, None => true
  | Some x, Some y => x =? y
  | _, _ => false
  end.
Definition pslice_eqb (a b : pslice) : bool :=
  opt_eqb (s_start a) (s_start b) && opt_eqb (s_stop a) (s_stop b) && opt_eqb (s_step a) (s_step b).

Definition step_of (s : pslice) : Z := match s_step s with None => 1 | Some v => v end.

(* slice.indices(n) for n >= 0 and step <> 0 *)
Definition clampv (n lower upper v : Z) : Z :=
  if v <? 0 then Z.max (v + n) lower else Z.min v upper.

Definition adjust (n : Z) (s : pslice) : Z * Z * Z :=
  let step := step_of s in
  let lower := if step <? 0 then -1 else 0 in
  let upper := if step <? 0 then n - 1 else n in
  let start := match s_start s with
               | None => if step <? 0 then upper else lower
               | Some v => clampv n lower upper v end in
  let stop := match s_stop s with
              | None => if step <? 0 then lower else upper
              | Some v => clampv n lower upper v end in
  (start, stop, step).

(* len(range(start, stop, step)), step <> 0 *)
Definition slen (t : Z * Z * Z) : Z :=
  let '(start, stop, step) := t in
  if 0 <? step then (if start <? stop then (stop - start - 1) / step + 1 else 0)
  else (if stop <? start then (start - stop - 1) / (- step) + 1 else 0).

Definition snth (t : Z * Z * Z) (k : Z) : Z :=
  let '(start, _, step) := t in start + k * step.

Definition zseq (n : Z) : list Z := map Z.of_nat (seq 0 (Z.to_nat n)).

(* list(range(start, stop, step)) *)
Definition range_of (t : Z * Z * Z) : list Z := map (snth t) (zseq (slen t)).

(* list(range(n))[s] *)
Definition py_indices (n : Z) (s : pslice) : list Z := range_of (adjust n s).

(* Python integer index on an axis of length n: None = IndexError *)
Definition py_int_index (n k : Z) : option Z :=
  if (k <? - n) || (n <=? k) then None else Some (if k <? 0 then k + n else k).

(* ------------------------------------------------------------------ lemmas *)

Lemma zseq_length n : 0 <= n -> Z.of_nat (length (zseq n)) = n.
Proof. intros H. unfold zseq. rewrite map_length, seq_length. lia. Qed.

Lemma zseq_In n k : In k (zseq n) <-> 0 <= k < n.
Proof.
  unfold zseq. rewrite in_map_iff. split.
  - intros (x & <- & Hx). apply in_seq in Hx. lia.
  - intros H. exists (Z.to_nat k). split; [lia|]. apply in_seq. lia.
Qed.

Lemma slen_nonneg t : 0 <= slen t.
Proof.
  destruct t as [[a b] st]. unfold slen.
  destruct (0 <? st) eqn:E1; [destruct (a <? b) eqn:E2|destruct (b <? a) eqn:E2]; try lia.
  - assert (0 <= (b - a - 1) / st) by (apply Z.div_pos; lia). lia.
  - destruct (Z.eq_dec st 0) as [->|Hz]; [rewrite Zdiv_0_r; lia|].
    assert (0 <= (a - b - 1) / - st) by (apply Z.div_pos; lia). lia.
Qed.

(* every element of range(start, stop, step) lies strictly before stop *)
Lemma range_bound a b st k : st <> 0 -> 0 <= k < slen (a, b, st) ->
  (0 < st -> a <= a + k * st < b) /\ (st < 0 -> b < a + k * st <= a).
Proof.
  intros Hst Hk. unfold slen in Hk.
  destruct (0 <? st) eqn:E1.
  - destruct (a <? b) eqn:E2; [|lia]. split; [intros _|lia].
    assert (k <= (b - a - 1) / st) by lia.
    assert (st * ((b - a - 1) / st) <= b - a - 1) by (apply Z.mul_div_le; lia). nia.
  - destruct (b <? a) eqn:E2; [|lia]. split; [lia|intros _].
    assert (k <= (a - b - 1) / (- st)) by lia.
    assert ((- st) * ((a - b - 1) / (- st)) <= a - b - 1) by (apply Z.mul_div_le; lia). nia.
Qed.

(* slen is exact: the element after the last one is no longer before stop *)
Lemma range_maximal a b st : st <> 0 ->
  (0 < st -> b <= a + slen (a, b, st) * st) /\ (st < 0 -> a + slen (a, b, st) * st <= b).
Proof.
  intros Hst. unfold slen.
  destruct (0 <? st) eqn:E1.
  - split; [intros _|lia]. destruct (a <? b) eqn:E2; [|lia].
    pose proof (Z.mod_pos_bound (b - a - 1) st ltac:(lia)).
    pose proof (Z.div_mod (b - a - 1) st ltac:(lia)). nia.
  - split; [lia|intros _]. destruct (b <? a) eqn:E2; [|lia].
    pose proof (Z.mod_pos_bound (a - b - 1) (- st) ltac:(lia)).
    pose proof (Z.div_mod (a - b - 1) (- st) ltac:(lia)). nia.
Qed.

Lemma adjust_step n s : snd (adjust n s) = step_of s.
Proof. reflexivity. Qed.

(* bounds produced by slice.indices *)
Lemma adjust_bounds n s : 0 <= n ->
  let '(a, b, st) := adjust n s in
  (0 < st -> 0 <= a <= n /\ 0 <= b <= n) /\ (st < 0 -> -1 <= a <= n - 1 /\ -1 <= b <= n - 1).
Proof.
  intros Hn. unfold adjust, clampv.
  destruct (step_of s <? 0) eqn:E; destruct (s_start s) as [v|]; destruct (s_stop s) as [u|];
    repeat match goal with |- context [if ?c then _ else _] => destruct c eqn:? end; lia.
Qed.

(* indices selected by a slice on an axis of length n are valid indices *)
Lemma snth_in_range n s k : 0 <= n -> step_of s <> 0 ->
  0 <= k < slen (adjust n s) -> 0 <= snth (adjust n s) k < n.
Proof.
  intros Hn Hst Hk. pose proof (adjust_bounds n s Hn) as HB.
  destruct (adjust n s) as [[a b] st] eqn:E.
  assert (st = step_of s) by (pose proof (adjust_step n s) as H; rewrite E in H; exact H). subst st.
  pose proof (range_bound a b (step_of s) k Hst Hk) as [Hp Hm]. unfold snth.
  destruct HB as [HB1 HB2].
  destruct (Z_lt_ge_dec 0 (step_of s)).
  - specialize (Hp ltac:(lia)). specialize (HB1 ltac:(lia)). lia.
  - specialize (Hm ltac:(lia)). specialize (HB2 ltac:(lia)). lia.
Qed.

Lemma py_indices_in_range n s i : 0 <= n -> step_of s <> 0 -> In i (py_indices n s) -> 0 <= i < n.
Proof.
  intros Hn Hst. unfold py_indices, range_of. rewrite in_map_iff. intros (k & <- & Hk).
  apply zseq_In in Hk. now apply snth_in_range.
Qed.

Lemma py_indices_length n s : Z.of_nat (length (py_indices n s)) = slen (adjust n s).
Proof. unfold py_indices, range_of. rewrite map_length. apply zseq_length, slen_nonneg. Qed.

Lemma py_indices_none n : 0 <= n -> py_indices n sl_none = zseq n.
Proof.
  intros Hn. unfold py_indices, range_of, adjust, sl_none, step_of, slen, snth. cbn.
  destruct (0 <? n) eqn:E.
  - replace ((n - 0 - 1) / 1 + 1) with n by (rewrite Z.div_1_r; lia).
    rewrite <- (map_id (zseq n)) at 2. apply map_ext. intros; lia.
  - replace n with 0 by lia. reflexivity.
Qed.
