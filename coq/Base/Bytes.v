(* Base/Bytes.v — fixed-width integer byte codecs (little/big endian, two's complement).
   Bytes are Z values in [0,256).  Definitions first, lemmas after; no axioms. *)
From Coq Require Import ZArith List Bool Lia ZifyBool.
Import ListNotations.
Open Scope Z_scope.

Definition byte_ok (b : Z) : Prop := 0 <= b < 256.
Definition bytes_ok (l : list Z) : Prop := Forall byte_ok l.
Definition byte_okb (b : Z) : bool := (0 <=? b) && (b <? 256).

Definition zlen {A} (l : list A) : Z := Z.of_nat (length l).

Fixpoint enc_le (w : nat) (z : Z) : list Z :=
  match w with
  | O => []
  | S w' => (z mod 256) :: enc_le w' (z / 256)
  end.

Fixpoint dec_le (l : list Z) : Z :=
  match l with
  | [] => 0
  | b :: r => b + 256 * dec_le r
  end.

(* be = true: big endian (most significant byte first) *)
Definition enc (be : bool) (w : nat) (z : Z) : list Z :=
  if be then rev (enc_le w z) else enc_le w z.
Definition dec (be : bool) (l : list Z) : Z :=
  dec_le (if be then rev l else l).

Definition pow256 (w : nat) : Z := 256 ^ Z.of_nat w.

(* two's complement on w bytes *)
Definition to_signed (w : nat) (u : Z) : Z :=
  if u <? pow256 w / 2 then u else u - pow256 w.
Definition of_signed (w : nat) (s : Z) : Z := s mod pow256 w.

Definition enc_s be w s := enc be w (of_signed w s).
Definition dec_s be l := to_signed (length l) (dec be l).

Definition zeros (n : Z) : list Z := repeat 0 (Z.to_nat n).

(* Python bytes.rstrip(b'\x00') *)
Fixpoint rstrip0 (l : list Z) : list Z :=
  match l with
  | [] => []
  | b :: r => match rstrip0 r with
              | [] => if b =? 0 then [] else [b]
              | r' => b :: r'
              end
  end.

(* file-like slicing *)
Definition take (n : Z) {A} (l : list A) : list A := firstn (Z.to_nat n) l.
Definition drop (n : Z) {A} (l : list A) : list A := skipn (Z.to_nat n) l.

(* ------------------------------------------------------------------ lemmas *)

Lemma pow256_S w : pow256 (S w) = 256 * pow256 w.
Proof. unfold pow256. rewrite Nat2Z.inj_succ, Z.pow_succ_r by lia. reflexivity. Qed.

Lemma pow256_pos w : 0 < pow256 w.
Proof. unfold pow256. apply Z.pow_pos_nonneg; lia. Qed.

Lemma enc_le_length w z : length (enc_le w z) = w.
Proof. revert z; induction w as [|w IH]; intros z; simpl; [reflexivity|]. now rewrite IH. Qed.

Lemma enc_length be w z : length (enc be w z) = w.
Proof. unfold enc; destruct be; rewrite ?rev_length; apply enc_le_length. Qed.

Lemma enc_le_ok w z : bytes_ok (enc_le w z).
Proof.
  revert z; induction w as [|w IH]; intros z; simpl; constructor.
  - unfold byte_ok. apply Z.mod_pos_bound; lia.
  - apply IH.
Qed.

Lemma bytes_ok_rev l : bytes_ok l -> bytes_ok (rev l).
Proof. unfold bytes_ok. rewrite !Forall_forall. intros H x Hx. apply H. now apply in_rev. Qed.

Lemma enc_ok be w z : bytes_ok (enc be w z).
Proof. unfold enc; destruct be; [apply bytes_ok_rev|]; apply enc_le_ok. Qed.

Lemma dec_enc_le w z : 0 <= z < pow256 w -> dec_le (enc_le w z) = z.
Proof.
  revert z; induction w as [|w IH]; intros z Hz.
  - unfold pow256 in Hz; simpl in *. lia.
  - cbn [enc_le dec_le]. rewrite pow256_S in Hz. rewrite IH.
    + pose proof (Z.div_mod z 256). lia.
    + split; [apply Z.div_pos; lia|]. apply Z.div_lt_upper_bound; lia.
Qed.

Lemma dec_le_range l : bytes_ok l -> 0 <= dec_le l < pow256 (length l).
Proof.
  induction l as [|b r IH]; intros H.
  - unfold pow256; simpl; lia.
  - inversion H as [|? ? Hb Hr]; subst. specialize (IH Hr). unfold byte_ok in Hb.
    cbn [dec_le length]. rewrite pow256_S. lia.
Qed.

Lemma enc_dec_le l : bytes_ok l -> enc_le (length l) (dec_le l) = l.
Proof.
  induction l as [|b r IH]; intros H; [reflexivity|].
  inversion H as [|? ? Hb Hr]; subst. unfold byte_ok in Hb.
  cbn [length enc_le dec_le].
  assert (E1 : (b + 256 * dec_le r) mod 256 = b).
  { Z.to_euclidean_division_equations; lia. }
  assert (E2 : (b + 256 * dec_le r) / 256 = dec_le r).
  { Z.to_euclidean_division_equations; lia. }
  rewrite E1, E2, IH by assumption. reflexivity.
Qed.

Lemma dec_enc be w z : 0 <= z < pow256 w -> dec be (enc be w z) = z.
Proof. unfold dec, enc; destruct be; rewrite ?rev_involutive; apply dec_enc_le. Qed.

Lemma enc_dec be l : bytes_ok l -> enc be (length l) (dec be l) = l.
Proof.
  unfold dec, enc; destruct be; intros H.
  - rewrite <- (rev_length l). rewrite enc_dec_le by now apply bytes_ok_rev. apply rev_involutive.
  - now apply enc_dec_le.
Qed.

Lemma dec_range be l : bytes_ok l -> 0 <= dec be l < pow256 (length l).
Proof.
  unfold dec; destruct be; intros H.
  - rewrite <- (rev_length l). apply dec_le_range. now apply bytes_ok_rev.
  - now apply dec_le_range.
Qed.

(* byte swap = reading the reversed bytes in the other order *)
Lemma swap_enc be w z : enc (negb be) w z = rev (enc be w z).
Proof. unfold enc; destruct be; simpl; [now rewrite rev_involutive|reflexivity]. Qed.

Lemma dec_swap be l : dec (negb be) (rev l) = dec be l.
Proof. unfold dec; destruct be; simpl; [reflexivity|now rewrite rev_involutive]. Qed.

Lemma to_of_signed w s : (0 < w)%nat -> - (pow256 w / 2) <= s < pow256 w / 2 ->
  to_signed w (of_signed w s) = s.
Proof.
  intros Hw Hs. unfold to_signed, of_signed.
  destruct w as [|w]; [lia|]. rewrite pow256_S in *. pose proof (pow256_pos w) as Hp.
  set (P := pow256 w) in *.
  assert (E : 256 * P / 2 = 128 * P) by (replace (256 * P) with (128 * P * 2) by lia; apply Z.div_mul; lia).
  rewrite E in *.
  destruct (Z.ltb_spec s 0) as [Hneg|Hpos].
  - replace (s mod (256 * P)) with (s + 256 * P).
    + destruct (Z.ltb_spec (s + 256 * P) (128 * P)); lia.
    + symmetry. rewrite <- (Z.mod_add s 1 (256 * P)) by lia. rewrite Z.mod_small; lia.
  - rewrite Z.mod_small by lia. destruct (Z.ltb_spec s (128 * P)); lia.
Qed.

Lemma of_signed_range w s : 0 <= of_signed w s < pow256 w.
Proof. unfold of_signed. apply Z.mod_pos_bound. apply pow256_pos. Qed.

Lemma dec_s_enc_s be w s : (0 < w)%nat -> - (pow256 w / 2) <= s < pow256 w / 2 ->
  dec_s be (enc_s be w s) = s.
Proof.
  intros Hw Hs. unfold dec_s, enc_s. rewrite enc_length, dec_enc by apply of_signed_range.
  now apply to_of_signed.
Qed.

Lemma zeros_length n : 0 <= n -> zlen (zeros n) = n.
Proof. intros H. unfold zlen, zeros. rewrite repeat_length. lia. Qed.

Lemma rstrip0_app_zeros l n : rstrip0 (l ++ repeat 0 n) = rstrip0 l.
Proof.
  induction l as [|b r IH]; simpl.
  - induction n as [|n IHn]; simpl; [reflexivity|]. now rewrite IHn.
  - now rewrite IH.
Qed.

Lemma rstrip0_cons b r : rstrip0 (b :: r) =
  match rstrip0 r with [] => if b =? 0 then [] else [b] | r' => b :: r' end.
Proof. reflexivity. Qed.

Lemma rstrip0_idem l : rstrip0 (rstrip0 l) = rstrip0 l.
Proof.
  induction l as [|b r IH]; simpl; [reflexivity|].
  destruct (rstrip0 r) as [|c r'] eqn:E.
  - destruct (Z.eqb_spec b 0); simpl; [reflexivity|]. destruct (Z.eqb_spec b 0); [lia|reflexivity].
  - rewrite rstrip0_cons, IH. reflexivity.
Qed.

Lemma take_app_exact {A} (l r : list A) : take (zlen l) (l ++ r) = l.
Proof.
  unfold take, zlen. rewrite Nat2Z.id. rewrite firstn_app, Nat.sub_diag, firstn_all. simpl. apply app_nil_r.
Qed.

Lemma drop_app_exact {A} (l r : list A) : drop (zlen l) (l ++ r) = r.
Proof.
  unfold drop, zlen. rewrite Nat2Z.id. rewrite skipn_app, Nat.sub_diag, skipn_all. reflexivity.
Qed.
