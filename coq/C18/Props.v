(* C18/Props.v — property theorems only (each closed by `exact`, Print Assumptions beneath).
   Property C18: CIFTI-2 axes, header XML and matrix data stay mutually consistent.
   Yardstick: Base/PySlice.v (py_indices n s = list(range(n))[s]) and Model.resolve/select
   (= NumPy 1-D indexing arr[idx] for slices, integer sequences and boolean masks), both
   validated against CPython / NumPy on every run of ./check C18. *)
From Coq Require Import ZArith List Bool Lia.
From NV Require Import Base.PySlice C18.Model C18.Lemmas C18.Tables C18.ModelXml C18.LemmasXml C18.ModelJoin C18.LemmasJoin.
Import ListNotations.
Open Scope Z_scope.

(* ---------------------------------------------------------------- SeriesAxis *)
(* axis[s] for EVERY (start, step, size >= 0) and EVERY slice with a non-zero step (any sign,
   bounds anywhere, None anywhere): the time points of the result are the time points of the
   axis at list(range(size))[s]; its length is len(range(start, stop, step)) of
   s.indices(size).  Full theorem since fix e100dc4d (S-C18a). *)
Theorem C18_series_slice : forall a s, 0 <= se_size a -> step_of s <> 0 ->
  exists b, ser_getitem_slice a s = Ok b
    /\ ser_time b = select 0 (ser_time a) (py_indices (se_size a) s)
    /\ se_size b = slen (adjust (se_size a) s)
    /\ se_size b = zlen (py_indices (se_size a) s)
    /\ se_unit b = se_unit a.
Proof. exact series_slice. Qed.
Print Assumptions C18_series_slice.

Theorem C18_series_slice_step0 : forall a s, step_of s = 0 -> ser_getitem_slice a s = Err EStep0.
Proof. exact series_slice_step0. Qed.
Print Assumptions C18_series_slice_step0.

Theorem C18_series_int : forall a k, 0 <= se_size a ->
  ser_get_element a k = match py_int_index (se_size a) k with
                        | Some i => Ok (nth (Z.to_nat i) (ser_time a) 0)
                        | None => Err EIndex
                        end.
Proof. exact series_int. Qed.
Print Assumptions C18_series_int.

(* a + b: the rows of a followed by the regular continuation of a; this IS the concatenation
   of the two time lists exactly when b starts where a ends (the start of b is ignored, as the
   docstring of SeriesAxis.__add__ says) *)
Theorem C18_series_concat : forall a b c, 0 <= se_size a -> 0 <= se_size b -> ser_add a b = Ok c ->
  se_size c = se_size a + se_size b
  /\ ser_time c = ser_time a ++ map (fun k => (se_size a + k) * se_step a + se_start a) (zseq (se_size b))
  /\ (se_start b = se_start a + se_size a * se_step a -> ser_time c = ser_time a ++ ser_time b).
Proof. exact series_add. Qed.
Print Assumptions C18_series_concat.

Theorem C18_series_concat_total : forall a b, se_step b = se_step a -> se_unit b = se_unit a ->
  exists c, ser_add a b = Ok c.
Proof. exact series_add_total. Qed.
Print Assumptions C18_series_concat_total.

(* ---------------------------------------------------------------- indexing = indexing the rows *)
Theorem C18_resolve_in_range : forall n ix pos, 0 <= n -> resolve n ix = Ok pos ->
  Forall (fun i => 0 <= i < n) pos.
Proof. exact resolve_range. Qed.
Print Assumptions C18_resolve_in_range.

(* C18_index_describes_rows, one statement per axis class: for EVERY well-formed axis and
   EVERY index (slice / integer sequence / boolean mask) that NumPy accepts on an array of
   that length, axis[idx] exists, is well formed, and its element descriptions and length are
   those of the rows data[idx] *)
Theorem C18_index_describes_rows_scalar : forall a ix pos, sc_wf a -> resolve (sc_len a) ix = Ok pos ->
  exists b, sc_getitem a ix = Ok b /\ sc_wf b
    /\ sc_elements b = select (0, 0) (sc_elements a) pos /\ sc_len b = zlen pos.
Proof. exact sc_index. Qed.
Print Assumptions C18_index_describes_rows_scalar.

Theorem C18_index_describes_rows_label : forall a ix pos, lab_wf a -> resolve (lab_len a) ix = Ok pos ->
  exists b, lab_getitem a ix = Ok b /\ lab_wf b
    /\ lab_elements b = select (0, 0, 0) (lab_elements a) pos /\ lab_len b = zlen pos.
Proof. exact lab_index. Qed.
Print Assumptions C18_index_describes_rows_label.

Theorem C18_index_describes_rows_parcels : forall a ix pos, par_wf a -> resolve (par_len a) ix = Ok pos ->
  exists b, par_getitem a ix = Ok b /\ par_wf b
    /\ par_elements b = select (0, 0, []) (par_elements a) pos /\ par_len b = zlen pos
    /\ pa_vol b = pa_vol a /\ pa_nv b = pa_nv a.
Proof. exact par_index. Qed.
Print Assumptions C18_index_describes_rows_parcels.

(* BrainModelAxis: full statement since fix 82b9e2d7 (S-C18b) - every accepted index, the
   empty selection included (the result is then an empty axis without volume and nvertices) *)
Theorem C18_index_describes_rows_brainmodel : forall a ix pos,
  bm_wf a -> resolve (bm_len a) ix = Ok pos ->
  exists b, bm_getitem a ix = Ok b /\ bm_wf b
    /\ bm_elements b = select (bm_elem (b_nv a) 0 no_ijk 0) (bm_elements a) pos
    /\ bm_len b = zlen pos
    /\ b_nv b = filter (fun kv => zmem (fst kv) (b_name b)) (b_nv a).
Proof. exact bm_index. Qed.
Print Assumptions C18_index_describes_rows_brainmodel.

Theorem C18_brainmodel_int : forall a k, bm_wf a ->
  bm_get_element a k = match py_int_index (bm_len a) k with
                       | Some i => Ok (nth (Z.to_nat i) (bm_elements a) (bm_elem (b_nv a) 0 no_ijk 0))
                       | None => Err EIndex
                       end.
Proof. exact bm_int. Qed.
Print Assumptions C18_brainmodel_int.

(* an index NumPy rejects (out of range, wrong mask length, step 0) is rejected by the axis *)
Theorem C18_index_errors : forall e,
  (forall a ix, resolve (sc_len a) ix = Err e -> sc_getitem a ix = Err e)
  /\ (forall a ix, resolve (lab_len a) ix = Err e -> lab_getitem a ix = Err e)
  /\ (forall a ix, resolve (par_len a) ix = Err e -> par_getitem a ix = Err e)
  /\ (forall a ix, resolve (bm_len a) ix = Err e -> bm_getitem a ix = Err e).
Proof.
  exact (fun e => conj (fun a ix => sc_index_err a ix e) (conj (fun a ix => lab_index_err a ix e)
          (conj (fun a ix => par_index_err a ix e) (fun a ix => bm_index_err a ix e)))).
Qed.
Print Assumptions C18_index_errors.

(* every axis the BrainModelAxis constructor returns is well formed (so the hypotheses bm_wf
   above hold of every axis that exists, empty ones included) *)
Theorem C18_brainmodel_constructor_wf : forall name vox vtx v nv a,
  NoDup (keys nv) -> bm_make name vox vtx v nv = Ok a -> bm_wf a.
Proof. exact bm_make_wf. Qed.
Print Assumptions C18_brainmodel_constructor_wf.

(* ---------------------------------------------------------------- concatenation = concatenating the rows *)
Theorem C18_concat_scalar : forall a b, sc_wf a -> sc_wf b ->
  exists c, sc_add a b = Ok c /\ sc_wf c /\ sc_elements c = sc_elements a ++ sc_elements b
    /\ sc_len c = sc_len a + sc_len b.
Proof. exact sc_concat. Qed.
Print Assumptions C18_concat_scalar.

Theorem C18_concat_label : forall a b, lab_wf a -> lab_wf b ->
  exists c, lab_add a b = Ok c /\ lab_wf c /\ lab_elements c = lab_elements a ++ lab_elements b
    /\ lab_len c = lab_len a + lab_len b.
Proof. exact lab_concat. Qed.
Print Assumptions C18_concat_label.

Theorem C18_concat_parcels : forall a b c, par_wf a -> par_wf b -> par_add a b = Ok c ->
  par_wf c /\ par_elements c = par_elements a ++ par_elements b /\ par_len c = par_len a + par_len b.
Proof. exact par_concat. Qed.
Print Assumptions C18_concat_parcels.

(* kinds_agree: no structure is a surface in one operand and a voxel structure in the other *)
Theorem C18_concat_brainmodel : forall a b c, bm_wf a -> bm_wf b -> kinds_agree a b -> bm_add a b = Ok c ->
  bm_wf c /\ bm_elements c = bm_elements a ++ bm_elements b /\ bm_len c = bm_len a + bm_len b.
Proof. exact bm_concat. Qed.
Print Assumptions C18_concat_brainmodel.

(* ---------------------------------------------------------------- run-length grouping and its inverse *)
(* iter_structures: consecutive, gap-free, constant, maximal runs covering the axis; each
   sub-axis describes exactly the rows of its run *)
Theorem C18_iter_structures : forall a, bm_wf a -> b_name a <> [] ->
  exists R structs, bm_runs a = Ok R /\ chain (b_name a) 0 R /\ maximal R
    /\ bm_iter_structures a = Ok structs
    /\ Forall2 (fun r st => fst (fst st) = fst (fst r) /\ snd (fst st) = snd (fst r) /\ bm_wf (snd st)
                  /\ bm_elements (snd st)
                     = sub (snd (fst r)) (stop_of (snd r) (bm_len a)) (bm_elements a)) R structs.
Proof. exact iter_structures_spec. Qed.
Print Assumptions C18_iter_structures.

(* from_index_mapping (to_mapping a) == a (both ways) with the same element descriptions, for
   EVERY well-formed non-empty brain-model axis: any number of structures, any order,
   the same structure in any number of separate runs *)
Theorem C18_rle_roundtrip : forall a, bm_wf a -> b_name a <> [] ->
  exists m a', bm_to_mapping a = Ok m /\ bm_from_mapping m = Ok a'
    /\ bm_wf a' /\ bm_eqb a' a = true /\ bm_eqb a a' = true
    /\ bm_elements a' = bm_elements a /\ b_name a' = b_name a /\ b_vol a' = b_vol a.
Proof. exact bm_rle_roundtrip. Qed.
Print Assumptions C18_rle_roundtrip.

(* an EMPTY brain-model axis has no structures: iter_structures / to_mapping refuse it
   (IndexError from self.name[0]), so it cannot be put into a header (axis_wf excludes it) *)
Theorem C18_empty_brainmodel_has_no_maps : forall a, b_name a = [] ->
  bm_to_mapping a = Err EIndex /\ bm_iter_structures a = Err EIndex.
Proof. exact bm_empty_no_maps. Qed.
Print Assumptions C18_empty_brainmodel_has_no_maps.

(* == of the five axis classes (BrainModelAxis and ParcelsAxis line for line, the per-parcel
   vertex-dictionary loop included) is an equivalence on well-formed axes: reflexive,
   symmetric (although the loops only walk the LEFT operand's keys: equal sizes and distinct
   keys make that symmetric), transitive.  This is what makes the sharing of one
   MatrixIndicesMap between equal axes in to_header sound (C18_header_roundtrip). *)
Theorem C18_axis_eq_equivalence :
  (forall a, axis_wf a -> axis_eqb a a = true)
  /\ (forall a b, axis_wf a -> axis_wf b -> axis_eqb a b = true -> axis_eqb b a = true)
  /\ (forall a b c, axis_eqb a b = true -> axis_eqb b c = true -> axis_eqb a c = true).
Proof. exact (conj axis_eqb_refl (conj axis_eqb_sym axis_eqb_trans)). Qed.
Print Assumptions C18_axis_eq_equivalence.

(* what == of two parcels axes says about the vertex dictionaries: same number of surface
   structures per parcel and the same vertex list for every structure *)
Theorem C18_parcels_eq_vertices : forall x y, par_eqb x y = true ->
  Forall2 (fun v1 v2 => length v1 = length v2 /\ forall k idx, In (k, idx) v1 -> vlookup v2 k = Some idx)
          (pa_vertices x) (pa_vertices y).
Proof.
  intros x y H. apply par_eqb_iff in H as (_ & _ & _ & _ & _ & H).
  induction H; constructor; [now apply vdict_eqb_spec|assumption].
Qed.
Print Assumptions C18_parcels_eq_vertices.

(* ---------------------------------------------------------------- header and file *)
(* Cifti2Header.from_axes(axes).get_axis(i) == axes[i] for every tuple of well-formed axes of
   the five kinds, with equal axes sharing one MatrixIndicesMap *)
Theorem C18_header_roundtrip : forall axes, Forall axis_wf axes ->
  exists mat, to_header axis_eqb axis_enc axes = Ok mat
    /\ forall i ax, nth_error axes i = Some ax ->
         exists a', get_axis axis_dec mat (Z.of_nat i) = Ok a' /\ axis_eqb a' ax = true.
Proof. exact axes_header_roundtrip. Qed.
Print Assumptions C18_header_roundtrip.

(* the saved file at the level of the AXES, with payloads of interned values; GIVEN two oracles
   as premises (the XML premise is, for headers whose strings are clean, what
   C18_xml_roundtrip_iff below proves about the real XML structure; the statement WITHOUT an
   XML premise is C18_axes_end_to_end): the XML layer returns the matrix of
   index maps it was given (Cifti2*._to_xml_element + Cifti2Parser/expat) and the NIfTI-2
   container returns shape, extension 32 and data (C01/C11).  Then loading what was saved
   gives the same data, the same data shape, and axes equal to the ones written.  The XML
   premise is what the correspondence streams E/F measure; it is known to fail for map names /
   metadata / label names that are empty or have leading or trailing whitespace (S-C18c) -
   inputs kept out of the generators and probed separately. *)
Theorem C18_file_roundtrip_axes : forall (X D F : Type)
    (to_xml : list (list Z * amap) -> X) (parse_xml : X -> res (list (list Z * amap)))
    (dshape : D -> list Z) (nifti_write : list Z -> X -> D -> F)
    (nifti_read : F -> res (list Z * option X * D)),
  (forall mat, parse_xml (to_xml mat) = Ok mat) ->
  (forall sh x d, nifti_read (nifti_write sh x d) = Ok (sh, Some x, d)) ->
  forall axes data, Forall axis_wf axes -> list_eqb (dshape data) (map axis_len axes) = true ->
  exists f mat, img_save axis_eqb axis_enc to_xml axis_len dshape nifti_write axes data = Ok f
    /\ img_load parse_xml nifti_read f = Ok (mat, dshape data, data)
    /\ forall i ax, nth_error axes i = Some ax ->
         exists a', get_axis axis_dec mat (Z.of_nat i) = Ok a' /\ axis_eqb a' ax = true.
Proof.
  exact (fun X D F to_xml parse_xml dshape nifti_write nifti_read =>
           file_roundtrip axis_eqb axis_enc axis_dec axis_wf axis_eqb_refl axis_eqb_trans axis_enc_dec
                          to_xml parse_xml axis_len dshape nifti_write nifti_read).
Qed.
Print Assumptions C18_file_roundtrip_axes.

(* file histories: the NIfTI header of the image being saved may come from a loaded or an
   already saved image (nifti_header=...) and then already holds CIFTI-2 XML of OTHER axes.
   For EVERY prior extension list: after to_file_map there is exactly one CIFTI-2 extension,
   it carries the XML of the image saved now, from_file_map finds it, other extensions are
   kept in order.  (Hence after any sequence of saves the last XML wins.) *)
Theorem C18_save_replaces_cifti_extension : forall exts xml,
  first_cifti_ext (set_cifti_ext exts xml) = Some xml
  /\ filter is_cifti_ext (set_cifti_ext exts xml) = [(32, xml)]
  /\ filter (fun e => negb (is_cifti_ext e)) (set_cifti_ext exts xml)
     = filter (fun e => negb (is_cifti_ext e)) exts.
Proof. exact save_replaces_cifti_ext. Qed.
Print Assumptions C18_save_replaces_cifti_extension.

(* ---------------------------------------------------------------- the XML layer (ModelXml.v) *)
(* Cifti2Parser's handler state machine (StartElementHandler / EndElementHandler /
   CharacterDataHandler / flush_chardata with its strip()) run over the expat event list of what
   Cifti2Header.to_xml writes returns the NORMALISED header: every metadata key/value, label
   name and map name stripped, dictionaries rebuilt key by key, an empty map name -> None,
   empty MetaData / LabelTable / VoxelIndicesIJK / VertexIndices objects -> None.
   header_ok = what the parser (not the writer) checks: Version >= 2, every dimension mapped
   once, one Volume per map, LabelTable only in LABELS maps, Surface only in PARCELS maps,
   BrainModel only in BRAIN_MODELS maps with valid structure and model type, valid Vertices
   structures, 16 matrix entries.  Premises: the number-text oracles (str(int)/' '.join,
   '{:.10f}', np.loadtxt) invert each other. *)
Theorem C18_xml_parse_write : forall bs_valid show_ints show_vox show_matrix loadtxt_ints loadtxt_floats,
  show_ints [] = [] ->
  (forall l, l <> [] -> show_ints l <> [] /\ loadtxt_ints (strip (show_ints l)) = Some l) ->
  (forall v, v <> [] -> show_vox v <> [] /\ exists l, loadtxt_ints (strip (show_vox v)) = Some l /\ triples l = Some v) ->
  (forall m, length m = 16%nat -> show_matrix m <> [] /\ loadtxt_floats (strip (show_matrix m)) = Some m) ->
  forall h ev, write show_ints show_vox show_matrix h = XOk ev -> header_ok bs_valid h ->
  parse bs_valid loadtxt_ints loadtxt_floats ev = XOk (norm h).
Proof. exact parse_write. Qed.
Print Assumptions C18_xml_parse_write.

(* S-C18c as a theorem pair.  (1) parse (to_xml h) = h EXACTLY when h is clean: every metadata
   key and value, label name and map name t satisfies t.strip() == t; map names are non-empty
   (an empty MapName element has no character data and leaves map_name None); metadata and
   label tables have distinct keys and are not empty objects (an empty MetaData / LabelTable /
   index table is not written and reads back as None). *)
Theorem C18_xml_roundtrip_iff : forall bs_valid show_ints show_vox show_matrix loadtxt_ints loadtxt_floats,
  show_ints [] = [] ->
  (forall l, l <> [] -> show_ints l <> [] /\ loadtxt_ints (strip (show_ints l)) = Some l) ->
  (forall v, v <> [] -> show_vox v <> [] /\ exists l, loadtxt_ints (strip (show_vox v)) = Some l /\ triples l = Some v) ->
  (forall m, length m = 16%nat -> show_matrix m <> [] /\ loadtxt_floats (strip (show_matrix m)) = Some m) ->
  forall h ev, write show_ints show_vox show_matrix h = XOk ev -> header_ok bs_valid h ->
  (parse bs_valid loadtxt_ints loadtxt_floats ev = XOk h <-> header_clean h).
Proof. exact xml_roundtrip_iff. Qed.
Print Assumptions C18_xml_roundtrip_iff.

Theorem C18_xml_norm_fixed_iff : forall h, norm h = h <-> header_clean h.
Proof. exact norm_fixed_iff. Qed.
Print Assumptions C18_xml_norm_fixed_iff.

(* (2) the unrestricted statement "parse (to_xml h) = h" is false: a scalar map named " b "
   is written and read back as "b" (finding S-C18c) *)
Theorem C18_xml_exact_roundtrip_refuted :
  let h := mkXH 20 None [mkXM [0] mt_scalars (mkXS None None None None None) [CNamed (mkNM (Some [32; 98; 32]) None None)]] in
  let nil1 := fun _ : list Z => @nil Z in
  exists ev h', write nil1 (fun _ => []) nil1 h = XOk ev
    /\ parse (fun _ => true) (fun _ => None) (fun _ => None) ev = XOk h' /\ h' <> h
    /\ h' = mkXH 20 None [mkXM [0] mt_scalars (mkXS None None None None None) [CNamed (mkNM (Some [98]) None None)]].
Proof. exact xml_whitespace_refuted. Qed.
Print Assumptions C18_xml_exact_roundtrip_refuted.

(* however expat cuts a text into CharacterDataHandler calls (buffer size), the result is the same *)
Theorem C18_xml_chunking : forall bs_valid loadtxt_ints loadtxt_floats pre a b post,
  parse bs_valid loadtxt_ints loadtxt_floats (pre ++ Chars a :: Chars b :: post)
  = parse bs_valid loadtxt_ints loadtxt_floats (pre ++ Chars (a ++ b) :: post).
Proof. exact split_chunk. Qed.
Print Assumptions C18_xml_chunking.

(* the file with the XML premise DISCHARGED: header structure -> to_xml -> extension 32 of a
   NIfTI-2 file -> Cifti2Parser gives the normalised header (the header itself iff clean, by
   C18_xml_norm_fixed_iff), the same shape and the same data.  Remaining premises: the NIfTI-2
   container returns shape, extension and data (C01/C10/C11) and the number-text oracles. *)
Theorem C18_file_roundtrip : forall bs_valid show_ints show_vox show_matrix loadtxt_ints loadtxt_floats,
  show_ints [] = [] ->
  (forall l, l <> [] -> show_ints l <> [] /\ loadtxt_ints (strip (show_ints l)) = Some l) ->
  (forall v, v <> [] -> show_vox v <> [] /\ exists l, loadtxt_ints (strip (show_vox v)) = Some l /\ triples l = Some v) ->
  (forall m, length m = 16%nat -> show_matrix m <> [] /\ loadtxt_floats (strip (show_matrix m)) = Some m) ->
  forall (D F : Type) (nifti_write : list Z -> list event -> D -> F)
         (nifti_read : F -> option (list Z * option (list event) * D)),
  (forall sh x d, nifti_read (nifti_write sh x d) = Some (sh, Some x, d)) ->
  forall h shape data f, header_ok bs_valid h ->
  xml_save show_ints show_vox show_matrix nifti_write h shape data = XOk f ->
  xml_load bs_valid loadtxt_ints loadtxt_floats nifti_read f = XOk (norm h, shape, data).
Proof. exact xml_file_roundtrip. Qed.
Print Assumptions C18_file_roundtrip.

(* ---------------------------------------------------------------- axes <-> XML header structure (ModelJoin.v) *)
(* to_mapping / from_index_mapping of the five classes between the axis records and the children
   of a MatrixIndicesMap (Volume placed before the first voxel BrainModel / first in a parcels map,
   one Surface for EVERY nvertices entry, NamedMaps, Parcels with their Vertices), parametric in
   the interning of map names / metadata / label tables / voxel tables (premises: every content
   has the id it was given) and in scale10 = value * 10 ** SeriesExponent on series values
   (premise: x * 10 ** 0 = x; to_mapping always writes exponent 0).  (1) the exact normalisation for Scalar and Label axes (S-C18c at
   the level of the axes): what comes back are the ids of the stripped names, rebuilt metadata
   and label tables. *)
Theorem C18_scalar_label_normalisation : forall name_str name_id meta_c meta_id label_c label_id vox_c vox_id scale10,
  (forall a, sc_wf a ->
     xrt name_str name_id meta_c meta_id label_c label_id vox_c vox_id scale10 (ASc a)
     = Ok (ASc (mkSc (map (nname name_str name_id) (sc_name a)) (map (nmeta meta_c meta_id) (sc_meta a)))))
  /\ (forall a, lab_wf a ->
     xrt name_str name_id meta_c meta_id label_c label_id vox_c vox_id scale10 (ALab a)
     = Ok (ALab (mkLab (map (nname name_str name_id) (lb_name a)) (map (nlabel label_c label_id) (lb_label a))
                       (map (nmeta meta_c meta_id) (lb_meta a))))).
Proof.
  exact (fun ns ni mc mi lc li vc vi sc => conj (join_scalar_norm ns ni mc mi lc li vc vi sc) (join_label_norm ns ni mc mi lc li vc vi sc)).
Qed.
Print Assumptions C18_scalar_label_normalisation.

(* (2) from_index_mapping (norm (to_mapping ax)) == ax for every good axis: well formed, texts
   clean (map names non-empty and strip-fixed, metadata / label tables strip-fixed with distinct
   keys, label names non-empty), structure names valid, 16 affine entries, parcel vertices only
   on structures of nvertices *)
Theorem C18_to_mapping_roundtrip : forall name_str name_id meta_c meta_id label_c label_id vox_c vox_id,
  (forall i, name_id (Some (name_str i)) = i) -> (forall i, meta_id (meta_c i) = i) ->
  (forall i, label_id (label_c i) = i) -> (forall i, vox_id (vox_c i) = i) ->
  forall scale10, (forall v, scale10 v 0 = v) ->
  forall bs_valid a, axis_good name_str meta_c label_c bs_valid a ->
  exists m a', xenc name_str meta_c label_c vox_c a = Ok m
    /\ xdec name_id meta_id label_id vox_id scale10 (norm_payload m) = Ok a' /\ axis_eqb a' a = true.
Proof. exact axis_good_roundtrip. Qed.
Print Assumptions C18_to_mapping_roundtrip.

(* (3) END TO END at the level of the axes, no XML premise: for every tuple of good axes,
   Cifti2Header.from_axes (equal axes share one map, by the == equivalence) -> to_xml -> expat
   events -> Cifti2Parser -> header -> get_axis(i) is an axis == axes[i].  Premises: the
   interning tables are consistent and the number-text oracles invert each other. *)
Theorem C18_axes_end_to_end : forall name_str name_id meta_c meta_id label_c label_id vox_c vox_id,
  (forall i, name_id (Some (name_str i)) = i) -> (forall i, meta_id (meta_c i) = i) ->
  (forall i, label_id (label_c i) = i) -> (forall i, vox_id (vox_c i) = i) ->
  forall scale10, (forall v, scale10 v 0 = v) ->
  forall bs_valid show_ints show_vox show_matrix loadtxt_ints loadtxt_floats,
  show_ints [] = [] ->
  (forall l, l <> [] -> show_ints l <> [] /\ loadtxt_ints (strip (show_ints l)) = Some l) ->
  (forall v, v <> [] -> show_vox v <> [] /\ exists l, loadtxt_ints (strip (show_vox v)) = Some l /\ triples l = Some v) ->
  (forall m, length m = 16%nat -> show_matrix m <> [] /\ loadtxt_floats (strip (show_matrix m)) = Some m) ->
  forall axes, Forall (axis_good name_str meta_c label_c bs_valid) axes ->
  exists mat ev, to_header axis_eqb (xenc name_str meta_c label_c vox_c) axes = Ok mat
    /\ write show_ints show_vox show_matrix (mat_header mat) = XOk ev
    /\ parse bs_valid loadtxt_ints loadtxt_floats ev = XOk (norm (mat_header mat))
    /\ forall i ax, nth_error axes i = Some ax ->
         exists a', get_axis (xdec name_id meta_id label_id vox_id scale10) (header_mat (norm (mat_header mat))) (Z.of_nat i) = Ok a'
                    /\ axis_eqb a' ax = true.
Proof. exact axes_end_to_end. Qed.
Print Assumptions C18_axes_end_to_end.

(* non-vacuity: an interleaved axis (cortex / thalamus / cortex / thalamus / cortex) is well
   formed; its maps, the decoded axis and a fancy index compute to the expected values *)
Example C18_nonvacuous :
  let vol := Some ([4;0;0;0; 0;4;0;0; 0;0;4;0; 0;0;0;4], (2, 2, 2)) in
  let a := mkBm [1; 2; 1; 2; 1] [no_ijk; (0,1,0); no_ijk; (0,1,1); no_ijk] [0; -1; 2; -1; 3] vol [(1, 4)] in
  bm_wf a
  /\ (exists m, bm_to_mapping a = Ok m /\ length (mp_models m) = 5%nat /\ bm_from_mapping m = Ok a)
  /\ (exists b, bm_getitem a (IList [-1; 1; 1]) = Ok b
        /\ bm_elements b = [(true, [3], 1); (false, [0;1;0], 2); (false, [0;1;0], 2)])
  /\ (exists b, bm_getitem a (ISlice (mkSl (Some 5) None None)) = Ok b /\ bm_wf b /\ bm_elements b = []
        /\ b_vol b = None /\ b_nv b = [])
  /\ (exists b, ser_getitem_slice (mkSer 0 1 5 1) (mkSl None None (Some 2)) = Ok b /\ ser_time b = [0; 2; 4]).
Proof.
  cbv zeta. split; [|split; [|split; [|split]]].
  - unfold bm_wf. cbn. repeat split; try reflexivity; try discriminate.
    + intros k [<-|[]]. now left.
    + constructor; [intros []|constructor].
  - eexists. split; [vm_compute; reflexivity|]. split; vm_compute; reflexivity.
  - eexists. split; vm_compute; reflexivity.
  - eexists. split; [vm_compute; reflexivity|]. split; [|repeat split].
    unfold bm_wf. cbn. repeat split; try reflexivity; try discriminate; [intros k []|constructor].
  - eexists. split; vm_compute; reflexivity.
Qed.
