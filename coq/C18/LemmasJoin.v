(* C18/LemmasJoin.v — from_index_mapping (norm (to_mapping axis)) for the five axis classes, and the
   end-to-end theorem axes -> header -> XML events -> parser -> header -> axes.  No axioms. *)
From Coq Require Import ZArith List Bool Lia.
From NV Require Import Base.PySlice C18.Model C18.Tables C18.ModelXml C18.ModelJoin C18.Lemmas C18.LemmasXml.
Import ListNotations.
Open Scope Z_scope.

Lemma map_fst_combine {A B C} (f : A -> C) (a : list A) (b : list B) : length a = length b ->
  map (fun p => f (fst p)) (combine a b) = map f a.
Proof. revert b. induction a as [|x a IH]; intros [|y b] H; cbn in *; try discriminate; [reflexivity|]. f_equal. apply IH. lia. Qed.
Lemma map_snd_combine {A B C} (f : B -> C) (a : list A) (b : list B) : length a = length b ->
  map (fun p => f (snd p)) (combine a b) = map f b.
Proof. revert b. induction a as [|x a IH]; intros [|y b] H; cbn in *; try discriminate; [reflexivity|]. f_equal. apply IH. lia. Qed.
Lemma map_id' {A} (f : A -> A) l : (forall x, In x l -> f x = x) -> map f l = l.
Proof. induction l as [|x l IH]; cbn; intros H; [reflexivity|]. rewrite H by now left. f_equal. apply IH. intros. apply H. now right. Qed.

Section JoinProofs.
  Variable name_str : Z -> str.
  Variable name_id : option str -> Z.
  Variable meta_c : Z -> xmeta.
  Variable meta_id : xmeta -> Z.
  Variable label_c : Z -> list xlabel.
  Variable label_id : list xlabel -> Z.
  Variable vox_c : Z -> list ijk.
  Variable vox_id : list ijk -> Z.
  Variable scale10 : Z -> Z -> Z.
  Hypothesis scale10_0 : forall v, scale10 v 0 = v.        (* x * 10 ** 0 = x *)
  (* interning by content: every content has the id it was given *)
  Hypothesis name_inv : forall i, name_id (Some (name_str i)) = i.
  Hypothesis meta_inv : forall i, meta_id (meta_c i) = i.
  Hypothesis label_inv : forall i, label_id (label_c i) = i.
  Hypothesis vox_inv : forall i, vox_id (vox_c i) = i.

  Notation xenc := (xenc name_str meta_c label_c vox_c).
  Notation xdec := (xdec name_id meta_id label_id vox_id scale10).

  (* from_index_mapping of what the reader makes of to_mapping's output *)
  Definition xrt (a : axis) : res axis :=
    match xenc a with Ok p => xdec (norm_payload p) | Err e => Err e end.

  (* what the XML does to an interned value *)
  Definition nname (n : Z) : Z := name_id (norm_name (Some (name_str n))).
  Definition nmeta (m : Z) : Z := meta_id (opt_default (norm_opt_meta (Some (meta_c m)))).
  Definition nlabel (l : Z) : Z := label_id (opt_default (norm_table (Some (label_c l)))).

  Definition name_ok (n : Z) : Prop := name_str n <> [] /\ fixed (name_str n).
  Definition meta_ok (m : Z) : Prop := meta_clean (meta_c m).
  Definition label_ok (l : Z) : Prop := table_clean (label_c l).

  Lemma nname_ok n : name_ok n -> nname n = n.
  Proof.
    intros [Hne Hf]. unfold nname. destruct (name_str n) as [|c r] eqn:E; [congruence|]. cbn [norm_name].
    unfold fixed in Hf. rewrite Hf, <- E. apply name_inv.
  Qed.
  Lemma nmeta_ok m : meta_ok m -> nmeta m = m.
  Proof.
    intros H. unfold nmeta. destruct (meta_c m) as [|p r] eqn:E; cbn [norm_opt_meta opt_default].
    - rewrite <- E. apply meta_inv.
    - unfold meta_ok in H. rewrite E in H. apply norm_meta_fixed_iff in H. rewrite H, <- E. apply meta_inv.
  Qed.
  Lemma nlabel_ok l : label_ok l -> nlabel l = l.
  Proof.
    intros H. unfold nlabel, label_ok in *. destruct (label_c l) as [|p r] eqn:E.
    - cbn [norm_table opt_default]. rewrite <- E. apply label_inv.
    - assert (Hn : norm_table (Some (p :: r)) = Some (p :: r)) by now apply norm_table_iff.
      rewrite Hn. cbn [opt_default]. rewrite <- E. apply label_inv.
  Qed.

  (* ---------------------------------------------------------- ScalarAxis, LabelAxis: the exact normalisation *)
  Lemma join_scalar_norm a : sc_wf a ->
    xrt (ASc a) = Ok (ASc (mkSc (map nname (sc_name a)) (map nmeta (sc_meta a)))).
  Proof.
    intros Hw. unfold sc_wf in Hw. destruct a as [ns ms]. cbn [sc_name sc_meta] in *.
    unfold xrt. cbn [ModelJoin.xenc sc_name sc_meta]. unfold norm_payload. cbn [ModelJoin.xdec].
    change (mt_scalars =? mt_brain_models) with false. change (mt_scalars =? mt_parcels) with false.
    change (mt_scalars =? mt_scalars) with true. cbn iota.
    assert (E : named_of (map norm_child (map (fun p => named_child name_str meta_c label_c false (fst p) (snd p) 0) (combine ns ms)))
                = map (fun p => mkNM (norm_name (Some (name_str (fst p)))) (norm_opt_meta (Some (meta_c (snd p)))) None) (combine ns ms)).
    { induction (combine ns ms) as [|p l IH]; [reflexivity|]. cbn [map]. unfold named_of in *. cbn [flat_map].
      rewrite IH. reflexivity. }
    rewrite E, !map_map. cbn [nm_name nm_meta].
    rewrite (map_fst_combine (fun n => name_id (norm_name (Some (name_str n)))) ns ms) by lia.
    rewrite (map_snd_combine (fun m => meta_id (opt_default (norm_opt_meta (Some (meta_c m))))) ns ms) by lia.
    rewrite sc_make_ok by (rewrite !map_length; exact Hw). reflexivity.
  Qed.

  Lemma join_label_norm a : lab_wf a ->
    xrt (ALab a)
    = Ok (ALab (mkLab (map nname (lb_name a)) (map nlabel (lb_label a)) (map nmeta (lb_meta a)))).
  Proof.
    intros [Hw1 Hw2]. destruct a as [ns ls ms]. cbn [lb_name lb_label lb_meta] in *.
    unfold xrt. cbn [ModelJoin.xenc lb_name lb_label lb_meta]. unfold norm_payload. cbn [ModelJoin.xdec].
    change (mt_labels =? mt_brain_models) with false. change (mt_labels =? mt_parcels) with false.
    change (mt_labels =? mt_scalars) with false. change (mt_labels =? mt_labels) with true. cbn iota.
    set (L := combine (combine ns ls) ms).
    assert (E : named_of (map norm_child (map (fun p => named_child name_str meta_c label_c true (fst (fst p)) (snd p) (snd (fst p))) L))
                = map (fun p => mkNM (norm_name (Some (name_str (fst (fst p))))) (norm_opt_meta (Some (meta_c (snd p))))
                                     (norm_table (Some (label_c (snd (fst p)))))) L).
    { induction L as [|p l IH]; [reflexivity|]. cbn [map]. unfold named_of in *. cbn [flat_map]. rewrite IH. reflexivity. }
    rewrite E, !map_map. cbn [nm_name nm_meta nm_table]. unfold L.
    assert (Hc : length (combine ns ls) = length ms) by (rewrite combine_length; lia).
    rewrite (map_snd_combine (fun m => meta_id (opt_default (norm_opt_meta (Some (meta_c m))))) (combine ns ls) ms Hc).
    rewrite (map_fst_combine (fun q => name_id (norm_name (Some (name_str (fst q))))) (combine ns ls) ms Hc).
    rewrite (map_fst_combine (fun q => label_id (opt_default (norm_table (Some (label_c (snd q)))))) (combine ns ls) ms Hc).
    rewrite (map_fst_combine (fun n => name_id (norm_name (Some (name_str n)))) ns ls) by lia.
    rewrite (map_snd_combine (fun l => label_id (opt_default (norm_table (Some (label_c l))))) ns ls) by lia.
    rewrite lab_make_ok by (rewrite !map_length; assumption). reflexivity.
  Qed.

  Definition sc_clean (a : scalar) : Prop := Forall name_ok (sc_name a) /\ Forall meta_ok (sc_meta a).
  Definition lab_clean (a : label) : Prop :=
    Forall name_ok (lb_name a) /\ Forall label_ok (lb_label a) /\ Forall meta_ok (lb_meta a).

  Lemma join_scalar a : sc_wf a -> sc_clean a -> xrt (ASc a) = Ok (ASc a).
  Proof.
    intros Hw [Hn Hm]. rewrite (join_scalar_norm a Hw). rewrite Forall_forall in Hn, Hm.
    rewrite (map_id' nname) by (intros; apply nname_ok; auto). rewrite (map_id' nmeta) by (intros; apply nmeta_ok; auto).
    now destruct a.
  Qed.
  Lemma join_label a : lab_wf a -> lab_clean a -> xrt (ALab a) = Ok (ALab a).
  Proof.
    intros Hw (Hn & Hl & Hm). rewrite (join_label_norm a Hw). rewrite Forall_forall in Hn, Hl, Hm.
    rewrite (map_id' nname) by (intros; apply nname_ok; auto). rewrite (map_id' nlabel) by (intros; apply nlabel_ok; auto).
    rewrite (map_id' nmeta) by (intros; apply nmeta_ok; auto). now destruct a.
  Qed.

  (* ---------------------------------------------------------- SeriesAxis *)
  Lemma join_series a : xrt (ASer a) = Ok (ASer a).
  Proof. destruct a. unfold xrt. cbn. now rewrite !scale10_0. Qed.

  (* ---------------------------------------------------------- ParcelsAxis *)
  Lemma dict_set_new d k v : ~ In k (keys d) -> dict_set d k v = d ++ [(k, v)].
  Proof.
    unfold keys. induction d as [|[k' v'] d IH]; cbn; intros H; [reflexivity|].
    destruct (k' =? k) eqn:E; [exfalso; apply H; left; lia|]. f_equal. apply IH. intros Hin. apply H. now right.
  Qed.
  Lemma dict_fold_id l : forall acc, NoDup (keys (acc ++ l)) ->
    fold_left (fun acc kv => dict_set acc (fst kv) (snd kv)) l acc = acc ++ l.
  Proof.
    induction l as [|[k v] l IH]; intros acc Hn; cbn [fold_left fst snd]; [now rewrite app_nil_r|].
    assert (Hnin : ~ In k (keys acc)).
    { unfold keys in *. rewrite map_app in Hn. cbn in Hn. apply NoDup_remove_2 in Hn. intros Hin. apply Hn. apply in_or_app. now left. }
    rewrite dict_set_new by exact Hnin. rewrite IH; [now rewrite <- app_assoc|]. now rewrite <- app_assoc.
  Qed.
  Lemma vdict_set_new d k v : ~ In k (map fst d) -> vdict_set d k v = d ++ [(k, v)].
  Proof.
    induction d as [|[k' v'] d IH]; cbn; intros H; [reflexivity|].
    destruct (k' =? k) eqn:E; [exfalso; apply H; left; lia|]. f_equal. apply IH. intros Hin. apply H. now right.
  Qed.
  Lemma vdict_fold_id l : forall acc, NoDup (map fst (acc ++ l)) ->
    fold_left (fun acc v => vdict_set acc (vs_bs v) (vs_idx v)) (vdict_vertices l) acc = acc ++ l.
  Proof.
    induction l as [|[k v] l IH]; intros acc Hn; cbn [vdict_vertices map fold_left fst snd vs_bs vs_idx]; [now rewrite app_nil_r|].
    assert (Hnin : ~ In k (map fst acc)).
    { rewrite map_app in Hn. cbn in Hn. apply NoDup_remove_2 in Hn. intros Hin. apply Hn. apply in_or_app. now left. }
    rewrite vdict_set_new by exact Hnin. fold (vdict_vertices l). rewrite IH; [now rewrite <- app_assoc|]. now rewrite <- app_assoc.
  Qed.
  Lemma vertices_vdict_id d : NoDup (map fst d) -> vertices_vdict (vdict_vertices d) = d.
  Proof. intros H. unfold vertices_vdict. now rewrite (vdict_fold_id d []). Qed.

  Definition surf_fold := fold_left (fun acc c => match c with CSurf bs n => dict_set acc bs n | _ => acc end).
  Lemma surf_fold_app l1 l2 acc : surf_fold (l1 ++ l2) acc = surf_fold l2 (surf_fold l1 acc).
  Proof. unfold surf_fold. apply fold_left_app. Qed.
  Lemma surf_fold_none l acc : Forall (fun c => match c with CSurf _ _ => False | _ => True end) l -> surf_fold l acc = acc.
  Proof. revert acc. induction l as [|c l IH]; intros acc F; [reflexivity|]. inversion F; subst. cbn. destruct c; try contradiction; now apply IH. Qed.
  Lemma surf_fold_surfs nv acc : NoDup (keys (acc ++ nv)) ->
    surf_fold (map (fun kv => CSurf (fst kv) (snd kv)) nv) acc = acc ++ nv.
  Proof.
    intros H. rewrite <- (dict_fold_id nv acc H). unfold surf_fold. generalize acc. clear H.
    induction nv as [|[k v] nv IH]; intros acc0; [reflexivity|]. cbn. apply IH.
  Qed.

  (* every structure a parcel has vertices on is a surface of the axis (else from_index_mapping raises) *)
  Definition par_struct_ok (a : parcels) : Prop :=
    Forall (fun d => Forall (fun kv => is_surf (pa_nv a) (fst kv) = true) d) (pa_vertices a).

  Lemma parcels_of_parcels (L : list (Z * Z * vdict)) :
    flat_map (fun c => match c with CParcel p => [p] | _ => [] end)
             (map (fun x => norm_child (parcel_child vox_c (fst (fst x)) (snd (fst x)) (snd x))) L)
    = map (fun p => mkPC (fst (fst p)) (norm_optlist (Some (vox_c (snd (fst p))))) (vdict_vertices (snd p))) L.
  Proof. induction L as [|q L IH]; [reflexivity|]. cbn [map flat_map]. rewrite IH. reflexivity. Qed.

  Lemma join_parcels a : par_wf' a -> par_struct_ok a -> xrt (APar a) = Ok (APar a).
  Proof.
    intros ([Hw1 Hw2] & Hnv & Hvd) Hs. destruct a as [ns xs vs vo nv]. cbn [pa_name pa_voxels pa_vertices pa_vol pa_nv] in *.
    unfold xrt. cbn [ModelJoin.xenc pa_name pa_voxels pa_vertices pa_vol pa_nv]. unfold norm_payload. cbn [ModelJoin.xdec].
    change (mt_parcels =? mt_brain_models) with false. change (mt_parcels =? mt_parcels) with true. cbn iota.
    set (V := match vo with Some v => [vol_child v] | None => [] end).
    set (S := map (fun kv => CSurf (fst kv) (snd kv)) nv).
    set (L := combine (combine ns xs) vs).
    set (P := map (fun p => parcel_child vox_c (fst (fst p)) (snd (fst p)) (snd p)) L).
    rewrite !map_app.
    assert (HV : map norm_child V = V) by (unfold V; destruct vo as [[aff [[i j] k]]|]; reflexivity).
    assert (HS : map norm_child S = S) by (unfold S; rewrite map_map; reflexivity).
    set (P' := map norm_child P). rewrite HV, HS.
    assert (HPn : Forall (fun c => match c with CSurf _ _ => False | _ => True end) P').
    { unfold P', P. rewrite map_map. apply Forall_forall. intros c Hc. apply in_map_iff in Hc as (q & <- & _). exact I. }
    assert (HVn : Forall (fun c => match c with CSurf _ _ => False | _ => True end) V).
    { unfold V. destruct vo as [[aff [[i j] k]]|]; repeat constructor. }
    (* volume *)
    assert (Hvol : vol_of (V ++ S ++ P') = Ok vo).
    { unfold vol_of, V. destruct vo as [[aff [[i j] k]]|]; [reflexivity|]. cbn [app].
      assert (E : first_vol (S ++ P') = None).
      { unfold S, P', P. rewrite map_map. generalize L. clear. induction nv as [|kv nv IH]; intros L; cbn.
        - induction L as [|q L IHL]; [reflexivity|exact IHL].
        - apply IH. }
      now rewrite E. }
    rewrite Hvol.
    (* nvertices *)
    assert (Hnv' : surfaces_nv (V ++ S ++ P') = nv).
    { change (surf_fold (V ++ S ++ P') [] = nv). rewrite !surf_fold_app.
      rewrite (surf_fold_none V [] HVn). unfold S. rewrite (surf_fold_surfs nv []) by exact Hnv. cbn [app].
      now apply surf_fold_none. }
    rewrite Hnv'.
    (* parcels *)
    assert (Hps : parcels_of (V ++ S ++ P')
                  = map (fun p => mkPC (fst (fst p)) (norm_optlist (Some (vox_c (snd (fst p))))) (vdict_vertices (snd p))) L).
    { unfold parcels_of. rewrite !flat_map_app.
      assert (E1 : flat_map (fun c => match c with CParcel p => [p] | _ => [] end) V = []) by (unfold V; destruct vo as [[aff [[i j] k]]|]; reflexivity).
      assert (E2 : flat_map (fun c => match c with CParcel p => [p] | _ => [] end) S = []) by (unfold S; clear; induction nv as [|kv nv IH]; [reflexivity|exact IH]).
      rewrite E1, E2. cbn [app]. unfold P', P. rewrite map_map. apply parcels_of_parcels. }
    rewrite Hps.
    assert (Hc : length (combine ns xs) = length vs) by (rewrite combine_length; lia).
    assert (Hchk : existsb (fun p => existsb (fun v => negb (is_surf nv (vs_bs v))) (pc_verts p))
                     (map (fun p => mkPC (fst (fst p)) (norm_optlist (Some (vox_c (snd (fst p))))) (vdict_vertices (snd p))) L) = false).
    { apply existsb_false_iff. intros p Hp. apply in_map_iff in Hp as (q & <- & Hq). cbn [pc_verts].
      apply existsb_false_iff. intros v Hv. unfold vdict_vertices in Hv. apply in_map_iff in Hv as (kv & <- & Hkv). cbn [vs_bs].
      unfold L in Hq. destruct q as [q1 q2]. apply in_combine_r in Hq. cbn [snd] in Hkv. unfold par_struct_ok in Hs. rewrite Forall_forall in Hs.
      cbn [pa_vertices pa_nv] in Hs. specialize (Hs _ Hq). rewrite Forall_forall in Hs. now rewrite (Hs _ Hkv). }
    rewrite Hchk. rewrite !map_map. cbn [pc_name pc_vox pc_verts].
    unfold L.
    rewrite (map_fst_combine (fun q => fst q) (combine ns xs) vs Hc), (map_fst_combine (fun n => n) ns xs), map_id by lia.
    rewrite (map_fst_combine (fun q => vox_id (opt_default (norm_optlist (Some (vox_c (snd q)))))) (combine ns xs) vs Hc).
    rewrite (map_snd_combine (fun x => vox_id (opt_default (norm_optlist (Some (vox_c x))))) ns xs) by lia.
    rewrite (map_snd_combine (fun d => vertices_vdict (vdict_vertices d)) (combine ns xs) vs Hc).
    rewrite (map_id' (fun x => vox_id (opt_default (norm_optlist (Some (vox_c x)))))).
    2:{ intros x _. destruct (vox_c x) as [|y r] eqn:E; cbn [norm_optlist opt_default]; rewrite <- E; apply vox_inv. }
    rewrite (map_id' (fun d => vertices_vdict (vdict_vertices d))).
    2:{ intros d Hd. apply vertices_vdict_id. rewrite Forall_forall in Hvd. now apply Hvd. }
    rewrite par_make_ok by assumption. reflexivity.
  Qed.

  (* ---------------------------------------------------------- BrainModelAxis *)
  Definition model_shape (m : brainmodel) : Prop := if m_surf m then m_vox m = [] else m_vtx m = [].

  Lemma child_model_bm m : model_shape m -> child_model (norm_child (bm_child m)) = Some (Some m).
  Proof.
    unfold model_shape, bm_child. destruct m as [o n sf nm nv vx vt]. cbn [m_off m_cnt m_surf m_name m_nvert m_vox m_vtx].
    destruct sf; intros ->; cbn [norm_child child_model bx_off bx_cnt bx_type bx_bs bx_nvert bx_vox bx_vtx norm_optlist].
    - destruct vt; reflexivity.
    - destruct vx; reflexivity.
  Qed.
  Lemma child_model_vol vv : child_model (norm_child (vol_child vv)) = None.
  Proof. destruct vv as [aff [[i j] k]]. reflexivity. Qed.

  Lemma models_of_children v : forall ms seen, Forall model_shape ms ->
    models_of (map norm_child (bm_children seen v ms)) = Some ms.
  Proof.
    induction ms as [|m ms IH]; intros seen F; [reflexivity|]. inversion F as [|? ? Hm F']; subst.
    cbn [bm_children]. destruct (m_surf m) eqn:Es.
    - cbn [map models_of]. rewrite (child_model_bm m Hm), (IH _ F'). reflexivity.
    - destruct seen; [|destruct v as [vv|]]; cbn [map models_of]; rewrite ?child_model_vol, (child_model_bm m Hm), (IH _ F'); reflexivity.
  Qed.

  Lemma first_vol_children vv : forall ms, existsb (fun m => negb (m_surf m)) ms = true ->
    exists xv, first_vol (map norm_child (bm_children false (Some vv) ms)) = Some xv /\ child_vol (CVol xv) = Some vv.
  Proof.
    induction ms as [|m ms IH]; cbn [existsb]; [discriminate|]. intros H. cbn [bm_children].
    destruct (m_surf m) eqn:Es; cbn [negb orb] in H.
    - cbn [map]. unfold bm_child at 1. cbn [norm_child first_vol]. now apply IH.
    - destruct vv as [aff [[i j] k]]. cbn. eexists. split; reflexivity.
  Qed.
  Lemma first_vol_none : forall ms seen, first_vol (map norm_child (bm_children seen None ms)) = None.
  Proof.
    induction ms as [|m ms IH]; intros seen; [reflexivity|]. cbn [bm_children].
    destruct (m_surf m); [|destruct seen]; cbn [map]; unfold bm_child at 1; cbn [norm_child first_vol]; apply IH.
  Qed.
  Lemma first_vol_surfaces vv : forall ms seen, existsb (fun m => negb (m_surf m)) ms = false ->
    first_vol (map norm_child (bm_children seen (Some vv) ms)) = None.
  Proof.
    induction ms as [|m ms IH]; intros seen; cbn [existsb]; [reflexivity|]. intros H. cbn [bm_children].
    destruct (m_surf m) eqn:Es; cbn [negb orb] in H; [|discriminate].
    cbn [map]. unfold bm_child at 1. cbn [norm_child first_vol]. now apply IH.
  Qed.

  Lemma join_bm a : bm_wf a -> b_name a <> [] ->
    exists a', xrt (ABm a) = Ok (ABm a') /\ bm_wf a' /\ b_name a' <> [] /\ bm_eqb a' a = true.
  Proof.
    intros Hw Hne. destruct (bm_to_mapping_spec a Hw Hne) as (R & _ & _ & Hm).
    destruct (bm_rle_roundtrip a Hw Hne) as (mp & a' & Hm' & Hfrom & Hwf' & Heq & _ & _ & Hname & _).
    rewrite Hm in Hm'. injection Hm' as <-.
    exists a'. split; [|split; [exact Hwf'|split; [now rewrite Hname|exact Heq]]].
    unfold xrt. cbn [ModelJoin.xenc]. rewrite Hm. cbn [mp_models mp_vol]. unfold norm_payload. cbn [ModelJoin.xdec].
    change (mt_brain_models =? mt_brain_models) with true. cbn iota.
    set (ms := map (model_of a) R) in *.
    assert (Hshape : Forall model_shape ms).
    { unfold ms. apply Forall_forall. intros m Hin. apply in_map_iff in Hin as ([[nm s] e] & <- & _).
      unfold model_shape, model_of. cbn [m_surf m_vox m_vtx]. destruct (is_surf (b_nv a) nm); reflexivity. }
    rewrite (models_of_children _ ms false Hshape).
    assert (Hvol : vol_of (map norm_child (bm_children false (if existsb (fun m => negb (m_surf m)) ms then b_vol a else None) ms))
                   = Ok (if existsb (fun m => negb (m_surf m)) ms then b_vol a else None)).
    { unfold vol_of. destruct (existsb (fun m => negb (m_surf m)) ms) eqn:Ex.
      - destruct (b_vol a) as [vv|].
        + destruct (first_vol_children vv ms Ex) as (xv & H1 & H2). now rewrite H1, H2.
        + now rewrite first_vol_none.
      - now rewrite first_vol_none. }
    rewrite Hvol, Hfrom. reflexivity.
  Qed.
End JoinProofs.

(* ================================================================== end to end *)
Lemma chain_In names : forall R off, 0 <= off -> chain names off R -> Forall (fun r => In (fst (fst r)) names) R.
Proof.
  induction R as [|[[nm s] e] R IH]; intros off Hoff Hc; [constructor|].
  cbn [chain] in Hc. destruct Hc as (-> & Hconst & Hrest). constructor.
  - cbn [fst]. assert (Hlt : off < zlen names /\ off < stop_of e (zlen names)).
    { destruct e as [e'|]; cbn [stop_of]; [destruct Hrest as [? _]|destruct Hrest as [_ ?]]; lia. }
    rewrite <- (Hconst off ltac:(lia)). apply nth_In. unfold zlen in Hlt. lia.
  - destruct e as [e'|]; [destruct Hrest as [? Hr]; apply (IH e'); [lia|exact Hr]|destruct Hrest as [-> _]; constructor].
Qed.

Lemma dims_ok_unique : forall l pre,
  (forall k k' m m' z, nth_error (pre ++ l) k = Some m -> nth_error (pre ++ l) k' = Some m' ->
                       In z (xm_dims m) -> In z (xm_dims m') -> k = k') ->
  dims_ok (mapped pre) l = true.
Proof.
  induction l as [|m r IH]; intros pre Hu; [reflexivity|]. cbn [dims_ok]. apply andb_true_iff. split.
  - apply negb_true_iff. apply existsb_false_iff. intros d Hd. apply existsb_false_iff. intros y Hy.
    destruct (d =? y) eqn:E; [|reflexivity]. apply Z.eqb_eq in E. subst y. exfalso.
    unfold mapped in Hy. apply in_flat_map in Hy as (m0 & Hm0 & Hd0). apply In_nth_error in Hm0 as (k0 & Hk0).
    assert (Hlt : (k0 < length pre)%nat) by (apply nth_error_Some; congruence).
    assert (k0 = length pre); [|lia].
    apply (Hu k0 (length pre) m0 m d); [rewrite nth_error_app1 by exact Hlt; exact Hk0| |exact Hd0|exact Hd].
    rewrite nth_error_app2, Nat.sub_diag by lia. reflexivity.
  - replace (mapped pre ++ xm_dims m) with (mapped (pre ++ [m])) by (unfold mapped; rewrite flat_map_app; cbn; now rewrite app_nil_r).
    apply IH. intros k k' m1 m2 z. rewrite <- app_assoc. apply Hu.
Qed.

Lemma nth_error_map_inv {A B} (f : A -> B) l : forall k y, nth_error (map f l) k = Some y ->
  exists x, nth_error l k = Some x /\ y = f x.
Proof.
  induction l as [|a l IH]; intros [|k] y; cbn; try discriminate.
  - intros [= <-]. eauto.
  - apply IH.
Qed.

Section EndToEnd.
  Variable name_str : Z -> str.
  Variable name_id : option str -> Z.
  Variable meta_c : Z -> xmeta.
  Variable meta_id : xmeta -> Z.
  Variable label_c : Z -> list xlabel.
  Variable label_id : list xlabel -> Z.
  Variable vox_c : Z -> list ijk.
  Variable vox_id : list ijk -> Z.
  Hypothesis name_inv : forall i, name_id (Some (name_str i)) = i.
  Hypothesis meta_inv : forall i, meta_id (meta_c i) = i.
  Hypothesis label_inv : forall i, label_id (label_c i) = i.
  Hypothesis vox_inv : forall i, vox_id (vox_c i) = i.
  Variable scale10 : Z -> Z -> Z.
  Hypothesis scale10_0 : forall v, scale10 v 0 = v.
  Variable bs_valid : Z -> bool.
  Variable show_ints : list Z -> str.
  Variable show_vox : list ijk -> str.
  Variable show_matrix : list Z -> str.
  Variable loadtxt_ints : str -> option (list Z).
  Variable loadtxt_floats : str -> option (list Z).
  Hypothesis ints_nil : show_ints [] = [].
  Hypothesis ints_inv : forall l, l <> [] -> show_ints l <> [] /\ loadtxt_ints (strip (show_ints l)) = Some l.
  Hypothesis voxt_inv : forall v, v <> [] ->
    show_vox v <> [] /\ exists l, loadtxt_ints (strip (show_vox v)) = Some l /\ triples l = Some v.
  Hypothesis matrix_inv : forall m, length m = 16%nat ->
    show_matrix m <> [] /\ loadtxt_floats (strip (show_matrix m)) = Some m.

  Notation xenc := (xenc name_str meta_c label_c vox_c).
  Notation xdec := (xdec name_id meta_id label_id vox_id scale10).
  Notation child_events := (child_events show_ints show_vox show_matrix).
  Notation children_events := (children_events show_ints show_vox show_matrix).
  Notation mim_events := (mim_events show_ints show_vox show_matrix).
  Notation mims_events := (mims_events show_ints show_vox show_matrix).

  Definition vol16 (v : option vol) : Prop := forall aff sh, v = Some (aff, sh) -> length aff = 16%nat.

  (* a well-formed axis whose texts are clean and whose structure names are CIFTI structures *)
  Definition axis_good (a : axis) : Prop :=
    axis_wf a /\
    match a with
    | ABm x => Forall (fun n => bs_valid n = true) (b_name x) /\ vol16 (b_vol x)
    | APar x => par_struct_ok x /\ Forall (fun d => Forall (fun kv => bs_valid (fst kv) = true) d) (pa_vertices x)
                /\ vol16 (pa_vol x)
    | ASc x => sc_clean name_str meta_c x
    | ALab x => lab_clean name_str meta_c label_c x
                /\ Forall (fun l => Forall (fun t => xl_text t <> []) (label_c l)) (lb_label x)
    | ASer _ => True
    end.

  Definition child_fine (ty : Z) (c : xchild) : Prop := (exists e, child_events c = XOk e) /\ child_ok bs_valid ty c.

  Lemma children_fine ty ch : Forall (child_fine ty) ch ->
    (exists ce, children_events ch = XOk ce) /\ Forall (child_ok bs_valid ty) ch.
  Proof.
    induction 1 as [|c ch [[e He] Hok] F [[ce Hce] IH]]; [split; [now exists []|constructor]|].
    split; [|now constructor]. cbn [ModelXml.children_events]. rewrite He, Hce. cbn. eauto.
  Qed.

  Lemma labels_events_ok l : Forall (fun t => xl_text t <> []) l -> exists e, labels_events l = XOk e.
  Proof.
    induction 1 as [|x l Hx F [e He]]; [now exists []|]. cbn [labels_events]. unfold label_events.
    destruct (xl_text x) eqn:E; [congruence|]. cbn. rewrite He. cbn. eauto.
  Qed.

  Lemma vol_child_fine ty vv : (forall aff sh, vv = (aff, sh) -> length aff = 16%nat) -> child_fine ty (vol_child vv).
  Proof.
    destruct vv as [aff [[i j] k]]. intros H. split; [cbn; eauto|]. cbn. intros e mtx [= _ <-]. now apply (H aff (i, j, k)).
  Qed.

  Lemma vols_ok_bm_children v : forall ms seen, vols_ok seen (bm_children seen v ms) = true.
  Proof.
    induction ms as [|m ms IH]; intros seen; [reflexivity|]. cbn [bm_children].
    destruct (m_surf m); [exact (IH seen)|]. destruct seen; [exact (IH true)|]. destruct v as [[aff [[i j] k]]|]; [|exact (IH false)].
    cbn. exact (IH true).
  Qed.
  Lemma bm_children_forall (Q : xchild -> Prop) v : forall ms seen, Forall (fun m => Q (bm_child m)) ms ->
    (forall vv, v = Some vv -> Q (vol_child vv)) -> Forall Q (bm_children seen v ms).
  Proof.
    induction ms as [|m ms IH]; intros seen F Hv; [constructor|]. inversion F; subst. cbn [bm_children].
    destruct (m_surf m); [constructor; auto|]. destruct seen; [constructor; auto|]. destruct v as [vv|]; repeat constructor; auto.
  Qed.

  (* what to_mapping builds can be written, and passes every check of the parser *)
  Lemma xenc_fine a ty ser ch : axis_good a -> xenc a = Ok (ty, ser, ch) ->
    Forall (child_fine ty) ch /\ vols_ok false ch = true.
  Proof.
    intros [Hw Hg] He. destruct a as [x|x|x|x|x]; cbn [ModelJoin.xenc] in He.
    - destruct Hw as [Hw Hne]. destruct Hg as [Hbs Hv16].
      destruct (bm_to_mapping_spec x Hw Hne) as (R & Hc & _ & Hm). rewrite Hm in He. cbn [mp_models mp_vol] in He.
      injection He as <- <- <-. split; [|apply vols_ok_bm_children].
      apply bm_children_forall.
      + apply Forall_forall. intros m Hin. apply in_map_iff in Hin as ([[nm s] e] & <- & Hr).
        pose proof (chain_In (b_name x) R 0 ltac:(lia) Hc) as Hin. rewrite Forall_forall in Hin. specialize (Hin _ Hr). cbn [fst] in Hin.
        rewrite Forall_forall in Hbs. specialize (Hbs _ Hin).
        split; [cbn; eauto|]. unfold model_of, bm_child. cbn [m_off m_cnt m_surf m_name m_nvert m_vox m_vtx child_ok bx_bs bx_type opt_in].
        split; [reflexivity|]. split; [exact Hbs|]. destruct (is_surf (b_nv x) nm); reflexivity.
      + intros vv Hvv. apply vol_child_fine. intros aff sh ->. destruct (existsb _ _); [|discriminate]. now apply (Hv16 aff sh).
    - destruct Hg as (Hs & Hbs & Hv16). injection He as <- <- <-. split.
      + apply Forall_app. split; [|apply Forall_app; split].
        * destruct (pa_vol x) as [vv|]; [|constructor]. constructor; [|constructor]. apply vol_child_fine. intros aff sh ->. now apply (Hv16 aff sh).
        * apply Forall_forall. intros c Hc. apply in_map_iff in Hc as (kv & <- & _). split; [cbn; eauto|reflexivity].
        * apply Forall_forall. intros c Hc. apply in_map_iff in Hc as ([[n v] d] & <- & Hin). split; [cbn; eauto|].
          cbn [fst snd parcel_child child_ok pc_verts]. apply in_combine_r in Hin. rewrite Forall_forall in Hbs. specialize (Hbs _ Hin).
          unfold vdict_vertices. apply Forall_forall. intros vs Hvs. apply in_map_iff in Hvs as (kv & <- & Hkv). cbn [vs_bs].
          rewrite Forall_forall in Hbs. now apply Hbs.
      + destruct (pa_vol x) as [[aff [[i j] k]]|]; cbn [app vol_child vols_ok negb andb].
        * generalize (combine (combine (pa_name x) (pa_voxels x)) (pa_vertices x)). intros L.
          induction (pa_nv x) as [|kv nv IH]; cbn [map app vols_ok]; [induction L as [|q L IHL]; [reflexivity|exact IHL]|exact IH].
        * generalize (combine (combine (pa_name x) (pa_voxels x)) (pa_vertices x)). intros L.
          induction (pa_nv x) as [|kv nv IH]; cbn [map app vols_ok]; [induction L as [|q L IHL]; [reflexivity|exact IHL]|exact IH].
    - injection He as <- <- <-. split.
      + apply Forall_forall. intros c Hc. apply in_map_iff in Hc as (q & <- & _). split; [cbn; eauto|]. cbn. discriminate.
      + induction (combine (sc_name x) (sc_meta x)) as [|q L IHL]; [reflexivity|exact IHL].
    - destruct Hg as [_ Htxt]. injection He as <- <- <-. split.
      + apply Forall_forall. intros c Hc. apply in_map_iff in Hc as ([[n l] m] & <- & Hin). cbn [fst snd].
        apply in_combine_l in Hin. apply in_combine_r in Hin. rewrite Forall_forall in Htxt. specialize (Htxt _ Hin).
        split; [|cbn; reflexivity]. unfold named_child. cbn [ModelXml.child_events]. unfold named_events. cbn [nm_table nm_meta nm_name].
        unfold opt_table_events. destruct (label_c l) as [|t r] eqn:El; [cbn; eauto|].
        destruct (labels_events_ok (t :: r) Htxt) as [e He]. rewrite He. cbn. eauto.
      + induction (combine (combine (lb_name x) (lb_label x)) (lb_meta x)) as [|q L IHL]; [reflexivity|exact IHL].
    - injection He as <- <- <-. split; [constructor|reflexivity].
  Qed.

  Lemma axis_good_roundtrip a : axis_good a ->
    exists m a', xenc a = Ok m /\ xdec (norm_payload m) = Ok a' /\ axis_eqb a' a = true.
  Proof.
    intros [Hw Hg]. destruct a as [x|x|x|x|x].
    - destruct Hw as [Hw Hne]. destruct (join_bm name_str name_id meta_c meta_id label_c label_id vox_c vox_id scale10 x Hw Hne) as (a' & Hrt & _ & _ & Heq).
      unfold xrt in Hrt. destruct (xenc (ABm x)) as [m|] eqn:E; [|discriminate]. exists m, (ABm a'). auto.
    - destruct Hg as (Hs & _). pose proof (join_parcels name_str name_id meta_c meta_id label_c label_id vox_c vox_id scale10 vox_inv x Hw Hs) as Hrt.
      unfold xrt in Hrt. destruct (xenc (APar x)) as [m|] eqn:E; [|discriminate]. exists m, (APar x). split; [reflexivity|]. split; [exact Hrt|].
      now apply (axis_eqb_refl (APar x)).
    - pose proof (join_scalar name_str name_id meta_c meta_id label_c label_id vox_c vox_id scale10 name_inv meta_inv x Hw Hg) as Hrt.
      unfold xrt in Hrt. destruct (xenc (ASc x)) as [m|] eqn:E; [|discriminate]. exists m, (ASc x). split; [reflexivity|]. split; [exact Hrt|].
      now apply (axis_eqb_refl (ASc x)).
    - destruct Hg as [Hg _]. pose proof (join_label name_str name_id meta_c meta_id label_c label_id vox_c vox_id scale10 name_inv meta_inv label_inv x Hw Hg) as Hrt.
      unfold xrt in Hrt. destruct (xenc (ALab x)) as [m|] eqn:E; [|discriminate]. exists m, (ALab x). split; [reflexivity|]. split; [exact Hrt|].
      now apply (axis_eqb_refl (ALab x)).
    - exists (mt_series, mkXS (Some (se_size x)) (Some 0) (Some (se_start x)) (Some (se_step x)) (Some (se_unit x)), []), (ASer x).
      split; [reflexivity|]. split; [destruct x; cbn; now rewrite !scale10_0|]. now apply (axis_eqb_refl (ASer x)).
  Qed.

  Lemma mims_events_ok l : Forall (fun m => exists e, mim_events m = XOk e) l -> exists e, mims_events l = XOk e.
  Proof.
    induction 1 as [|m l [e He] F [er Her]]; [now exists []|]. cbn [ModelXml.mims_events]. rewrite He, Her. cbn. eauto.
  Qed.

  Definition entry_mim (e : list Z * xpayload) : xmim :=
    mkXM (fst e) (fst (fst (snd e))) (snd (fst (snd e))) (snd (snd e)).

  (* THE end-to-end theorem: axes -> Cifti2Header.from_axes (equal axes share a map) -> to_xml ->
     expat events -> Cifti2Parser -> header -> get_axis(i) == axes[i] *)
  Lemma axes_end_to_end axes : Forall axis_good axes ->
    exists mat ev, to_header axis_eqb xenc axes = Ok mat
      /\ write show_ints show_vox show_matrix (mat_header mat) = XOk ev
      /\ parse bs_valid loadtxt_ints loadtxt_floats ev = XOk (norm (mat_header mat))
      /\ forall i ax, nth_error axes i = Some ax ->
           exists a', get_axis xdec (header_mat (norm (mat_header mat))) (Z.of_nat i) = Ok a' /\ axis_eqb a' ax = true.
  Proof.
    intros Hg.
    assert (Hrefl : forall a, axis_good a -> axis_eqb a a = true) by (intros a [Hw _]; now apply axis_eqb_refl).
    destruct (header_get_axis axis_eqb xenc (fun m => xdec (norm_payload m)) axis_good Hrefl axis_eqb_trans axis_good_roundtrip axes Hg)
      as (mat & Hmat & Hax).
    destruct (header_structure axis_eqb xenc (fun m => xdec (norm_payload m)) axis_good Hrefl axis_eqb_trans axis_good_roundtrip axes mat Hg Hmat)
      as (Hpay & Huniq).
    (* every map is fine *)
    assert (Hfine : Forall (fun e => Forall (child_fine (fst (fst (snd e)))) (snd (snd e)) /\ vols_ok false (snd (snd e)) = true) mat).
    { apply Forall_forall. intros [ds [[ty ser] ch]] He. destruct (Hpay _ He) as (y & Hy & Hey). cbn [snd fst] in *.
      rewrite Forall_forall in Hg. exact (xenc_fine y ty ser ch (Hg y Hy) Hey). }
    assert (Hev : Forall (fun m => exists e, mim_events m = XOk e) (map entry_mim mat)
                  /\ Forall (mim_ok bs_valid) (map entry_mim mat)).
    { split; apply Forall_forall; intros m Hm; apply in_map_iff in Hm as (e & <- & He);
        rewrite Forall_forall in Hfine; destruct (Hfine e He) as [Hf Hv]; destruct (children_fine _ _ Hf) as [[ce Hce] Hok].
      - unfold ModelXml.mim_events, entry_mim. cbn [xm_children xm_dims xm_type xm_series]. unfold xpayload in *. rewrite Hce. cbn. eauto.
      - split; assumption. }
    destruct Hev as [Hev Hok]. destruct (mims_events_ok _ Hev) as [me Hme].
    exists mat. eexists. split; [exact Hmat|].
    assert (Hw : write show_ints show_vox show_matrix (mat_header mat)
                 = XOk ([Start TCifti (ACifti 20); Start TMatrix ANone] ++ [] ++ me ++ [End TMatrix; End TCifti])).
    { unfold ModelXml.write, mat_header. cbn [xh_mims xh_version xh_meta]. fold entry_mim.
      change (map (fun e => mkXM (fst e) (fst (fst (snd e))) (snd (fst (snd e))) (snd (snd e))) mat) with (map entry_mim mat).
      rewrite Hme. reflexivity. }
    split; [exact Hw|].
    assert (Hhok : header_ok bs_valid (mat_header mat)).
    { unfold header_ok, mat_header. cbn [xh_version xh_mims]. split; [lia|]. split; [exact Hok|].
      change (@nil Z) with (mapped []). apply dims_ok_unique. cbn [app]. intros k k' m m' z Hk Hk' Hz Hz'.
      apply nth_error_map_inv in Hk as (e & Ek & ->). apply nth_error_map_inv in Hk' as (e' & Ek' & ->).
      exact (Huniq k k' e e' z Ek Ek' Hz Hz'). }
    split.
    { exact (parse_write bs_valid show_ints show_vox show_matrix loadtxt_ints loadtxt_floats ints_nil ints_inv voxt_inv matrix_inv _ _ Hw Hhok). }
    intros i ax Hi. destruct (Hax i ax Hi) as (a' & Ha & Heq). exists a'. split; [|exact Heq].
    assert (E : header_mat (norm (mat_header mat)) = map (fun e => (fst e, norm_payload (snd e))) mat).
    { unfold header_mat, norm, mat_header. cbn [xh_mims]. rewrite !map_map. apply map_ext. intros [ds [[ty ser] ch]]. reflexivity. }
    rewrite E, get_axis_map. exact Ha.
  Qed.
End EndToEnd.
