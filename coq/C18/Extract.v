(* C18/Extract.v — extraction of the executable model (ExtrOcamlBasic only; Z stays inductive) *)
Require Extraction. Require ExtrOcamlBasic.
From NV Require Import Base.PySlice C18.Model C18.ModelXml C18.ModelJoin.
Extraction Language OCaml.
Extraction "c18_model.ml" py_indices resolve select ser_time ser_getitem ser_add ser_eqb
  sc_getitem sc_add sc_elements lab_getitem lab_add lab_elements par_getitem par_add par_elements
  bm_make bm_getitem bm_get_element bm_add bm_elements bm_eqb bm_runs bm_iter_structures
  bm_to_mapping bm_from_mapping axis_eqb axis_len axis_enc axis_dec to_header get_axis
  img_save img_load set_cifti_ext first_cifti_ext write parse norm strip xenc xdec norm_payload.
