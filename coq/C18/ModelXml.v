(* C18/ModelXml.v — the XML layer of the CIFTI-2 header.
   Counterparts in /repo/nibabel:
     cifti2/cifti2.py   Cifti2Header/Cifti2Matrix/Cifti2MatrixIndicesMap/Cifti2NamedMap/
                        Cifti2LabelTable/Cifti2Label/Cifti2Surface/Cifti2Parcel/Cifti2Vertices/
                        Cifti2VoxelIndicesIJK/Cifti2Volume/Cifti2TransformationMatrix.../
                        Cifti2BrainModel/Cifti2VertexIndices._to_xml_element, caret.py
                        CaretMetaData._to_xml_element             -> *_events, write
     cifti2/parse_cifti2.py  Cifti2Parser.StartElementHandler / EndElementHandler /
                        CharacterDataHandler / flush_chardata     -> start_h / end_h / Chars / flush_chardata
     xmlutils.py XmlParser.parse (expat driving the handlers)      -> run over an event list
   expat is represented by the event list it delivers: Start tag attrs | Chars chunk | End tag,
   attribute values already decoded the way the handler decodes them (int(), float(),
   split(',')); attribute strings that are only stored (Parcel Name, BrainStructure,
   SeriesUnit, map type, model type) and float values are opaque integers (ids); character
   data are lists of code points.  ElementTree writes an element without text as <Tag />: no
   character-data event.  The parser's struct_state stack of aliased objects is a stack of
   frames; a child is attached to its parent when its element ends (the code attaches at the
   start tag and keeps mutating the alias: same result on the well-nested streams expat
   delivers).  str(int)/' '.join, '%.10f' and np.loadtxt are Section variables (oracles).
   Definitions only. *)
From Coq Require Import ZArith List Bool.
From NV Require Import C18.Model C18.Tables.
Import ListNotations.
Open Scope Z_scope.

Definition str := list Z.

(* ------------------------------------------------------------ str.strip() *)
Definition is_space (c : Z) : bool := existsb (Z.eqb c) space_table.
Fixpoint lstrip (l : str) : str :=
  match l with
  | [] => []
  | c :: r => if is_space c then lstrip r else l
  end.
Definition rstrip (l : str) : str := rev (lstrip (rev l)).
Definition strip (l : str) : str := rstrip (lstrip l).

Fixpoint str_eqb (a b : str) : bool :=
  match a, b with
  | [], [] => true
  | x :: a', y :: b' => (x =? y) && str_eqb a' b'
  | _, _ => false
  end.

(* ------------------------------------------------------------ header structure *)
Definition xmeta := list (str * str).
Record xlabel := mkXL { xl_key : Z; xl_rgba : list Z; xl_text : str }.
Record xnamedmap := mkNM { nm_name : option str; nm_meta : option xmeta; nm_table : option (list xlabel) }.
Record xvertices := mkVS { vs_bs : Z; vs_idx : list Z }.
Record xparcel := mkPC { pc_name : Z; pc_vox : option (list ijk); pc_verts : list xvertices }.
Record xvolume := mkVL { vl_dims : list Z; vl_transform : option (Z * option (list Z)) }.
Record xbm := mkXB { bx_off : option Z; bx_cnt : option Z; bx_type : option Z; bx_bs : option Z;
                     bx_nvert : option Z; bx_vox : option (list ijk); bx_vtx : option (list Z) }.
Inductive xchild := CNamed (m : xnamedmap) | CSurf (bs n : Z) | CParcel (p : xparcel)
                  | CVol (v : xvolume) | CBm (b : xbm).
(* series: NumberOfSeriesPoints, SeriesExponent, SeriesStart, SeriesStep, SeriesUnit *)
Record xseries := mkXS { xs_n : option Z; xs_exp : option Z; xs_start : option Z; xs_step : option Z;
                         xs_unit : option Z }.
Record xmim := mkXM { xm_dims : list Z; xm_type : Z; xm_series : xseries; xm_children : list xchild }.
Record xheader := mkXH { xh_version : Z; xh_meta : option xmeta; xh_mims : list xmim }.

(* ------------------------------------------------------------ events *)
Inductive tag := TCifti | TMatrix | TMetaData | TMD | TName | TValue | TMim | TNamedMap | TLabelTable
               | TLabel | TMapName | TSurface | TParcel | TVertices | TVoxelIJK | TVolume | TTransform
               | TBrainModel | TVertexIndices | TOther.
Inductive attrs :=
  | ANone
  | ACifti (version10 : Z)                       (* Version * 10 *)
  | AMim (dims : list Z) (mtype : Z) (s : xseries)
  | ALabel (key : Z) (rgba : list Z)
  | ASurface (bs n : Z)
  | AParcel (name : Z)
  | AVertices (bs : Z)
  | AVolume (dims : list Z)
  | ATransform (exponent : Z)
  | ABrainModel (off cnt mtype bs nvert : option Z).
Inductive event := Start (t : tag) (a : attrs) | Chars (c : str) | End (t : tag).

Inductive xerr :=
  | XHeader       (* Cifti2HeaderError *)
  | XState        (* IndexError / AttributeError / TypeError: handler used out of context *)
  | XData         (* np.loadtxt / reshape failed *)
  | XVersion      (* ValueError: only CIFTI-2 *)
  | XKey          (* KeyError: required attribute missing *)
  | XWriter.      (* Cifti2HeaderError raised by _to_xml_element *)
Inductive xres (A : Type) := XOk (a : A) | XErr (e : xerr).
Arguments XOk {A}. Arguments XErr {A}.
Definition xbind {A B} (r : xres A) (f : A -> xres B) : xres B :=
  match r with XOk a => f a | XErr e => XErr e end.

(* dict[key] = val: an existing key keeps its position *)
Fixpoint meta_set (m : xmeta) (k v : str) : xmeta :=
  match m with
  | [] => [(k, v)]
  | (k', v') :: r => if str_eqb k' k then (k', v) :: r else (k', v') :: meta_set r k v
  end.
(* Cifti2LabelTable.append: self[label.key] = label on an OrderedDict *)
Fixpoint table_set (t : list xlabel) (l : xlabel) : list xlabel :=
  match t with
  | [] => [l]
  | l' :: r => if xl_key l' =? xl_key l then l :: r else l' :: table_set r l
  end.

Definition is_nil {A} (l : list A) : bool := match l with [] => true | _ => false end.
Definition nonempty {A} (o : option (list A)) : bool := match o with Some (_ :: _) => true | _ => false end.

Section Xml.
  Variable bs_valid : Z -> bool.               (* BrainStructure in CIFTI_BRAIN_STRUCTURES *)
  Variable show_ints : list Z -> str.          (* ' '.join(str(i) for i in l) *)
  Variable show_vox : list ijk -> str.         (* '\n'.join(' '.join(str(v) for v in row)) *)
  Variable show_matrix : list Z -> str.        (* rows of '{:.10f}' *)
  Variable loadtxt_ints : str -> option (list Z).    (* np.loadtxt(text, dtype=int) flattened in reading order *)
  Variable loadtxt_floats : str -> option (list Z).  (* np.loadtxt(text, dtype=float64) flattened *)

  (* ---------------------------------------------------------- writer *)
  Definition chars_ev (t : str) : list event := match t with [] => [] | _ => [Chars t] end.
  Definition md_events (p : str * str) : list event :=
    [Start TMD ANone; Start TName ANone] ++ chars_ev (fst p) ++ [End TName; Start TValue ANone]
    ++ chars_ev (snd p) ++ [End TValue; End TMD].
  Definition meta_events (m : xmeta) : list event :=
    [Start TMetaData ANone] ++ concat (map md_events m) ++ [End TMetaData].
  (* `if self.metadata:` - an empty or missing MetaData is not written *)
  Definition opt_meta_events (m : option xmeta) : list event :=
    match m with Some (p :: r) => meta_events (p :: r) | _ => [] end.

  Definition label_events (l : xlabel) : xres (list event) :=
    if is_nil (xl_text l) then XErr XWriter      (* 'Label needs a name' *)
    else XOk ([Start TLabel (ALabel (xl_key l) (xl_rgba l)); Chars (xl_text l); End TLabel]).
  Fixpoint labels_events (l : list xlabel) : xres (list event) :=
    match l with
    | [] => XOk []
    | x :: r => xbind (label_events x) (fun e => xbind (labels_events r) (fun er => XOk (e ++ er)))
    end.
  Definition opt_table_events (t : option (list xlabel)) : xres (list event) :=
    match t with
    | Some (x :: r) => xbind (labels_events (x :: r)) (fun e => XOk ([Start TLabelTable ANone] ++ e ++ [End TLabelTable]))
    | _ => XOk []
    end.
  Definition named_events (m : xnamedmap) : xres (list event) :=
    xbind (opt_table_events (nm_table m)) (fun te =>
      XOk ([Start TNamedMap ANone] ++ opt_meta_events (nm_meta m) ++ te
           ++ [Start TMapName ANone] ++ chars_ev (match nm_name m with Some t => t | None => [] end)
           ++ [End TMapName; End TNamedMap])).

  Definition vox_events (v : option (list ijk)) : list event :=
    match v with
    | Some (x :: r) => [Start TVoxelIJK ANone] ++ chars_ev (show_vox (x :: r)) ++ [End TVoxelIJK]
    | _ => []
    end.
  Definition vertices_events (v : xvertices) : list event :=
    [Start TVertices (AVertices (vs_bs v))] ++ chars_ev (show_ints (vs_idx v)) ++ [End TVertices].
  Definition parcel_events (p : xparcel) : list event :=
    [Start TParcel (AParcel (pc_name p))] ++ vox_events (pc_vox p)
    ++ concat (map vertices_events (pc_verts p)) ++ [End TParcel].
  Definition volume_events (v : xvolume) : xres (list event) :=
    match vl_transform v with
    | Some (e, Some m) =>
      XOk ([Start TVolume (AVolume (vl_dims v)); Start TTransform (ATransform e)] ++ chars_ev (show_matrix m)
           ++ [End TTransform; End TVolume])
    | _ => XErr XWriter        (* no transformation matrix: AttributeError / 'requires a matrix' *)
    end.
  Definition vtx_events (v : option (list Z)) : list event :=
    match v with
    | Some (x :: r) => [Start TVertexIndices ANone] ++ chars_ev (show_ints (x :: r)) ++ [End TVertexIndices]
    | _ => []
    end.
  Definition bm_events (b : xbm) : list event :=
    [Start TBrainModel (ABrainModel (bx_off b) (bx_cnt b) (bx_type b) (bx_bs b) (bx_nvert b))]
    ++ vox_events (bx_vox b) ++ vtx_events (bx_vtx b) ++ [End TBrainModel].
  Definition child_events (c : xchild) : xres (list event) :=
    match c with
    | CNamed m => named_events m
    | CSurf bs n => XOk [Start TSurface (ASurface bs n); End TSurface]
    | CParcel p => XOk (parcel_events p)
    | CVol v => volume_events v
    | CBm b => XOk (bm_events b)
    end.
  Fixpoint children_events (l : list xchild) : xres (list event) :=
    match l with
    | [] => XOk []
    | c :: r => xbind (child_events c) (fun e => xbind (children_events r) (fun er => XOk (e ++ er)))
    end.
  Definition mim_events (m : xmim) : xres (list event) :=
    xbind (children_events (xm_children m)) (fun ce =>
      XOk ([Start TMim (AMim (xm_dims m) (xm_type m) (xm_series m))] ++ ce ++ [End TMim])).
  Fixpoint mims_events (l : list xmim) : xres (list event) :=
    match l with
    | [] => XOk []
    | m :: r => xbind (mim_events m) (fun e => xbind (mims_events r) (fun er => XOk (e ++ er)))
    end.
  (* Cifti2Header.to_xml as the events expat reads from it *)
  Definition write (h : xheader) : xres (list event) :=
    xbind (mims_events (xh_mims h)) (fun me =>
      XOk ([Start TCifti (ACifti (xh_version h)); Start TMatrix ANone] ++ opt_meta_events (xh_meta h) ++ me
           ++ [End TMatrix; End TCifti])).

  (* ---------------------------------------------------------- parser *)
  Inductive frame :=
    | FHeader (version : Z) (matrix : option (option xmeta * list xmim))
    | FMatrix (meta : option xmeta) (mims : list xmim)
    | FMeta (m : xmeta)
    | FPair (k v : str)
    | FMim (m : xmim)
    | FNamed (n : xnamedmap)
    | FTable (l : list xlabel)
    | FLabel (l : xlabel)
    | FParcel (p : xparcel)
    | FVerts (v : xvertices)
    | FVolume (v : xvolume)
    | FTransform (e : Z) (m : option (list Z))
    | FBm (b : xbm)
    | FVIdx (l : list Z).
  Inductive wt := WName | WValue | WVertices | WVoxel | WVertexIndices | WTransform | WLabel | WMapName.

  Record st := mkSt { s_stack : list frame; s_write_to : option wt; s_chars : option (list str);
                      s_header : option xheader }.
  Definition st0 : st := mkSt [] None None None.
  Definition set_stack (s : st) (k : list frame) : st := mkSt k (s_write_to s) (s_chars s) (s_header s).
  Definition set_wt (s : st) (w : option wt) : st := mkSt (s_stack s) w (s_chars s) (s_header s).

  Fixpoint triples (l : list Z) : option (list ijk) :=
    match l with
    | [] => Some []
    | a :: b :: c :: r => match triples r with Some t => Some ((a, b, c) :: t) | None => None end
    | _ => None
    end.
  Definition opt_app {A} (o : option (list A)) (l : list A) : option (list A) :=
    match o with Some x => Some (x ++ l) | None => None end.

  (* flush_chardata *)
  Definition flush_chardata (s : st) : xres st :=
    match s_chars s with
    | None => XOk s
    | Some blocks =>
      let data := concat blocks in
      let s0 := mkSt (s_stack s) (s_write_to s) None (s_header s) in
      match s_write_to s, s_stack s with
      | None, _ => XOk s0
      | Some WName, FPair _ v :: k => XOk (set_stack s0 (FPair (strip data) v :: k))
      | Some WValue, FPair n _ :: k => XOk (set_stack s0 (FPair n (strip data) :: k))
      | Some WVertices, FVerts v :: k =>
        match loadtxt_ints (strip data) with
        | Some l => XOk (set_stack s0 (FVerts (mkVS (vs_bs v) (vs_idx v ++ l)) :: k))
        | None => XErr XData
        end
      | Some WVoxel, FParcel p :: k =>
        match loadtxt_ints (strip data) with
        | Some l =>
          match triples l, pc_vox p with
          | Some t, Some x => XOk (set_stack s0 (FParcel (mkPC (pc_name p) (Some (x ++ t)) (pc_verts p)) :: k))
          | None, _ => XErr XData
          | _, None => XErr XState
          end
        | None => XErr XData
        end
      | Some WVoxel, FBm b :: k =>
        match loadtxt_ints (strip data) with
        | Some l =>
          match triples l, bx_vox b with
          | Some t, Some x =>
            XOk (set_stack s0 (FBm (mkXB (bx_off b) (bx_cnt b) (bx_type b) (bx_bs b) (bx_nvert b) (Some (x ++ t)) (bx_vtx b)) :: k))
          | None, _ => XErr XData
          | _, None => XErr XState
          end
        | None => XErr XData
        end
      | Some WVertexIndices, FVIdx x :: k =>
        match loadtxt_ints (strip data) with
        | Some l => XOk (set_stack s0 (FVIdx (x ++ l) :: k))
        | None => XErr XData
        end
      | Some WTransform, FTransform e _ :: k =>
        match loadtxt_floats (strip data) with
        | Some l => if (length l =? 16)%nat then XOk (set_stack s0 (FTransform e (Some l) :: k)) else XErr XData
        | None => XErr XData
        end
      | Some WLabel, FLabel l :: k => XOk (set_stack s0 (FLabel (mkXL (xl_key l) (xl_rgba l) (strip data)) :: k))
      | Some WMapName, FNamed n :: k => XOk (set_stack s0 (FNamed (mkNM (Some (strip data)) (nm_meta n) (nm_table n)) :: k))
      | Some _, _ => XErr XState
      end
    end.

  Definition mapped (mims : list xmim) : list Z := flat_map xm_dims mims.
  Definition has_volume (l : list xchild) : bool :=
    existsb (fun c => match c with CVol _ => true | _ => false end) l.
  Definition add_child (m : xmim) (c : xchild) : xmim :=
    mkXM (xm_dims m) (xm_type m) (xm_series m) (xm_children m ++ [c]).
  Definition opt_in (o : option Z) (f : Z -> bool) : bool := match o with Some z => f z | None => false end.

  (* StartElementHandler after its flush_chardata *)
  Definition start_h (t : tag) (a : attrs) (s : st) : xres st :=
    let k := s_stack s in
    match t with
    | TCifti =>
      match a with
      | ACifti v => if v <? 20 then XErr XVersion else XOk (set_stack s (FHeader v None :: k))
      | _ => XErr XKey
      end
    | TMatrix =>
      match k with
      | FHeader _ _ :: _ => XOk (set_stack s (FMatrix None [] :: k))
      | [] => XErr XState
      | _ => XErr XHeader
      end
    | TMetaData =>
      match k with
      | FMatrix _ _ :: _ | FNamed _ :: _ => XOk (set_stack s (FMeta [] :: k))
      | [] => XErr XState
      | _ => XErr XHeader
      end
    | TMD => XOk (set_stack s (FPair [] [] :: k))
    | TName => XOk (set_wt s (Some WName))
    | TValue => XOk (set_wt s (Some WValue))
    | TMim =>
      match a with
      | AMim dims mtype ser =>
        match k with
        | FMatrix _ mims :: _ =>
          (* Cifti2Matrix.append -> _validate_new_mim: the dimensions must not be mapped yet *)
          if existsb (fun d => existsb (Z.eqb d) (mapped mims)) dims then XErr XHeader
          else XOk (set_stack s (FMim (mkXM dims mtype ser []) :: k))
        | [] => XErr XState
        | _ => XErr XHeader
        end
      | _ => XErr XKey
      end
    | TNamedMap =>
      match k with
      | FMim _ :: _ => XOk (set_stack s (FNamed (mkNM None None None) :: k))
      | [] => XErr XState
      | _ => XErr XHeader
      end
    | TLabelTable =>
      match k with
      | top :: FMim m :: _ =>
        if negb (xm_type m =? mt_labels) then XErr XHeader
        else match top with
             | FNamed _ => XOk (set_stack s (FTable [] :: k))
             | _ => XErr XHeader
             end
      | _ :: _ :: _ => XErr XState
      | _ => XErr XState
      end
    | TLabel =>
      match k with
      | FTable _ :: _ =>
        match a with
        | ALabel key rgba => XOk (mkSt (FLabel (mkXL key rgba []) :: k) (Some WLabel) (s_chars s) (s_header s))
        | _ => XErr XKey
        end
      | [] => XErr XState
      | _ => XErr XHeader
      end
    | TMapName =>
      match k with
      | FNamed _ :: _ => XOk (set_wt s (Some WMapName))
      | [] => XErr XState
      | _ => XErr XHeader
      end
    | TSurface =>
      match k with
      | FMim m :: k' =>
        if negb (xm_type m =? mt_parcels) then XErr XHeader
        else match a with
             | ASurface bs n => XOk (set_stack s (FMim (add_child m (CSurf bs n)) :: k'))
             | _ => XErr XKey
             end
      | [] => XErr XState
      | _ => XErr XHeader
      end
    | TParcel =>
      match k with
      | FMim _ :: _ =>
        match a with
        | AParcel name => XOk (set_stack s (FParcel (mkPC name None []) :: k))
        | _ => XErr XKey
        end
      | [] => XErr XState
      | _ => XErr XHeader
      end
    | TVertices =>
      match k with
      | FParcel _ :: _ =>
        match a with
        | AVertices bs => if bs_valid bs then XOk (mkSt (FVerts (mkVS bs []) :: k) (Some WVertices) (s_chars s) (s_header s))
                          else XErr XHeader
        | _ => XErr XKey
        end
      | [] => XErr XState
      | _ => XErr XHeader
      end
    | TVoxelIJK =>
      match k with
      | FParcel p :: k' =>
        XOk (mkSt (FParcel (mkPC (pc_name p) (Some []) (pc_verts p)) :: k') (Some WVoxel) (s_chars s) (s_header s))
      | FBm b :: k' =>
        XOk (mkSt (FBm (mkXB (bx_off b) (bx_cnt b) (bx_type b) (bx_bs b) (bx_nvert b) (Some []) (bx_vtx b)) :: k')
                  (Some WVoxel) (s_chars s) (s_header s))
      | [] => XErr XState
      | _ => XErr XHeader
      end
    | TVolume =>
      match k with
      | FMim m :: _ =>
        match a with
        | AVolume dims =>
          (* mim.append(volume): 'Only one Volume can be in a MatrixIndicesMap' *)
          if has_volume (xm_children m) then XErr XHeader else XOk (set_stack s (FVolume (mkVL dims None) :: k))
        | _ => XErr XKey
        end
      | [] => XErr XState
      | _ => XErr XHeader
      end
    | TTransform =>
      match k with
      | FVolume _ :: _ =>
        match a with
        | ATransform e => XOk (mkSt (FTransform e None :: k) (Some WTransform) (s_chars s) (s_header s))
        | _ => XErr XKey
        end
      | [] => XErr XState
      | _ => XErr XHeader
      end
    | TBrainModel =>
      match k with
      | FMim m :: _ =>
        if negb (xm_type m =? mt_brain_models) then XErr XHeader
        else match a with
             | ABrainModel off cnt mtype bs nvert =>
               if negb (opt_in bs bs_valid) then XErr XHeader
               else if negb (opt_in mtype (fun z => (1 <=? z) && (z <=? n_model_types))) then XErr XHeader
               else XOk (set_stack s (FBm (mkXB off cnt mtype bs nvert None None) :: k))
             | _ => XErr XKey
             end
      | [] => XErr XState
      | _ => XErr XHeader
      end
    | TVertexIndices =>
      match k with
      | FBm _ :: _ => XOk (mkSt (FVIdx [] :: k) (Some WVertexIndices) (s_chars s) (s_header s))
      | [] => XErr XState
      | _ => XErr XHeader
      end
    | TOther => XOk s
    end.

  (* EndElementHandler after its flush_chardata: pop, attach to the parent *)
  Definition end_h (t : tag) (s : st) : xres st :=
    let k := s_stack s in
    match t, k with
    | TCifti, FHeader v m :: k' =>
      let h := match m with Some (meta, mims) => mkXH v meta mims | None => mkXH v None [] end in
      XOk (mkSt k' (s_write_to s) (s_chars s) (Some h))
    | TMatrix, FMatrix meta mims :: FHeader v _ :: k' => XOk (set_stack s (FHeader v (Some (meta, mims)) :: k'))
    | TMetaData, FMeta m :: FMatrix _ mims :: k' => XOk (set_stack s (FMatrix (Some m) mims :: k'))
    | TMetaData, FMeta m :: FNamed n :: k' => XOk (set_stack s (FNamed (mkNM (nm_name n) (Some m) (nm_table n)) :: k'))
    | TMD, FPair n v :: FMeta m :: k' => XOk (set_stack s (FMeta (meta_set m n v) :: k'))
    | TName, _ => XOk (set_wt s None)
    | TValue, _ => XOk (set_wt s None)
    | TMim, FMim m :: FMatrix meta mims :: k' => XOk (set_stack s (FMatrix meta (mims ++ [m]) :: k'))
    | TNamedMap, FNamed n :: FMim m :: k' => XOk (set_stack s (FMim (add_child m (CNamed n)) :: k'))
    | TLabelTable, FTable l :: FNamed n :: k' => XOk (set_stack s (FNamed (mkNM (nm_name n) (nm_meta n) (Some l)) :: k'))
    | TLabel, FLabel l :: FTable t :: k' => XOk (mkSt (FTable (table_set t l) :: k') None (s_chars s) (s_header s))
    | TMapName, _ => XOk (set_wt s None)
    | TParcel, FParcel p :: FMim m :: k' => XOk (set_stack s (FMim (add_child m (CParcel p)) :: k'))
    | TVertices, FVerts v :: FParcel p :: k' =>
      XOk (mkSt (FParcel (mkPC (pc_name p) (pc_vox p) (pc_verts p ++ [v])) :: k') None (s_chars s) (s_header s))
    | TVoxelIJK, _ => XOk (set_wt s None)
    | TVolume, FVolume v :: FMim m :: k' => XOk (set_stack s (FMim (add_child m (CVol v)) :: k'))
    | TTransform, FTransform e m :: FVolume v :: k' =>
      XOk (mkSt (FVolume (mkVL (vl_dims v) (Some (e, m))) :: k') None (s_chars s) (s_header s))
    | TBrainModel, FBm b :: FMim m :: k' => XOk (set_stack s (FMim (add_child m (CBm b)) :: k'))
    | TVertexIndices, FVIdx l :: FBm b :: k' =>
      XOk (mkSt (FBm (mkXB (bx_off b) (bx_cnt b) (bx_type b) (bx_bs b) (bx_nvert b) (bx_vox b) (Some l)) :: k')
                None (s_chars s) (s_header s))
    | TSurface, _ => XOk s
    | TOther, _ => XOk s
    | _, _ => XErr XState          (* pop of the wrong object: not a stream expat can deliver *)
    end.

  Definition add_chunk (s : st) (c : str) : st :=
    mkSt (s_stack s) (s_write_to s) (Some (match s_chars s with None => [] | Some b => b end ++ [c])) (s_header s).

  Definition step (s : st) (e : event) : xres st :=
    match e with
    | Chars c => XOk (add_chunk s c)
    | Start t a => xbind (flush_chardata s) (start_h t a)
    | End t => xbind (flush_chardata s) (end_h t)
    end.
  Fixpoint run (s : st) (evs : list event) : xres st :=
    match evs with
    | [] => XOk s
    | e :: r => xbind (step s e) (fun s' => run s' r)
    end.
  (* parser.header after ParseFile *)
  Definition parse (evs : list event) : xres xheader :=
    xbind (run st0 evs) (fun s => match s_header s with Some h => XOk h | None => XErr XState end).

  (* ---------------------------------------------------------- what the reader makes of a header *)
  Definition norm_meta (m : xmeta) : xmeta :=
    fold_left (fun acc p => meta_set acc (strip (fst p)) (strip (snd p))) m [].
  Definition norm_opt_meta (m : option xmeta) : option xmeta :=
    match m with Some (p :: r) => Some (norm_meta (p :: r)) | _ => None end.
  Definition norm_label (l : xlabel) : xlabel := mkXL (xl_key l) (xl_rgba l) (strip (xl_text l)).
  Definition norm_table (t : option (list xlabel)) : option (list xlabel) :=
    match t with
    | Some (x :: r) => Some (fold_left (fun acc l => table_set acc (norm_label l)) (x :: r) [])
    | _ => None
    end.
  Definition norm_name (n : option str) : option str :=
    match n with Some (c :: r) => Some (strip (c :: r)) | _ => None end.
  Definition norm_named (m : xnamedmap) : xnamedmap :=
    mkNM (norm_name (nm_name m)) (norm_opt_meta (nm_meta m)) (norm_table (nm_table m)).
  Definition norm_optlist {A} (o : option (list A)) : option (list A) :=
    match o with Some (x :: r) => Some (x :: r) | _ => None end.
  Definition norm_child (c : xchild) : xchild :=
    match c with
    | CNamed m => CNamed (norm_named m)
    | CParcel p => CParcel (mkPC (pc_name p) (norm_optlist (pc_vox p)) (pc_verts p))
    | CBm b => CBm (mkXB (bx_off b) (bx_cnt b) (bx_type b) (bx_bs b) (bx_nvert b)
                         (norm_optlist (bx_vox b)) (norm_optlist (bx_vtx b)))
    | c => c
    end.
  Definition norm_mim (m : xmim) : xmim := mkXM (xm_dims m) (xm_type m) (xm_series m) (map norm_child (xm_children m)).
  Definition norm (h : xheader) : xheader :=
    mkXH (xh_version h) (norm_opt_meta (xh_meta h)) (map norm_mim (xh_mims h)).
End Xml.

(* ------------------------------------------------------------ the file, at the level of the header structure *)
(* Cifti2Image.to_file_map / from_file_map with the XML made explicit: the extension payload is
   the event list of Cifti2Header.to_xml; the NIfTI-2 container stays an oracle. *)
Section XmlFile.
  Variable bs_valid : Z -> bool.
  Variable show_ints : list Z -> str.
  Variable show_vox : list ijk -> str.
  Variable show_matrix : list Z -> str.
  Variable loadtxt_ints : str -> option (list Z).
  Variable loadtxt_floats : str -> option (list Z).
  Context {D F : Type}.
  Variable nifti_write : list Z -> list event -> D -> F.
  Variable nifti_read : F -> option (list Z * option (list event) * D).

  Definition xml_save (h : xheader) (shape : list Z) (data : D) : xres F :=
    xbind (write show_ints show_vox show_matrix h) (fun ev => XOk (nifti_write ([1; 1; 1; 1] ++ shape) ev data)).
  Definition xml_load (f : F) : xres (xheader * list Z * D) :=
    match nifti_read f with
    | Some (shape, Some ev, d) =>
      xbind (parse bs_valid loadtxt_ints loadtxt_floats ev) (fun h => XOk (h, skipn 4 shape, d))
    | _ => XErr XState
    end.
End XmlFile.

