(* C18/Lemmas.v — proofs about the model of the CIFTI-2 axes (Model.v).  No axioms. *)
From Coq Require Import ZArith List Bool Lia ZifyBool.
From NV Require Import Base.PySlice C18.Model.
Import ListNotations.
Open Scope Z_scope.

(* ================================================================== lists *)
Arguments zlen : simpl never.
Lemma zlen_nonneg {A} (l : list A) : 0 <= zlen l.
Proof. unfold zlen. lia. Qed.
Lemma zlen_app {A} (l m : list A) : zlen (l ++ m) = zlen l + zlen m.
Proof. unfold zlen. rewrite app_length. lia. Qed.
Lemma zlen_map {A B} (f : A -> B) l : zlen (map f l) = zlen l.
Proof. unfold zlen. now rewrite map_length. Qed.
Lemma zlen_eq {A B} (l : list A) (m : list B) : zlen l = zlen m <-> length l = length m.
Proof. unfold zlen. lia. Qed.
Lemma zlen_eqb {A B} (l : list A) (m : list B) : (zlen l =? zlen m) = true <-> length l = length m.
Proof. unfold zlen. lia. Qed.

Lemma to_nat_lt i (n : nat) : 0 <= i < Z.of_nat n -> (Z.to_nat i < n)%nat.
Proof. lia. Qed.

Lemma seq_from a b : seq a b = map (fun k => (a + k)%nat) (seq 0 b).
Proof.
  revert a. induction b as [|b IH]; intros a; cbn; [reflexivity|].
  f_equal; [lia|]. rewrite (IH (S a)), <- seq_shift, map_map. apply map_ext. intros. lia.
Qed.

Lemma nth_map_zseq {A} (f : Z -> A) n i d : 0 <= i < n ->
  nth (Z.to_nat i) (map f (zseq n)) d = f i.
Proof.
  intros H. unfold zseq. rewrite map_map.
  rewrite (nth_indep _ d (f (Z.of_nat 0))) by (rewrite map_length, seq_length; lia).
  rewrite (map_nth (fun x => f (Z.of_nat x))). rewrite seq_nth by lia. f_equal. lia.
Qed.

Lemma zseq_app n m : 0 <= n -> 0 <= m -> zseq (n + m) = zseq n ++ map (fun k => n + k) (zseq m).
Proof.
  intros Hn Hm. unfold zseq. replace (Z.to_nat (n + m)) with (Z.to_nat n + Z.to_nat m)%nat by lia.
  rewrite seq_app, map_app. f_equal. cbn. rewrite (seq_from (Z.to_nat n)), !map_map.
  apply map_ext. intros. lia.
Qed.

(* ================================================================== select / resolve *)
Lemma select_length {A} (d : A) l pos : length (select d l pos) = length pos.
Proof. unfold select. now rewrite map_length. Qed.
Lemma select_zlen {A} (d : A) l pos : zlen (select d l pos) = zlen pos.
Proof. unfold zlen. now rewrite select_length. Qed.

Lemma select_map {A B} (f : A -> B) d l pos : select (f d) (map f l) pos = map f (select d l pos).
Proof. unfold select. rewrite map_map. apply map_ext. intros. apply map_nth. Qed.

Lemma select_combine {A B} (d1 : A) (d2 : B) l1 l2 pos : length l1 = length l2 ->
  select (d1, d2) (combine l1 l2) pos = combine (select d1 l1 pos) (select d2 l2 pos).
Proof.
  intros H. unfold select. induction pos as [|i r IH]; cbn; [reflexivity|].
  rewrite IH. f_equal. now apply combine_nth.
Qed.

Lemma select_app {A} (d : A) l p q : select d l (p ++ q) = select d l p ++ select d l q.
Proof. unfold select. apply map_app. Qed.

Definition in_range (n : Z) (pos : list Z) : Prop := Forall (fun i => 0 <= i < n) pos.

Lemma select_In {A} (d : A) l pos x : in_range (zlen l) pos -> In x (select d l pos) -> In x l.
Proof.
  unfold select, in_range. intros H Hx. apply in_map_iff in Hx as (i & <- & Hi).
  rewrite Forall_forall in H. specialize (H i Hi). cbn beta in H. apply nth_In. apply to_nat_lt. exact H.
Qed.

Lemma py_int_index_range n k i : py_int_index n k = Some i -> 0 <= i < n.
Proof. unfold py_int_index. destruct ((k <? - n) || (n <=? k)) eqn:E; [discriminate|]. intros [= <-]. destruct (k <? 0) eqn:E2; lia. Qed.

Lemma wrap_all_range n l r : wrap_all n l = Some r -> in_range n r /\ length r = length l.
Proof.
  revert r. induction l as [|k l IH]; cbn; intros r H.
  - injection H as <-. split; [constructor|reflexivity].
  - destruct (py_int_index n k) eqn:E1; [|discriminate]. destruct (wrap_all n l) eqn:E2; [|discriminate].
    injection H as <-. destruct (IH _ eq_refl) as [H1 H2]. split; [|cbn; now rewrite H2].
    constructor; [now apply py_int_index_range with k|exact H1].
Qed.

Lemma mask_positions_range i m : 0 <= i -> Forall (fun p => i <= p < i + zlen m) (mask_positions i m).
Proof.
  revert i. induction m as [|b m IH]; intros i Hi; cbn; [constructor|].
  assert (Hz : zlen (b :: m) = 1 + zlen m) by (unfold zlen; cbn [length]; lia).
  apply Forall_app. split.
  - destruct b; [|constructor]. constructor; [|constructor]. pose proof (zlen_nonneg m). cbn beta. lia.
  - specialize (IH (i + 1) ltac:(lia)). eapply Forall_impl; [|exact IH]. cbn. intros. lia.
Qed.

(* every position selected by a valid index lies on the axis *)
Lemma resolve_range n ix pos : 0 <= n -> resolve n ix = Ok pos -> in_range n pos.
Proof.
  intros Hn. destruct ix as [k|s|l|m]; cbn.
  - destruct (py_int_index n k) eqn:E; [|discriminate]. intros [= <-]. constructor; [|constructor].
    now apply py_int_index_range with k.
  - destruct (step_of s =? 0) eqn:E; [discriminate|]. intros [= <-]. apply Forall_forall. intros i Hi.
    apply py_indices_in_range with s; [lia|lia|exact Hi].
  - destruct (wrap_all n l) eqn:E; [|discriminate]. intros [= <-]. now apply wrap_all_range in E.
  - destruct (zlen m =? n) eqn:E; [|discriminate]. intros [= <-].
    pose proof (mask_positions_range 0 m ltac:(lia)) as H. eapply Forall_impl; [|exact H]. cbn. intros. lia.
Qed.

(* ================================================================== SeriesAxis *)
Lemma ser_time_length a : 0 <= se_size a -> zlen (ser_time a) = se_size a.
Proof. intros H. unfold ser_time. rewrite zlen_map. now apply zseq_length. Qed.

Lemma ser_time_nth a i : 0 <= i < se_size a ->
  nth (Z.to_nat i) (ser_time a) 0 = i * se_step a + se_start a.
Proof. intros H. unfold ser_time. now rewrite nth_map_zseq. Qed.

(* axis[s] for EVERY slice with non-zero step: the time points of the result are the time
   points of the axis at list(range(size))[s], and its length is len of range(start, stop, step) of s.indices(size) *)
Lemma series_slice a s : 0 <= se_size a -> step_of s <> 0 ->
  exists b, ser_getitem_slice a s = Ok b
    /\ ser_time b = select 0 (ser_time a) (py_indices (se_size a) s)
    /\ se_size b = slen (adjust (se_size a) s)
    /\ se_size b = zlen (py_indices (se_size a) s)
    /\ se_unit b = se_unit a.
Proof.
  intros Hn Hs. unfold ser_getitem_slice.
  destruct (step_of s =? 0) eqn:E; [lia|].
  pose proof (fun k => snth_in_range (se_size a) s k Hn Hs) as Hin.
  unfold py_indices, range_of. destruct (adjust (se_size a) s) as [[i0 i1] st] eqn:Ea.
  eexists. split; [reflexivity|]. cbn [se_size se_unit se_start se_step].
  split; [|split; [reflexivity|split; [|reflexivity]]].
  - unfold ser_time at 1. cbn [se_size se_start se_step]. unfold select. rewrite map_map.
    apply map_ext_in. intros k Hk. apply zseq_In in Hk. specialize (Hin k Hk).
    rewrite ser_time_nth by exact Hin. unfold snth. ring.
  - unfold zlen. rewrite map_length. symmetry. apply zseq_length, slen_nonneg.
Qed.

Lemma series_slice_step0 a s : step_of s = 0 -> ser_getitem_slice a s = Err EStep0.
Proof. intros H. unfold ser_getitem_slice. now rewrite H. Qed.

(* axis[k] = the k-th time point with Python's negative-index rule, IndexError outside *)
Lemma series_int a k : 0 <= se_size a ->
  ser_get_element a k = match py_int_index (se_size a) k with
                        | Some i => Ok (nth (Z.to_nat i) (ser_time a) 0)
                        | None => Err EIndex
                        end.
Proof.
  intros Hn. unfold ser_get_element, py_int_index.
  destruct (k <? 0) eqn:E1; destruct ((k <? - se_size a) || (se_size a <=? k)) eqn:E2;
    match goal with |- context [if ?c then Err _ else _] => destruct c eqn:E3 end; try lia; try reflexivity.
  - rewrite ser_time_nth by lia. f_equal. ring.
  - rewrite ser_time_nth by lia. f_equal. ring.
Qed.

(* a + b: the time points of a followed by the regular continuation; equal to the
   concatenated time points exactly when b starts where a ends (the start of b is ignored,
   as documented) *)
Lemma series_add a b c : 0 <= se_size a -> 0 <= se_size b -> ser_add a b = Ok c ->
  se_size c = se_size a + se_size b
  /\ ser_time c = ser_time a ++ map (fun k => (se_size a + k) * se_step a + se_start a) (zseq (se_size b))
  /\ (se_start b = se_start a + se_size a * se_step a -> ser_time c = ser_time a ++ ser_time b).
Proof.
  intros Ha Hb. unfold ser_add.
  destruct (se_step b =? se_step a) eqn:E1; cbn [negb]; [|discriminate].
  destruct (se_unit b =? se_unit a) eqn:E2; cbn [negb]; [|discriminate].
  intros [= <-]. cbn [se_size]. split; [reflexivity|].
  assert (H : ser_time {| se_start := se_start a; se_step := se_step a; se_size := se_size a + se_size b; se_unit := se_unit a |}
              = ser_time a ++ map (fun k => (se_size a + k) * se_step a + se_start a) (zseq (se_size b))).
  { unfold ser_time. cbn [se_size se_start se_step]. rewrite zseq_app by lia. rewrite map_app, map_map. reflexivity. }
  split; [exact H|]. intros Hst. rewrite H. f_equal. unfold ser_time. apply map_ext. intros k.
  replace (se_step b) with (se_step a) by lia. rewrite Hst. ring.
Qed.

Lemma series_add_total a b : se_step b = se_step a -> se_unit b = se_unit a -> exists c, ser_add a b = Ok c.
Proof.
  intros H1 H2. unfold ser_add. rewrite H1, H2, !Z.eqb_refl. cbn. eexists; reflexivity.
Qed.

(* ================================================================== Scalar / Label / Parcels *)
Lemma combine_app {A B} (l1 l2 : list A) (m1 m2 : list B) : length l1 = length m1 ->
  combine (l1 ++ l2) (m1 ++ m2) = combine l1 m1 ++ combine l2 m2.
Proof.
  revert m1. induction l1 as [|x l1 IH]; intros [|y m1] H; cbn in *; try discriminate; [reflexivity|].
  f_equal. apply IH. lia.
Qed.

Definition sc_wf (a : scalar) : Prop := length (sc_meta a) = length (sc_name a).

Lemma sc_make_ok name meta : length meta = length name -> sc_make name meta = Ok (mkSc name meta).
Proof. intros H. unfold sc_make. apply zlen_eqb in H. now rewrite H. Qed.
Lemma sc_make_wf name meta a : sc_make name meta = Ok a -> sc_wf a /\ a = mkSc name meta.
Proof.
  unfold sc_make. destruct (zlen meta =? zlen name) eqn:E; [|discriminate]. intros [= <-].
  split; [|reflexivity]. unfold sc_wf. cbn. now apply zlen_eqb.
Qed.

(* axis[idx] (slice / index list / mask) describes exactly the rows data[idx] *)
Lemma sc_index a ix pos : sc_wf a -> resolve (sc_len a) ix = Ok pos ->
  exists b, sc_getitem a ix = Ok b /\ sc_wf b
    /\ sc_elements b = select (0, 0) (sc_elements a) pos /\ sc_len b = zlen pos.
Proof.
  intros Hw Hr. unfold sc_getitem. rewrite Hr.
  rewrite sc_make_ok by (now rewrite !select_length). eexists. split; [reflexivity|].
  split; [unfold sc_wf; cbn; now rewrite !select_length|].
  unfold sc_elements, sc_len. cbn [sc_name sc_meta]. split; [|apply select_zlen].
  symmetry. apply select_combine. symmetry. exact Hw.
Qed.
Lemma sc_index_err a ix e : resolve (sc_len a) ix = Err e -> sc_getitem a ix = Err e.
Proof. intros H. unfold sc_getitem. now rewrite H. Qed.

Lemma sc_concat a b : sc_wf a -> sc_wf b ->
  exists c, sc_add a b = Ok c /\ sc_wf c /\ sc_elements c = sc_elements a ++ sc_elements b
    /\ sc_len c = sc_len a + sc_len b.
Proof.
  intros Ha Hb. unfold sc_add. unfold sc_wf in *.
  rewrite sc_make_ok by (rewrite !app_length; lia). eexists. split; [reflexivity|].
  split; [unfold sc_wf; cbn; rewrite !app_length; lia|].
  unfold sc_elements, sc_len. cbn [sc_name sc_meta]. split; [|apply zlen_app].
  apply combine_app. lia.
Qed.

Definition lab_wf (a : label) : Prop :=
  length (lb_meta a) = length (lb_name a) /\ length (lb_label a) = length (lb_name a).

Lemma lab_make_ok name lab meta : length meta = length name -> length lab = length name ->
  lab_make name lab meta = Ok (mkLab name lab meta).
Proof. intros H1 H2. unfold lab_make. apply zlen_eqb in H1, H2. now rewrite H1, H2. Qed.

Lemma lab_index a ix pos : lab_wf a -> resolve (lab_len a) ix = Ok pos ->
  exists b, lab_getitem a ix = Ok b /\ lab_wf b
    /\ lab_elements b = select (0, 0, 0) (lab_elements a) pos /\ lab_len b = zlen pos.
Proof.
  intros [Hw1 Hw2] Hr. unfold lab_getitem. rewrite Hr.
  rewrite lab_make_ok by (now rewrite !select_length). eexists. split; [reflexivity|].
  split; [unfold lab_wf; cbn; now rewrite !select_length|].
  unfold lab_elements, lab_len. cbn [lb_name lb_label lb_meta]. split; [|apply select_zlen].
  rewrite select_combine by (rewrite combine_length; lia).
  rewrite select_combine by lia. reflexivity.
Qed.
Lemma lab_index_err a ix e : resolve (lab_len a) ix = Err e -> lab_getitem a ix = Err e.
Proof. intros H. unfold lab_getitem. now rewrite H. Qed.

Lemma lab_concat a b : lab_wf a -> lab_wf b ->
  exists c, lab_add a b = Ok c /\ lab_wf c /\ lab_elements c = lab_elements a ++ lab_elements b
    /\ lab_len c = lab_len a + lab_len b.
Proof.
  intros [Ha1 Ha2] [Hb1 Hb2]. unfold lab_add.
  rewrite lab_make_ok by (rewrite !app_length; lia). eexists. split; [reflexivity|].
  split; [unfold lab_wf; cbn; rewrite !app_length; lia|].
  unfold lab_elements, lab_len. cbn [lb_name lb_label lb_meta]. split; [|apply zlen_app].
  rewrite combine_app by lia. apply combine_app. rewrite combine_length. lia.
Qed.

Definition par_wf (a : parcels) : Prop :=
  length (pa_voxels a) = length (pa_name a) /\ length (pa_vertices a) = length (pa_name a).

Lemma par_make_ok name vox vert v nv : length vox = length name -> length vert = length name ->
  par_make name vox vert v nv = Ok (mkPar name vox vert v nv).
Proof. intros H1 H2. unfold par_make. apply zlen_eqb in H1, H2. now rewrite H1, H2. Qed.

Lemma par_index a ix pos : par_wf a -> resolve (par_len a) ix = Ok pos ->
  exists b, par_getitem a ix = Ok b /\ par_wf b
    /\ par_elements b = select (0, 0, []) (par_elements a) pos /\ par_len b = zlen pos
    /\ pa_vol b = pa_vol a /\ pa_nv b = pa_nv a.
Proof.
  intros [Hw1 Hw2] Hr. unfold par_getitem. rewrite Hr.
  rewrite par_make_ok by (now rewrite !select_length). eexists. split; [reflexivity|].
  split; [unfold par_wf; cbn; now rewrite !select_length|].
  unfold par_elements, par_len. cbn [pa_name pa_voxels pa_vertices pa_vol pa_nv].
  split; [|split; [apply select_zlen|split; reflexivity]].
  rewrite select_combine by (rewrite combine_length, Hw1, Nat.min_id; symmetry; exact Hw2).
  rewrite select_combine by (now rewrite Hw1). reflexivity.
Qed.
Lemma par_index_err a ix e : resolve (par_len a) ix = Err e -> par_getitem a ix = Err e.
Proof. intros H. unfold par_getitem. now rewrite H. Qed.

Lemma par_concat a b c : par_wf a -> par_wf b -> par_add a b = Ok c ->
  par_wf c /\ par_elements c = par_elements a ++ par_elements b /\ par_len c = par_len a + par_len b.
Proof.
  intros [Ha1 Ha2] [Hb1 Hb2]. unfold par_add.
  destruct (merge_vol (pa_vol a) (pa_vol b)) as [v|]; [|discriminate].
  destruct (merge_nv (pa_nv a) (pa_nv b)) as [nv|]; [|discriminate].
  rewrite par_make_ok by (rewrite !app_length; lia). intros [= <-].
  split; [unfold par_wf; cbn; rewrite !app_length; lia|].
  unfold par_elements, par_len. cbn [pa_name pa_voxels pa_vertices]. split; [|apply zlen_app].
  rewrite combine_app by lia. apply combine_app. rewrite combine_length. lia.
Qed.

(* ================================================================== BrainModelAxis: constructor, indexing *)
Definition keys (nv : nvdict) : list Z := map fst nv.

Lemma zmem_In x l : zmem x l = true <-> In x l.
Proof.
  unfold zmem. rewrite existsb_exists. split.
  - intros (y & Hy & E). apply Z.eqb_eq in E. now subst.
  - intros H. exists x. split; [exact H|apply Z.eqb_refl].
Qed.
Lemma zmem_false x l : zmem x l = false <-> ~ In x l.
Proof. rewrite <- zmem_In. destruct (zmem x l); split; intros; try discriminate; try reflexivity; exfalso; auto. Qed.

Lemma is_surf_keys nv x : is_surf nv x = true <-> In x (keys nv).
Proof. unfold is_surf, keys. apply zmem_In. Qed.

Lemma is_surf_filter nv names x : In x names ->
  is_surf (filter (fun kv => zmem (fst kv) names) nv) x = is_surf nv x.
Proof.
  intros Hx. unfold is_surf, zmem. induction nv as [|[k v] nv IH]; cbn; [reflexivity|].
  destruct (existsb (Z.eqb k) names) eqn:E; cbn.
  - now rewrite IH.
  - rewrite IH. destruct (x =? k) eqn:E2; [|reflexivity]. apply Z.eqb_eq in E2. subst k.
    fold (zmem x names) in E. apply zmem_false in E. contradiction.
Qed.

Lemma surface_mask_filter nv names :
  map (is_surf (filter (fun kv => zmem (fst kv) names) nv)) names = map (is_surf nv) names.
Proof. apply map_ext_in. intros x Hx. now apply is_surf_filter. Qed.

Lemma NoDup_keys_filter (P : Z * Z -> bool) nv : NoDup (keys nv) -> NoDup (keys (filter P nv)).
Proof.
  unfold keys. induction nv as [|kv nv IH]; cbn; intros H; [constructor|].
  inversion H as [|? ? Hn Hd]; subst. destruct (P kv); cbn; [|now apply IH].
  constructor; [|now apply IH]. intros Hin. apply Hn.
  apply in_map_iff in Hin as (y & Hy & Hin). apply filter_In in Hin as [Hin _].
  apply in_map_iff. now exists y.
Qed.

Definition vtx_bad (p : bool * Z) : bool := fst p && (snd p <? 0).
Definition vox_bad (p : bool * ijk) : bool := negb (fst p) && ijk_neg (snd p).

Definition bm_wf (a : bm) : Prop :=
  length (b_voxel a) = length (b_name a) /\ length (b_vertex a) = length (b_name a)
  /\ existsb vtx_bad (combine (bm_surface_mask a) (b_vertex a)) = false
  /\ existsb vox_bad (combine (bm_surface_mask a) (b_voxel a)) = false
  /\ (b_vol a = None <-> forallb (fun b => b) (bm_surface_mask a) = true)
  /\ (forall k, In k (keys (b_nv a)) -> In k (b_name a))
  /\ NoDup (keys (b_nv a)).

(* when the constructor succeeds, and what it builds *)
Lemma bm_make_spec name vox vtx v nv :
  length vox = length name -> length vtx = length name ->
  (forallb (fun b => b) (map (is_surf nv) name) = false -> v <> None) ->
  existsb vtx_bad (combine (map (is_surf nv) name) vtx) = false ->
  existsb vox_bad (combine (map (is_surf nv) name) vox) = false ->
  bm_make name vox vtx v nv
  = Ok (mkBm name vox vtx (if forallb (fun b => b) (map (is_surf nv) name) then None else v)
             (filter (fun kv => zmem (fst kv) name) nv)).
Proof.
  intros H1 H2 Hv Hb1 Hb2. unfold bm_make.
  apply zlen_eqb in H1, H2. rewrite H1, H2. cbn [andb negb].
  rewrite surface_mask_filter.
  destruct (forallb (fun b => b) (map (is_surf nv) name)) eqn:Ea; cbn [negb andb].
  - fold vtx_bad. fold vox_bad. now rewrite Hb1, Hb2.
  - destruct v as [v|]; [|exfalso; now apply Hv]. cbn [is_none].
    fold vtx_bad. fold vox_bad. now rewrite Hb1, Hb2.
Qed.

(* every axis the constructor returns is well formed *)
Lemma bm_make_wf name vox vtx v nv a : NoDup (keys nv) -> bm_make name vox vtx v nv = Ok a -> bm_wf a.
Proof.
  intros Hnd. unfold bm_make.
  destruct ((zlen vox =? zlen name) && (zlen vtx =? zlen name)) eqn:El; cbn [negb]; [|discriminate].
  apply andb_true_iff in El as [El1 El2]. apply zlen_eqb in El1, El2.
  set (nv' := filter (fun kv => zmem (fst kv) name) nv).
  destruct (negb (forallb (fun b => b) (map (is_surf nv') name)) && is_none v) eqn:Ev; [discriminate|].
  fold vtx_bad. fold vox_bad.
  destruct (existsb vtx_bad (combine (map (is_surf nv') name) vtx)) eqn:Eb1; [discriminate|].
  destruct (existsb vox_bad (combine (map (is_surf nv') name) vox)) eqn:Eb2; [discriminate|].
  intros [= <-]. unfold bm_wf, bm_surface_mask. cbn [b_name b_voxel b_vertex b_vol b_nv].
  repeat split; try assumption.
  - destruct (forallb (fun b => b) (map (is_surf nv') name)); [reflexivity|]. cbn in Ev. destruct v; [discriminate|discriminate].
  - intros H. destruct (forallb (fun b => b) (map (is_surf nv') name)); [reflexivity|discriminate].
  - intros k Hk. unfold keys in Hk. apply in_map_iff in Hk as ([k' v'] & <- & Hin). apply filter_In in Hin as [_ Hin].
    cbn in *. now apply zmem_In.
  - now apply NoDup_keys_filter.
Qed.

Lemma existsb_false_iff {A} (P : A -> bool) l : existsb P l = false <-> (forall x, In x l -> P x = false).
Proof.
  split.
  - intros H x Hx. destruct (P x) eqn:E; [|reflexivity]. assert (existsb P l = true) by (apply existsb_exists; eauto). congruence.
  - intros H. destruct (existsb P l) eqn:E; [|reflexivity]. apply existsb_exists in E as (x & Hx & Px). rewrite (H x Hx) in Px. discriminate.
Qed.

Lemma existsb_select_false {A} (P : A -> bool) d l pos : existsb P l = false -> in_range (zlen l) pos ->
  existsb P (select d l pos) = false.
Proof.
  intros H Hr. apply existsb_false_iff. intros x Hx. apply select_In in Hx; [|exact Hr].
  rewrite existsb_false_iff in H. now apply H.
Qed.
Lemma forallb_select {A} (P : A -> bool) d l pos : forallb P l = true -> in_range (zlen l) pos ->
  forallb P (select d l pos) = true.
Proof.
  intros H Hr. apply forallb_forall. intros x Hx. apply select_In in Hx; [|exact Hr].
  rewrite forallb_forall in H. now apply H.
Qed.

Lemma zlen_combine {A B} (l : list A) (m : list B) : length l = length m -> zlen (combine l m) = zlen l.
Proof. intros H. unfold zlen. rewrite combine_length. lia. Qed.

Definition bm_default : bool * list Z * Z := (false, [-1; -1; -1], 0).

(* axis[idx] describes exactly the rows data[idx] (the empty selection included: an empty
   axis); the volume is kept when a voxel remains, nvertices keeps the structures that still occur *)
Lemma bm_index a ix pos : bm_wf a -> resolve (bm_len a) ix = Ok pos ->
  exists b, bm_getitem a ix = Ok b /\ bm_wf b
    /\ bm_elements b = select (bm_elem (b_nv a) 0 no_ijk 0) (bm_elements a) pos
    /\ bm_len b = zlen pos
    /\ b_nv b = filter (fun kv => zmem (fst kv) (b_name b)) (b_nv a).
Proof.
  intros (Hl1 & Hl2 & Hb1 & Hb2 & Hv & Hk & Hnd) Hr.
  assert (Hin : in_range (bm_len a) pos) by (eapply resolve_range; [apply zlen_nonneg|exact Hr]).
  unfold bm_getitem. rewrite Hr.
  set (name' := select 0 (b_name a) pos). set (vox' := select no_ijk (b_voxel a) pos). set (vtx' := select 0 (b_vertex a) pos).
  assert (Hsm : map (is_surf (b_nv a)) name' = select (is_surf (b_nv a) 0) (bm_surface_mask a) pos)
    by (unfold name', bm_surface_mask; symmetry; apply select_map).
  assert (Hlen : zlen (bm_surface_mask a) = bm_len a) by (unfold bm_surface_mask, bm_len; apply zlen_map).
  assert (Hlm : length (bm_surface_mask a) = length (b_name a)) by (unfold bm_surface_mask; apply map_length).
  assert (Hmk : bm_make name' vox' vtx' (b_vol a) (b_nv a)
          = Ok (mkBm name' vox' vtx' (if forallb (fun b => b) (map (is_surf (b_nv a)) name') then None else b_vol a)
                     (filter (fun kv => zmem (fst kv) name') (b_nv a)))).
  { apply bm_make_spec.
    - unfold vox', name'. now rewrite !select_length.
    - unfold vtx', name'. now rewrite !select_length.
    - rewrite Hsm. intros Hf Hn. apply Hv in Hn. rewrite forallb_select in Hf; [discriminate|exact Hn|now rewrite Hlen].
    - rewrite Hsm. unfold vtx'. rewrite <- select_combine by lia.
      apply existsb_select_false; [exact Hb1|]. rewrite zlen_combine by lia. now rewrite Hlen.
    - rewrite Hsm. unfold vox'. rewrite <- select_combine by lia.
      apply existsb_select_false; [exact Hb2|]. rewrite zlen_combine by lia. now rewrite Hlen. }
  rewrite Hmk. eexists. split; [reflexivity|]. split; [eapply bm_make_wf; [exact Hnd|exact Hmk]|].
  unfold bm_elements, bm_len. cbn [b_name b_voxel b_vertex b_nv]. split; [|split; [apply select_zlen|reflexivity]].
  unfold bm_elems.
  rewrite (map_ext_in _ (fun p => bm_elem (b_nv a) (fst (fst p)) (snd (fst p)) (snd p))).
  - unfold name', vox', vtx'. rewrite <- select_combine by lia.
    rewrite <- select_combine by (rewrite combine_length; lia).
    rewrite <- (select_map (fun p => bm_elem (b_nv a) (fst (fst p)) (snd (fst p)) (snd p)) (0, no_ijk, 0)). reflexivity.
  - intros [[n x] t] Hp. cbn [fst snd]. apply in_combine_l in Hp. apply in_combine_l in Hp.
    unfold bm_elem. now rewrite is_surf_filter.
Qed.

Lemma bm_index_err a ix e : resolve (bm_len a) ix = Err e -> bm_getitem a ix = Err e.
Proof. intros H. unfold bm_getitem. now rewrite H. Qed.

Lemma bm_elements_length a : bm_wf a -> zlen (bm_elements a) = bm_len a.
Proof.
  intros (H1 & H2 & _). unfold bm_elements, bm_elems, bm_len. rewrite zlen_map.
  rewrite zlen_combine by (rewrite combine_length; lia). apply zlen_combine. lia.
Qed.

(* axis[k]: the k-th element description, IndexError outside [-n, n) *)
Lemma bm_int a k : bm_wf a ->
  bm_get_element a k = match py_int_index (bm_len a) k with
                       | Some i => Ok (nth (Z.to_nat i) (bm_elements a) (bm_elem (b_nv a) 0 no_ijk 0))
                       | None => Err EIndex
                       end.
Proof.
  intros (H1 & H2 & _). unfold bm_get_element. destruct (py_int_index (bm_len a) k) as [i|]; [|reflexivity].
  f_equal. unfold bm_elements, bm_elems.
  change (bm_elem (b_nv a) 0 no_ijk 0) with ((fun p => bm_elem (b_nv a) (fst (fst p)) (snd (fst p)) (snd p)) (0, no_ijk, 0)).
  rewrite map_nth. rewrite combine_nth by (rewrite combine_length; lia). rewrite combine_nth by lia. reflexivity.
Qed.

(* ================================================================== dictionaries, __add__ *)
Lemma lookup_dict_set d k v k' : lookup (dict_set d k v) k' = if k =? k' then Some v else lookup d k'.
Proof.
  induction d as [|[k0 v0] d IH]; cbn.
  - destruct (k =? k'); reflexivity.
  - destruct (k0 =? k) eqn:E; cbn.
    + apply Z.eqb_eq in E. subst k0. destruct (k =? k'); reflexivity.
    + rewrite IH. destruct (k0 =? k') eqn:E2; [|reflexivity].
      destruct (k =? k') eqn:E3; [|reflexivity]. lia.
Qed.

Lemma keys_dict_set d k v x : In x (keys (dict_set d k v)) <-> In x (keys d) \/ x = k.
Proof.
  unfold keys. induction d as [|[k0 v0] d IH]; cbn.
  - intuition.
  - destruct (k0 =? k) eqn:E; cbn.
    + apply Z.eqb_eq in E. subst. intuition.
    + rewrite IH. intuition.
Qed.

Lemma NoDup_dict_set d k v : NoDup (keys d) -> NoDup (keys (dict_set d k v)).
Proof.
  unfold keys. induction d as [|[k0 v0] d IH]; cbn; intros H.
  - constructor; [intros []|constructor].
  - inversion H as [|? ? Hn Hd]; subst. destruct (k0 =? k) eqn:E; cbn.
    + constructor; assumption.
    + constructor; [|now apply IH]. intros Hin. apply (keys_dict_set d k v k0) in Hin as [Hin|Hin]; [now apply Hn|lia].
Qed.

Lemma lookup_In d k : (exists v, lookup d k = Some v) <-> In k (keys d).
Proof.
  unfold keys. induction d as [|[k0 v0] d IH]; cbn.
  - split; [intros (v & H); discriminate|intros []].
  - destruct (k0 =? k) eqn:E.
    + split; [intros _; left; lia|intros _; eauto].
    + rewrite IH. split; [auto|intros [H|H]; [lia|exact H]].
Qed.

Lemma merge_nv_spec other : forall acc nv, NoDup (keys acc) -> merge_nv acc other = Ok nv ->
  NoDup (keys nv) /\ (forall x, In x (keys nv) <-> In x (keys acc) \/ In x (keys other)).
Proof.
  induction other as [|[k v] other IH]; intros acc nv Hnd; cbn.
  - intros [= <-]. split; [exact Hnd|]. intuition.
  - assert (Hstep : merge_nv (dict_set acc k v) other = Ok nv ->
             NoDup (keys nv) /\ (forall x, In x (keys nv) <-> In x (keys acc) \/ (k = x \/ In x (keys other)))).
    { intros H. apply IH in H; [|now apply NoDup_dict_set]. destruct H as [H1 H2]. split; [exact H1|].
      intros x. rewrite H2, keys_dict_set. intuition. }
    destruct (lookup acc k) as [v0|]; [destruct (v0 =? v); cbn [negb]; [exact Hstep|discriminate]|exact Hstep].
Qed.

Lemma bm_make_inv name vox vtx v nv a : bm_make name vox vtx v nv = Ok a ->
  b_name a = name /\ b_voxel a = vox /\ b_vertex a = vtx
  /\ b_nv a = filter (fun kv => zmem (fst kv) name) nv.
Proof.
  unfold bm_make.
  repeat match goal with |- context [if ?c then Err _ else _] => destruct c; [discriminate|] end.
  intros [= <-]. cbn. auto.
Qed.

Lemma is_surf_bool_eq nv nv' x : (In x (keys nv) <-> In x (keys nv')) -> is_surf nv x = is_surf nv' x.
Proof.
  intros H. destruct (is_surf nv x) eqn:E1, (is_surf nv' x) eqn:E2; try reflexivity.
  - apply is_surf_keys in E1. apply H in E1. apply is_surf_keys in E1. congruence.
  - apply is_surf_keys in E2. apply H in E2. apply is_surf_keys in E2. congruence.
Qed.

(* a structure is a surface in both axes or in neither *)
Definition kinds_agree (a b : bm) : Prop :=
  (forall x, In x (b_name a) -> In x (keys (b_nv b)) -> In x (keys (b_nv a)))
  /\ (forall x, In x (b_name b) -> In x (keys (b_nv a)) -> In x (keys (b_nv b))).

Lemma bm_elems_app nv n1 x1 t1 n2 x2 t2 : length x1 = length n1 -> length t1 = length n1 ->
  bm_elems nv (n1 ++ n2) (x1 ++ x2) (t1 ++ t2) = bm_elems nv n1 x1 t1 ++ bm_elems nv n2 x2 t2.
Proof.
  intros H1 H2. unfold bm_elems. rewrite (combine_app n1 n2) by lia.
  rewrite combine_app by (rewrite combine_length; lia). apply map_app.
Qed.

Lemma bm_elems_ext nv nv' n x t : (forall y, In y n -> is_surf nv y = is_surf nv' y) ->
  bm_elems nv n x t = bm_elems nv' n x t.
Proof.
  intros H. unfold bm_elems. apply map_ext_in. intros [[y vx] vt] Hp. cbn [fst snd].
  apply in_combine_l in Hp. apply in_combine_l in Hp. unfold bm_elem. now rewrite (H y Hp).
Qed.

(* a + b describes the rows of a followed by the rows of b *)
Lemma bm_concat a b c : bm_wf a -> bm_wf b -> kinds_agree a b -> bm_add a b = Ok c ->
  bm_wf c /\ bm_elements c = bm_elements a ++ bm_elements b /\ bm_len c = bm_len a + bm_len b.
Proof.
  intros (Ha1 & Ha2 & _ & _ & _ & _ & Hnda) (Hb1 & Hb2 & _) [Hk1 Hk2]. unfold bm_add.
  destruct (merge_vol (b_vol a) (b_vol b)) as [v|]; [|discriminate].
  destruct (merge_nv (b_nv a) (b_nv b)) as [nv|] eqn:Em; [|discriminate].
  apply merge_nv_spec in Em as [Hnd Hkeys]; [|exact Hnda].
  intros Hmk. split; [eapply bm_make_wf; [exact Hnd|exact Hmk]|].
  apply bm_make_inv in Hmk as (Hn & Hx & Ht & Hv).
  unfold bm_elements, bm_len. rewrite Hn, Hx, Ht, Hv. split; [|apply zlen_app].
  rewrite bm_elems_app by assumption. f_equal.
  - apply bm_elems_ext. intros y Hy. rewrite is_surf_filter by (apply in_or_app; now left).
    apply is_surf_bool_eq. rewrite Hkeys. split; [intros [H|H]; [exact H|now apply Hk1]|auto].
  - apply bm_elems_ext. intros y Hy. rewrite is_surf_filter by (apply in_or_app; now right).
    apply is_surf_bool_eq. rewrite Hkeys. split; [intros [H|H]; [now apply Hk2|exact H]|auto].
Qed.

(* ================================================================== iter_structures: maximal runs *)
Definition stop_of (e : option Z) (n : Z) : Z := match e with None => n | Some e' => e' end.
Definition const_on (names : list Z) (lo hi nm : Z) : Prop :=
  forall i, lo <= i < hi -> nth (Z.to_nat i) names 0 = nm.

(* the runs start at off, follow each other without gap, are constant, and the last one
   (stop = None) ends the axis *)
Fixpoint chain (names : list Z) (off : Z) (R : list (Z * Z * option Z)) : Prop :=
  match R with
  | [] => False
  | (nm, s, e) :: R' =>
    s = off /\ const_on names off (stop_of e (zlen names)) nm /\
    match e with
    | None => R' = [] /\ off < zlen names
    | Some e' => off < e' < zlen names /\ chain names e' R'
    end
  end.

(* consecutive runs have different names: the runs are maximal *)
Fixpoint maximal (R : list (Z * Z * option Z)) : Prop :=
  match R with
  | r1 :: ((r2 :: _) as R') => fst (fst r1) <> fst (fst r2) /\ maximal R'
  | _ => True
  end.

Lemma skipn_nth_cons {A} (d : A) s l : (s < length l)%nat -> skipn s l = nth s l d :: skipn (S s) l.
Proof.
  revert l. induction s as [|s IH]; intros [|x l] H; cbn in *; try lia; [reflexivity|].
  apply IH. lia.
Qed.

Lemma skipn_cons_inv {A} (d : A) s l x r : skipn s l = x :: r ->
  (s < length l)%nat /\ nth s l d = x /\ skipn (S s) l = r.
Proof.
  intros H. assert (Hl : (s < length l)%nat).
  { destruct (Nat.lt_ge_cases s (length l)) as [Hlt|Hge]; [exact Hlt|]. rewrite skipn_all2 in H by lia. discriminate. }
  rewrite (skipn_nth_cons d) in H by exact Hl. injection H as H1 H2. auto.
Qed.

Lemma runs_loop_chain L : forall rest idx idx_start start_name,
  0 <= idx_start <= idx -> idx <= zlen L -> rest = skipn (Z.to_nat idx) L ->
  const_on L idx_start idx start_name ->
  (idx_start < idx \/ exists r, rest = start_name :: r) ->
  chain L idx_start (runs_loop rest idx idx_start start_name).
Proof.
  induction rest as [|x r IH]; intros idx idx_start start_name H0 H1 Hr Hc Hd.
  - cbn. assert (zlen L = idx).
    { assert (length (skipn (Z.to_nat idx) L) = 0%nat) by (now rewrite <- Hr). rewrite skipn_length in H. unfold zlen in *. lia. }
    split; [reflexivity|]. split; [now rewrite H|]. split; [reflexivity|].
    destruct Hd as [Hd|(r & Hd)]; [lia|discriminate].
  - symmetry in Hr. apply (skipn_cons_inv 0) in Hr as (Hlt & Hx & Hr).
    assert (Hlt' : idx < zlen L) by (unfold zlen; lia).
    replace (S (Z.to_nat idx)) with (Z.to_nat (idx + 1)) in Hr by lia.
    cbn [runs_loop]. destruct (start_name =? x) eqn:E; cbn [negb].
    + apply IH; try lia; [now symmetry|].
      intros i Hi. destruct (Z.eq_dec i idx) as [->|Hne]; [rewrite Hx; lia|apply Hc; lia].
    + cbn [chain stop_of]. split; [reflexivity|]. split; [exact Hc|]. split.
      * destruct Hd as [Hd|(r' & Hd)]; [lia|]. injection Hd as Hd _. lia.
      * apply IH; try lia; [now symmetry|].
        intros i Hi. replace i with idx by lia. exact Hx.
Qed.

Lemma runs_loop_maximal : forall rest idx idx_start start_name,
  maximal (runs_loop rest idx idx_start start_name)
  /\ fst (fst (hd (0, 0, None) (runs_loop rest idx idx_start start_name))) = start_name.
Proof.
  induction rest as [|x r IH]; intros idx idx_start start_name; cbn [runs_loop].
  - cbn. auto.
  - destruct (start_name =? x) eqn:E; cbn [negb].
    + apply IH.
    + destruct (IH (idx + 1) idx x) as [H1 H2]. split; [|reflexivity].
      destruct (runs_loop r (idx + 1) idx x) as [|r2 R'] eqn:ER.
      * cbn. exact I.
      * cbn [maximal]. split; [|exact H1]. cbn in H2. cbn [fst]. rewrite H2. lia.
Qed.

Lemma bm_runs_chain a : b_name a <> [] ->
  exists R, bm_runs a = Ok R /\ chain (b_name a) 0 R /\ maximal R.
Proof.
  intros Hne. unfold bm_runs. destruct (b_name a) as [|n0 nr] eqn:En; [congruence|].
  eexists. split; [reflexivity|]. split; [|apply runs_loop_maximal].
  apply runs_loop_chain; try lia; [apply zlen_nonneg|reflexivity|intros i Hi; lia|right; eauto].
Qed.

(* ================================================================== sub-lists selected by a run *)
Definition sub {A} (s e : Z) (l : list A) : list A := firstn (Z.to_nat (e - s)) (skipn (Z.to_nat s) l).

Lemma py_indices_span n s e : 0 <= s <= stop_of e n -> stop_of e n <= n ->
  py_indices n (mkSl (Some s) e None) = map (fun k => s + k) (zseq (stop_of e n - s)).
Proof.
  intros H1 H2. unfold py_indices, range_of, adjust, step_of, clampv. cbn [s_start s_stop s_step].
  change (1 <? 0) with false. cbn iota.
  replace (if s <? 0 then Z.max (s + n) 0 else Z.min s n) with s by (destruct (s <? 0) eqn:E; lia).
  replace (match e with Some v => if v <? 0 then Z.max (v + n) 0 else Z.min v n | None => n end) with (stop_of e n).
  2:{ destruct e as [v|]; cbn in *; [destruct (v <? 0) eqn:E; lia|reflexivity]. }
  unfold slen. change (0 <? 1) with true. cbn iota.
  replace (if s <? stop_of e n then (stop_of e n - s - 1) / 1 + 1 else 0) with (stop_of e n - s)
    by (destruct (s <? stop_of e n) eqn:E; [rewrite Z.div_1_r|]; lia).
  apply map_ext. intros k. unfold snth. lia.
Qed.

Lemma select_span_nat {A} (d : A) l : forall c s, (s + c <= length l)%nat ->
  map (fun i => nth i l d) (seq s c) = firstn c (skipn s l).
Proof.
  induction c as [|c IH]; intros s H; cbn [seq map firstn]; [reflexivity|].
  rewrite (skipn_nth_cons d) by lia. cbn [firstn]. f_equal. apply IH. lia.
Qed.

Lemma select_span {A} (d : A) l s e : 0 <= s <= e -> e <= zlen l ->
  select d l (map (fun k => s + k) (zseq (e - s))) = sub s e l.
Proof.
  intros H1 H2. unfold sub. rewrite <- (select_span_nat d) by (unfold zlen in H2; lia).
  unfold select, zseq. rewrite !map_map. rewrite (seq_from (Z.to_nat s)), map_map.
  apply map_ext. intros j. f_equal. lia.
Qed.

Lemma sub_length {A} (l : list A) s e : 0 <= s <= e -> e <= zlen l -> zlen (sub s e l) = e - s.
Proof.
  intros H1 H2. unfold sub, zlen in *. rewrite firstn_length, skipn_length. lia.
Qed.

Lemma firstn_plus {A} (l : list A) a b : firstn (a + b) l = firstn a l ++ firstn b (skipn a l).
Proof.
  revert l. induction a as [|a IH]; intros l; cbn; [reflexivity|].
  destruct l as [|x l]; cbn; [now rewrite firstn_nil|]. now rewrite IH.
Qed.

Lemma firstn_sub {A} (l : list A) s e : 0 <= s <= e ->
  firstn (Z.to_nat e) l = firstn (Z.to_nat s) l ++ sub s e l.
Proof.
  intros H. unfold sub. rewrite <- firstn_plus. f_equal. lia.
Qed.

Lemma sub_map {A B} (f : A -> B) l s e : sub s e (map f l) = map f (sub s e l).
Proof. unfold sub. now rewrite skipn_map, firstn_map. Qed.

Lemma skipn_combine {A B} (l : list A) (m : list B) n : skipn n (combine l m) = combine (skipn n l) (skipn n m).
Proof.
  revert l m. induction n as [|n IH]; intros l m; [reflexivity|].
  destruct l as [|x l]; [reflexivity|]. destruct m as [|y m]; cbn; [now destruct (skipn n l)|apply IH].
Qed.

Lemma sub_combine {A B} (l : list A) (m : list B) s e : sub s e (combine l m) = combine (sub s e l) (sub s e m).
Proof. unfold sub. now rewrite skipn_combine, combine_firstn. Qed.

Lemma map_const {A B} (f : A -> B) l y : (forall x, In x l -> f x = y) -> map f l = repeat y (length l).
Proof.
  induction l as [|x l IH]; intros H; cbn; [reflexivity|]. rewrite H by now left. f_equal. apply IH. intros. apply H. now right.
Qed.

(* a constant stretch of names *)
Lemma sub_const names s e nm : 0 <= s <= e -> e <= zlen names -> const_on names s e nm ->
  sub s e names = repeat nm (Z.to_nat (e - s)).
Proof.
  intros H1 H2 Hc. rewrite <- (select_span 0) by assumption.
  unfold select, zseq. rewrite !map_map.
  rewrite (map_const _ _ nm); [now rewrite seq_length|].
  intros j Hj. apply in_seq in Hj. apply Hc. lia.
Qed.

(* ================================================================== to_mapping *)
Definition model_of (a : bm) (r : Z * Z * option Z) : brainmodel :=
  let '(nm, s, e) := r in
  let e' := stop_of e (bm_len a) in
  let surf := is_surf (b_nv a) nm in
  mkModel s (e' - s) surf nm (if surf then lookup (b_nv a) nm else None)
          (if surf then [] else sub s e' (b_voxel a)) (if surf then sub s e' (b_vertex a) else []).

Lemma bm_subaxis a s e : bm_wf a ->
  0 <= s < stop_of e (bm_len a) -> stop_of e (bm_len a) <= bm_len a ->
  exists sb, bm_getitem a (ISlice (mkSl (Some s) e None)) = Ok sb
    /\ b_voxel sb = sub s (stop_of e (bm_len a)) (b_voxel a)
    /\ b_vertex sb = sub s (stop_of e (bm_len a)) (b_vertex a)
    /\ bm_len sb = stop_of e (bm_len a) - s.
Proof.
  intros Hw H1 H2. set (e' := stop_of e (bm_len a)) in *.
  assert (Hr : resolve (bm_len a) (ISlice (mkSl (Some s) e None)) = Ok (map (fun k => s + k) (zseq (e' - s)))).
  { cbn [resolve]. unfold step_of at 1. cbn [s_step]. change (1 =? 0) with false. cbn iota.
    f_equal. apply py_indices_span; unfold e' in *; lia. }
  assert (Hlen : zlen (map (fun k => s + k) (zseq (e' - s))) = e' - s) by (rewrite zlen_map; apply zseq_length; lia).
  destruct (bm_index a _ _ Hw Hr) as (sb & Hg & _ & _ & Hl & _).
  exists sb. split; [exact Hg|].
  unfold bm_getitem in Hg. rewrite Hr in Hg. apply bm_make_inv in Hg as (_ & Hx & Ht & _).
  destruct Hw as (Hl1 & Hl2 & _).
  rewrite Hx, Ht, Hl, Hlen. unfold bm_len in *.
  rewrite !select_span by (unfold zlen in *; lia). auto.
Qed.

Lemma with_subaxes_chain a : bm_wf a -> forall R off, 0 <= off -> chain (b_name a) off R ->
  exists structs, with_subaxes a R = Ok structs /\ map (struct_model a) structs = map (model_of a) R.
Proof.
  intros Hw. induction R as [|[[nm s] e] R IH]; intros off Hoff Hc; [destruct Hc|].
  cbn [chain] in Hc. destruct Hc as (-> & Hconst & Hrest).
  fold (bm_len a) in Hconst, Hrest.
  assert (Hse : 0 <= off < stop_of e (bm_len a) /\ stop_of e (bm_len a) <= bm_len a).
  { destruct e as [e'|]; cbn [stop_of]; [destruct Hrest as [? _]|destruct Hrest as [_ ?]]; lia. }
  destruct (bm_subaxis a off e Hw) as (sb & Hg & Hx & Ht & Hl); try lia.
  cbn [with_subaxes]. rewrite Hg.
  assert (Hm : struct_model a (nm, off, sb) = model_of a (nm, off, e)).
  { unfold struct_model, model_of. rewrite Hx, Ht, Hl. reflexivity. }
  destruct e as [e'|].
  - destruct Hrest as [Hr1 Hr2]. destruct (IH e' ltac:(lia) Hr2) as (structs & Hs1 & Hs2).
    rewrite Hs1. eexists. split; [reflexivity|]. cbn [map]. now rewrite Hm, Hs2.
  - destruct Hrest as [-> _]. cbn [with_subaxes]. eexists. split; [reflexivity|]. cbn [map]. now rewrite Hm.
Qed.

Lemma bm_to_mapping_spec a : bm_wf a -> b_name a <> [] ->
  exists R, chain (b_name a) 0 R /\ maximal R /\
    bm_to_mapping a = Ok (mkMap (map (model_of a) R)
                                (if existsb (fun m => negb (m_surf m)) (map (model_of a) R)
                                 then b_vol a else None)).
Proof.
  intros Hw Hne. destruct (bm_runs_chain a) as (R & HR & Hc & Hm); [exact Hne|].
  exists R. split; [exact Hc|]. split; [exact Hm|].
  destruct (with_subaxes_chain a Hw R 0 ltac:(lia) Hc) as (structs & Hs1 & Hs2).
  unfold bm_to_mapping, bm_iter_structures. rewrite HR, Hs1, Hs2. reflexivity.
Qed.

(* ================================================================== from_index_mapping *)
Definition canonV (nv : nvdict) (names vtx : list Z) : list Z :=
  map (fun p => if is_surf nv (fst p) then snd p else -1) (combine names vtx).
Definition canonX (nv : nvdict) (names : list Z) (vox : list ijk) : list ijk :=
  map (fun p => if is_surf nv (fst p) then no_ijk else snd p) (combine names vox).

Lemma adjust_span n s e : 0 <= s <= e -> e <= n -> adjust n (mkSl (Some s) (Some e) None) = (s, e, 1).
Proof.
  intros H1 H2. unfold adjust, step_of, clampv. cbn [s_start s_stop s_step]. change (1 <? 0) with false. cbn iota.
  destruct (s <? 0) eqn:E1; destruct (e <? 0) eqn:E2; try lia. repeat f_equal; lia.
Qed.

Lemma skipn_repeat {A} (d : A) k n : skipn k (repeat d n) = repeat d (n - k).
Proof.
  revert n. induction k as [|k IH]; intros n; [now rewrite Nat.sub_0_r|].
  destruct n as [|n]; cbn; [reflexivity|apply IH].
Qed.

Lemma set_range_fill {A} (d : A) P vals s e n : 0 <= s <= e -> e <= n -> zlen P = s -> zlen vals = e - s ->
  set_range s e vals (P ++ repeat d (Z.to_nat (n - s))) = Ok (P ++ vals ++ repeat d (Z.to_nat (n - e))).
Proof.
  intros H1 H2 HP Hv. unfold set_range.
  assert (Hl : zlen (P ++ repeat d (Z.to_nat (n - s))) = n).
  { rewrite zlen_app, HP. unfold zlen. rewrite repeat_length. lia. }
  rewrite Hl, adjust_span by lia.
  assert (Hc : slen (s, e, 1) = e - s).
  { unfold slen. change (0 <? 1) with true. cbn iota. destruct (s <? e) eqn:E; [rewrite Z.div_1_r|]; lia. }
  rewrite Hc, Hv, Z.eqb_refl. f_equal.
  assert (HP' : length P = Z.to_nat s) by (unfold zlen in HP; lia).
  rewrite firstn_app, <- HP', firstn_all, Nat.sub_diag. cbn [firstn]. rewrite app_nil_r. f_equal. f_equal.
  rewrite skipn_app, skipn_all2 by lia. cbn [app]. rewrite skipn_repeat. f_equal. lia.
Qed.

Lemma map_combine_repeat {A B C} (f : A * B -> C) (x : A) (g : B -> C) vs c :
  length vs = c -> (forall t, f (x, t) = g t) -> map f (combine (repeat x c) vs) = map g vs.
Proof.
  intros Hl Hf. subst c. induction vs as [|t vs IH]; cbn; [reflexivity|]. now rewrite Hf, IH.
Qed.

Lemma map_repeat' {A B} (f : A -> B) x c : map f (repeat x c) = repeat (f x) c.
Proof. induction c as [|c IH]; cbn; [reflexivity|now rewrite IH]. Qed.

Lemma zmem_app x l m : zmem x (l ++ m) = zmem x l || zmem x m.
Proof. unfold zmem. apply existsb_app. Qed.
Lemma zmem_repeat x y c : (0 < c)%nat -> zmem x (repeat y c) = (x =? y).
Proof.
  intros H. destruct c as [|c]; [lia|]. clear H. unfold zmem. cbn. induction c as [|c IH]; cbn; [apply orb_false_r|].
  rewrite IH. apply orb_diag.
Qed.

Lemma forallb_repeat (b : bool) c : (0 < c)%nat -> forallb (fun x => x) (repeat b c) = b.
Proof.
  intros H. destruct c as [|c]; [lia|]. clear H. induction c as [|c IH]; cbn; [apply andb_true_r|].
  cbn in IH. rewrite IH. apply andb_diag.
Qed.

Definition dinv (a : bm) (off : Z) (st : decode_state) : Prop :=
  ds_name st = firstn (Z.to_nat off) (b_name a)
  /\ ds_vertex st = firstn (Z.to_nat off) (canonV (b_nv a) (b_name a) (b_vertex a))
                    ++ repeat (-1) (Z.to_nat (bm_len a - off))
  /\ ds_voxel st = firstn (Z.to_nat off) (canonX (b_nv a) (b_name a) (b_voxel a))
                   ++ repeat no_ijk (Z.to_nat (bm_len a - off))
  /\ NoDup (keys (ds_nv st))
  /\ (forall k, lookup (ds_nv st) k
                = if zmem k (firstn (Z.to_nat off) (b_name a)) && is_surf (b_nv a) k
                  then lookup (b_nv a) k else None)
  /\ ds_vol st = if forallb (fun b => b) (firstn (Z.to_nat off) (bm_surface_mask a)) then None else b_vol a.

Lemma canonV_length a : bm_wf a -> zlen (canonV (b_nv a) (b_name a) (b_vertex a)) = bm_len a.
Proof. intros (_ & H & _). unfold canonV, bm_len. rewrite zlen_map. apply zlen_combine. lia. Qed.
Lemma canonX_length a : bm_wf a -> zlen (canonX (b_nv a) (b_name a) (b_voxel a)) = bm_len a.
Proof. intros (H & _). unfold canonX, bm_len. rewrite zlen_map. apply zlen_combine. lia. Qed.

Lemma zlen_firstn {A} (l : list A) k : 0 <= k <= zlen l -> zlen (firstn (Z.to_nat k) l) = k.
Proof. intros H. unfold zlen in *. rewrite firstn_length. lia. Qed.

(* one brain model written by to_mapping, read by from_index_mapping *)
Lemma decode_step_run a mvol nm s e st : bm_wf a ->
  0 <= s < stop_of e (bm_len a) -> stop_of e (bm_len a) <= bm_len a ->
  const_on (b_name a) s (stop_of e (bm_len a)) nm ->
  (is_surf (b_nv a) nm = false -> mvol = b_vol a) ->
  dinv a s st ->
  exists st', decode_step mvol (Ok st) (model_of a (nm, s, e)) = Ok st'
              /\ dinv a (stop_of e (bm_len a)) st'.
Proof.
  intros Hw Hs He Hc Hmv (I1 & I2 & I3 & I4 & I5 & I6).
  set (e' := stop_of e (bm_len a)) in *. set (n := bm_len a) in *.
  pose proof Hw as (Hl1 & Hl2 & Hb1 & Hb2 & Hv & Hk & Hnd).
  assert (Hc0 : (0 < Z.to_nat (e' - s))%nat) by lia.
  assert (Hnames : sub s e' (b_name a) = repeat nm (Z.to_nat (e' - s))) by (apply sub_const; [lia|exact He|exact Hc]).
  assert (Hname' : firstn (Z.to_nat e') (b_name a) = firstn (Z.to_nat s) (b_name a) ++ repeat nm (Z.to_nat (e' - s)))
    by (rewrite <- Hnames; apply firstn_sub; lia).
  assert (Hsm : firstn (Z.to_nat e') (bm_surface_mask a)
                = firstn (Z.to_nat s) (bm_surface_mask a) ++ repeat (is_surf (b_nv a) nm) (Z.to_nat (e' - s))).
  { rewrite (firstn_sub _ s e') by lia. f_equal. unfold bm_surface_mask. rewrite sub_map, Hnames. apply map_repeat'. }
  assert (HsubV : zlen (sub s e' (b_vertex a)) = e' - s) by (apply sub_length; unfold n, bm_len, zlen in *; lia).
  assert (HsubX : zlen (sub s e' (b_voxel a)) = e' - s) by (apply sub_length; unfold n, bm_len, zlen in *; lia).
  assert (HcV : sub s e' (canonV (b_nv a) (b_name a) (b_vertex a))
                = map (fun t => if is_surf (b_nv a) nm then t else -1) (sub s e' (b_vertex a))).
  { unfold canonV. rewrite sub_map, sub_combine, Hnames. apply map_combine_repeat; [unfold zlen in HsubV; lia|reflexivity]. }
  assert (HcX : sub s e' (canonX (b_nv a) (b_name a) (b_voxel a))
                = map (fun x => if is_surf (b_nv a) nm then no_ijk else x) (sub s e' (b_voxel a))).
  { unfold canonX. rewrite sub_map, sub_combine, Hnames. apply map_combine_repeat; [unfold zlen in HsubX; lia|reflexivity]. }
  assert (Hrep : forall {A} (d : A), repeat d (Z.to_nat (n - s)) = repeat d (Z.to_nat (e' - s)) ++ repeat d (Z.to_nat (n - e'))).
  { intros A d. rewrite <- repeat_app. f_equal. lia. }
  assert (Hzm : forall k, zmem k (firstn (Z.to_nat e') (b_name a))
                          = zmem k (firstn (Z.to_nat s) (b_name a)) || (k =? nm)).
  { intros k. rewrite Hname', zmem_app, zmem_repeat by exact Hc0. reflexivity. }
  unfold model_of. fold n. fold e'. unfold decode_step.
  cbn [m_off m_cnt m_surf m_name m_nvert m_vox m_vtx].
  replace (s + (e' - s)) with e' by lia.
  destruct (is_surf (b_nv a) nm) eqn:Esurf.
  - (* surface structure *)
    rewrite I2. rewrite (set_range_fill (-1) _ _ s e' n); try lia;
      [|apply zlen_firstn; rewrite canonV_length by exact Hw; fold n; lia].
    eexists. split; [reflexivity|].
    unfold dinv. cbn [ds_name ds_vertex ds_voxel ds_nv ds_vol]. fold n.
    split; [rewrite I1; now rewrite Hname'|].
    split.
    { rewrite (firstn_sub _ s e') by lia. rewrite HcV, map_id, <- app_assoc. reflexivity. }
    split.
    { rewrite I3, (firstn_sub _ s e') by lia. rewrite HcX, <- app_assoc. f_equal.
      rewrite (map_const _ _ no_ijk) by reflexivity. rewrite Hrep. f_equal. f_equal. unfold zlen in HsubX. lia. }
    split; [now apply NoDup_dict_set|].
    split.
    { intros k. rewrite lookup_dict_set, Hzm, I5.
      destruct (nm =? k) eqn:Ek.
      - apply Z.eqb_eq in Ek. subst k. rewrite Z.eqb_refl, orb_true_r, Esurf. cbn [andb].
        apply is_surf_keys, lookup_In in Esurf as (v & Hv'). now rewrite Hv'.
      - replace (k =? nm) with false by lia. now rewrite orb_false_r. }
    rewrite I6, Hsm, forallb_app, forallb_repeat by exact Hc0. now rewrite andb_true_r.
  - (* voxel structure *)
    rewrite I3. rewrite (set_range_fill no_ijk _ _ s e' n); try lia;
      [|apply zlen_firstn; rewrite canonX_length by exact Hw; fold n; lia].
    assert (Hvol : b_vol a <> None).
    { intros E. apply Hv in E. unfold bm_surface_mask in E. rewrite forallb_forall in E.
      assert (is_surf (b_nv a) nm = true); [|congruence]. apply E. apply in_map.
      rewrite <- (Hc s ltac:(lia)). apply nth_In. unfold n, bm_len, zlen in *. lia. }
    assert (Hfa : forallb (fun b => b) (firstn (Z.to_nat e') (bm_surface_mask a)) = false).
    { rewrite Hsm, forallb_app, forallb_repeat by exact Hc0. apply andb_false_r. }
    assert (Hst' : exists v, (match ds_vol st with
                              | Some _ => Ok (mkDs (ds_name st ++ repeat nm (Z.to_nat (e' - s)))
                                   (firstn (Z.to_nat s) (canonX (b_nv a) (b_name a) (b_voxel a)) ++ sub s e' (b_voxel a) ++ repeat no_ijk (Z.to_nat (n - e')))
                                   (ds_vertex st) (ds_nv st) (ds_vol st))
                              | None => match mvol with
                                        | None => Err ENoVolume
                                        | Some v => Ok (mkDs (ds_name st ++ repeat nm (Z.to_nat (e' - s)))
                                   (firstn (Z.to_nat s) (canonX (b_nv a) (b_name a) (b_voxel a)) ++ sub s e' (b_voxel a) ++ repeat no_ijk (Z.to_nat (n - e')))
                                   (ds_vertex st) (ds_nv st) (Some v))
                                        end
                              end) = Ok (mkDs (ds_name st ++ repeat nm (Z.to_nat (e' - s)))
                                   (firstn (Z.to_nat s) (canonX (b_nv a) (b_name a) (b_voxel a)) ++ sub s e' (b_voxel a) ++ repeat no_ijk (Z.to_nat (n - e')))
                                   (ds_vertex st) (ds_nv st) v) /\ v = b_vol a).
    { rewrite I6. destruct (forallb (fun b => b) (firstn (Z.to_nat s) (bm_surface_mask a))).
      - rewrite (Hmv eq_refl). destruct (b_vol a) as [v|]; [|congruence]. eexists. split; reflexivity.
      - destruct (b_vol a) as [v|]; [|congruence]. eexists. split; reflexivity. }
    destruct Hst' as (v & Hst' & Hvv). rewrite Hst'. eexists. split; [reflexivity|].
    unfold dinv. cbn [ds_name ds_vertex ds_voxel ds_nv ds_vol]. fold n.
    split; [rewrite I1; now rewrite Hname'|].
    split.
    { rewrite I2, (firstn_sub _ s e') by lia. rewrite HcV, <- app_assoc. f_equal.
      rewrite (map_const _ _ (-1)) by reflexivity. rewrite Hrep. f_equal. f_equal. unfold zlen in HsubV. lia. }
    split.
    { rewrite (firstn_sub _ s e') by lia. rewrite HcX, map_id, <- app_assoc. reflexivity. }
    split; [exact I4|].
    split.
    { intros k. rewrite I5, Hzm. destruct (k =? nm) eqn:Ek.
      - apply Z.eqb_eq in Ek. subst k. rewrite Esurf, !andb_false_r. reflexivity.
      - now rewrite orb_false_r. }
    now rewrite Hfa.
Qed.

Lemma decode_fold a mvol : bm_wf a -> forall R off st, 0 <= off -> chain (b_name a) off R ->
  (forall r, In r R -> m_surf (model_of a r) = false -> mvol = b_vol a) ->
  dinv a off st ->
  exists st', fold_left (decode_step mvol) (map (model_of a) R) (Ok st) = Ok st' /\ dinv a (bm_len a) st'.
Proof.
  intros Hw. induction R as [|[[nm s] e] R IH]; intros off st Hoff Hc Hmv Hinv; [destruct Hc|].
  cbn [chain] in Hc. destruct Hc as (-> & Hconst & Hrest). fold (bm_len a) in Hconst, Hrest.
  assert (Hse : 0 <= off < stop_of e (bm_len a) /\ stop_of e (bm_len a) <= bm_len a).
  { destruct e as [e'|]; cbn [stop_of]; [destruct Hrest as [? _]|destruct Hrest as [_ ?]]; lia. }
  destruct (decode_step_run a mvol nm off e st Hw) as (st1 & Hst1 & Hinv1); try lia; try assumption.
  { intros Hs. apply (Hmv (nm, off, e)); [now left|]. cbn. exact Hs. }
  cbn [map fold_left]. rewrite Hst1.
  destruct e as [e'|]; cbn [stop_of] in *.
  - destruct Hrest as [Hr1 Hr2]. apply (IH e' st1); try lia; try assumption.
    intros r Hr. apply Hmv. now right.
  - destruct Hrest as [-> _]. cbn. eauto.
Qed.

Lemma chain_counts a : forall R off, chain (b_name a) off R ->
  fold_right (fun m acc => m_cnt m + acc) 0 (map (model_of a) R) = bm_len a - off.
Proof.
  induction R as [|[[nm s] e] R IH]; intros off Hc; [destruct Hc|].
  cbn [chain] in Hc. destruct Hc as (-> & _ & Hrest). fold (bm_len a) in Hrest.
  cbn [map fold_right model_of m_cnt]. destruct e as [e'|]; cbn [stop_of].
  - destruct Hrest as [_ Hr]. rewrite (IH e' Hr). lia.
  - destruct Hrest as [-> _]. cbn. lia.
Qed.

Lemma lookup_NoDup d k v : NoDup (keys d) -> In (k, v) d -> lookup d k = Some v.
Proof.
  unfold keys. induction d as [|[k0 v0] d IH]; cbn; intros Hnd Hin; [destruct Hin|].
  inversion Hnd as [|? ? Hn Hd]; subst. destruct Hin as [Hin|Hin].
  - injection Hin as -> ->. now rewrite Z.eqb_refl.
  - destruct (k0 =? k) eqn:E; [|now apply IH]. apply Z.eqb_eq in E. subst k0.
    exfalso. apply Hn. apply in_map_iff. now exists (k, v).
Qed.

Lemma dict_eqb_of_lookup d1 d2 : NoDup (keys d1) -> NoDup (keys d2) ->
  (forall k, lookup d1 k = lookup d2 k) -> dict_eqb d1 d2 = true.
Proof.
  intros H1 H2 Hl. unfold dict_eqb. apply andb_true_iff. split.
  - apply zlen_eqb.
    assert (Hi1 : incl (keys d1) (keys d2)) by (intros k Hk; apply lookup_In; rewrite <- Hl; now apply lookup_In).
    assert (Hi2 : incl (keys d2) (keys d1)) by (intros k Hk; apply lookup_In; rewrite Hl; now apply lookup_In).
    pose proof (NoDup_incl_length H1 Hi1). pose proof (NoDup_incl_length H2 Hi2).
    unfold keys in *. rewrite !map_length in *. lia.
  - apply forallb_forall. intros [k v] Hin. cbn [fst snd]. rewrite <- Hl, (lookup_NoDup d1 k v H1 Hin). apply Z.eqb_refl.
Qed.

Lemma list_eqb_refl l : list_eqb l l = true.
Proof.
  unfold list_eqb. rewrite Z.eqb_refl. cbn [andb]. induction l as [|x l IH]; cbn; [reflexivity|]. now rewrite Z.eqb_refl.
Qed.
Lemma shape_eqb_refl s : shape_eqb s s = true.
Proof. destruct s as [[a b] c]. cbn. now rewrite !Z.eqb_refl. Qed.
Lemma ijks_eqb_refl l : ijks_eqb l l = true.
Proof. induction l as [|x l IH]; cbn; [reflexivity|]. unfold ijk_eqb. now rewrite shape_eqb_refl. Qed.
Lemma opt_vol_eqb_refl v : opt_vol_eqb v v = true.
Proof. destruct v as [[aff sh]|]; cbn; [|reflexivity]. unfold vol_eqb. cbn. now rewrite list_eqb_refl, shape_eqb_refl. Qed.

Lemma bm_eqb_fields x y : b_name x = b_name y -> b_vol x = b_vol y ->
  NoDup (keys (b_nv x)) -> NoDup (keys (b_nv y)) -> (forall k, lookup (b_nv x) k = lookup (b_nv y) k) ->
  masked (map negb (bm_surface_mask x)) (b_voxel x) = masked (map negb (bm_surface_mask y)) (b_voxel y) ->
  masked (bm_surface_mask x) (b_vertex x) = masked (bm_surface_mask y) (b_vertex y) ->
  bm_eqb x y = true.
Proof.
  intros Hn Hv H1 H2 Hl Hx Ht. unfold bm_eqb, bm_len. rewrite Hn, Hv, Hx, Ht.
  rewrite Z.eqb_refl, xorb_nilpotent, opt_vol_eqb_refl, orb_true_r, (dict_eqb_of_lookup _ _ H1 H2 Hl).
  now rewrite !list_eqb_refl, ijks_eqb_refl.
Qed.

Lemma canon_vtx_ok nv : forall names vtx,
  existsb vtx_bad (combine (map (is_surf nv) names) vtx) = false ->
  existsb vtx_bad (combine (map (is_surf nv) names) (canonV nv names vtx)) = false.
Proof.
  induction names as [|n names IH]; intros [|t vtx]; cbn; try reflexivity.
  intros H. apply orb_false_iff in H as [H1 H2]. apply orb_false_iff. split; [|now apply IH].
  unfold vtx_bad in *. cbn [fst snd] in *. destruct (is_surf nv n); [exact H1|reflexivity].
Qed.
Lemma canon_vox_ok nv : forall names vox,
  existsb vox_bad (combine (map (is_surf nv) names) vox) = false ->
  existsb vox_bad (combine (map (is_surf nv) names) (canonX nv names vox)) = false.
Proof.
  induction names as [|n names IH]; intros [|t vox]; cbn; try reflexivity.
  intros H. apply orb_false_iff in H as [H1 H2]. apply orb_false_iff. split; [|now apply IH].
  unfold vox_bad in *. cbn [fst snd] in *. destruct (is_surf nv n); [reflexivity|exact H1].
Qed.
Lemma masked_canonV nv : forall names vtx,
  masked (map (is_surf nv) names) (canonV nv names vtx) = masked (map (is_surf nv) names) vtx.
Proof.
  induction names as [|n names IH]; intros [|t vtx]; cbn; try reflexivity.
  fold (canonV nv names vtx). destruct (is_surf nv n); now rewrite IH.
Qed.
Lemma masked_canonX nv : forall names vox,
  masked (map negb (map (is_surf nv) names)) (canonX nv names vox) = masked (map negb (map (is_surf nv) names)) vox.
Proof.
  induction names as [|n names IH]; intros [|t vox]; cbn; try reflexivity.
  fold (canonX nv names vox). destruct (is_surf nv n); cbn; now rewrite IH.
Qed.
Lemma bm_elems_canon nv : forall names vox vtx,
  bm_elems nv names (canonX nv names vox) (canonV nv names vtx) = bm_elems nv names vox vtx.
Proof.
  unfold bm_elems. induction names as [|n names IH]; intros [|x vox] [|t vtx]; cbn; try reflexivity.
  fold (canonX nv names vox). fold (canonV nv names vtx). rewrite IH. f_equal.
  unfold bm_elem. now destruct (is_surf nv n).
Qed.

Lemma filter_all {A} (P : A -> bool) l : (forall x, In x l -> P x = true) -> filter P l = l.
Proof.
  induction l as [|x l IH]; cbn; intros H; [reflexivity|]. rewrite (H x) by now left. f_equal. apply IH. intros. apply H. now right.
Qed.

(* THE round trip: from_index_mapping (to_mapping a) is an axis equal to a (== both ways),
   with the same element descriptions, for every well-formed non-empty brain-model axis,
   whatever the order and interleaving of its structures *)
Lemma bm_rle_roundtrip a : bm_wf a -> b_name a <> [] ->
  exists m a', bm_to_mapping a = Ok m /\ bm_from_mapping m = Ok a'
    /\ bm_wf a' /\ bm_eqb a' a = true /\ bm_eqb a a' = true
    /\ bm_elements a' = bm_elements a /\ b_name a' = b_name a /\ b_vol a' = b_vol a.
Proof.
  intros Hw Hne. destruct (bm_to_mapping_spec a Hw Hne) as (R & Hc & _ & Hm).
  pose proof Hw as (Hl1 & Hl2 & Hb1 & Hb2 & Hv & Hk & Hnd).
  set (mp := mkMap (map (model_of a) R) (if existsb (fun m => negb (m_surf m)) (map (model_of a) R) then b_vol a else None)) in *.
  exists mp. cut (exists a', bm_from_mapping mp = Ok a'
    /\ bm_wf a' /\ bm_eqb a' a = true /\ bm_eqb a a' = true
    /\ bm_elements a' = bm_elements a /\ b_name a' = b_name a /\ b_vol a' = b_vol a).
  { intros (a' & H). exists a'. split; [exact Hm|exact H]. }
  unfold bm_from_mapping, mp. cbn [mp_models mp_vol].
  rewrite (chain_counts a R 0 Hc), Z.sub_0_r.
  set (mvol := if existsb (fun m => negb (m_surf m)) (map (model_of a) R) then b_vol a else None).
  destruct (decode_fold a mvol Hw R 0 (mkDs [] (repeat no_ijk (Z.to_nat (bm_len a))) (repeat (-1) (Z.to_nat (bm_len a))) [] None)
              ltac:(lia) Hc) as (st & Hst & I1 & I2 & I3 & I4 & I5 & I6).
  { intros r Hr Hs. unfold mvol.
    replace (existsb (fun m => negb (m_surf m)) (map (model_of a) R)) with true; [reflexivity|].
    symmetry. apply existsb_exists. exists (model_of a r). split; [now apply in_map|]. now rewrite Hs. }
  { unfold dinv. cbn [ds_name ds_vertex ds_voxel ds_nv ds_vol firstn app]. rewrite Z.sub_0_r.
    repeat split; try reflexivity. constructor. }
  rewrite Hst.
  assert (Hn : Z.to_nat (bm_len a) = length (b_name a)) by (unfold bm_len, zlen; lia).
  assert (HnV : Z.to_nat (bm_len a) = length (canonV (b_nv a) (b_name a) (b_vertex a)))
    by (rewrite <- (canonV_length a Hw); unfold zlen; lia).
  assert (HnX : Z.to_nat (bm_len a) = length (canonX (b_nv a) (b_name a) (b_voxel a)))
    by (rewrite <- (canonX_length a Hw); unfold zlen; lia).
  assert (Hsmn : Z.to_nat (bm_len a) = length (bm_surface_mask a)) by (unfold bm_surface_mask; rewrite map_length; exact Hn).
  rewrite Z.sub_diag in I2, I3. cbn [Z.to_nat repeat] in I2, I3. rewrite app_nil_r in I2, I3.
  rewrite HnV, firstn_all in I2. rewrite HnX, firstn_all in I3. rewrite Hn, firstn_all in I1, I5.
  rewrite Hsmn, firstn_all in I6.
  assert (Hlk : forall k, lookup (ds_nv st) k = lookup (b_nv a) k).
  { intros k. rewrite I5. destruct (zmem k (b_name a)) eqn:E1; cbn [andb].
    - destruct (is_surf (b_nv a) k) eqn:E2; [reflexivity|].
      destruct (lookup (b_nv a) k) eqn:E3; [|reflexivity].
      assert (In k (keys (b_nv a))) by (apply lookup_In; eauto). apply is_surf_keys in H. congruence.
    - destruct (lookup (b_nv a) k) eqn:E3; [|reflexivity].
      assert (In k (keys (b_nv a))) by (apply lookup_In; eauto). apply Hk, zmem_In in H. congruence. }
  assert (Hsurf : forall x, is_surf (ds_nv st) x = is_surf (b_nv a) x).
  { intros x. apply is_surf_bool_eq. rewrite <- !lookup_In. now rewrite Hlk. }
  assert (Hsm : map (is_surf (ds_nv st)) (b_name a) = bm_surface_mask a) by (apply map_ext; exact Hsurf).
  assert (Hvol : (if forallb (fun b => b) (bm_surface_mask a) then None else ds_vol st) = b_vol a).
  { rewrite I6. destruct (forallb (fun b => b) (bm_surface_mask a)) eqn:E; [|reflexivity]. symmetry. now apply Hv. }
  assert (Hfil : filter (fun kv => zmem (fst kv) (b_name a)) (ds_nv st) = ds_nv st).
  { apply filter_all. intros [k v] Hin. cbn [fst]. apply zmem_In, Hk, lookup_In. rewrite <- Hlk.
    exists v. now apply lookup_NoDup. }
  assert (Hmk : bm_make (ds_name st) (ds_voxel st) (ds_vertex st) (ds_vol st) (ds_nv st)
                = Ok (mkBm (b_name a) (canonX (b_nv a) (b_name a) (b_voxel a)) (canonV (b_nv a) (b_name a) (b_vertex a))
                           (b_vol a) (ds_nv st))).
  { rewrite I1, I2, I3. rewrite bm_make_spec.
    - rewrite Hsm, Hvol, Hfil. reflexivity.
    - unfold canonX. rewrite map_length, combine_length. lia.
    - unfold canonV. rewrite map_length, combine_length. lia.
    - rewrite Hsm, I6. intros E. rewrite E. intros E2. apply Hv in E2. congruence.
    - rewrite Hsm. unfold bm_surface_mask. now apply canon_vtx_ok.
    - rewrite Hsm. unfold bm_surface_mask. now apply canon_vox_ok. }
  rewrite Hmk. eexists. split; [reflexivity|].
  set (a' := mkBm (b_name a) (canonX (b_nv a) (b_name a) (b_voxel a)) (canonV (b_nv a) (b_name a) (b_vertex a)) (b_vol a) (ds_nv st)).
  assert (Hsm' : bm_surface_mask a' = bm_surface_mask a) by exact Hsm.
  split; [eapply bm_make_wf; [exact I4|exact Hmk]|].
  split; [|split; [|split; [|split; reflexivity]]].
  - apply bm_eqb_fields; try assumption; try reflexivity.
    + rewrite Hsm'. unfold bm_surface_mask. apply masked_canonX.
    + rewrite Hsm'. unfold bm_surface_mask. apply masked_canonV.
  - apply bm_eqb_fields; try assumption; try reflexivity.
    + intros k. symmetry. apply Hlk.
    + rewrite Hsm'. unfold bm_surface_mask. symmetry. apply masked_canonX.
    + rewrite Hsm'. unfold bm_surface_mask. symmetry. apply masked_canonV.
  - unfold bm_elements, a'. cbn [b_nv b_name b_voxel b_vertex].
    rewrite (bm_elems_ext (ds_nv st) (b_nv a)) by (intros; apply Hsurf). apply bm_elems_canon.
Qed.

(* ================================================================== header built from axes *)
Section HeaderProofs.
  Context {A M : Type}.
  Variable aeqb : A -> A -> bool.
  Variable enc : A -> res M.
  Variable dec : M -> res A.
  Variable wfA : A -> Prop.
  Hypothesis aeqb_refl : forall a, wfA a -> aeqb a a = true.
  Hypothesis aeqb_trans : forall x y z, aeqb x y = true -> aeqb y z = true -> aeqb x z = true.
  Hypothesis enc_dec : forall a, wfA a -> exists m a', enc a = Ok m /\ dec m = Ok a' /\ aeqb a' a = true.

  Lemma index_of_spec ax : forall prev i j, index_of aeqb ax prev i = Some j ->
    exists x, nth_error prev (j - i) = Some x /\ aeqb x ax = true /\ (i <= j)%nat.
  Proof.
    induction prev as [|x r IH]; intros i j; cbn; [discriminate|].
    destruct (aeqb x ax) eqn:E.
    - intros [= <-]. exists x. rewrite Nat.sub_diag. cbn. auto.
    - intros H. apply IH in H as (y & H1 & H2 & H3). exists y.
      replace (j - i)%nat with (S (j - S i)) by lia. cbn. split; [exact H1|split; [exact H2|lia]].
  Qed.

  Lemma nth_error_append_dim (mat : list (list Z * M)) k dim k' :
    nth_error (append_dim mat k dim) k'
    = if Nat.eqb k' k then option_map (fun p => (fst p ++ [dim], snd p)) (nth_error mat k) else nth_error mat k'.
  Proof.
    revert k k'. induction mat as [|[ds m] mat IH]; intros k k'; cbn.
    - destruct (Nat.eqb k' k); destruct k; destruct k'; reflexivity.
    - destruct k as [|k]; destruct k' as [|k']; cbn; try reflexivity. apply IH.
  Qed.

  Definition hinv (done : list A) (mims_all : list nat) (mat : list (list Z * M)) : Prop :=
    length mims_all = length done
    /\ (forall i x, nth_error done i = Some x ->
          exists ds m r y, nth_error mat (nth i mims_all O) = Some (ds, m) /\ In (Z.of_nat i) ds
                           /\ nth_error done r = Some y /\ enc y = Ok m /\ aeqb y x = true)
    /\ (forall k ds m z, nth_error mat k = Some (ds, m) -> In z ds ->
          exists i, z = Z.of_nat i /\ (i < length done)%nat /\ nth i mims_all O = k).

  Lemma nth_error_lt {T} (l : list T) i x : nth_error l i = Some x -> (i < length l)%nat.
  Proof. intros H. apply nth_error_Some. congruence. Qed.

  Lemma hinv_found done mims mat ax j x : hinv done mims mat ->
    nth_error done j = Some x -> aeqb x ax = true ->
    hinv (done ++ [ax]) (mims ++ [nth j mims O]) (append_dim mat (nth j mims O) (Z.of_nat (length done))).
  Proof.
    intros (H1 & H2 & H3) Hj Hx. set (k := nth j mims O). set (dim := Z.of_nat (length done)).
    destruct (H2 j x Hj) as (ds & m & r & y & Hk & Hin & Hr & He & Hy). fold k in Hk.
    split; [rewrite !app_length; cbn; lia|]. split.
    - intros i x' Hi. destruct (Nat.lt_ge_cases i (length done)) as [Hlt|Hge].
      + rewrite nth_error_app1 in Hi by exact Hlt.
        destruct (H2 i x' Hi) as (ds' & m' & r' & y' & Hk' & Hin' & Hr' & He' & Hy').
        rewrite app_nth1 by lia. rewrite nth_error_append_dim.
        destruct (Nat.eqb (nth i mims O) k) eqn:E.
        * apply Nat.eqb_eq in E. rewrite E in Hk'. rewrite Hk in Hk'. injection Hk' as <- <-.
          rewrite Hk. cbn [option_map fst snd]. exists (ds ++ [dim]), m, r', y'.
          repeat split; try assumption; [apply in_or_app; now left|].
          rewrite nth_error_app1; [exact Hr'|now apply nth_error_lt with y'].
        * exists ds', m', r', y'. repeat split; try assumption.
          rewrite nth_error_app1; [exact Hr'|now apply nth_error_lt with y'].
      + assert (i = length done).
        { apply nth_error_lt in Hi. rewrite app_length in Hi. cbn in Hi. lia. }
        subst i. rewrite nth_error_app2, Nat.sub_diag in Hi by lia. cbn in Hi. injection Hi as <-.
        rewrite app_nth2, H1, Nat.sub_diag by lia. cbn [nth]. rewrite nth_error_append_dim, Nat.eqb_refl, Hk.
        cbn [option_map fst snd]. exists (ds ++ [dim]), m, r, y. repeat split.
        * apply in_or_app. right. now left.
        * rewrite nth_error_app1; [exact Hr|now apply nth_error_lt with y].
        * exact He.
        * now apply aeqb_trans with x.
    - intros k' ds' m' z Hk' Hz. rewrite nth_error_append_dim in Hk'.
      destruct (Nat.eqb k' k) eqn:E.
      + apply Nat.eqb_eq in E. subst k'. rewrite Hk in Hk'. cbn in Hk'. injection Hk' as <- <-.
        apply in_app_or in Hz as [Hz|Hz].
        * destruct (H3 k ds m z Hk Hz) as (i & -> & Hi & Hn). exists i. split; [reflexivity|].
          split; [rewrite app_length; lia|]. rewrite app_nth1 by lia. exact Hn.
        * destruct Hz as [<-|[]]. exists (length done). split; [reflexivity|]. split; [rewrite app_length; cbn; lia|].
          rewrite app_nth2, H1, Nat.sub_diag by lia. reflexivity.
      + destruct (H3 k' ds' m' z Hk' Hz) as (i & -> & Hi & Hn). exists i. split; [reflexivity|].
        split; [rewrite app_length; lia|]. rewrite app_nth1 by lia. exact Hn.
  Qed.

  Lemma hinv_new done mims mat ax m : hinv done mims mat -> wfA ax -> enc ax = Ok m ->
    hinv (done ++ [ax]) (mims ++ [length mat]) (mat ++ [([Z.of_nat (length done)], m)]).
  Proof.
    intros (H1 & H2 & H3) Hw He. set (dim := Z.of_nat (length done)).
    split; [rewrite !app_length; cbn; lia|]. split.
    - intros i x' Hi. destruct (Nat.lt_ge_cases i (length done)) as [Hlt|Hge].
      + rewrite nth_error_app1 in Hi by exact Hlt.
        destruct (H2 i x' Hi) as (ds' & m' & r' & y' & Hk' & Hin' & Hr' & He' & Hy').
        rewrite app_nth1 by lia. exists ds', m', r', y'. repeat split; try assumption.
        * rewrite nth_error_app1; [exact Hk'|now apply nth_error_lt with (ds', m')].
        * rewrite nth_error_app1; [exact Hr'|now apply nth_error_lt with y'].
      + assert (i = length done).
        { apply nth_error_lt in Hi. rewrite app_length in Hi. cbn in Hi. lia. }
        subst i. rewrite nth_error_app2, Nat.sub_diag in Hi by lia. cbn in Hi. injection Hi as <-.
        rewrite app_nth2, H1, Nat.sub_diag by lia. cbn [nth].
        exists [dim], m, (length done), ax. repeat split.
        * rewrite nth_error_app2, Nat.sub_diag by lia. reflexivity.
        * now left.
        * rewrite nth_error_app2, Nat.sub_diag by lia. reflexivity.
        * exact He.
        * now apply aeqb_refl.
    - intros k' ds' m' z Hk' Hz. destruct (Nat.lt_ge_cases k' (length mat)) as [Hlt|Hge].
      + rewrite nth_error_app1 in Hk' by exact Hlt.
        destruct (H3 k' ds' m' z Hk' Hz) as (i & -> & Hi & Hn). exists i. split; [reflexivity|].
        split; [rewrite app_length; lia|]. rewrite app_nth1 by lia. exact Hn.
      + assert (k' = length mat).
        { apply nth_error_lt in Hk'. rewrite app_length in Hk'. cbn in Hk'. lia. }
        subst k'. rewrite nth_error_app2, Nat.sub_diag in Hk' by lia. cbn in Hk'. injection Hk' as <- <-.
        destruct Hz as [<-|[]]. exists (length done). split; [reflexivity|]. split; [rewrite app_length; cbn; lia|].
        rewrite app_nth2, H1, Nat.sub_diag by lia. reflexivity.
  Qed.

  Lemma to_header_loop_inv : forall todo done mims mat, Forall wfA todo -> hinv done mims mat ->
    exists mat' mims', to_header_loop aeqb enc todo done (Z.of_nat (length done)) mims mat = Ok mat'
                       /\ hinv (done ++ todo) mims' mat'.
  Proof.
    induction todo as [|ax r IH]; intros done mims mat Hw Hinv.
    - cbn. exists mat, mims. now rewrite app_nil_r.
    - inversion Hw as [|? ? Hax Hr]; subst. cbn [to_header_loop].
      replace (Z.of_nat (length done) + 1) with (Z.of_nat (length (done ++ [ax]))) by (rewrite app_length; cbn; lia).
      destruct (index_of aeqb ax done 0) as [j|] eqn:Ei.
      + apply index_of_spec in Ei as (x & Hj & Hx & _). rewrite Nat.sub_0_r in Hj.
        destruct (IH (done ++ [ax]) (mims ++ [nth j mims O]) (append_dim mat (nth j mims O) (Z.of_nat (length done))) Hr)
          as (mat' & mims' & H1 & H2); [now apply hinv_found with x|].
        exists mat', mims'. rewrite <- app_assoc in H2. auto.
      + destruct (enc_dec ax Hax) as (m & a' & He & _). rewrite He.
        destruct (IH (done ++ [ax]) (mims ++ [length mat]) (mat ++ [([Z.of_nat (length done)], m)]) Hr)
          as (mat' & mims' & H1 & H2); [now apply hinv_new|].
        exists mat', mims'. rewrite <- app_assoc in H2. auto.
  Qed.

  Lemma get_index_map_unique : forall (mat : list (list Z * M)) k ds m z,
    nth_error mat k = Some (ds, m) -> In z ds ->
    (forall k' ds' m', nth_error mat k' = Some (ds', m') -> In z ds' -> k' = k) ->
    get_index_map mat z = Ok m.
  Proof.
    induction mat as [|[ds0 m0] mat IH]; intros k ds m z Hk Hz Hu; [destruct k; discriminate|].
    cbn [get_index_map]. destruct (existsb (Z.eqb z) ds0) eqn:E.
    - apply existsb_exists in E as (y & Hy & E). apply Z.eqb_eq in E. subst y.
      assert (O = k) by (apply (Hu O ds0 m0); [reflexivity|exact Hy]). subst k. cbn in Hk. now injection Hk as _ ->.
    - destruct k as [|k].
      + cbn in Hk. injection Hk as -> ->. assert (existsb (Z.eqb z) ds = true); [|congruence].
        apply existsb_exists. exists z. split; [exact Hz|apply Z.eqb_refl].
      + cbn in Hk. apply (IH k ds m z Hk Hz). intros k' ds' m' Hk' Hz'.
        assert (S k' = S k) by (apply (Hu (S k') ds' m'); assumption). lia.
  Qed.

  (* building a header from any tuple of axes and asking it for axis i gives an axis equal to
     the i-th one: equal axes share one map, every dimension is listed in exactly one map *)
  Lemma header_get_axis axes : Forall wfA axes ->
    exists mat, to_header aeqb enc axes = Ok mat
      /\ forall i ax, nth_error axes i = Some ax ->
           exists a', get_axis dec mat (Z.of_nat i) = Ok a' /\ aeqb a' ax = true.
  Proof.
    intros Hw. destruct (to_header_loop_inv axes [] [] [] Hw) as (mat & mims & H1 & H2 & H3 & H4).
    { split; [reflexivity|]. split; [intros i x Hi; destruct i; discriminate|]. intros k ds m z Hk; destruct k; discriminate. }
    exists mat. split; [exact H1|]. cbn [app] in *. intros i ax Hi.
    destruct (H3 i ax Hi) as (ds & m & r & y & Hk & Hin & Hr & He & Hy).
    assert (Hg : get_index_map mat (Z.of_nat i) = Ok m).
    { apply (get_index_map_unique mat _ ds m _ Hk Hin). intros k' ds' m' Hk' Hz'.
      destruct (H4 k' ds' m' _ Hk' Hz') as (i' & Hi' & _ & Hn). assert (i' = i) by lia. now subst i'. }
    unfold get_axis. rewrite Hg.
    assert (Hwy : wfA y). { rewrite Forall_forall in Hw. apply Hw. now apply nth_error_In with r. }
    destruct (enc_dec y Hwy) as (m2 & a' & He2 & Hd & Ha). rewrite He in He2. injection He2 as <-.
    exists a'. split; [exact Hd|]. now apply aeqb_trans with y.
  Qed.

  (* every map of the header is to_mapping of one of the axes, and no dimension is listed twice *)
  Lemma In_append_dim (mat : list (list Z * M)) k d e : In e (append_dim mat k d) -> exists e0, In e0 mat /\ snd e0 = snd e.
  Proof.
    revert k. induction mat as [|[ds m] mat IH]; intros k; cbn; [intros []|].
    destruct k as [|k]; cbn.
    - intros [<-|H]; [exists (ds, m); auto|exists e; auto].
    - intros [<-|H]; [exists (ds, m); auto|]. apply IH in H as (e0 & H1 & H2). exists e0. auto.
  Qed.

  Lemma to_header_loop_payloads : forall todo done dim mims mat mat',
    to_header_loop aeqb enc todo done dim mims mat = Ok mat' ->
    (forall e, In e mat -> exists y, In y done /\ enc y = Ok (snd e)) ->
    forall e, In e mat' -> exists y, In y (done ++ todo) /\ enc y = Ok (snd e).
  Proof.
    induction todo as [|ax r IH]; intros done dim mims mat mat'; cbn [to_header_loop].
    - intros [= <-] H e He. rewrite app_nil_r. auto.
    - destruct (index_of aeqb ax done 0) as [j|].
      + intros Hl H e He. replace (done ++ ax :: r) with ((done ++ [ax]) ++ r) by now rewrite <- app_assoc.
        apply (IH _ _ _ _ _ Hl); [|exact He]. intros e1 He1. apply In_append_dim in He1 as (e0 & H1 & H2).
        destruct (H e0 H1) as (y & Hy1 & Hy2). exists y. split; [apply in_or_app; now left|congruence].
      + destruct (enc ax) as [m|] eqn:Ee; [|discriminate].
        intros Hl H e He. replace (done ++ ax :: r) with ((done ++ [ax]) ++ r) by now rewrite <- app_assoc.
        apply (IH _ _ _ _ _ Hl); [|exact He]. intros e1 He1. apply in_app_or in He1 as [He1|[<-|[]]].
        * destruct (H e1 He1) as (y & Hy1 & Hy2). exists y. split; [apply in_or_app; now left|exact Hy2].
        * exists ax. split; [apply in_or_app; right; now left|exact Ee].
  Qed.

  Lemma header_structure axes mat : Forall wfA axes -> to_header aeqb enc axes = Ok mat ->
    (forall e, In e mat -> exists y, In y axes /\ enc y = Ok (snd e))
    /\ (forall k k' e e' z, nth_error mat k = Some e -> nth_error mat k' = Some e' -> In z (fst e) -> In z (fst e') -> k = k').
  Proof.
    intros Hw Ht. split.
    - intros e He. apply (to_header_loop_payloads axes [] 0 [] [] mat Ht); [intros ? []|exact He].
    - destruct (to_header_loop_inv axes [] [] [] Hw) as (mat0 & mims & H1 & _ & _ & H4).
      { split; [reflexivity|]. split; [intros i x Hi; destruct i; discriminate|]. intros k ds m z Hk; destruct k; discriminate. }
      unfold to_header in Ht. cbn [length Z.of_nat] in H1. rewrite H1 in Ht. injection Ht as <-.
      intros k k' [ds m] [ds' m'] z Hk Hk' Hz Hz'. cbn [fst] in *.
      destruct (H4 k ds m z Hk Hz) as (i & -> & _ & Hi). destruct (H4 k' ds' m' _ Hk' Hz') as (i' & Hii & _ & Hi').
      assert (i' = i) by lia. subst. congruence.
  Qed.

  Lemma get_axis_map {M2} (f : M -> M2) (dec2 : M2 -> res A) (mat : list (list Z * M)) z :
    get_axis dec2 (map (fun e => (fst e, f (snd e))) mat) z = get_axis (fun m => dec2 (f m)) mat z.
  Proof.
    unfold get_axis. induction mat as [|[ds m] mat IH]; cbn; [reflexivity|].
    destruct (existsb (Z.eqb z) ds); [reflexivity|exact IH].
  Qed.

  (* ---------------- the file: XML in a NIfTI-2 extension, data reshaped to (1,1,1,1)+shape *)
  Context {X D F : Type}.
  Variable to_xml : list (list Z * M) -> X.
  Variable parse_xml : X -> res (list (list Z * M)).
  Variable alen : A -> Z.
  Variable dshape : D -> list Z.
  Variable nifti_write : list Z -> X -> D -> F.
  Variable nifti_read : F -> res (list Z * option X * D).
  (* oracles: the XML layer and the NIfTI-2 container give back what was written *)
  Hypothesis xml_roundtrip : forall mat, parse_xml (to_xml mat) = Ok mat.
  Hypothesis nifti_roundtrip : forall sh x d, nifti_read (nifti_write sh x d) = Ok (sh, Some x, d).

  Lemma file_roundtrip axes data : Forall wfA axes -> list_eqb (dshape data) (map alen axes) = true ->
    exists f mat, img_save aeqb enc to_xml alen dshape nifti_write axes data = Ok f
      /\ img_load parse_xml nifti_read f = Ok (mat, dshape data, data)
      /\ forall i ax, nth_error axes i = Some ax ->
           exists a', get_axis dec mat (Z.of_nat i) = Ok a' /\ aeqb a' ax = true.
  Proof.
    intros Hw Hs. destruct (header_get_axis axes Hw) as (mat & Hm & Hax).
    unfold img_save. rewrite Hm, Hs. cbn [negb]. eexists. exists mat. split; [reflexivity|].
    split; [|exact Hax]. unfold img_load. rewrite nifti_roundtrip, xml_roundtrip. reflexivity.
  Qed.

  Lemma file_shape_mismatch axes data mat : to_header aeqb enc axes = Ok mat ->
    list_eqb (dshape data) (map alen axes) = false ->
    img_save aeqb enc to_xml alen dshape nifti_write axes data = Err EDataShape.
  Proof. intros Hm Hs. unfold img_save. now rewrite Hm, Hs. Qed.
End HeaderProofs.

(* ================================================================== the five axis kinds: == is an equivalence on well-formed axes *)
Lemma zlen_cons {A} (x : A) l : zlen (x :: l) = 1 + zlen l.
Proof. unfold zlen. cbn [length]. lia. Qed.

Lemma list_eqb_eq a b : list_eqb a b = true <-> a = b.
Proof.
  split; [|intros ->; apply list_eqb_refl].
  revert b. induction a as [|x a IH]; intros [|y b]; unfold list_eqb; intros H; try reflexivity.
  - exfalso. apply andb_true_iff in H as [H _]. rewrite zlen_cons in H. pose proof (zlen_nonneg b). change (zlen (@nil Z)) with 0 in H. lia.
  - exfalso. apply andb_true_iff in H as [H _]. rewrite zlen_cons in H. pose proof (zlen_nonneg a). change (zlen (@nil Z)) with 0 in H. lia.
  - apply andb_true_iff in H as [H1 H2]. rewrite !zlen_cons in H1. cbn [combine forallb fst snd] in H2.
    apply andb_true_iff in H2 as [H2 H3]. f_equal; [lia|]. apply IH. unfold list_eqb.
    apply andb_true_iff. split; [lia|exact H3].
Qed.
Lemma shape_eqb_eq a b : shape_eqb a b = true <-> a = b.
Proof.
  split; [|intros ->; apply shape_eqb_refl]. destruct a as [[a1 a2] a3], b as [[b1 b2] b3]. cbn.
  intros H. apply andb_true_iff in H as [H H3]. apply andb_true_iff in H as [H1 H2]. repeat f_equal; lia.
Qed.
Lemma ijks_eqb_eq a b : ijks_eqb a b = true <-> a = b.
Proof.
  split; [|intros ->; apply ijks_eqb_refl].
  revert b. induction a as [|x a IH]; intros [|y b]; cbn; intros H; try reflexivity; try discriminate.
  apply andb_true_iff in H as [H1 H2]. f_equal; [now apply shape_eqb_eq|now apply IH].
Qed.
Lemma opt_vol_eqb_eq a b : opt_vol_eqb a b = true <-> a = b.
Proof.
  split; [|intros ->; apply opt_vol_eqb_refl].
  destruct a as [[a1 a2]|], b as [[b1 b2]|]; cbn; intros H; try reflexivity; try discriminate.
  unfold vol_eqb in H. cbn in H. apply andb_true_iff in H as [H1 H2].
  apply list_eqb_eq in H1. apply shape_eqb_eq in H2. now subst.
Qed.

Lemma lookup_In_pair d k v : lookup d k = Some v -> In (k, v) d.
Proof.
  induction d as [|[k0 v0] d IH]; cbn; [discriminate|].
  destruct (k0 =? k) eqn:E; [intros [= ->]; left; f_equal; lia|intros H; right; now apply IH].
Qed.
Lemma dict_eqb_trans a b c : dict_eqb a b = true -> dict_eqb b c = true -> dict_eqb a c = true.
Proof.
  unfold dict_eqb. intros H1 H2. apply andb_true_iff in H1 as [L1 F1]. apply andb_true_iff in H2 as [L2 F2].
  apply andb_true_iff. split; [lia|]. rewrite forallb_forall in *. intros [k v] Hin. cbn [fst snd].
  specialize (F1 (k, v) Hin). cbn [fst snd] in F1. destruct (lookup b k) as [v1|] eqn:E1; [|discriminate].
  assert (v1 = v) by lia. subst v1. apply lookup_In_pair in E1. specialize (F2 (k, v) E1). exact F2.
Qed.
Lemma dict_eqb_refl d : NoDup (keys d) -> dict_eqb d d = true.
Proof. intros H. now apply dict_eqb_of_lookup. Qed.

Lemma bm_eqb_iff x y : bm_eqb x y = true <->
  bm_len x = bm_len y /\ is_none (b_vol x) = is_none (b_vol y)
  /\ (is_none (b_vol x) = true \/ b_vol x = b_vol y)
  /\ dict_eqb (b_nv x) (b_nv y) = true /\ b_name x = b_name y
  /\ masked (map negb (bm_surface_mask x)) (b_voxel x) = masked (map negb (bm_surface_mask y)) (b_voxel y)
  /\ masked (bm_surface_mask x) (b_vertex x) = masked (bm_surface_mask y) (b_vertex y).
Proof.
  assert (Hx : forall a b, negb (xorb a b) = true <-> a = b) by (intros [] []; cbn; intuition congruence).
  unfold bm_eqb. rewrite !andb_true_iff, orb_true_iff, !list_eqb_eq, ijks_eqb_eq, opt_vol_eqb_eq, Z.eqb_eq, Hx. tauto.
Qed.

Lemma bm_eqb_trans x y z : bm_eqb x y = true -> bm_eqb y z = true -> bm_eqb x z = true.
Proof.
  rewrite !bm_eqb_iff. intros (A1 & A2 & A3 & A4 & A5 & A6 & A7) (B1 & B2 & B3 & B4 & B5 & B6 & B7).
  repeat split; try congruence.
  - destruct A3 as [A3|A3]; [now left|]. destruct B3 as [B3|B3]; [left; congruence|right; congruence].
  - now apply dict_eqb_trans with (b_nv y).
Qed.

Lemma bm_eqb_refl a : bm_wf a -> bm_eqb a a = true.
Proof. intros (_ & _ & _ & _ & _ & _ & Hnd). now apply bm_eqb_fields. Qed.

(* ---- ParcelsAxis.__eq__: the per-parcel vertex dictionaries *)
Lemma vlookup_In_pair d k v : vlookup d k = Some v -> In (k, v) d.
Proof.
  induction d as [|[k0 v0] d IH]; cbn; [discriminate|].
  destruct (k0 =? k) eqn:E; [intros [= ->]; left; f_equal; lia|intros H; right; now apply IH].
Qed.
Lemma vlookup_NoDup d k v : NoDup (map fst d) -> In (k, v) d -> vlookup d k = Some v.
Proof.
  induction d as [|[k0 v0] d IH]; cbn; intros Hnd Hin; [destruct Hin|].
  inversion Hnd as [|? ? Hn Hd]; subst. destruct Hin as [Hin|Hin].
  - injection Hin as -> ->. now rewrite Z.eqb_refl.
  - destruct (k0 =? k) eqn:E; [|now apply IH]. apply Z.eqb_eq in E. subst k0.
    exfalso. apply Hn. apply in_map_iff. now exists (k, v).
Qed.
Lemma vlookup_key d k : (exists v, vlookup d k = Some v) <-> In k (map fst d).
Proof.
  induction d as [|[k0 v0] d IH]; cbn.
  - split; [intros (v & H); discriminate|intros []].
  - destruct (k0 =? k) eqn:E.
    + split; [intros _; left; lia|intros _; eauto].
    + rewrite IH. split; [auto|intros [H|H]; [lia|exact H]].
Qed.

Lemma vdict_eqb_spec v1 v2 : vdict_eqb v1 v2 = true <->
  length v1 = length v2 /\ forall k idx, In (k, idx) v1 -> vlookup v2 k = Some idx.
Proof.
  unfold vdict_eqb. rewrite andb_true_iff, zlen_eqb, forallb_forall. split; intros [H1 H2]; (split; [exact H1|]).
  - intros k idx Hin. specialize (H2 (k, idx) Hin). cbn in H2. destruct (vlookup v2 k) as [i2|]; [|discriminate].
    apply list_eqb_eq in H2. now subst.
  - intros [k idx] Hin. cbn. rewrite (H2 k idx Hin). apply list_eqb_refl.
Qed.
Lemma vdict_eqb_refl v : NoDup (map fst v) -> vdict_eqb v v = true.
Proof. intros H. apply vdict_eqb_spec. split; [reflexivity|]. intros k idx Hin. now apply vlookup_NoDup. Qed.
Lemma vdict_eqb_trans a b c : vdict_eqb a b = true -> vdict_eqb b c = true -> vdict_eqb a c = true.
Proof.
  rewrite !vdict_eqb_spec. intros [L1 H1] [L2 H2]. split; [congruence|].
  intros k idx Hin. apply H2. apply vlookup_In_pair. now apply H1.
Qed.
(* the loop only walks the keys of the LEFT operand; with equal sizes and distinct keys that is symmetric *)
Lemma vdict_eqb_sym a b : NoDup (map fst a) -> NoDup (map fst b) -> vdict_eqb a b = true -> vdict_eqb b a = true.
Proof.
  rewrite !vdict_eqb_spec. intros Ha Hb [L H]. split; [congruence|]. intros k idx Hin.
  assert (Hincl : incl (map fst a) (map fst b)).
  { intros x Hx. apply in_map_iff in Hx as ([k' i'] & <- & Hx). apply vlookup_key. exists i'. now apply H. }
  assert (Hrev : incl (map fst b) (map fst a)).
  { apply NoDup_length_incl; [exact Ha|rewrite !map_length; lia|exact Hincl]. }
  assert (Hk : In k (map fst a)) by (apply Hrev; apply in_map_iff; now exists (k, idx)).
  apply vlookup_key in Hk as (i2 & Hi2). rewrite Hi2. f_equal.
  apply vlookup_In_pair in Hi2. apply H in Hi2. apply (vlookup_NoDup b k idx Hb) in Hin. congruence.
Qed.

Lemma verts_eqb_spec l1 l2 : verts_eqb l1 l2 = true <-> Forall2 (fun a b => vdict_eqb a b = true) l1 l2.
Proof.
  unfold verts_eqb. rewrite andb_true_iff, zlen_eqb. revert l2. induction l1 as [|a l1 IH]; intros [|b l2]; cbn.
  - split; [constructor|auto].
  - split; [intros [H _]; discriminate|intros H; inversion H].
  - split; [intros [H _]; discriminate|intros H; inversion H].
  - rewrite andb_true_iff. split.
    + intros [L [H1 H2]]. constructor; [exact H1|]. apply IH. split; [lia|exact H2].
    + intros H. inversion H as [|? ? ? ? H1 H2]; subst. apply IH in H2 as [L H2]. split; [lia|auto].
Qed.

Definition par_wf' (a : parcels) : Prop :=
  par_wf a /\ NoDup (keys (pa_nv a)) /\ Forall (fun d => NoDup (map fst d)) (pa_vertices a).

Definition axis_wf (a : axis) : Prop :=
  match a with
  | ABm x => bm_wf x /\ b_name x <> []      (* an empty brain-model axis has no maps: to_mapping raises *)
  | APar x => par_wf' x
  | ASc x => sc_wf x
  | ALab x => lab_wf x
  | ASer x => 0 <= se_size x
  end.

Lemma axis_eqb_refl a : axis_wf a -> axis_eqb a a = true.
Proof.
  destruct a as [x|x|x|x|x]; cbn; intros H.
  - apply bm_eqb_refl, H.
  - destruct H as (_ & H & Hv). unfold par_eqb. rewrite Z.eqb_refl, !list_eqb_refl, dict_eqb_refl, opt_vol_eqb_refl by exact H.
    cbn [andb]. apply verts_eqb_spec. induction Hv; constructor; [now apply vdict_eqb_refl|assumption].
  - unfold sc_eqb. now rewrite Z.eqb_refl, !list_eqb_refl.
  - unfold lab_eqb. now rewrite Z.eqb_refl, !list_eqb_refl.
  - unfold ser_eqb. now rewrite !Z.eqb_refl.
Qed.

Lemma par_eqb_iff x y : par_eqb x y = true <->
  par_len x = par_len y /\ pa_name x = pa_name y /\ dict_eqb (pa_nv x) (pa_nv y) = true
  /\ pa_voxels x = pa_voxels y /\ pa_vol x = pa_vol y
  /\ Forall2 (fun a b => vdict_eqb a b = true) (pa_vertices x) (pa_vertices y).
Proof. unfold par_eqb. rewrite !andb_true_iff, !list_eqb_eq, opt_vol_eqb_eq, Z.eqb_eq, verts_eqb_spec. tauto. Qed.

Lemma Forall2_trans' {A} (R : A -> A -> Prop) : (forall a b c, R a b -> R b c -> R a c) ->
  forall l1 l2 l3, Forall2 R l1 l2 -> Forall2 R l2 l3 -> Forall2 R l1 l3.
Proof.
  intros HR l1 l2 l3 H. revert l3. induction H; intros l3 H'; inversion H'; subst; constructor; eauto.
Qed.
Lemma sc_eqb_iff x y : sc_eqb x y = true <-> sc_len x = sc_len y /\ sc_name x = sc_name y /\ sc_meta x = sc_meta y.
Proof. unfold sc_eqb. rewrite !andb_true_iff, !list_eqb_eq, Z.eqb_eq. tauto. Qed.
Lemma lab_eqb_iff x y : lab_eqb x y = true <->
  lab_len x = lab_len y /\ lb_name x = lb_name y /\ lb_meta x = lb_meta y /\ lb_label x = lb_label y.
Proof. unfold lab_eqb. rewrite !andb_true_iff, !list_eqb_eq, Z.eqb_eq. tauto. Qed.
Lemma ser_eqb_iff x y : ser_eqb x y = true <-> x = y.
Proof.
  unfold ser_eqb. rewrite !andb_true_iff, !Z.eqb_eq. destruct x, y; cbn. split; [intros [[[-> ->] ->] ->]; reflexivity|intros [= -> -> -> ->]; auto].
Qed.

Lemma axis_eqb_trans x y z : axis_eqb x y = true -> axis_eqb y z = true -> axis_eqb x z = true.
Proof.
  destruct x as [x|x|x|x|x], y as [y|y|y|y|y]; cbn; try discriminate; destruct z as [z|z|z|z|z]; cbn; try discriminate.
  - apply bm_eqb_trans.
  - rewrite !par_eqb_iff. intros (A1 & A2 & A3 & A4 & A5 & A6) (B1 & B2 & B3 & B4 & B5 & B6).
    repeat split; try congruence; [now apply dict_eqb_trans with (pa_nv y)|].
    eapply Forall2_trans'; [|exact A6|exact B6]. intros a b c. apply vdict_eqb_trans.
  - rewrite !sc_eqb_iff. intros (A1 & A2 & A3) (B1 & B2 & B3). repeat split; congruence.
  - rewrite !lab_eqb_iff. intros (A1 & A2 & A3 & A4) (B1 & B2 & B3 & B4). repeat split; congruence.
  - rewrite !ser_eqb_iff. congruence.
Qed.

Lemma axis_enc_dec a : axis_wf a ->
  exists m a', axis_enc a = Ok m /\ axis_dec m = Ok a' /\ axis_eqb a' a = true.
Proof.
  intros Hw. destruct a as [x|x|x|x|x].
  - destruct Hw as [Hw Hne]. destruct (bm_rle_roundtrip x Hw Hne) as (m & a' & H1 & H2 & _ & H3 & _).
    exists (MBm m), (ABm a'). cbn. rewrite H1, H2. auto.
  - exists (MPar x), (APar x). repeat split. now apply (axis_eqb_refl (APar x)).
  - exists (MSc x), (ASc x). repeat split. now apply (axis_eqb_refl (ASc x)).
  - exists (MLab x), (ALab x). repeat split. now apply (axis_eqb_refl (ALab x)).
  - exists (MSer x), (ASer x). repeat split. now apply (axis_eqb_refl (ASer x)).
Qed.

(* header of the five concrete axis kinds *)
Lemma axes_header_roundtrip axes : Forall axis_wf axes ->
  exists mat, to_header axis_eqb axis_enc axes = Ok mat
    /\ forall i ax, nth_error axes i = Some ax ->
         exists a', get_axis axis_dec mat (Z.of_nat i) = Ok a' /\ axis_eqb a' ax = true.
Proof. apply (header_get_axis axis_eqb axis_enc axis_dec axis_wf axis_eqb_refl axis_eqb_trans axis_enc_dec). Qed.

(* ================================================================== iter_structures *)
Lemma bm_subaxis_elements a s e : bm_wf a ->
  0 <= s < stop_of e (bm_len a) -> stop_of e (bm_len a) <= bm_len a ->
  exists sb, bm_getitem a (ISlice (mkSl (Some s) e None)) = Ok sb /\ bm_wf sb
    /\ bm_elements sb = sub s (stop_of e (bm_len a)) (bm_elements a).
Proof.
  intros Hw H1 H2. set (e' := stop_of e (bm_len a)) in *.
  assert (Hr : resolve (bm_len a) (ISlice (mkSl (Some s) e None)) = Ok (map (fun k => s + k) (zseq (e' - s)))).
  { cbn [resolve]. unfold step_of at 1. cbn [s_step]. change (1 =? 0) with false. cbn iota.
    f_equal. apply py_indices_span; unfold e' in *; lia. }
  destruct (bm_index a _ _ Hw Hr) as (sb & Hg & Hwf & Hel & _).
  exists sb. split; [exact Hg|]. split; [exact Hwf|]. rewrite Hel. apply select_span; [lia|].
  rewrite bm_elements_length by exact Hw. exact H2.
Qed.

(* iter_structures yields the maximal runs of equal structure names, in order, covering the
   axis, each with the sub-axis describing exactly its rows *)
Lemma iter_structures_spec a : bm_wf a -> b_name a <> [] ->
  exists R structs, bm_runs a = Ok R /\ chain (b_name a) 0 R /\ maximal R
    /\ bm_iter_structures a = Ok structs
    /\ Forall2 (fun r st => fst (fst st) = fst (fst r) /\ snd (fst st) = snd (fst r) /\ bm_wf (snd st)
                  /\ bm_elements (snd st)
                     = sub (snd (fst r)) (stop_of (snd r) (bm_len a)) (bm_elements a)) R structs.
Proof.
  intros Hw Hne. destruct (bm_runs_chain a) as (R & HR & Hc & Hm); [exact Hne|].
  exists R. unfold bm_iter_structures. rewrite HR.
  cut (forall off, 0 <= off -> chain (b_name a) off R ->
       exists structs, with_subaxes a R = Ok structs
         /\ Forall2 (fun r st => fst (fst st) = fst (fst r) /\ snd (fst st) = snd (fst r) /\ bm_wf (snd st)
                  /\ bm_elements (snd st) = sub (snd (fst r)) (stop_of (snd r) (bm_len a)) (bm_elements a)) R structs).
  { intros H. destruct (H 0 ltac:(lia) Hc) as (structs & H1 & H2). exists structs. auto. }
  clear HR Hc Hm. induction R as [|[[nm s] e] R IH]; intros off Hoff Hc; [destruct Hc|].
  cbn [chain] in Hc. destruct Hc as (-> & Hconst & Hrest). fold (bm_len a) in Hconst, Hrest.
  assert (Hse : 0 <= off < stop_of e (bm_len a) /\ stop_of e (bm_len a) <= bm_len a).
  { destruct e as [e'|]; cbn [stop_of]; [destruct Hrest as [? _]|destruct Hrest as [_ ?]]; lia. }
  destruct (bm_subaxis_elements a off e Hw) as (sb & Hg & Hwf & Hel); try lia.
  cbn [with_subaxes]. rewrite Hg. destruct e as [e'|].
  - destruct Hrest as [Hr1 Hr2]. destruct (IH e' ltac:(lia) Hr2) as (structs & Hs1 & Hs2).
    rewrite Hs1. eexists. split; [reflexivity|]. constructor; [cbn; auto|exact Hs2].
  - destruct Hrest as [-> _]. cbn [with_subaxes]. eexists. split; [reflexivity|]. constructor; [cbn; auto|constructor].
Qed.

(* ================================================================== extensions across saves *)
Lemma first_cifti_none exts : forallb (fun e => negb (is_cifti_ext e)) exts = true -> forall x,
  first_cifti_ext (exts ++ [(32, x)]) = Some x.
Proof.
  induction exts as [|e r IH]; cbn; intros H x; [reflexivity|].
  apply andb_true_iff in H as [H1 H2]. destruct (is_cifti_ext e); [discriminate|]. now apply IH.
Qed.

(* whatever extensions the NIfTI header carried (old CIFTI-2 XML included), after a save the
   file holds exactly one CIFTI-2 extension, it is the XML of the image being saved, the
   reader finds it, and the other extensions are kept in order; so any history of saves
   ends with the XML of the last image *)
Lemma save_replaces_cifti_ext exts xml :
  first_cifti_ext (set_cifti_ext exts xml) = Some xml
  /\ filter is_cifti_ext (set_cifti_ext exts xml) = [(32, xml)]
  /\ filter (fun e => negb (is_cifti_ext e)) (set_cifti_ext exts xml)
     = filter (fun e => negb (is_cifti_ext e)) exts.
Proof.
  unfold set_cifti_ext. split; [|split].
  - apply first_cifti_none. apply forallb_forall. intros e He. now apply filter_In in He.
  - rewrite filter_app. cbn. replace (filter is_cifti_ext (filter (fun e => negb (is_cifti_ext e)) exts)) with (@nil nifti_ext); [reflexivity|].
    induction exts as [|e r IH]; cbn; [reflexivity|]. destruct (is_cifti_ext e) eqn:E; cbn; [exact IH|]. now rewrite E.
  - rewrite filter_app. cbn. rewrite app_nil_r.
    induction exts as [|e r IH]; cbn; [reflexivity|]. destruct (is_cifti_ext e) eqn:E; cbn; [exact IH|]. rewrite E. cbn. now rewrite IH.
Qed.


(* an EMPTY brain-model axis (now constructible and obtainable by indexing) has no structures:
   iter_structures / to_mapping refuse it (self.name[0] raises IndexError) *)
Lemma bm_empty_no_maps a : b_name a = [] -> bm_to_mapping a = Err EIndex /\ bm_iter_structures a = Err EIndex.
Proof. intros H. unfold bm_to_mapping, bm_iter_structures, bm_runs. rewrite H. auto. Qed.

(* ================================================================== == is symmetric on well-formed axes *)
Lemma dict_eqb_lookup a b : NoDup (keys a) -> NoDup (keys b) -> dict_eqb a b = true ->
  forall k, lookup a k = lookup b k.
Proof.
  intros Ha Hb H. unfold dict_eqb in H. apply andb_true_iff in H as [L F]. apply zlen_eqb in L. rewrite forallb_forall in F.
  assert (Hpair : forall k v, In (k, v) a -> lookup b k = Some v).
  { intros k v Hin. specialize (F (k, v) Hin). cbn in F. destruct (lookup b k) as [v'|]; [|discriminate]. f_equal. lia. }
  assert (Hincl : incl (keys a) (keys b)).
  { intros x Hx. unfold keys in Hx. apply in_map_iff in Hx as ([k v] & <- & Hx). apply lookup_In. exists v. now apply Hpair. }
  assert (Hrev : incl (keys b) (keys a)).
  { apply NoDup_length_incl; [exact Ha|unfold keys; rewrite !map_length; lia|exact Hincl]. }
  intros k. destruct (lookup a k) as [v|] eqn:E.
  - symmetry. apply Hpair. now apply lookup_In_pair.
  - destruct (lookup b k) as [v|] eqn:E2; [|reflexivity].
    assert (In k (keys a)) by (apply Hrev, lookup_In; eauto). apply lookup_In in H as (v' & Hv'). congruence.
Qed.
Lemma dict_eqb_sym a b : NoDup (keys a) -> NoDup (keys b) -> dict_eqb a b = true -> dict_eqb b a = true.
Proof.
  intros Ha Hb H. apply dict_eqb_of_lookup; [exact Hb|exact Ha|]. intros k. symmetry. now apply dict_eqb_lookup.
Qed.

Lemma Forall2_sym' {A} (R : A -> A -> Prop) (P : A -> Prop) : (forall a b, P a -> P b -> R a b -> R b a) ->
  forall l1 l2, Forall P l1 -> Forall P l2 -> Forall2 R l1 l2 -> Forall2 R l2 l1.
Proof.
  intros HR l1 l2 H1 H2 H. induction H; [constructor|]. inversion H1; inversion H2; subst. constructor; auto.
Qed.

Lemma axis_eqb_sym a b : axis_wf a -> axis_wf b -> axis_eqb a b = true -> axis_eqb b a = true.
Proof.
  destruct a as [x|x|x|x|x], b as [y|y|y|y|y]; cbn; try discriminate; intros Ha Hb.
  - destruct Ha as [(_ & _ & _ & _ & _ & _ & Hnx) _], Hb as [(_ & _ & _ & _ & _ & _ & Hny) _].
    rewrite !bm_eqb_iff. intros (A1 & A2 & A3 & A4 & A5 & A6 & A7). repeat split; try congruence.
    + destruct A3 as [A3|A3]; [left; congruence|right; congruence].
    + now apply dict_eqb_sym.
  - destruct Ha as (_ & Hnx & Hvx), Hb as (_ & Hny & Hvy).
    rewrite !par_eqb_iff. intros (A1 & A2 & A3 & A4 & A5 & A6). repeat split; try congruence.
    + now apply dict_eqb_sym.
    + eapply Forall2_sym'; [|exact Hvx|exact Hvy|exact A6]. intros u v Hu Hv. now apply vdict_eqb_sym.
  - rewrite !sc_eqb_iff. intros (A1 & A2 & A3). repeat split; congruence.
  - rewrite !lab_eqb_iff. intros (A1 & A2 & A3 & A4). repeat split; congruence.
  - rewrite !ser_eqb_iff. congruence.
Qed.
