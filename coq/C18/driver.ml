(* C18 driver body (after `open C18_model` and drvlib.ml).
   Tokens: index  i<k> | s<a>:<b>:<c> (_ = None) | l[..] | m[0/1,..]
           vol    _ | [16 affine entries, 3 shape entries]
           nv     [k,v,k,v,...]         voxels [i,j,k,i,j,k,...]
           bm     <names> <voxels> <vertex> <vol> <nv>        (5 tokens)
           par    <names> <voxels ids> <vertices ids> <vol> <nv>  (5 tokens)
           sc     <names> <meta>   lab <names> <labels> <meta>   ser <start> <step> <size> <unit>
           axis   B <bm> | P <par> | S <sc> | L <lab> | T <ser>
   Ops: resolve <n> <idx> | ser_time <ser> | ser_get <ser> <idx> | ser_add <ser> <ser>
        sc_get <sc> <idx> | sc_add <sc> <sc> | lab_get .. | lab_add .. | par_get .. | par_add ..
        bm_make <bm> | bm_get <bm> <idx> | bm_add <bm> <bm> | bm_runs <bm> | bm_map <bm> | bm_rt <bm>
        bm_eq <bm> <bm> | setext <[code,id,...]> <xmlid> | eq <axis> <axis> | header <k> <axis>*k  | file <datashape> <k> <axis>*k *)
let optz s = if s = "_" then None else Some (z_of_string s)
let str_optz = function None -> "_" | Some v -> string_of_z v
let parse_idx tok =
  let rest = String.sub tok 1 (String.length tok - 1) in
  match tok.[0] with
  | 'i' -> IInt (z_of_string rest)
  | 's' -> (match String.split_on_char ':' rest with
            | [a; b; c] -> ISlice { s_start = optz a; s_stop = optz b; s_step = optz c }
            | _ -> failwith "bad slice")
  | 'l' -> IList (zlist_of_string rest)
  | 'm' -> IMask (List.map (fun z -> int_of_z z <> 0) (zlist_of_string rest))
  | _ -> failwith "bad index token"
let str_err = function
  | EIndex -> "index" | EStep0 -> "step0" | EKind -> "kind"
  | EShape -> "shape" | EVolume -> "volume" | ENegative -> "negative" | ENvert -> "nvert"
  | EStep -> "step" | EUnit -> "unit" | EAssign -> "assign" | ENoVolume -> "novolume"
  | ENotMapped -> "notmapped" | EDataShape -> "datashape" | ENoExt -> "noext"
let res f = function Ok a -> "ok " ^ f a | Err e -> "err " ^ str_err e
let rec triples = function
  | a :: b :: c :: r -> ((a, b), c) :: triples r | [] -> [] | _ -> failwith "bad voxel list"
let rec pairs = function a :: b :: r -> (a, b) :: pairs r | [] -> [] | _ -> failwith "bad nv list"
let parse_vol s = if s = "_" then None else
  let l = zlist_of_string s in
  (match drop_n 16 l with [a; b; c] -> Some (take_n 16 l, ((a, b), c)) | _ -> failwith "bad vol")
let str_vol = function None -> "_" | Some (aff, ((a, b), c)) -> string_of_zlist (aff @ [a; b; c])
let str_nv nv = string_of_zlist (List.concat_map (fun (k, v) -> [k; v]) nv)
let str_vox l = string_of_zlist (List.concat_map (fun ((a, b), c) -> [a; b; c]) l)
let parse_bm = function
  | [n; x; t; v; d] -> { b_name = zlist_of_string n; b_voxel = triples (zlist_of_string x);
                         b_vertex = zlist_of_string t; b_vol = parse_vol v; b_nv = pairs (zlist_of_string d) }
  | _ -> failwith "bad bm"
let str_bm a = String.concat " " [string_of_zlist a.b_name; str_vox a.b_voxel; string_of_zlist a.b_vertex;
                                  str_vol a.b_vol; str_nv a.b_nv]
let str_elem ((s, ix), nm) = (if s then "S" else "V") ^ ":" ^ string_of_z nm ^ ":" ^ string_of_zlist ix
let str_bm_full a = str_bm a ^ " elems=" ^ String.concat ";" (List.map str_elem (bm_elements a))
(* per-parcel vertex dictionaries: dicts separated by ';', entries by '|', entry = <structure>:[v,...]
   e.g.  38:[0,2]|43:[1];;5:[7]   (an empty dict is '.'); "-" = no parcels *)
let parse_vdict (s : string) : (z * z list) list =
  if s = "" || s = "." then [] else List.map (fun e -> match String.index_opt e ':' with
    | Some i -> (z_of_string (String.sub e 0 i), zlist_of_string (String.sub e (i + 1) (String.length e - i - 1)))
    | None -> failwith "bad vdict entry") (String.split_on_char '|' s)
let parse_vdicts (s : string) = if s = "-" then [] else List.map parse_vdict (String.split_on_char ';' s)
let str_vdict d = if d = [] then "." else String.concat "|" (List.map (fun (k, v) -> string_of_z k ^ ":" ^ string_of_zlist v) d)
let str_vdicts l = if l = [] then "-" else String.concat ";" (List.map str_vdict l)
let parse_par = function
  | [n; x; t; v; d] -> { pa_name = zlist_of_string n; pa_voxels = zlist_of_string x;
                         pa_vertices = parse_vdicts t; pa_vol = parse_vol v; pa_nv = pairs (zlist_of_string d) }
  | _ -> failwith "bad par"
let str_par a = String.concat " " [string_of_zlist a.pa_name; string_of_zlist a.pa_voxels;
                                   str_vdicts a.pa_vertices; str_vol a.pa_vol; str_nv a.pa_nv]
let parse_sc = function [n; m] -> { sc_name = zlist_of_string n; sc_meta = zlist_of_string m } | _ -> failwith "bad sc"
let str_sc a = string_of_zlist a.sc_name ^ " " ^ string_of_zlist a.sc_meta
let parse_lab = function
  | [n; l; m] -> { lb_name = zlist_of_string n; lb_label = zlist_of_string l; lb_meta = zlist_of_string m }
  | _ -> failwith "bad lab"
let str_lab a = String.concat " " [string_of_zlist a.lb_name; string_of_zlist a.lb_label; string_of_zlist a.lb_meta]
let parse_ser = function
  | [a; b; c; d] -> { se_start = z_of_string a; se_step = z_of_string b; se_size = z_of_string c; se_unit = z_of_string d }
  | _ -> failwith "bad ser"
let str_ser a = String.concat " " (List.map string_of_z [a.se_start; a.se_step; a.se_size; a.se_unit])
let split_at n l = (take_n n l, drop_n n l)
let parse_axis = function
  | "B" :: r -> let (a, r') = split_at 5 r in (ABm (parse_bm a), r')
  | "P" :: r -> let (a, r') = split_at 5 r in (APar (parse_par a), r')
  | "S" :: r -> let (a, r') = split_at 2 r in (ASc (parse_sc a), r')
  | "L" :: r -> let (a, r') = split_at 3 r in (ALab (parse_lab a), r')
  | "T" :: r -> let (a, r') = split_at 4 r in (ASer (parse_ser a), r')
  | _ -> failwith "bad axis"
let rec parse_axes k l = if k = 0 then [] else let (a, r) = parse_axis l in a :: parse_axes (k - 1) r
let str_axis = function
  | ABm a -> "B " ^ str_bm a | APar a -> "P " ^ str_par a | ASc a -> "S " ^ str_sc a
  | ALab a -> "L " ^ str_lab a | ASer a -> "T " ^ str_ser a
let str_model m =
  String.concat ":" [string_of_z m.m_off; string_of_z m.m_cnt; (if m.m_surf then "S" else "V"); string_of_z m.m_name;
                     str_optz m.m_nvert; (if m.m_surf then string_of_zlist m.m_vtx else str_vox m.m_vox)]
let str_map mp = string_of_int (List.length mp.mp_models) ^ " " ^ String.concat ";" (List.map str_model mp.mp_models)
                 ^ " vol=" ^ str_vol mp.mp_vol
let str_runs l = String.concat ";" (List.map (fun ((nm, s), e) -> string_of_z nm ^ ":" ^ string_of_z s ^ ":" ^ str_optz e) l)
let str_structs l = String.concat ";" (List.map (fun ((nm, s), sub) -> string_of_z nm ^ ":" ^ string_of_z s ^ ":" ^ string_of_z (axis_len (ABm sub))) l)
let header_of axes = to_header axis_eqb axis_enc axes
let str_dims mat = String.concat ";" (List.map (fun (ds, _) -> string_of_zlist ds) mat)

(* ---------------------------------------------------------------- XML layer (ModelXml.v)
   S-expressions: atoms are integers, N (None), s<cp>.<cp>... (a string as code points; "s" = empty)
   header  (H ver meta (mim...))            meta   N | (M k v k v ...)
   mim     (I (dims) type (n e start step unit) (child...))
   child   (NM name meta table) | (SF bs n) | (PC name vox ((bs (idx...))...)) | (VL (dims) tr) |
           (BM off cnt type bs nvert vox vtx)
   table   N | (T (key (r g b a) text)...)    vox  N | (X i j k ...)   vtx  N | (V i ...)
   tr      N | (exp N) | (exp (m...))
   events  ((S tag attrs) (C str) (E tag) ...)   attrs  N | (ACifti v) | (AMim (dims) type (n e st sp u)) |
           (ALabel key (rgba)) | (ASurface bs n) | (AParcel name) | (AVertices bs) | (AVolume (dims)) |
           (ATransform e) | (ABm off cnt type bs nvert)
   ops: xwrite <header> | xparse <events> | xnorm <header> | xrt <header>  (parse (write h) vs norm h) *)
type sx = A of string | L of sx list
let sx_tokens (s : string) : string list =
  let b = Buffer.create 16 and out = ref [] in
  let flush () = if Buffer.length b > 0 then (out := Buffer.contents b :: !out; Buffer.clear b) in
  String.iter (fun c -> match c with
    | '(' | ')' -> flush (); out := String.make 1 c :: !out
    | ' ' | '\n' | '\t' -> flush ()
    | c -> Buffer.add_char b c) s;
  flush (); List.rev !out
let rec sx_parse toks = match toks with
  | "(" :: r -> let (l, r') = sx_list r in (L l, r')
  | ")" :: _ -> failwith "sexp: unexpected )"
  | a :: r -> (A a, r)
  | [] -> failwith "sexp: eof"
and sx_list toks = match toks with
  | ")" :: r -> ([], r)
  | [] -> failwith "sexp: missing )"
  | _ -> let (x, r) = sx_parse toks in let (l, r') = sx_list r in (x :: l, r')
let sx_of_string s = fst (sx_parse (sx_tokens s))
let rec sx_str = function A a -> a | L l -> "(" ^ String.concat " " (List.map sx_str l) ^ ")"
let zs = function A a -> z_of_string a | _ -> failwith "int expected"
let zl = function L l -> List.map zs l | _ -> failwith "int list expected"
let opt f = function A "N" -> None | x -> Some (f x)
let str_of = function
  | A a when String.length a >= 1 && a.[0] = 's' ->
    let r = String.sub a 1 (String.length a - 1) in
    if r = "" then [] else List.map z_of_string (String.split_on_char '.' r)
  | _ -> failwith "string expected"
let sx_of_str (t : z list) = A ("s" ^ String.concat "." (List.map string_of_z t))
let sx_z z = A (string_of_z z)
let sx_opt f = function None -> A "N" | Some x -> f x
let sx_zl l = L (List.map sx_z l)
let rec pairs_str = function a :: b :: r -> (str_of a, str_of b) :: pairs_str r | [] -> [] | _ -> failwith "meta"
let meta_of = function L (A "M" :: r) -> pairs_str r | _ -> failwith "meta expected"
let sx_meta m = L (A "M" :: List.concat_map (fun (k, v) -> [sx_of_str k; sx_of_str v]) m)
let label_of = function L [k; c; t] -> { xl_key = zs k; xl_rgba = zl c; xl_text = str_of t } | _ -> failwith "label"
let sx_label l = L [sx_z l.xl_key; sx_zl l.xl_rgba; sx_of_str l.xl_text]
let table_of = function L (A "T" :: r) -> List.map label_of r | _ -> failwith "table"
let sx_table t = L (A "T" :: List.map sx_label t)
let vox_of = function L (A "X" :: r) -> triples (List.map zs r) | _ -> failwith "vox"
let sx_vox v = L (A "X" :: List.concat_map (fun ((a, b), c) -> [sx_z a; sx_z b; sx_z c]) v)
let vtx_of = function L (A "V" :: r) -> List.map zs r | _ -> failwith "vtx"
let sx_vtx v = L (A "V" :: List.map sx_z v)
let series_of = function
  | L [a; b; c; d; e] -> { xs_n = opt zs a; xs_exp = opt zs b; xs_start = opt zs c; xs_step = opt zs d; xs_unit = opt zs e }
  | _ -> failwith "series"
let sx_series s = L [sx_opt sx_z s.xs_n; sx_opt sx_z s.xs_exp; sx_opt sx_z s.xs_start; sx_opt sx_z s.xs_step; sx_opt sx_z s.xs_unit]
let child_of = function
  | L [A "NM"; n; m; t] -> CNamed { nm_name = opt str_of n; nm_meta = opt meta_of m; nm_table = opt table_of t }
  | L [A "SF"; bs; n] -> CSurf (zs bs, zs n)
  | L [A "PC"; n; v; L vs] ->
    CParcel { pc_name = zs n; pc_vox = opt vox_of v;
              pc_verts = List.map (function L [bs; idx] -> { vs_bs = zs bs; vs_idx = zl idx } | _ -> failwith "verts") vs }
  | L [A "VL"; d; tr] ->
    CVol { vl_dims = zl d; vl_transform = opt (function L [e; m] -> (zs e, opt zl m) | _ -> failwith "transform") tr }
  | L [A "BM"; a; b; c; d; e; v; t] ->
    CBm { bx_off = opt zs a; bx_cnt = opt zs b; bx_type = opt zs c; bx_bs = opt zs d; bx_nvert = opt zs e;
          bx_vox = opt vox_of v; bx_vtx = opt vtx_of t }
  | x -> failwith ("child: " ^ sx_str x)
let sx_child = function
  | CNamed m -> L [A "NM"; sx_opt sx_of_str m.nm_name; sx_opt sx_meta m.nm_meta; sx_opt sx_table m.nm_table]
  | CSurf (bs, n) -> L [A "SF"; sx_z bs; sx_z n]
  | CParcel p -> L [A "PC"; sx_z p.pc_name; sx_opt sx_vox p.pc_vox;
                    L (List.map (fun v -> L [sx_z v.vs_bs; sx_zl v.vs_idx]) p.pc_verts)]
  | CVol v -> L [A "VL"; sx_zl v.vl_dims; sx_opt (fun (e, m) -> L [sx_z e; sx_opt sx_zl m]) v.vl_transform]
  | CBm b -> L [A "BM"; sx_opt sx_z b.bx_off; sx_opt sx_z b.bx_cnt; sx_opt sx_z b.bx_type; sx_opt sx_z b.bx_bs;
                sx_opt sx_z b.bx_nvert; sx_opt sx_vox b.bx_vox; sx_opt sx_vtx b.bx_vtx]
let mim_of = function
  | L [A "I"; d; t; s; L ch] -> { xm_dims = zl d; xm_type = zs t; xm_series = series_of s; xm_children = List.map child_of ch }
  | _ -> failwith "mim"
let sx_mim m = L [A "I"; sx_zl m.xm_dims; sx_z m.xm_type; sx_series m.xm_series; L (List.map sx_child m.xm_children)]
let xheader_of = function
  | L [A "H"; v; m; L mims] -> { xh_version = zs v; xh_meta = opt meta_of m; xh_mims = List.map mim_of mims }
  | _ -> failwith "header"
let sx_header h = L [A "H"; sx_z h.xh_version; sx_opt sx_meta h.xh_meta; L (List.map sx_mim h.xh_mims)]
let tags = [ ("CIFTI", TCifti); ("Matrix", TMatrix); ("MetaData", TMetaData); ("MD", TMD); ("Name", TName);
  ("Value", TValue); ("MatrixIndicesMap", TMim); ("NamedMap", TNamedMap); ("LabelTable", TLabelTable); ("Label", TLabel);
  ("MapName", TMapName); ("Surface", TSurface); ("Parcel", TParcel); ("Vertices", TVertices); ("VoxelIndicesIJK", TVoxelIJK);
  ("Volume", TVolume); ("TransformationMatrixVoxelIndicesIJKtoXYZ", TTransform); ("BrainModel", TBrainModel);
  ("VertexIndices", TVertexIndices); ("?", TOther) ]
let tag_of = function A a -> (try List.assoc a tags with Not_found -> TOther) | _ -> failwith "tag"
let sx_tag t = A (fst (List.find (fun (_, x) -> x = t) tags))
let attrs_of = function
  | A "N" -> ANone
  | L [A "ACifti"; v] -> ACifti (zs v)
  | L [A "AMim"; d; t; s] -> AMim (zl d, zs t, series_of s)
  | L [A "ALabel"; k; c] -> ALabel (zs k, zl c)
  | L [A "ASurface"; b; n] -> ASurface (zs b, zs n)
  | L [A "AParcel"; n] -> AParcel (zs n)
  | L [A "AVertices"; b] -> AVertices (zs b)
  | L [A "AVolume"; d] -> AVolume (zl d)
  | L [A "ATransform"; e] -> ATransform (zs e)
  | L [A "ABm"; a; b; c; d; e] -> ABrainModel (opt zs a, opt zs b, opt zs c, opt zs d, opt zs e)
  | x -> failwith ("attrs: " ^ sx_str x)
let sx_attrs = function
  | ANone -> A "N"
  | ACifti v -> L [A "ACifti"; sx_z v]
  | AMim (d, t, s) -> L [A "AMim"; sx_zl d; sx_z t; sx_series s]
  | ALabel (k, c) -> L [A "ALabel"; sx_z k; sx_zl c]
  | ASurface (b, n) -> L [A "ASurface"; sx_z b; sx_z n]
  | AParcel n -> L [A "AParcel"; sx_z n]
  | AVertices b -> L [A "AVertices"; sx_z b]
  | AVolume d -> L [A "AVolume"; sx_zl d]
  | ATransform e -> L [A "ATransform"; sx_z e]
  | ABrainModel (a, b, c, d, e) -> L [A "ABm"; sx_opt sx_z a; sx_opt sx_z b; sx_opt sx_z c; sx_opt sx_z d; sx_opt sx_z e]
let event_of = function
  | L [A "S"; t; a] -> Start (tag_of t, attrs_of a)
  | L [A "C"; c] -> Chars (str_of c)
  | L [A "E"; t] -> End (tag_of t)
  | _ -> failwith "event"
let sx_event = function
  | Start (t, a) -> L [A "S"; sx_tag t; sx_attrs a]
  | Chars c -> L [A "C"; sx_of_str c]
  | End t -> L [A "E"; sx_tag t]
let events_of = function L l -> List.map event_of l | _ -> failwith "events"
(* the oracles, as the harness's conventions make them concrete: structure ids are positive
   iff the name is in CIFTI_BRAIN_STRUCTURES; affine entries are integers * 4 printed by
   '{:.10f}'; integer texts are decimal *)
let cps (s : string) : z list = List.init (String.length s) (fun i -> z_of_int (Char.code s.[i]))
let string_of_cps (l : z list) : string = String.concat "" (List.map (fun c -> String.make 1 (Char.chr (int_of_z c land 255))) l)
let bs_valid (b : z) : bool = int_of_z b > 0
let show_ints l = cps (String.concat " " (List.map string_of_z l))
let show_vox l = cps (String.concat "\n" (List.map (fun ((a, b), c) -> String.concat " " (List.map string_of_z [a; b; c])) l))
let fmt10 (x : z) : string =
  let v = BigZ.to_int (big_of_z x) in
  let a = abs v in
  (if v < 0 then "-" else "") ^ string_of_int (a / 4) ^ "." ^ (match a mod 4 with 0 -> "00" | 1 -> "25" | 2 -> "50" | _ -> "75") ^ "00000000"
let rec take4 l = match l with a :: b :: c :: d :: r -> [a; b; c; d] :: take4 r | [] -> [] | _ -> [l]
let show_matrix l = cps (String.concat "\n" (List.map (fun row -> String.concat " " (List.map fmt10 row)) (take4 l)))
let split_ws (s : string) : string list =
  List.filter (fun w -> w <> "") (String.split_on_char ' ' (String.map (fun c -> if c = '\n' || c = '\t' || c = '\r' then ' ' else c) s))
let loadtxt_ints (t : z list) : z list option =
  try Some (List.map z_of_string (split_ws (string_of_cps t))) with _ -> None
let loadtxt_floats (t : z list) : z list option =
  try Some (List.map (fun w -> let f = float_of_string w *. 4.0 in
                       if Float.of_int (Float.to_int f) <> f then failwith "not a multiple of 1/4" else z_of_int (Float.to_int f))
                     (split_ws (string_of_cps t))) with _ -> None
let str_xerr = function XHeader -> "header" | XState -> "state" | XData -> "data" | XVersion -> "version" | XKey -> "key" | XWriter -> "writer"
let xres f = function XOk a -> "ok " ^ f a | XErr e -> "err " ^ str_xerr e
let x_write h = write show_ints show_vox show_matrix h
let x_parse evs = parse bs_valid loadtxt_ints loadtxt_floats evs
let handle_xml op args =
  let arg = String.concat " " args in
  match op with
  | "xwrite" -> xres (fun evs -> sx_str (L (List.map sx_event evs))) (x_write (xheader_of (sx_of_string arg)))
  | "xparse" -> xres (fun h -> sx_str (sx_header h)) (x_parse (events_of (sx_of_string arg)))
  | "xnorm" -> "ok " ^ sx_str (sx_header (norm (xheader_of (sx_of_string arg))))
  | "xrt" ->
    let h = xheader_of (sx_of_string arg) in
    (match x_write h with
     | XErr e -> "err " ^ str_xerr e
     | XOk evs -> xres (fun h' -> sx_str (sx_header h') ^ " norm=" ^ string_of_bool (h' = norm h)) (x_parse evs))
  | _ -> "err driver:badop"

(* ---------------------------------------------------------------- axes <-> MatrixIndicesMap (ModelJoin.v)
   content tables filled by `tbl` lines that precede the cases (the harness's interning, both ways):
     tbl n <id> <str>   map name          tbl m <id> <meta sexp>   metadata dict (insertion order)
     tbl l <id> <table sexp>  label table  tbl v <id> <vox sexp>    parcel voxel table
     tbl f <id> 0u<bits>      series value (float)
   jenc <axis tokens>  ->  (I (0) type series (children))   = extracted xenc
   jdec <mim sexp>     ->  axis tokens                      = extracted xdec (dims ignored) *)
let t_name : (int, z list) Hashtbl.t = Hashtbl.create 64
let t_meta : (int, (z list * z list) list) Hashtbl.t = Hashtbl.create 64
let t_label : (int, xlabel list) Hashtbl.t = Hashtbl.create 64
let t_vox : (int, ((z * z) * z) list) Hashtbl.t = Hashtbl.create 64
let r_name : (string, int) Hashtbl.t = Hashtbl.create 64
let r_meta : (string, int) Hashtbl.t = Hashtbl.create 64
let r_label : (string, int) Hashtbl.t = Hashtbl.create 64
let r_vox : (string, int) Hashtbl.t = Hashtbl.create 64
let find_or tbl k d = try Hashtbl.find tbl k with Not_found -> d
let name_str (i : z) = find_or t_name (int_of_z i) []
let meta_c (i : z) = find_or t_meta (int_of_z i) []
let label_c (i : z) = find_or t_label (int_of_z i) []
let vox_c (i : z) = find_or t_vox (int_of_z i) []
let none_str = cps "None"
let name_id (o : z list option) = z_of_int (find_or r_name (sx_str (sx_of_str (match o with Some t -> t | None -> none_str))) (-1))
let meta_id m = z_of_int (find_or r_meta (sx_str (sx_meta m)) (-1))
let label_id t = z_of_int (find_or r_label (sx_str (sx_table t)) (-1))
let vox_id v = z_of_int (find_or r_vox (sx_str (sx_vox v)) (-1))
(* tbl f <id> <IEEE-754 bits of the float, decimal, 0u-prefixed>: series values; scale10 v e = v * 10 ** e
   computed the way Python does (10 ** e is an exact integer for e >= 0, a float for e < 0) *)
let t_float : (int, float) Hashtbl.t = Hashtbl.create 64
let r_float : (string, int) Hashtbl.t = Hashtbl.create 64
let fkey (x : float) = Printf.sprintf "%Lu" (Int64.bits_of_float (if x = 0.0 then 0.0 else x))
let scale10 (v : z) (e : z) : z =
  match Hashtbl.find_opt t_float (int_of_z v) with
  | None -> z_of_int (-1)
  | Some x -> let r = x *. (10.0 ** float_of_int (int_of_z e)) in z_of_int (find_or r_float (fkey r) (-1))
let handle_join op args =
  match op, args with
  | "tbl", kind :: id :: rest ->
    let i = int_of_string id and x = sx_of_string (String.concat " " rest) in
    (match kind with
     | "n" -> let c = str_of x in Hashtbl.replace t_name i c; Hashtbl.replace r_name (sx_str (sx_of_str c)) i
     | "m" -> let c = meta_of x in Hashtbl.replace t_meta i c; Hashtbl.replace r_meta (sx_str (sx_meta c)) i
     | "l" -> let c = table_of x in Hashtbl.replace t_label i c; Hashtbl.replace r_label (sx_str (sx_table c)) i
     | "v" -> let c = vox_of x in Hashtbl.replace t_vox i c; Hashtbl.replace r_vox (sx_str (sx_vox c)) i
     | "f" -> let f = Int64.float_of_bits (Int64.of_string (match x with A a -> a | _ -> failwith "float")) in
              Hashtbl.replace t_float i f; Hashtbl.replace r_float (fkey f) i
     | _ -> failwith "tbl kind");
    "ok"
  | "jenc", l ->
    let (a, _) = parse_axis l in
    (match xenc name_str meta_c label_c vox_c a with
     | Err e -> "err " ^ str_err e
     | Ok ((ty, ser), ch) -> "ok " ^ sx_str (sx_mim { xm_dims = [z_of_int 0]; xm_type = ty; xm_series = ser; xm_children = ch }))
  | "jdec", l ->
    let m = mim_of (sx_of_string (String.concat " " l)) in
    (match xdec name_id meta_id label_id vox_id scale10 ((m.xm_type, m.xm_series), m.xm_children) with
     | Err e -> "err " ^ str_err e
     | Ok a -> "ok " ^ str_axis a)
  | _ -> "err driver:badop"
let handle op args = match op, args with
  | ("tbl" | "jenc" | "jdec"), _ -> handle_join op args
  | ("xwrite" | "xparse" | "xnorm" | "xrt"), _ -> handle_xml op args
  | "resolve", [n; ix] -> res string_of_zlist (resolve (z_of_string n) (parse_idx ix))
  | "ser_time", a -> "ok " ^ string_of_zlist (ser_time (parse_ser a))
  | "ser_get", [a; b; c; d; ix] ->
    res (function SAxis x -> "axis " ^ str_ser x ^ " time=" ^ string_of_zlist (ser_time x) | SElem t -> "elem " ^ string_of_z t)
      (ser_getitem (parse_ser [a; b; c; d]) (parse_idx ix))
  | "ser_add", [a; b; c; d; e; f; g; h] ->
    res (fun x -> str_ser x ^ " time=" ^ string_of_zlist (ser_time x)) (ser_add (parse_ser [a; b; c; d]) (parse_ser [e; f; g; h]))
  | "sc_get", [n; m; ix] -> res str_sc (sc_getitem (parse_sc [n; m]) (parse_idx ix))
  | "sc_add", [n; m; n2; m2] -> res str_sc (sc_add (parse_sc [n; m]) (parse_sc [n2; m2]))
  | "lab_get", [n; l; m; ix] -> res str_lab (lab_getitem (parse_lab [n; l; m]) (parse_idx ix))
  | "lab_add", [n; l; m; n2; l2; m2] -> res str_lab (lab_add (parse_lab [n; l; m]) (parse_lab [n2; l2; m2]))
  | "par_get", [a; b; c; d; e; ix] -> res str_par (par_getitem (parse_par [a; b; c; d; e]) (parse_idx ix))
  | "par_add", l when List.length l = 10 -> let (x, y) = split_at 5 l in res str_par (par_add (parse_par x) (parse_par y))
  | "bm_make", l when List.length l = 5 ->
    let a = parse_bm l in res str_bm_full (bm_make a.b_name a.b_voxel a.b_vertex a.b_vol a.b_nv)
  | "bm_get", [a; b; c; d; e; ix] ->
    let x = parse_bm [a; b; c; d; e] in
    (match parse_idx ix with
     | IInt k -> res (fun el -> "elem " ^ str_elem el) (bm_get_element x k)
     | i -> res (fun y -> "axis " ^ str_bm_full y) (bm_getitem x i))
  | "bm_add", l when List.length l = 10 -> let (x, y) = split_at 5 l in res str_bm_full (bm_add (parse_bm x) (parse_bm y))
  | "bm_runs", l when List.length l = 5 ->
    let a = parse_bm l in
    (match bm_runs a, bm_iter_structures a with
     | Ok r, Ok s -> "ok " ^ str_runs r ^ " " ^ str_structs s
     | Err e, _ | _, Err e -> "err " ^ str_err e)
  | "bm_map", l when List.length l = 5 -> res str_map (bm_to_mapping (parse_bm l))
  | "bm_rt", l when List.length l = 5 ->
    let a = parse_bm l in
    (match bm_to_mapping a with
     | Err e -> "err " ^ str_err e
     | Ok m -> res (fun a' -> str_bm_full a' ^ " eq=" ^ string_of_bool (bm_eqb a' a) ^ string_of_bool (bm_eqb a a')) (bm_from_mapping m))
  | "bm_eq", l when List.length l = 10 -> let (x, y) = split_at 5 l in "ok " ^ string_of_bool (bm_eqb (parse_bm x) (parse_bm y))
  | "eq", l ->
    (match parse_axes 2 l with
     | [a; b] -> "ok " ^ string_of_bool (axis_eqb a b) ^ string_of_bool (axis_eqb b a)
     | _ -> failwith "bad eq")
  | "header", k :: l ->
    let axes = parse_axes (int_of_string k) l in
    (match header_of axes with
     | Err e -> "err " ^ str_err e
     | Ok mat ->
       "ok dims=" ^ str_dims mat ^ " " ^
       String.concat " | " (List.mapi (fun i ax ->
           match get_axis axis_dec mat (z_of_int i) with
           | Ok a' -> str_axis a' ^ " eq=" ^ string_of_bool (axis_eqb a' ax)
           | Err e -> "err " ^ str_err e) axes))
  | "file", shape :: k :: l ->
    (* container instantiated with X = matrix, D = shape list, F = (nifti shape, ext, data) *)
    let axes = parse_axes (int_of_string k) l in
    let d = zlist_of_string shape in
    (match img_save axis_eqb axis_enc (fun m -> m) axis_len (fun d -> d) (fun sh x d -> ((sh, Some x), d)) axes d with
     | Err e -> "err " ^ str_err e
     | Ok f ->
       let ((nsh, _), _) = f in
       (match img_load (fun x -> Ok x) (fun f -> Ok f) f with
        | Err e -> "err " ^ str_err e
        | Ok ((mat, sh), _) -> "ok nifti=" ^ string_of_zlist nsh ^ " shape=" ^ string_of_zlist sh ^ " dims=" ^ str_dims mat))
  | "setext", [exts; xml] ->
    let r = set_cifti_ext (pairs (zlist_of_string exts)) (z_of_string xml) in
    "ok " ^ str_nv r ^ " first=" ^ str_optz (first_cifti_ext r)
  | _ -> "err driver:badop"
let () = run_lines handle
