(* C18 driver body (after `open C18_model` and drvlib.ml).
   Tokens: index  i<k> | s<a>:<b>:<c> (_ = None) | l[..] | m[0/1,..]
           vol    _ | [16 affine entries, 3 shape entries]
           nv     [k,v,k,v,...]         voxels [i,j,k,i,j,k,...]
           bm     <names> <voxels> <vertex> <vol> <nv>        (5 tokens)
           par    <names> <voxels ids> <vertices ids> <vol> <nv>  (5 tokens)
           sc     <names> <meta>   lab <names> <labels> <meta>   ser <start> <step> <size> <unit>
           axis   B <bm> | P <par> | S <sc> | L <lab> | T <ser>
   Ops: resolve <n> <idx> | ser_time <ser> | ser_get <ser> <idx> | ser_add <ser> <ser>
        sc_get <sc> <idx> | sc_add <sc> <sc> | lab_get .. | lab_add .. | par_get .. | par_add ..
        bm_make <bm> | bm_get <bm> <idx> | bm_add <bm> <bm> | bm_runs <bm> | bm_map <bm> | bm_rt <bm>
        bm_eq <bm> <bm> | setext <[code,id,...]> <xmlid> | eq <axis> <axis> | header <k> <axis>*k  | file <datashape> <k> <axis>*k *)
let optz s = if s = "_" then None else Some (z_of_string s)
let str_optz = function None -> "_" | Some v -> string_of_z v
let parse_idx tok =
  let rest = String.sub tok 1 (String.length tok - 1) in
  match tok.[0] with
  | 'i' -> IInt (z_of_string rest)
  | 's' -> (match String.split_on_char ':' rest with
            | [a; b; c] -> ISlice { s_start = optz a; s_stop = optz b; s_step = optz c }
            | _ -> failwith "bad slice")
  | 'l' -> IList (zlist_of_string rest)
  | 'm' -> IMask (List.map (fun z -> int_of_z z <> 0) (zlist_of_string rest))
  | _ -> failwith "bad index token"
let str_err = function
  | EIndex -> "index" | EStep0 -> "step0" | EKind -> "kind"
  | EShape -> "shape" | EVolume -> "volume" | ENegative -> "negative" | ENvert -> "nvert"
  | EStep -> "step" | EUnit -> "unit" | EAssign -> "assign" | ENoVolume -> "novolume"
  | ENotMapped -> "notmapped" | EDataShape -> "datashape" | ENoExt -> "noext"
let res f = function Ok a -> "ok " ^ f a | Err e -> "err " ^ str_err e
let rec triples = function
  | a :: b :: c :: r -> ((a, b), c) :: triples r | [] -> [] | _ -> failwith "bad voxel list"
let rec pairs = function a :: b :: r -> (a, b) :: pairs r | [] -> [] | _ -> failwith "bad nv list"
let parse_vol s = if s = "_" then None else
  let l = zlist_of_string s in
  (match drop_n 16 l with [a; b; c] -> Some (take_n 16 l, ((a, b), c)) | _ -> failwith "bad vol")
let str_vol = function None -> "_" | Some (aff, ((a, b), c)) -> string_of_zlist (aff @ [a; b; c])
let str_nv nv = string_of_zlist (List.concat_map (fun (k, v) -> [k; v]) nv)
let str_vox l = string_of_zlist (List.concat_map (fun ((a, b), c) -> [a; b; c]) l)
let parse_bm = function
  | [n; x; t; v; d] -> { b_name = zlist_of_string n; b_voxel = triples (zlist_of_string x);
                         b_vertex = zlist_of_string t; b_vol = parse_vol v; b_nv = pairs (zlist_of_string d) }
  | _ -> failwith "bad bm"
let str_bm a = String.concat " " [string_of_zlist a.b_name; str_vox a.b_voxel; string_of_zlist a.b_vertex;
                                  str_vol a.b_vol; str_nv a.b_nv]
let str_elem ((s, ix), nm) = (if s then "S" else "V") ^ ":" ^ string_of_z nm ^ ":" ^ string_of_zlist ix
let str_bm_full a = str_bm a ^ " elems=" ^ String.concat ";" (List.map str_elem (bm_elements a))
let parse_par = function
  | [n; x; t; v; d] -> { pa_name = zlist_of_string n; pa_voxels = zlist_of_string x;
                         pa_vertices = zlist_of_string t; pa_vol = parse_vol v; pa_nv = pairs (zlist_of_string d) }
  | _ -> failwith "bad par"
let str_par a = String.concat " " [string_of_zlist a.pa_name; string_of_zlist a.pa_voxels;
                                   string_of_zlist a.pa_vertices; str_vol a.pa_vol; str_nv a.pa_nv]
let parse_sc = function [n; m] -> { sc_name = zlist_of_string n; sc_meta = zlist_of_string m } | _ -> failwith "bad sc"
let str_sc a = string_of_zlist a.sc_name ^ " " ^ string_of_zlist a.sc_meta
let parse_lab = function
  | [n; l; m] -> { lb_name = zlist_of_string n; lb_label = zlist_of_string l; lb_meta = zlist_of_string m }
  | _ -> failwith "bad lab"
let str_lab a = String.concat " " [string_of_zlist a.lb_name; string_of_zlist a.lb_label; string_of_zlist a.lb_meta]
let parse_ser = function
  | [a; b; c; d] -> { se_start = z_of_string a; se_step = z_of_string b; se_size = z_of_string c; se_unit = z_of_string d }
  | _ -> failwith "bad ser"
let str_ser a = String.concat " " (List.map string_of_z [a.se_start; a.se_step; a.se_size; a.se_unit])
let split_at n l = (take_n n l, drop_n n l)
let parse_axis = function
  | "B" :: r -> let (a, r') = split_at 5 r in (ABm (parse_bm a), r')
  | "P" :: r -> let (a, r') = split_at 5 r in (APar (parse_par a), r')
  | "S" :: r -> let (a, r') = split_at 2 r in (ASc (parse_sc a), r')
  | "L" :: r -> let (a, r') = split_at 3 r in (ALab (parse_lab a), r')
  | "T" :: r -> let (a, r') = split_at 4 r in (ASer (parse_ser a), r')
  | _ -> failwith "bad axis"
let rec parse_axes k l = if k = 0 then [] else let (a, r) = parse_axis l in a :: parse_axes (k - 1) r
let str_axis = function
  | ABm a -> "B " ^ str_bm a | APar a -> "P " ^ str_par a | ASc a -> "S " ^ str_sc a
  | ALab a -> "L " ^ str_lab a | ASer a -> "T " ^ str_ser a
let str_model m =
  String.concat ":" [string_of_z m.m_off; string_of_z m.m_cnt; (if m.m_surf then "S" else "V"); string_of_z m.m_name;
                     str_optz m.m_nvert; (if m.m_surf then string_of_zlist m.m_vtx else str_vox m.m_vox)]
let str_map mp = string_of_int (List.length mp.mp_models) ^ " " ^ String.concat ";" (List.map str_model mp.mp_models)
                 ^ " vol=" ^ str_vol mp.mp_vol
let str_runs l = String.concat ";" (List.map (fun ((nm, s), e) -> string_of_z nm ^ ":" ^ string_of_z s ^ ":" ^ str_optz e) l)
let str_structs l = String.concat ";" (List.map (fun ((nm, s), sub) -> string_of_z nm ^ ":" ^ string_of_z s ^ ":" ^ string_of_z (axis_len (ABm sub))) l)
let header_of axes = to_header axis_eqb axis_enc axes
let str_dims mat = String.concat ";" (List.map (fun (ds, _) -> string_of_zlist ds) mat)
let handle op args = match op, args with
  | "resolve", [n; ix] -> res string_of_zlist (resolve (z_of_string n) (parse_idx ix))
  | "ser_time", a -> "ok " ^ string_of_zlist (ser_time (parse_ser a))
  | "ser_get", [a; b; c; d; ix] ->
    res (function SAxis x -> "axis " ^ str_ser x ^ " time=" ^ string_of_zlist (ser_time x) | SElem t -> "elem " ^ string_of_z t)
      (ser_getitem (parse_ser [a; b; c; d]) (parse_idx ix))
  | "ser_add", [a; b; c; d; e; f; g; h] ->
    res (fun x -> str_ser x ^ " time=" ^ string_of_zlist (ser_time x)) (ser_add (parse_ser [a; b; c; d]) (parse_ser [e; f; g; h]))
  | "sc_get", [n; m; ix] -> res str_sc (sc_getitem (parse_sc [n; m]) (parse_idx ix))
  | "sc_add", [n; m; n2; m2] -> res str_sc (sc_add (parse_sc [n; m]) (parse_sc [n2; m2]))
  | "lab_get", [n; l; m; ix] -> res str_lab (lab_getitem (parse_lab [n; l; m]) (parse_idx ix))
  | "lab_add", [n; l; m; n2; l2; m2] -> res str_lab (lab_add (parse_lab [n; l; m]) (parse_lab [n2; l2; m2]))
  | "par_get", [a; b; c; d; e; ix] -> res str_par (par_getitem (parse_par [a; b; c; d; e]) (parse_idx ix))
  | "par_add", l when List.length l = 10 -> let (x, y) = split_at 5 l in res str_par (par_add (parse_par x) (parse_par y))
  | "bm_make", l when List.length l = 5 ->
    let a = parse_bm l in res str_bm_full (bm_make a.b_name a.b_voxel a.b_vertex a.b_vol a.b_nv)
  | "bm_get", [a; b; c; d; e; ix] ->
    let x = parse_bm [a; b; c; d; e] in
    (match parse_idx ix with
     | IInt k -> res (fun el -> "elem " ^ str_elem el) (bm_get_element x k)
     | i -> res (fun y -> "axis " ^ str_bm_full y) (bm_getitem x i))
  | "bm_add", l when List.length l = 10 -> let (x, y) = split_at 5 l in res str_bm_full (bm_add (parse_bm x) (parse_bm y))
  | "bm_runs", l when List.length l = 5 ->
    let a = parse_bm l in
    (match bm_runs a, bm_iter_structures a with
     | Ok r, Ok s -> "ok " ^ str_runs r ^ " " ^ str_structs s
     | Err e, _ | _, Err e -> "err " ^ str_err e)
  | "bm_map", l when List.length l = 5 -> res str_map (bm_to_mapping (parse_bm l))
  | "bm_rt", l when List.length l = 5 ->
    let a = parse_bm l in
    (match bm_to_mapping a with
     | Err e -> "err " ^ str_err e
     | Ok m -> res (fun a' -> str_bm_full a' ^ " eq=" ^ string_of_bool (bm_eqb a' a) ^ string_of_bool (bm_eqb a a')) (bm_from_mapping m))
  | "bm_eq", l when List.length l = 10 -> let (x, y) = split_at 5 l in "ok " ^ string_of_bool (bm_eqb (parse_bm x) (parse_bm y))
  | "eq", l ->
    (match parse_axes 2 l with
     | [a; b] -> "ok " ^ string_of_bool (axis_eqb a b) ^ string_of_bool (axis_eqb b a)
     | _ -> failwith "bad eq")
  | "header", k :: l ->
    let axes = parse_axes (int_of_string k) l in
    (match header_of axes with
     | Err e -> "err " ^ str_err e
     | Ok mat ->
       "ok dims=" ^ str_dims mat ^ " " ^
       String.concat " | " (List.mapi (fun i ax ->
           match get_axis axis_dec mat (z_of_int i) with
           | Ok a' -> str_axis a' ^ " eq=" ^ string_of_bool (axis_eqb a' ax)
           | Err e -> "err " ^ str_err e) axes))
  | "file", shape :: k :: l ->
    (* container instantiated with X = matrix, D = shape list, F = (nifti shape, ext, data) *)
    let axes = parse_axes (int_of_string k) l in
    let d = zlist_of_string shape in
    (match img_save axis_eqb axis_enc (fun m -> m) axis_len (fun d -> d) (fun sh x d -> ((sh, Some x), d)) axes d with
     | Err e -> "err " ^ str_err e
     | Ok f ->
       let ((nsh, _), _) = f in
       (match img_load (fun x -> Ok x) (fun f -> Ok f) f with
        | Err e -> "err " ^ str_err e
        | Ok ((mat, sh), _) -> "ok nifti=" ^ string_of_zlist nsh ^ " shape=" ^ string_of_zlist sh ^ " dims=" ^ str_dims mat))
  | "setext", [exts; xml] ->
    let r = set_cifti_ext (pairs (zlist_of_string exts)) (z_of_string xml) in
    "ok " ^ str_nv r ^ " first=" ^ str_optz (first_cifti_ext r)
  | _ -> "err driver:badop"
let () = run_lines handle
