(* C18/Model.v — CIFTI-2 axes (nibabel/cifti2/cifti2_axes.py), the header built from them
   (to_header / Cifti2Matrix.get_index_map / get_axis in cifti2.py) and the NIfTI-2 container
   glue of Cifti2Image.  Definitions only.

   Encoding conventions (the harness interns every Python value that the code only moves):
     * brain-structure names, parcel / map names, metadata dicts, label tables, parcel voxel
       tables and parcel vertex dicts are integers (ids handed out by the harness);
     * a volume is (affine, shape) = (list Z of the 16 entries, (i,j,k));
     * `nvertices` dicts are association lists in insertion order with distinct keys;
     * SeriesAxis start/step are integers (the harness sends values that are exactly
       representable and scales dyadic ones), unit is an id.
   NumPy 1-D indexing `arr[item]` for item = slice / integer sequence / boolean mask is
   `select d arr (resolve n item)`; this specification function is validated against
   np.arange(n)[item] on every run of the check.

   Counterparts:
     resolve / select                       NumPy arr[item] on a 1-D array (yardstick)
     ser_*                                  SeriesAxis.{time,get_element,__getitem__,__add__,__eq__}
     sc_* / lab_* / par_*                   ScalarAxis / LabelAxis / ParcelsAxis
     bm_make                                BrainModelAxis.__init__ (arrays given)
     bm_getitem / bm_get_element / bm_add   BrainModelAxis.__getitem__/get_element/__add__
     runs_loop / bm_iter_structures         BrainModelAxis.iter_structures
     bm_to_mapping / bm_from_mapping        BrainModelAxis.to_mapping / from_index_mapping
     bm_eqb                                 BrainModelAxis.__eq__
     to_header / get_index_map / get_axis   cifti2_axes.to_header, Cifti2Matrix.get_index_map/get_axis
     img_save / img_load                    Cifti2Image.to_file_map / from_file_map *)
From Coq Require Import ZArith List Bool.
From NV Require Import Base.PySlice.
Import ListNotations.
Open Scope Z_scope.

Inductive err :=
  | EIndex          (* IndexError *)
  | EStep0          (* ValueError: slice step cannot be zero *)
  | EKind           (* SeriesAxis indexed with something that is not an int or a slice *)
  | EShape          (* ValueError: incorrect shape *)
  | EVolume         (* ValueError: affine / volume shape missing or different *)
  | ENegative       (* ValueError: undefined vertex / voxel indices *)
  | ENvert          (* ValueError: inconsistent number of vertices *)
  | EStep           (* ValueError: different step *)
  | EUnit           (* ValueError: different unit *)
  | EAssign         (* ValueError: slice assignment of the wrong length *)
  | ENoVolume       (* AttributeError: voxel brain model without a Volume element *)
  | ENotMapped      (* Cifti2HeaderError: index not mapped *)
  | EDataShape      (* ValueError: data shape does not match the header *)
  | ENoExt.         (* ValueError: no CIFTI-2 extension *)
Inductive res (A : Type) := Ok (a : A) | Err (e : err).
Arguments Ok {A}. Arguments Err {A}.

Definition zlen {A} (l : list A) : Z := Z.of_nat (length l).

(* ------------------------------------------------------------------ NumPy 1-D indexing *)
Inductive index :=
  | IInt (k : Z)
  | ISlice (s : pslice)
  | IList (l : list Z)          (* integer sequence / integer array *)
  | IMask (m : list bool).      (* boolean array *)

Fixpoint wrap_all (n : Z) (l : list Z) : option (list Z) :=
  match l with
  | [] => Some []
  | k :: r => match py_int_index n k, wrap_all n r with
              | Some i, Some r' => Some (i :: r')
              | _, _ => None
              end
  end.

Fixpoint mask_positions (i : Z) (m : list bool) : list Z :=
  match m with
  | [] => []
  | b :: r => (if b then [i] else []) ++ mask_positions (i + 1) r
  end.

(* positions selected on an axis of length n, in result order; ints are handled by callers *)
Definition resolve (n : Z) (ix : index) : res (list Z) :=
  match ix with
  | IInt k => match py_int_index n k with Some i => Ok [i] | None => Err EIndex end
  | ISlice s => if step_of s =? 0 then Err EStep0 else Ok (py_indices n s)
  | IList l => match wrap_all n l with Some r => Ok r | None => Err EIndex end
  | IMask m => if zlen m =? n then Ok (mask_positions 0 m) else Err EIndex
  end.

Definition select {A} (d : A) (l : list A) (pos : list Z) : list A :=
  map (fun i => nth (Z.to_nat i) l d) pos.

(* ------------------------------------------------------------------ SeriesAxis *)
Record series := mkSer { se_start : Z; se_step : Z; se_size : Z; se_unit : Z }.

(* np.arange(size) * step + start *)
Definition ser_time (a : series) : list Z :=
  map (fun k => k * se_step a + se_start a) (zseq (se_size a)).

Definition ser_get_element (a : series) (index : Z) : res Z :=
  let index' := if index <? 0 then se_size a + index else index in
  if (se_size a <=? index') || (index' <? 0) then Err EIndex
  else Ok (se_start a + se_step a * index').

Definition ser_getitem_slice (a : series) (s : pslice) : res series :=
  if step_of s =? 0 then Err EStep0 else
  let '(idx_start, idx_end, step) := adjust (se_size a) s in
  let nelements := slen (idx_start, idx_end, step) in
  Ok (mkSer (idx_start * se_step a + se_start a) (se_step a * step) nelements (se_unit a)).

Inductive ser_item := SAxis (a : series) | SElem (t : Z).
Definition ser_getitem (a : series) (ix : index) : res ser_item :=
  match ix with
  | ISlice s => match ser_getitem_slice a s with Ok b => Ok (SAxis b) | Err e => Err e end
  | IInt k => match ser_get_element a k with Ok t => Ok (SElem t) | Err e => Err e end
  | _ => Err EIndex
  end.

Definition ser_add (a b : series) : res series :=
  if negb (se_step b =? se_step a) then Err EStep
  else if negb (se_unit b =? se_unit a) then Err EUnit
  else Ok (mkSer (se_start a) (se_step a) (se_size a + se_size b) (se_unit a)).

Definition ser_eqb (a b : series) : bool :=
  (se_start a =? se_start b) && (se_step a =? se_step b) && (se_size a =? se_size b)
  && (se_unit a =? se_unit b).

(* ------------------------------------------------------------------ Scalar / Label / Parcels *)
Record scalar := mkSc { sc_name : list Z; sc_meta : list Z }.
Definition sc_make (name meta : list Z) : res scalar :=
  if zlen meta =? zlen name then Ok (mkSc name meta) else Err EShape.
Definition sc_len (a : scalar) : Z := zlen (sc_name a).
Definition sc_elements (a : scalar) : list (Z * Z) := combine (sc_name a) (sc_meta a).
Definition sc_getitem (a : scalar) (ix : index) : res scalar :=
  match resolve (sc_len a) ix with
  | Err e => Err e
  | Ok pos => sc_make (select 0 (sc_name a) pos) (select 0 (sc_meta a) pos)
  end.
Definition sc_add (a b : scalar) : res scalar :=
  sc_make (sc_name a ++ sc_name b) (sc_meta a ++ sc_meta b).

Record label := mkLab { lb_name : list Z; lb_label : list Z; lb_meta : list Z }.
Definition lab_make (name lab meta : list Z) : res label :=
  if (zlen meta =? zlen name) && (zlen lab =? zlen name) then Ok (mkLab name lab meta) else Err EShape.
Definition lab_len (a : label) : Z := zlen (lb_name a).
Definition lab_elements (a : label) : list (Z * Z * Z) :=
  combine (combine (lb_name a) (lb_label a)) (lb_meta a).
Definition lab_getitem (a : label) (ix : index) : res label :=
  match resolve (lab_len a) ix with
  | Err e => Err e
  | Ok pos => lab_make (select 0 (lb_name a) pos) (select 0 (lb_label a) pos) (select 0 (lb_meta a) pos)
  end.
Definition lab_add (a b : label) : res label :=
  lab_make (lb_name a ++ lb_name b) (lb_label a ++ lb_label b) (lb_meta a ++ lb_meta b).

Definition vol := (list Z * (Z * Z * Z))%type.          (* affine entries, volume shape *)
Definition nvdict := list (Z * Z).                        (* structure -> number of vertices *)

Definition list_eqb (a b : list Z) : bool :=
  (zlen a =? zlen b) && forallb (fun p => fst p =? snd p) (combine a b).
Definition shape_eqb (a b : Z * Z * Z) : bool :=
  let '(a1, a2, a3) := a in let '(b1, b2, b3) := b in (a1 =? b1) && (a2 =? b2) && (a3 =? b3).
Definition vol_eqb (a b : vol) : bool := list_eqb (fst a) (fst b) && shape_eqb (snd a) (snd b).

Fixpoint lookup (d : nvdict) (k : Z) : option Z :=
  match d with
  | [] => None
  | (k', v) :: r => if k' =? k then Some v else lookup r k
  end.
(* d[k] = v : replace in place or append *)
Fixpoint dict_set (d : nvdict) (k v : Z) : nvdict :=
  match d with
  | [] => [(k, v)]
  | (k', v') :: r => if k' =? k then (k', v) :: r else (k', v') :: dict_set r k v
  end.
Definition dict_eqb (a b : nvdict) : bool :=
  (zlen a =? zlen b)
  && forallb (fun kv => match lookup b (fst kv) with Some v => v =? snd kv | None => false end) a.

(* the volume and nvertices merging shared by BrainModelAxis.__add__ and ParcelsAxis.__add__ *)
Definition merge_vol (a b : option vol) : res (option vol) :=
  match a with
  | None => Ok b
  | Some va => match b with
               | Some vb => if negb (vol_eqb vb va) then Err EVolume else Ok a
               | None => Ok a
               end
  end.
Fixpoint merge_nv (acc : nvdict) (other : nvdict) : res nvdict :=
  match other with
  | [] => Ok acc
  | (k, v) :: r =>
    match lookup acc k with
    | Some v0 => if negb (v0 =? v) then Err ENvert else merge_nv (dict_set acc k v) r
    | None => merge_nv (dict_set acc k v) r
    end
  end.

(* the vertices of one parcel: a dict structure -> vertex indices (insertion order, distinct keys) *)
Definition vdict := list (Z * list Z).
Record parcels := mkPar { pa_name : list Z; pa_voxels : list Z; pa_vertices : list vdict;
                          pa_vol : option vol; pa_nv : nvdict }.
Definition par_make (name voxels : list Z) (vertices : list vdict) (v : option vol) (nv : nvdict) : res parcels :=
  if (zlen voxels =? zlen name) && (zlen vertices =? zlen name)
  then Ok (mkPar name voxels vertices v nv) else Err EShape.
Definition par_len (a : parcels) : Z := zlen (pa_name a).
Definition par_elements (a : parcels) : list (Z * Z * vdict) :=
  combine (combine (pa_name a) (pa_voxels a)) (pa_vertices a).
Definition par_getitem (a : parcels) (ix : index) : res parcels :=
  match resolve (par_len a) ix with
  | Err e => Err e
  | Ok pos => par_make (select 0 (pa_name a) pos) (select 0 (pa_voxels a) pos)
                       (select [] (pa_vertices a) pos) (pa_vol a) (pa_nv a)
  end.
Definition par_add (a b : parcels) : res parcels :=
  match merge_vol (pa_vol a) (pa_vol b) with
  | Err e => Err e
  | Ok v =>
    match merge_nv (pa_nv a) (pa_nv b) with
    | Err e => Err e
    | Ok nv => par_make (pa_name a ++ pa_name b) (pa_voxels a ++ pa_voxels b)
                        (pa_vertices a ++ pa_vertices b) v nv
    end
  end.

(* ------------------------------------------------------------------ BrainModelAxis *)
Definition ijk := (Z * Z * Z)%type.
Definition no_ijk : ijk := (-1, -1, -1).
Record bm := mkBm { b_name : list Z; b_voxel : list ijk; b_vertex : list Z;
                    b_vol : option vol; b_nv : nvdict }.

Definition zmem (x : Z) (l : list Z) : bool := existsb (Z.eqb x) l.
Definition is_surf (nv : nvdict) (x : Z) : bool := zmem x (map fst nv).
Definition ijk_neg (v : ijk) : bool := let '(i, j, k) := v in (i <? 0) || (j <? 0) || (k <? 0).
Definition is_none {A} (o : option A) : bool := match o with None => true | Some _ => false end.

(* __init__ with name, voxel and vertex arrays all given (the way __getitem__, __add__ and
   from_index_mapping call it) *)
Definition bm_make (name : list Z) (voxel : list ijk) (vertex : list Z) (v : option vol)
                   (nv : nvdict) : res bm :=
  (* nvertices entries whose structure does not occur are deleted *)
  let nv' := filter (fun kv => zmem (fst kv) name) nv in
  if negb ((zlen voxel =? zlen name) && (zlen vertex =? zlen name)) then Err EShape else
  (* surface_mask (np.vectorize with otypes=[bool] since 82b9e2d7: an empty axis gives an empty
     mask, `all()` of which is True, so an empty axis has no volume and no nvertices) *)
  let sm := map (is_surf nv') name in
  let allsurf := forallb (fun b => b) sm in
  if negb allsurf && is_none v then Err EVolume else
  let v' := if allsurf then None else v in
  if existsb (fun p => fst p && (snd p <? 0)) (combine sm vertex) then Err ENegative else
  if existsb (fun p => negb (fst p) && ijk_neg (snd p)) (combine sm voxel) then Err ENegative else
  Ok (mkBm name voxel vertex v' nv').

Definition bm_len (a : bm) : Z := zlen (b_name a).
Definition bm_surface_mask (a : bm) : list bool := map (is_surf (b_nv a)) (b_name a).

(* get_element: (is_surface, [vertex] or [i,j,k], structure) *)
Definition bm_elem (nv : nvdict) (name : Z) (vox : ijk) (vtx : Z) : bool * list Z * Z :=
  if is_surf nv name then (true, [vtx], name)
  else let '(i, j, k) := vox in (false, [i; j; k], name).
Definition bm_elems (nv : nvdict) (name : list Z) (vox : list ijk) (vtx : list Z)
  : list (bool * list Z * Z) :=
  map (fun p => bm_elem nv (fst (fst p)) (snd (fst p)) (snd p)) (combine (combine name vox) vtx).
Definition bm_elements (a : bm) := bm_elems (b_nv a) (b_name a) (b_voxel a) (b_vertex a).

Definition bm_get_element (a : bm) (k : Z) : res (bool * list Z * Z) :=
  match py_int_index (bm_len a) k with
  | None => Err EIndex
  | Some i => Ok (bm_elem (b_nv a) (nth (Z.to_nat i) (b_name a) 0)
                          (nth (Z.to_nat i) (b_voxel a) no_ijk) (nth (Z.to_nat i) (b_vertex a) 0))
  end.

(* __getitem__ for a non-int item *)
Definition bm_getitem (a : bm) (ix : index) : res bm :=
  match resolve (bm_len a) ix with
  | Err e => Err e
  | Ok pos => bm_make (select 0 (b_name a) pos) (select no_ijk (b_voxel a) pos)
                      (select 0 (b_vertex a) pos) (b_vol a) (b_nv a)
  end.

Definition bm_add (a b : bm) : res bm :=
  match merge_vol (b_vol a) (b_vol b) with
  | Err e => Err e
  | Ok v =>
    match merge_nv (b_nv a) (b_nv b) with
    | Err e => Err e
    | Ok nv => bm_make (b_name a ++ b_name b) (b_voxel a ++ b_voxel b)
                       (b_vertex a ++ b_vertex b) v nv
    end
  end.

Definition ijk_eqb (a b : ijk) : bool := shape_eqb a b.
Fixpoint masked {A} (m : list bool) (l : list A) : list A :=
  match m, l with
  | b :: mr, x :: lr => if b then x :: masked mr lr else masked mr lr
  | _, _ => []
  end.
Fixpoint ijks_eqb (a b : list ijk) : bool :=
  match a, b with
  | [], [] => true
  | x :: ar, y :: br => ijk_eqb x y && ijks_eqb ar br
  | _, _ => false
  end.
Definition opt_vol_eqb (a b : option vol) : bool :=
  match a, b with
  | None, None => true
  | Some x, Some y => vol_eqb x y
  | _, _ => false
  end.
(* __eq__ *)
Definition bm_eqb (a b : bm) : bool :=
  (bm_len a =? bm_len b)
  && negb (xorb (is_none (b_vol a)) (is_none (b_vol b)))
  && (is_none (b_vol a) || opt_vol_eqb (b_vol a) (b_vol b))
  && dict_eqb (b_nv a) (b_nv b)
  && list_eqb (b_name a) (b_name b)
  && ijks_eqb (masked (map negb (bm_surface_mask a)) (b_voxel a))
              (masked (map negb (bm_surface_mask b)) (b_voxel b))
  && list_eqb (masked (bm_surface_mask a) (b_vertex a)) (masked (bm_surface_mask b) (b_vertex b)).

(* iter_structures: the loop over enumerate(self.name); a run is (name, start, stop) with
   stop = None for the last one *)
Fixpoint runs_loop (names : list Z) (idx_current idx_start start_name : Z)
  : list (Z * Z * option Z) :=
  match names with
  | [] => [(start_name, idx_start, None)]
  | name :: r =>
    if negb (start_name =? name)
    then (start_name, idx_start, Some idx_current) :: runs_loop r (idx_current + 1) idx_current name
    else runs_loop r (idx_current + 1) idx_start start_name
  end.
Definition bm_runs (a : bm) : res (list (Z * Z * option Z)) :=
  match b_name a with
  | [] => Err EIndex                         (* self.name[0] *)
  | n0 :: _ => Ok (runs_loop (b_name a) 0 0 n0)
  end.
(* (name, slice, self[slice]) *)
Fixpoint with_subaxes (a : bm) (runs : list (Z * Z * option Z)) : res (list (Z * Z * bm)) :=
  match runs with
  | [] => Ok []
  | (nm, s, e) :: r =>
    match bm_getitem a (ISlice (mkSl (Some s) e None)) with
    | Err er => Err er
    | Ok sub => match with_subaxes a r with
                | Err er => Err er
                | Ok l => Ok ((nm, s, sub) :: l)
                end
    end
  end.
Definition bm_iter_structures (a : bm) : res (list (Z * Z * bm)) :=
  match bm_runs a with Err e => Err e | Ok runs => with_subaxes a runs end.

(* Cifti2BrainModel as to_mapping fills it *)
Record brainmodel := mkModel { m_off : Z; m_cnt : Z; m_surf : bool; m_name : Z;
                               m_nvert : option Z; m_vox : list ijk; m_vtx : list Z }.
Record bm_map := mkMap { mp_models : list brainmodel; mp_vol : option vol }.

Definition struct_model (a : bm) (st : Z * Z * bm) : brainmodel :=
  let '(name, start, sub) := st in
  let surf := is_surf (b_nv a) name in
  mkModel start (bm_len sub) surf name
          (if surf then lookup (b_nv a) name else None)
          (if surf then [] else b_voxel sub)
          (if surf then b_vertex sub else []).

Definition bm_to_mapping (a : bm) : res bm_map :=
  match bm_iter_structures a with
  | Err e => Err e
  | Ok structs =>
    let models := map (struct_model a) structs in
    (* mim.volume is set at the first voxel structure, from self.affine / self.volume_shape *)
    let v := if existsb (fun m => negb (m_surf m)) models then b_vol a else None in
    Ok (mkMap models v)
  end.

(* arr[lo:hi] = vals on a 1-D array (same length required; the broadcast of a single value
   cannot arise from to_mapping output and is treated as a mismatch unless hi - lo = 1) *)
Definition set_range {A} (lo hi : Z) (vals arr : list A) : res (list A) :=
  let '(a, b, _) := adjust (zlen arr) (mkSl (Some lo) (Some hi) None) in
  let cnt := slen (a, b, 1) in
  if zlen vals =? cnt
  then Ok (firstn (Z.to_nat a) arr ++ vals ++ skipn (Z.to_nat (a + cnt)) arr)
  else Err EAssign.

Record decode_state := mkDs { ds_name : list Z; ds_voxel : list ijk; ds_vertex : list Z;
                              ds_nv : nvdict; ds_vol : option vol }.
Definition decode_step (mvol : option vol) (st : res decode_state) (m : brainmodel)
  : res decode_state :=
  match st with
  | Err e => Err e
  | Ok s =>
    let index_end := m_off m + m_cnt m in
    let name' := ds_name s ++ repeat (m_name m) (Z.to_nat (m_cnt m)) in
    if m_surf m then
      match set_range (m_off m) index_end (m_vtx m) (ds_vertex s) with
      | Err e => Err e
      | Ok vtx' =>
        Ok (mkDs name' (ds_voxel s) vtx'
                 (dict_set (ds_nv s) (m_name m) (match m_nvert m with Some n => n | None => 0 end))
                 (ds_vol s))
      end
    else
      match set_range (m_off m) index_end (m_vox m) (ds_voxel s) with
      | Err e => Err e
      | Ok vox' =>
        match ds_vol s with
        | Some _ => Ok (mkDs name' vox' (ds_vertex s) (ds_nv s) (ds_vol s))
        | None => match mvol with
                  | None => Err ENoVolume
                  | Some v => Ok (mkDs name' vox' (ds_vertex s) (ds_nv s) (Some v))
                  end
        end
      end
  end.
Definition bm_from_mapping (mp : bm_map) : res bm :=
  let nbm := fold_right (fun m a => m_cnt m + a) 0 (mp_models mp) in
  let init := mkDs [] (repeat no_ijk (Z.to_nat nbm)) (repeat (-1) (Z.to_nat nbm)) [] None in
  match fold_left (decode_step (mp_vol mp)) (mp_models mp) (Ok init) with
  | Err e => Err e
  | Ok s => bm_make (ds_name s) (ds_voxel s) (ds_vertex s) (ds_vol s) (ds_nv s)
  end.

(* ------------------------------------------------------------------ the five axis kinds *)
Definition sc_eqb (a b : scalar) : bool :=
  (sc_len a =? sc_len b) && list_eqb (sc_name a) (sc_name b) && list_eqb (sc_meta a) (sc_meta b).
Definition lab_eqb (a b : label) : bool :=
  (lab_len a =? lab_len b) && list_eqb (lb_name a) (lb_name b) && list_eqb (lb_meta a) (lb_meta b)
  && list_eqb (lb_label a) (lb_label b).
(* ParcelsAxis.__eq__, line for line.  The per-parcel loop
     for vert1, vert2 in zip(self.vertices, other.vertices):
         if len(vert1) != len(vert2): return False
         for name in vert1.keys():
             if name not in vert2 or not np.array_equal(vert1[name], vert2[name]): return False
   is vdict_eqb on every pair.  zip never truncates: the constructor checks that vertices has one
   entry per parcel and the sizes were compared first; the model says so with a length test. *)
Fixpoint vlookup (d : vdict) (k : Z) : option (list Z) :=
  match d with
  | [] => None
  | (k', v) :: r => if k' =? k then Some v else vlookup r k
  end.
Definition vdict_eqb (v1 v2 : vdict) : bool :=
  (zlen v1 =? zlen v2)
  && forallb (fun kv => match vlookup v2 (fst kv) with Some idx => list_eqb (snd kv) idx | None => false end) v1.
Definition verts_eqb (l1 l2 : list vdict) : bool :=
  (zlen l1 =? zlen l2) && forallb (fun p => vdict_eqb (fst p) (snd p)) (combine l1 l2).
Definition par_eqb (a b : parcels) : bool :=
  (par_len a =? par_len b) && list_eqb (pa_name a) (pa_name b) && dict_eqb (pa_nv a) (pa_nv b)
  && list_eqb (pa_voxels a) (pa_voxels b) && opt_vol_eqb (pa_vol a) (pa_vol b)
  && verts_eqb (pa_vertices a) (pa_vertices b).

Inductive axis := ABm (a : bm) | APar (a : parcels) | ASc (a : scalar) | ALab (a : label)
                | ASer (a : series).
(* MatrixIndicesMap payloads.  For the four non-brain-model kinds to_mapping /
   from_index_mapping re-pack the same per-element values one by one into
   Cifti2Parcel / Cifti2NamedMap / series attributes and back, modelled as the identity. *)
Inductive amap := MBm (m : bm_map) | MPar (a : parcels) | MSc (a : scalar) | MLab (a : label)
                | MSer (a : series).
Definition axis_eqb (a b : axis) : bool :=
  match a, b with
  | ABm x, ABm y => bm_eqb x y
  | APar x, APar y => par_eqb x y
  | ASc x, ASc y => sc_eqb x y
  | ALab x, ALab y => lab_eqb x y
  | ASer x, ASer y => ser_eqb x y
  | _, _ => false
  end.
Definition axis_len (a : axis) : Z :=
  match a with
  | ABm x => bm_len x | APar x => par_len x | ASc x => sc_len x | ALab x => lab_len x
  | ASer x => se_size x
  end.
Definition axis_enc (a : axis) : res amap :=
  match a with
  | ABm x => match bm_to_mapping x with Ok m => Ok (MBm m) | Err e => Err e end
  | APar x => Ok (MPar x) | ASc x => Ok (MSc x) | ALab x => Ok (MLab x) | ASer x => Ok (MSer x)
  end.
Definition axis_dec (m : amap) : res axis :=
  match m with
  | MBm x => match bm_from_mapping x with Ok a => Ok (ABm a) | Err e => Err e end
  | MPar x => Ok (APar x) | MSc x => Ok (ASc x) | MLab x => Ok (ALab x) | MSer x => Ok (ASer x)
  end.

(* ------------------------------------------------------------------ header from axes *)
Section Header.
  Context {A M : Type}.
  Variable aeqb : A -> A -> bool.            (* Axis.__eq__ *)
  Variable enc : A -> res M.                 (* Axis.to_mapping (payload without the dimension) *)
  Variable dec : M -> res A.                 (* cifti2_axes.from_index_mapping *)

  (* `ax in axes[:dim]` / `axes.index(ax)` : first position whose axis equals ax *)
  Fixpoint index_of (ax : A) (prev : list A) (i : nat) : option nat :=
    match prev with
    | [] => None
    | x :: r => if aeqb x ax then Some i else index_of ax r (S i)
    end.

  (* matrix = list of (applies_to_matrix_dimension, payload); mims_all = for every dimension
     the position of its map in the matrix *)
  Fixpoint append_dim (mat : list (list Z * M)) (k : nat) (dim : Z) : list (list Z * M) :=
    match mat, k with
    | [], _ => []
    | (ds, m) :: r, O => (ds ++ [dim], m) :: r
    | x :: r, S k' => x :: append_dim r k' dim
    end.

  Fixpoint to_header_loop (todo done : list A) (dim : Z) (mims_all : list nat)
                          (mat : list (list Z * M)) : res (list (list Z * M)) :=
    match todo with
    | [] => Ok mat
    | ax :: r =>
      match index_of ax done 0 with
      | Some dim_prev =>
        let k := nth dim_prev mims_all O in
        to_header_loop r (done ++ [ax]) (dim + 1) (mims_all ++ [k]) (append_dim mat k dim)
      | None =>
        match enc ax with
        | Err e => Err e
        | Ok m => to_header_loop r (done ++ [ax]) (dim + 1) (mims_all ++ [length mat])
                                 (mat ++ [([dim], m)])
        end
      end
    end.
  Definition to_header (axes : list A) := to_header_loop axes [] 0 [] [].

  Fixpoint get_index_map (mat : list (list Z * M)) (index : Z) : res M :=
    match mat with
    | [] => Err ENotMapped
    | (ds, m) :: r => if existsb (Z.eqb index) ds then Ok m else get_index_map r index
    end.
  Definition get_axis (mat : list (list Z * M)) (index : Z) : res A :=
    match get_index_map mat index with Err e => Err e | Ok m => dec m end.

  (* ---------------- the CIFTI-2 file: NIfTI-2 container with the XML in extension 32 *)
  Context {X D F : Type}.
  Variable to_xml : list (list Z * M) -> X.          (* Cifti2Header.to_xml *)
  Variable parse_xml : X -> res (list (list Z * M)). (* Cifti2Parser *)
  Variable alen : A -> Z.                            (* len(axis) *)
  Variable dshape : D -> list Z.                     (* dataobj.shape *)
  Variable nifti_write : list Z -> X -> D -> F.      (* Nifti2Image(reshaped data, ext 32) *)
  Variable nifti_read : F -> res (list Z * option X * D).

  (* Cifti2Matrix.get_data_shape for a header built by to_header: the length of the axis of
     every mapped dimension *)
  Definition img_save (axes : list A) (data : D) : res F :=
    match to_header axes with
    | Err e => Err e
    | Ok mat =>
      if negb (list_eqb (dshape data) (map alen axes)) then Err EDataShape
      else Ok (nifti_write ([1; 1; 1; 1] ++ dshape data) (to_xml mat) data)
    end.
  Definition img_load (f : F) : res (list (list Z * M) * list Z * D) :=
    match nifti_read f with
    | Err e => Err e
    | Ok (shape, None, _) => Err ENoExt
    | Ok (shape, Some x, d) =>
      match parse_xml x with
      | Err e => Err e
      | Ok mat => Ok (mat, skipn 4 shape, d)
      end
    end.
End Header.

(* ------------------------------------------------------------------ extensions across saves *)
(* Cifti2Image.to_file_map works on the image's own NIfTI-2 header, whose extension list may
   already hold a CIFTI-2 extension (the header came from a loaded or an already saved image
   through `nifti_header=`): every old CIFTI-2 extension is dropped and ONE fresh extension
   with the XML of the current header is appended, in place.  from_file_map takes the first
   CIFTI-2 extension.  An extension is (code, payload id); CIFTI-2 = code 32. *)
Definition nifti_ext := (Z * Z)%type.
Definition is_cifti_ext (e : nifti_ext) : bool := fst e =? 32.
Definition set_cifti_ext (exts : list nifti_ext) (xml : Z) : list nifti_ext :=
  filter (fun e => negb (is_cifti_ext e)) exts ++ [(32, xml)].
Fixpoint first_cifti_ext (exts : list nifti_ext) : option Z :=
  match exts with
  | [] => None
  | e :: r => if is_cifti_ext e then Some (snd e) else first_cifti_ext r
  end.

