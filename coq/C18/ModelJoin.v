(* C18/ModelJoin.v — the join between the axis records (Model.v) and the XML header structure
   (ModelXml.v): to_mapping / from_index_mapping of the five axis classes as functions between
   an axis and the (type, series attributes, children) of a MatrixIndicesMap.
   Counterparts in /repo/nibabel/cifti2/cifti2_axes.py:
     BrainModelAxis/ParcelsAxis/ScalarAxis/LabelAxis/SeriesAxis.to_mapping   -> xenc
     cifti2_axes.from_index_mapping and the five from_index_mapping methods  -> xdec
   The axis records keep interned payloads (map names, metadata dicts, label tables, parcel
   voxel tables are integers); the content tables below give every id its content and every
   content its id (the harness interns by content, so these are mutually inverse on the
   contents that occur: premise of the theorems).  Definitions only. *)
From Coq Require Import ZArith List Bool.
From NV Require Import Base.PySlice C18.Model C18.Tables C18.ModelXml.
Import ListNotations.
Open Scope Z_scope.

Definition xpayload := (Z * xseries * list xchild)%type.
Definition no_series : xseries := mkXS None None None None None.

Section Join.
  Variable name_str : Z -> str.                 (* the map name with this id *)
  Variable name_id : option str -> Z.           (* str(map_name): None is the string 'None' *)
  Variable meta_c : Z -> xmeta.
  Variable meta_id : xmeta -> Z.
  Variable label_c : Z -> list xlabel.
  Variable label_id : list xlabel -> Z.
  Variable vox_c : Z -> list ijk.
  Variable vox_id : list ijk -> Z.
  (* value * 10 ** exponent on the opaque series values (SeriesStart / SeriesStep are float ids) *)
  Variable scale10 : Z -> Z -> Z.

  Definition vol_child (v : vol) : xchild :=
    let '(aff, (i, j, k)) := v in CVol (mkVL [i; j; k] (Some (-3, Some aff))).
  Definition child_vol (c : xchild) : option vol :=
    match c with
    | CVol (mkVL [i; j; k] (Some (_, Some m))) => Some (m, (i, j, k))
    | _ => None
    end.
  (* mim.volume: the first Volume child *)
  Fixpoint first_vol (l : list xchild) : option xvolume :=
    match l with
    | [] => None
    | CVol v :: _ => Some v
    | _ :: r => first_vol r
    end.
  Definition vol_of (l : list xchild) : res (option vol) :=
    match first_vol l with
    | None => Ok None
    | Some v => match child_vol (CVol v) with Some x => Ok (Some x) | None => Err EVolume end
    end.

  (* ---------------------------------------------------------- BrainModelAxis *)
  Definition bm_child (m : brainmodel) : xchild :=
    CBm (mkXB (Some (m_off m)) (Some (m_cnt m)) (Some (if m_surf m then model_surface else model_voxels))
              (Some (m_name m)) (m_nvert m)
              (if m_surf m then None else Some (m_vox m)) (if m_surf m then Some (m_vtx m) else None)).
  (* the Volume element is appended when the first voxel structure is met, before its BrainModel *)
  Fixpoint bm_children (seen_vol : bool) (v : option vol) (ms : list brainmodel) : list xchild :=
    match ms with
    | [] => []
    | m :: r =>
      if m_surf m then bm_child m :: bm_children seen_vol v r
      else match seen_vol, v with
           | false, Some vv => vol_child vv :: bm_child m :: bm_children true v r
           | _, _ => bm_child m :: bm_children seen_vol v r
           end
    end.
  Definition child_model (c : xchild) : option (option brainmodel) :=
    match c with
    | CBm b =>
      Some (match bx_off b, bx_cnt b, bx_type b, bx_bs b with
            | Some o, Some n, Some t, Some s =>
              Some (mkModel o n (t =? model_surface) s (bx_nvert b)
                            (match bx_vox b with Some l => l | None => [] end)
                            (match bx_vtx b with Some l => l | None => [] end))
            | _, _, _, _ => None
            end)
    | _ => None
    end.
  (* mim.brain_models *)
  Fixpoint models_of (l : list xchild) : option (list brainmodel) :=
    match l with
    | [] => Some []
    | c :: r =>
      match child_model c with
      | None => models_of r
      | Some None => None
      | Some (Some m) => match models_of r with Some ms => Some (m :: ms) | None => None end
      end
    end.

  (* ---------------------------------------------------------- Scalar / Label *)
  Definition named_child (with_table : bool) (n m l : Z) : xchild :=
    CNamed (mkNM (Some (name_str n)) (Some (meta_c m)) (if with_table then Some (label_c l) else None)).
  Definition opt_default {A} (o : option (list A)) : list A := match o with Some l => l | None => [] end.
  (* mim.named_maps *)
  Definition named_of (l : list xchild) : list xnamedmap :=
    flat_map (fun c => match c with CNamed n => [n] | _ => [] end) l.

  (* ---------------------------------------------------------- Parcels *)
  Definition vdict_vertices (d : vdict) : list xvertices := map (fun kv => mkVS (fst kv) (snd kv)) d.
  Fixpoint vdict_set (d : vdict) (k : Z) (v : list Z) : vdict :=
    match d with
    | [] => [(k, v)]
    | (k', v') :: r => if k' =? k then (k', v) :: r else (k', v') :: vdict_set r k v
    end.
  Definition vertices_vdict (l : list xvertices) : vdict :=
    fold_left (fun acc v => vdict_set acc (vs_bs v) (vs_idx v)) l [].
  Definition parcel_child (n x : Z) (d : vdict) : xchild :=
    CParcel (mkPC n (Some (vox_c x)) (vdict_vertices d)).
  Definition parcels_of (l : list xchild) : list xparcel :=
    flat_map (fun c => match c with CParcel p => [p] | _ => [] end) l.
  Definition surfaces_nv (l : list xchild) : nvdict :=
    fold_left (fun acc c => match c with CSurf bs n => dict_set acc bs n | _ => acc end) l [].

  (* ---------------------------------------------------------- to_mapping *)
  Definition xenc (a : axis) : res xpayload :=
    match a with
    | ABm x =>
      match bm_to_mapping x with
      | Ok mp => Ok (mt_brain_models, no_series, bm_children false (mp_vol mp) (mp_models mp))
      | Err e => Err e
      end
    | APar x =>
      Ok (mt_parcels, no_series,
          (match pa_vol x with Some v => [vol_child v] | None => [] end)
          ++ map (fun kv => CSurf (fst kv) (snd kv)) (pa_nv x)       (* one Surface for EVERY nvertices entry *)
          ++ map (fun p => parcel_child (fst (fst p)) (snd (fst p)) (snd p))
                 (combine (combine (pa_name x) (pa_voxels x)) (pa_vertices x)))
    | ASc x =>
      Ok (mt_scalars, no_series, map (fun p => named_child false (fst p) (snd p) 0) (combine (sc_name x) (sc_meta x)))
    | ALab x =>
      Ok (mt_labels, no_series,
          map (fun p => named_child true (fst (fst p)) (snd p) (snd (fst p)))
              (combine (combine (lb_name x) (lb_label x)) (lb_meta x)))
    | ASer x =>
      Ok (mt_series, mkXS (Some (se_size x)) (Some 0) (Some (se_start x)) (Some (se_step x)) (Some (se_unit x)), [])
    end.

  (* ---------------------------------------------------------- from_index_mapping *)
  Definition xdec (p : xpayload) : res axis :=
    let '(ty, ser, ch) := p in
    if ty =? mt_brain_models then
      match models_of ch, vol_of ch with
      | Some ms, Ok v => match bm_from_mapping (mkMap ms v) with Ok a => Ok (ABm a) | Err e => Err e end
      | None, _ => Err EShape
      | _, Err e => Err e
      end
    else if ty =? mt_parcels then
      match vol_of ch with
      | Err e => Err e
      | Ok v =>
        let nv := surfaces_nv ch in
        let ps := parcels_of ch in
        (* 'Number of vertices for surface structure ... not defined' *)
        if existsb (fun p => existsb (fun vs => negb (is_surf nv (vs_bs vs))) (pc_verts p)) ps then Err ENvert
        else match par_make (map pc_name ps) (map (fun p => vox_id (opt_default (pc_vox p))) ps)
                            (map (fun p => vertices_vdict (pc_verts p)) ps) v nv with
             | Ok a => Ok (APar a) | Err e => Err e end
      end
    else if ty =? mt_scalars then
      let ns := named_of ch in
      match sc_make (map (fun n => name_id (nm_name n)) ns) (map (fun n => meta_id (opt_default (nm_meta n))) ns) with
      | Ok a => Ok (ASc a) | Err e => Err e end
    else if ty =? mt_labels then
      let ns := named_of ch in
      match lab_make (map (fun n => name_id (nm_name n)) ns) (map (fun n => label_id (opt_default (nm_table n))) ns)
                     (map (fun n => meta_id (opt_default (nm_meta n))) ns) with
      | Ok a => Ok (ALab a) | Err e => Err e end
    else if ty =? mt_series then
      (* start = mim.series_start * 10 ** mim.series_exponent, step likewise; a missing attribute is a TypeError *)
      match xs_n ser, xs_exp ser, xs_start ser, xs_step ser, xs_unit ser with
      | Some n, Some e, Some st, Some sp, Some u => Ok (ASer (mkSer (scale10 st e) (scale10 sp e) n u))
      | _, _, _, _, _ => Err EKind
      end
    else Err EKind.

  Definition norm_payload (p : xpayload) : xpayload :=
    let '(ty, ser, ch) := p in (ty, ser, map norm_child ch).
  Definition mat_header (mat : list (list Z * xpayload)) : xheader :=
    mkXH 20 None (map (fun e => mkXM (fst e) (fst (fst (snd e))) (snd (fst (snd e))) (snd (snd e))) mat).
  Definition header_mat (h : xheader) : list (list Z * xpayload) :=
    map (fun m => (xm_dims m, (xm_type m, xm_series m, xm_children m))) (xh_mims h).
End Join.
