(* C18/LemmasXml.v — the XML layer: the handler state machine of Cifti2Parser run over the
   event list of what Cifti2Header.to_xml writes returns the normalised header.  No axioms. *)
From Coq Require Import ZArith List Bool Lia.
From NV Require Import C18.Model C18.Tables C18.ModelXml.
Import ListNotations.
Open Scope Z_scope.

Lemma xbind_ok {A B} (r : xres A) (f : A -> xres B) y : xbind r f = XOk y -> exists x, r = XOk x /\ f x = XOk y.
Proof. destruct r; cbn; [eauto|discriminate]. Qed.

Lemma strip_nil : strip [] = [].
Proof. reflexivity. Qed.

Section Sim.
  Variable bs_valid : Z -> bool.
  Variable show_ints : list Z -> str.
  Variable show_vox : list ijk -> str.
  Variable show_matrix : list Z -> str.
  Variable loadtxt_ints : str -> option (list Z).
  Variable loadtxt_floats : str -> option (list Z).
  (* the number-formatting oracles: what str(int)/' '.join, '{:.10f}' write, np.loadtxt reads *)
  Hypothesis ints_nil : show_ints [] = [].
  Hypothesis ints_inv : forall l, l <> [] -> show_ints l <> [] /\ loadtxt_ints (strip (show_ints l)) = Some l.
  Hypothesis vox_inv : forall v, v <> [] ->
    show_vox v <> [] /\ exists l, loadtxt_ints (strip (show_vox v)) = Some l /\ triples l = Some v.
  Hypothesis matrix_inv : forall m, length m = 16%nat ->
    show_matrix m <> [] /\ loadtxt_floats (strip (show_matrix m)) = Some m.

  Notation run := (run bs_valid loadtxt_ints loadtxt_floats).
  Notation step := (step bs_valid loadtxt_ints loadtxt_floats).
  Notation parse := (parse bs_valid loadtxt_ints loadtxt_floats).
  Notation write := (write show_ints show_vox show_matrix).
  Notation vox_events := (vox_events show_vox).
  Notation vertices_events := (vertices_events show_ints).
  Notation parcel_events := (parcel_events show_ints show_vox).
  Notation volume_events := (volume_events show_matrix).
  Notation vtx_events := (vtx_events show_ints).
  Notation bm_events := (bm_events show_ints show_vox).
  Notation child_events := (child_events show_ints show_vox show_matrix).
  Notation children_events := (children_events show_ints show_vox show_matrix).
  Notation mim_events := (mim_events show_ints show_vox show_matrix).
  Notation mims_events := (mims_events show_ints show_vox show_matrix).

  Lemma run_app a b : forall s, run s (a ++ b) = xbind (run s a) (fun s' => run s' b).
  Proof.
    induction a as [|e a IH]; intros s; [reflexivity|]. cbn [app ModelXml.run].
    destruct (step s e); cbn [xbind]; [apply IH|reflexivity].
  Qed.

  Ltac crunch := lazy -[strip app concat meta_set table_set triples length Nat.eqb has_volume bs_valid]; cbn [app concat]; rewrite ?app_nil_r; try reflexivity.

  (* ---------------------------------------------------------- MetaData *)
  Lemma md_run k m hd p :
    run (mkSt (FMeta m :: k) None None hd) (md_events p)
    = XOk (mkSt (FMeta (meta_set m (strip (fst p)) (strip (snd p))) :: k) None None hd).
  Proof.
    destruct p as [n v]. unfold md_events. cbn [fst snd].
    destruct n as [|n0 n], v as [|v0 v]; cbn [chars_ev app]; crunch.
  Qed.

  Lemma mds_run l : forall k m hd,
    run (mkSt (FMeta m :: k) None None hd) (concat (map md_events l))
    = XOk (mkSt (FMeta (fold_left (fun acc p => meta_set acc (strip (fst p)) (strip (snd p))) l m) :: k) None None hd).
  Proof.
    induction l as [|p l IH]; intros; [reflexivity|]. cbn [map concat fold_left].
    rewrite run_app, md_run. cbn [xbind]. apply IH.
  Qed.

  Lemma run_cons s e r : run s (e :: r) = xbind (step s e) (fun s' => run s' r).
  Proof. reflexivity. Qed.

  Lemma meta_run_matrix m mims k hd :
    run (mkSt (FMatrix None mims :: k) None None hd) (opt_meta_events m)
    = XOk (mkSt (FMatrix (norm_opt_meta m) mims :: k) None None hd).
  Proof.
    destruct m as [[|p r]|]; try reflexivity. unfold opt_meta_events, meta_events, norm_opt_meta, norm_meta.
    cbn [app]. rewrite run_cons.
    assert (E : step (mkSt (FMatrix None mims :: k) None None hd) (Start TMetaData ANone)
                = XOk (mkSt (FMeta [] :: FMatrix None mims :: k) None None hd)) by reflexivity.
    rewrite E. cbn [xbind]. rewrite run_app, mds_run. cbn [xbind]. reflexivity.
  Qed.

  Lemma meta_run_named m nm tb k hd :
    run (mkSt (FNamed (mkNM nm None tb) :: k) None None hd) (opt_meta_events m)
    = XOk (mkSt (FNamed (mkNM nm (norm_opt_meta m) tb) :: k) None None hd).
  Proof.
    destruct m as [[|p r]|]; try reflexivity. unfold opt_meta_events, meta_events, norm_opt_meta, norm_meta.
    cbn [app]. rewrite run_cons.
    assert (E : step (mkSt (FNamed (mkNM nm None tb) :: k) None None hd) (Start TMetaData ANone)
                = XOk (mkSt (FMeta [] :: FNamed (mkNM nm None tb) :: k) None None hd)) by reflexivity.
    rewrite E. cbn [xbind]. rewrite run_app, mds_run. cbn [xbind]. reflexivity.
  Qed.

  (* ---------------------------------------------------------- LabelTable *)
  Lemma label_run l ev t k hd : label_events l = XOk ev ->
    run (mkSt (FTable t :: k) None None hd) ev
    = XOk (mkSt (FTable (table_set t (norm_label l)) :: k) None None hd).
  Proof.
    unfold label_events, norm_label. destruct l as [key rgba text]. cbn [xl_text xl_key xl_rgba].
    destruct text as [|c text]; cbn [is_nil]; [discriminate|]. intros [= <-]. crunch.
  Qed.

  Lemma labels_run l : forall ev t k hd, labels_events l = XOk ev ->
    run (mkSt (FTable t :: k) None None hd) ev
    = XOk (mkSt (FTable (fold_left (fun acc x => table_set acc (norm_label x)) l t) :: k) None None hd).
  Proof.
    induction l as [|x l IH]; intros ev t k hd; cbn [labels_events fold_left].
    - intros [= <-]. reflexivity.
    - intros H. apply xbind_ok in H as (e & He & H). apply xbind_ok in H as (er & Her & H). injection H as <-.
      rewrite run_app, (label_run _ _ _ _ _ He). cbn [xbind]. now apply IH.
  Qed.

  Lemma table_run tb ev nm mt m k hd : opt_table_events tb = XOk ev ->
    (nonempty tb = true -> xm_type m = mt_labels) ->
    run (mkSt (FNamed (mkNM nm mt None) :: FMim m :: k) None None hd) ev
    = XOk (mkSt (FNamed (mkNM nm mt (norm_table tb)) :: FMim m :: k) None None hd).
  Proof.
    destruct tb as [[|x r]|]; cbn [opt_table_events norm_table nonempty]; try (intros [= <-] _; reflexivity).
    intros H Ht. apply xbind_ok in H as (e & He & H). injection H as <-. specialize (Ht eq_refl).
    cbn [app]. rewrite run_cons.
    assert (E : step (mkSt (FNamed (mkNM nm mt None) :: FMim m :: k) None None hd) (Start TLabelTable ANone)
                = XOk (mkSt (FTable [] :: FNamed (mkNM nm mt None) :: FMim m :: k) None None hd)).
    { cbn. rewrite Ht. reflexivity. }
    rewrite E. cbn [xbind]. rewrite run_app, (labels_run _ _ _ _ _ He). cbn [xbind]. reflexivity.
  Qed.

  (* ---------------------------------------------------------- NamedMap *)
  Lemma named_run n ev m k hd : named_events n = XOk ev ->
    (nonempty (nm_table n) = true -> xm_type m = mt_labels) ->
    run (mkSt (FMim m :: k) None None hd) ev
    = XOk (mkSt (FMim (add_child m (CNamed (norm_named n))) :: k) None None hd).
  Proof.
    unfold named_events. intros H Ht. apply xbind_ok in H as (te & Hte & H). injection H as <-.
    cbn [app]. rewrite run_cons.
    assert (E : step (mkSt (FMim m :: k) None None hd) (Start TNamedMap ANone)
                = XOk (mkSt (FNamed (mkNM None None None) :: FMim m :: k) None None hd)) by reflexivity.
    rewrite E. cbn [xbind]. rewrite run_app, meta_run_named. cbn [xbind].
    rewrite run_app, (table_run _ _ _ _ _ _ _ Hte Ht). cbn [xbind]. unfold norm_named.
    destruct (nm_name n) as [[|c t]|]; cbn [chars_ev app norm_name]; crunch.
  Qed.

  (* ---------------------------------------------------------- Parcel *)
  Lemma vox_run_parcel v nm vs k hd :
    run (mkSt (FParcel (mkPC nm None vs) :: k) None None hd) (vox_events v)
    = XOk (mkSt (FParcel (mkPC nm (norm_optlist v) vs) :: k) None None hd).
  Proof.
    destruct v as [[|x r]|]; try reflexivity. unfold vox_events, norm_optlist.
    destruct (vox_inv (x :: r) ltac:(discriminate)) as (Hne & l & Hl & Ht).
    destruct (show_vox (x :: r)) as [|c0 t0] eqn:E; [congruence|]. cbn [chars_ev app].
    crunch. rewrite Hl. crunch. rewrite Ht. crunch.
  Qed.

  Lemma vertices_run v nm vx vs k hd : bs_valid (vs_bs v) = true ->
    run (mkSt (FParcel (mkPC nm vx vs) :: k) None None hd) (vertices_events v)
    = XOk (mkSt (FParcel (mkPC nm vx (vs ++ [v])) :: k) None None hd).
  Proof.
    intros Hb. destruct v as [bs idx]. unfold vertices_events. cbn [vs_bs vs_idx] in *.
    destruct idx as [|i idx].
    - rewrite ints_nil. cbn [chars_ev app]. crunch. rewrite Hb. crunch.
    - destruct (ints_inv (i :: idx) ltac:(discriminate)) as (Hne & Hl).
      destruct (show_ints (i :: idx)) as [|c0 t0] eqn:E; [congruence|]. cbn [chars_ev app].
      crunch. rewrite Hb. crunch. rewrite Hl. crunch.
  Qed.

  Lemma verts_run l : forall nm vx vs k hd, Forall (fun v => bs_valid (vs_bs v) = true) l ->
    run (mkSt (FParcel (mkPC nm vx vs) :: k) None None hd) (concat (map vertices_events l))
    = XOk (mkSt (FParcel (mkPC nm vx (vs ++ l)) :: k) None None hd).
  Proof.
    induction l as [|v l IH]; intros nm vx vs k hd F; [cbn; now rewrite app_nil_r|].
    inversion F as [|? ? Hv F']; subst. cbn [map concat]. rewrite run_app, (vertices_run _ _ _ _ _ _ Hv). cbn [xbind].
    rewrite (IH _ _ _ _ _ F'). now rewrite <- app_assoc.
  Qed.

  Lemma parcel_run p m k hd : Forall (fun v => bs_valid (vs_bs v) = true) (pc_verts p) ->
    run (mkSt (FMim m :: k) None None hd) (parcel_events p)
    = XOk (mkSt (FMim (add_child m (CParcel (mkPC (pc_name p) (norm_optlist (pc_vox p)) (pc_verts p)))) :: k) None None hd).
  Proof.
    intros F. unfold parcel_events. cbn [app]. rewrite run_cons.
    assert (E : step (mkSt (FMim m :: k) None None hd) (Start TParcel (AParcel (pc_name p)))
                = XOk (mkSt (FParcel (mkPC (pc_name p) None []) :: FMim m :: k) None None hd)) by reflexivity.
    rewrite E. cbn [xbind]. rewrite run_app, vox_run_parcel. cbn [xbind].
    rewrite run_app, (verts_run _ _ _ _ _ _ F). cbn [xbind app]. reflexivity.
  Qed.

  (* ---------------------------------------------------------- Volume, BrainModel, Surface *)
  Lemma volume_run v ev m k hd : volume_events v = XOk ev -> has_volume (xm_children m) = false ->
    (forall e mtx, vl_transform v = Some (e, Some mtx) -> length mtx = 16%nat) ->
    run (mkSt (FMim m :: k) None None hd) ev = XOk (mkSt (FMim (add_child m (CVol v)) :: k) None None hd).
  Proof.
    unfold volume_events. destruct v as [dims [[e [mtx|]]|]]; cbn [vl_transform vl_dims]; try discriminate.
    intros [= <-] Hv Hlen. specialize (Hlen e mtx eq_refl). destruct m as [d ty ser ch]. cbn [xm_children] in Hv.
    destruct (matrix_inv mtx Hlen) as (Hne & Hl).
    destruct (show_matrix mtx) as [|c0 t0] eqn:E; [congruence|]. cbn [chars_ev app].
    crunch. rewrite Hv. crunch. rewrite Hl. crunch. rewrite Hlen. crunch.
  Qed.

  Lemma vox_run_bm v a b c d e k hd :
    run (mkSt (FBm (mkXB a b c d e None None) :: k) None None hd) (vox_events v)
    = XOk (mkSt (FBm (mkXB a b c d e (norm_optlist v) None) :: k) None None hd).
  Proof.
    destruct v as [[|x r]|]; try reflexivity. unfold vox_events, norm_optlist.
    destruct (vox_inv (x :: r) ltac:(discriminate)) as (Hne & l & Hl & Ht).
    destruct (show_vox (x :: r)) as [|c0 t0] eqn:E; [congruence|]. cbn [chars_ev app].
    crunch. rewrite Hl. crunch. rewrite Ht. crunch.
  Qed.

  Lemma vtx_run_bm v a b c d e vx k hd :
    run (mkSt (FBm (mkXB a b c d e vx None) :: k) None None hd) (vtx_events v)
    = XOk (mkSt (FBm (mkXB a b c d e vx (norm_optlist v)) :: k) None None hd).
  Proof.
    destruct v as [[|x r]|]; try reflexivity. unfold vtx_events, norm_optlist.
    destruct (ints_inv (x :: r) ltac:(discriminate)) as (Hne & Hl).
    destruct (show_ints (x :: r)) as [|c0 t0] eqn:E; [congruence|]. cbn [chars_ev app].
    crunch. rewrite Hl. crunch.
  Qed.

  Definition model_type_ok (z : Z) : bool := (1 <=? z) && (z <=? n_model_types).

  Lemma bm_run b m k hd : xm_type m = mt_brain_models ->
    opt_in (bx_bs b) bs_valid = true -> opt_in (bx_type b) model_type_ok = true ->
    run (mkSt (FMim m :: k) None None hd) (bm_events b)
    = XOk (mkSt (FMim (add_child m (norm_child (CBm b))) :: k) None None hd).
  Proof.
    intros Ht Hb Hm. unfold bm_events. destruct b as [a b c d e vx vt]. cbn [bx_off bx_cnt bx_type bx_bs bx_nvert bx_vox bx_vtx] in *.
    cbn [app]. rewrite run_cons.
    assert (E : step (mkSt (FMim m :: k) None None hd) (Start TBrainModel (ABrainModel a b c d e))
                = XOk (mkSt (FBm (mkXB a b c d e None None) :: FMim m :: k) None None hd)).
    { cbn. rewrite Ht. cbn. rewrite Hb. unfold model_type_ok in Hm. rewrite Hm. reflexivity. }
    rewrite E. cbn [xbind]. rewrite run_app, vox_run_bm. cbn [xbind]. rewrite run_app, vtx_run_bm. cbn [xbind].
    reflexivity.
  Qed.

  Lemma surf_run bs n m k hd : xm_type m = mt_parcels ->
    run (mkSt (FMim m :: k) None None hd) [Start TSurface (ASurface bs n); End TSurface]
    = XOk (mkSt (FMim (add_child m (CSurf bs n)) :: k) None None hd).
  Proof. intros Ht. cbn. rewrite Ht. reflexivity. Qed.

  (* ---------------------------------------------------------- MatrixIndicesMap *)
  (* what the parser checks about a child of a map of type ty *)
  Definition child_ok (ty : Z) (c : xchild) : Prop :=
    match c with
    | CNamed n => nonempty (nm_table n) = true -> ty = mt_labels
    | CSurf _ _ => ty = mt_parcels
    | CParcel p => Forall (fun v => bs_valid (vs_bs v) = true) (pc_verts p)
    | CVol v => forall e mtx, vl_transform v = Some (e, Some mtx) -> length mtx = 16%nat
    | CBm b => ty = mt_brain_models /\ opt_in (bx_bs b) bs_valid = true /\ opt_in (bx_type b) model_type_ok = true
    end.
  (* at most one Volume *)
  Fixpoint vols_ok (seen : bool) (l : list xchild) : bool :=
    match l with
    | [] => true
    | CVol _ :: r => negb seen && vols_ok true r
    | _ :: r => vols_ok seen r
    end.

  Lemma has_volume_app acc c : has_volume (acc ++ [c]) = has_volume acc || match c with CVol _ => true | _ => false end.
  Proof. unfold has_volume. rewrite existsb_app. cbn. now rewrite orb_false_r. Qed.

  Lemma child_run c ev d ty ser acc k hd : child_events c = XOk ev -> child_ok ty c ->
    vols_ok (has_volume acc) [c] = true ->
    run (mkSt (FMim (mkXM d ty ser acc) :: k) None None hd) ev
    = XOk (mkSt (FMim (mkXM d ty ser (acc ++ [norm_child c])) :: k) None None hd).
  Proof.
    destruct c as [n|bs n|p|v|b]; cbn [child_events child_ok vols_ok norm_child]; intros He Hok Hv.
    - now apply (named_run n ev (mkXM d ty ser acc)).
    - injection He as <-. now apply (surf_run bs n (mkXM d ty ser acc)).
    - injection He as <-. now apply (parcel_run p (mkXM d ty ser acc)).
    - apply (volume_run v ev (mkXM d ty ser acc)); try assumption. cbn [xm_children].
      destruct (has_volume acc); [discriminate|reflexivity].
    - injection He as <-. destruct Hok as (H1 & H2 & H3). now apply (bm_run b (mkXM d ty ser acc)).
  Qed.

  Lemma children_run l : forall ev d ty ser acc k hd, children_events l = XOk ev -> Forall (child_ok ty) l ->
    vols_ok (has_volume acc) l = true ->
    run (mkSt (FMim (mkXM d ty ser acc) :: k) None None hd) ev
    = XOk (mkSt (FMim (mkXM d ty ser (acc ++ map norm_child l)) :: k) None None hd).
  Proof.
    induction l as [|c l IH]; intros ev d ty ser acc k hd; cbn [children_events map].
    - intros [= <-] _ _. cbn. now rewrite app_nil_r.
    - intros H F Hv. apply xbind_ok in H as (e & He & H). apply xbind_ok in H as (er & Her & H). injection H as <-.
      inversion F as [|? ? Hc F']; subst.
      assert (Hv1 : vols_ok (has_volume acc) [c] = true /\ vols_ok (has_volume (acc ++ [norm_child c])) l = true).
      { rewrite has_volume_app. destruct c; cbn [vols_ok norm_child] in *; rewrite ?orb_false_r; try (split; [reflexivity|exact Hv]).
        apply andb_true_iff in Hv as [Hv1 Hv2]. rewrite Hv1, orb_true_r. auto. }
      destruct Hv1 as [Hv1 Hv2].
      rewrite run_app, (child_run _ _ _ _ _ _ _ _ He Hc Hv1). cbn [xbind].
      rewrite (IH _ _ _ _ _ _ _ Her F' Hv2). now rewrite <- app_assoc.
  Qed.

  Definition mim_ok (m : xmim) : Prop :=
    Forall (child_ok (xm_type m)) (xm_children m) /\ vols_ok false (xm_children m) = true.

  Lemma mim_run m ev meta mims k hd : mim_events m = XOk ev -> mim_ok m ->
    existsb (fun d => existsb (Z.eqb d) (mapped mims)) (xm_dims m) = false ->
    run (mkSt (FMatrix meta mims :: k) None None hd) ev
    = XOk (mkSt (FMatrix meta (mims ++ [norm_mim m]) :: k) None None hd).
  Proof.
    unfold mim_events. intros H [F Hv] Hd. apply xbind_ok in H as (ce & Hce & H). injection H as <-.
    destruct m as [d ty ser ch]. cbn [xm_dims xm_type xm_series xm_children] in *.
    cbn [app]. rewrite run_cons.
    assert (E : step (mkSt (FMatrix meta mims :: k) None None hd) (Start TMim (AMim d ty ser))
                = XOk (mkSt (FMim (mkXM d ty ser []) :: FMatrix meta mims :: k) None None hd)).
    { cbn. rewrite Hd. reflexivity. }
    rewrite E. cbn [xbind]. change false with (has_volume []) in Hv.
    rewrite run_app, (children_run _ _ d ty ser [] _ _ Hce F Hv). cbn [xbind app]. reflexivity.
  Qed.

  (* every matrix dimension is listed by at most one map *)
  Fixpoint dims_ok (seen : list Z) (l : list xmim) : bool :=
    match l with
    | [] => true
    | m :: r => negb (existsb (fun d => existsb (Z.eqb d) seen) (xm_dims m)) && dims_ok (seen ++ xm_dims m) r
    end.

  Lemma mims_run l : forall ev meta mims k hd, mims_events l = XOk ev -> Forall mim_ok l ->
    dims_ok (mapped mims) l = true ->
    run (mkSt (FMatrix meta mims :: k) None None hd) ev
    = XOk (mkSt (FMatrix meta (mims ++ map norm_mim l) :: k) None None hd).
  Proof.
    induction l as [|m l IH]; intros ev meta mims k hd; cbn [mims_events map dims_ok].
    - intros [= <-] _ _. cbn. now rewrite app_nil_r.
    - intros H F Hd. apply xbind_ok in H as (e & He & H). apply xbind_ok in H as (er & Her & H). injection H as <-.
      inversion F as [|? ? Hm F']; subst. apply andb_true_iff in Hd as [Hd1 Hd2]. apply negb_true_iff in Hd1.
      rewrite run_app, (mim_run _ _ _ _ _ _ He Hm Hd1). cbn [xbind].
      rewrite (IH _ _ _ _ _ Her F'); [now rewrite <- app_assoc|].
      unfold mapped in *. rewrite flat_map_app. cbn [flat_map norm_mim xm_dims]. now rewrite app_nil_r.
  Qed.

  (* what the parser requires of a header beyond what the writer requires *)
  Definition header_ok (h : xheader) : Prop :=
    20 <= xh_version h /\ Forall mim_ok (xh_mims h) /\ dims_ok [] (xh_mims h) = true.

  (* THE simulation: the handler state machine run over the events of the written XML returns
     the normalised header *)
  Lemma parse_write h ev : write h = XOk ev -> header_ok h -> parse ev = XOk (norm h).
  Proof.
    unfold ModelXml.write. intros H (Hv & F & Hd). apply xbind_ok in H as (me & Hme & H). injection H as <-.
    unfold ModelXml.parse. cbn [app]. rewrite run_cons.
    assert (E1 : step st0 (Start TCifti (ACifti (xh_version h))) = XOk (mkSt [FHeader (xh_version h) None] None None None)).
    { cbn. replace (xh_version h <? 20) with false by lia. reflexivity. }
    rewrite E1. cbn [xbind]. rewrite run_cons.
    assert (E2 : step (mkSt [FHeader (xh_version h) None] None None None) (Start TMatrix ANone)
                 = XOk (mkSt [FMatrix None []; FHeader (xh_version h) None] None None None)) by reflexivity.
    rewrite E2. cbn [xbind]. rewrite run_app, meta_run_matrix. cbn [xbind].
    change (@nil Z) with (mapped []) in Hd.
    rewrite run_app, (mims_run _ _ _ [] _ _ Hme F Hd). cbn [xbind app]. reflexivity.
  Qed.
End Sim.
(*SIM-END*)

(* ================================================================== when is the header a fixed point of norm (S-C18c) *)
Lemma lstrip_suffix l : exists p, l = p ++ lstrip l /\ Forall (fun c => is_space c = true) p.
Proof.
  induction l as [|c r IH]; cbn [lstrip]; [exists []; auto|].
  destruct (is_space c) eqn:E; [|exists []; auto].
  destruct IH as [p [Hp Fp]]. exists (c :: p). split; [cbn; now f_equal|now constructor].
Qed.
Lemma lstrip_head l : lstrip l = [] \/ is_space (hd 0 (lstrip l)) = false.
Proof.
  induction l as [|c r IH]; cbn [lstrip]; [now left|]. destruct (is_space c) eqn:E; [exact IH|right; exact E].
Qed.
Lemma lstrip_fixed l : l = [] \/ is_space (hd 0 l) = false -> lstrip l = l.
Proof. destruct l as [|c r]; cbn; [reflexivity|]. intros [H|H]; [discriminate|now rewrite H]. Qed.
Lemma lstrip_idem l : lstrip (lstrip l) = lstrip l.
Proof. apply lstrip_fixed, lstrip_head. Qed.
(* rstrip x is a prefix of x *)
Lemma rstrip_prefix x : exists q, x = rstrip x ++ q.
Proof.
  unfold rstrip. destruct (lstrip_suffix (rev x)) as [p [Hp _]]. exists (rev p).
  rewrite <- rev_app_distr, <- Hp. now rewrite rev_involutive.
Qed.
Lemma rstrip_idem x : rstrip (rstrip x) = rstrip x.
Proof. unfold rstrip. rewrite rev_involutive, lstrip_idem. reflexivity. Qed.
Lemma strip_idem s : strip (strip s) = strip s.
Proof.
  unfold strip. set (x := lstrip s).
  assert (H : lstrip (rstrip x) = rstrip x).
  { apply lstrip_fixed. destruct (rstrip_prefix x) as [q Hq]. destruct (rstrip x) as [|c r] eqn:E; [now left|right].
    cbn. destruct (lstrip_head s) as [H|H]; fold x in H; rewrite Hq in H; cbn in H; [discriminate|exact H]. }
  rewrite H. apply rstrip_idem.
Qed.

Lemma str_eqb_eq a b : str_eqb a b = true <-> a = b.
Proof.
  revert b. induction a as [|x a IH]; intros [|y b]; cbn; split; try discriminate; try reflexivity.
  - intros H. apply andb_true_iff in H as [H1 H2]. apply Z.eqb_eq in H1. apply IH in H2. now subst.
  - intros [= -> ->]. rewrite Z.eqb_refl. now apply IH.
Qed.

Lemma NoDup_snoc {A} (l : list A) x : NoDup l -> ~ In x l -> NoDup (l ++ [x]).
Proof.
  induction l as [|y l IH]; cbn; intros Hn Hx; [constructor; [intros []|constructor]|].
  inversion Hn as [|? ? Hy Hn']; subst. constructor.
  - intros Hin. apply in_app_or in Hin as [Hin|[Hin|[]]]; [now apply Hy|subst; apply Hx; now left].
  - apply IH; [exact Hn'|]. intros Hin. apply Hx. now right.
Qed.

Definition fixed (t : str) : Prop := strip t = t.
Definition meta_clean (m : xmeta) : Prop :=
  NoDup (map fst m) /\ Forall (fun p => fixed (fst p) /\ fixed (snd p)) m.

Lemma meta_set_new m k v : ~ In k (map fst m) -> meta_set m k v = m ++ [(k, v)].
Proof.
  induction m as [|[k' v'] m IH]; cbn; intros H; [reflexivity|].
  destruct (str_eqb k' k) eqn:E; [apply str_eqb_eq in E; subst; exfalso; apply H; now left|].
  f_equal. apply IH. intros Hin. apply H. now right.
Qed.
Lemma meta_set_keys m k v : In k (map fst m) -> map fst (meta_set m k v) = map fst m.
Proof.
  induction m as [|[k' v'] m IH]; cbn; intros H; [destruct H|].
  destruct (str_eqb k' k) eqn:E; [reflexivity|]. cbn. f_equal. apply IH. destruct H as [H|H]; [|exact H].
  subst. assert (str_eqb k k = true) by now apply str_eqb_eq. congruence.
Qed.
Lemma meta_set_inv m k v : NoDup (map fst m) -> Forall (fun p => fixed (fst p) /\ fixed (snd p)) m ->
  fixed k -> fixed v ->
  NoDup (map fst (meta_set m k v)) /\ Forall (fun p => fixed (fst p) /\ fixed (snd p)) (meta_set m k v).
Proof.
  intros Hn Hf Hk Hv. destruct (in_dec (list_eq_dec Z.eq_dec) k (map fst m)) as [Hin|Hnin].
  - split; [now rewrite meta_set_keys|].
    clear Hn. induction m as [|[k' v'] m IH]; cbn in *; [destruct Hin|].
    inversion Hf as [|? ? [H1 H2] Hf']; subst. cbn in *.
    destruct (str_eqb k' k) eqn:E; [constructor; [cbn; auto|exact Hf']|].
    constructor; [cbn; auto|]. apply IH; [exact Hf'|]. destruct Hin as [Hin|Hin]; [|exact Hin].
    subst. assert (str_eqb k k = true) by now apply str_eqb_eq. congruence.
  - rewrite meta_set_new by exact Hnin. split.
    + rewrite map_app. cbn. apply NoDup_snoc; assumption.
    + apply Forall_app. split; [exact Hf|]. constructor; [cbn; auto|constructor].
Qed.

Lemma norm_meta_fold_inv l : forall acc, NoDup (map fst acc) -> Forall (fun p => fixed (fst p) /\ fixed (snd p)) acc ->
  let r := fold_left (fun acc p => meta_set acc (strip (fst p)) (strip (snd p))) l acc in
  NoDup (map fst r) /\ Forall (fun p => fixed (fst p) /\ fixed (snd p)) r.
Proof.
  induction l as [|p l IH]; intros acc Hn Hf; cbn [fold_left]; [auto|].
  destruct (meta_set_inv acc (strip (fst p)) (strip (snd p)) Hn Hf (strip_idem _) (strip_idem _)) as [Hn' Hf'].
  now apply IH.
Qed.

Lemma norm_meta_fold_id l : forall acc, NoDup (map fst (acc ++ l)) -> Forall (fun p => fixed (fst p) /\ fixed (snd p)) l ->
  fold_left (fun acc p => meta_set acc (strip (fst p)) (strip (snd p))) l acc = acc ++ l.
Proof.
  induction l as [|[k v] l IH]; intros acc Hn Hf; cbn [fold_left fst snd]; [now rewrite app_nil_r|].
  inversion Hf as [|? ? [Hk Hv] Hf']; subst. cbn [fst snd] in *. unfold fixed in Hk, Hv. rewrite Hk, Hv.
  assert (Hnin : ~ In k (map fst acc)).
  { rewrite map_app in Hn. cbn in Hn. apply NoDup_remove_2 in Hn. intros Hin. apply Hn. apply in_or_app. now left. }
  rewrite meta_set_new by exact Hnin. rewrite IH; [now rewrite <- app_assoc| |exact Hf'].
  now rewrite <- app_assoc.
Qed.

(* a metadata dictionary survives the XML exactly when its keys and values are strip-fixed
   (keys distinct: it is a dict) *)
Lemma norm_meta_fixed_iff m : norm_meta m = m <-> meta_clean m.
Proof.
  unfold norm_meta, meta_clean. split.
  - intros H. rewrite <- H. apply norm_meta_fold_inv; constructor.
  - intros [Hn Hf]. now apply (norm_meta_fold_id m []).
Qed.

Definition table_clean (t : list xlabel) : Prop :=
  NoDup (map xl_key t) /\ Forall (fun l => fixed (xl_text l)) t.

Lemma table_set_new t l : ~ In (xl_key l) (map xl_key t) -> table_set t l = t ++ [l].
Proof.
  induction t as [|l' t IH]; cbn; intros H; [reflexivity|].
  destruct (xl_key l' =? xl_key l) eqn:E; [exfalso; apply H; left; lia|]. f_equal. apply IH. intros Hin. apply H. now right.
Qed.
Lemma table_set_keys_in t l z : In z (map xl_key (table_set t l)) -> In z (map xl_key t) \/ z = xl_key l.
Proof.
  induction t as [|y t IH]; cbn.
  - intros [H|[]]; auto.
  - destruct (xl_key y =? xl_key l) eqn:E; cbn; intros [H|H]; auto; try (right; lia); try (left; left; lia).
    apply IH in H as [H|H]; auto.
Qed.
Lemma table_set_inv t l : NoDup (map xl_key t) -> Forall (fun x => fixed (xl_text x)) t -> fixed (xl_text l) ->
  NoDup (map xl_key (table_set t l)) /\ Forall (fun x => fixed (xl_text x)) (table_set t l).
Proof.
  intros Hn Hf Hl. induction t as [|l' t IH]; cbn.
  - split; [constructor; [intros []|constructor]|constructor; [exact Hl|constructor]].
  - inversion Hn as [|? ? Hnin Hn']; subst. inversion Hf as [|? ? Hf1 Hf']; subst.
    destruct (xl_key l' =? xl_key l) eqn:E.
    + split; [cbn; constructor; [replace (xl_key l) with (xl_key l') by lia; exact Hnin|exact Hn']|constructor; assumption].
    + destruct (IH Hn' Hf') as [I1 I2]. split; [|constructor; assumption]. cbn. constructor; [|exact I1].
      intros Hin. apply table_set_keys_in in Hin as [Hin|Hin]; [now apply Hnin|lia].
Qed.

Lemma norm_table_fold_inv l : forall acc, NoDup (map xl_key acc) -> Forall (fun x => fixed (xl_text x)) acc ->
  let r := fold_left (fun acc x => table_set acc (norm_label x)) l acc in
  NoDup (map xl_key r) /\ Forall (fun x => fixed (xl_text x)) r.
Proof.
  induction l as [|x l IH]; intros acc Hn Hf; cbn [fold_left]; [auto|].
  destruct (table_set_inv acc (norm_label x) Hn Hf) as [Hn' Hf']; [apply strip_idem|]. now apply IH.
Qed.
Lemma norm_table_fold_id l : forall acc, NoDup (map xl_key (acc ++ l)) -> Forall (fun x => fixed (xl_text x)) l ->
  fold_left (fun acc x => table_set acc (norm_label x)) l acc = acc ++ l.
Proof.
  induction l as [|x l IH]; intros acc Hn Hf; cbn [fold_left]; [now rewrite app_nil_r|].
  inversion Hf as [|? ? Hx Hf']; subst.
  assert (Ex : norm_label x = x) by (destruct x as [k c t]; unfold norm_label, fixed in *; cbn [xl_key xl_rgba xl_text] in *; now rewrite Hx).
  rewrite Ex.
  assert (Hnin : ~ In (xl_key x) (map xl_key acc)).
  { rewrite map_app in Hn. cbn in Hn. apply NoDup_remove_2 in Hn. intros Hin. apply Hn. apply in_or_app. now left. }
  rewrite table_set_new by exact Hnin. rewrite IH; [now rewrite <- app_assoc| |exact Hf']. now rewrite <- app_assoc.
Qed.

(* the character-data fields of a header *)
Definition opt_meta_clean (m : option xmeta) : Prop :=
  match m with None => True | Some [] => False | Some m => meta_clean m end.
Definition opt_table_clean (t : option (list xlabel)) : Prop :=
  match t with None => True | Some [] => False | Some t => table_clean t end.
(* a map name must be non-empty (an empty MapName element leaves map_name None) and strip-fixed *)
Definition name_clean (n : option str) : Prop :=
  match n with None => True | Some [] => False | Some t => fixed t end.
Definition optlist_clean {A} (o : option (list A)) : Prop := o <> Some [].
Definition child_clean (c : xchild) : Prop :=
  match c with
  | CNamed n => name_clean (nm_name n) /\ opt_meta_clean (nm_meta n) /\ opt_table_clean (nm_table n)
  | CParcel p => optlist_clean (pc_vox p)
  | CBm b => optlist_clean (bx_vox b) /\ optlist_clean (bx_vtx b)
  | _ => True
  end.
Definition header_clean (h : xheader) : Prop :=
  opt_meta_clean (xh_meta h) /\ Forall (fun m => Forall child_clean (xm_children m)) (xh_mims h).

Lemma norm_opt_meta_iff m : norm_opt_meta m = m <-> opt_meta_clean m.
Proof.
  destruct m as [[|p r]|]; cbn [norm_opt_meta opt_meta_clean]; try (split; [discriminate|intros []]); [|tauto].
  rewrite <- norm_meta_fixed_iff. split; [intros [= H]; exact H|intros ->; reflexivity].
Qed.
Lemma norm_table_iff t : norm_table t = t <-> opt_table_clean t.
Proof.
  destruct t as [[|x r]|]; cbn [norm_table opt_table_clean]; try (split; [discriminate|intros []]); [|tauto].
  unfold table_clean. split.
  - intros [= H]. rewrite <- H. apply norm_table_fold_inv; repeat constructor; try (intros []); apply strip_idem.
  - intros [Hn Hf]. f_equal. now apply (norm_table_fold_id (x :: r) []).
Qed.
Lemma norm_name_iff n : norm_name n = n <-> name_clean n.
Proof.
  destruct n as [[|c r]|]; cbn [norm_name name_clean]; try (split; [discriminate|intros []]); [|tauto].
  unfold fixed. split; [intros [= H]; exact H|intros ->; reflexivity].
Qed.
Lemma norm_optlist_iff {A} (o : option (list A)) : norm_optlist o = o <-> optlist_clean o.
Proof. unfold optlist_clean. destruct o as [[|x r]|]; cbn; split; congruence. Qed.

Lemma map_id_iff {A} (f : A -> A) l : map f l = l <-> Forall (fun x => f x = x) l.
Proof.
  induction l as [|x l IH]; cbn; split; intros H; try constructor; try reflexivity.
  - now injection H.
  - apply IH. now injection H.
  - inversion H; subst. f_equal; [assumption|now apply IH].
Qed.

Lemma norm_child_iff c : norm_child c = c <-> child_clean c.
Proof.
  destruct c as [[nm mt tb]|bs n|[nm vx vs]|v|[a b c d e vx vt]]; cbn [norm_child child_clean norm_named nm_name nm_meta nm_table pc_name pc_vox pc_verts bx_off bx_cnt bx_type bx_bs bx_nvert bx_vox bx_vtx]; try tauto.
  - split.
    + intros H. change (CNamed (mkNM (norm_name nm) (norm_opt_meta mt) (norm_table tb)) = CNamed (mkNM nm mt tb)) in H.
      injection H as H1 H2 H3. apply norm_name_iff in H1. apply norm_opt_meta_iff in H2. apply norm_table_iff in H3. auto.
    + intros (H1 & H2 & H3). apply norm_name_iff in H1. apply norm_opt_meta_iff in H2. apply norm_table_iff in H3.
      change (CNamed (mkNM (norm_name nm) (norm_opt_meta mt) (norm_table tb)) = CNamed (mkNM nm mt tb)). congruence.
  - split.
    + intros [= H]. now apply norm_optlist_iff.
    + intros H. apply norm_optlist_iff in H. congruence.
  - split.
    + intros [= H1 H2]. split; now apply norm_optlist_iff.
    + intros [H1 H2]. apply norm_optlist_iff in H1, H2. congruence.
Qed.

(* S-C18c, precisely: the header is a fixed point of what the reader makes of it exactly when
   every metadata key/value, label name and map name is strip-fixed, map names are non-empty,
   dictionaries have distinct keys and no empty MetaData / LabelTable / index table object is
   attached (those are not written and read back as None) *)
Lemma norm_fixed_iff h : norm h = h <-> header_clean h.
Proof.
  destruct h as [v m mims]. unfold norm, header_clean. cbn [xh_version xh_meta xh_mims]. split.
  - intros [= Hm Hl]. split; [now apply norm_opt_meta_iff|]. apply map_id_iff in Hl. eapply Forall_impl; [|exact Hl].
    intros [d ty ser ch]. unfold norm_mim. cbn. intros [= Hc]. apply map_id_iff in Hc.
    eapply Forall_impl; [|exact Hc]. intros c. apply norm_child_iff.
  - intros [Hm Hl]. apply norm_opt_meta_iff in Hm. rewrite Hm. f_equal. apply map_id_iff. eapply Forall_impl; [|exact Hl].
    intros [d ty ser ch]. unfold norm_mim. cbn. intros Hc. f_equal. apply map_id_iff.
    eapply Forall_impl; [|exact Hc]. intros c. apply norm_child_iff.
Qed.

(* ================================================================== the round trip and the file *)
Section RoundTrip.
  Variable bs_valid : Z -> bool.
  Variable show_ints : list Z -> str.
  Variable show_vox : list ijk -> str.
  Variable show_matrix : list Z -> str.
  Variable loadtxt_ints : str -> option (list Z).
  Variable loadtxt_floats : str -> option (list Z).
  Hypothesis ints_nil : show_ints [] = [].
  Hypothesis ints_inv : forall l, l <> [] -> show_ints l <> [] /\ loadtxt_ints (strip (show_ints l)) = Some l.
  Hypothesis vox_inv : forall v, v <> [] ->
    show_vox v <> [] /\ exists l, loadtxt_ints (strip (show_vox v)) = Some l /\ triples l = Some v.
  Hypothesis matrix_inv : forall m, length m = 16%nat ->
    show_matrix m <> [] /\ loadtxt_floats (strip (show_matrix m)) = Some m.

  (* parse (to_xml h) = h  exactly when  h is clean *)
  Lemma xml_roundtrip_iff h ev : write show_ints show_vox show_matrix h = XOk ev -> header_ok bs_valid h ->
    (parse bs_valid loadtxt_ints loadtxt_floats ev = XOk h <-> header_clean h).
  Proof.
    intros Hw Hok.
    rewrite (parse_write bs_valid show_ints show_vox show_matrix loadtxt_ints loadtxt_floats
               ints_nil ints_inv vox_inv matrix_inv h ev Hw Hok).
    rewrite <- norm_fixed_iff. split; [intros [= H]; exact H|intros ->; reflexivity].
  Qed.

  Context {D F : Type}.
  Variable nifti_write : list Z -> list event -> D -> F.
  Variable nifti_read : F -> option (list Z * option (list event) * D).
  Hypothesis nifti_roundtrip : forall sh x d, nifti_read (nifti_write sh x d) = Some (sh, Some x, d).

  Lemma xml_file_roundtrip h shape data f : header_ok bs_valid h ->
    xml_save show_ints show_vox show_matrix nifti_write h shape data = XOk f ->
    xml_load bs_valid loadtxt_ints loadtxt_floats nifti_read f = XOk (norm h, shape, data).
  Proof.
    intros Hok Hs. unfold xml_save in Hs. apply xbind_ok in Hs as (ev & Hw & Hs). injection Hs as <-.
    unfold xml_load. rewrite nifti_roundtrip.
    rewrite (parse_write bs_valid show_ints show_vox show_matrix loadtxt_ints loadtxt_floats
               ints_nil ints_inv vox_inv matrix_inv h ev Hw Hok). reflexivity.
  Qed.
End RoundTrip.

(* S-C18c witness: a scalar map named " b " is written and read back as "b" *)
Lemma xml_whitespace_refuted :
  let h := mkXH 20 None [mkXM [0] mt_scalars (mkXS None None None None None) [CNamed (mkNM (Some [32; 98; 32]) None None)]] in
  let nil1 := fun _ : list Z => @nil Z in
  exists ev h', write nil1 (fun _ => []) nil1 h = XOk ev
    /\ parse (fun _ => true) (fun _ => None) (fun _ => None) ev = XOk h' /\ h' <> h
    /\ h' = mkXH 20 None [mkXM [0] mt_scalars (mkXS None None None None None) [CNamed (mkNM (Some [98]) None None)]].
Proof.
  cbv zeta. eexists. eexists. split; [vm_compute; reflexivity|]. split; [vm_compute; reflexivity|].
  split; [discriminate|reflexivity].
Qed.

(* ================================================================== chunking of character data *)
Section Chunking.
  Variable bs_valid : Z -> bool.
  Variable loadtxt_ints : str -> option (list Z).
  Variable loadtxt_floats : str -> option (list Z).
  Notation run := (run bs_valid loadtxt_ints loadtxt_floats).
  Notation step := (step bs_valid loadtxt_ints loadtxt_floats).
  Notation flush := (flush_chardata loadtxt_ints loadtxt_floats).

  (* same state up to how the pending character data is cut into blocks *)
  Definition seqv (s s' : st) : Prop :=
    s_stack s = s_stack s' /\ s_write_to s = s_write_to s' /\ s_header s = s_header s'
    /\ option_map (@concat Z) (s_chars s) = option_map (@concat Z) (s_chars s').

  Lemma flush_seqv s s' : seqv s s' -> flush s = flush s' \/ (s_chars s = None /\ s_chars s' = None /\ flush s = XOk s /\ flush s' = XOk s').
  Proof.
    destruct s as [k w c h], s' as [k' w' c' h']. unfold seqv. cbn. intros (-> & -> & -> & Hc).
    destruct c as [b|], c' as [b'|]; cbn in Hc; try discriminate.
    - left. injection Hc as Hc. unfold flush_chardata. cbn. rewrite Hc. reflexivity.
    - right. auto.
  Qed.

  Lemma step_seqv s s' e : seqv s s' ->
    match step s e, step s' e with
    | XOk t, XOk t' => seqv t t'
    | XErr a, XErr b => a = b
    | _, _ => False
    end.
  Proof.
    intros H. destruct e as [t a|c|t]; cbn [ModelXml.step].
    - destruct (flush_seqv s s' H) as [E|(E1 & E2 & E3 & E4)].
      + rewrite E. destruct (flush s') as [u|]; cbn [xbind]; [|reflexivity].
        destruct (start_h bs_valid t a u); [repeat split; reflexivity|reflexivity].
      + rewrite E3, E4. cbn [xbind]. destruct s as [k w c h], s' as [k' w' c' h']. cbn in E1, E2. subst.
        destruct H as (H1 & H2 & H3 & _). cbn in H1, H2, H3. subst.
        destruct (start_h bs_valid t a _); [repeat split; reflexivity|reflexivity].
    - destruct s as [k w c0 h], s' as [k' w' c0' h']. destruct H as (H1 & H2 & H3 & H4). cbn in *. subst.
      repeat split; try reflexivity. cbn. f_equal.
      destruct c0 as [b|], c0' as [b'|]; cbn in H4; try discriminate; [|reflexivity].
      injection H4 as H4. now rewrite !concat_app, H4.
    - destruct (flush_seqv s s' H) as [E|(E1 & E2 & E3 & E4)].
      + rewrite E. destruct (flush s') as [u|]; cbn [xbind]; [|reflexivity].
        destruct (end_h t u); [repeat split; reflexivity|reflexivity].
      + rewrite E3, E4. cbn [xbind]. destruct s as [k w c h], s' as [k' w' c' h']. cbn in E1, E2. subst.
        destruct H as (H1 & H2 & H3 & _). cbn in H1, H2, H3. subst.
        destruct (end_h t _); [repeat split; reflexivity|reflexivity].
  Qed.

  Lemma run_seqv evs : forall s s', seqv s s' ->
    match run s evs, run s' evs with
    | XOk t, XOk t' => seqv t t'
    | XErr a, XErr b => a = b
    | _, _ => False
    end.
  Proof.
    induction evs as [|e r IH]; intros s s' H; cbn [ModelXml.run]; [exact H|].
    pose proof (step_seqv s s' e H) as Hs.
    destruct (step s e) as [t|a], (step s' e) as [t'|b]; cbn [xbind]; try contradiction; [now apply IH|exact Hs].
  Qed.

  (* however expat cuts a text into CharacterDataHandler calls, the parser returns the same header *)
  Lemma split_chunk pre a b post :
    parse bs_valid loadtxt_ints loadtxt_floats (pre ++ Chars a :: Chars b :: post)
    = parse bs_valid loadtxt_ints loadtxt_floats (pre ++ Chars (a ++ b) :: post).
  Proof.
    unfold ModelXml.parse.
    assert (Hrun : forall s, match run s (Chars a :: Chars b :: post), run s (Chars (a ++ b) :: post) with
                             | XOk t, XOk t' => seqv t t' | XErr x, XErr y => x = y | _, _ => False end).
    { intros s. cbn [ModelXml.run ModelXml.step xbind]. apply run_seqv.
      destruct s as [k w c h]. repeat split; try reflexivity. cbn. f_equal.
      destruct c as [bl|]; cbn; rewrite ?concat_app; cbn; rewrite ?app_nil_r, ?app_assoc; reflexivity. }
    assert (Happ : forall evs s, run s (pre ++ evs) = xbind (run s pre) (fun s' => run s' evs)).
    { clear. induction pre as [|e r IH]; intros evs s; [reflexivity|]. cbn [app ModelXml.run].
      destruct (step s e); cbn [xbind]; [apply IH|reflexivity]. }
    rewrite !Happ. destruct (run st0 pre) as [s|e]; cbn [xbind]; [|reflexivity].
    specialize (Hrun s).
    destruct (run s (Chars a :: Chars b :: post)) as [t|x], (run s (Chars (a ++ b) :: post)) as [t'|y]; cbn [xbind];
      try contradiction; [|now subst].
    destruct Hrun as (_ & _ & Hh & _). now rewrite Hh.
  Qed.
End Chunking.
