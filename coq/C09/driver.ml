(* C09 driver body (after `open C09_model` and drvlib.ml).
   run <fix> <page> <n> <offN,offP,offM,offA> <footN,footP,footM,footA> <conv> <scale> <nointer> <flags> <tclass> <paths> <fids> <fs> <imgs> <ops...>
     conv : from:to:dt:res;...  (fmt letters N P M A, dt f4|f8) or -
     scale: fmt:dt:value:scaleid;... or - (scale factors the array writer computes)   nointer: 4 flags N P M A
     flags: <mixed-sign data><fewer than 3 axes><reshape keeps scale factors><image re-pointed after an own-file save><views of a map recognised><saver re-pointed when its data were unmapped>
     tclass: 16 letters, row = image class N P M A, column = name family N P M A: class of the written file
     paths: N0,N1,P0,M1  (format letter + compressed flag), one per path NAME
     fids : 0,0,1        file identity behind each name (symlink / hard link / other spelling share one)
     fs   : per FILE "-" (absent) or <v>:<dt>:<aff>:<scaleid>:<class>, comma separated
     imgs : per slot "-" (empty) or A:<v>:<fmt>:<dt>:<aff> (an array image), comma separated
     ops  : L<s><p><T|F> F<s> U<s> E<s> D<s> S<s><p> B<s> X<s> (save onto a link to /dev/full) I<s> (int16) W<s><p> (save as uint8)
            T<s><p> (to_filename) C<s><s2> (from_image into slot s2) M<s> (edit np.asanyarray(dataobj))
            A<s><s2><a|f|v> (slot s2 := a new image of the same class around np.asanyarray(dataobj) / get_fdata() / np.asarray(dataobj))
   -> ok <out>*   out: done | val:<v|G> | saved:<p>:<v|G>:<dt>:<aff>:<scaleid> | bytes:<v|G>:<dt>:<aff>
                       | ref:<enum> | crash | dead *)
let split c s = if s = "" || s = "-" then [] else String.split_on_char c s
let fmt_of = function 'N' -> Nii | 'P' -> Pair | 'M' -> Mgh | 'A' -> Spm | _ -> failwith "fmt"
let dt_of = function "f4" -> F4 | "f8" -> F8 | "i2" -> I2 | "u1" -> U1 | s -> failwith ("dtype " ^ s)
let str_dt = function F4 -> "f4" | F8 -> "f8" | I2 -> "i2" | U1 -> "u1"
let digit c = Char.code c - 48
let str_v = function None -> "G" | Some v -> string_of_int (int_of_nat v)
let triple s = match split ',' s with [a; b; c; d] -> (z_of_string a, z_of_string b, z_of_string c, z_of_string d) | _ -> failwith "quad"
let op_of tok =
  let n i = nat_of_int (digit tok.[i]) in
  match tok.[0] with
  | 'L' -> Load (n 1, n 2, tok.[3] = 'T' || tok.[3] = 'R')   (* R: mmap='r', a read-only map - same aliasing *)
  | 'F' -> Fdata (n 1) | 'U' -> Uncache (n 1) | 'E' -> EditHdr (n 1) | 'D' -> SetDtype (n 1)
  | 'S' -> Save (n 1, n 2) | 'B' -> ToBytes (n 1) | 'X' -> SaveFull (n 1)
  | 'I' -> SetInt (n 1) | 'W' -> SaveU8 (n 1, n 2)
  | 'T' -> ToFilename (n 1, n 2) | 'C' -> Clone (n 1, n 2) | 'M' -> EditMap (n 1)
  | 'A' -> Wrap (n 1, n 2, (match tok.[3] with 'a' -> WAny | 'f' -> WFdata | 'v' -> WView | _ -> failwith "wrap"))
  | _ -> failwith ("op " ^ tok)
let str_err = function ENoImage -> "noimage" | ENoFile -> "nofile" | EShortRead -> "short_read"
  | ENoConversion -> "no_conversion" | ENotSerializable -> "not_serializable" | ENoSpace -> "nospace"
  | EWriter -> "writer" | EClass -> "class"
let str_out = function
  | ODone -> "done"
  | OVal v -> "val:" ^ str_v v
  | OSaved (p, v, d, a, k) -> Printf.sprintf "saved:%d:%s:%s:%d:%d" (int_of_nat p) (str_v v) (str_dt d) (int_of_nat a) (int_of_nat k)
  | OBytes (v, d, a) -> Printf.sprintf "bytes:%s:%s:%d" (str_v v) (str_dt d) (int_of_nat a)
  | ORefused e -> "ref:" ^ str_err e
  | OCrash -> "crash"
  | ODead -> "dead"
let handle op args = match op, args with
  | "run", fix :: page :: n :: offs :: foots :: conv :: scale :: nointer :: flags :: tcls :: paths :: fids :: fs :: imgs :: ops ->
    let sel (a, b, c, d) = function Nii -> a | Pair -> b | Mgh -> c | Spm -> d in
    let convt = List.map (fun e -> match split ':' e with
        | [a; b; d; r] -> (((fmt_of a.[0], fmt_of b.[0]), dt_of d), dt_of r)
        | _ -> failwith "conv") (split ';' conv) in
    let g = { g_n = z_of_string n; g_page = z_of_string page;
              g_paths = List.map (fun s -> { pi_fmt = fmt_of s.[0]; pi_gz = (s.[1] = '1') }) (split ',' paths);
              g_fid = List.map (fun x -> nat_of_int (int_of_string x)) (split ',' fids);
              g_off = sel (triple offs); g_foot = sel (triple foots); g_conv = convt;
              g_fix = bool_of_string fix;
              g_scale = List.map (fun e -> match split ':' e with
                  | [f; d; v; r] -> (((fmt_of f.[0], dt_of d), nat_of_int (int_of_string v)), nat_of_int (int_of_string r))
                  | _ -> failwith "scale") (split ';' scale);
              g_nointer = (fun f -> nointer.[match f with Nii -> 0 | Pair -> 1 | Mgh -> 2 | Spm -> 3] = '1');
              g_mixed = (flags.[0] = '1'); g_lowdim = (flags.[1] = '1'); g_reshape_ok = (flags.[2] = '1');
              g_repoint = (flags.[3] = '1'); g_viewfix = (flags.[4] = '1'); g_maprepoint = (flags.[5] = '1');
              g_tclass = (fun x n -> fmt_of (tcls.[(match x with Nii -> 0 | Pair -> 1 | Mgh -> 2 | Spm -> 3) * 4
                                               + (match n with Nii -> 0 | Pair -> 1 | Mgh -> 2 | Spm -> 3)])) } in
    let fs0 = List.map (fun s -> if s = "-" then None else match String.split_on_char ':' s with
        | [v; d; a; k; c] -> Some { k_val = Some (nat_of_int (int_of_string v)); k_dt = dt_of d; k_aff = nat_of_int (int_of_string a);
                                    k_scl = nat_of_int (int_of_string k); k_cls = fmt_of c.[0] }
        | _ -> failwith "fs") (String.split_on_char ',' fs) in
    let im0 = List.map (fun s -> if s = "-" then None else match String.split_on_char ':' s with
        | ["A"; v; f; d; a] -> Some { i_src = SArray (Some (nat_of_int (int_of_string v))); i_fmt = fmt_of f.[0];
                                      i_hdt = dt_of d; i_aff = nat_of_int (int_of_string a); i_cache = CNone }
        | _ -> failwith "imgs") (String.split_on_char ',' imgs) in
    let (_, outs) = run g { w_fs = fs0; w_imgs = im0; w_dead = false } (List.map op_of ops) in
    "ok " ^ String.concat " " (List.map str_out outs)
  | _ -> "err driver:badop"
let () = run_lines handle
