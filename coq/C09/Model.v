(* C09/Model.v — load / modify / save histories over a small file system.
   Counterparts in /repo/nibabel:
     loadsave.py        load, save (class conversion by extension)               -> do_load, do_save (g_conv)
     analyze.py         AnalyzeImage.from_file_map / to_file_map (also Nifti1Image, Nifti1Pair)
     freesurfer/mghformat.py  MGHImage.from_file_map / to_file_map               -> do_load, do_save
     fileholders.py     unmap_if_target (fix 0c06baeb)                          -> do_save, flag g_fix
     volumeutils.py     array_from_file: np.memmap(mode='c') for plain files     -> aliasable, alias_read
     arrayproxy.py      ArrayProxy keeps file_like and the spec copied at load   -> SProxy
     dataobj_images.py  get_fdata / uncache (the cache may BE the memory map)    -> do_fdata
     filebasedimages.py to_filename (rebinds file_map only), to_bytes            -> do_save, do_tobytes
   The model is symbolic in the voxel values: a file or an image holds "value number v"
   (one of the source arrays) or garbage (None); what matters is WHICH value each file holds,
   with which on-disk dtype (hence byte length), and which live arrays are memory maps
   (aliases) of which file.  A memory map is an alias of the file, not a copy; opening a target
   'wb' truncates it; reading through an alias beyond the (page-rounded) end of its file is
   Crash (SIGBUS), inside it is whatever the file holds now.  Definitions only. *)
From Coq Require Import ZArith List Bool Arith.
Import ListNotations.
Open Scope Z_scope.

Inductive fmt := Nii | Pair | Mgh | Spm.
(* NIfTI-1 single file; NIfTI-1 .img/.hdr pair; MGH/MGZ; SPM2 Analyze .img/.hdr/.mat triple *)
Inductive dtype := F4 | F8 | I2 | U1.      (* float32, float64, int16, uint8 on disk *)
Definition fmt_eqb (a b : fmt) : bool :=
  match a, b with Nii, Nii | Pair, Pair | Mgh, Mgh | Spm, Spm => true | _, _ => false end.
Definition dtype_eqb (a b : dtype) : bool :=
  match a, b with F4, F4 | F8, F8 | I2, I2 | U1, U1 => true | _, _ => false end.
Definition isz (d : dtype) : Z := match d with F4 => 4 | F8 => 8 | I2 => 2 | U1 => 1 end.
Definition is_int (d : dtype) : bool := match d with I2 | U1 => true | _ => false end.

Record pinfo := mkP { pi_fmt : fmt; pi_gz : bool }.

(* platform / source facts (regenerated into C09/Tables.v and sent on every case line) *)
Record cfg := mkCfg {
  g_n : Z;                                   (* number of voxels of every image of the history *)
  g_page : Z;                                (* mmap.PAGESIZE *)
  g_paths : list pinfo;                      (* the path NAMES of the history: format and compression *)
  g_fid : list nat;                          (* name -> FILE IDENTITY (inode): several names may reach one
                                                file (symlink, hard link, relative / absolute spelling) *)
  g_off : fmt -> Z;                          (* data offset in the image file *)
  g_foot : fmt -> Z;                         (* bytes after the data (MGH footer) *)
  g_conv : list (fmt * fmt * dtype * dtype); (* class conversion by save(): (from, to, header dtype) -> dtype *)
  g_fix : bool;                              (* unmap_if_target present (fix 0c06baeb) *)
  (* integer storage: value = raw * slope + inter.  A pair (slope, inter) is an abstract SCALE IDENTITY
     (0 = no scaling).  Saving a value array to an integer dtype recomputes the factors from the data:
     an oracle table (format, dtype, value) -> scale identity, measured from the array writers *)
  g_scale : list (fmt * dtype * nat * nat);
  g_nointer : fmt -> bool;                   (* the class has a slope but no intercept (SPM Analyze) *)
  g_mixed : bool;                            (* the value arrays of this history have both signs *)
  g_lowdim : bool;                           (* fewer than three axes: MGHImage pads by ArrayProxy.reshape *)
  g_reshape_ok : bool;                       (* ArrayProxy.reshape keeps slope and intercept *)
  g_repoint : bool;
  (* the image class a file gets when an image of class x is saved under a name of family n (the .img/.hdr
     names hold a NIfTI pair or an SPM Analyze image: loadsave.save keeps the class when the name fits it, else
     converts - Nifti1Image -> Nifti1Pair, ... ); measured into C09/Tables.v *)
  g_tclass : fmt -> fmt -> fmt;
  g_viewfix : bool;                          (* fix 9bb93cff: unmap_if_target follows the .base chain to the map *)
  g_maprepoint : bool }.                     (* fix 4923d550: when unmap_if_target had to copy the data (they were mapped
                                                from the target), that copy becomes the image's data afterwards *)                        (* fix 29b7b6ce: after a write onto the file the image's own proxy
                                                reads, _dataobj becomes the in-memory data and the caches go *)

Definition pinfo_of (g : cfg) (p : nat) : pinfo := nth p (g_paths g) (mkP Nii false).
Definition fid (g : cfg) (p : nat) : nat := nth p (g_fid g) p.

Fixpoint conv_lookup (t : list (fmt * fmt * dtype * dtype)) (a b : fmt) (d : dtype) : option dtype :=
  match t with
  | [] => None
  | (a', b', d', r) :: rest =>
    if fmt_eqb a a' && fmt_eqb b b' && dtype_eqb d d' then Some r else conv_lookup rest a b d
  end.

Fixpoint scale_lookup (t : list (fmt * dtype * nat * nat)) (f : fmt) (d : dtype) (v : nat) : nat :=
  match t with
  | [] => O
  | (f', d', v', r) :: rest =>
    if fmt_eqb f f' && dtype_eqb d d' && Nat.eqb v v' then r else scale_lookup rest f d v
  end.

(* what a file holds *)
Record content := mkK { k_val : option nat;   (* Some v: decodes to source value v; None: garbage *)
                        k_dt : dtype; k_aff : nat;
                        k_scl : nat;          (* scale identity of the stored slope / intercept *)
                        k_cls : fmt }.        (* the image class the file loads as (by content, for .img names) *)

Definition needed (g : cfg) (p : nat) (d : dtype) : Z := g_off g (pi_fmt (pinfo_of g p)) + g_n g * isz d.
Definition flen (g : cfg) (p : nat) (c : content) : Z :=
  needed g p (k_dt c) + g_foot g (pi_fmt (pinfo_of g p)).
Definition roundup (x page : Z) : Z := (x + page - 1) / page * page.

(* a proxy copies dtype AND scale factors out of the header when the image is loaded *)
Inductive src :=
| SArray (v : option nat)
| SProxy (p : nat) (d : dtype) (k : nat) (mm : bool)
(* an array image whose array IS a live memory map of file p (np.asanyarray(other.dataobj) / other.get_fdata() /
   a view of one); [cov]: the array is an np.memmap instance with a filename, which is what unmap_if_target
   recognises - np.asarray(memmap) and memmap.view(np.ndarray) are base-class views and are not *)
| SMap (p : nat) (d : dtype) (cov : bool).
Inductive cache := CNone | CCopy (v : option nat) | CAlias (p : nat) (d : dtype).
Record image := mkI { i_src : src; i_fmt : fmt; i_hdt : dtype; i_aff : nat; i_cache : cache }.
Record world := mkW { w_fs : list (option content); w_imgs : list (option image); w_dead : bool }.

Fixpoint upd {A} (n : nat) (x : A) (l : list A) : list A :=
  match l, n with
  | [], _ => []
  | _ :: r, O => x :: r
  | y :: r, S n' => y :: upd n' x r
  end.

(* the file system is indexed by file identity *)
Definition file_at (w : world) (f : nat) : option content := nth f (w_fs w) None.
Definition img_at (w : world) (s : nat) : option image := nth s (w_imgs w) None.

(* ---- reads *)
Inductive rd := RVal (v : option nat) | RRefused | RCrash.

(* array_from_file through a proxy whose spec says dtype d: a file with the same layout gives
   its values; another layout gives garbage when the file is long enough, else the short-read
   OSError (np.memmap raises ValueError on a short file and array_from_file falls back to read) *)
Definition fresh_read (g : cfg) (fs : list (option content)) (p : nat) (d : dtype) (k : nat) : rd :=
  match nth (fid g p) fs None with
  | None => RRefused
  | Some c => if dtype_eqb (k_dt c) d then
                (* same layout; stored integers are decoded with the factors the PROXY holds *)
                if is_int d && negb (Nat.eqb (k_scl c) k) then RVal None else RVal (k_val c)
              else if needed g p d <=? flen g p c then RVal None else RRefused
  end.

(* touching every element of a live memory map of file p made for dtype d *)
Definition alias_read (g : cfg) (fs : list (option content)) (p : nat) (d : dtype) : rd :=
  match nth (fid g p) fs None with
  | None => RCrash
  | Some c => if roundup (flen g p c) (g_page g) <? needed g p d then RCrash
              else if dtype_eqb (k_dt c) d && negb (is_int d && negb (Nat.eqb (k_scl c) O)) then RVal (k_val c)
              else RVal None      (* another layout, or raw integers of a scaled file seen without its factors *)
  end.

Definition denote (g : cfg) (fs : list (option content)) (im : image) : rd :=
  match i_src im with
  | SArray v => RVal v
  | SProxy p d k mm => fresh_read g fs p d k
  | SMap p d _ => alias_read g fs p d
  end.

(* is np.asanyarray(dataobj) a memory map of its file?  (mmap on, plain file) *)
Definition mapped (g : cfg) (im : image) : option nat :=
  match i_src im with
  | SProxy p d k mm => if mm && negb (pi_gz (pinfo_of g p)) then Some p else None
  | SMap p _ _ => Some p
  | SArray _ => None
  end.
(* does unmap_if_target see that the data are mapped?  Before 9bb93cff only an np.memmap instance with a filename;
   since then every array whose chain of bases reaches such a map *)
Definition recognised (g : cfg) (im : image) : bool :=
  match i_src im with SMap _ _ cov => cov || g_viewfix g | _ => true end.
(* is get_fdata()'s float64 result that very map?  (little-endian float64 on disk: astype(copy=False)
   returns its argument; MGH data are big-endian and always copied) *)
Definition aliasable (g : cfg) (im : image) : option (nat * dtype) :=
  match i_src im with
  | SProxy p d k mm =>
    if mm && negb (pi_gz (pinfo_of g p)) && dtype_eqb d F8
       && negb (fmt_eqb (pi_fmt (pinfo_of g p)) Mgh) then Some (p, d) else None
  | SMap p d _ =>      (* np.asanyarray(arr, dtype=float64) is arr itself for a little-endian float64 map *)
    if dtype_eqb d F8 && negb (fmt_eqb (pi_fmt (pinfo_of g p)) Mgh) then Some (p, d) else None
  | SArray _ => None
  end.

(* ---- operations *)
(* which array of the image a new image object is built around *)
Inductive wrapkind := WAny      (* np.asanyarray(img.dataobj): the np.memmap itself for a mapped proxy *)
                    | WFdata    (* img.get_fdata(): the map itself for little-endian float64 files, and now cached *)
                    | WView.    (* np.asarray(img.dataobj): a base-class VIEW of that map *)
Inductive op :=
| Load (s p : nat) (mm : bool)
| Fdata (s : nat)
| Uncache (s : nat)
| EditHdr (s : nat)
| SetDtype (s : nat)
| SetInt (s : nat)            (* set_data_dtype(int16) *)
| Save (s p : nat)
| SaveU8 (s p : nat)          (* set_data_dtype(uint8); save; set_data_dtype(back) *)
| ToFilename (s p : nat)      (* img.to_filename(name): no class conversion, the name must belong to the class *)
| Clone (s s2 : nat)          (* slot s2 := type(img).from_image(img): a second image object on the SAME dataobj *)
| Wrap (s s2 : nat) (how : wrapkind)  (* slot s2 := type(img)(ARRAY, img.affine, img.header) *)
| EditMap (s : nat)           (* a = np.asanyarray(img.dataobj) of a proxy image; a[0,..] += 1 (copy-on-write) *)
| SaveFull (s : nat)          (* save onto a name of the image's own class that is a link to /dev/full *)
| ToBytes (s : nat).

Inductive err := ENoImage | ENoFile | EShortRead | ENoConversion | ENotSerializable | ENoSpace | EWriter | EClass.
Inductive out :=
| ODone
| OVal (v : option nat)                                  (* get_fdata: which value (None = garbage) *)
| OSaved (p : nat) (v : option nat) (d : dtype) (a : nat) (k : nat)  (* what the written file now decodes to, and its scale identity *)
| OBytes (v : option nat) (d : dtype) (a : nat)
| ORefused (e : err)
| OCrash
| ODead.

Definition toggle (f : fmt) (d : dtype) : dtype :=
  match f with
  | Mgh => d                                   (* no other exact float dtype in MGH *)
  | _ => match d with F8 => F4 | _ => F8 end
  end.

Definition set_img (w : world) (s : nat) (im : image) : world :=
  mkW (w_fs w) (upd s (Some im) (w_imgs w)) (w_dead w).
Definition with_cache (im : image) (c : cache) : image :=
  mkI (i_src im) (i_fmt im) (i_hdt im) (i_aff im) c.
Definition kill (w : world) : world := mkW (w_fs w) (w_imgs w) true.

Definition do_load (g : cfg) (w : world) (s p : nat) (mm : bool) : world * out :=
  match file_at w (fid g p) with
  | None => (w, ORefused ENoFile)
  | Some c =>
    if (s <? length (w_imgs w))%nat then
      (set_img w s (mkI (SProxy p (k_dt c) (k_scl c) mm) (k_cls c) (k_dt c) (k_aff c) CNone), ODone)
    else (w, ORefused ENoImage)
  end.

Definition do_fdata (g : cfg) (w : world) (s : nat) : world * out :=
  match img_at w s with
  | None => (w, ORefused ENoImage)
  | Some im =>
    match i_cache im with
    | CCopy v => (w, OVal v)
    | CAlias p d =>
      match alias_read g (w_fs w) p d with
      | RCrash => (kill w, OCrash)
      | RVal v => (w, OVal v)
      | RRefused => (w, ORefused EShortRead)
      end
    | CNone =>
      match denote g (w_fs w) im with
      | RVal v =>
        (set_img w s (with_cache im (match aliasable g im with Some (p, d) => CAlias p d | None => CCopy v end)),
         OVal v)
      | RRefused => (w, ORefused EShortRead)
      | RCrash => (kill w, OCrash)
      end
    end
  end.

(* the dtype the target file gets: the image's header dtype, through the class conversion when
   the target name belongs to another image class *)
Definition out_dtype (g : cfg) (im : image) (tf : fmt) : option dtype :=
  if fmt_eqb (i_fmt im) tf then Some (i_hdt im) else conv_lookup (g_conv g) (i_fmt im) tf (i_hdt im).

(* the class the target gets: the image's own when the name fits it, else the conversion by extension *)
Definition tfmt (g : cfg) (im : image) (t : nat) : fmt := g_tclass g (i_fmt im) (pi_fmt (pinfo_of g t)).

(* the class conversion to MGH of an image with fewer than three axes wraps the proxy by
   ArrayProxy.reshape: the reshaped proxy must carry the scale factors along *)
Definition reshaped (g : cfg) (im : image) (tf : fmt) : image :=
  if negb (fmt_eqb (i_fmt im) tf) && fmt_eqb tf Mgh && g_lowdim g && negb (g_reshape_ok g) then
    match i_src im with
    | SProxy p d k mm => mkI (SProxy p d O mm) (i_fmt im) (i_hdt im) (i_aff im) (i_cache im)
    | _ => im
    end
  else im.

(* make_array_writer refuses (WriterError) to scale data of both signs into an unsigned type when
   the class has no intercept *)
Definition writer_refuses (g : cfg) (tf : fmt) (od : dtype) : bool :=
  g_mixed g && dtype_eqb od U1 && g_nointer g tf.

(* what the written file holds: float storage and MGH (plain cast of integer-valued data) keep the value
   with no scaling; integer storage elsewhere re-scales: the factors are a function of data and dtype *)
Definition written (g : cfg) (tf : fmt) (od : dtype) (v : option nat) (a : nat) : content :=
  if is_int od then
    if fmt_eqb tf Mgh then mkK (if g_mixed g && dtype_eqb od U1 then None else v) od a O tf
    else match v with
         | Some vv => mkK v od a (scale_lookup (g_scale g) tf od vv) tf
         | None => mkK None od a O tf
         end
  else mkK v od a O tf.

(* proxy_reads_target (os.path.samefile on the proxy's file_like), evaluated by the to_file_map of the image
   object itself - a class conversion saves a converted copy, which is then the one re-pointed *)
(* `reads_target or data is not raw`: the image's own proxy reads the target, or unmap_if_target copied the data *)
Definition repoints (g : cfg) (im : image) (tf : fmt) (t : nat) : bool :=
  fmt_eqb (i_fmt im) tf
  && ((g_repoint g && match i_src im with SProxy p _ _ _ => Nat.eqb (fid g p) (fid g t) | _ => false end)
      || (g_maprepoint g && g_fix g && recognised g im
          && match mapped g im with Some p => Nat.eqb (fid g p) (fid g t) | None => false end)).
(* self._dataobj = data; self.uncache() *)
Definition repointed (im : image) (v : option nat) : image :=
  mkI (SArray v) (i_fmt im) (i_hdt im) (i_aff im) CNone.

(* [hd]: header dtype used for this save only (SaveU8), else the image's *)
Definition do_save (g : cfg) (w : world) (s t : nat) (hd : option dtype) : world * out :=
  match img_at w s with
  | None => (w, ORefused ENoImage)
  | Some im0 =>
    if negb (fid g t <? length (w_fs w))%nat then (w, ORefused ENoFile) else
    let tf := tfmt g im0 t in
    let im := match hd with Some d => mkI (i_src im0) (i_fmt im0) d (i_aff im0) (i_cache im0) | None => im0 end in
    match out_dtype g im tf with
    | None => (w, ORefused ENoConversion)
    | Some od =>
      (* data = np.asanyarray(self.dataobj): read BEFORE the target is opened *)
      match denote g (w_fs w) (reshaped g im tf) with
      | RRefused => (w, ORefused EShortRead)
      | RCrash => (kill w, OCrash)
      | RVal v =>
        (* the array writer is made before any file is opened: a refusal touches nothing *)
        if writer_refuses g tf od then (w, ORefused EWriter) else
        (* unmap_if_target: os.path.samefile - the same FILE, whatever the names *)
        let own_map := match mapped g im with Some p => Nat.eqb (fid g p) (fid g t) | None => false end in
        if own_map && negb (g_fix g && recognised g im) then
          (* without unmap_if_target: the target is opened 'wb' (truncated), the header written,
             then the data are read through the map of that very file *)
          if roundup (g_off g tf) (g_page g) <? needed g t (match i_src im with SProxy _ d _ _ => d | SMap _ d _ => d | SArray _ => od end)
          then (kill w, OCrash)
          else (mkW (upd (fid g t) (Some (mkK None od (i_aff im) O tf)) (w_fs w)) (w_imgs w) (w_dead w),
                OSaved t None od (i_aff im) O)
        else
          let c := written g tf od v (i_aff im) in
          (mkW (upd (fid g t) (Some c) (w_fs w))
               (if repoints g im0 tf t then upd s (Some (repointed im0 v)) (w_imgs w) else w_imgs w) (w_dead w),
           OSaved t (k_val c) od (i_aff im) (k_scl c))
      end
    end
  end.

Definition do_tobytes (g : cfg) (w : world) (s : nat) : world * out :=
  match img_at w s with
  | None => (w, ORefused ENoImage)
  | Some im =>
    match i_fmt im with
    | Pair | Spm => (w, ORefused ENotSerializable)
    | _ =>
      match denote g (w_fs w) im with
      | RVal v => (w, OBytes v (i_hdt im) (i_aff im))
      | RRefused => (w, ORefused EShortRead)
      | RCrash => (kill w, OCrash)
      end
    end
  end.

(* the array a new image is wrapped around *)
Definition wrapped_src (g : cfg) (im : image) (how : wrapkind) (v : option nat) : src :=
  match i_src im with
  | SArray _ => SArray v                       (* the same in-memory array (or a float64 copy of it) *)
  | SMap p d c =>
    match how with
    | WAny => SMap p d c
    | WView => SMap p d false
    | WFdata => match aliasable g im with Some _ => SMap p d c | None => SArray v end
    end
  | SProxy p d k mm =>
    (* a mapped proxy gives the map itself unless scale factors are applied (a new array then) *)
    if mm && negb (pi_gz (pinfo_of g p)) && negb (is_int d && negb (Nat.eqb k O)) then
      match how with
      | WAny => SMap p d true
      | WView => SMap p d false
      | WFdata => match aliasable g im with Some _ => SMap p d true | None => SArray v end
      end
    else SArray v
  end.

Definition do_wrap (g : cfg) (w : world) (s s2 : nat) (how : wrapkind) : world * out :=
  match img_at w s with
  | None => (w, ORefused ENoImage)
  | Some im =>
    if negb (s2 <? length (w_imgs w))%nat then (w, ORefused ENoImage) else
    (* get_fdata() goes through (and fills) the source image's cache; the other two read the dataobj *)
    let '(w1, r) := match how with
                    | WFdata => match do_fdata g w s with
                                | (w1, OVal v) => (w1, RVal v)
                                | (w1, OCrash) => (w1, RCrash)
                                | (w1, _) => (w1, RRefused)
                                end
                    | _ => (w, denote g (w_fs w) im)
                    end in
    match r with
    | RVal v => (set_img w1 s2 (mkI (wrapped_src g im how v) (i_fmt im) (i_hdt im) (i_aff im) CNone), ODone)
    | RRefused => (w1, ORefused EShortRead)
    | RCrash => (kill w, OCrash)
    end
  end.

Definition step (g : cfg) (w : world) (o : op) : world * out :=
  if w_dead w then (w, ODead) else
  match o with
  | Load s p mm => do_load g w s p mm
  | Fdata s => do_fdata g w s
  | Uncache s =>
    match img_at w s with
    | None => (w, ORefused ENoImage)
    | Some im => (set_img w s (with_cache im CNone), ODone)
    end
  | EditHdr s =>
    match img_at w s with
    | None => (w, ORefused ENoImage)
    | Some im => (w, ODone)
    end
  | SetDtype s =>
    match img_at w s with
    | None => (w, ORefused ENoImage)
    | Some im => (set_img w s (mkI (i_src im) (i_fmt im) (toggle (i_fmt im) (i_hdt im)) (i_aff im) (i_cache im)), ODone)
    end
  | SetInt s =>
    match img_at w s with
    | None => (w, ORefused ENoImage)
    | Some im => (set_img w s (mkI (i_src im) (i_fmt im) I2 (i_aff im) (i_cache im)), ODone)
    end
  | Save s t => do_save g w s t None
  | SaveU8 s t => do_save g w s t (Some U1)
  | ToFilename s t =>
    match img_at w s with
    | None => (w, ORefused ENoImage)
    | Some im => if fmt_eqb (i_fmt im) (tfmt g im t) then do_save g w s t None
                 else (w, ORefused EClass)          (* ImageFileError before anything is touched *)
    end
  | Clone s s2 =>
    match img_at w s with
    | None => (w, ORefused ENoImage)
    | Some im =>
      if (s2 <? length (w_imgs w))%nat then
        (* the proxy object is shared; a proxy is immutable, so sharing it is copying its spec; the
           new image has its own (empty) caches and its own header copy *)
        (set_img w s2 (mkI (i_src im) (i_fmt im) (i_hdt im) (i_aff im) CNone), ODone)
      else (w, ORefused ENoImage)
    end
  | Wrap s s2 how => do_wrap g w s s2 how
  | EditMap s =>
    match img_at w s with
    | None => (w, ORefused ENoImage)
    | Some im =>
      match i_src im with
      | SArray _ | SMap _ _ _ => (w, ODone)         (* not applied to array images *)
      | SProxy _ _ _ _ =>
        (* a fresh array (a private copy-on-write map or an in-memory read): the edit reaches neither
           the file nor the image *)
        match denote g (w_fs w) im with
        | RVal _ => (w, ODone)
        | RRefused => (w, ORefused EShortRead)
        | RCrash => (kill w, OCrash)
        end
      end
    end
  | SaveFull s =>
    (* the data are read, the target opened, the write fails with ENOSPC: OSError; no file of the
       world and no image changes (the consumable header values are restored in `finally`) *)
    match img_at w s with
    | None => (w, ORefused ENoImage)
    | Some im =>
      match denote g (w_fs w) im with
      | RVal _ => (w, ORefused ENoSpace)
      | RRefused => (w, ORefused EShortRead)
      | RCrash => (kill w, OCrash)
      end
    end
  | ToBytes s => do_tobytes g w s
  end.

Fixpoint run (g : cfg) (w : world) (ops : list op) : world * list out :=
  match ops with
  | [] => (w, [])
  | o :: r => let '(w1, x) := step g w o in let '(w2, xs) := run g w1 r in (w2, x :: xs)
  end.
