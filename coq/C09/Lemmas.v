(* C09/Lemmas.v — proofs about C09/Model.v *)
From Coq Require Import ZArith List Bool Arith Lia.
From NV Require Import C09.Model C09.Tables.
Import ListNotations.
Open Scope Z_scope.

(* ------------------------------------------------------------------ small facts *)
Lemma dtype_eqb_eq a b : dtype_eqb a b = true <-> a = b.
Proof. destruct a, b; simpl; split; intro H; try reflexivity; try discriminate. Qed.
Lemma dtype_eqb_refl a : dtype_eqb a a = true.
Proof. destruct a; reflexivity. Qed.

Lemma nth_upd_same {A} (x d : A) : forall l n, (n < length l)%nat -> nth n (upd n x l) d = x.
Proof.
  induction l as [|y l IH]; intros n H; [simpl in H; lia|].
  destruct n; [reflexivity|]. simpl. apply IH. simpl in H. lia.
Qed.
Lemma nth_upd_other {A} (x d : A) : forall l n m, m <> n -> nth m (upd n x l) d = nth m l d.
Proof.
  induction l as [|y l IH]; intros n m H; [destruct n; reflexivity|].
  destruct n, m; simpl; try reflexivity; try congruence. apply IH. congruence.
Qed.
Lemma upd_length {A} (x : A) : forall l n, length (upd n x l) = length l.
Proof. induction l as [|y l IH]; intros n; [destruct n; reflexivity|]. destruct n; simpl; [reflexivity|now rewrite IH]. Qed.

Lemma run_cons g w o r :
  run g w (o :: r) = (fst (run g (fst (step g w o)) r), snd (step g w o) :: snd (run g (fst (step g w o)) r)).
Proof. cbn [run]. destruct (step g w o) as [w1 x]. cbn [fst snd]. destruct (run g w1 r) as [w2 xs]. reflexivity. Qed.

(* a property of every step of a run *)
Fixpoint r_all (P : world -> op -> world -> out -> Prop) (g : cfg) (w : world) (ops : list op) : Prop :=
  match ops with
  | [] => True
  | o :: r => P w o (fst (step g w o)) (snd (step g w o)) /\ r_all P g (fst (step g w o)) r
  end.

Lemma r_all_lift (I : world -> Prop) (P : world -> op -> world -> out -> Prop) g :
  (forall w o, I w -> P w o (fst (step g w o)) (snd (step g w o)) /\ I (fst (step g w o))) ->
  forall ops w, I w -> r_all P g w ops.
Proof.
  intros H. induction ops as [|o r IH]; intros w Hi; [exact Logic.I|].
  destruct (H w o Hi) as [Hp Hi']. split; [exact Hp|apply IH, Hi'].
Qed.

(* ------------------------------------------------------------------ fresh reads never crash *)
Lemma fresh_read_no_crash g fs p d : fresh_read g fs p d <> RCrash.
Proof.
  unfold fresh_read. destruct (nth (fid g p) fs None) as [c|]; [|discriminate].
  destruct (dtype_eqb (k_dt c) d); [discriminate|]. destruct (_ <=? _); discriminate.
Qed.
Lemma denote_no_crash g fs im : denote g fs im <> RCrash.
Proof. unfold denote. destruct (i_src im); [discriminate|apply fresh_read_no_crash]. Qed.

(* ------------------------------------------------------------------ (1) a save never crashes *)
Definition is_write (o : op) : bool := match o with Save _ _ | ToBytes _ | SaveFull _ => true | _ => false end.

Lemma save_step_no_crash g w o : g_fix g = true -> is_write o = true -> snd (step g w o) <> OCrash.
Proof.
  intros Hf Ho. unfold step. destruct (w_dead w); [discriminate|].
  destruct o; try discriminate.
  - (* Save *)
    unfold do_save. destruct (img_at w s) as [im|]; [|discriminate].
    destruct (negb (fid g p <? length (w_fs w))%nat); [discriminate|].
    destruct (out_dtype g im (pi_fmt (pinfo_of g p))) as [od|]; [|discriminate].
    pose proof (denote_no_crash g (w_fs w) im) as Hn.
    destruct (denote g (w_fs w) im) as [v| |]; [|discriminate|congruence].
    rewrite Hf. rewrite andb_false_r. discriminate.
  - (* SaveFull *)
    destruct (img_at w s) as [im|]; [|discriminate].
    pose proof (denote_no_crash g (w_fs w) im) as Hn.
    destruct (denote g (w_fs w) im); try discriminate; congruence.
  - (* ToBytes *)
    unfold do_tobytes. destruct (img_at w s) as [im|]; [|discriminate].
    pose proof (denote_no_crash g (w_fs w) im) as Hn.
    destruct (i_fmt im); try discriminate; destruct (denote g (w_fs w) im); try discriminate; congruence.
Qed.

Lemma save_never_crashes g ops w : g_fix g = true ->
  r_all (fun w o w' x => is_write o = true -> x <> OCrash) g w ops.
Proof.
  intros Hf. apply (r_all_lift (fun _ => True)); [|exact I].
  intros w0 o _. split; [|exact I]. intros Ho. now apply save_step_no_crash.
Qed.

(* ------------------------------------------------------------------ (2) every file written decodes to what the image held *)
Definition decodes (g : cfg) (w : world) (o : op) (w' : world) (x : out) : Prop :=
  forall s t v d a, o = Save s t -> x = OSaved t v d a ->
    exists im, img_at w s = Some im
      /\ denote g (w_fs w) im = RVal v                      (* the data the image had at that save *)
      /\ out_dtype g im (pi_fmt (pinfo_of g t)) = Some d
      /\ a = i_aff im                                         (* and its affine *)
      /\ file_at w' (fid g t) = Some (mkK v d a)              (* is what the file behind the target name now holds *)
      /\ (forall f, f <> fid g t -> file_at w' f = file_at w f)  (* no other file is touched *)
      /\ w_imgs w' = w_imgs w.                                (* and the image objects are as before *)

Lemma decodes_step g w o : g_fix g = true -> decodes g w o (fst (step g w o)) (snd (step g w o)).
Proof.
  intros Hf s t v d a -> Hx. unfold step in *. destruct (w_dead w); [discriminate|].
  unfold do_save in *. destruct (img_at w s) as [im|] eqn:Hi; [|discriminate].
  destruct (fid g t <? length (w_fs w))%nat eqn:Hlt; cbn [negb] in *; [|discriminate].
  apply Nat.ltb_lt in Hlt.
  destruct (out_dtype g im (pi_fmt (pinfo_of g t))) as [od|] eqn:Ho; [|discriminate].
  destruct (denote g (w_fs w) im) as [v0| |] eqn:Hd; try discriminate.
  rewrite Hf, andb_false_r in *. cbn [fst snd] in *. inversion Hx; subst.
  exists im. split; [reflexivity|]. split; [exact Hd|]. split; [exact Ho|]. split; [reflexivity|].
  split; [unfold file_at; cbn [w_fs]; now apply nth_upd_same|]. split; [|reflexivity].
  intros p Hp. unfold file_at; cbn [w_fs]. now apply nth_upd_other.
Qed.

Lemma files_decode g ops w : g_fix g = true -> r_all (decodes g) g w ops.
Proof.
  intros Hf. apply (r_all_lift (fun _ => True)); [|exact I].
  intros w0 o _. split; [now apply decodes_step|exact I].
Qed.

(* ------------------------------------------------------------------ (3) the image stays usable after a save *)
(* the S-C09c case: the image is a proxy of the target itself and the dtype written differs from
   the dtype the proxy copied at load *)
Definition stale_after (g : cfg) (im : image) (t : nat) (d : dtype) : Prop :=
  exists p ds mm, i_src im = SProxy p ds mm /\ fid g p = fid g t /\ d <> ds.

Lemma usable_after_save g w s t v d a im :
  g_fix g = true -> snd (step g w (Save s t)) = OSaved t v d a -> img_at w s = Some im ->
  ~ stale_after g im t d ->
  img_at (fst (step g w (Save s t))) s = Some im
  /\ denote g (w_fs (fst (step g w (Save s t)))) im = RVal v.
Proof.
  intros Hf Hx Him Hns.
  destruct (decodes_step g w (Save s t) Hf s t v d a eq_refl Hx) as (im' & Him' & Hd & Ho & Ha & Hft & Hoth & Himgs).
  rewrite Him in Him'. inversion Him'; subst im'. split.
  - unfold img_at. rewrite Himgs. exact Him.
  - unfold denote in *. destruct (i_src im) as [v0|p ds mm] eqn:Es; [exact Hd|].
    destruct (Nat.eq_dec (fid g p) (fid g t)) as [He|Hne].
    + assert (d = ds) as ->.
      { destruct (dtype_eqb d ds) eqn:E; [now apply dtype_eqb_eq|].
        exfalso. apply Hns. exists p, ds, mm. repeat split; try assumption. intros ->. now rewrite dtype_eqb_refl in E. }
      unfold fresh_read. rewrite He. unfold file_at in Hft. rewrite Hft. cbn [k_dt k_val]. now rewrite dtype_eqb_refl.
    + unfold fresh_read in *. specialize (Hoth (fid g p) Hne). unfold file_at in Hoth. rewrite Hoth. exact Hd.
Qed.

(* ------------------------------------------------------------------ (4) no crash when no save shortens a file under a live map *)
Definition cfg_wf (g : cfg) : Prop := 0 < g_page g /\ (forall f, 0 <= g_foot g f).

Lemma roundup_ge x page : 0 < page -> x <= roundup x page.
Proof. intros H. unfold roundup. Z.to_euclidean_division_equations; nia. Qed.

(* every live alias still has its file under it *)
Definition backed (g : cfg) (w : world) : Prop :=
  forall s im p d, img_at w s = Some im -> i_cache im = CAlias p d -> alias_read g (w_fs w) p d <> RCrash.

(* does this save shorten file t under some image's cached map of t? *)
Definition short_for (g : cfg) (t : nat) (od : dtype) (oi : option image) : bool :=
  match oi with
  | Some im => match i_cache im with
               | CAlias p d => Nat.eqb (fid g p) (fid g t)
                               && (roundup (flen g p (mkK None od 0%nat)) (g_page g) <? needed g p d)
               | _ => false
               end
  | None => false
  end.
Definition hazard (g : cfg) (w : world) (o : op) : bool :=
  match o with
  | Save s t =>
    match img_at w s with
    | Some im => match out_dtype g im (pi_fmt (pinfo_of g t)) with
                 | Some od => existsb (short_for g t od) (w_imgs w)
                 | None => false
                 end
    | None => false
    end
  | _ => false
  end.

Fixpoint no_hazard (g : cfg) (w : world) (ops : list op) : Prop :=
  match ops with
  | [] => True
  | o :: r => hazard g w o = false /\ no_hazard g (fst (step g w o)) r
  end.

Lemma img_at_in w s im : img_at w s = Some im -> In (Some im) (w_imgs w).
Proof.
  unfold img_at. intros H. destruct (Nat.lt_ge_cases s (length (w_imgs w))) as [Hl|Hl].
  - rewrite <- H. now apply nth_In.
  - rewrite nth_overflow in H by lia. discriminate.
Qed.

Lemma img_at_set w s im s' :
  img_at (set_img w s im) s' = if Nat.eqb s' s then (if (s <? length (w_imgs w))%nat then Some im else None) else img_at w s'.
Proof.
  unfold img_at, set_img; cbn [w_imgs]. destruct (Nat.eqb_spec s' s) as [->|Hne].
  - destruct (s <? length (w_imgs w))%nat eqn:E.
    + apply Nat.ltb_lt in E. now apply nth_upd_same.
    + apply Nat.ltb_ge in E. rewrite nth_overflow; [reflexivity|]. now rewrite upd_length.
  - now apply nth_upd_other.
Qed.

Lemma backed_set_img g w s im :
  backed g w ->
  (forall p d, i_cache im = CAlias p d -> alias_read g (w_fs w) p d <> RCrash) ->
  backed g (set_img w s im).
Proof.
  intros B H s' im' p d Hi Hc. rewrite img_at_set in Hi. cbn [set_img w_fs].
  destruct (Nat.eqb s' s).
  - destruct (s <? length (w_imgs w))%nat; [|discriminate]. inversion Hi; subst. now apply H.
  - eapply B; eauto.
Qed.

Lemma fresh_alias_backed g fs p d v :
  cfg_wf g -> fresh_read g fs p d = RVal v -> alias_read g fs p d <> RCrash.
Proof.
  intros [Hp Hf] H. unfold fresh_read, alias_read in *. destruct (nth (fid g p) fs None) as [c|]; [|discriminate].
  assert (Hle : needed g p d <= flen g p c).
  { destruct (dtype_eqb (k_dt c) d) eqn:E.
    - apply dtype_eqb_eq in E. subst. unfold flen. specialize (Hf (pi_fmt (pinfo_of g p))). lia.
    - destruct (needed g p d <=? flen g p c) eqn:E2; [lia|discriminate]. }
  pose proof (roundup_ge (flen g p c) (g_page g) Hp).
  replace (roundup (flen g p c) (g_page g) <? needed g p d) with false by lia.
  destruct (dtype_eqb (k_dt c) d); discriminate.
Qed.

Lemma step_backed g w o :
  cfg_wf g -> g_fix g = true -> backed g w -> hazard g w o = false ->
  snd (step g w o) <> OCrash /\ backed g (fst (step g w o)).
Proof.
  intros Wf Hf B Hz. unfold step. destruct (w_dead w) eqn:Hdead; [split; [discriminate|exact B]|].
  destruct o.
  - (* Load *)
    unfold do_load. destruct (file_at w (fid g p)); [|split; [discriminate|exact B]].
    destruct (s <? length (w_imgs w))%nat; [|split; [discriminate|exact B]].
    split; [discriminate|]. apply backed_set_img; [exact B|]. intros p0 d0 E; discriminate.
  - (* Fdata *)
    unfold do_fdata. destruct (img_at w s) as [im|] eqn:Hi; [|split; [discriminate|exact B]].
    destruct (i_cache im) as [|v|p d] eqn:Hc.
    + pose proof (denote_no_crash g (w_fs w) im) as Hn.
      destruct (denote g (w_fs w) im) as [v| |] eqn:Hd; [|split; [discriminate|exact B]|congruence].
      split; [discriminate|]. apply backed_set_img; [exact B|].
      intros p d E. cbn [with_cache i_cache] in E.
      destruct (aliasable g im) as [[p' d']|] eqn:Ea; [|discriminate]. inversion E; subst p' d'.
      unfold aliasable in Ea. unfold denote in Hd. destruct (i_src im) as [|p0 d0 mm]; [discriminate|].
      destruct (_ && _ && _ && _); [|discriminate]. inversion Ea; subst. eapply fresh_alias_backed; eauto.
    + split; [discriminate|exact B].
    + pose proof (B s im p d Hi Hc) as Hb.
      destruct (alias_read g (w_fs w) p d); [split; [discriminate|exact B]|split; [discriminate|exact B]|congruence].
  - (* Uncache *)
    destruct (img_at w s) as [im|]; [|split; [discriminate|exact B]].
    split; [discriminate|]. apply backed_set_img; [exact B|]. intros p d E; discriminate.
  - (* EditHdr *)
    destruct (img_at w s); split; try discriminate; exact B.
  - (* SetDtype *)
    destruct (img_at w s) as [im|] eqn:Hi; [|split; [discriminate|exact B]].
    split; [discriminate|]. apply backed_set_img; [exact B|]. intros p d E. cbn [i_cache] in E. eapply B; eauto.
  - (* Save *)
    pose proof (save_step_no_crash g w (Save s p) Hf eq_refl) as Hnc. unfold step in Hnc. rewrite Hdead in Hnc.
    split; [exact Hnc|].
    + unfold do_save. destruct (img_at w s) as [im|] eqn:Hi; [|exact B].
      destruct (fid g p <? length (w_fs w))%nat eqn:Hlt; cbn [negb]; [|exact B]. apply Nat.ltb_lt in Hlt.
      cbn [hazard] in Hz. rewrite Hi in Hz.
      destruct (out_dtype g im (pi_fmt (pinfo_of g p))) as [od|]; [|exact B].
      destruct (denote g (w_fs w) im) as [v| |]; [|exact B|].
      2:{ intros s' im' p' d' Hi' Hc'. cbn [kill w_fs w_imgs img_at] in *. eapply B; eauto. }
      rewrite Hf, andb_false_r. cbn [fst].
      intros s' im' p' d' Hi' Hc'. unfold img_at in Hi'; cbn [w_imgs w_fs] in *.
      pose proof (B s' im' p' d' Hi' Hc') as Hb.
      unfold alias_read in *. destruct (Nat.eq_dec (fid g p') (fid g p)) as [He|Hne].
      * rewrite He. rewrite nth_upd_same by exact Hlt.
        assert (Hs : short_for g p od (Some im') = false).
        { destruct (short_for g p od (Some im')) eqn:E; [|reflexivity].
          assert (existsb (short_for g p od) (w_imgs w) = true)
            by (apply existsb_exists; exists (Some im'); split; [exact (img_at_in w s' im' Hi')|exact E]).
          congruence. }
        cbn [short_for] in Hs. rewrite Hc', He, Nat.eqb_refl in Hs. cbn [andb] in Hs.
        unfold flen in *. cbn [k_dt] in *. rewrite Hs. destruct (dtype_eqb od d'); discriminate.
      * rewrite nth_upd_other by exact Hne. exact Hb.
  - (* SaveFull *)
    pose proof (save_step_no_crash g w (SaveFull s) Hf eq_refl) as Hnc. unfold step in Hnc. rewrite Hdead in Hnc.
    split; [exact Hnc|].
    destruct (img_at w s) as [im|]; [|exact B].
    destruct (denote g (w_fs w) im); exact B.
  - (* ToBytes *)
    pose proof (save_step_no_crash g w (ToBytes s) Hf eq_refl) as Hnc. unfold step in Hnc. rewrite Hdead in Hnc.
    split; [exact Hnc|].
    + unfold do_tobytes. destruct (img_at w s) as [im|]; [|exact B].
      destruct (i_fmt im); try exact B; destruct (denote g (w_fs w) im); try exact B;
        intros s' im' p' d' Hi' Hc'; cbn [kill w_fs w_imgs img_at] in *; eapply B; eauto.
Qed.

Lemma no_crash_partial g : cfg_wf g -> g_fix g = true ->
  forall ops w, backed g w -> no_hazard g w ops -> ~ In OCrash (snd (run g w ops)).
Proof.
  intros Wf Hf. induction ops as [|o r IH]; intros w B Hn; [simpl; tauto|].
  destruct Hn as [Hz Hr]. destruct (step_backed g w o Wf Hf B Hz) as [Hx B'].
  rewrite run_cons. cbn [snd]. intros [E|E]; [congruence|]. exact (IH _ B' Hr E).
Qed.

(* a world without caches (every initial world) is backed *)
Definition no_caches (w : world) : Prop := forall s im, img_at w s = Some im -> i_cache im = CNone.
Lemma no_caches_backed g w : no_caches w -> backed g w.
Proof. intros H s im p d Hi Hc. rewrite (H s im Hi) in Hc. discriminate. Qed.

Lemma platform_wf n paths fids fx : cfg_wf (platform_cfg n paths fids fx).
Proof. split; [reflexivity|]. intros f; destruct f; vm_compute; discriminate. Qed.
