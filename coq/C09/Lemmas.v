(* C09/Lemmas.v — proofs about C09/Model.v *)
From Coq Require Import ZArith List Bool Arith Lia.
From NV Require Import C09.Model C09.Tables.
Import ListNotations.
Open Scope Z_scope.

(* ------------------------------------------------------------------ small facts *)
Lemma dtype_eqb_eq a b : dtype_eqb a b = true <-> a = b.
Proof. destruct a, b; simpl; split; intro H; try reflexivity; try discriminate. Qed.
Lemma dtype_eqb_refl a : dtype_eqb a a = true.
Proof. destruct a; reflexivity. Qed.

Lemma nth_upd_same {A} (x d : A) : forall l n, (n < length l)%nat -> nth n (upd n x l) d = x.
Proof.
  induction l as [|y l IH]; intros n H; [simpl in H; lia|].
  destruct n; [reflexivity|]. simpl. apply IH. simpl in H. lia.
Qed.
Lemma nth_upd_other {A} (x d : A) : forall l n m, m <> n -> nth m (upd n x l) d = nth m l d.
Proof.
  induction l as [|y l IH]; intros n m H; [destruct n; reflexivity|].
  destruct n, m; simpl; try reflexivity; try congruence. apply IH. congruence.
Qed.
Lemma upd_length {A} (x : A) : forall l n, length (upd n x l) = length l.
Proof. induction l as [|y l IH]; intros n; [destruct n; reflexivity|]. destruct n; simpl; [reflexivity|now rewrite IH]. Qed.

Lemma run_cons g w o r :
  run g w (o :: r) = (fst (run g (fst (step g w o)) r), snd (step g w o) :: snd (run g (fst (step g w o)) r)).
Proof. cbn [run]. destruct (step g w o) as [w1 x]. cbn [fst snd]. destruct (run g w1 r) as [w2 xs]. reflexivity. Qed.

(* a property of every step of a run *)
Fixpoint r_all (P : world -> op -> world -> out -> Prop) (g : cfg) (w : world) (ops : list op) : Prop :=
  match ops with
  | [] => True
  | o :: r => P w o (fst (step g w o)) (snd (step g w o)) /\ r_all P g (fst (step g w o)) r
  end.

Lemma r_all_lift (I : world -> Prop) (P : world -> op -> world -> out -> Prop) g :
  (forall w o, I w -> P w o (fst (step g w o)) (snd (step g w o)) /\ I (fst (step g w o))) ->
  forall ops w, I w -> r_all P g w ops.
Proof.
  intros H. induction ops as [|o r IH]; intros w Hi; [exact Logic.I|].
  destruct (H w o Hi) as [Hp Hi']. split; [exact Hp|apply IH, Hi'].
Qed.

(* ------------------------------------------------------------------ live maps and their backing *)
Lemma fresh_read_no_crash g fs p d k : fresh_read g fs p d k <> RCrash.
Proof.
  unfold fresh_read. destruct (nth (fid g p) fs None) as [c|]; [|discriminate].
  destruct (dtype_eqb (k_dt c) d); [destruct (is_int d && negb (Nat.eqb (k_scl c) k)); discriminate|].
  destruct (_ <=? _); discriminate.
Qed.

(* an array image built around a memory map reads through that map: it must still be backed by its file *)
Definition src_backed (g : cfg) (fs : list (option content)) (im : image) : Prop :=
  match i_src im with SMap p d _ => alias_read g fs p d <> RCrash | _ => True end.

Lemma denote_no_crash g fs im : src_backed g fs im -> denote g fs im <> RCrash.
Proof.
  unfold denote, src_backed. destruct (i_src im); [discriminate|intros _; apply fresh_read_no_crash|auto].
Qed.

(* every live memory map - a cached get_fdata result, or the array an image was built around - still has its
   file under it *)
Definition backed (g : cfg) (w : world) : Prop :=
  forall s im, img_at w s = Some im ->
    src_backed g (w_fs w) im
    /\ (forall p d, i_cache im = CAlias p d -> alias_read g (w_fs w) p d <> RCrash).

(* the defect S-C09d: the saver's array is a map of the target that unmap_if_target does not recognise *)
Definition risky (g : cfg) (w : world) (s t : nat) : bool :=
  match img_at w s with
  | Some im => match mapped g im with Some p => Nat.eqb (fid g p) (fid g t) | None => false end && negb (recognised g im)
  | None => false
  end.

Lemma risky_fixed g w s t : g_viewfix g = true -> risky g w s t = false.
Proof.
  intros H. unfold risky. destruct (img_at w s) as [im|]; [|reflexivity].
  unfold recognised. rewrite H. destruct (i_src im); cbn; rewrite ?orb_true_r; now rewrite andb_false_r.
Qed.

(* ------------------------------------------------------------------ (1) a save never crashes *)
Definition is_write (o : op) : bool :=
  match o with Save _ _ | SaveU8 _ _ | ToFilename _ _ | ToBytes _ | SaveFull _ => true | _ => false end.

(* the header dtype used for this save only (SaveU8) *)
Definition with_hdt (im : image) (hd : option dtype) : image :=
  match hd with Some d => mkI (i_src im) (i_fmt im) d (i_aff im) (i_cache im) | None => im end.

Lemma img_at_lt w s im : img_at w s = Some im -> (s < length (w_imgs w))%nat.
Proof.
  unfold img_at. intros H. destruct (Nat.lt_ge_cases s (length (w_imgs w))) as [Hl|Hl]; [exact Hl|].
  rewrite nth_overflow in H by lia. discriminate.
Qed.

(* the image slots after a save: only the saving image's slot may change (it is re-pointed) *)
Definition imgs_after (g : cfg) (w : world) (s t : nat) (im0 : image) (v : option nat) : list (option image) :=
  if repoints g im0 (tfmt g im0 t) t then upd s (Some (repointed im0 v)) (w_imgs w) else w_imgs w.

Lemma imgs_after_other g w s t im0 v s' : s' <> s -> nth s' (imgs_after g w s t im0 v) None = nth s' (w_imgs w) None.
Proof. intros H. unfold imgs_after. destruct (repoints _ _ _ _); [now apply nth_upd_other|reflexivity]. Qed.
Lemma imgs_after_same g w s t im0 v : img_at w s = Some im0 ->
  nth s (imgs_after g w s t im0 v) None = Some (if repoints g im0 (tfmt g im0 t) t then repointed im0 v else im0).
Proof.
  intros H. unfold imgs_after. destruct (repoints _ _ _ _); [|exact H].
  apply nth_upd_same. eapply img_at_lt; eauto.
Qed.

Lemma src_with_hdt im hd : i_src (with_hdt im hd) = i_src im.
Proof. destruct hd; reflexivity. Qed.
Lemma denote_reshaped_map g fs im tf p d c : i_src im = SMap p d c -> denote g fs (reshaped g im tf) = denote g fs im.
Proof. intros E. unfold reshaped. destruct (_ && _ && _ && _); [|reflexivity]. rewrite E. reflexivity. Qed.

Lemma src_backed_reshaped g fs im tf : src_backed g fs im -> src_backed g fs (reshaped g im tf).
Proof.
  intros H. unfold reshaped. destruct (_ && _ && _ && _); [|exact H].
  unfold src_backed in *. destruct (i_src im) eqn:E; cbn [i_src]; try rewrite E; auto.
Qed.
Lemma src_backed_with_hdt g fs im hd : src_backed g fs im -> src_backed g fs (with_hdt im hd).
Proof. unfold src_backed. now rewrite src_with_hdt. Qed.

(* what any save can do to the world: nothing, kill the process, or replace one file (and maybe re-point the saver) *)
Lemma do_save_shape g w s t hd :
  fst (do_save g w s t hd) = w \/ fst (do_save g w s t hd) = kill w
  \/ exists im0 c imgs', img_at w s = Some im0 /\ (fid g t < length (w_fs w))%nat /\ k_cls c = tfmt g im0 t
       /\ (imgs' = w_imgs w \/ exists v, imgs' = upd s (Some (repointed im0 v)) (w_imgs w))
       /\ fst (do_save g w s t hd) = mkW (upd (fid g t) (Some c) (w_fs w)) imgs' (w_dead w).
Proof.
  unfold do_save. destruct (img_at w s) as [im0|] eqn:Hi; [|left; reflexivity].
  destruct (fid g t <? length (w_fs w))%nat eqn:Hlt; cbn [negb]; [|left; reflexivity]. apply Nat.ltb_lt in Hlt.
  fold (with_hdt im0 hd).
  destruct (out_dtype g (with_hdt im0 hd) (tfmt g im0 t)) as [od|]; [|left; reflexivity].
  destruct (denote g (w_fs w) (reshaped g (with_hdt im0 hd) (tfmt g im0 t))) as [v| |];
    [|left; reflexivity|right; left; reflexivity].
  destruct (writer_refuses g (tfmt g im0 t) od); [left; reflexivity|].
  destruct (_ && negb (g_fix g && recognised g (with_hdt im0 hd))).
  - destruct (_ <? _); [right; left; reflexivity|].
    right; right. exists im0, (mkK None od (i_aff (with_hdt im0 hd)) 0%nat (tfmt g im0 t)), (w_imgs w).
    repeat split; auto.
  - right; right. exists im0, (written g (tfmt g im0 t) od v (i_aff (with_hdt im0 hd))),
      (if repoints g im0 (tfmt g im0 t) t then upd s (Some (repointed im0 v)) (w_imgs w) else w_imgs w).
    split; [reflexivity|]. split; [exact Hlt|]. split.
    + unfold written. destruct (is_int od); [destruct (fmt_eqb _ Mgh); [|destruct v]|]; reflexivity.
    + split; [|reflexivity]. destruct (repoints _ _ _ _); [right; eauto|left; reflexivity].
Qed.

(* inversion of a save that is not the S-C09d case and whose saver's own map (if any) is backed: refused with
   nothing changed, or one file replaced *)
Lemma do_save_cases g w s t hd : g_fix g = true -> risky g w s t = false ->
  (forall im, img_at w s = Some im -> src_backed g (w_fs w) im) ->
  (exists e, do_save g w s t hd = (w, ORefused e))
  \/ (exists im0 od v,
        img_at w s = Some im0 /\ (fid g t < length (w_fs w))%nat
        /\ out_dtype g (with_hdt im0 hd) (tfmt g im0 t) = Some od
        /\ denote g (w_fs w) (reshaped g (with_hdt im0 hd) (tfmt g im0 t)) = RVal v
        /\ writer_refuses g (tfmt g im0 t) od = false
        /\ do_save g w s t hd =
           (mkW (upd (fid g t) (Some (written g (tfmt g im0 t) od v (i_aff im0))) (w_fs w))
                (if repoints g im0 (tfmt g im0 t) t then upd s (Some (repointed im0 v)) (w_imgs w) else w_imgs w)
                (w_dead w),
            OSaved t (k_val (written g (tfmt g im0 t) od v (i_aff im0))) od (i_aff im0)
                   (k_scl (written g (tfmt g im0 t) od v (i_aff im0))))).
Proof.
  intros Hf Hrk Hb. unfold do_save. destruct (img_at w s) as [im0|] eqn:Hi; [|left; eauto].
  destruct (fid g t <? length (w_fs w))%nat eqn:Hlt; cbn [negb]; [|left; eauto]. apply Nat.ltb_lt in Hlt.
  fold (with_hdt im0 hd).
  destruct (out_dtype g (with_hdt im0 hd) (tfmt g im0 t)) as [od|] eqn:Ho; [|left; eauto].
  assert (Hn : denote g (w_fs w) (reshaped g (with_hdt im0 hd) (tfmt g im0 t)) <> RCrash).
  { apply denote_no_crash, src_backed_reshaped, src_backed_with_hdt, Hb. reflexivity. }
  destruct (denote g (w_fs w) (reshaped g (with_hdt im0 hd) (tfmt g im0 t))) as [v| |] eqn:Hd;
    [|left; eauto|congruence].
  destruct (writer_refuses g (tfmt g im0 t) od) eqn:Hw; [left; eauto|].
  unfold risky in Hrk. rewrite Hi in Hrk.
  assert (Hm : mapped g (with_hdt im0 hd) = mapped g im0) by (unfold mapped; now rewrite src_with_hdt).
  assert (Hrec : recognised g (with_hdt im0 hd) = recognised g im0) by (unfold recognised; now rewrite src_with_hdt).
  rewrite Hm, Hrec, Hf. cbn [andb].
  replace (match mapped g im0 with Some p => Nat.eqb (fid g p) (fid g t) | None => false end && negb (recognised g im0))
    with false.
  right. exists im0, od, v.
  assert (Ha : i_aff (with_hdt im0 hd) = i_aff im0) by (destruct hd; reflexivity). rewrite Ha.
  repeat split; assumption.
Qed.

Definition save_op (o : op) : option (nat * nat * option dtype) :=
  match o with
  | Save s t | ToFilename s t => Some (s, t, None)
  | SaveU8 s t => Some (s, t, Some U1)
  | _ => None
  end.
Definition risky_op (g : cfg) (w : world) (o : op) : bool :=
  match save_op o with Some (s, t, _) => risky g w s t | None => false end.

(* a save operation is do_save, or (to_filename with a name of another class) a refusal that changes nothing *)
Lemma step_save g w o s t hd : w_dead w = false -> save_op o = Some (s, t, hd) ->
  step g w o = do_save g w s t hd \/ exists e, step g w o = (w, ORefused e).
Proof.
  intros Hd H. unfold step. rewrite Hd. destruct o; inversion H; subst; try (left; reflexivity).
  destruct (img_at w s) as [im|]; [|right; eauto].
  destruct (fmt_eqb (i_fmt im) (tfmt g im t)); [left; reflexivity|right; eauto].
Qed.

(* from a world whose maps are all backed, no operation other than an S-C09d save crashes *)
Lemma backed_step_no_crash g w o : g_fix g = true -> backed g w -> risky_op g w o = false -> snd (step g w o) <> OCrash.
Proof.
  intros Hf B Hrk. destruct (w_dead w) eqn:Hdead; [unfold step; rewrite Hdead; discriminate|].
  assert (SB : forall s im, img_at w s = Some im -> src_backed g (w_fs w) im) by (intros s im H; apply (B s im H)).
  assert (DN : forall s im, img_at w s = Some im -> denote g (w_fs w) im <> RCrash)
    by (intros s im H; apply denote_no_crash; eauto).
  assert (SV : forall s t hd, risky g w s t = false -> snd (do_save g w s t hd) <> OCrash).
  { intros s t hd Hr. destruct (do_save_cases g w s t hd Hf Hr (SB s)) as [[e E]|(im0 & od & v & _ & _ & _ & _ & _ & E)];
      rewrite E; discriminate. }
  assert (FD : forall s, snd (do_fdata g w s) <> OCrash).
  { intros s. unfold do_fdata. destruct (img_at w s) as [im|] eqn:Hi; [|discriminate].
    destruct (i_cache im) as [|v|p d] eqn:Hc.
    - pose proof (DN s im Hi). destruct (denote g (w_fs w) im); try discriminate; congruence.
    - discriminate.
    - pose proof (proj2 (B s im Hi) p d Hc). destruct (alias_read g (w_fs w) p d); try discriminate; congruence. }
  destruct o.
  - unfold step. rewrite Hdead. unfold do_load. destruct (file_at w (fid g p)); [|discriminate]. destruct (_ <? _)%nat; discriminate.
  - unfold step. rewrite Hdead. apply FD.
  - unfold step. rewrite Hdead. destruct (img_at w s); discriminate.
  - unfold step. rewrite Hdead. destruct (img_at w s); discriminate.
  - unfold step. rewrite Hdead. destruct (img_at w s); discriminate.
  - unfold step. rewrite Hdead. destruct (img_at w s); discriminate.
  - destruct (step_save g w (Save s p) s p None Hdead eq_refl) as [E|[e E]]; rewrite E; [now apply SV|discriminate].
  - destruct (step_save g w (SaveU8 s p) s p (Some U1) Hdead eq_refl) as [E|[e E]]; rewrite E; [now apply SV|discriminate].
  - destruct (step_save g w (ToFilename s p) s p None Hdead eq_refl) as [E|[e E]]; rewrite E; [now apply SV|discriminate].
  - unfold step. rewrite Hdead. destruct (img_at w s) as [im|]; [|discriminate]. destruct (_ <? _)%nat; discriminate.
  - (* Wrap *)
    unfold step. rewrite Hdead. unfold do_wrap. destruct (img_at w s) as [im|] eqn:Hi; [|discriminate].
    destruct (negb (s2 <? length (w_imgs w))%nat); [discriminate|].
    destruct how.
    + pose proof (DN s im Hi). destruct (denote g (w_fs w) im); try discriminate; congruence.
    + pose proof (FD s) as Hfd. destruct (do_fdata g w s) as [w1 x]. cbn [snd] in Hfd.
      destruct x; try discriminate; congruence.
    + pose proof (DN s im Hi). destruct (denote g (w_fs w) im); try discriminate; congruence.
  - unfold step. rewrite Hdead. destruct (img_at w s) as [im|] eqn:Hi; [|discriminate]. destruct (i_src im) eqn:Es; try discriminate.
    pose proof (DN s im Hi). destruct (denote g (w_fs w) im); try discriminate; congruence.
  - unfold step. rewrite Hdead. destruct (img_at w s) as [im|] eqn:Hi; [|discriminate].
    pose proof (DN s im Hi). destruct (denote g (w_fs w) im); try discriminate; congruence.
  - unfold step. rewrite Hdead. unfold do_tobytes. destruct (img_at w s) as [im|] eqn:Hi; [|discriminate].
    pose proof (DN s im Hi). destruct (i_fmt im); try discriminate; destruct (denote g (w_fs w) im); try discriminate; congruence.
Qed.

(* "every save completes without crashing": a save / to_bytes step crashes only if a map the saver reads through
   had already lost its file (S-C09b) or the saver's array is an unrecognised view of a map of the target (S-C09d) *)
Lemma risky_op_fixed g w o : g_viewfix g = true -> risky_op g w o = false.
Proof. intros H. unfold risky_op. destruct (save_op o) as [[[s t] hd]|]; [now apply risky_fixed|reflexivity]. Qed.

Lemma save_never_crashes g ops w : g_fix g = true -> g_viewfix g = true ->
  r_all (fun w o w' x => is_write o = true -> backed g w -> x <> OCrash) g w ops.
Proof.
  intros Hf Hv. apply (r_all_lift (fun _ => True)); [|exact I].
  intros w0 o _. split; [|exact I]. intros _ B. apply backed_step_no_crash; auto using risky_op_fixed.
Qed.

(* ------------------------------------------------------------------ (2) every file written decodes to what the image held *)
(* [written g tf d v a]: value v stored with dtype d (scale factors recomputed from v and d when d is an
   integer type); it decodes to v, except that MGH, which never scales, clips data of both signs to uint8 *)
Lemma written_val g tf d v a :
  ~ (g_mixed g = true /\ d = U1 /\ tf = Mgh) -> k_val (written g tf d v a) = v.
Proof.
  intros H. unfold written. destruct (is_int d); [|reflexivity].
  destruct (fmt_eqb tf Mgh) eqn:Ef.
  - cbn [k_val]. destruct (g_mixed g && dtype_eqb d U1) eqn:E; [|reflexivity].
    exfalso. apply H. apply andb_prop in E as [E1 E2]. apply dtype_eqb_eq in E2.
    repeat split; try assumption. destruct tf; try discriminate; reflexivity.
  - destruct v; reflexivity.
Qed.
Lemma written_dt_aff g tf d v a : k_dt (written g tf d v a) = d /\ k_aff (written g tf d v a) = a.
Proof. unfold written. destruct (is_int d); [destruct (fmt_eqb tf Mgh); [|destruct v]|]; split; reflexivity. Qed.

Definition decodes (g : cfg) (w : world) (o : op) (w' : world) (x : out) : Prop :=
  forall s t hd v d a k, save_op o = Some (s, t, hd) -> x = OSaved t v d a k ->
    backed g w ->
    exists im0 v0, img_at w s = Some im0
      (* the data the image had at that save (read through the class conversion) *)
      /\ denote g (w_fs w) (reshaped g (with_hdt im0 hd) (tfmt g im0 t)) = RVal v0
      /\ out_dtype g (with_hdt im0 hd) (tfmt g im0 t) = Some d
      /\ a = i_aff im0                                         (* and its affine *)
      (* are what the file behind the target name now holds, in dtype d with freshly computed factors *)
      /\ file_at w' (fid g t) = Some (written g (tfmt g im0 t) d v0 a)
      /\ v = k_val (written g (tfmt g im0 t) d v0 a) /\ k = k_scl (written g (tfmt g im0 t) d v0 a)
      /\ (forall f, f <> fid g t -> file_at w' f = file_at w f)  (* no other file is touched *)
      /\ (forall s', s' <> s -> img_at w' s' = img_at w s')      (* no other image object changes *)
      (* the saving image is as before, or (its proxy read the target) now holds the written data in memory *)
      /\ img_at w' s = Some (if repoints g im0 (tfmt g im0 t) t then repointed im0 v0 else im0).

Lemma decodes_step g w o : g_fix g = true -> g_viewfix g = true -> decodes g w o (fst (step g w o)) (snd (step g w o)).
Proof.
  intros Hf Hvf s t hd v d a k Hs Hx B. pose proof (risky_fixed g w s t Hvf) as Hrk.
  destruct (w_dead w) eqn:Hdead; [unfold step in Hx; rewrite Hdead in Hx; discriminate|].
  destruct (step_save g w o s t hd Hdead Hs) as [E0|[e E0]]; rewrite E0 in *; [|discriminate].
  assert (SB : forall im, img_at w s = Some im -> src_backed g (w_fs w) im) by (intros im H; apply (B s im H)).
  destruct (do_save_cases g w s t hd Hf Hrk SB) as [[e E]|(im0 & od & v0 & Hi & Hlt & Ho & Hd & Hw & E)];
    rewrite E in *; cbn [fst snd] in *; [discriminate|].
  inversion Hx; subst. exists im0, v0.
  split; [exact Hi|]. split; [exact Hd|]. split; [exact Ho|]. split; [reflexivity|].
  split; [unfold file_at; cbn [w_fs]; now apply nth_upd_same|]. split; [reflexivity|]. split; [reflexivity|].
  split; [intros f Hne; unfold file_at; cbn [w_fs]; now apply nth_upd_other|].
  split; [intros s' Hne; unfold img_at; cbn [w_imgs]; now apply (imgs_after_other g w s t im0 v0)|].
  unfold img_at; cbn [w_imgs]. now apply (imgs_after_same g w s t im0 v0).
Qed.

Lemma files_decode g ops w : g_fix g = true -> g_viewfix g = true -> r_all (decodes g) g w ops.
Proof.
  intros Hf Hvf. apply (r_all_lift (fun _ => True)); [|exact I].
  intros w0 o _. split; [now apply decodes_step|exact I].
Qed.

Lemma img_at_in w s im : img_at w s = Some im -> In (Some im) (w_imgs w).
Proof.
  unfold img_at. intros H. destruct (Nat.lt_ge_cases s (length (w_imgs w))) as [Hl|Hl].
  - rewrite <- H. now apply nth_In.
  - rewrite nth_overflow in H by lia. discriminate.
Qed.

Lemma img_at_set w s im s' :
  img_at (set_img w s im) s' = if Nat.eqb s' s then (if (s <? length (w_imgs w))%nat then Some im else None) else img_at w s'.
Proof.
  unfold img_at, set_img; cbn [w_imgs]. destruct (Nat.eqb_spec s' s) as [->|Hne].
  - destruct (s <? length (w_imgs w))%nat eqn:E.
    + apply Nat.ltb_lt in E. now apply nth_upd_same.
    + apply Nat.ltb_ge in E. rewrite nth_overflow; [reflexivity|]. now rewrite upd_length.
  - now apply nth_upd_other.
Qed.

(* ------------------------------------------------------------------ (3) the image stays usable after a save *)
(* names of one file belong to one name family; saving under a name of a family is idempotent on classes; a
   proxy image has a class that fits the family of the name it was loaded from, and every file holds a class that
   fits its names (true of every initial world, kept by every step): then a save onto the proxy's own file is
   never a class conversion, and the image object itself is re-pointed *)
Definition names_wf (g : cfg) : Prop :=
  (forall p t, fid g p = fid g t -> pi_fmt (pinfo_of g p) = pi_fmt (pinfo_of g t))
  /\ (forall x n, g_tclass g (g_tclass g x n) n = g_tclass g x n).
(* the name a proxy reads / an array was mapped from *)
Definition src_path (x : src) : option nat :=
  match x with SProxy p _ _ _ => Some p | SMap p _ _ => Some p | SArray _ => None end.
Definition classes_ok (g : cfg) (w : world) : Prop :=
  (forall s im p, img_at w s = Some im -> src_path (i_src im) = Some p ->
                  g_tclass g (i_fmt im) (pi_fmt (pinfo_of g p)) = i_fmt im)
  /\ (forall p c, file_at w (fid g p) = Some c -> g_tclass g (k_cls c) (pi_fmt (pinfo_of g p)) = k_cls c).

Definition usable (g : cfg) (w : world) (o : op) (w' : world) (x : out) : Prop :=
  forall s t hd v d a k, save_op o = Some (s, t, hd) -> x = OSaved t v d a k ->
    backed g w ->
    ~ (g_mixed g = true /\ d = U1) ->
    exists im', img_at w' s = Some im' /\ denote g (w_fs w') im' = RVal v.

Lemma fmt_eqb_refl f : fmt_eqb f f = true.
Proof. destruct f; reflexivity. Qed.

Lemma usable_step g w o :
  g_fix g = true -> g_viewfix g = true -> g_reshape_ok g = true -> g_repoint g = true -> g_maprepoint g = true ->
  names_wf g -> classes_ok g w ->
  usable g w o (fst (step g w o)) (snd (step g w o)).
Proof.
  intros Hf Hvf Hr Hp Hmr [Hn _] [Hc _] s t hd v d a k Hs Hx B Hclip.
  destruct (decodes_step g w o Hf Hvf s t hd v d a k Hs Hx B)
    as (im0 & v0 & Hi & Hd & Ho & Ha & Hft & Hv & Hk & Hoth & _ & Hslot).
  set (c := written g (tfmt g im0 t) d v0 a) in *.
  assert (Hv0 : v = v0) by (rewrite Hv; apply written_val; intros (A & B0 & _); apply Hclip; auto).
  (* the data read before the save: the class conversion does not change what the image is *)
  assert (Hd0 : denote g (w_fs w) im0 = RVal v0).
  { unfold reshaped in Hd. rewrite Hr in Hd. cbn [negb] in Hd. rewrite andb_false_r in Hd.
    unfold denote in *. rewrite src_with_hdt in Hd. exact Hd. }
  (* an image whose proxy reads, or whose array maps, the target file is of the target's class: no conversion *)
  assert (Hcls : forall p, src_path (i_src im0) = Some p -> fid g p = fid g t -> fmt_eqb (i_fmt im0) (tfmt g im0 t) = true).
  { intros p Hp0 He. unfold tfmt. rewrite <- (Hn p t He), (Hc s im0 p Hi Hp0). apply fmt_eqb_refl. }
  destruct (repoints g im0 (tfmt g im0 t) t) eqn:Er.
  - exists (repointed im0 v0). split; [exact Hslot|]. rewrite Hv0. reflexivity.
  - exists im0. split; [exact Hslot|]. rewrite Hv0.
    unfold denote in *. destruct (i_src im0) as [vv|p ds ks mm|p ds cv] eqn:Es; [exact Hd0| |].
    + unfold fresh_read in *. destruct (Nat.eq_dec (fid g p) (fid g t)) as [He|Hne].
      * (* a proxy of the target file is always re-pointed *)
        exfalso. unfold repoints in Er. rewrite (Hcls p eq_refl He), Hp, Es, He, Nat.eqb_refl in Er. discriminate.
      * specialize (Hoth (fid g p) Hne). unfold file_at in Hoth. rewrite Hoth. exact Hd0.
    + destruct (Nat.eq_dec (fid g p) (fid g t)) as [He|Hne].
      * (* an array mapped from the target was copied by unmap_if_target: that copy is the image's data now *)
        exfalso. unfold repoints in Er. rewrite (Hcls p eq_refl He), Hmr, Hf in Er.
        unfold recognised, mapped in Er. rewrite Es, Hvf, He, Nat.eqb_refl, orb_true_r in Er.
        cbn in Er. rewrite orb_true_r in Er. discriminate.
      * (* an array that maps another file: that file is untouched *)
        unfold alias_read in *. specialize (Hoth (fid g p) Hne). unfold file_at in Hoth. rewrite Hoth. exact Hd0.
Qed.

Lemma classes_ok_step g w o : names_wf g -> classes_ok g w -> classes_ok g (fst (step g w o)).
Proof.
  intros [Hn Hidem] Hc. unfold step. destruct (w_dead w) eqn:Hdead; [exact Hc|].
  destruct Hc as [Hc Hfs].
  (* operations that leave the files alone and set one image slot *)
  assert (SETW : forall w1 s im, w_fs w1 = w_fs w -> w_imgs w1 = w_imgs w ->
                   (forall p, src_path (i_src im) = Some p -> g_tclass g (i_fmt im) (pi_fmt (pinfo_of g p)) = i_fmt im) ->
                   classes_ok g (set_img w1 s im)).
  { intros w1 s im E1 E2 H. split.
    - intros s' im' p Hi Hs. rewrite img_at_set in Hi. unfold img_at in Hi. rewrite E2 in Hi. destruct (Nat.eqb s' s).
      + destruct (s <? length (w_imgs w))%nat; [|discriminate]. inversion Hi; subst. eapply H; eauto.
      + eapply Hc; eauto.
    - intros p c Hp. unfold file_at, set_img in Hp; cbn [w_fs] in Hp. rewrite E1 in Hp. now apply Hfs. }
  assert (SET : forall s im, (forall p, src_path (i_src im) = Some p ->
                                g_tclass g (i_fmt im) (pi_fmt (pinfo_of g p)) = i_fmt im) ->
                             classes_ok g (set_img w s im)) by (intros; now apply SETW).
  assert (SAME : classes_ok g w) by (split; assumption).
  assert (SV : forall s t hd, classes_ok g (fst (do_save g w s t hd))).
  { intros s t hd.
    destruct (do_save_shape g w s t hd) as [E|[E|(im0 & c & imgs' & Hi & Hlt & Hk & Himgs & E)]]; rewrite E;
      [exact SAME|exact SAME|]. split.
    - intros s' im' p Hi' Hs'. unfold img_at in Hi'; cbn [w_imgs] in Hi'.
      destruct Himgs as [->|[v ->]]; [eapply Hc; eauto|].
      destruct (Nat.eq_dec s' s) as [->|Hne].
      + rewrite nth_upd_same in Hi' by (eapply img_at_lt; eauto). inversion Hi'; subst. discriminate.
      + rewrite nth_upd_other in Hi' by exact Hne. eapply Hc; eauto.
    - intros p c' Hp. unfold file_at in Hp; cbn [w_fs] in Hp.
      destruct (Nat.eq_dec (fid g p) (fid g t)) as [He|Hne].
      + rewrite He, nth_upd_same in Hp by exact Hlt. inversion Hp; subst c'.
        rewrite Hk. unfold tfmt. rewrite (Hn p t He). apply Hidem.
      + rewrite nth_upd_other in Hp by exact Hne. now apply Hfs. }
  assert (FD : forall s, classes_ok g (fst (do_fdata g w s))
                         /\ w_fs (fst (do_fdata g w s)) = w_fs w
                         /\ (forall s', s' <> s -> img_at (fst (do_fdata g w s)) s' = img_at w s')
                         /\ length (w_imgs (fst (do_fdata g w s))) = length (w_imgs w)).
  { intros s. unfold do_fdata. destruct (img_at w s) as [im|] eqn:Hi; [|repeat split; auto].
    destruct (i_cache im) as [|cv|cp cd]; [| repeat split; auto |destruct (alias_read g (w_fs w) cp cd); repeat split; auto].
    destruct (denote g (w_fs w) im) as [v| |]; [|repeat split; auto|repeat split; auto]. cbn [fst].
    split; [apply SET; intros p E; exact (Hc s im p Hi E)|]. split; [reflexivity|]. split.
    - intros s' Hne. rewrite img_at_set. apply Nat.eqb_neq in Hne. now rewrite Hne.
    - unfold set_img; cbn [w_imgs]. apply upd_length. }
  destruct o; try apply SV.
  - unfold do_load. destruct (file_at w (fid g p)) as [c|] eqn:Hfa; [|exact SAME].
    destruct (s <? length (w_imgs w))%nat; [|exact SAME]. cbn [fst]. apply SET.
    intros p0 E. inversion E; subst. cbn [i_fmt]. now apply Hfs.
  - apply FD.
  - destruct (img_at w s) as [im|] eqn:Hi; [|exact SAME]. cbn [fst]. apply SET. intros p E. exact (Hc s im p Hi E).
  - destruct (img_at w s); exact SAME.
  - destruct (img_at w s) as [im|] eqn:Hi; [|exact SAME]. cbn [fst]. apply SET. intros p E. exact (Hc s im p Hi E).
  - destruct (img_at w s) as [im|] eqn:Hi; [|exact SAME]. cbn [fst]. apply SET. intros p E. exact (Hc s im p Hi E).
  - (* ToFilename *)
    destruct (img_at w s) as [im|]; [|exact SAME]. destruct (fmt_eqb _ _); [apply SV|exact SAME].
  - (* Clone *)
    destruct (img_at w s) as [im|] eqn:Hi; [|exact SAME]. destruct (s2 <? length (w_imgs w))%nat; [|exact SAME].
    cbn [fst]. apply SET. intros p E. exact (Hc s im p Hi E).
  - (* Wrap: the new image is an array image, never a proxy *)
    unfold do_wrap. destruct (img_at w s) as [im|] eqn:Hi; [|exact SAME].
    destruct (negb (s2 <? length (w_imgs w))%nat); [exact SAME|].
    assert (NP : forall v p, src_path (wrapped_src g im how v) = Some p -> src_path (i_src im) = Some p).
    { intros v p. unfold wrapped_src. destruct (i_src im) as [|p0 d0 k0 mm0|p0 d0 c0].
      - discriminate.
      - destruct (_ && _ && _); [|discriminate]. destruct how; try (intros E; exact E). destruct (aliasable g im); [intros E; exact E|discriminate].
      - destruct how; try (intros E; exact E). destruct (aliasable g im); [intros E; exact E|discriminate]. }
    destruct how.
    + destruct (denote g (w_fs w) im); try exact SAME. cbn [fst]. apply SET. intros p E. cbn [i_src i_fmt] in *. exact (Hc s im p Hi (NP _ _ E)).
    + destruct (FD s) as (C1 & F1 & I1 & L1). destruct (do_fdata g w s) as [w1 x]. cbn [fst] in *.
      destruct x; cbn [fst]; try exact C1; try exact SAME.
      destruct C1 as [C1a C1b]. split.
      * intros s' im' p Hi' Hs'. rewrite img_at_set in Hi'. destruct (Nat.eqb s' s2).
        -- destruct (s2 <? length (w_imgs w1))%nat; [|discriminate]. inversion Hi'; subst. cbn [i_src i_fmt] in *.
           exact (Hc s im p Hi (NP _ _ Hs')).
        -- eapply C1a; eauto.
      * intros p c Hp. unfold file_at, set_img in Hp; cbn [w_fs] in Hp. now apply C1b.
    + destruct (denote g (w_fs w) im); try exact SAME. cbn [fst]. apply SET. intros p E. cbn [i_src i_fmt] in *. exact (Hc s im p Hi (NP _ _ E)).
  - (* EditMap *)
    destruct (img_at w s) as [im|]; [|exact SAME]. destruct (i_src im); try exact SAME.
    destruct (denote g (w_fs w) im); exact SAME.
  - destruct (img_at w s) as [im|]; [|exact SAME]. destruct (denote g (w_fs w) im); exact SAME.
  - unfold do_tobytes. destruct (img_at w s) as [im|]; [|exact SAME].
    destruct (i_fmt im); try exact SAME; destruct (denote g (w_fs w) im); exact SAME.
Qed.

Lemma usable_all g ops w :
  g_fix g = true -> g_viewfix g = true -> g_reshape_ok g = true -> g_repoint g = true -> g_maprepoint g = true ->
  names_wf g -> classes_ok g w ->
  r_all (usable g) g w ops.
Proof.
  intros Hf Hvf Hr Hp Hmr Hn Hc. apply (r_all_lift (classes_ok g)); [|exact Hc].
  intros w0 o Hc0. split; [now apply usable_step|now apply classes_ok_step].
Qed.

(* every world without proxy images (all initial worlds: empty slots or array images) has its classes right *)
Lemma no_proxies_classes_ok g w :
  (forall s im, img_at w s = Some im -> exists v, i_src im = SArray v) ->
  (forall p c, file_at w (fid g p) = Some c -> g_tclass g (k_cls c) (pi_fmt (pinfo_of g p)) = k_cls c) ->
  classes_ok g w.
Proof.
  intros H Hfs. split; [|exact Hfs]. intros s im p Hi Hs. destruct (H s im Hi) as [v E]. rewrite E in Hs. discriminate.
Qed.

Lemma platform_names_wf n paths fids fx sc mx ld :
  (forall p t, nth p fids p = nth t fids t -> pi_fmt (nth p paths (mkP Nii false)) = pi_fmt (nth t paths (mkP Nii false))) ->
  names_wf (platform_cfg n paths fids fx sc mx ld).
Proof. intros H. split; [exact H|]. intros x m. destruct x, m; reflexivity. Qed.

(* a world of in-memory array images without caches (every initial world) has no live map at all *)
Definition no_maps (w : world) : Prop :=
  forall s im, img_at w s = Some im -> i_cache im = CNone /\ exists v, i_src im = SArray v.
Lemma no_maps_backed g w : no_maps w -> backed g w.
Proof.
  intros H s im Hi. destruct (H s im Hi) as [Hc [v Hs]]. split.
  - unfold src_backed. now rewrite Hs.
  - intros p d E. rewrite Hc in E. discriminate.
Qed.

(* ------------------------------------------------------------------ (4) S-C09b / S-C09d exactly: which histories are affected *)
(* does some image hold a live memory map - cached, or the array it was built around - whose file no longer covers it? *)
Definition unbacked_img (g : cfg) (fs : list (option content)) (oi : option image) : bool :=
  match oi with
  | Some im =>
    match i_src im with
    | SMap p d _ => match alias_read g fs p d with RCrash => true | _ => false end
    | _ => false
    end
    || match i_cache im with
       | CAlias p d => match alias_read g fs p d with RCrash => true | _ => false end
       | _ => false
       end
  | None => false
  end.
Definition unbackedb (g : cfg) (w : world) : bool := existsb (unbacked_img g (w_fs w)) (w_imgs w).

(* decidable predicate on (configuration, initial world, history): at some step an unrecognised view of a map of
   the target is saved (S-C09d), or a live memory map loses its backing (S-C09b: a save has made its file shorter
   than the map) *)
Fixpoint affected (g : cfg) (w : world) (ops : list op) : bool :=
  match ops with
  | [] => false
  | o :: r => risky_op g w o || unbackedb g (fst (step g w o)) || affected g (fst (step g w o)) r
  end.

Lemma backed_iff g w : backed g w <-> unbackedb g w = false.
Proof.
  split.
  - intros B. destruct (unbackedb g w) eqn:E; [|reflexivity]. exfalso.
    apply existsb_exists in E as (oi & Hin & Hu). destruct oi as [im|]; [|discriminate].
    apply In_nth with (d := None) in Hin as (s & _ & Hs). destruct (B s im Hs) as [B1 B2].
    cbn [unbacked_img] in Hu. apply orb_prop in Hu as [Hu|Hu].
    + unfold src_backed in B1. destruct (i_src im) as [| |p d c]; try discriminate.
      destruct (alias_read g (w_fs w) p d); try discriminate. now apply B1.
    + destruct (i_cache im) as [| |p d] eqn:Hc; try discriminate.
      destruct (alias_read g (w_fs w) p d) eqn:Ea; try discriminate. exact (B2 p d eq_refl Ea).
  - intros E s im Hi.
    assert (Hu : unbacked_img g (w_fs w) (Some im) = false).
    { destruct (unbacked_img g (w_fs w) (Some im)) eqn:Hu; [|reflexivity].
      assert (existsb (unbacked_img g (w_fs w)) (w_imgs w) = true)
        by (apply existsb_exists; exists (Some im); split; [now apply (img_at_in w s)|exact Hu]).
      unfold unbackedb in E. congruence. }
    cbn [unbacked_img] in Hu. apply orb_false_elim in Hu as [H1 H2]. split.
    + unfold src_backed. destruct (i_src im) as [| |p d c]; auto. intros Ea. rewrite Ea in H1. discriminate.
    + intros p d Hc Ea. rewrite Hc, Ea in H2. discriminate.
Qed.

Lemma no_crash_unaffected g : g_fix g = true ->
  forall ops w, backed g w -> affected g w ops = false -> ~ In OCrash (snd (run g w ops)).
Proof.
  intros Hf. induction ops as [|o r IH]; intros w B Ha; [simpl; tauto|].
  cbn [affected] in Ha. apply orb_false_elim in Ha as [H12 H3]. apply orb_false_elim in H12 as [H1 H2].
  rewrite run_cons. cbn [snd]. intros [E|E].
  - exact (backed_step_no_crash g w o Hf B H1 E).
  - apply backed_iff in H2. exact (IH _ H2 H3 E).
Qed.

(* the predicate is tight: the moment a live map loses its backing, one more operation on that image - a read of
   its data - kills the process *)
Lemma step_dead g w o : snd (step g w o) <> OCrash -> w_dead w = false -> w_dead (fst (step g w o)) = false.
Proof.
  intros Hn Hd.
  assert (K : forall (x : world * out), (snd x = OCrash \/ w_dead (fst x) = false) -> snd x <> OCrash ->
              w_dead (fst x) = false) by (intros x [H|H] Hx; [contradiction|exact H]).
  apply K; [|exact Hn]. clear K Hn.
  assert (SV : forall s t hd, snd (do_save g w s t hd) = OCrash \/ w_dead (fst (do_save g w s t hd)) = false).
  { intros s t hd. unfold do_save. destruct (img_at w s) as [im0|]; [|right; exact Hd].
    destruct (negb _); [right; exact Hd|]. destruct (out_dtype g _ _); [|right; exact Hd].
    destruct (denote g (w_fs w) _); [|right; exact Hd|left; reflexivity].
    destruct (writer_refuses g _ _); [right; exact Hd|].
    destruct (_ && negb _); [destruct (_ <? _); [left; reflexivity|right; exact Hd]|right; exact Hd]. }
  assert (FD : forall s, snd (do_fdata g w s) = OCrash \/ w_dead (fst (do_fdata g w s)) = false).
  { intros s. unfold do_fdata. destruct (img_at w s) as [im|]; [|right; exact Hd].
    destruct (i_cache im); [destruct (denote g (w_fs w) im)|..]; try (right; exact Hd); try (left; reflexivity).
    destruct (alias_read g (w_fs w) p d); try (right; exact Hd); left; reflexivity. }
  unfold step. rewrite Hd. destruct o.
  - right; cbn [fst]. unfold do_load. destruct (file_at w (fid g p)); [|exact Hd]. destruct (_ <? _)%nat; exact Hd.
  - apply FD.
  - right; cbn [fst]. destruct (img_at w s); exact Hd.
  - right; cbn [fst]. destruct (img_at w s); exact Hd.
  - right; cbn [fst]. destruct (img_at w s); exact Hd.
  - right; cbn [fst]. destruct (img_at w s); exact Hd.
  - apply SV.
  - apply SV.
  - destruct (img_at w s) as [im|]; [|right; exact Hd]. destruct (fmt_eqb _ _); [apply SV|right; exact Hd].
  - right; cbn [fst]. destruct (img_at w s); [|exact Hd]. destruct (_ <? _)%nat; exact Hd.
  - unfold do_wrap. destruct (img_at w s) as [im|]; [|right; exact Hd]. destruct (negb _); [right; exact Hd|].
    destruct how.
    + destruct (denote g (w_fs w) im); [right; exact Hd|right; exact Hd|left; reflexivity].
    + destruct (FD s) as [E|E]; destruct (do_fdata g w s) as [w1 x]; cbn [fst snd] in *.
      * rewrite E. left; reflexivity.
      * destruct x; try (right; exact E); left; reflexivity.
    + destruct (denote g (w_fs w) im); [right; exact Hd|right; exact Hd|left; reflexivity].
  - destruct (img_at w s) as [im|]; [|right; exact Hd]. destruct (i_src im); try (right; exact Hd).
    destruct (denote g (w_fs w) im); try (right; exact Hd); left; reflexivity.
  - destruct (img_at w s) as [im|]; [|right; exact Hd].
    destruct (denote g (w_fs w) im); try (right; exact Hd); left; reflexivity.
  - unfold do_tobytes. destruct (img_at w s) as [im|]; [|right; exact Hd].
    destruct (i_fmt im); try (right; exact Hd); destruct (denote g (w_fs w) im); try (right; exact Hd); left; reflexivity.
Qed.

Lemma unbacked_read_crashes g w : w_dead w = false -> unbackedb g w = true ->
  exists s, snd (step g w (Fdata s)) = OCrash \/ snd (step g w (Wrap s s WAny)) = OCrash.
Proof.
  intros Hd E. apply existsb_exists in E as (oi & Hin & Hu). destruct oi as [im|]; [|discriminate].
  apply In_nth with (d := None) in Hin as (s & Hlt & Hs). exists s.
  cbn [unbacked_img] in Hu. apply orb_prop in Hu as [Hu|Hu].
  - (* the array itself: building another image around it reads it *)
    right. unfold step. rewrite Hd. unfold do_wrap, img_at. rewrite Hs.
    replace (s <? length (w_imgs w))%nat with true by (symmetry; now apply Nat.ltb_lt). cbn [negb].
    unfold denote. destruct (i_src im) as [| |p d c]; try discriminate.
    destruct (alias_read g (w_fs w) p d); try discriminate. reflexivity.
  - left. destruct (i_cache im) as [| |p d] eqn:Hc; try discriminate.
    unfold step. rewrite Hd. unfold do_fdata, img_at. rewrite Hs, Hc.
    destruct (alias_read g (w_fs w) p d); try discriminate. reflexivity.
Qed.

Lemma affected_is_real g w o : g_fix g = true -> backed g w -> risky_op g w o = false -> w_dead w = false ->
  unbackedb g (fst (step g w o)) = true ->
  exists s, snd (step g (fst (step g w o)) (Fdata s)) = OCrash
            \/ snd (step g (fst (step g w o)) (Wrap s s WAny)) = OCrash.
Proof.
  intros Hf B Hr Hd E. apply unbacked_read_crashes; [|exact E].
  apply step_dead; [now apply backed_step_no_crash|exact Hd].
Qed.
