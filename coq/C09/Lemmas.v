(* C09/Lemmas.v — proofs about C09/Model.v *)
From Coq Require Import ZArith List Bool Arith Lia.
From NV Require Import C09.Model C09.Tables.
Import ListNotations.
Open Scope Z_scope.

(* ------------------------------------------------------------------ small facts *)
Lemma dtype_eqb_eq a b : dtype_eqb a b = true <-> a = b.
Proof. destruct a, b; simpl; split; intro H; try reflexivity; try discriminate. Qed.
Lemma dtype_eqb_refl a : dtype_eqb a a = true.
Proof. destruct a; reflexivity. Qed.

Lemma nth_upd_same {A} (x d : A) : forall l n, (n < length l)%nat -> nth n (upd n x l) d = x.
Proof.
  induction l as [|y l IH]; intros n H; [simpl in H; lia|].
  destruct n; [reflexivity|]. simpl. apply IH. simpl in H. lia.
Qed.
Lemma nth_upd_other {A} (x d : A) : forall l n m, m <> n -> nth m (upd n x l) d = nth m l d.
Proof.
  induction l as [|y l IH]; intros n m H; [destruct n; reflexivity|].
  destruct n, m; simpl; try reflexivity; try congruence. apply IH. congruence.
Qed.
Lemma upd_length {A} (x : A) : forall l n, length (upd n x l) = length l.
Proof. induction l as [|y l IH]; intros n; [destruct n; reflexivity|]. destruct n; simpl; [reflexivity|now rewrite IH]. Qed.

Lemma run_cons g w o r :
  run g w (o :: r) = (fst (run g (fst (step g w o)) r), snd (step g w o) :: snd (run g (fst (step g w o)) r)).
Proof. cbn [run]. destruct (step g w o) as [w1 x]. cbn [fst snd]. destruct (run g w1 r) as [w2 xs]. reflexivity. Qed.

(* a property of every step of a run *)
Fixpoint r_all (P : world -> op -> world -> out -> Prop) (g : cfg) (w : world) (ops : list op) : Prop :=
  match ops with
  | [] => True
  | o :: r => P w o (fst (step g w o)) (snd (step g w o)) /\ r_all P g (fst (step g w o)) r
  end.

Lemma r_all_lift (I : world -> Prop) (P : world -> op -> world -> out -> Prop) g :
  (forall w o, I w -> P w o (fst (step g w o)) (snd (step g w o)) /\ I (fst (step g w o))) ->
  forall ops w, I w -> r_all P g w ops.
Proof.
  intros H. induction ops as [|o r IH]; intros w Hi; [exact Logic.I|].
  destruct (H w o Hi) as [Hp Hi']. split; [exact Hp|apply IH, Hi'].
Qed.

(* ------------------------------------------------------------------ fresh reads never crash *)
Lemma fresh_read_no_crash g fs p d k : fresh_read g fs p d k <> RCrash.
Proof.
  unfold fresh_read. destruct (nth (fid g p) fs None) as [c|]; [|discriminate].
  destruct (dtype_eqb (k_dt c) d); [destruct (is_int d && negb (Nat.eqb (k_scl c) k)); discriminate|].
  destruct (_ <=? _); discriminate.
Qed.
Lemma denote_no_crash g fs im : denote g fs im <> RCrash.
Proof. unfold denote. destruct (i_src im); [discriminate|apply fresh_read_no_crash]. Qed.

(* ------------------------------------------------------------------ (1) a save never crashes *)
Definition is_write (o : op) : bool :=
  match o with Save _ _ | SaveU8 _ _ | ToFilename _ _ | ToBytes _ | SaveFull _ => true | _ => false end.

(* the header dtype used for this save only (SaveU8) *)
Definition with_hdt (im : image) (hd : option dtype) : image :=
  match hd with Some d => mkI (i_src im) (i_fmt im) d (i_aff im) (i_cache im) | None => im end.

Lemma img_at_lt w s im : img_at w s = Some im -> (s < length (w_imgs w))%nat.
Proof.
  unfold img_at. intros H. destruct (Nat.lt_ge_cases s (length (w_imgs w))) as [Hl|Hl]; [exact Hl|].
  rewrite nth_overflow in H by lia. discriminate.
Qed.

(* the image slots after a save: only the saving image's slot may change (it is re-pointed) *)
Definition imgs_after (g : cfg) (w : world) (s t : nat) (im0 : image) (v : option nat) : list (option image) :=
  if repoints g im0 (tfmt g im0 t) t then upd s (Some (repointed im0 v)) (w_imgs w) else w_imgs w.

Lemma imgs_after_other g w s t im0 v s' : s' <> s -> nth s' (imgs_after g w s t im0 v) None = nth s' (w_imgs w) None.
Proof. intros H. unfold imgs_after. destruct (repoints _ _ _ _); [now apply nth_upd_other|reflexivity]. Qed.
Lemma imgs_after_same g w s t im0 v : img_at w s = Some im0 ->
  nth s (imgs_after g w s t im0 v) None = Some (if repoints g im0 (tfmt g im0 t) t then repointed im0 v else im0).
Proof.
  intros H. unfold imgs_after. destruct (repoints _ _ _ _); [|exact H].
  apply nth_upd_same. eapply img_at_lt; eauto.
Qed.

(* inversion of a save (with the fix): refused with nothing changed, or one file replaced *)
Lemma do_save_cases g w s t hd : g_fix g = true ->
  (exists e, do_save g w s t hd = (w, ORefused e))
  \/ (exists im0 od v,
        img_at w s = Some im0 /\ (fid g t < length (w_fs w))%nat
        /\ out_dtype g (with_hdt im0 hd) (tfmt g im0 t) = Some od
        /\ denote g (w_fs w) (reshaped g (with_hdt im0 hd) (tfmt g im0 t)) = RVal v
        /\ writer_refuses g (tfmt g im0 t) od = false
        /\ do_save g w s t hd =
           (mkW (upd (fid g t) (Some (written g (tfmt g im0 t) od v (i_aff im0))) (w_fs w))
                (if repoints g im0 (tfmt g im0 t) t then upd s (Some (repointed im0 v)) (w_imgs w) else w_imgs w)
                (w_dead w),
            OSaved t (k_val (written g (tfmt g im0 t) od v (i_aff im0))) od (i_aff im0)
                   (k_scl (written g (tfmt g im0 t) od v (i_aff im0))))).
Proof.
  intros Hf. unfold do_save. destruct (img_at w s) as [im0|] eqn:Hi; [|left; eauto].
  destruct (fid g t <? length (w_fs w))%nat eqn:Hlt; cbn [negb]; [|left; eauto]. apply Nat.ltb_lt in Hlt.
  fold (with_hdt im0 hd).
  destruct (out_dtype g (with_hdt im0 hd) (tfmt g im0 t)) as [od|] eqn:Ho; [|left; eauto].
  pose proof (denote_no_crash g (w_fs w) (reshaped g (with_hdt im0 hd) (tfmt g im0 t))) as Hn.
  destruct (denote g (w_fs w) (reshaped g (with_hdt im0 hd) (tfmt g im0 t))) as [v| |] eqn:Hd;
    [|left; eauto|congruence].
  destruct (writer_refuses g (tfmt g im0 t) od) eqn:Hw; [left; eauto|].
  rewrite Hf, andb_false_r. right. exists im0, od, v.
  assert (Ha : i_aff (with_hdt im0 hd) = i_aff im0) by (destruct hd; reflexivity). rewrite Ha.
  repeat split; assumption.
Qed.

Definition save_op (o : op) : option (nat * nat * option dtype) :=
  match o with
  | Save s t | ToFilename s t => Some (s, t, None)
  | SaveU8 s t => Some (s, t, Some U1)
  | _ => None
  end.

(* a save operation is do_save, or (to_filename with a name of another class) a refusal that changes nothing *)
Lemma step_save g w o s t hd : w_dead w = false -> save_op o = Some (s, t, hd) ->
  step g w o = do_save g w s t hd \/ exists e, step g w o = (w, ORefused e).
Proof.
  intros Hd H. unfold step. rewrite Hd. destruct o; inversion H; subst; try (left; reflexivity).
  destruct (img_at w s) as [im|]; [|right; eauto].
  destruct (fmt_eqb (i_fmt im) (tfmt g im t)); [left; reflexivity|right; eauto].
Qed.

Lemma save_step_no_crash g w o : g_fix g = true -> is_write o = true -> snd (step g w o) <> OCrash.
Proof.
  intros Hf Ho. destruct (w_dead w) eqn:Hdead; [unfold step; rewrite Hdead; discriminate|].
  assert (SV : forall s t hd, snd (do_save g w s t hd) <> OCrash).
  { intros s t hd. destruct (do_save_cases g w s t hd Hf) as [[e E]|(im0 & od & v & _ & _ & _ & _ & _ & E)];
      rewrite E; discriminate. }
  destruct o; try discriminate.
  - destruct (step_save g w (Save s p) s p None Hdead eq_refl) as [E|[e E]]; rewrite E; [apply SV|discriminate].
  - destruct (step_save g w (SaveU8 s p) s p (Some U1) Hdead eq_refl) as [E|[e E]]; rewrite E; [apply SV|discriminate].
  - destruct (step_save g w (ToFilename s p) s p None Hdead eq_refl) as [E|[e E]]; rewrite E; [apply SV|discriminate].
  - (* SaveFull *)
    unfold step. rewrite Hdead. destruct (img_at w s) as [im|]; [|discriminate].
    pose proof (denote_no_crash g (w_fs w) im) as Hn.
    destruct (denote g (w_fs w) im); try discriminate; congruence.
  - (* ToBytes *)
    unfold step. rewrite Hdead. unfold do_tobytes. destruct (img_at w s) as [im|]; [|discriminate].
    pose proof (denote_no_crash g (w_fs w) im) as Hn.
    destruct (i_fmt im); try discriminate; destruct (denote g (w_fs w) im); try discriminate; congruence.
Qed.

Lemma save_never_crashes g ops w : g_fix g = true ->
  r_all (fun w o w' x => is_write o = true -> x <> OCrash) g w ops.
Proof.
  intros Hf. apply (r_all_lift (fun _ => True)); [|exact I].
  intros w0 o _. split; [|exact I]. intros Ho. now apply save_step_no_crash.
Qed.

(* ------------------------------------------------------------------ (2) every file written decodes to what the image held *)
(* [written g tf d v a]: value v stored with dtype d (scale factors recomputed from v and d when d is an
   integer type); it decodes to v, except that MGH, which never scales, clips data of both signs to uint8 *)
Lemma written_val g tf d v a :
  ~ (g_mixed g = true /\ d = U1 /\ tf = Mgh) -> k_val (written g tf d v a) = v.
Proof.
  intros H. unfold written. destruct (is_int d); [|reflexivity].
  destruct (fmt_eqb tf Mgh) eqn:Ef.
  - cbn [k_val]. destruct (g_mixed g && dtype_eqb d U1) eqn:E; [|reflexivity].
    exfalso. apply H. apply andb_prop in E as [E1 E2]. apply dtype_eqb_eq in E2.
    repeat split; try assumption. destruct tf; try discriminate; reflexivity.
  - destruct v; reflexivity.
Qed.
Lemma written_dt_aff g tf d v a : k_dt (written g tf d v a) = d /\ k_aff (written g tf d v a) = a.
Proof. unfold written. destruct (is_int d); [destruct (fmt_eqb tf Mgh); [|destruct v]|]; split; reflexivity. Qed.

Definition decodes (g : cfg) (w : world) (o : op) (w' : world) (x : out) : Prop :=
  forall s t hd v d a k, save_op o = Some (s, t, hd) -> x = OSaved t v d a k ->
    exists im0 v0, img_at w s = Some im0
      (* the data the image had at that save (read through the class conversion) *)
      /\ denote g (w_fs w) (reshaped g (with_hdt im0 hd) (tfmt g im0 t)) = RVal v0
      /\ out_dtype g (with_hdt im0 hd) (tfmt g im0 t) = Some d
      /\ a = i_aff im0                                         (* and its affine *)
      (* are what the file behind the target name now holds, in dtype d with freshly computed factors *)
      /\ file_at w' (fid g t) = Some (written g (tfmt g im0 t) d v0 a)
      /\ v = k_val (written g (tfmt g im0 t) d v0 a) /\ k = k_scl (written g (tfmt g im0 t) d v0 a)
      /\ (forall f, f <> fid g t -> file_at w' f = file_at w f)  (* no other file is touched *)
      /\ (forall s', s' <> s -> img_at w' s' = img_at w s')      (* no other image object changes *)
      (* the saving image is as before, or (its proxy read the target) now holds the written data in memory *)
      /\ img_at w' s = Some (if repoints g im0 (tfmt g im0 t) t then repointed im0 v0 else im0).

Lemma decodes_step g w o : g_fix g = true -> decodes g w o (fst (step g w o)) (snd (step g w o)).
Proof.
  intros Hf s t hd v d a k Hs Hx.
  destruct (w_dead w) eqn:Hdead; [unfold step in Hx; rewrite Hdead in Hx; discriminate|].
  destruct (step_save g w o s t hd Hdead Hs) as [E0|[e E0]]; rewrite E0 in *; [|discriminate].
  destruct (do_save_cases g w s t hd Hf) as [[e E]|(im0 & od & v0 & Hi & Hlt & Ho & Hd & Hw & E)];
    rewrite E in *; cbn [fst snd] in *; [discriminate|].
  inversion Hx; subst. exists im0, v0.
  split; [exact Hi|]. split; [exact Hd|]. split; [exact Ho|]. split; [reflexivity|].
  split; [unfold file_at; cbn [w_fs]; now apply nth_upd_same|]. split; [reflexivity|]. split; [reflexivity|].
  split; [intros f Hne; unfold file_at; cbn [w_fs]; now apply nth_upd_other|].
  split; [intros s' Hne; unfold img_at; cbn [w_imgs]; now apply (imgs_after_other g w s t im0 v0)|].
  unfold img_at; cbn [w_imgs]. now apply (imgs_after_same g w s t im0 v0).
Qed.

Lemma files_decode g ops w : g_fix g = true -> r_all (decodes g) g w ops.
Proof.
  intros Hf. apply (r_all_lift (fun _ => True)); [|exact I].
  intros w0 o _. split; [now apply decodes_step|exact I].
Qed.

Lemma img_at_in w s im : img_at w s = Some im -> In (Some im) (w_imgs w).
Proof.
  unfold img_at. intros H. destruct (Nat.lt_ge_cases s (length (w_imgs w))) as [Hl|Hl].
  - rewrite <- H. now apply nth_In.
  - rewrite nth_overflow in H by lia. discriminate.
Qed.

Lemma img_at_set w s im s' :
  img_at (set_img w s im) s' = if Nat.eqb s' s then (if (s <? length (w_imgs w))%nat then Some im else None) else img_at w s'.
Proof.
  unfold img_at, set_img; cbn [w_imgs]. destruct (Nat.eqb_spec s' s) as [->|Hne].
  - destruct (s <? length (w_imgs w))%nat eqn:E.
    + apply Nat.ltb_lt in E. now apply nth_upd_same.
    + apply Nat.ltb_ge in E. rewrite nth_overflow; [reflexivity|]. now rewrite upd_length.
  - now apply nth_upd_other.
Qed.

(* ------------------------------------------------------------------ (3) the image stays usable after a save *)
(* names of one file belong to one name family; saving under a name of a family is idempotent on classes; a
   proxy image has a class that fits the family of the name it was loaded from, and every file holds a class that
   fits its names (true of every initial world, kept by every step): then a save onto the proxy's own file is
   never a class conversion, and the image object itself is re-pointed *)
Definition names_wf (g : cfg) : Prop :=
  (forall p t, fid g p = fid g t -> pi_fmt (pinfo_of g p) = pi_fmt (pinfo_of g t))
  /\ (forall x n, g_tclass g (g_tclass g x n) n = g_tclass g x n).
Definition classes_ok (g : cfg) (w : world) : Prop :=
  (forall s im p d k mm, img_at w s = Some im -> i_src im = SProxy p d k mm ->
                         g_tclass g (i_fmt im) (pi_fmt (pinfo_of g p)) = i_fmt im)
  /\ (forall p c, file_at w (fid g p) = Some c -> g_tclass g (k_cls c) (pi_fmt (pinfo_of g p)) = k_cls c).

Definition usable (g : cfg) (w : world) (o : op) (w' : world) (x : out) : Prop :=
  forall s t hd v d a k, save_op o = Some (s, t, hd) -> x = OSaved t v d a k ->
    ~ (g_mixed g = true /\ d = U1) ->
    exists im', img_at w' s = Some im' /\ denote g (w_fs w') im' = RVal v.

Lemma fmt_eqb_refl f : fmt_eqb f f = true.
Proof. destruct f; reflexivity. Qed.

Lemma usable_step g w o :
  g_fix g = true -> g_reshape_ok g = true -> g_repoint g = true -> names_wf g -> classes_ok g w ->
  usable g w o (fst (step g w o)) (snd (step g w o)).
Proof.
  intros Hf Hr Hp [Hn _] [Hc _] s t hd v d a k Hs Hx Hclip.
  destruct (decodes_step g w o Hf s t hd v d a k Hs Hx)
    as (im0 & v0 & Hi & Hd & Ho & Ha & Hft & Hv & Hk & Hoth & _ & Hslot).
  set (c := written g (tfmt g im0 t) d v0 a) in *.
  assert (Hv0 : v = v0) by (rewrite Hv; apply written_val; intros (A & B & _); apply Hclip; auto).
  (* the data read before the save: the class conversion does not change what the proxy is *)
  assert (Hd0 : denote g (w_fs w) im0 = RVal v0).
  { unfold reshaped in Hd. rewrite Hr in Hd. cbn [negb] in Hd. rewrite andb_false_r in Hd.
    unfold denote in *. destruct hd; exact Hd. }
  destruct (repoints g im0 (tfmt g im0 t) t) eqn:Er.
  - exists (repointed im0 v0). split; [exact Hslot|]. rewrite Hv0. reflexivity.
  - exists im0. split; [exact Hslot|]. rewrite Hv0.
    unfold denote in *. destruct (i_src im0) as [vv|p ds ks mm] eqn:Es; [exact Hd0|].
    unfold fresh_read in *. destruct (Nat.eq_dec (fid g p) (fid g t)) as [He|Hne].
    + (* a proxy of the target file is always re-pointed *)
      exfalso. unfold repoints, tfmt in Er. rewrite Hp, Es, He, Nat.eqb_refl in Er.
      rewrite <- (Hn p t He), (Hc s im0 p ds ks mm Hi Es), fmt_eqb_refl in Er. discriminate.
    + specialize (Hoth (fid g p) Hne). unfold file_at in Hoth. rewrite Hoth. exact Hd0.
Qed.

Lemma classes_ok_step g w o : g_fix g = true -> names_wf g -> classes_ok g w -> classes_ok g (fst (step g w o)).
Proof.
  intros Hf [Hn Hidem] Hc. unfold step. destruct (w_dead w) eqn:Hdead; [exact Hc|].
  destruct Hc as [Hc Hfs].
  (* operations that leave the files alone and set one image slot *)
  assert (SET : forall s im, (forall p d k mm, i_src im = SProxy p d k mm ->
                                g_tclass g (i_fmt im) (pi_fmt (pinfo_of g p)) = i_fmt im) ->
                             classes_ok g (set_img w s im)).
  { intros s im H. split; [|exact Hfs]. intros s' im' p d k mm Hi Hs. rewrite img_at_set in Hi. destruct (Nat.eqb s' s).
    - destruct (s <? length (w_imgs w))%nat; [|discriminate]. inversion Hi; subst. eapply H; eauto.
    - eapply Hc; eauto. }
  assert (SAME : classes_ok g w) by (split; assumption).
  assert (SV : forall s t hd, classes_ok g (fst (do_save g w s t hd))).
  { intros s t hd.
    destruct (do_save_cases g w s t hd Hf) as [[e E]|(im0 & od & v & Hi & Hlt & Ho & Hd & Hw & E)];
      rewrite E; cbn [fst]; [exact SAME|]. split.
    - intros s' im' p d k mm Hi' Hs'. unfold img_at in Hi'; cbn [w_imgs] in Hi'.
      destruct (repoints g im0 (tfmt g im0 t) t); [|eapply Hc; eauto].
      destruct (Nat.eq_dec s' s) as [->|Hne].
      + rewrite nth_upd_same in Hi' by (eapply img_at_lt; eauto). inversion Hi'; subst. discriminate.
      + rewrite nth_upd_other in Hi' by exact Hne. eapply Hc; eauto.
    - intros p c Hp. unfold file_at in Hp; cbn [w_fs] in Hp.
      destruct (Nat.eq_dec (fid g p) (fid g t)) as [He|Hne].
      + rewrite He, nth_upd_same in Hp by exact Hlt. inversion Hp; subst c.
        assert (Hk : k_cls (written g (tfmt g im0 t) od v (i_aff im0)) = tfmt g im0 t).
        { unfold written. destruct (is_int od); [destruct (fmt_eqb _ Mgh); [|destruct v]|]; reflexivity. }
        rewrite Hk. unfold tfmt. rewrite (Hn p t He). apply Hidem.
      + rewrite nth_upd_other in Hp by exact Hne. now apply Hfs. }
  destruct o; try apply SV.
  - unfold do_load. destruct (file_at w (fid g p)) as [c|] eqn:Hfa; [|exact SAME].
    destruct (s <? length (w_imgs w))%nat; [|exact SAME]. cbn [fst]. apply SET.
    intros p0 d0 k0 mm0 E. inversion E; subst. cbn [i_fmt]. now apply Hfs.
  - unfold do_fdata. destruct (img_at w s) as [im|] eqn:Hi; [|exact SAME].
    destruct (i_cache im) as [|cv|cp cd]; [| exact SAME |destruct (alias_read g (w_fs w) cp cd); exact SAME].
    destruct (denote g (w_fs w) im) as [v| |]; [|exact SAME|exact SAME]. cbn [fst]. apply SET. intros p d k mm E. exact (Hc s im p d k mm Hi E).
  - destruct (img_at w s) as [im|] eqn:Hi; [|exact SAME]. cbn [fst]. apply SET. intros p d k mm E. exact (Hc s im p d k mm Hi E).
  - destruct (img_at w s); exact SAME.
  - destruct (img_at w s) as [im|] eqn:Hi; [|exact SAME]. cbn [fst]. apply SET. intros p d k mm E. exact (Hc s im p d k mm Hi E).
  - destruct (img_at w s) as [im|] eqn:Hi; [|exact SAME]. cbn [fst]. apply SET. intros p d k mm E. exact (Hc s im p d k mm Hi E).
  - (* ToFilename *)
    destruct (img_at w s) as [im|]; [|exact SAME]. destruct (fmt_eqb _ _); [apply SV|exact SAME].
  - (* Clone *)
    destruct (img_at w s) as [im|] eqn:Hi; [|exact SAME]. destruct (s2 <? length (w_imgs w))%nat; [|exact SAME].
    cbn [fst]. apply SET. intros p d k mm E. exact (Hc s im p d k mm Hi E).
  - (* EditMap *)
    destruct (img_at w s) as [im|]; [|exact SAME]. destruct (i_src im); [exact SAME|].
    destruct (denote g (w_fs w) im); exact SAME.
  - destruct (img_at w s) as [im|]; [|exact SAME]. destruct (denote g (w_fs w) im); exact SAME.
  - unfold do_tobytes. destruct (img_at w s) as [im|]; [|exact SAME].
    destruct (i_fmt im); try exact SAME; destruct (denote g (w_fs w) im); exact SAME.
Qed.

Lemma usable_all g ops w :
  g_fix g = true -> g_reshape_ok g = true -> g_repoint g = true -> names_wf g -> classes_ok g w ->
  r_all (usable g) g w ops.
Proof.
  intros Hf Hr Hp Hn Hc. apply (r_all_lift (classes_ok g)); [|exact Hc].
  intros w0 o Hc0. split; [now apply usable_step|now apply classes_ok_step].
Qed.

(* every world without proxy images (all initial worlds: empty slots or array images) has its classes right *)
Lemma no_proxies_classes_ok g w :
  (forall s im, img_at w s = Some im -> exists v, i_src im = SArray v) ->
  (forall p c, file_at w (fid g p) = Some c -> g_tclass g (k_cls c) (pi_fmt (pinfo_of g p)) = k_cls c) ->
  classes_ok g w.
Proof.
  intros H Hfs. split; [|exact Hfs]. intros s im p d k mm Hi Hs. destruct (H s im Hi) as [v E]. rewrite E in Hs. discriminate.
Qed.

Lemma platform_names_wf n paths fids fx sc mx ld :
  (forall p t, nth p fids p = nth t fids t -> pi_fmt (nth p paths (mkP Nii false)) = pi_fmt (nth t paths (mkP Nii false))) ->
  names_wf (platform_cfg n paths fids fx sc mx ld).
Proof. intros H. split; [exact H|]. intros x m. destruct x, m; reflexivity. Qed.

(* ------------------------------------------------------------------ (4) no crash when no save shortens a file under a live map *)
Definition cfg_wf (g : cfg) : Prop := 0 < g_page g /\ (forall f, 0 <= g_foot g f).

Lemma roundup_ge x page : 0 < page -> x <= roundup x page.
Proof. intros H. unfold roundup. Z.to_euclidean_division_equations; nia. Qed.

(* every live alias still has its file under it *)
Definition backed (g : cfg) (w : world) : Prop :=
  forall s im p d, img_at w s = Some im -> i_cache im = CAlias p d -> alias_read g (w_fs w) p d <> RCrash.

(* does this save shorten file t under some image's cached map of t? *)
Definition short_for (g : cfg) (t : nat) (od : dtype) (oi : option image) : bool :=
  match oi with
  | Some im => match i_cache im with
               | CAlias p d => Nat.eqb (fid g p) (fid g t)
                               && (roundup (flen g p (mkK None od 0%nat 0%nat Nii)) (g_page g) <? needed g p d)
               | _ => false
               end
  | None => false
  end.
Definition hazard (g : cfg) (w : world) (o : op) : bool :=
  match save_op o with
  | Some (s, t, hd) =>
    match img_at w s with
    | Some im => match out_dtype g (with_hdt im hd) (tfmt g im t) with
                 | Some od => existsb (short_for g t od) (w_imgs w)
                 | None => false
                 end
    | None => false
    end
  | None => false
  end.

Fixpoint no_hazard (g : cfg) (w : world) (ops : list op) : Prop :=
  match ops with
  | [] => True
  | o :: r => hazard g w o = false /\ no_hazard g (fst (step g w o)) r
  end.

Lemma backed_set_img g w s im :
  backed g w ->
  (forall p d, i_cache im = CAlias p d -> alias_read g (w_fs w) p d <> RCrash) ->
  backed g (set_img w s im).
Proof.
  intros B H s' im' p d Hi Hc. rewrite img_at_set in Hi. cbn [set_img w_fs].
  destruct (Nat.eqb s' s).
  - destruct (s <? length (w_imgs w))%nat; [|discriminate]. inversion Hi; subst. now apply H.
  - eapply B; eauto.
Qed.

Lemma fresh_alias_backed g fs p d k v :
  cfg_wf g -> fresh_read g fs p d k = RVal v -> alias_read g fs p d <> RCrash.
Proof.
  intros [Hp Hf] H. unfold fresh_read, alias_read in *. destruct (nth (fid g p) fs None) as [c|]; [|discriminate].
  assert (Hle : needed g p d <= flen g p c).
  { destruct (dtype_eqb (k_dt c) d) eqn:E.
    - apply dtype_eqb_eq in E. subst. unfold flen. specialize (Hf (pi_fmt (pinfo_of g p))). lia.
    - destruct (needed g p d <=? flen g p c) eqn:E2; [lia|discriminate]. }
  pose proof (roundup_ge (flen g p c) (g_page g) Hp).
  replace (roundup (flen g p c) (g_page g) <? needed g p d) with false by lia.
  destruct (dtype_eqb (k_dt c) d); discriminate.
Qed.

Lemma step_backed g w o :
  cfg_wf g -> g_fix g = true -> backed g w -> hazard g w o = false ->
  snd (step g w o) <> OCrash /\ backed g (fst (step g w o)).
Proof.
  intros Wf Hf B Hz. unfold step. destruct (w_dead w) eqn:Hdead; [split; [discriminate|exact B]|].
  assert (SV : forall s t hd,
             match img_at w s with
             | Some im => match out_dtype g (with_hdt im hd) (tfmt g im t) with
                          | Some od => existsb (short_for g t od) (w_imgs w)
                          | None => false
                          end
             | None => false
             end = false ->
             snd (do_save g w s t hd) <> OCrash /\ backed g (fst (do_save g w s t hd))).
  { intros s t hd Hz'.
    destruct (do_save_cases g w s t hd Hf) as [[e E]|(im0 & od & v & Hi & Hlt & Ho & Hd & Hw & E)];
      rewrite E; cbn [fst snd]; [split; [discriminate|exact B]|]. split; [discriminate|].
    rewrite Hi, Ho in Hz'.
    set (c := written g (tfmt g im0 t) od v (i_aff im0)).
    destruct (written_dt_aff g (tfmt g im0 t) od v (i_aff im0)) as [Hdt _]. fold c in Hdt.
    intros s' im' p' d' Hi' Hc'. unfold img_at in Hi'; cbn [w_imgs w_fs] in *.
    assert (Hi'' : nth s' (w_imgs w) None = Some im').
    { destruct (repoints g im0 (tfmt g im0 t) t); [|exact Hi'].
      destruct (Nat.eq_dec s' s) as [->|Hne'].
      - rewrite nth_upd_same in Hi' by (eapply img_at_lt; eauto). inversion Hi'; subst im'. discriminate.
      - now rewrite nth_upd_other in Hi' by exact Hne'. }
    clear Hi'. rename Hi'' into Hi'.
    pose proof (B s' im' p' d' Hi' Hc') as Hb.
    unfold alias_read in *. destruct (Nat.eq_dec (fid g p') (fid g t)) as [He|Hne].
    - rewrite He. rewrite nth_upd_same by exact Hlt.
      assert (Hs : short_for g t od (Some im') = false).
      { destruct (short_for g t od (Some im')) eqn:E'; [|reflexivity].
        assert (existsb (short_for g t od) (w_imgs w) = true)
          by (apply existsb_exists; exists (Some im'); split; [exact (img_at_in w s' im' Hi')|exact E']).
        congruence. }
      cbn [short_for] in Hs. rewrite Hc', He, Nat.eqb_refl in Hs. cbn [andb] in Hs.
      unfold flen in *. cbn [k_dt] in *. rewrite Hdt, Hs. destruct (dtype_eqb od d'); discriminate.
    - rewrite nth_upd_other by exact Hne. exact Hb. }
  destruct o.
  - (* Load *)
    unfold do_load. destruct (file_at w (fid g p)); [|split; [discriminate|exact B]].
    destruct (s <? length (w_imgs w))%nat; [|split; [discriminate|exact B]].
    split; [discriminate|]. apply backed_set_img; [exact B|]. intros p0 d0 E; discriminate.
  - (* Fdata *)
    unfold do_fdata. destruct (img_at w s) as [im|] eqn:Hi; [|split; [discriminate|exact B]].
    destruct (i_cache im) as [|v|p d] eqn:Hc.
    + pose proof (denote_no_crash g (w_fs w) im) as Hn.
      destruct (denote g (w_fs w) im) as [v| |] eqn:Hd; [|split; [discriminate|exact B]|congruence].
      split; [discriminate|]. apply backed_set_img; [exact B|].
      intros p d E. cbn [with_cache i_cache] in E.
      destruct (aliasable g im) as [[p' d']|] eqn:Ea; [|discriminate]. inversion E; subst p' d'.
      unfold aliasable in Ea. unfold denote in Hd. destruct (i_src im) as [|p0 d0 k0 mm]; [discriminate|].
      destruct (_ && _ && _ && _); [|discriminate]. inversion Ea; subst. eapply fresh_alias_backed; eauto.
    + split; [discriminate|exact B].
    + pose proof (B s im p d Hi Hc) as Hb.
      destruct (alias_read g (w_fs w) p d); [split; [discriminate|exact B]|split; [discriminate|exact B]|congruence].
  - (* Uncache *)
    destruct (img_at w s) as [im|]; [|split; [discriminate|exact B]].
    split; [discriminate|]. apply backed_set_img; [exact B|]. intros p d E; discriminate.
  - (* EditHdr *)
    destruct (img_at w s); split; try discriminate; exact B.
  - (* SetDtype *)
    destruct (img_at w s) as [im|] eqn:Hi; [|split; [discriminate|exact B]].
    split; [discriminate|]. apply backed_set_img; [exact B|]. intros p d E. cbn [i_cache] in E. eapply B; eauto.
  - (* SetInt *)
    destruct (img_at w s) as [im|] eqn:Hi; [|split; [discriminate|exact B]].
    split; [discriminate|]. apply backed_set_img; [exact B|]. intros p d E. cbn [i_cache] in E. eapply B; eauto.
  - (* Save *) apply (SV s p None). exact Hz.
  - (* SaveU8 *) apply (SV s p (Some U1)). exact Hz.
  - (* ToFilename *)
    cbn [hazard save_op] in Hz. destruct (img_at w s) as [im|] eqn:Hi; [|split; [discriminate|exact B]].
    destruct (fmt_eqb (i_fmt im) (tfmt g im p)); [|split; [discriminate|exact B]].
    apply (SV s p None). rewrite Hi. exact Hz.
  - (* Clone *)
    destruct (img_at w s) as [im|] eqn:Hi; [|split; [discriminate|exact B]].
    destruct (s2 <? length (w_imgs w))%nat; [|split; [discriminate|exact B]].
    split; [discriminate|]. apply backed_set_img; [exact B|]. intros p d E; discriminate.
  - (* EditMap *)
    destruct (img_at w s) as [im|] eqn:Hi; [|split; [discriminate|exact B]].
    destruct (i_src im); [split; [discriminate|exact B]|].
    pose proof (denote_no_crash g (w_fs w) im) as Hn.
    destruct (denote g (w_fs w) im); [split; [discriminate|exact B]|split; [discriminate|exact B]|congruence].
  - (* SaveFull *)
    pose proof (save_step_no_crash g w (SaveFull s) Hf eq_refl) as Hnc. unfold step in Hnc. rewrite Hdead in Hnc.
    split; [exact Hnc|].
    destruct (img_at w s) as [im|]; [|exact B].
    destruct (denote g (w_fs w) im); exact B.
  - (* ToBytes *)
    pose proof (save_step_no_crash g w (ToBytes s) Hf eq_refl) as Hnc. unfold step in Hnc. rewrite Hdead in Hnc.
    split; [exact Hnc|].
    + unfold do_tobytes. destruct (img_at w s) as [im|]; [|exact B].
      destruct (i_fmt im); try exact B; destruct (denote g (w_fs w) im); try exact B;
        intros s' im' p' d' Hi' Hc'; cbn [kill w_fs w_imgs img_at] in *; eapply B; eauto.
Qed.

Lemma no_crash_partial g : cfg_wf g -> g_fix g = true ->
  forall ops w, backed g w -> no_hazard g w ops -> ~ In OCrash (snd (run g w ops)).
Proof.
  intros Wf Hf. induction ops as [|o r IH]; intros w B Hn; [simpl; tauto|].
  destruct Hn as [Hz Hr]. destruct (step_backed g w o Wf Hf B Hz) as [Hx B'].
  rewrite run_cons. cbn [snd]. intros [E|E]; [congruence|]. exact (IH _ B' Hr E).
Qed.

(* a world without caches (every initial world) is backed *)
Definition no_caches (w : world) : Prop := forall s im, img_at w s = Some im -> i_cache im = CNone.
Lemma no_caches_backed g w : no_caches w -> backed g w.
Proof. intros H s im p d Hi Hc. rewrite (H s im Hi) in Hc. discriminate. Qed.

Lemma platform_wf n paths fids fx sc mx ld : cfg_wf (platform_cfg n paths fids fx sc mx ld).
Proof. split; [reflexivity|]. intros f; destruct f; vm_compute; discriminate. Qed.

(* ------------------------------------------------------------------ (5) S-C09b exactly: which histories are affected *)
(* does some image hold a cached memory map whose file no longer covers it? *)
Definition unbacked_img (g : cfg) (fs : list (option content)) (oi : option image) : bool :=
  match oi with
  | Some im => match i_cache im with
               | CAlias p d => match alias_read g fs p d with RCrash => true | _ => false end
               | _ => false
               end
  | None => false
  end.
Definition unbackedb (g : cfg) (w : world) : bool := existsb (unbacked_img g (w_fs w)) (w_imgs w).

(* decidable predicate on (configuration, initial world, history): at some point of the run a live cached map
   loses its backing (a save has made its file shorter than the map) *)
Fixpoint affected (g : cfg) (w : world) (ops : list op) : bool :=
  match ops with
  | [] => false
  | o :: r => unbackedb g (fst (step g w o)) || affected g (fst (step g w o)) r
  end.

Lemma backed_iff g w : backed g w <-> unbackedb g w = false.
Proof.
  split.
  - intros B. destruct (unbackedb g w) eqn:E; [|reflexivity]. exfalso.
    apply existsb_exists in E as (oi & Hin & Hu). destruct oi as [im|]; [|discriminate].
    cbn [unbacked_img] in Hu. destruct (i_cache im) as [| |p d] eqn:Hc; try discriminate.
    apply In_nth with (d := None) in Hin as (s & _ & Hs).
    destruct (alias_read g (w_fs w) p d) eqn:Ea; try discriminate.
    exact (B s im p d Hs Hc Ea).
  - intros E s im p d Hi Hc Ea.
    assert (existsb (unbacked_img g (w_fs w)) (w_imgs w) = true).
    { apply existsb_exists. exists (Some im). split; [now apply (img_at_in w s)|].
      cbn [unbacked_img]. now rewrite Hc, Ea. }
    unfold unbackedb in E. congruence.
Qed.

(* from a world whose maps are all backed no operation crashes *)
Lemma backed_step_no_crash g w o : g_fix g = true -> backed g w -> snd (step g w o) <> OCrash.
Proof.
  intros Hf B. destruct (is_write o) eqn:Hw; [now apply save_step_no_crash|].
  unfold step. destruct (w_dead w); [discriminate|]. destruct o; try discriminate.
  - unfold do_load. destruct (file_at w (fid g p)); [|discriminate]. destruct (_ <? _)%nat; discriminate.
  - unfold do_fdata. destruct (img_at w s) as [im|] eqn:Hi; [|discriminate].
    destruct (i_cache im) as [|v|p d] eqn:Hc.
    + pose proof (denote_no_crash g (w_fs w) im). destruct (denote g (w_fs w) im); try discriminate; congruence.
    + discriminate.
    + pose proof (B s im p d Hi Hc). destruct (alias_read g (w_fs w) p d); try discriminate; congruence.
  - destruct (img_at w s); discriminate.
  - destruct (img_at w s); discriminate.
  - destruct (img_at w s); discriminate.
  - destruct (img_at w s); discriminate.
  - destruct (img_at w s) as [im|]; [|discriminate]. destruct (_ <? _)%nat; discriminate.
  - destruct (img_at w s) as [im|]; [|discriminate]. destruct (i_src im); [discriminate|].
    pose proof (denote_no_crash g (w_fs w) im). destruct (denote g (w_fs w) im); try discriminate; congruence.
Qed.

Lemma no_crash_unaffected g : g_fix g = true ->
  forall ops w, backed g w -> affected g w ops = false -> ~ In OCrash (snd (run g w ops)).
Proof.
  intros Hf. induction ops as [|o r IH]; intros w B Ha; [simpl; tauto|].
  cbn [affected] in Ha. apply orb_false_elim in Ha as [H1 H2].
  rewrite run_cons. cbn [snd]. intros [E|E].
  - exact (backed_step_no_crash g w o Hf B E).
  - apply backed_iff in H1. exact (IH _ H1 H2 E).
Qed.

(* the predicate is tight: the moment a live map loses its backing, reading that image kills the process *)
Lemma step_not_dead g w o : g_fix g = true -> backed g w -> w_dead w = false -> w_dead (fst (step g w o)) = false.
Proof.
  intros Hf B Hd. pose proof (backed_step_no_crash g w o Hf B) as Hn.
  assert (K : forall (x : world * out), (snd x = OCrash \/ w_dead (fst x) = false) -> snd x <> OCrash ->
              w_dead (fst x) = false) by (intros x [H|H] Hx; [contradiction|exact H]).
  apply K; [|exact Hn]. clear K Hn. unfold step. rewrite Hd. destruct o.
  - right; cbn [fst]. unfold do_load. destruct (file_at w (fid g p)); [|exact Hd]. destruct (_ <? _)%nat; exact Hd.
  - unfold do_fdata. destruct (img_at w s) as [im|]; [|right; exact Hd].
    destruct (i_cache im); [destruct (denote g (w_fs w) im)|..]; try (right; exact Hd); try (left; reflexivity).
    destruct (alias_read g (w_fs w) p d); try (right; exact Hd); left; reflexivity.
  - right; cbn [fst]. destruct (img_at w s); exact Hd.
  - right; cbn [fst]. destruct (img_at w s); exact Hd.
  - right; cbn [fst]. destruct (img_at w s); exact Hd.
  - right; cbn [fst]. destruct (img_at w s); exact Hd.
  - destruct (do_save_cases g w s p None Hf) as [[e E]|(im0 & od & v & _ & _ & _ & _ & _ & E)]; rewrite E; right; exact Hd.
  - destruct (do_save_cases g w s p (Some U1) Hf) as [[e E]|(im0 & od & v & _ & _ & _ & _ & _ & E)]; rewrite E; right; exact Hd.
  - destruct (img_at w s) as [im|]; [|right; exact Hd]. destruct (fmt_eqb _ _); [|right; exact Hd].
    destruct (do_save_cases g w s p None Hf) as [[e E]|(im0 & od & v & _ & _ & _ & _ & _ & E)]; rewrite E; right; exact Hd.
  - right; cbn [fst]. destruct (img_at w s); [|exact Hd]. destruct (_ <? _)%nat; exact Hd.
  - destruct (img_at w s) as [im|]; [|right; exact Hd]. destruct (i_src im); [right; exact Hd|].
    destruct (denote g (w_fs w) im); try (right; exact Hd); left; reflexivity.
  - destruct (img_at w s) as [im|]; [|right; exact Hd].
    destruct (denote g (w_fs w) im); try (right; exact Hd); left; reflexivity.
  - unfold do_tobytes. destruct (img_at w s) as [im|]; [|right; exact Hd].
    destruct (i_fmt im); try (right; exact Hd); destruct (denote g (w_fs w) im); try (right; exact Hd); left; reflexivity.
Qed.

Lemma unbacked_read_crashes g w : w_dead w = false -> unbackedb g w = true ->
  exists s, snd (step g w (Fdata s)) = OCrash.
Proof.
  intros Hd E. apply existsb_exists in E as (oi & Hin & Hu). destruct oi as [im|]; [|discriminate].
  cbn [unbacked_img] in Hu. destruct (i_cache im) as [| |p d] eqn:Hc; try discriminate.
  apply In_nth with (d := None) in Hin as (s & _ & Hs). exists s.
  unfold step. rewrite Hd. unfold do_fdata, img_at. rewrite Hs, Hc.
  destruct (alias_read g (w_fs w) p d); try discriminate. reflexivity.
Qed.

Lemma affected_is_real g w o : g_fix g = true -> backed g w -> w_dead w = false ->
  unbackedb g (fst (step g w o)) = true ->
  exists s, snd (step g (fst (step g w o)) (Fdata s)) = OCrash.
Proof. intros Hf B Hd E. apply unbacked_read_crashes; [now apply step_not_dead|exact E]. Qed.
