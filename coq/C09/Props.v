(* C09/Props.v — property theorems only.  Property C09: any load / modify / save history
   leaves correct files and a live process.  [step]/[run] model nibabel's load, get_fdata,
   uncache, header edits, set_data_dtype, save (with class conversion and, when g_fix, the
   unmap_if_target copy of fix 0c06baeb) and to_bytes over a symbolic file system in which a
   memory map is an ALIAS of its file.  Path NAMES and FILES are distinct: [fid g name] is the file
   identity behind a name, several names (symlink, hard link, other spelling) may reach one
   file; save(name) truncates the file behind the name.  All statements are for arbitrary
   histories (operation lists) over arbitrary configurations g (names, name->file map, sizes,
   offsets, page size, conversion table). *)
From Coq Require Import ZArith List Bool Arith Lia.
From NV Require Import C09.Model C09.Tables C09.Lemmas.
Import ListNotations.
Open Scope Z_scope.

(* "every save completes without crashing the interpreter": in every history, a save / to_filename / to_bytes
   step taken in a world whose live maps are all backed by their files is not a Crash (with fixes 0c06baeb and
   9bb93cff: data mapped from the target - the map itself or any view of it - are copied before the target is
   truncated; see C09_unfixed_refuted, C09_view_of_map_refuted).  A world with an unbacked map is S-C09b's
   domain (C09_no_crash). *)
Theorem C09_save_never_crashes : forall g ops w, g_fix g = true -> g_viewfix g = true ->
  r_all (fun w o w' x => is_write o = true -> backed g w -> x <> OCrash) g w ops.
Proof. exact save_never_crashes. Qed.
Print Assumptions C09_save_never_crashes.

(* "each file written decodes to the data and affine the image had at that save": at every
   successful save of every history the target holds exactly the value the image denoted just
   before, with the image's affine, no other file is touched and no image object changes (side condition:
   the world's live maps are backed - else the data read are S-C09b's) *)
Theorem C09_files_decode : forall g ops w, g_fix g = true -> g_viewfix g = true -> r_all (decodes g) g w ops.
Proof. exact files_decode. Qed.
Print Assumptions C09_files_decode.

(* "the image object stays usable afterwards": in every history, after every successful save the saving
   image is still there and still denotes the data it had at that save (with fixes 29b7b6ce and 4923d550: an image
   whose own proxy reads the target file, or whose own array was mapped from it, is re-pointed to the data just
   written, its caches dropped).
   Side conditions: names of one file belong to one name family and the class table is idempotent [names_wf];
   proxy images, images built around a map, and files hold a class that fits their names [classes_ok] - true of every initial world and kept
   by every step; uint8 storage of data of both signs is excluded (MGH clips: the FILE does not hold the data). *)
Theorem C09_usable : forall g ops w,
  g_fix g = true -> g_viewfix g = true -> g_reshape_ok g = true -> g_repoint g = true -> g_maprepoint g = true ->
  names_wf g -> classes_ok g w ->
  r_all (usable g) g w ops.
Proof. exact usable_all. Qed.
Print Assumptions C09_usable.

Theorem C09_initial_worlds_classes_ok : forall g w,
  (forall s im, img_at w s = Some im -> exists v, i_src im = SArray v) ->
  (forall p c, file_at w (fid g p) = Some c -> g_tclass g (k_cls c) (pi_fmt (pinfo_of g p)) = k_cls c) ->
  classes_ok g w.
Proof. exact no_proxies_classes_ok. Qed.
Print Assumptions C09_initial_worlds_classes_ok.

(* the measured class table is idempotent; names of one file must be of one family (a condition on the name set) *)
Theorem C09_platform_names_wf : forall n paths fids fx sc mx ld,
  (forall p t, nth p fids p = nth t fids t -> pi_fmt (nth p paths (mkP Nii false)) = pi_fmt (nth t paths (mkP Nii false))) ->
  names_wf (platform_cfg n paths fids fx sc mx ld).
Proof. exact platform_names_wf. Qed.
Print Assumptions C09_platform_names_wf.

Definition w_one (d : dtype) : world := mkW [Some (mkK (Some 0%nat) d 0%nat 0%nat Nii)] [None; None] false.
(* an int16 file with preset scale factors (identity 1); the writers compute identity 2 for value 0 *)
Definition w_scaled : world := mkW [Some (mkK (Some 0%nat) I2 0%nat 1%nat Nii); None] [None; None] false.
Definition sc_tab : list (fmt * dtype * nat * nat) := [(Nii, I2, 0%nat, 2%nat); (Nii, U1, 0%nat, 3%nat); (Spm, I2, 0%nat, 4%nat)].
Definition g_one (n : Z) (fx : bool) : cfg := platform_cfg n [mkP Nii false] [0%nat] fx sc_tab false false.

(* the same configuration without the re-pointing of fix 29b7b6ce *)
Definition g_unrep (n : Z) : cfg :=
  mkCfg n platform_page [mkP Nii false] [0%nat] platform_off platform_foot platform_conv true sc_tab
        platform_nointer false false true false platform_tclass true false.

(* the repair matters (finding S-C09c, fixed by 29b7b6ce).  Without it: load a.nii, set_data_dtype(other
   width), save onto a.nii: the file is right, the image is not - narrower: its reads are refused (OSError);
   wider: they silently return garbage.  With it the same histories leave a usable image. *)
Theorem C09_unrepaired_refuted :
  (let w := fst (run (g_unrep 24) (w_one F8) [Load 0 0 true; SetDtype 0; Save 0 0]) in
   snd (run (g_unrep 24) (w_one F8) [Load 0 0 true; SetDtype 0; Save 0 0]) = [ODone; ODone; OSaved 0 (Some 0%nat) F4 0 0]
   /\ file_at w 0 = Some (mkK (Some 0%nat) F4 0%nat 0%nat Nii)
   /\ exists im, img_at w 0 = Some im /\ denote (g_unrep 24) (w_fs w) im = RRefused)
  /\
  (let w := fst (run (g_unrep 24) (w_one F4) [Load 0 0 true; SetDtype 0; Save 0 0]) in
   snd (run (g_unrep 24) (w_one F4) [Load 0 0 true; SetDtype 0; Save 0 0]) = [ODone; ODone; OSaved 0 (Some 0%nat) F8 0 0]
   /\ exists im, img_at w 0 = Some im /\ denote (g_unrep 24) (w_fs w) im = RVal None)
  /\
  (* no dtype change at all: load a scaled int16 file and save it onto itself - the writer re-scales, the
     image keeps the old factors and silently decodes garbage *)
  (let w := fst (run (g_unrep 24) w_scaled [Load 0 0 true; Save 0 0]) in
   snd (run (g_unrep 24) w_scaled [Load 0 0 true; Save 0 0]) = [ODone; OSaved 0 (Some 0%nat) I2 0 2]
   /\ exists im, img_at w 0 = Some im /\ denote (g_unrep 24) (w_fs w) im = RVal None)
  /\
  (* with the repair: usable in all three, and reads afterwards give the data *)
  snd (run (g_one 24 true) (w_one F8) [Load 0 0 true; SetDtype 0; Save 0 0; Fdata 0])
    = [ODone; ODone; OSaved 0 (Some 0%nat) F4 0 0; OVal (Some 0%nat)]
  /\ snd (run (g_one 24 true) (w_one F4) [Load 0 0 true; SetDtype 0; Save 0 0; Fdata 0])
    = [ODone; ODone; OSaved 0 (Some 0%nat) F8 0 0; OVal (Some 0%nat)]
  /\ snd (run (g_one 24 true) w_scaled [Load 0 0 true; Save 0 0; Fdata 0; Save 0 1])
    = [ODone; OSaved 0 (Some 0%nat) I2 0 2; OVal (Some 0%nat); OSaved 1 (Some 0%nat) I2 0 2].
Proof.
  split; [|split; [|split]]; [| | |vm_compute; repeat split]; vm_compute; repeat split; eexists; split; reflexivity.
Qed.
Print Assumptions C09_unrepaired_refuted.

(* "no step of the history crashes" is false of the faithful model: C09_no_crash_refuted (S-C09b, inherent to
   mmap).  Exactly: [affected g w ops] is a decidable (boolean, computed) predicate on the history - at some
   step an unrecognised view of a map of the target is saved (impossible since 9bb93cff: S-C09d), or a
   live memory map (a cached get_fdata result, or the array an image was built around) loses its backing because
   a save has made its file shorter than the map (S-C09b).  Every history that is NOT affected has no Crash
   step at all ... *)
Theorem C09_no_crash : forall g, g_fix g = true ->
  forall ops w, backed g w -> affected g w ops = false -> ~ In OCrash (snd (run g w ops)).
Proof. exact no_crash_unaffected. Qed.
Print Assumptions C09_no_crash.

(* ... and the S-C09b part is tight: at the very step at which a live map loses its backing, one more
   operation on the image holding it - get_fdata, or building an image around its array - kills the process *)
Theorem C09_affected_is_real : forall g w o, g_fix g = true -> backed g w -> risky_op g w o = false -> w_dead w = false ->
  unbackedb g (fst (step g w o)) = true ->
  exists s, snd (step g (fst (step g w o)) (Fdata s)) = OCrash
            \/ snd (step g (fst (step g w o)) (Wrap s s WAny)) = OCrash.
Proof. exact affected_is_real. Qed.
Print Assumptions C09_affected_is_real.

(* a world of in-memory array images without caches (every initial world) has no live map at all *)
Theorem C09_initial_worlds_backed : forall g w, no_maps w -> backed g w.
Proof. exact no_maps_backed. Qed.
Print Assumptions C09_initial_worlds_backed.

(* S-C09b on the platform's tables, 2048 voxels (16 KiB as float64): a DIFFERENT image object saves a
   shorter file over a.nii while the first image's cache is a map of it.  The SAME image doing so is safe
   since 29b7b6ce (its caches are dropped when it is re-pointed); it crashed before (g_unrep) *)
Theorem C09_no_crash_refuted :
  no_maps (w_one F8)
  /\ affected (g_one 2048 true) (w_one F8) [Load 0 0 true; Fdata 0; Load 1 0 true; SetDtype 1; Save 1 0] = true
  /\ affected (g_one 2048 true) (w_one F8) [Load 0 0 true; Fdata 0; SetDtype 0; Save 0 0; Fdata 0] = false
  /\ snd (run (g_one 2048 true) (w_one F8) [Load 0 0 true; Fdata 0; Load 1 0 true; SetDtype 1; Save 1 0; Fdata 0])
     = [ODone; OVal (Some 0%nat); ODone; ODone; OSaved 0 (Some 0%nat) F4 0 0; OCrash]
  /\ snd (run (g_one 2048 true) (w_one F8) [Load 0 0 true; Fdata 0; SetDtype 0; Save 0 0; Fdata 0])
     = [ODone; OVal (Some 0%nat); ODone; OSaved 0 (Some 0%nat) F4 0 0; OVal (Some 0%nat)]
  /\ snd (run (g_unrep 2048) (w_one F8) [Load 0 0 true; Fdata 0; SetDtype 0; Save 0 0; Fdata 0])
     = [ODone; OVal (Some 0%nat); ODone; OSaved 0 (Some 0%nat) F4 0 0; OCrash]
  /\ (* inside one page the other-image history ends in silently different values instead *)
     snd (run (g_one 24 true) (w_one F8) [Load 0 0 true; Fdata 0; Load 1 0 true; SetDtype 1; Save 1 0; Fdata 0])
     = [ODone; OVal (Some 0%nat); ODone; ODone; OSaved 0 (Some 0%nat) F4 0 0; OVal None].
Proof.
  split; [|vm_compute; repeat split].
  intros s im H. destruct s as [|[|s]]; vm_compute in H; try discriminate; destruct s; discriminate.
Qed.
Print Assumptions C09_no_crash_refuted.

(* the same configuration before fix 9bb93cff: unmap_if_target recognises only np.memmap instances with a filename *)
Definition g_noview (n : Z) : cfg :=
  mkCfg n platform_page [mkP Nii false] [0%nat] platform_off platform_foot platform_conv true sc_tab
        platform_nointer false false true true platform_tclass false true.

(* a NEW image object of the same class built around an array of a loaded image.  np.asanyarray(img.dataobj) and
   img.get_fdata() (float64 file) are np.memmap instances, np.asarray(img.dataobj) is a base-class VIEW of the map:
   all are copied before the target is truncated, the save onto the mapped file is safe.  The repair matters
   (finding S-C09d, fixed by 9bb93cff): before it the view was not recognised and the save died (data beyond a
   page) or wrote zeros.  Since 4923d550 the saver then holds the copy that was written (C09_map_saver_refuted
   shows the behaviour before); an image whose own array is a map of a file that ANOTHER image rewrites stays at
   the mercy of that file (S-C09b) *)
Theorem C09_view_of_map_refuted :
  snd (run (g_one 2048 true) (w_one F8) [Load 0 0 true; Wrap 0 1 WAny; Save 1 0; Fdata 1])
    = [ODone; ODone; OSaved 0 (Some 0%nat) F8 0 0; OVal (Some 0%nat)]
  /\ snd (run (g_one 2048 true) (w_one F8) [Load 0 0 true; Wrap 0 1 WFdata; Save 1 0; Fdata 1])
    = [ODone; ODone; OSaved 0 (Some 0%nat) F8 0 0; OVal (Some 0%nat)]
  /\ snd (run (g_one 2048 true) (w_one F8) [Load 0 0 true; Wrap 0 1 WView; Save 1 0; Fdata 1])
    = [ODone; ODone; OSaved 0 (Some 0%nat) F8 0 0; OVal (Some 0%nat)]
  /\ affected (g_one 2048 true) (w_one F8) [Load 0 0 true; Wrap 0 1 WView; Save 1 0; Fdata 1] = false
  /\ snd (run (g_noview 2048) (w_one F8) [Load 0 0 true; Wrap 0 1 WView; Save 1 0]) = [ODone; ODone; OCrash]
  /\ snd (run (g_noview 24) (w_one F8) [Load 0 0 true; Wrap 0 1 WView; Save 1 0]) = [ODone; ODone; OSaved 0 None F8 0 0]
  /\ affected (g_noview 24) (w_one F8) [Load 0 0 true; Wrap 0 1 WView; Save 1 0] = true
  /\ snd (run (g_one 2048 true) (w_one F8) [Load 0 0 true; Wrap 0 1 WAny; SetDtype 1; Save 1 0; Fdata 1])
    = [ODone; ODone; ODone; OSaved 0 (Some 0%nat) F4 0 0; OVal (Some 0%nat)]
  /\ affected (g_one 2048 true) (w_one F8) [Load 0 0 true; Wrap 0 1 WAny; SetDtype 1; Save 1 0] = false
  /\ affected (g_one 2048 true) (w_one F8) [Load 0 0 true; Wrap 0 1 WAny; Save 1 0; Fdata 1] = false.
Proof. vm_compute. repeat split. Qed.
Print Assumptions C09_view_of_map_refuted.

(* the same configuration before fix 4923d550: the copy made by unmap_if_target is written and dropped *)
Definition g_nomaprep (n : Z) : cfg :=
  mkCfg n platform_page [mkP Nii false] [0%nat] platform_off platform_foot platform_conv true sc_tab
        platform_nointer false false true true platform_tclass true false.

(* the repair matters (finding S-C09e, fixed by 4923d550): an image built around a memory map of a file and saved
   onto that file with a narrower dtype got a correct file but kept the map as its array - reading it afterwards died
   (data beyond a page) or gave garbage; and it is S-C09b when ANOTHER image does the rewriting (both cfgs) *)
Theorem C09_map_saver_refuted :
  snd (run (g_nomaprep 2048) (w_one F8) [Load 0 0 true; Wrap 0 1 WAny; SetDtype 1; Save 1 0; Fdata 1])
    = [ODone; ODone; ODone; OSaved 0 (Some 0%nat) F4 0 0; OCrash]
  /\ snd (run (g_nomaprep 24) (w_one F8) [Load 0 0 true; Wrap 0 1 WFdata; SetDtype 1; Save 1 0; Fdata 1; Save 1 0])
    = [ODone; ODone; ODone; OSaved 0 (Some 0%nat) F4 0 0; OVal None; OSaved 0 None F4 0 0]
  /\ affected (g_nomaprep 2048) (w_one F8) [Load 0 0 true; Wrap 0 1 WAny; SetDtype 1; Save 1 0] = true
  /\ snd (run (g_one 24 true) (w_one F8) [Load 0 0 true; Wrap 0 1 WFdata; SetDtype 1; Save 1 0; Fdata 1; Save 1 0])
    = [ODone; ODone; ODone; OSaved 0 (Some 0%nat) F4 0 0; OVal (Some 0%nat); OSaved 0 (Some 0%nat) F4 0 0]
  /\ snd (run (g_one 2048 true) (w_one F8) [Load 0 0 true; Wrap 0 1 WAny; Load 0 0 true; SetDtype 0; Save 0 0; Fdata 1])
    = [ODone; ODone; ODone; ODone; OSaved 0 (Some 0%nat) F4 0 0; OCrash]
  /\ affected (g_one 2048 true) (w_one F8) [Load 0 0 true; Wrap 0 1 WAny; Load 0 0 true; SetDtype 0; Save 0 0] = true.
Proof. vm_compute. repeat split. Qed.
Print Assumptions C09_map_saver_refuted.

(* the fix matters: without unmap_if_target, save(load(p), p) crashes (data beyond the first
   page) or writes garbage (data inside it) - finding S-C09a, repaired by 0c06baeb *)
Theorem C09_unfixed_refuted :
  snd (run (g_one 2048 false) (w_one F8) [Load 0 0 true; Save 0 0]) = [ODone; OCrash]
  /\ snd (run (g_one 24 false) (w_one F8) [Load 0 0 true; Save 0 0]) = [ODone; OSaved 0 None F8 0 0]
  /\ snd (run (g_one 2048 true) (w_one F8) [Load 0 0 true; Save 0 0]) = [ODone; OSaved 0 (Some 0%nat) F8 0 0].
Proof. vm_compute. repeat split. Qed.
Print Assumptions C09_unfixed_refuted.

(* one file under two names (a.nii and a symbolic or hard link to it): loading through one name
   and saving onto the other is saving onto the mapped file itself - safe with the fix (the
   comparison is by file identity), S-C09a again without it *)
Theorem C09_other_name_same_file :
  let g fx := platform_cfg 2048 [mkP Nii false; mkP Nii false] [0%nat; 0%nat] fx [] false false in
  snd (run (g true) (w_one F8) [Load 0 0 true; Save 0 1; Fdata 0; Load 1 1 true; Save 1 0; Fdata 1])
  = [ODone; OSaved 1 (Some 0%nat) F8 0 0; OVal (Some 0%nat); ODone; OSaved 0 (Some 0%nat) F8 0 0; OVal (Some 0%nat)]
  /\ snd (run (g false) (w_one F8) [Load 0 0 true; Save 0 1]) = [ODone; OCrash].
Proof. vm_compute. repeat split. Qed.
Print Assumptions C09_other_name_same_file.

(* a save that the array writer refuses (uint8 storage of data of both signs in a class without intercept)
   and a save that fails with ENOSPC change nothing at all; MGHImage's padding of images with fewer than
   three axes goes through ArrayProxy.reshape, which must keep the scale factors *)
Theorem C09_refusals_and_reshape :
  (let g := platform_cfg 24 [mkP Spm false; mkP Spm false] [0%nat; 1%nat] true sc_tab true false in
   let w := mkW [Some (mkK (Some 0%nat) F8 0%nat 0%nat Spm); Some (mkK (Some 1%nat) F8 1%nat 0%nat Spm)] [None; None] false in
   run g w [Load 0 0 true; SaveU8 0 0; SaveU8 0 1; SaveFull 0]
   = (fst (run g w [Load 0 0 true]), [ODone; ORefused EWriter; ORefused EWriter; ORefused ENoSpace]))
  /\
  (let g ok := mkCfg 24 platform_page [mkP Nii false; mkP Mgh false] [0%nat; 1%nat] platform_off platform_foot
                     platform_conv true sc_tab platform_nointer false true ok true platform_tclass true true in
   snd (run (g true) w_scaled [Load 0 0 true; Save 0 1]) = [ODone; OSaved 1 (Some 0%nat) F4 0 0]
   /\ snd (run (g false) w_scaled [Load 0 0 true; Save 0 1]) = [ODone; OSaved 1 None F4 0 0]).
Proof. vm_compute. repeat split. Qed.
Print Assumptions C09_refusals_and_reshape.

(* non-vacuity: an unaffected history with loads, cached maps, saves onto the own file, onto the
   other file and back, over two NIfTI files *)
Example C09_nonvacuous :
  let g := platform_cfg 2048 [mkP Nii false; mkP Nii false] [0%nat; 1%nat] true sc_tab false false in
  let w := mkW [Some (mkK (Some 0%nat) F8 0%nat 0%nat Nii); Some (mkK (Some 1%nat) F8 1%nat 0%nat Nii)] [None; None] false in
  let ops := [Load 0 0 true; Fdata 0; Save 0 0; Save 0 1; Load 1 1 true; Fdata 1; Save 1 0; Fdata 0; ToBytes 1;
              Uncache 1; SetInt 1; SaveFull 1; Save 1 1; Load 0 1 false; Fdata 0] in
  backed g w /\ affected g w ops = false
  /\ snd (run g w ops) = [ODone; OVal (Some 0%nat); OSaved 0 (Some 0%nat) F8 0 0; OSaved 1 (Some 0%nat) F8 0 0; ODone;
                          OVal (Some 0%nat); OSaved 0 (Some 0%nat) F8 0 0; OVal (Some 0%nat); OBytes (Some 0%nat) F8 0;
                          ODone; ODone; ORefused ENoSpace; OSaved 1 (Some 0%nat) I2 0 2; ODone; OVal (Some 0%nat)].
Proof.
  split; [|vm_compute; repeat split].
  apply no_maps_backed. intros s im H. destruct s as [|[|s]]; vm_compute in H; try discriminate; destruct s; discriminate.
Qed.
