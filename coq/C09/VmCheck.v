(* C09/VmCheck.v — definitions used only by the in-Coq cross-check of the extracted binary. *)
From Coq Require Import ZArith List Bool Arith.
From NV Require Import C09.Model.
Import ListNotations.

Definition optnat_eqb (a b : option nat) : bool :=
  match a, b with Some x, Some y => Nat.eqb x y | None, None => true | _, _ => false end.
Definition err_eqb (a b : err) : bool :=
  match a, b with
  | ENoImage, ENoImage | ENoFile, ENoFile | EShortRead, EShortRead | ENoConversion, ENoConversion
  | ENotSerializable, ENotSerializable | ENoSpace, ENoSpace | EWriter, EWriter | EClass, EClass => true
  | _, _ => false
  end.
Definition out_eqb (a b : out) : bool :=
  match a, b with
  | ODone, ODone | OCrash, OCrash | ODead, ODead => true
  | OVal v, OVal v' => optnat_eqb v v'
  | OSaved p v d x k, OSaved p' v' d' x' k' => Nat.eqb p p' && optnat_eqb v v' && dtype_eqb d d' && Nat.eqb x x' && Nat.eqb k k'
  | OBytes v d x, OBytes v' d' x' => optnat_eqb v v' && dtype_eqb d d' && Nat.eqb x x'
  | ORefused e, ORefused e' => err_eqb e e'
  | _, _ => false
  end.
Fixpoint outs_eqb (a b : list out) : bool :=
  match a, b with
  | [], [] => true
  | x :: a', y :: b' => out_eqb x y && outs_eqb a' b'
  | _, _ => false
  end.
Definition check_case (g : cfg) (w : world) (ops : list op) (want : list out) : bool :=
  outs_eqb (snd (run g w ops)) want.
