(* C09/Extract.v — extraction of the executable model (ExtrOcamlBasic only) *)
Require Extraction. Require ExtrOcamlBasic.
From NV Require Import C09.Model.
Extraction Language OCaml.
Extraction "c09_model.ml" step run denote.
