(* C04/LemmasF32.v — exact IEEE statement (Flocq): storing a binary64 value in a float32 header field
   and reading it back is exactly round-to-nearest-even to binary32, once; relative error <= 2^-24 in
   the normal range.  `narrow` (binary64 -> binary32, mode NE) stands for NumPy's float32 cast and is
   cross-checked against it on bit patterns by the harness on every run.  Uses the real-number axioms
   Flocq relies on (reported by Print Assumptions in Props.v). *)
From Coq Require Import ZArith Reals Lia Lra.
From Flocq Require Import Core.Core IEEE754.BinarySingleNaN IEEE754.Bits.
From Flocq Require Import Relative.
Open Scope Z_scope.

Definition b32 := BinarySingleNaN.binary_float 24 128.
Definition b64 := BinarySingleNaN.binary_float 53 1024.
Lemma P24 : Prec_gt_0 24. Proof. reflexivity. Qed.
Lemma P53 : Prec_gt_0 53. Proof. reflexivity. Qed.
Lemma M24 : Prec_lt_emax 24 128. Proof. reflexivity. Qed.
Lemma M53 : Prec_lt_emax 53 1024. Proof. reflexivity. Qed.

(* the IEEE conversion binary64 -> binary32, round to nearest even (what a NumPy float32 cast does) *)
Definition narrow (x : b64) : b32 :=
  match x with
  | B754_zero s => B754_zero s
  | B754_infinity s => B754_infinity s
  | B754_nan => B754_nan
  | B754_finite s m e _ => binary_normalize 24 128 P24 M24 mode_NE (cond_Zopp s (Zpos m)) e s
  end.
Definition widen (y : b32) : b64 :=
  match y with
  | B754_zero s => B754_zero s
  | B754_infinity s => B754_infinity s
  | B754_nan => B754_nan
  | B754_finite s m e _ => binary_normalize 53 1024 P53 M53 mode_NE (cond_Zopp s (Zpos m)) e s
  end.
Definition fexp32 := FLT_exp (-149) 24.
Definition fexp64 := FLT_exp (-1074) 53.
Lemma fexp32_eq : SpecFloat.fexp 24 128 = fexp32. Proof. reflexivity. Qed.
Lemma fexp64_eq : SpecFloat.fexp 53 1024 = fexp64. Proof. reflexivity. Qed.

Lemma narrow_correct (x : b64) :
  is_finite x = true ->
  (Rabs (round radix2 fexp32 ZnearestE (B2R x)) < bpow radix2 128)%R ->
  B2R (narrow x) = round radix2 fexp32 ZnearestE (B2R x) /\ is_finite (narrow x) = true.
Proof.
  destruct x as [s|s| |s m e Hb]; try discriminate; intros _ Hlt.
  - cbn. rewrite round_0; [split; reflexivity|apply valid_rnd_N].
  - unfold narrow.
    pose proof (binary_normalize_correct 24 128 P24 M24 mode_NE (cond_Zopp s (Zpos m)) e s) as C.
    cbv zeta in C. rewrite fexp32_eq in C.
    change (B2R (B754_finite s m e Hb)) with (F2R (Float radix2 (cond_Zopp s (Zpos m)) e)) in Hlt |- *.
    rewrite Rlt_bool_true in C by exact Hlt.
    destruct C as (C1 & C2 & _). split; assumption.
Qed.

Lemma fmt32_in_fmt64 r : generic_format radix2 fexp32 r -> generic_format radix2 fexp64 r.
Proof.
  intros G. apply generic_format_FLT. apply FLT_format_generic in G; [|reflexivity].
  destruct G as [f Hr Hm He]. exists f; [assumption| |lia].
  apply Z.lt_le_trans with (1 := Hm). apply (Zpower_le radix2). lia.
Qed.

Lemma widen_exact (y : b32) :
  is_finite y = true -> B2R (widen y) = B2R y /\ is_finite (widen y) = true.
Proof.
  destruct y as [s|s| |s m e Hb]; try discriminate; intros _.
  - split; reflexivity.
  - unfold widen.
    pose proof (binary_normalize_correct 53 1024 P53 M53 mode_NE (cond_Zopp s (Zpos m)) e s) as C.
    cbv zeta in C. rewrite fexp64_eq in C.
    change (F2R (Float radix2 (cond_Zopp s (Zpos m)) e)) with (B2R (B754_finite s m e Hb)) in C.
    assert (G : generic_format radix2 fexp64 (B2R (B754_finite s m e Hb))).
    { apply fmt32_in_fmt64. rewrite <- fexp32_eq. apply generic_format_B2R. }
    rewrite (round_generic radix2 fexp64 _ _ G) in C.
    rewrite Rlt_bool_true in C.
    + destruct C as (C1 & C2 & _). split; assumption.
    + apply Rlt_trans with (bpow radix2 128); [apply abs_B2R_lt_emax|apply bpow_lt; lia].
Qed.

Theorem sform_float32_exact (x : b64) :
  is_finite x = true ->
  (Rabs (round radix2 fexp32 ZnearestE (B2R x)) < bpow radix2 128)%R ->
  B2R (widen (narrow x)) = round radix2 fexp32 ZnearestE (B2R x)
  /\ is_finite (widen (narrow x)) = true
  /\ ((bpow radix2 (-126) <= Rabs (B2R x))%R ->
      (Rabs (B2R (widen (narrow x)) - B2R x) <= bpow radix2 (-24) * Rabs (B2R x))%R).
Proof.
  intros Hf Hlt. destruct (narrow_correct x Hf Hlt) as (N1 & N2).
  destruct (widen_exact (narrow x) N2) as (W1 & W2).
  split; [rewrite W1; exact N1|]. split; [exact W2|].
  intros Hn. rewrite W1, N1.
  pose proof (relative_error_N_FLT radix2 (-149) 24 ltac:(reflexivity) (fun z => negb (Z.even z)) (B2R x)) as E.
  replace (/ 2 * bpow radix2 (- (24) + 1))%R with (bpow radix2 (-24)) in E.
  - apply E. exact Hn.
  - change (bpow radix2 (-24)) with (/ IZR (Z.pow_pos 2 24))%R.
    change (bpow radix2 (- (24) + 1)) with (/ IZR (Z.pow_pos 2 23))%R.
    change (Z.pow_pos 2 24) with 16777216. change (Z.pow_pos 2 23) with 8388608. lra.
Qed.

Lemma round32_idempotent (y : b32) :
  is_finite y = true -> B2R (narrow (widen y)) = B2R y.
Proof.
  intros Hf. destruct (widen_exact y Hf) as (W1 & W2).
  assert (G : generic_format radix2 fexp32 (B2R y)) by (rewrite <- fexp32_eq; apply generic_format_B2R).
  destruct (narrow_correct (widen y) W2) as (N1 & _).
  - rewrite W1, (round_generic radix2 fexp32 _ _ G). apply abs_B2R_lt_emax.
  - rewrite N1, W1. apply round_generic; [apply valid_rnd_N|exact G].
Qed.

(* executable form on bit patterns, for the cross-check against NumPy *)
Definition sf_same (a b : SpecFloat.spec_float) : bool :=
  match a, b with
  | SpecFloat.S754_zero s, SpecFloat.S754_zero t => Bool.eqb s t
  | SpecFloat.S754_infinity s, SpecFloat.S754_infinity t => Bool.eqb s t
  | SpecFloat.S754_nan, SpecFloat.S754_nan => true
  | SpecFloat.S754_finite s m e, SpecFloat.S754_finite t n f => Bool.eqb s t && Pos.eqb m n && Z.eqb e f
  | _, _ => false
  end.
Definition narrow_bits_ok (bits64 bits32 : Z) : bool :=
  sf_same (B2SF (narrow (Binary.B2BSN 53 1024 (b64_of_bits bits64))))
          (B2SF (Binary.B2BSN 24 128 (b32_of_bits bits32))).
Definition widen_bits_ok (bits32 bits64 : Z) : bool :=
  sf_same (B2SF (widen (Binary.B2BSN 24 128 (b32_of_bits bits32))))
          (B2SF (Binary.B2BSN 53 1024 (b64_of_bits bits64))).
Example narrow_bits_example : narrow_bits_ok 4591870180066957722 1036831949 = true
                              /\ widen_bits_ok 1036831949 4591870180174331904 = true.
Proof. split; vm_compute; reflexivity. Qed.
