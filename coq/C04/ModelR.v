(* C04/ModelR.v — IDEAL ARITHMETIC model (Coq R) of the numeric kernels of the affine
   pipeline.  Definitions only.  NOT extracted: the float layer of these functions is
   modelled, not verified; the harness compares the implementation with a stated tolerance.
   Counterparts in /repo/nibabel:
     quaternions.py  fillpositive (with its w2 threshold), quat2mat (with its Nq < FLOAT_EPS
                     branch), mat2quat (K matrix, sign normalisation; eigh is an oracle)
     nifti1.py       Nifti1Header.set_qform (zooms, det sign -> qfac, polar factor is an
                     oracle) / get_qform
     freesurfer/mghformat.py  MGHImage._affine2header / MGHHeader.get_affine *)
From Coq Require Import Reals.
Open Scope R_scope.

Record V3 := mk3 { v1 : R; v2 : R; v3 : R }.
Record M3 := mkM { m11 : R; m12 : R; m13 : R;
                   m21 : R; m22 : R; m23 : R;
                   m31 : R; m32 : R; m33 : R }.
Record Qt := mkQt { qw : R; qx : R; qy : R; qz : R }.
Record Aff := mkAff { lin : M3; tr : V3 }.       (* [lin | tr ; 0 0 0 1] *)

Definition I3 : M3 := mkM 1 0 0 0 1 0 0 0 1.
Definition transpose (M : M3) : M3 :=
  mkM (m11 M) (m21 M) (m31 M) (m12 M) (m22 M) (m32 M) (m13 M) (m23 M) (m33 M).
Definition mmul (A B : M3) : M3 :=
  mkM (m11 A * m11 B + m12 A * m21 B + m13 A * m31 B)
      (m11 A * m12 B + m12 A * m22 B + m13 A * m32 B)
      (m11 A * m13 B + m12 A * m23 B + m13 A * m33 B)
      (m21 A * m11 B + m22 A * m21 B + m23 A * m31 B)
      (m21 A * m12 B + m22 A * m22 B + m23 A * m32 B)
      (m21 A * m13 B + m22 A * m23 B + m23 A * m33 B)
      (m31 A * m11 B + m32 A * m21 B + m33 A * m31 B)
      (m31 A * m12 B + m32 A * m22 B + m33 A * m32 B)
      (m31 A * m13 B + m32 A * m23 B + m33 A * m33 B).
Definition mvec (A : M3) (v : V3) : V3 :=
  mk3 (m11 A * v1 v + m12 A * v2 v + m13 A * v3 v)
      (m21 A * v1 v + m22 A * v2 v + m23 A * v3 v)
      (m31 A * v1 v + m32 A * v2 v + m33 A * v3 v).
Definition det (M : M3) : R :=
  m11 M * (m22 M * m33 M - m23 M * m32 M)
  - m12 M * (m21 M * m33 M - m23 M * m31 M)
  + m13 M * (m21 M * m32 M - m22 M * m31 M).
(* M * d with a length-3 d broadcast along the last axis: column j scaled by d_j *)
Definition scale_cols (M : M3) (d : V3) : M3 :=
  mkM (m11 M * v1 d) (m12 M * v2 d) (m13 M * v3 d)
      (m21 M * v1 d) (m22 M * v2 d) (m23 M * v3 d)
      (m31 M * v1 d) (m32 M * v2 d) (m33 M * v3 d).
Definition div_cols (M : M3) (d : V3) : M3 :=
  mkM (m11 M / v1 d) (m12 M / v2 d) (m13 M / v3 d)
      (m21 M / v1 d) (m22 M / v2 d) (m23 M / v3 d)
      (m31 M / v1 d) (m32 M / v2 d) (m33 M / v3 d).
Definition orthogonal (M : M3) : Prop := mmul (transpose M) M = I3.

(* np.sqrt(np.sum(RZS * RZS, axis=0)) *)
Definition col_norms (M : M3) : V3 :=
  mk3 (sqrt (m11 M * m11 M + m21 M * m21 M + m31 M * m31 M))
      (sqrt (m12 M * m12 M + m22 M * m22 M + m32 M * m32 M))
      (sqrt (m13 M * m13 M + m23 M * m23 M + m33 M * m33 M)).

(* ------------------------------------------------------------- quaternions.py *)
Definition qnorm2 (q : Qt) : R := qw q * qw q + qx q * qx q + qy q * qy q + qz q * qz q.
Definition qneg (q : Qt) : Qt := mkQt (- qw q) (- qx q) (- qy q) (- qz q).

(* fillpositive(xyz, w2_thresh); None = ValueError('w2 should be positive') *)
Definition fillpositive (thr : R) (x y z : R) : option Qt :=
  let w2 := 1 - (x * x + y * y + z * z) in
  if Rlt_dec (Rabs w2) (Rabs thr) then Some (mkQt 0 x y z)
  else if Rlt_dec w2 0 then None
  else Some (mkQt (sqrt w2) x y z).

(* quat2mat(q); feps = FLOAT_EPS *)
Definition quat2mat (feps : R) (q : Qt) : M3 :=
  let w := qw q in let x := qx q in let y := qy q in let z := qz q in
  let Nq := w * w + x * x + y * y + z * z in
  if Rlt_dec Nq feps then I3
  else
    let s := 2 / Nq in
    let X := x * s in let Y := y * s in let Z := z * s in
    let wX := w * X in let wY := w * Y in let wZ := w * Z in
    let xX := x * X in let xY := x * Y in let xZ := x * Z in
    let yY := y * Y in let yZ := y * Z in let zZ := z * Z in
    mkM (1 - (yY + zZ)) (xY - wZ) (xZ + wY)
        (xY + wZ) (1 - (xX + zZ)) (yZ - wX)
        (xZ - wY) (yZ + wX) (1 - (xX + yY)).

(* K of mat2quat applied to a quaternion: K is filled in its lower half and handed to
   eigh (which reads the lower triangle), so it stands for the symmetric matrix; rows and
   columns of K are in x,y,z,w order; the result is returned as a (w,x,y,z) record *)
Definition Kapply (M : M3) (q : Qt) : Qt :=
  let Qxx := m11 M in let Qyx := m12 M in let Qzx := m13 M in
  let Qxy := m21 M in let Qyy := m22 M in let Qzy := m23 M in
  let Qxz := m31 M in let Qyz := m32 M in let Qzz := m33 M in
  let k11 := (Qxx - Qyy - Qzz) / 3 in
  let k21 := (Qyx + Qxy) / 3 in let k22 := (Qyy - Qxx - Qzz) / 3 in
  let k31 := (Qzx + Qxz) / 3 in let k32 := (Qzy + Qyz) / 3 in let k33 := (Qzz - Qxx - Qyy) / 3 in
  let k41 := (Qyz - Qzy) / 3 in let k42 := (Qzx - Qxz) / 3 in let k43 := (Qxy - Qyx) / 3 in
  let k44 := (Qxx + Qyy + Qzz) / 3 in
  let x := qx q in let y := qy q in let z := qz q in let w := qw q in
  mkQt (k41 * x + k42 * y + k43 * z + k44 * w)
       (k11 * x + k21 * y + k31 * z + k41 * w)
       (k21 * x + k22 * y + k32 * z + k42 * w)
       (k31 * x + k32 * y + k33 * z + k43 * w).
Definition qdot (p q : Qt) : R := qw p * qw q + qx p * qx q + qy p * qy q + qz p * qz q.
Definition rayleigh (M : M3) (q : Qt) : R := qdot q (Kapply M q).

(* mat2quat: `eigmax M` is the eigenvector of the largest eigenvalue of K(M) that
   np.linalg.eigh returns, reordered to (w,x,y,z); then the sign is normalised *)
Definition mat2quat (eigmax : M3 -> Qt) (M : M3) : Qt :=
  let q := eigmax M in
  if Rlt_dec (qw q) 0 then qneg q else q.

(* q / sqrt(q @ q): set_qform stores a unit quaternion (normalised in MAX_FLOAT precision) *)
Definition qnormalize (q : Qt) : Qt :=
  let n := sqrt (qnorm2 q) in mkQt (qw q / n) (qx q / n) (qy q / n) (qz q / n).

(* ------------------------------------------------------------- nifti1.py qform *)
Record qhdr := mkQH { h_qfac : R; h_zooms : V3; h_b : R; h_c : R; h_d : R; h_off : V3 }.

Definition negcol3 (M : M3) : M3 :=
  mkM (m11 M) (m12 M) (- m13 M) (m21 M) (m22 M) (- m23 M) (m31 M) (m32 M) (- m33 M).

(* Nifti1Header.set_qform(affine): polar M = P.Qs of svd(M) *)
Definition set_qform_R (polar : M3 -> M3) (eigmax : M3 -> Qt) (A : Aff) : qhdr :=
  let zooms := col_norms (lin A) in
  let R0 := div_cols (lin A) zooms in
  let qfac := if Rlt_dec 0 (det R0) then 1 else -1 in
  let R1 := if Rlt_dec 0 (det R0) then R0 else negcol3 R0 in
  let q := qnormalize (mat2quat eigmax (polar R1)) in
  mkQH qfac zooms (qx q) (qy q) (qz q) (tr A).

(* Nifti1Header.get_qform(); None = ValueError / HeaderDataError *)
Definition get_qform_R (thr feps : R) (h : qhdr) : option Aff :=
  match fillpositive thr (h_b h) (h_c h) (h_d h) with
  | None => None
  | Some q =>
    let R0 := quat2mat feps q in
    let z := h_zooms h in
    if Rlt_dec (v1 z) 0 then None else if Rlt_dec (v2 z) 0 then None
    else if Rlt_dec (v3 z) 0 then None
    else if Req_EM_T (h_qfac h) 1 then Some (mkAff (scale_cols R0 (mk3 (v1 z) (v2 z) (v3 z * 1))) (h_off h))
    else if Req_EM_T (h_qfac h) (-1) then Some (mkAff (scale_cols R0 (mk3 (v1 z) (v2 z) (v3 z * -1))) (h_off h))
    else None
  end.

(* ------------------------------------------------------------- MGH *)
(* stored fields: delta, Mdc (hdr['Mdc'] = Mdc.T), Pxyz_c; dims as reals *)
Record mgh := mkMGH { g_delta : V3; g_MdcT : M3; g_Pc : V3; g_dims : V3 }.

(* MGHImage._affine2header, shape = dataobj.shape[:3] *)
Definition mgh_affine2header (A : Aff) (shape : V3) : mgh :=
  let vs := col_norms (lin A) in
  let Mdc := div_cols (lin A) vs in
  let half := mk3 (v1 shape / 2) (v2 shape / 2) (v3 shape / 2) in
  let c := mvec (lin A) half in
  mkMGH vs (transpose Mdc) (mk3 (v1 c + v1 (tr A)) (v2 c + v2 (tr A)) (v3 c + v3 (tr A))) shape.

(* MGHHeader.get_affine *)
Definition mgh_get_affine (h : mgh) : Aff :=
  let MdcD := scale_cols (transpose (g_MdcT h)) (g_delta h) in
  let vc := mvec MdcD (g_dims h) in
  mkAff MdcD (mk3 (v1 (g_Pc h) - v1 vc / 2) (v2 (g_Pc h) - v2 vc / 2) (v3 (g_Pc h) - v3 vc / 2)).
