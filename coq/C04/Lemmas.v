(* C04/Lemmas.v — proofs about the decision / codec / exact-rational model (no axioms). *)
From Coq Require Import ZArith List Bool Lia QArith Qabs Qfield.
From NV Require Import Base.Bytes C04.Tables C04.Model.
Import ListNotations.
Open Scope Z_scope.

(* ------------------------------------------------------------------ tables *)
Definition wf_tables (codes : list Z) (aligned unknown : Z) : bool :=
  existsb (Z.eqb aligned) codes && existsb (Z.eqb unknown) codes
  && negb (aligned =? 0) && (unknown =? 0).

Lemma tables_wf : wf_tables xform_code_values aligned_code unknown_code = true.
Proof. vm_compute; reflexivity. Qed.

Lemma widths_ok : (0 < n1_cw)%nat /\ (0 < n2_cw)%nat /\ (0 < n1_fw)%nat /\ (0 < n2_fw)%nat.
Proof. vm_compute; repeat split; lia. Qed.

(* ------------------------------------------------------------------ priority *)
Lemma best_src_table sc qc :
  (sc <> 0 -> best_src sc qc = SrcS)
  /\ (sc = 0 -> qc <> 0 -> best_src sc qc = SrcQ)
  /\ (sc = 0 -> qc = 0 -> best_src sc qc = SrcB).
Proof.
  unfold best_src; repeat split; intros.
  - destruct (sc =? 0) eqn:E; [apply Z.eqb_eq in E; contradiction|reflexivity].
  - subst; cbn. destruct (qc =? 0) eqn:E; [apply Z.eqb_eq in E; contradiction|reflexivity].
  - subst; reflexivity.
Qed.

Lemma best_affine_priority h :
  (sform_code h <> 0 -> get_best_affine h = BestS (srow h)
                        /\ get_sform_coded h = (Some (srow h), sform_code h))
  /\ (sform_code h = 0 -> qform_code h <> 0 ->
      get_best_affine h = BestQ (pixdim0 h) (pixdim h) (quat h) (qoff h)
      /\ get_sform_coded h = (None, 0)
      /\ get_qform_coded h = (Some (pixdim0 h, pixdim h, quat h, qoff h), qform_code h))
  /\ (sform_code h = 0 -> qform_code h = 0 ->
      get_best_affine h = BestB (dims h) (pixdim h)
      /\ get_sform_coded h = (None, 0) /\ get_qform_coded h = (None, 0)).
Proof.
  destruct (best_src_table (sform_code h) (qform_code h)) as (A & B & C).
  unfold get_best_affine, get_sform_coded, get_qform_coded.
  repeat split; intros.
  - rewrite A by assumption; reflexivity.
  - destruct (sform_code h =? 0) eqn:E; [apply Z.eqb_eq in E; contradiction|reflexivity].
  - rewrite B by assumption; reflexivity.
  - rewrite H; reflexivity.
  - destruct (qform_code h =? 0) eqn:E; [apply Z.eqb_eq in E; contradiction|reflexivity].
  - rewrite C by assumption; reflexivity.
  - rewrite H; reflexivity.
  - rewrite H0; reflexivity.
Qed.

(* ------------------------------------------------------------------ codec section *)
Section CodecLemmas.
  Variable codes : list Z.
  Variables aligned unknown : Z.
  Variable V : Type.
  Variable store : V -> Z.
  Variables vone vmone : V.
  Variable qnum_of : list V -> qnum V.
  Hypothesis WF : wf_tables codes aligned unknown = true.

  Let Hal : valid_code codes aligned = true /\ valid_code codes unknown = true
            /\ aligned <> 0 /\ unknown = 0.
  Proof.
    pose proof WF as W. unfold wf_tables in W.
    apply andb_prop in W; destruct W as [W W4].
    apply andb_prop in W; destruct W as [W W3].
    apply andb_prop in W; destruct W as [W1 W2].
    unfold valid_code. split; [exact W1|]. split; [exact W2|]. split.
    - intro E; rewrite E in W3; discriminate.
    - now apply Z.eqb_eq.
  Qed.

  Notation set_sform := (set_sform codes V store).
  Notation set_qform := (set_qform codes V store vone vmone qnum_of).
  Notation affine2header := (affine2header codes aligned unknown V store vone vmone qnum_of).
  Notation update_header := (update_header codes aligned unknown V store vone vmone qnum_of).
  Notation nifti_init := (nifti_init codes aligned unknown V store vone vmone qnum_of).
  Notation nifti_save_load := (nifti_save_load codes aligned unknown V store vone vmone qnum_of).

  (* code resolution: the documented table *)
  Lemma resolve_code_table old code has_aff :
    match code with
    | None => resolve_code codes old None has_aff
              = Some (if has_aff then (if old =? 0 then 2 else old) else 0)
    | Some c => (valid_code codes c = true -> resolve_code codes old (Some c) has_aff = Some c)
                /\ (valid_code codes c = false -> resolve_code codes old (Some c) has_aff = None)
    end.
  Proof.
    destruct code as [c|]; cbn.
    - split; intros E; rewrite E; reflexivity.
    - destruct has_aff; reflexivity.
  Qed.

  (* storing an affine in the sform: rows are the stored bit patterns, code as resolved, the
     qform fields, zooms and shape are untouched *)
  Lemma set_sform_spec h a code c :
    resolve_code codes (sform_code h) code true = Some c ->
    set_sform h (Some a) code
    = Some (mkN c (map store (firstn 12 a)) (qform_code h) (pixdim0 h) (pixdim h) (quat h) (qoff h) (dims h)).
  Proof. intros E. unfold Model.set_sform; cbn [isSome]. rewrite E. reflexivity. Qed.

  Lemma affine2header_spec h a :
    exists h', affine2header h a = Some h'
      /\ sform_code h' = aligned /\ qform_code h' = 0
      /\ srow h' = map store (firstn 12 a)
      /\ pixdim0 h' = store (if q_detpos (qnum_of a) then vone else vmone)
      /\ pixdim h' = map store (q_zooms (qnum_of a))
      /\ quat h' = map store (q_bcd (qnum_of a))
      /\ qoff h' = map store (trans V vone a)
      /\ dims h' = dims h.
  Proof.
    destruct Hal as (Ha & Hu & Hn & H0).
    unfold Model.affine2header, Model.set_sform, Model.set_qform, resolve_code; cbn [isSome].
    rewrite Ha. cbn [sform_code qform_code]. rewrite Hu.
    eexists; split; [reflexivity|]. cbn. repeat split; auto.
  Qed.

  Lemma affine2header_best h a :
    exists h', affine2header h a = Some h'
      /\ get_best_affine h' = BestS (map store (firstn 12 a))
      /\ get_sform_coded h' = (Some (map store (firstn 12 a)), aligned)
      /\ get_qform_coded h' = (None, 0).
  Proof.
    destruct (affine2header_spec h a) as (h' & E & Hs & Hq & Hr & _).
    destruct Hal as (_ & _ & Hn & _).
    exists h'; split; [assumption|].
    destruct (best_affine_priority h') as (A & _ & _).
    rewrite Hs in A. destruct (A Hn) as (A1 & A2). rewrite Hr in *.
    repeat split; try assumption.
    unfold get_qform_coded; rewrite Hq; reflexivity.
  Qed.

  (* update_header: not close => the image affine is written; close => header kept *)
  Lemma update_header_writes h shape a :
    exists h', update_header h shape (Some a) false = Some h'
      /\ get_best_affine h' = BestS (map store (firstn 12 a))
      /\ sform_code h' = aligned /\ qform_code h' = 0 /\ dims h' = shape.
  Proof.
    unfold Model.update_header.
    destruct (affine2header_spec (set_shape h shape) a) as (h' & E & Hs & Hq & Hr & _ & _ & _ & _ & Hd).
    destruct (affine2header_best (set_shape h shape) a) as (h'' & E' & Hb & _).
    rewrite E in E'; injection E' as <-.
    exists h'; repeat split; auto.
  Qed.

  Lemma update_header_shortcut h shape a :
    update_header h shape (Some a) true = Some (set_shape h shape).
  Proof. reflexivity. Qed.

  Lemma update_header_no_affine h shape c :
    update_header h shape None c = Some (set_shape h shape).
  Proof. reflexivity. Qed.

  Lemma best_S h rows : sform_code h <> 0 -> srow h = rows -> get_best_affine h = BestS rows.
  Proof. intros Hn <-. destruct (best_affine_priority h) as (A & _). apply A; assumption. Qed.

  (* whole save/load: no header supplied, or header supplied and the shortcut does not fire
     at construction: the loaded affine is the stored image affine, codes (aligned, 0) *)
  Lemma save_load_writes hdr dflt shape a c1 c2 :
    (hdr = None \/ c1 = false) ->
    exists h2, nifti_save_load hdr dflt shape a c1 c2 = Some (h2, BestS (map store (firstn 12 a)))
      /\ sform_code h2 = aligned /\ qform_code h2 = 0.
  Proof.
    intros Hc. unfold Model.nifti_save_load, Model.nifti_init.
    set (h0 := match hdr with Some h => h | None => dflt end).
    destruct Hal as (_ & _ & Hn & _).
    assert (exists h1, (match update_header h0 shape (Some a) c1 with
                        | Some h1 => match hdr, Some a with
                                     | None, Some a' => affine2header h1 a'
                                     | _, _ => Some h1 end
                        | None => None end) = Some h1
                       /\ srow h1 = map store (firstn 12 a)
                       /\ sform_code h1 = aligned /\ qform_code h1 = 0) as (h1 & E1 & B1 & S1 & Q1).
    { destruct hdr as [h|].
      - destruct Hc as [Hc|Hc]; [discriminate|subst c1].
        unfold Model.update_header.
        destruct (affine2header_spec (set_shape h0 shape) a) as (h1 & E & S & Q & R & _).
        rewrite E. exists h1; auto.
      - destruct c1.
        + rewrite update_header_shortcut.
          destruct (affine2header_spec (set_shape h0 shape) a) as (h1 & E & S & Q & R & _).
          rewrite E. exists h1; auto.
        + unfold Model.update_header.
          destruct (affine2header_spec (set_shape h0 shape) a) as (h1 & E & _).
          rewrite E.
          destruct (affine2header_spec h1 a) as (h1' & E2 & S2 & Q2 & R2 & _).
          rewrite E2. exists h1'; auto. }
    rewrite E1.
    destruct c2.
    - rewrite update_header_shortcut. exists (set_shape h1 shape). split; [|split; cbn; assumption].
      f_equal. f_equal. apply best_S; cbn; [rewrite S1; assumption|assumption].
    - unfold Model.update_header.
      destruct (affine2header_spec (set_shape h1 shape) a) as (h2 & E & S & Q & R & _).
      rewrite E. exists h2. split; [|split; assumption].
      f_equal. f_equal. apply best_S; [rewrite S; assumption|assumption].
  Qed.

  (* header supplied and the shortcut fires both times: the header's own transform is what
     is saved *)
  Lemma save_load_shortcut h dflt shape a :
    nifti_save_load (Some h) dflt shape a true true
    = Some (set_shape (set_shape h shape) shape, get_best_affine (set_shape (set_shape h shape) shape)).
  Proof. reflexivity. Qed.
End CodecLemmas.

(* the save step: update_header rewrites the header from the affine the image has at save
   time exactly when that affine is not allclose to the header's *)
Lemma save_step_decision has close :
  (update_decision has close = Rewrite <-> has = true /\ close = false)
  /\ (update_decision has close = Keep <-> has = false \/ close = true).
Proof. destruct has, close; cbn; repeat split; intros; try discriminate; intuition discriminate. Qed.

Lemma save_step_analyze (V : Type) (store : V -> Z) qnum_of h shape a close :
  analyze_update_header V store qnum_of h shape (Some a) close
  = match update_decision true close with
    | Keep => set_shape h shape
    | Rewrite => analyze_affine2header V store qnum_of (set_shape h shape) a
    end.
Proof. destruct close; reflexivity. Qed.

Lemma save_step_nifti codes aligned unknown (V : Type) (store : V -> Z) vone vmone qnum_of h shape a close :
  update_header codes aligned unknown V store vone vmone qnum_of h shape (Some a) close
  = match update_decision true close with
    | Keep => Some (set_shape h shape)
    | Rewrite => affine2header codes aligned unknown V store vone vmone qnum_of (set_shape h shape) a
    end.
Proof. destruct close; reflexivity. Qed.

(* ------------------------------------------------------------------ bytes *)
Lemma firstn_app_exact {A} (l r : list A) n : length l = n -> firstn n (l ++ r) = l.
Proof. intros <-. rewrite firstn_app, Nat.sub_diag, firstn_all. cbn. apply app_nil_r. Qed.
Lemma skipn_app_exact {A} (l r : list A) n : length l = n -> skipn n (l ++ r) = r.
Proof. intros <-. rewrite skipn_app, Nat.sub_diag, skipn_all. reflexivity. Qed.

Definition bits_ok (fw : nat) (l : list Z) : Prop := Forall (fun z => 0 <= z < pow256 fw) l.

Lemma chunks_flat_map be fw l rest :
  bits_ok fw l ->
  map (dec be) (chunks (length l) fw (flat_map (enc be fw) l ++ rest)) = l.
Proof.
  induction 1 as [|z l Hz Hl IH]; [reflexivity|].
  cbn [length flat_map chunks map]. rewrite <- app_assoc.
  rewrite firstn_app_exact, skipn_app_exact by apply enc_length.
  rewrite dec_enc by assumption. f_equal. apply IH.
Qed.

Definition wf_hdr (cw fw : nat) (h : nhdr) : Prop :=
  (0 < cw)%nat
  /\ - (pow256 cw / 2) <= sform_code h < pow256 cw / 2
  /\ - (pow256 cw / 2) <= qform_code h < pow256 cw / 2
  /\ length (srow h) = 12%nat /\ length (quat h) = 3%nat /\ length (qoff h) = 3%nat
  /\ length (pixdim h) = 3%nat
  /\ bits_ok fw (srow h) /\ bits_ok fw (quat h) /\ bits_ok fw (qoff h)
  /\ bits_ok fw (pixdim0 h :: pixdim h).

Lemma blocks_roundtrip be cw fw h :
  wf_hdr cw fw h ->
  read_blocks be cw fw (affine_block be cw fw h) (pixdim_block be fw h) (dims h) = h.
Proof.
  intros (Hcw & Hs & Hq & Ls & Lq & Lo & Lp & Bs & Bq & Bo & Bp).
  destruct h as [sc sr qc p0 pd qu qo dm];
    cbn [sform_code srow qform_code pixdim0 pixdim quat qoff dims] in *.
  unfold read_blocks, affine_block, pixdim_block;
    cbn [sform_code srow qform_code pixdim0 pixdim quat qoff dims].
  rewrite firstn_app_exact by (unfold enc_s; apply enc_length).
  rewrite skipn_app_exact by (unfold enc_s; apply enc_length).
  rewrite firstn_app_exact by (unfold enc_s; apply enc_length).
  rewrite skipn_app_exact by (unfold enc_s; apply enc_length).
  rewrite !dec_s_enc_s by assumption.
  assert (L18 : length (qu ++ qo ++ sr) = 18%nat)
    by (rewrite !app_length, Ls, Lq, Lo; reflexivity).
  assert (B18 : bits_ok fw (qu ++ qo ++ sr))
    by (unfold bits_ok in *; rewrite !Forall_app; auto).
  pose proof (chunks_flat_map be fw (qu ++ qo ++ sr) [] B18) as C.
  rewrite app_nil_r, L18 in C. rewrite C.
  assert (L4 : length (p0 :: pd) = 4%nat) by (cbn [length]; rewrite Lp; reflexivity).
  pose proof (chunks_flat_map be fw (p0 :: pd) [] Bp) as P.
  rewrite app_nil_r, L4 in P. rewrite P.
  cbn [nth]. change (skipn 1 (p0 :: pd)) with pd.
  f_equal.
  - rewrite app_assoc. apply skipn_app_exact. rewrite app_length, Lq, Lo; reflexivity.
  - apply firstn_app_exact; assumption.
  - rewrite skipn_app_exact by assumption. apply firstn_app_exact; assumption.
Qed.

(* sform: write the image affine, serialise, parse, read the values back *)
Section SformExact.
  Variable codes : list Z.
  Variable V : Type.
  Variable store : V -> Z.
  Variable fetch : Z -> V.

  Lemma sform_exact be cw fw h a code c h' :
    (forall v, 0 <= store v < pow256 fw) ->
    wf_hdr cw fw h -> - (pow256 cw / 2) <= c < pow256 cw / 2 ->
    length a = 12%nat ->
    resolve_code codes (sform_code h) code true = Some c ->
    set_sform codes V store h (Some a) code = Some h' ->
    let h'' := read_blocks be cw fw (affine_block be cw fw h') (pixdim_block be fw h') (dims h') in
    map fetch (srow h'') = map (fun v => fetch (store v)) a
    /\ sform_code h'' = c
    /\ (c <> 0 -> get_best_affine h'' = BestS (map store a)).
  Proof.
    intros Hst W Hc La Hr E. rewrite (set_sform_spec codes V store h a code c Hr) in E.
    assert (F : firstn 12 a = a) by (rewrite <- La; apply firstn_all).
    rewrite F in E. injection E as <-. cbv zeta.
    destruct W as (Hcw & Hs & Hq & Ls & Lq & Lo & Lp & Bs & Bq & Bo & Bp).
    rewrite blocks_roundtrip.
    2:{ unfold wf_hdr; cbn [sform_code srow qform_code pixdim0 pixdim quat qoff dims].
        repeat split; try assumption; try lia.
        - rewrite map_length. assumption.
        - apply Forall_forall. intros z Hz. apply in_map_iff in Hz. destruct Hz as (v & <- & _). apply Hst. }
    cbn [srow sform_code].
    rewrite map_map. repeat split.
    intros Hn. destruct (best_affine_priority
      (mkN c (map store a) (qform_code h) (pixdim0 h) (pixdim h) (quat h) (qoff h) (dims h))) as (A & _).
    apply A; assumption.
  Qed.
End SformExact.


Lemma sform_exact_nifti2 codes (V : Type) (store : V -> Z) (fetch : Z -> V) be cw fw h a code c h' :
  (forall v, fetch (store v) = v) ->
  (forall v, 0 <= store v < pow256 fw) ->
  wf_hdr cw fw h -> - (pow256 cw / 2) <= c < pow256 cw / 2 ->
  length a = 12%nat ->
  resolve_code codes (sform_code h) code true = Some c ->
  set_sform codes V store h (Some a) code = Some h' ->
  map fetch (srow (read_blocks be cw fw (affine_block be cw fw h') (pixdim_block be fw h') (dims h'))) = a.
Proof.
  intros Hid Hst W Hc La Hr E.
  destruct (sform_exact codes V store fetch be cw fw h a code c h' Hst W Hc La Hr E) as (R & _).
  rewrite R. rewrite <- (map_id a) at 2. apply map_ext. exact Hid.
Qed.

Lemma update_header_summary codes aligned unknown (V : Type) (store : V -> Z) vone vmone qnum_of :
  wf_tables codes aligned unknown = true ->
  (forall h shape a,
     exists h', update_header codes aligned unknown V store vone vmone qnum_of h shape (Some a) false = Some h'
       /\ get_best_affine h' = BestS (map store (firstn 12 a))
       /\ sform_code h' = aligned /\ qform_code h' = 0 /\ dims h' = shape)
  /\ (forall h shape a,
        update_header codes aligned unknown V store vone vmone qnum_of h shape (Some a) true
        = Some (set_shape h shape))
  /\ (forall hdr dflt shape a c1 c2,
        (hdr = None \/ c1 = false) ->
        exists h2, nifti_save_load codes aligned unknown V store vone vmone qnum_of hdr dflt shape a c1 c2
                   = Some (h2, BestS (map store (firstn 12 a)))
          /\ sform_code h2 = aligned /\ qform_code h2 = 0).
Proof.
  intros WF. split; [|split].
  - exact (update_header_writes codes aligned unknown V store vone vmone qnum_of WF).
  - exact (update_header_shortcut codes aligned unknown V store vone vmone qnum_of).
  - exact (save_load_writes codes aligned unknown V store vone vmone qnum_of WF).
Qed.

(* ------------------------------------------------------------------ S-C04a witness *)
(* integer-valued instance: V = Z, values are the integers themselves, stored as is *)
Definition rtol_w : Q := 1 # 100000.
Definition atol_w : Q := 1 # 100000000.
Definition hdr_w : nhdr :=
  mkN 1 [1;0;0;100000; 0;1;0;0; 0;0;1;0] 0 1 [1;1;1] [0;0;0] [0;0;0] [2;3;4].
Definition aff_w : list Z := [1;0;0;100001; 0;1;0;0; 0;0;1;0].
Definition qnum_w (a : list Z) : qnum Z := mkQ true [1;1;1] [0;0;0].

Lemma shortcut_deviation :
  let close := allclose rtol_w atol_w (map inject_Z aff_w) (map inject_Z (srow hdr_w)) in
  close = true
  /\ aff_w <> srow hdr_w
  /\ exists h2 rows,
      nifti_save_load xform_code_values aligned_code unknown_code Z (fun z => z) 1 (-1) qnum_w
                      (Some hdr_w) hdr_w [2;3;4] aff_w close close = Some (h2, BestS rows)
      /\ rows <> map (fun z => z) aff_w.
Proof.
  cbv zeta. split; [vm_compute; reflexivity|]. split; [discriminate|].
  eexists; eexists. split; [vm_compute; reflexivity|]. discriminate.
Qed.

(* ------------------------------------------------------------------ exact-rational parts *)
Open Scope Q_scope.

Definition Qlist_eq (a b : list Q) : Prop := Forall2 Qeq a b.

Ltac f2split := cbv zeta; repeat first [apply Forall2_nil | apply Forall2_cons].
Ltac list12 a H :=
  do 12 (destruct a as [|? a]; [discriminate H|]); destruct a; [|discriminate H].

Lemma spm_roundtrip_mat flip a :
  length a = 12%nat ->
  exists r, spm_read flip MatMat (fst (spm_write flip a)) (snd (spm_write flip a)) = Some r
            /\ Qlist_eq r a.
Proof.
  intros H. list12 a H. eexists; split; [reflexivity|].
  unfold Qlist_eq, spm_write, shift111, qnth; cbn [nth snd fst].
  f2split; cbn [nth]; try reflexivity; field.
Qed.

Lemma spm_roundtrip_M flip a :
  length a = 12%nat ->
  exists r, spm_read flip MatM (fst (spm_write flip a)) [] = Some r /\ Qlist_eq r a.
Proof.
  intros H. list12 a H. eexists; split; [reflexivity|].
  destruct flip; unfold Qlist_eq, spm_write, shift111, flipx, qnth; cbn [nth fst snd];
    f2split; cbn [nth]; try reflexivity; field.
Qed.

Lemma spm_choice_table empty has_mat has_M :
  spm_mat_choice empty has_mat has_M =
  if empty then MatKeep else if has_mat then MatMat else if has_M then MatM else MatErr.
Proof. reflexivity. Qed.

(* plain Analyze: the fallback affine carries the zooms (x negated when flipped) on its
   diagonal and maps the centre voxel to the origin *)
Lemma fallback_zooms s0 s1 s2 srest z0 z1 z2 zrest flip :
  length srest = length zrest ->
  exists a, shape_zoom_affine (s0 :: s1 :: s2 :: srest) (z0 :: z1 :: z2 :: zrest) flip = Some a
    /\ Qlist_eq a [ (if flip then - z0 else z0); 0; 0; - ((inject_Z s0 - 1) / 2) * (if flip then - z0 else z0);
                    0; z1; 0; - ((inject_Z s1 - 1) / 2) * z1;
                    0; 0; z2; - ((inject_Z s2 - 1) / 2) * z2 ].
Proof.
  intros L. unfold shape_zoom_affine. cbn [length]. rewrite L, Nat.eqb_refl. cbn [negb].
  eexists; split; [reflexivity|].
  unfold Qlist_eq, pad3, qnth; cbn [app firstn nth]. destruct flip; f2split; reflexivity.
Qed.

Lemma fallback_centre s0 s1 s2 z0 z1 z2 flip a :
  shape_zoom_affine [s0; s1; s2] [z0; z1; z2] flip = Some a ->
  let c i := (inject_Z (nth i [s0; s1; s2] 0%Z) - 1) / 2 in
  qnth a 0 * c 0%nat + qnth a 1 * c 1%nat + qnth a 2 * c 2%nat + qnth a 3 == 0
  /\ qnth a 4 * c 0%nat + qnth a 5 * c 1%nat + qnth a 6 * c 2%nat + qnth a 7 == 0
  /\ qnth a 8 * c 0%nat + qnth a 9 * c 1%nat + qnth a 10 * c 2%nat + qnth a 11 == 0.
Proof.
  unfold shape_zoom_affine. cbn. intros E; injection E as <-.
  unfold qnth; cbn [nth]. destruct flip; repeat split; field.
Qed.


Lemma spm_mat_roundtrip flip a : length a = 12%nat ->
  (exists r, spm_read flip MatMat (fst (spm_write flip a)) (snd (spm_write flip a)) = Some r /\ Qlist_eq r a)
  /\ (exists r, spm_read flip MatM (fst (spm_write flip a)) [] = Some r /\ Qlist_eq r a).
Proof. intros H. split; [exact (spm_roundtrip_mat flip a H)|exact (spm_roundtrip_M flip a H)]. Qed.

(* ------------------------------------------------------------------ non-vacuity instance *)
Open Scope Z_scope.
Definition hdr_nv : nhdr :=
  mkN 1 [1065353216;0;0;3266576384; 0;1073741824;0;1123876864; 0;0;1077936128;3264249856]
      3 3212836864 [1065353216;1073741824;1077936128] [0;1060439283;0] [3266576384;1123876864;3264249856]
      [2;3;4].

Ltac forall_bits := repeat (apply Forall_cons; [vm_compute; split; [intro; discriminate|reflexivity]|]); apply Forall_nil.

Lemma nonvacuous_hdr :
  wf_hdr 2 4 hdr_nv
  /\ read_blocks true 2 4 (affine_block true 2 4 hdr_nv) (pixdim_block true 4 hdr_nv) (dims hdr_nv) = hdr_nv
  /\ get_best_affine hdr_nv = BestS (srow hdr_nv).
Proof.
  split; [|split; [vm_compute; reflexivity|reflexivity]].
  unfold wf_hdr, bits_ok, hdr_nv; cbn [sform_code qform_code srow quat qoff pixdim pixdim0].
  split; [lia|]. split; [vm_compute; split; [intro; discriminate|reflexivity]|]. split; [vm_compute; split; [intro; discriminate|reflexivity]|].
  split; [reflexivity|]. split; [reflexivity|]. split; [reflexivity|]. split; [reflexivity|].
  split; [forall_bits|]. split; [forall_bits|]. split; [forall_bits|]. forall_bits.
Qed.
