(* C04 driver body (after `open C04_model` and drvlib.ml).  Values V = Z (float64 bit
   patterns); header float fields = Z bit patterns of the field width; rationals "n/d".
   best <sc> <qc>
   code <old> <code|-> <has_aff>
   nifti <be> <ver> <hashdr> <sc> <qc> <srow12> <p0> <pix3> <quat3> <qoff3> <hdims> <shape>
         <c1> <c2> <A12> <tab> <detpos> <zooms3> <bcd3>
   hist <be> <ver> <sc> <qc> <srow12> <p0> <pix3> <quat3> <qoff3> <hdims> <tab> <affs> <ops>
        affs = A12|detpos|zooms3|bcd3;...   ops = q:code:idx,s:code:idx,... ('-' for None)
   analyze <hashdr> <pix3> <hdims> <shape> <c1> <c2> <A12> <tab> <zooms3>
   rblocks <be> <ver> <abhex> <pbhex>
   szaff <shape> <zooms q-list> <flip>
   spmorigin <flip> <dims3> <zooms q-list> <origin3>
   spmw <flip> <A12 q-list>
   spmr <flip> <empty> <has_mat> <has_M> <M q-list> <mat q-list>
   allclose <rtol> <atol> <a q-list> <b q-list>
   upd <has_affine> <close>
   coded <sc> <qc> <srow12> <p0> <pix3> <quat3> <qoff3> *)
let q_of_string (s : string) : q =
  match String.split_on_char '/' (String.trim s) with
  | [n; d] -> { qnum = z_of_string n; qden = pos_of_big (BigZ.of_string d) }
  | [n] -> { qnum = z_of_string n; qden = XH }
  | _ -> failwith "bad rational"
let string_of_q (x : q) : string = string_of_z x.qnum ^ "/" ^ BigZ.to_string (big_of_pos x.qden)
let qlist_of_string (s : string) : q list =
  let s = String.trim s in
  let s = if String.length s >= 2 && s.[0] = '[' then String.sub s 1 (String.length s - 2) else s in
  if String.trim s = "" then [] else List.map q_of_string (String.split_on_char ',' s)
let string_of_qlist (l : q list) : string = "[" ^ String.concat "," (List.map string_of_q l) ^ "]"
let rec pairs = function a :: b :: r -> (a, b) :: pairs r | _ -> []
let z_eq (a : z) (b : z) : bool = BigZ.equal (big_of_z a) (big_of_z b)
let lookup (tab : (z * z) list) (dflt : z -> z) (v : z) : z =
  let rec go = function [] -> dflt v | (k, x) :: r -> if z_eq k v then x else go r in go tab
let one_bits = z_of_string "4607182418800017408"       (* float64 1.0 *)
let mone_bits = z_of_string "13830554455654793216"     (* float64 -1.0 *)
let widths ver = if ver = "1" then (n1_cw, n1_fw) else (n2_cw, n2_fw)
let string_of_src = function SrcS -> "S" | SrcQ -> "Q" | SrcB -> "B"
let string_of_best = function
  | BestS r -> "S " ^ string_of_zlist r
  | BestQ (f, zs, b, o) -> "Q " ^ string_of_z f ^ " " ^ string_of_zlist zs ^ " " ^ string_of_zlist b ^ " " ^ string_of_zlist o
  | BestB (d, zs) -> "B " ^ string_of_zlist d ^ " " ^ string_of_zlist zs
let store_of ver tab =
  let t = pairs (zlist_of_string tab) in
  lookup t (fun v -> if ver = "2" then v else z_of_int (-1))
let handle op args = match op, args with
  | "best", [sc; qc] -> "ok " ^ string_of_src (best_src (z_of_string sc) (z_of_string qc))
  | "code", [old; code; ha] ->
    let c = if code = "-" then None else Some (z_of_string code) in
    (match resolve_code xform_code_values (z_of_string old) c (bool_of_string ha) with
     | Some c -> "ok " ^ string_of_z c | None -> "err key")
  | "nifti", [be; ver; hashdr; sc; qc; sr; p0; px; qu; qo; hd; shape; c1; c2; a; tab; dp; zs; bcd] ->
    let (cw, fw) = widths ver in
    let h = { sform_code = z_of_string sc; srow = zlist_of_string sr; qform_code = z_of_string qc;
              pixdim0 = z_of_string p0; pixdim = zlist_of_string px; quat = zlist_of_string qu;
              qoff = zlist_of_string qo; dims = zlist_of_string hd } in
    let store = store_of ver tab in
    let av = zlist_of_string a in
    let qn = { q_detpos = bool_of_string dp; q_zooms = zlist_of_string zs; q_bcd = zlist_of_string bcd } in
    let qnum_of x = if List.length x = List.length av && List.for_all2 z_eq x av then qn
                    else { q_detpos = true; q_zooms = []; q_bcd = [] } in
    (match nifti_save_load xform_code_values aligned_code unknown_code store one_bits mone_bits qnum_of
             (if bool_of_string hashdr then Some h else None) h (zlist_of_string shape) av
             (bool_of_string c1) (bool_of_string c2) with
     | None -> "err key"
     | Some (h2, b) ->
       "ok " ^ string_of_z h2.qform_code ^ " " ^ string_of_z h2.sform_code ^ " "
       ^ hex_of_bytes (affine_block (bool_of_string be) cw fw h2) ^ " "
       ^ hex_of_bytes (pixdim_block (bool_of_string be) fw h2) ^ " " ^ string_of_zlist h2.dims ^ " "
       ^ string_of_best b)
  | "hist", [be; ver; sc; qc; sr; p0; px; qu; qo; hd; tab; affs; ops] ->
    let (cw, fw) = widths ver in
    let h0 = { sform_code = z_of_string sc; srow = zlist_of_string sr; qform_code = z_of_string qc;
               pixdim0 = z_of_string p0; pixdim = zlist_of_string px; quat = zlist_of_string qu;
               qoff = zlist_of_string qo; dims = zlist_of_string hd } in
    let store = store_of ver tab in
    let al = List.map (fun t -> match String.split_on_char '|' t with
        | [a; dp; zs; bcd] -> (zlist_of_string a, { q_detpos = bool_of_string dp; q_zooms = zlist_of_string zs; q_bcd = zlist_of_string bcd })
        | _ -> failwith "bad aff") (List.filter (fun t -> t <> "") (String.split_on_char ';' affs)) in
    let same x y = List.length x = List.length y && List.for_all2 z_eq x y in
    let qnum_of x = let rec go = function [] -> { q_detpos = true; q_zooms = []; q_bcd = [] }
                                        | (a, n) :: r -> if same a x then n else go r in go al in
    let step h t = match h with None -> None | Some h ->
      (match String.split_on_char ':' t with
       | [k; c; i] ->
         let code = if c = "-" then None else Some (z_of_string c) in
         let aff = if i = "-" then None else Some (fst (List.nth al (int_of_string i))) in
         if k = "q" then set_qform xform_code_values store one_bits mone_bits qnum_of h aff code
         else set_sform xform_code_values store h aff code
       | _ -> failwith "bad op") in
    (match List.fold_left step (Some h0) (List.filter (fun t -> t <> "") (String.split_on_char ',' ops)) with
     | None -> "err key"
     | Some h2 ->
       "ok " ^ string_of_z h2.qform_code ^ " " ^ string_of_z h2.sform_code ^ " "
       ^ hex_of_bytes (affine_block (bool_of_string be) cw fw h2) ^ " "
       ^ hex_of_bytes (pixdim_block (bool_of_string be) fw h2) ^ " " ^ string_of_best (get_best_affine h2))
  | "analyze", [hashdr; px; hd; shape; c1; c2; a; tab; zs] ->
    let h = { sform_code = Z0; srow = []; qform_code = Z0; pixdim0 = Z0; pixdim = zlist_of_string px;
              quat = []; qoff = []; dims = zlist_of_string hd } in
    let store = store_of "1" tab in
    let av = zlist_of_string a in
    let qn = { q_detpos = true; q_zooms = zlist_of_string zs; q_bcd = [] } in
    let qnum_of x = if List.length x = List.length av && List.for_all2 z_eq x av then qn
                    else { q_detpos = true; q_zooms = []; q_bcd = [] } in
    let h2 = analyze_save_load store qnum_of (if bool_of_string hashdr then Some h else None) h
               (zlist_of_string shape) av (bool_of_string c1) (bool_of_string c2) in
    "ok " ^ string_of_zlist h2.pixdim ^ " " ^ string_of_zlist h2.dims
  | "rblocks", [be; ver; ab; pb] ->
    let (cw, fw) = widths ver in
    let h = read_blocks (bool_of_string be) cw fw (bytes_of_hex ab) (bytes_of_hex pb) [] in
    "ok " ^ string_of_z h.sform_code ^ " " ^ string_of_z h.qform_code ^ " " ^ string_of_z h.pixdim0 ^ " "
    ^ string_of_zlist h.pixdim ^ " " ^ string_of_zlist h.quat ^ " " ^ string_of_zlist h.qoff ^ " "
    ^ string_of_zlist h.srow ^ " " ^ string_of_best (get_best_affine h)
  | "szaff", [shape; zooms; flip] ->
    (match shape_zoom_affine (zlist_of_string shape) (qlist_of_string zooms) (bool_of_string flip) with
     | Some a -> "ok " ^ string_of_qlist a | None -> "err value")
  | "spmorigin", [flip; d3; zooms; o3] ->
    "ok " ^ string_of_bool (spm_origin_used (zlist_of_string d3) (zlist_of_string o3)) ^ " "
    ^ string_of_qlist (spm_origin_affine (bool_of_string flip) (zlist_of_string d3) (qlist_of_string zooms) (zlist_of_string o3))
  | "spmw", [flip; a] ->
    let (m, mat) = spm_write (bool_of_string flip) (qlist_of_string a) in
    "ok " ^ string_of_qlist m ^ " " ^ string_of_qlist mat
  | "spmr", [flip; empty; hm; hM; bigm; mat] ->
    let c = spm_mat_choice (bool_of_string empty) (bool_of_string hm) (bool_of_string hM) in
    (match c with
     | MatKeep -> "ok keep"
     | MatErr -> "err value"
     | _ -> (match spm_read (bool_of_string flip) c (qlist_of_string bigm) (qlist_of_string mat) with
             | Some a -> "ok " ^ (match c with MatMat -> "mat " | _ -> "M ") ^ string_of_qlist a
             | None -> "err driver:unreachable"))
  | "allclose", [rtol; atol; a; b] ->
    "ok " ^ string_of_bool (allclose (q_of_string rtol) (q_of_string atol) (qlist_of_string a) (qlist_of_string b))
  | "coded", [sc; qc; sr; p0; px; qu; qo] ->
    let h = { sform_code = z_of_string sc; srow = zlist_of_string sr; qform_code = z_of_string qc;
              pixdim0 = z_of_string p0; pixdim = zlist_of_string px; quat = zlist_of_string qu;
              qoff = zlist_of_string qo; dims = [] } in
    let (sa, scode) = get_sform_coded h in
    let (qa, qcode) = get_qform_coded h in
    "ok S:" ^ (match sa with None -> "none" | Some r -> "some" ^ string_of_zlist r) ^ ":" ^ string_of_z scode
    ^ " Q:" ^ (match qa with None -> "none"
               | Some (((f, zs), b), o) -> "some" ^ string_of_z f ^ string_of_zlist zs ^ string_of_zlist b ^ string_of_zlist o)
    ^ ":" ^ string_of_z qcode
  | "upd", [ha; cl] ->
    (match update_decision (bool_of_string ha) (bool_of_string cl) with Keep -> "ok keep" | Rewrite -> "ok rewrite")
  | _ -> "err driver:badop"
let () = run_lines handle
