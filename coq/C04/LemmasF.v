(* C04/LemmasF.v — exact IEEE binary64 witness (Flocq) for finding S-C04b: the translation of
   an SPM .mat round trip, (t - m) + m, is not t in float64.  Depends on the real-number axioms
   Flocq's definitions pull in (reported by Print Assumptions in Props.v). *)
From Coq Require Import ZArith.
From Flocq Require Import IEEE754.Binary IEEE754.Bits IEEE754.BinarySingleNaN.
Open Scope Z_scope.

(* to_file_map: column 3 of dot(mat, from_111) for a row [m, 0, 0 | t] is t - m (the zero
   entries contribute exact zeros in any summation order); from_file_map adds m back *)
Definition spm_t_write (t m : binary64) : binary64 := b64_plus mode_NE t (b64_opp m).
Definition spm_t_read (t' m : binary64) : binary64 := b64_plus mode_NE t' m.

Definition t_w : binary64 := b64_of_bits 4634392439000204109.   (* 66.67764386256495 *)
Definition m_w : binary64 := b64_of_bits 13830945749161806432.  (* -1.0868846121744795 *)

Lemma spm_float_witness :
  Binary.is_finite _ _ t_w = true /\ Binary.is_finite _ _ m_w = true
  /\ bits_of_b64 (spm_t_read (spm_t_write t_w m_w) m_w) = 4634392439000204108
  /\ bits_of_b64 t_w = 4634392439000204109.
Proof. repeat split; vm_compute; reflexivity. Qed.
