(* C04/Props.v — property theorems only.  Each is closed by `exact <lemma>` and followed by
   Print Assumptions.  Property C04: the voxel-to-world affine survives save/load to the
   format's precision.
   Three layers (DESIGN.md section 2, "Floats"):
   (1) decision / codec theorems over opaque float bit patterns — no axioms;
   (2) exact-rational (Q) theorems for the parts that are ring arithmetic — no axioms;
   (3) IDEAL ARITHMETIC theorems over Coq R for the rotation / quaternion / MGH algebra — they
       use the standard library's real-number axioms; the float layer is measured by the
       harness, not proved.  NumPy's svd and eigh appear as the functions `polar` and
       `eigmax` with explicit premises. *)
From Coq Require Import ZArith List Bool QArith Reals.
From Flocq Require Import Core.Core IEEE754.Binary IEEE754.Bits IEEE754.BinarySingleNaN.
From NV Require Import Base.Bytes C04.Tables C04.Model C04.ModelR C04.Lemmas C04.LemmasR C04.LemmasS C04.LemmasF C04.LemmasF32.
Import ListNotations.
Open Scope Z_scope.

(* ---------------------------------------------------------------- (1) decision / codec *)

(* complete decision table of get_best_affine and of the coded getters over
   (sform_code, qform_code) *)
Theorem C04_best_affine_priority : forall h,
  (sform_code h <> 0 -> get_best_affine h = BestS (srow h)
                        /\ get_sform_coded h = (Some (srow h), sform_code h))
  /\ (sform_code h = 0 -> qform_code h <> 0 ->
      get_best_affine h = BestQ (pixdim0 h) (pixdim h) (quat h) (qoff h)
      /\ get_sform_coded h = (None, 0)
      /\ get_qform_coded h = (Some (pixdim0 h, pixdim h, quat h, qoff h), qform_code h))
  /\ (sform_code h = 0 -> qform_code h = 0 ->
      get_best_affine h = BestB (dims h) (pixdim h)
      /\ get_sform_coded h = (None, 0) /\ get_qform_coded h = (None, 0)).
Proof. exact best_affine_priority. Qed.
Print Assumptions C04_best_affine_priority.

(* code argument of set_sform / set_qform, for any code table *)
Theorem C04_code_resolution : forall codes old code has_aff,
  match code with
  | None => resolve_code codes old None has_aff
            = Some (if has_aff then (if old =? 0 then 2 else old) else 0)
  | Some c => (valid_code codes c = true -> resolve_code codes old (Some c) has_aff = Some c)
              /\ (valid_code codes c = false -> resolve_code codes old (Some c) has_aff = None)
  end.
Proof. exact resolve_code_table. Qed.
Print Assumptions C04_code_resolution.

(* every affine-related header field survives serialisation to the header bytes and parsing,
   either byte order, either NIfTI layout (cw = code width, fw = float width) *)
Theorem C04_header_fields_roundtrip : forall be cw fw h,
  wf_hdr cw fw h ->
  read_blocks be cw fw (affine_block be cw fw h) (pixdim_block be fw h) (dims h) = h.
Proof. exact blocks_roundtrip. Qed.
Print Assumptions C04_header_fields_roundtrip.

(* storing A in the sform, writing the header bytes, parsing them and reading the values
   back gives fetch (store a) for every entry: the float32 rounding (NIfTI-1; store/fetch are
   opaque) applied exactly once; the code is the resolved one and, when it is not 0, the
   best affine is that sform *)
Theorem C04_sform_exact : forall codes (V : Type) (store : V -> Z) (fetch : Z -> V) be cw fw h a code c h',
  (forall v, 0 <= store v < pow256 fw) ->
  wf_hdr cw fw h -> - (pow256 cw / 2) <= c < pow256 cw / 2 ->
  length a = 12%nat ->
  resolve_code codes (sform_code h) code true = Some c ->
  set_sform codes V store h (Some a) code = Some h' ->
  let h'' := read_blocks be cw fw (affine_block be cw fw h') (pixdim_block be fw h') (dims h') in
  map fetch (srow h'') = map (fun v => fetch (store v)) a
  /\ sform_code h'' = c
  /\ (c <> 0 -> get_best_affine h'' = BestS (map store a)).
Proof. exact sform_exact. Qed.
Print Assumptions C04_sform_exact.

(* NIfTI-2: the field type is the value type, fetch (store v) = v, so the affine is exact *)
Theorem C04_sform_exact_nifti2 : forall codes (V : Type) (store : V -> Z) (fetch : Z -> V) be cw fw h a code c h',
  (forall v, fetch (store v) = v) ->
  (forall v, 0 <= store v < pow256 fw) ->
  wf_hdr cw fw h -> - (pow256 cw / 2) <= c < pow256 cw / 2 ->
  length a = 12%nat ->
  resolve_code codes (sform_code h) code true = Some c ->
  set_sform codes V store h (Some a) code = Some h' ->
  map fetch (srow (read_blocks be cw fw (affine_block be cw fw h') (pixdim_block be fw h') (dims h'))) = a.
Proof. exact sform_exact_nifti2. Qed.
Print Assumptions C04_sform_exact_nifti2.

(* update_header: when np.allclose(image affine, header best affine) is False the image
   affine is written (sform := store A, code aligned; qform code unknown = 0) and is the
   header's best affine; when it is True (the shortcut) the header is kept as it is.
   For every code table that is well formed (contains aligned and unknown, aligned <> 0,
   unknown = 0) — instantiated by tables_wf for the table generated from /repo. *)
Theorem C04_update_header_writes_image_affine :
  forall codes aligned unknown (V : Type) (store : V -> Z) vone vmone qnum_of,
  wf_tables codes aligned unknown = true ->
  (forall h shape a,
     exists h', update_header codes aligned unknown V store vone vmone qnum_of h shape (Some a) false = Some h'
       /\ get_best_affine h' = BestS (map store (firstn 12 a))
       /\ sform_code h' = aligned /\ qform_code h' = 0 /\ dims h' = shape)
  /\ (forall h shape a,
        update_header codes aligned unknown V store vone vmone qnum_of h shape (Some a) true
        = Some (set_shape h shape))
  /\ (forall hdr dflt shape a c1 c2,
        (hdr = None \/ c1 = false) ->
        exists h2, nifti_save_load codes aligned unknown V store vone vmone qnum_of hdr dflt shape a c1 c2
                   = Some (h2, BestS (map store (firstn 12 a)))
          /\ sform_code h2 = aligned /\ qform_code h2 = 0).
Proof. exact update_header_summary. Qed.
Print Assumptions C04_update_header_writes_image_affine.

(* the save step of every image class: update_header rewrites the header from the affine the
   image has AT SAVE TIME exactly when it is not allclose to the header's best affine *)
Theorem C04_save_step : forall has close,
  (update_decision has close = Rewrite <-> has = true /\ close = false)
  /\ (update_decision has close = Keep <-> has = false \/ close = true).
Proof. exact save_step_decision. Qed.
Print Assumptions C04_save_step.

Theorem C04_save_step_nifti : forall codes aligned unknown (V : Type) (store : V -> Z) vone vmone qnum_of h shape a close,
  update_header codes aligned unknown V store vone vmone qnum_of h shape (Some a) close
  = match update_decision true close with
    | Keep => Some (set_shape h shape)
    | Rewrite => affine2header codes aligned unknown V store vone vmone qnum_of (set_shape h shape) a
    end.
Proof. exact save_step_nifti. Qed.
Print Assumptions C04_save_step_nifti.

Theorem C04_save_step_analyze : forall (V : Type) (store : V -> Z) qnum_of h shape a close,
  analyze_update_header V store qnum_of h shape (Some a) close
  = match update_decision true close with
    | Keep => set_shape h shape
    | Rewrite => analyze_affine2header V store qnum_of (set_shape h shape) a
    end.
Proof. exact save_step_analyze. Qed.
Print Assumptions C04_save_step_analyze.

Theorem C04_tables_wf : wf_tables xform_code_values aligned_code unknown_code = true.
Proof. exact tables_wf. Qed.
Print Assumptions C04_tables_wf.

(* FULL STATEMENT "the reloaded affine is the stored image affine whatever header was
   supplied" is false of the faithful model: the shortcut keeps a header transform that is
   allclose to, but different from, the image affine (finding S-C04a).  Witness with integer
   entries, rtol = 1e-5, atol = 1e-8: translation 100001 against a header holding 100000. *)
Theorem C04_shortcut_deviation_refuted :
  let close := allclose rtol_w atol_w (map inject_Z aff_w) (map inject_Z (srow hdr_w)) in
  close = true
  /\ aff_w <> srow hdr_w
  /\ exists h2 rows,
      nifti_save_load xform_code_values aligned_code unknown_code Z (fun z => z) 1 (-1) qnum_w
                      (Some hdr_w) hdr_w [2;3;4] aff_w close close = Some (h2, BestS rows)
      /\ rows <> map (fun z => z) aff_w.
Proof. exact shortcut_deviation. Qed.
Print Assumptions C04_shortcut_deviation_refuted.

(* ---------------------------------------------------------------- (2) exact rationals *)

(* SPM .mat: what to_file_map stores (M with the x flip, mat without, both shifted by
   from_111) reads back as the affine, from `mat` and from `M` alone — exact arithmetic *)
Theorem C04_spm_mat_roundtrip_ideal : forall flip a, length a = 12%nat ->
  (exists r, spm_read flip MatMat (fst (spm_write flip a)) (snd (spm_write flip a)) = Some r /\ Qlist_eq r a)
  /\ (exists r, spm_read flip MatM (fst (spm_write flip a)) [] = Some r /\ Qlist_eq r a).
Proof. exact spm_mat_roundtrip. Qed.
Print Assumptions C04_spm_mat_roundtrip_ideal.

(* plain Analyze: the fallback affine has the stored zooms on its diagonal (x negated when
   flipped) and puts the centre voxel at the origin: voxel sizes only *)
Theorem C04_fallback_zooms : forall s0 s1 s2 srest z0 z1 z2 zrest flip,
  length srest = length zrest ->
  exists a, shape_zoom_affine (s0 :: s1 :: s2 :: srest) (z0 :: z1 :: z2 :: zrest) flip = Some a
    /\ Qlist_eq a [ (if flip then - z0 else z0); 0; 0; - ((inject_Z s0 - 1) / 2) * (if flip then - z0 else z0);
                    0; z1; 0; - ((inject_Z s1 - 1) / 2) * z1;
                    0; 0; z2; - ((inject_Z s2 - 1) / 2) * z2 ]%Q.
Proof. exact fallback_zooms. Qed.
Print Assumptions C04_fallback_zooms.

(* ---------------------------------------------------------------- (3) ideal arithmetic (R) *)
Open Scope R_scope.

(* C04_quat_roundtrip.  FULL STATEMENT (every unit quaternion with w >= 0 is recovered from
   b,c,d) is false of the faithful model because of fillpositive's snap threshold (see
   C04_fillpositive_near180_refuted).  Proved: w = 0 (180 degrees) or w^2 >= |thr|; and
   quat2mat of any unit quaternion is orthogonal with determinant 1. *)
Theorem C04_quat_roundtrip_partial : forall thr feps q,
  0 < Rabs thr -> feps <= 1 -> qnorm2 q = 1 -> 0 <= qw q ->
  (qw q = 0 \/ Rabs thr <= qw q * qw q) ->
  fillpositive thr (qx q) (qy q) (qz q) = Some q
  /\ orthogonal (quat2mat feps q) /\ det (quat2mat feps q) = 1.
Proof. exact quat_roundtrip_partial. Qed.
Print Assumptions C04_quat_roundtrip_partial.

Theorem C04_fillpositive_near180_refuted : forall thr feps,
  0 < Rabs thr <= 1 -> feps <= 1 / 2 ->
  exists q q', qnorm2 q = 1 /\ 0 < qw q
    /\ fillpositive thr (qx q) (qy q) (qz q) = Some q'
    /\ qw q' = 0 /\ quat2mat feps q' <> quat2mat feps q.
Proof. exact fillpositive_near180. Qed.
Print Assumptions C04_fillpositive_near180_refuted.

(* set_qform stores q / sqrt(q @ q) (repair of S-C04d).  In exact arithmetic this is the identity on
   the unit eigenvector (used inside C04_qform_roundtrip_ideal).  Under the STANDARD ROUNDING MODEL —
   every stored component is the exact normalised component times (1 + delta), |delta| <= u — the
   quantity fillpositive computes, w2 = 1 - (b^2 + c^2 + d^2), is within (2u + u^2)(1 - w^2) of the
   true w^2; hence for an exact 180 degree rotation (w = 0) the stored quaternion meets the snap
   threshold whenever 2u + u^2 < |thr|, and w is recovered as 0 — no ValueError.  Instance: u = eps64
   (twice the float64 unit roundoff, leaving room for the MAX_FLOAT evaluation) and the NIfTI-2
   threshold 3 eps64. *)
Theorem C04_stored_quaternion_w2_bound : forall q u d1 d2 d3,
  qnorm2 q = 1 -> 0 <= u -> Rabs d1 <= u -> Rabs d2 <= u -> Rabs d3 <= u ->
  let b := qx q * (1 + d1) in let c := qy q * (1 + d2) in let d := qz q * (1 + d3) in
  Rabs (1 - (b * b + c * c + d * d) - qw q * qw q) <= (2 * u + u * u) * (1 - qw q * qw q).
Proof. exact stored_quat_w2. Qed.
Print Assumptions C04_stored_quaternion_w2_bound.

Theorem C04_normalised_quaternion_meets_threshold : forall thr q u d1 d2 d3,
  qnorm2 q = 1 -> qw q = 0 -> 0 <= u -> 2 * u + u * u < Rabs thr ->
  Rabs d1 <= u -> Rabs d2 <= u -> Rabs d3 <= u ->
  let b := qx q * (1 + d1) in let c := qy q * (1 + d2) in let d := qz q * (1 + d3) in
  fillpositive thr b c d = Some (mkQt 0 b c d).
Proof. exact stored_quat_snaps. Qed.
Print Assumptions C04_normalised_quaternion_meets_threshold.

Theorem C04_nifti2_threshold_margin :
  2 * (/ 4503599627370496) + (/ 4503599627370496) * (/ 4503599627370496) < Rabs (- 3 * / 4503599627370496).
Proof. exact stored_quat_snaps_nifti2. Qed.
Print Assumptions C04_nifti2_threshold_margin.

(* qfac: set_qform takes the sign of det of R = RZS / zooms.  In exact arithmetic that sign is the
   sign of det RZS for every positive column scaling, so qfac never depends on the voxel sizes; the
   extracted model gets the sign from the exact rational determinant of the input affine.  (In
   floats det(RZS) under/overflows for extreme voxel sizes while det(R) does not.) *)
Theorem C04_qfac_scale_invariant : forall M d, 0 < v1 d -> 0 < v2 d -> 0 < v3 d ->
  (0 < det (div_cols M d) <-> 0 < det M) /\ (det (div_cols M d) < 0 <-> det M < 0)
  /\ (det (div_cols M d) = 0 <-> det M = 0).
Proof. exact det_sign_scale_invariant. Qed.
Print Assumptions C04_qfac_scale_invariant.

Theorem C04_set_qform_qfac_is_det_sign : forall polar eigmax A,
  0 < v1 (col_norms (lin A)) -> 0 < v2 (col_norms (lin A)) -> 0 < v3 (col_norms (lin A)) ->
  h_qfac (set_qform_R polar eigmax A) = (if Rlt_dec 0 (det (lin A)) then 1 else -1).
Proof. exact set_qform_qfac_is_det_sign. Qed.
Print Assumptions C04_set_qform_qfac_is_det_sign.

(* the algebraic fact mat2quat relies on: a unit q is an eigenvector of K(quat2mat q) for
   the eigenvalue 1 *)
Theorem C04_K_eigen : forall feps q, feps <= 1 -> qnorm2 q = 1 ->
  Kapply (quat2mat feps q) q = q.
Proof. exact K_eigen. Qed.
Print Assumptions C04_K_eigen.

(* every rotation matrix (orthogonal, determinant 1) is quat2mat of a unit quaternion
   (Shepperd's construction), so quantifying over unit quaternions covers every rotation *)
Theorem C04_rotation_is_quat : forall feps M, feps <= 1 -> orthogonal M -> det M = 1 ->
  exists q, qnorm2 q = 1 /\ quat2mat feps q = M.
Proof. exact rotation_is_quat2mat. Qed.
Print Assumptions C04_rotation_is_quat.

(* get_qform (set_qform A) = A in exact arithmetic for A = R.diag(z).diag(1,1,s) | t with
   R ANY rotation matrix (orthogonal, det 1), z > 0, s = +-1 — GIVEN the contracts of the two
   NumPy kernels: polar(M) = M for orthogonal M (P.Qs of the svd of an orthogonal matrix);
   eigmax(M) is a unit vector maximising the Rayleigh quotient of K(M) (= an eigenvector of the
   largest eigenvalue, what eigh + argmax return) for rotation matrices M.
   The condition on the trace says w = 0 (exactly 180 degrees) or w^2 >= |thr| where
   4 w^2 = 1 + trace R; 0 < w^2 < |thr| is refuted above (finding S-C04c). *)
Theorem C04_qform_roundtrip_ideal : forall (polar : M3 -> M3) (eigmax : M3 -> Qt),
  (forall M, orthogonal M -> polar M = M) ->
  (forall M, orthogonal M -> det M = 1 -> qnorm2 (eigmax M) = 1) ->
  (forall M u, orthogonal M -> det M = 1 -> qnorm2 u = 1 -> rayleigh M u <= rayleigh M (eigmax M)) ->
  forall thr feps R0 z1 z2 z3 s t,
  0 < Rabs thr -> feps <= 1 ->
  orthogonal R0 -> det R0 = 1 ->
  (1 + m11 R0 + m22 R0 + m33 R0 = 0 \/ 4 * Rabs thr <= 1 + m11 R0 + m22 R0 + m33 R0) ->
  0 < z1 -> 0 < z2 -> 0 < z3 -> (s = 1 \/ s = -1) ->
  let A := mkAff (scale_cols R0 (mk3 z1 z2 (z3 * s))) t in
  get_qform_R thr feps (set_qform_R polar eigmax A) = Some A.
Proof. exact qform_roundtrip_ideal_rot. Qed.
Print Assumptions C04_qform_roundtrip_ideal.

(* the same with the rotation given by its unit quaternion *)
Theorem C04_qform_roundtrip_ideal_quat : forall (polar : M3 -> M3) (eigmax : M3 -> Qt),
  (forall M, orthogonal M -> polar M = M) ->
  (forall M, orthogonal M -> det M = 1 -> qnorm2 (eigmax M) = 1) ->
  (forall M u, orthogonal M -> det M = 1 -> qnorm2 u = 1 -> rayleigh M u <= rayleigh M (eigmax M)) ->
  forall thr feps q0 z1 z2 z3 s t,
  0 < Rabs thr -> feps <= 1 ->
  qnorm2 q0 = 1 -> (qw q0 = 0 \/ Rabs thr <= qw q0 * qw q0) ->
  0 < z1 -> 0 < z2 -> 0 < z3 -> (s = 1 \/ s = -1) ->
  let A := mkAff (scale_cols (quat2mat feps q0) (mk3 z1 z2 (z3 * s))) t in
  get_qform_R thr feps (set_qform_R polar eigmax A) = Some A.
Proof. exact qform_roundtrip_ideal. Qed.
Print Assumptions C04_qform_roundtrip_ideal_quat.

(* the three oracle contracts are satisfiable (polar := identity, eigmax := Shepperd's
   quaternion of a rotation matrix) *)
Theorem C04_qform_oracles_satisfiable :
  exists (polar : M3 -> M3) (eigmax : M3 -> Qt),
    (forall M, orthogonal M -> polar M = M)
    /\ (forall M, orthogonal M -> det M = 1 -> qnorm2 (eigmax M) = 1)
    /\ (forall M u, orthogonal M -> det M = 1 -> qnorm2 u = 1 -> rayleigh M u <= rayleigh M (eigmax M)).
Proof. exact oracles_nonvacuous. Qed.
Print Assumptions C04_qform_oracles_satisfiable.

(* MGH: get_affine (_affine2header A shape) = A for every A without a zero column *)
Theorem C04_mgh_roundtrip_ideal : forall A shape,
  v1 (col_norms (lin A)) <> 0 -> v2 (col_norms (lin A)) <> 0 -> v3 (col_norms (lin A)) <> 0 ->
  mgh_get_affine (mgh_affine2header A shape) = A.
Proof. exact mgh_roundtrip_ideal. Qed.
Print Assumptions C04_mgh_roundtrip_ideal.

Close Scope R_scope.

(* ---------------------------------------------------------------- exact IEEE witness *)
(* FULL STATEMENT "the SPM .mat round trip is exact in float64" is false: binary64 witness
   (Flocq) of (t - m) + m <> t, finding S-C04b *)
Theorem C04_spm_mat_roundtrip_float_refuted :
  Binary.is_finite _ _ t_w = true /\ Binary.is_finite _ _ m_w = true
  /\ bits_of_b64 (spm_t_read (spm_t_write t_w m_w) m_w) = 4634392439000204108
  /\ bits_of_b64 t_w = 4634392439000204109.
Proof. exact spm_float_witness. Qed.
Print Assumptions C04_spm_mat_roundtrip_float_refuted.


(* EXACT FLOAT (Flocq): the value read back from a float32 header field (srow, qoffset, pixdim
   of NIfTI-1 / Analyze / SPM; delta, Mdc, Pxyz_c of MGH) after storing a finite binary64 value x
   is exactly the round-to-nearest-even binary32 of x (no overflow), is finite, and in the
   normal range differs from x by at most 2^-24 |x| = eps32/2 |x| — the "float32-rounded matrix"
   of the statement and the 1-ulp translation tolerance of the harness.  `narrow` is the IEEE
   conversion binary64 -> binary32 (cross-checked against NumPy's cast on every run). *)
Theorem C04_sform_float32_exact : forall x : b64,
  BinarySingleNaN.is_finite x = true ->
  (Rabs (round radix2 fexp32 ZnearestE (BinarySingleNaN.B2R x)) < bpow radix2 128)%R ->
  BinarySingleNaN.B2R (widen (narrow x)) = round radix2 fexp32 ZnearestE (BinarySingleNaN.B2R x)
  /\ BinarySingleNaN.is_finite (widen (narrow x)) = true
  /\ ((bpow radix2 (-126) <= Rabs (BinarySingleNaN.B2R x))%R ->
      (Rabs (BinarySingleNaN.B2R (widen (narrow x)) - BinarySingleNaN.B2R x)
       <= bpow radix2 (-24) * Rabs (BinarySingleNaN.B2R x))%R).
Proof. exact sform_float32_exact. Qed.
Print Assumptions C04_sform_float32_exact.

(* the rounding is applied once: a float32 value widened to binary64 and stored again is unchanged
   (second save, shortcut or not, cannot drift) *)
Theorem C04_round32_idempotent : forall y : b32,
  BinarySingleNaN.is_finite y = true ->
  BinarySingleNaN.B2R (narrow (widen y)) = BinarySingleNaN.B2R y.
Proof. exact round32_idempotent. Qed.
Print Assumptions C04_round32_idempotent.

(* ---------------------------------------------------------------- non-vacuity *)
(* the hypotheses of the codec theorems hold on a concrete NIfTI-1 style header (code width 2,
   float width 4, big-endian), and the stored affine is read back *)
Example C04_nonvacuous :
  wf_hdr 2 4 hdr_nv
  /\ read_blocks true 2 4 (affine_block true 2 4 hdr_nv) (pixdim_block true 4 hdr_nv) (dims hdr_nv) = hdr_nv
  /\ get_best_affine hdr_nv = BestS (srow hdr_nv).
Proof. exact nonvacuous_hdr. Qed.
Print Assumptions C04_nonvacuous.

(* the premises of C04_qform_roundtrip_ideal about the affine are satisfiable: 180 degrees
   about x (w = 0), anisotropic zooms, reflection; thr = 3 eps32, feps = eps64 *)
Example C04_qform_premises_nonvacuous :
  (0 < Rabs (3 / 8388608) /\ (1 / 4503599627370496 <= 1)
   /\ qnorm2 (mkQt 0 1 0 0) = 1 /\ (qw (mkQt 0 1 0 0) = 0 \/ Rabs (3 / 8388608) <= qw (mkQt 0 1 0 0) * qw (mkQt 0 1 0 0))
   /\ 0 < 1 /\ 0 < 2 /\ 0 < 3 /\ (-1 = 1 \/ -1 = -1))%R.
Proof. exact nonvacuous_qform_premises. Qed.
Print Assumptions C04_qform_premises_nonvacuous.
