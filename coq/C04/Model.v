(* C04/Model.v — decision and codec model of the affine-related header state, and the
   exact-rational (Q) model of the parts of the affine pipeline that are plain ring
   arithmetic.  Definitions only; everything here is computable and is extracted.
   Counterparts in /repo/nibabel:
     nifti1.py  Nifti1Header.get_best_affine / get_sform / set_sform / get_qform(coded) /
                set_qform (code resolution, qfac from the sign of det, storage of zooms,
                quaternion, offsets), Nifti1Pair.__init__ / update_header / _affine2header
     spatialimages.py  SpatialImage.update_header (allclose shortcut), _affine2header (zooms)
     analyze.py  AnalyzeImage.to_file_map (second update_header), get_base_affine
     volumeutils.py  shape_zoom_affine
     spm99analyze.py  get_origin_affine, .mat choice ('mat' over 'M', x flip), from_111 / to_111
   Floats: a header float field holds a *bit pattern* (Z, width fw bytes).  `store v` is the
   bit pattern NumPy writes for the float64 value v (the float32 cast for NIfTI-1, the
   identity on bits for NIfTI-2), an opaque function; values V are opaque too.  The numeric
   kernels (column norms, sign of det, polar factor + mat2quat) are the opaque function
   `qnum_of`; their algebra is the subject of ModelR.v (ideal arithmetic). *)
From Coq Require Import ZArith List Bool QArith Qabs.
From NV Require Import Base.Bytes.
Import ListNotations.
Open Scope Z_scope.

(* ---------------------------------------------------------------- header state *)
Record nhdr := mkN {
  sform_code : Z; srow : list Z;            (* 12 bit patterns, rows x, y, z *)
  qform_code : Z;
  pixdim0 : Z; pixdim : list Z;             (* qfac; the three spatial zooms *)
  quat : list Z; qoff : list Z;             (* quatern_b,c,d; qoffset_x,y,z *)
  dims : list Z }.                          (* data shape *)

Inductive src := SrcS | SrcQ | SrcB.

(* Nifti1Header.get_best_affine: sform, else qform, else shape/zoom fallback *)
Definition best_src (sc qc : Z) : src :=
  if negb (sc =? 0) then SrcS else if negb (qc =? 0) then SrcQ else SrcB.

Inductive best :=
| BestS (rows : list Z)
| BestQ (qfac : Z) (zooms bcd off : list Z)
| BestB (shape : list Z) (zooms : list Z).

Definition get_best_affine (h : nhdr) : best :=
  match best_src (sform_code h) (qform_code h) with
  | SrcS => BestS (srow h)
  | SrcQ => BestQ (pixdim0 h) (pixdim h) (quat h) (qoff h)
  | SrcB => BestB (dims h) (pixdim h)
  end.

(* get_sform(coded=True) / get_qform(coded=True) *)
Definition get_sform_coded (h : nhdr) : option (list Z) * Z :=
  if sform_code h =? 0 then (None, 0) else (Some (srow h), sform_code h).
Definition get_qform_coded (h : nhdr) : option (Z * list Z * list Z * list Z) * Z :=
  if qform_code h =? 0 then (None, 0)
  else (Some (pixdim0 h, pixdim h, quat h, qoff h), qform_code h).

(* numeric kernel of set_qform / _affine2header for one affine *)
Record qnum (V : Type) := mkQ { q_detpos : bool; q_zooms : list V; q_bcd : list V }.
Arguments mkQ {V}. Arguments q_detpos {V}. Arguments q_zooms {V}. Arguments q_bcd {V}.

Definition isSome {A} (o : option A) : bool := match o with Some _ => true | None => false end.

Section Codec.
  Variable codes : list Z.          (* xform_codes code column *)
  Variables aligned unknown : Z.    (* xform_codes['aligned'], ['unknown'] *)
  Variable V : Type.
  Variable store : V -> Z.
  Variables vone vmone : V.         (* 1.0 and -1.0 *)
  Variable qnum_of : list V -> qnum V.

  Definition valid_code (c : Z) : bool := existsb (Z.eqb c) codes.

  (* the `if code is None: ... else: code = recoder[code]` prologue of set_sform/set_qform;
     None = KeyError *)
  Definition resolve_code (old : Z) (code : option Z) (has_aff : bool) : option Z :=
    match code with
    | None => Some (if negb has_aff then 0 else if old =? 0 then 2 else old)
    | Some c => if valid_code c then Some c else None
    end.

  Definition set_sform (h : nhdr) (aff : option (list V)) (code : option Z) : option nhdr :=
    match resolve_code (sform_code h) code (isSome aff) with
    | None => None
    | Some c =>
      Some (mkN c (match aff with Some a => map store (firstn 12 a) | None => srow h end)
                (qform_code h) (pixdim0 h) (pixdim h) (quat h) (qoff h) (dims h))
    end.

  Definition trans (a : list V) : list V := [nth 3 a vone; nth 7 a vone; nth 11 a vone].

  Definition set_qform (h : nhdr) (aff : option (list V)) (code : option Z) : option nhdr :=
    match resolve_code (qform_code h) code (isSome aff) with
    | None => None
    | Some c =>
      Some (match aff with
            | None => mkN (sform_code h) (srow h) c (pixdim0 h) (pixdim h) (quat h) (qoff h) (dims h)
            | Some a =>
              let n := qnum_of a in
              mkN (sform_code h) (srow h) c
                  (store (if q_detpos n then vone else vmone))
                  (map store (q_zooms n)) (map store (q_bcd n)) (map store (trans a)) (dims h)
            end)
    end.

  (* Nifti1Pair._affine2header *)
  Definition affine2header (h : nhdr) (a : list V) : option nhdr :=
    match set_sform h (Some a) (Some aligned) with
    | None => None
    | Some h1 => set_qform h1 (Some a) (Some unknown)
    end.

  Definition set_shape (h : nhdr) (shape : list Z) : nhdr :=
    mkN (sform_code h) (srow h) (qform_code h) (pixdim0 h) (pixdim h) (quat h) (qoff h) shape.

  (* SpatialImage.update_header (+ the NIfTI override, which only touches `magic`):
     `close` is the value of np.allclose(image affine, hdr.get_best_affine()) *)
  Definition update_header (h : nhdr) (shape : list Z) (a : option (list V)) (close : bool)
    : option nhdr :=
    let h1 := set_shape h shape in
    match a with
    | None => Some h1
    | Some a' => if close then Some h1 else affine2header h1 a'
    end.

  (* Nifti1Pair.__init__: update_header, then force the s/q forms when no header was given *)
  Definition nifti_init (hdr : option nhdr) (dflt : nhdr) (shape : list Z) (a : option (list V))
             (close : bool) : option nhdr :=
    let h0 := match hdr with Some h => h | None => dflt end in
    match update_header h0 shape a close with
    | None => None
    | Some h1 =>
      match hdr, a with
      | None, Some a' => affine2header h1 a'
      | _, _ => Some h1
      end
    end.

  (* construct, to_file_map (second update_header), from_file_map: header on disk and the
     source of the loaded affine *)
  Definition nifti_save_load (hdr : option nhdr) (dflt : nhdr) (shape : list Z) (a : list V)
             (close1 close2 : bool) : option (nhdr * best) :=
    match nifti_init hdr dflt shape (Some a) close1 with
    | None => None
    | Some h1 =>
      match update_header h1 shape (Some a) close2 with
      | None => None
      | Some h2 => Some (h2, get_best_affine h2)
      end
    end.

  (* Analyze family (SpatialImage._affine2header): only the zooms are stored *)
  Definition analyze_affine2header (h : nhdr) (a : list V) : nhdr :=
    mkN (sform_code h) (srow h) (qform_code h) (pixdim0 h) (map store (q_zooms (qnum_of a)))
        (quat h) (qoff h) (dims h).

  Definition analyze_update_header (h : nhdr) (shape : list Z) (a : option (list V)) (close : bool)
    : nhdr :=
    let h1 := set_shape h shape in
    match a with
    | None => h1
    | Some a' => if close then h1 else analyze_affine2header h1 a'
    end.

  Definition analyze_save_load (hdr : option nhdr) (dflt : nhdr) (shape : list Z) (a : list V)
             (close1 close2 : bool) : nhdr :=
    let h0 := match hdr with Some h => h | None => dflt end in
    analyze_update_header (analyze_update_header h0 shape (Some a) close1) shape (Some a) close2.
End Codec.

(* every to_file_map (AnalyzeImage.to_file_map for Analyze/SPM/NIfTI, MGHImage.to_file_map)
   calls update_header before the header is written: which branch it takes, given whether the
   image has an affine and the value of np.allclose(image affine at save, header best affine) *)
Inductive upd := Keep | Rewrite.
Definition update_decision (has_affine close : bool) : upd :=
  if has_affine then (if close then Keep else Rewrite) else Keep.

(* ---------------------------------------------------------------- bytes of the header *)
(* qform_code, sform_code (cw bytes, signed), quatern_b,c,d, qoffset_x,y,z, srow_x,y,z
   (fw bytes each) are contiguous in both NIfTI headers (checked by gen_tables) *)
Definition affine_block (be : bool) (cw fw : nat) (h : nhdr) : list Z :=
  enc_s be cw (qform_code h) ++ enc_s be cw (sform_code h)
  ++ flat_map (enc be fw) (quat h ++ qoff h ++ srow h).

Definition pixdim_block (be : bool) (fw : nat) (h : nhdr) : list Z :=
  flat_map (enc be fw) (pixdim0 h :: pixdim h).

Fixpoint chunks (n w : nat) (l : list Z) : list (list Z) :=
  match n with
  | O => []
  | S n' => firstn w l :: chunks n' w (skipn w l)
  end.

Definition read_blocks (be : bool) (cw fw : nat) (ab pb : list Z) (shape : list Z) : nhdr :=
  let qc := dec_s be (firstn cw ab) in
  let b1 := skipn cw ab in
  let sc := dec_s be (firstn cw b1) in
  let fl := map (dec be) (chunks 18 fw (skipn cw b1)) in
  let pl := map (dec be) (chunks 4 fw pb) in
  mkN sc (skipn 6 fl) qc (nth 0 pl 0) (skipn 1 pl) (firstn 3 fl) (firstn 3 (skipn 3 fl)) shape.

(* ---------------------------------------------------------------- exact-rational parts *)
Open Scope Q_scope.

Definition pad3 {A} (l : list A) (d : A) : list A := firstn 3 (l ++ [d; d; d]).
Definition qnth (l : list Q) (i : nat) : Q := nth i l 0.

(* volumeutils.shape_zoom_affine; 12 entries, rows x, y, z.  None = ValueError *)
Definition shape_zoom_affine (shape : list Z) (zooms : list Q) (x_flip : bool) : option (list Q) :=
  if negb (Nat.eqb (length shape) (length zooms)) then None
  else
    let s := pad3 shape 1%Z in
    let z := pad3 zooms 1 in
    let z0 := if x_flip then - qnth z 0 else qnth z 0 in
    let z1 := qnth z 1 in
    let z2 := qnth z 2 in
    let org i := (inject_Z (nth i s 1%Z) - 1) / 2 in
    Some [z0; 0; 0; - org 0%nat * z0;
          0; z1; 0; - org 1%nat * z1;
          0; 0; z2; - org 2%nat * z2].

Fixpoint forallb2 {A B} (f : A -> B -> bool) (l : list A) (m : list B) : bool :=
  match l, m with
  | x :: l', y :: m' => f x y && forallb2 f l' m'
  | _, _ => true
  end.

(* Spm99AnalyzeHeader.get_origin_affine; dims3 = dim[1:4], origin3 = origin[:3] *)
Definition spm_origin_used (dims3 origin3 : list Z) : bool :=
  existsb (fun o => negb (o =? 0)%Z) origin3
  && forallb2 (fun o d => (- d <? o)%Z) origin3 dims3
  && forallb2 (fun o d => (o <? d * 2)%Z) origin3 dims3.

Definition spm_origin_affine (x_flip : bool) (dims3 : list Z) (zooms3 : list Q) (origin3 : list Z)
  : list Q :=
  let z0 := if x_flip then - qnth zooms3 0 else qnth zooms3 0 in
  let z1 := qnth zooms3 1 in
  let z2 := qnth zooms3 2 in
  let org i := if spm_origin_used dims3 origin3 then inject_Z (nth i origin3 0%Z) - 1
               else (inject_Z (nth i dims3 0%Z) - 1) / 2 in
  [z0; 0; 0; - org 0%nat * z0;
   0; z1; 0; - org 1%nat * z1;
   0; 0; z2; - org 2%nat * z2].

(* right multiplication of [M | t ; 0 0 0 1] by the translation (s,s,s): from_111 is s = -1,
   to_111 is s = 1 *)
Definition shift111 (s : Q) (a : list Q) : list Q :=
  let e := qnth a in
  [e 0%nat; e 1%nat; e 2%nat; e 0%nat * s + e 1%nat * s + e 2%nat * s + e 3%nat;
   e 4%nat; e 5%nat; e 6%nat; e 4%nat * s + e 5%nat * s + e 6%nat * s + e 7%nat;
   e 8%nat; e 9%nat; e 10%nat; e 8%nat * s + e 9%nat * s + e 10%nat * s + e 11%nat].

(* diag(-1,1,1,1) . A *)
Definition flipx (a : list Q) : list Q :=
  let e := qnth a in
  [- e 0%nat; - e 1%nat; - e 2%nat; - e 3%nat;
   e 4%nat; e 5%nat; e 6%nat; e 7%nat;
   e 8%nat; e 9%nat; e 10%nat; e 11%nat].

(* Spm99AnalyzeImage.to_file_map: the pair (M, mat) saved in the .mat file *)
Definition spm_write (x_flip : bool) (a : list Q) : list Q * list Q :=
  (shift111 (-1) (if x_flip then flipx a else a), shift111 (-1) a).

Inductive matsrc := MatKeep | MatMat | MatM | MatErr.

(* Spm99AnalyzeImage.from_file_map: missing / empty file keeps the header affine; 'mat'
   overrides 'M'; neither is a ValueError *)
Definition spm_mat_choice (empty has_mat has_M : bool) : matsrc :=
  if empty then MatKeep else if has_mat then MatMat else if has_M then MatM else MatErr.

Definition spm_read (x_flip : bool) (c : matsrc) (bigM mat : list Q) : option (list Q) :=
  match c with
  | MatMat => Some (shift111 1 mat)
  | MatM => Some (shift111 1 (if x_flip then flipx bigM else bigM))
  | MatKeep | MatErr => None
  end.

(* np.allclose(a, b) on finite entries: |a - b| <= atol + rtol * |b| everywhere *)
Definition allclose (rtol atol : Q) (a b : list Q) : bool :=
  forallb2 (fun x y => Qle_bool (Qabs (x - y)) (atol + rtol * Qabs y)) a b.
