(* C04/LemmasS.v — IDEAL ARITHMETIC: every rotation matrix (orthogonal, det 1) is quat2mat of
   a unit quaternion (Shepperd's construction), so the qform theorem holds for every rotation,
   and the oracle contracts of LemmasR are satisfiable. *)
From Coq Require Import Reals Lra Nsatz.
From NV Require Import C04.ModelR C04.LemmasR.
Open Scope R_scope.

Section Rot.
  Variables a b c d e f g h i : R.
  Hypothesis O1 : a * a + d * d + g * g = 1.
  Hypothesis O2 : a * b + d * e + g * h = 0.
  Hypothesis O3 : a * c + d * f + g * i = 0.
  Hypothesis O5 : b * b + e * e + h * h = 1.
  Hypothesis O6 : b * c + e * f + h * i = 0.
  Hypothesis O9 : c * c + f * f + i * i = 1.
  Hypothesis D : a * (e * i - f * h) - b * (d * i - f * g) + c * (d * h - e * g) = 1.

  Lemma cof_a : a = e * i - f * h. Proof. nsatz. Qed.
  Lemma cof_b : b = f * g - d * i. Proof. nsatz. Qed.
  Lemma cof_c : c = d * h - e * g. Proof. nsatz. Qed.
  Lemma cof_d : d = c * h - b * i. Proof. nsatz. Qed.
  Lemma cof_e : e = a * i - c * g. Proof. nsatz. Qed.
  Lemma cof_f : f = b * g - a * h. Proof. nsatz. Qed.
  Lemma cof_g : g = b * f - c * e. Proof. nsatz. Qed.
  Lemma cof_h : h = c * d - a * f. Proof. nsatz. Qed.
  Lemma cof_i : i = a * e - b * d. Proof. nsatz. Qed.

  Definition t0 := 1 + a + e + i.
  Definition t1 := 1 + a - e - i.
  Definition t2 := 1 - a + e - i.
  Definition t3 := 1 - a - e + i.

  Lemma P01 : (h - f) * (h - f) = t0 * t1. Proof. unfold t0, t1. pose proof cof_a; pose proof cof_e; pose proof cof_i. nsatz. Qed.
  Lemma P02 : (c - g) * (c - g) = t0 * t2. Proof. unfold t0, t2. pose proof cof_a; pose proof cof_e; pose proof cof_i. nsatz. Qed.
  Lemma P03 : (d - b) * (d - b) = t0 * t3. Proof. unfold t0, t3. pose proof cof_a; pose proof cof_e; pose proof cof_i. nsatz. Qed.
  Lemma P12 : (b + d) * (b + d) = t1 * t2. Proof. unfold t1, t2. pose proof cof_a; pose proof cof_e; pose proof cof_i. nsatz. Qed.
  Lemma P13 : (c + g) * (c + g) = t1 * t3. Proof. unfold t1, t3. pose proof cof_a; pose proof cof_e; pose proof cof_i. nsatz. Qed.
  Lemma P23 : (f + h) * (f + h) = t2 * t3. Proof. unfold t2, t3. pose proof cof_a; pose proof cof_e; pose proof cof_i. nsatz. Qed.

  Ltac cofs := pose proof cof_a; pose proof cof_b; pose proof cof_c; pose proof cof_d; pose proof cof_e;
               pose proof cof_f; pose proof cof_g; pose proof cof_h; pose proof cof_i.

  Lemma X0a : (h - f) * (c - g) = t0 * (b + d). Proof. unfold t0. cofs. nsatz. Qed.
  Lemma X0b : (h - f) * (d - b) = t0 * (c + g). Proof. unfold t0. cofs. nsatz. Qed.
  Lemma X0c : (c - g) * (d - b) = t0 * (f + h). Proof. unfold t0. cofs. nsatz. Qed.
  Lemma X1a : (b + d) * (c + g) = t1 * (f + h). Proof. unfold t1. cofs. nsatz. Qed.
  Lemma X1b : (h - f) * (b + d) = t1 * (c - g). Proof. unfold t1. cofs. nsatz. Qed.
  Lemma X1c : (h - f) * (c + g) = t1 * (d - b). Proof. unfold t1. cofs. nsatz. Qed.
  Lemma X2a : (b + d) * (f + h) = t2 * (c + g). Proof. unfold t2. cofs. nsatz. Qed.
  Lemma X2b : (c - g) * (b + d) = t2 * (h - f). Proof. unfold t2. cofs. nsatz. Qed.
  Lemma X2c : (c - g) * (f + h) = t2 * (d - b). Proof. unfold t2. cofs. nsatz. Qed.
  Lemma X3a : (c + g) * (f + h) = t3 * (b + d). Proof. unfold t3. cofs. nsatz. Qed.
  Lemma X3b : (d - b) * (c + g) = t3 * (h - f). Proof. unfold t3. cofs. nsatz. Qed.
  Lemma X3c : (d - b) * (f + h) = t3 * (c - g). Proof. unfold t3. cofs. nsatz. Qed.

  Lemma tsum : t0 + t1 + t2 + t3 = 4. Proof. unfold t0, t1, t2, t3; ring. Qed.

  Ltac ids := pose proof P01; pose proof P02; pose proof P03; pose proof P12; pose proof P13; pose proof P23;
              pose proof X0a; pose proof X0b; pose proof X0c; pose proof X1a; pose proof X1b; pose proof X1c;
              pose proof X2a; pose proof X2b; pose proof X2c; pose proof X3a; pose proof X3b; pose proof X3c;
              pose proof tsum.

  Lemma case0 w0 u : 4 * w0 * w0 = t0 -> 4 * w0 * u = 1 ->
    let q := mkQt w0 ((h - f) * u) ((c - g) * u) ((d - b) * u) in
    qnorm2 q = 1 /\ rotq q = mkM a b c d e f g h i.
  Proof.
    intros Hw Hu. cbv zeta. pose proof P01; pose proof P02; pose proof P03; pose proof X0a; pose proof X0b; pose proof X0c; pose proof tsum.
    clear O1 O2 O3 O5 O6 O9 D. unfold qnorm2, rotq; cbn [qw qx qy qz].
    unfold t0, t1, t2, t3 in *. split; [nsatz|apply M3_eq; nsatz].
  Qed.

  Lemma case1 x0 u : 4 * x0 * x0 = t1 -> 4 * x0 * u = 1 ->
    let q := mkQt ((h - f) * u) x0 ((b + d) * u) ((c + g) * u) in
    qnorm2 q = 1 /\ rotq q = mkM a b c d e f g h i.
  Proof.
    intros Hw Hu. cbv zeta. pose proof P01; pose proof P12; pose proof P13; pose proof X1a; pose proof X1b; pose proof X1c; pose proof tsum.
    clear O1 O2 O3 O5 O6 O9 D. unfold qnorm2, rotq; cbn [qw qx qy qz].
    unfold t0, t1, t2, t3 in *. split; [nsatz|apply M3_eq; nsatz].
  Qed.

  Lemma case2 y0 u : 4 * y0 * y0 = t2 -> 4 * y0 * u = 1 ->
    let q := mkQt ((c - g) * u) ((b + d) * u) y0 ((f + h) * u) in
    qnorm2 q = 1 /\ rotq q = mkM a b c d e f g h i.
  Proof.
    intros Hw Hu. cbv zeta. pose proof P02; pose proof P12; pose proof P23; pose proof X2a; pose proof X2b; pose proof X2c; pose proof tsum.
    clear O1 O2 O3 O5 O6 O9 D. unfold qnorm2, rotq; cbn [qw qx qy qz].
    unfold t0, t1, t2, t3 in *. split; [nsatz|apply M3_eq; nsatz].
  Qed.

  Lemma case3 z0 u : 4 * z0 * z0 = t3 -> 4 * z0 * u = 1 ->
    let q := mkQt ((d - b) * u) ((c + g) * u) ((f + h) * u) z0 in
    qnorm2 q = 1 /\ rotq q = mkM a b c d e f g h i.
  Proof.
    intros Hw Hu. cbv zeta. pose proof P03; pose proof P13; pose proof P23; pose proof X3a; pose proof X3b; pose proof X3c; pose proof tsum.
    clear O1 O2 O3 O5 O6 O9 D. unfold qnorm2, rotq; cbn [qw qx qy qz].
    unfold t0, t1, t2, t3 in *. split; [nsatz|apply M3_eq; nsatz].
  Qed.
End Rot.

(* ------------------------------------------------------------- Shepperd's construction *)
Definition quat_of_rot (M : M3) : Qt :=
  let a := m11 M in let b := m12 M in let c := m13 M in
  let d := m21 M in let e := m22 M in let f := m23 M in
  let g := m31 M in let h := m32 M in let i := m33 M in
  if Rle_dec 1 (t0 a e i) then
    let w0 := sqrt (t0 a e i) / 2 in let u := / (4 * w0) in
    mkQt w0 ((h - f) * u) ((c - g) * u) ((d - b) * u)
  else if Rle_dec 1 (t1 a e i) then
    let x0 := sqrt (t1 a e i) / 2 in let u := / (4 * x0) in
    mkQt ((h - f) * u) x0 ((b + d) * u) ((c + g) * u)
  else if Rle_dec 1 (t2 a e i) then
    let y0 := sqrt (t2 a e i) / 2 in let u := / (4 * y0) in
    mkQt ((c - g) * u) ((b + d) * u) y0 ((f + h) * u)
  else
    let z0 := sqrt (t3 a e i) / 2 in let u := / (4 * z0) in
    mkQt ((d - b) * u) ((c + g) * u) ((f + h) * u) z0.

Lemma half_sqrt t : 1 <= t ->
  4 * (sqrt t / 2) * (sqrt t / 2) = t /\ 4 * (sqrt t / 2) * / (4 * (sqrt t / 2)) = 1.
Proof.
  intros Ht. assert (S : sqrt t * sqrt t = t) by (apply sqrt_sqrt; lra).
  assert (P : 0 < sqrt t) by (apply sqrt_lt_R0; lra).
  split; [field_simplify; replace (sqrt t ^ 2) with (sqrt t * sqrt t) by ring; rewrite S; field|field; lra].
Qed.

Lemma quat_of_rot_spec M :
  orthogonal M -> det M = 1 -> qnorm2 (quat_of_rot M) = 1 /\ rotq (quat_of_rot M) = M.
Proof.
  intros Ho Hd. unfold orthogonal, mmul, transpose, I3 in Ho.
  destruct M as [a b c d e f g h i]; cbn in Ho. injection Ho as O1 O2 O3 _ O5 O6 _ _ O9.
  unfold det in Hd; cbn in Hd.
  unfold quat_of_rot; cbn [m11 m12 m13 m21 m22 m23 m31 m32 m33].
  destruct (Rle_dec 1 (t0 a e i)) as [L0|L0].
  { destruct (half_sqrt _ L0) as (A & B). exact (case0 a b c d e f g h i O1 O2 O3 O5 O6 O9 Hd _ _ A B). }
  destruct (Rle_dec 1 (t1 a e i)) as [L1|L1].
  { destruct (half_sqrt _ L1) as (A & B). exact (case1 a b c d e f g h i O1 O2 O3 O5 O6 O9 Hd _ _ A B). }
  destruct (Rle_dec 1 (t2 a e i)) as [L2|L2].
  { destruct (half_sqrt _ L2) as (A & B). exact (case2 a b c d e f g h i O1 O2 O3 O5 O6 O9 Hd _ _ A B). }
  assert (L3 : 1 <= t3 a e i) by (pose proof (tsum a e i); lra).
  destruct (half_sqrt _ L3) as (A & B). exact (case3 a b c d e f g h i O1 O2 O3 O5 O6 O9 Hd _ _ A B).
Qed.

Theorem rotation_is_quat M :
  orthogonal M -> det M = 1 -> exists q, qnorm2 q = 1 /\ rotq q = M.
Proof. intros Ho Hd. exists (quat_of_rot M). exact (quat_of_rot_spec M Ho Hd). Qed.


Lemma rotation_is_quat2mat feps M : feps <= 1 -> orthogonal M -> det M = 1 ->
  exists q, qnorm2 q = 1 /\ quat2mat feps q = M.
Proof.
  intros Hf Ho Hd. destruct (rotation_is_quat M Ho Hd) as (q & Hn & HR).
  exists q. split; [assumption|]. rewrite (quat2mat_unit feps q Hf Hn). assumption.
Qed.

Lemma trace_rotq q : qnorm2 q = 1 ->
  1 + m11 (rotq q) + m22 (rotq q) + m33 (rotq q) = 4 * (qw q * qw q).
Proof. destruct q as [w x y z]; unfold qnorm2, rotq; cbn. intros H. nsatz. Qed.

(* the qform theorem for EVERY rotation matrix *)
Theorem qform_roundtrip_ideal_rot (polar : M3 -> M3) (eigmax : M3 -> Qt) :
  (forall M, orthogonal M -> polar M = M) ->
  (forall M, orthogonal M -> det M = 1 -> qnorm2 (eigmax M) = 1) ->
  (forall M u, orthogonal M -> det M = 1 -> qnorm2 u = 1 -> rayleigh M u <= rayleigh M (eigmax M)) ->
  forall thr feps R0 z1 z2 z3 s t,
  0 < Rabs thr -> feps <= 1 ->
  orthogonal R0 -> det R0 = 1 ->
  (1 + m11 R0 + m22 R0 + m33 R0 = 0 \/ 4 * Rabs thr <= 1 + m11 R0 + m22 R0 + m33 R0) ->
  0 < z1 -> 0 < z2 -> 0 < z3 -> (s = 1 \/ s = -1) ->
  let A := mkAff (scale_cols R0 (mk3 z1 z2 (z3 * s))) t in
  get_qform_R thr feps (set_qform_R polar eigmax A) = Some A.
Proof.
  intros P1 P2 P3 thr feps R0 z1 z2 z3 s t Ht Hf Ho Hd Hw H1 H2 H3 Hs.
  destruct (rotation_is_quat R0 Ho Hd) as (q0 & Hn & <-).
  rewrite (trace_rotq q0 Hn) in Hw.
  rewrite <- (quat2mat_unit feps q0 Hf Hn).
  apply (qform_roundtrip_ideal polar eigmax P1 P2 P3); try assumption.
  destruct Hw as [Hw|Hw]; [left|right; lra].
  assert (qw q0 * qw q0 = 0) by lra. apply sq0; assumption.
Qed.

(* the oracle contracts are satisfiable: polar := identity, eigmax := quat_of_rot *)
Lemma oracles_nonvacuous :
  exists (polar : M3 -> M3) (eigmax : M3 -> Qt),
    (forall M, orthogonal M -> polar M = M)
    /\ (forall M, orthogonal M -> det M = 1 -> qnorm2 (eigmax M) = 1)
    /\ (forall M u, orthogonal M -> det M = 1 -> qnorm2 u = 1 -> rayleigh M u <= rayleigh M (eigmax M)).
Proof.
  exists (fun M => M), quat_of_rot. split; [reflexivity|]. split.
  - intros M Ho Hd. exact (proj1 (quat_of_rot_spec M Ho Hd)).
  - intros M u Ho Hd Hu. destruct (quat_of_rot_spec M Ho Hd) as (Hn & HR).
    set (q := quat_of_rot M) in *. rewrite <- HR.
    rewrite !rayleigh_rotq by assumption. rewrite Hu, Hn.
    assert (D0 : qdot q q = 1) by (destruct q; unfold qdot, qnorm2 in *; cbn in *; lra).
    rewrite D0.
    pose proof (lagrange4 q u) as L. rewrite Hn, Hu in L.
    assert (0 <= 1 * 1 - qdot q u * qdot q u).
    { rewrite L. repeat apply Rplus_le_le_0_compat; apply Rle_0_sqr. }
    lra.
Qed.
