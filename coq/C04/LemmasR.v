(* C04/LemmasR.v — IDEAL ARITHMETIC proofs (Coq R) about ModelR.v.  These theorems depend on
   the standard library's axioms for the reals (reported by Print Assumptions in Props.v). *)
From Coq Require Import Reals Lra Nsatz.
From NV Require Import C04.ModelR.
Open Scope R_scope.

(* ------------------------------------------------------------- small facts *)
Lemma sq0 x : x * x = 0 -> x = 0.
Proof. intros H. destruct (Rmult_integral _ _ H); assumption. Qed.

Lemma sqrt_sq_pos x : 0 <= x -> sqrt (x * x) = x.
Proof. intros H. apply sqrt_square; assumption. Qed.

Lemma M3_eq a b c d e f g h i a' b' c' d' e' f' g' h' i' :
  a = a' -> b = b' -> c = c' -> d = d' -> e = e' -> f = f' -> g = g' -> h = h' -> i = i' ->
  mkM a b c d e f g h i = mkM a' b' c' d' e' f' g' h' i'.
Proof. intros; subst; reflexivity. Qed.

(* ------------------------------------------------------------- quat2mat of a unit quaternion *)
Definition rotq (q : Qt) : M3 :=
  let w := qw q in let x := qx q in let y := qy q in let z := qz q in
  mkM (1 - 2 * (y * y + z * z)) (2 * (x * y - w * z)) (2 * (x * z + w * y))
      (2 * (x * y + w * z)) (1 - 2 * (x * x + z * z)) (2 * (y * z - w * x))
      (2 * (x * z - w * y)) (2 * (y * z + w * x)) (1 - 2 * (x * x + y * y)).

Lemma quat2mat_unit feps q : feps <= 1 -> qnorm2 q = 1 -> quat2mat feps q = rotq q.
Proof.
  intros Hf Hn. unfold quat2mat, qnorm2 in *.
  destruct (Rlt_dec _ feps) as [L|_]; [rewrite Hn in L; lra|].
  rewrite Hn. unfold rotq. apply M3_eq; field.
Qed.

Lemma rotq_neg q : rotq (qneg q) = rotq q.
Proof. unfold rotq, qneg; cbn. apply M3_eq; ring. Qed.

Lemma rotq_orthogonal q : qnorm2 q = 1 -> orthogonal (rotq q).
Proof.
  destruct q as [w x y z]. unfold qnorm2, orthogonal, rotq, mmul, transpose, I3; cbn.
  intros H. apply M3_eq; nsatz.
Qed.

Lemma rotq_orthogonal_r q : qnorm2 q = 1 -> mmul (rotq q) (transpose (rotq q)) = I3.
Proof.
  destruct q as [w x y z]. unfold qnorm2, rotq, mmul, transpose, I3; cbn.
  intros H. apply M3_eq; nsatz.
Qed.

Lemma rotq_det q : qnorm2 q = 1 -> det (rotq q) = 1.
Proof.
  destruct q as [w x y z]. unfold qnorm2, rotq, det; cbn. intros H. nsatz.
Qed.

(* ------------------------------------------------------------- fillpositive *)
Lemma fillpositive_unit thr q :
  0 < Rabs thr -> qnorm2 q = 1 -> 0 <= qw q ->
  (qw q = 0 \/ Rabs thr <= qw q * qw q) ->
  fillpositive thr (qx q) (qy q) (qz q) = Some q.
Proof.
  destruct q as [w x y z]; unfold qnorm2; cbn. intros Ht Hn Hw Hc.
  unfold fillpositive.
  assert (E : 1 - (x * x + y * y + z * z) = w * w) by lra. rewrite E.
  destruct Hc as [-> | Hc].
  - rewrite Rmult_0_l, Rabs_R0. destruct (Rlt_dec 0 (Rabs thr)); [reflexivity|contradiction].
  - assert (0 <= w * w) by (apply Rle_0_sqr).
    rewrite (Rabs_pos_eq (w * w)) by assumption.
    destruct (Rlt_dec (w * w) (Rabs thr)); [lra|].
    destruct (Rlt_dec (w * w) 0); [lra|].
    rewrite sqrt_sq_pos by assumption. reflexivity.
Qed.

(* the snap threshold makes the recovery of w false for 0 < w^2 < |thr| even in exact
   arithmetic, and the rotation read back differs *)
Lemma fillpositive_near180 thr feps :
  0 < Rabs thr <= 1 -> feps <= 1 / 2 ->
  exists q q', qnorm2 q = 1 /\ 0 < qw q
    /\ fillpositive thr (qx q) (qy q) (qz q) = Some q'
    /\ qw q' = 0 /\ quat2mat feps q' <> quat2mat feps q.
Proof.
  intros [Ht Ht1] Hf.
  set (w0 := sqrt (Rabs thr) / 2).
  set (x0 := sqrt (1 - w0 * w0)).
  assert (Hs : sqrt (Rabs thr) * sqrt (Rabs thr) = Rabs thr) by (apply sqrt_sqrt; lra).
  assert (Hw2 : w0 * w0 = Rabs thr / 4) by (unfold w0; field_simplify; rewrite ?Hs; try lra;
    replace (sqrt (Rabs thr) ^ 2) with (sqrt (Rabs thr) * sqrt (Rabs thr)) by ring; rewrite Hs; lra).
  assert (Hsp : 0 < sqrt (Rabs thr)) by (apply sqrt_lt_R0; assumption).
  assert (Hw0 : 0 < w0) by (unfold w0; lra).
  assert (Hx2 : x0 * x0 = 1 - w0 * w0) by (unfold x0; apply sqrt_sqrt; lra).
  assert (Hx0 : 0 < x0) by (unfold x0; apply sqrt_lt_R0; lra).
  exists (mkQt w0 x0 0 0), (mkQt 0 x0 0 0). cbn [qw qx qy qz].
  split; [unfold qnorm2; cbn; lra|]. split; [assumption|]. split.
  - unfold fillpositive.
    assert (E : 1 - (x0 * x0 + 0 * 0 + 0 * 0) = w0 * w0) by lra. rewrite E.
    rewrite (Rabs_pos_eq (w0 * w0)) by (apply Rle_0_sqr).
    destruct (Rlt_dec (w0 * w0) (Rabs thr)); [reflexivity|lra].
  - split; [reflexivity|].
    unfold quat2mat; cbn [qw qx qy qz].
    assert (N1 : w0 * w0 + x0 * x0 + 0 * 0 + 0 * 0 = 1) by lra.
    assert (N2 : 0 * 0 + x0 * x0 + 0 * 0 + 0 * 0 = 1 - w0 * w0) by lra.
    rewrite N1, N2.
    destruct (Rlt_dec (1 - w0 * w0) feps); [lra|].
    destruct (Rlt_dec 1 feps); [lra|].
    intros E. injection E as _ _ _ _ _ _ _ E8 _.
    (* entry (3,2): 0 * (0 * s) + 0 * (x0 * s) on the left, ... + w0 * (x0 * (2/1)) on the right *)
    assert (0 < w0 * (x0 * (2 / 1))) by (apply Rmult_lt_0_compat; [assumption|apply Rmult_lt_0_compat; lra]).
    lra.
Qed.

(* ------------------------------------------------------------- K matrix *)
Lemma K_eigen_rotq q : qnorm2 q = 1 -> Kapply (rotq q) q = q.
Proof.
  destruct q as [w x y z]. unfold qnorm2, Kapply, rotq; cbn. intros H.
  unfold Rdiv. set (r := / 3). assert (Hr : 3 * r = 1) by (unfold r; field).
  clearbody r. f_equal; nsatz.
Qed.

Lemma rayleigh_rotq q0 u :
  qnorm2 q0 = 1 ->
  rayleigh (rotq q0) u = (4 * (qdot q0 u * qdot q0 u) - qnorm2 u) / 3.
Proof.
  destruct q0 as [w x y z], u as [a b c d]. unfold qnorm2, rayleigh, qdot, Kapply, rotq; cbn.
  intros H. unfold Rdiv. set (r := / 3). assert (Hr : 3 * r = 1) by (unfold r; field).
  clearbody r. nsatz.
Qed.

Lemma lagrange4 p q :
  qnorm2 p * qnorm2 q - qdot p q * qdot p q =
  (qw p * qx q - qx p * qw q) * (qw p * qx q - qx p * qw q)
  + (qw p * qy q - qy p * qw q) * (qw p * qy q - qy p * qw q)
  + (qw p * qz q - qz p * qw q) * (qw p * qz q - qz p * qw q)
  + (qx p * qy q - qy p * qx q) * (qx p * qy q - qy p * qx q)
  + (qx p * qz q - qz p * qx q) * (qx p * qz q - qz p * qx q)
  + (qy p * qz q - qz p * qy q) * (qy p * qz q - qz p * qy q).
Proof. destruct p, q; unfold qnorm2, qdot; cbn; ring. Qed.

(* a unit maximiser of the Rayleigh quotient of K(rotq q0) is q0 or -q0 *)
Lemma top_eigvec q0 v :
  qnorm2 q0 = 1 -> qnorm2 v = 1 ->
  (forall u, qnorm2 u = 1 -> rayleigh (rotq q0) u <= rayleigh (rotq q0) v) ->
  v = q0 \/ v = qneg q0.
Proof.
  intros H0 Hv Hmax.
  pose proof (Hmax q0 H0) as Hm.
  rewrite !rayleigh_rotq in Hm by assumption.
  rewrite H0, Hv in Hm.
  assert (D0 : qdot q0 q0 = 1) by (destruct q0; unfold qdot, qnorm2 in *; cbn in *; lra).
  rewrite D0 in Hm.
  set (d := qdot q0 v) in *.
  assert (Hd1 : 1 <= d * d) by lra.
  pose proof (lagrange4 q0 v) as L. rewrite H0, Hv in L. fold d in L.
  set (c1 := qw q0 * qx v - qx q0 * qw v) in *.
  set (c2 := qw q0 * qy v - qy q0 * qw v) in *.
  set (c3 := qw q0 * qz v - qz q0 * qw v) in *.
  set (c4 := qx q0 * qy v - qy q0 * qx v) in *.
  set (c5 := qx q0 * qz v - qz q0 * qx v) in *.
  set (c6 := qy q0 * qz v - qz q0 * qy v) in *.
  pose proof (Rle_0_sqr c1) as S1. pose proof (Rle_0_sqr c2) as S2. pose proof (Rle_0_sqr c3) as S3.
  pose proof (Rle_0_sqr c4) as S4. pose proof (Rle_0_sqr c5) as S5. pose proof (Rle_0_sqr c6) as S6.
  unfold Rsqr in *.
  assert (Hd : d * d = 1) by lra.
  assert (Z1 : c1 = 0) by (apply sq0; lra). assert (Z2 : c2 = 0) by (apply sq0; lra).
  assert (Z3 : c3 = 0) by (apply sq0; lra). assert (Z4 : c4 = 0) by (apply sq0; lra).
  assert (Z5 : c5 = 0) by (apply sq0; lra). assert (Z6 : c6 = 0) by (apply sq0; lra).
  unfold c1, c2, c3, c4, c5, c6, d in *. clear S1 S2 S3 S4 S5 S6 L Hm Hd1 Hmax.
  destruct q0 as [w x y z], v as [a b c e]; unfold qnorm2, qdot, qneg in *; cbn in *.
  assert (Ea : a = (w * a + x * b + y * c + z * e) * w) by nsatz.
  assert (Eb : b = (w * a + x * b + y * c + z * e) * x) by nsatz.
  assert (Ec : c = (w * a + x * b + y * c + z * e) * y) by nsatz.
  assert (Ee : e = (w * a + x * b + y * c + z * e) * z) by nsatz.
  set (dd := w * a + x * b + y * c + z * e) in *.
  assert (dd = 1 \/ dd = -1) as [D | D].
  { assert ((dd - 1) * (dd + 1) = 0) by lra.
    destruct (Rmult_integral _ _ H); [left|right]; lra. }
  - left. rewrite D in *. f_equal; lra.
  - right. rewrite D in *. f_equal; lra.
Qed.

Lemma qnormalize_unit q : qnorm2 q = 1 -> qnormalize q = q.
Proof.
  intros H. unfold qnormalize. rewrite H, sqrt_1. destruct q; cbn. f_equal; field.
Qed.

(* STANDARD ROUNDING MODEL for the stored quaternion: each stored component is the exact
   normalised component times (1 + delta_i), |delta_i| <= u (u covers the float64 cast and the
   MAX_FLOAT evaluation of q / sqrt(q @ q)).  Then fillpositive's w2 = 1 - (b^2 + c^2 + d^2) is
   within (2u + u^2)(1 - w^2) of the true w^2, so for an exact 180 degree rotation (w = 0) it is
   below the threshold as soon as 2u + u^2 < |thr| and w is snapped to 0. *)
Lemma stored_quat_w2 q u d1 d2 d3 :
  qnorm2 q = 1 -> 0 <= u -> Rabs d1 <= u -> Rabs d2 <= u -> Rabs d3 <= u ->
  let b := qx q * (1 + d1) in let c := qy q * (1 + d2) in let d := qz q * (1 + d3) in
  Rabs (1 - (b * b + c * c + d * d) - qw q * qw q) <= (2 * u + u * u) * (1 - qw q * qw q).
Proof.
  destruct q as [w x y z]; unfold qnorm2; cbn. intros Hn Hu H1 H2 H3.
  assert (B : forall p dl, Rabs dl <= u -> Rabs (p * p - (p * (1 + dl)) * (p * (1 + dl))) <= (2 * u + u * u) * (p * p)).
  { intros p dl Hd. replace (p * p - p * (1 + dl) * (p * (1 + dl))) with (- (2 * dl + dl * dl) * (p * p)) by ring.
    rewrite Rabs_mult, (Rabs_pos_eq (p * p)) by apply Rle_0_sqr.
    apply Rmult_le_compat_r; [apply Rle_0_sqr|].
    rewrite Rabs_Ropp. eapply Rle_trans; [apply Rabs_triang|].
    rewrite Rabs_mult, Rabs_mult, Rabs_R2 || (rewrite Rabs_mult, Rabs_mult; rewrite (Rabs_pos_eq 2) by lra).
    assert (0 <= Rabs dl) by apply Rabs_pos.
    assert (Rabs dl * Rabs dl <= u * u) by (apply Rmult_le_compat; assumption).
    lra. }
  pose proof (B x d1 H1) as Bx. pose proof (B y d2 H2) as By. pose proof (B z d3 H3) as Bz.
  replace (1 - (x * (1 + d1) * (x * (1 + d1)) + y * (1 + d2) * (y * (1 + d2)) + z * (1 + d3) * (z * (1 + d3))) - w * w)
    with ((x * x - x * (1 + d1) * (x * (1 + d1))) + (y * y - y * (1 + d2) * (y * (1 + d2)))
          + (z * z - z * (1 + d3) * (z * (1 + d3)))) by lra.
  replace (1 - w * w) with (x * x + y * y + z * z) by lra.
  eapply Rle_trans; [apply Rabs_triang|]. eapply Rle_trans; [apply Rplus_le_compat_r; apply Rabs_triang|]. lra.
Qed.

Lemma stored_quat_snaps thr q u d1 d2 d3 :
  qnorm2 q = 1 -> qw q = 0 -> 0 <= u -> 2 * u + u * u < Rabs thr ->
  Rabs d1 <= u -> Rabs d2 <= u -> Rabs d3 <= u ->
  let b := qx q * (1 + d1) in let c := qy q * (1 + d2) in let d := qz q * (1 + d3) in
  fillpositive thr b c d = Some (mkQt 0 b c d).
Proof.
  intros Hn Hw Hu Ht H1 H2 H3. cbv zeta.
  pose proof (stored_quat_w2 q u d1 d2 d3 Hn Hu H1 H2 H3) as W. cbv zeta in W.
  rewrite Hw in W. rewrite Rmult_0_l, Rminus_0_r, Rminus_0_r, Rmult_1_r in W.
  unfold fillpositive.
  destruct (Rlt_dec _ (Rabs thr)) as [_|N]; [reflexivity|]. exfalso. apply N. lra.
Qed.

(* instance: u = eps64 = 2^-52 (twice the unit roundoff), thr = -3 eps64 (NIfTI-2) *)
Lemma stored_quat_snaps_nifti2 : 2 * (/ 4503599627370496) + (/ 4503599627370496) * (/ 4503599627370496)
                                 < Rabs (- 3 * / 4503599627370496).
Proof.
  rewrite Rabs_left by lra. set (e := / 4503599627370496).
  assert (0 < e) by (unfold e; apply Rinv_0_lt_compat; lra).
  assert (e < 1) by (unfold e; rewrite <- Rinv_1; apply Rinv_lt_contravar; lra).
  nra.
Qed.

(* ------------------------------------------------------------- qfac: sign of det is scale invariant *)
Lemma det_div_cols M d : v1 d <> 0 -> v2 d <> 0 -> v3 d <> 0 ->
  det (div_cols M d) = det M / (v1 d * v2 d * v3 d).
Proof. intros. destruct M, d; unfold det, div_cols; cbn in *. field. repeat split; assumption. Qed.

(* the sign decision of set_qform is taken on R = RZS / zooms; it is the sign of det RZS for ANY
   positive column scaling (in exact arithmetic) — so it does not depend on the voxel sizes, however
   small or large; in floats det(RZS) can under/overflow while det(R) cannot, which is why the code
   must (and does) use R *)
Lemma det_sign_scale_invariant M d : 0 < v1 d -> 0 < v2 d -> 0 < v3 d ->
  (0 < det (div_cols M d) <-> 0 < det M) /\ (det (div_cols M d) < 0 <-> det M < 0)
  /\ (det (div_cols M d) = 0 <-> det M = 0).
Proof.
  intros H1 H2 H3. rewrite det_div_cols by lra.
  set (p := v1 d * v2 d * v3 d). assert (Hp : 0 < p) by (unfold p; repeat apply Rmult_lt_0_compat; assumption).
  assert (Hi : 0 < / p) by (apply Rinv_0_lt_compat; assumption).
  unfold Rdiv. repeat split; intros H.
  - replace (det M) with (det M * / p * p) by (field; lra). apply Rmult_lt_0_compat; assumption.
  - apply Rmult_lt_0_compat; assumption.
  - replace (det M) with (det M * / p * p) by (field; lra). nra.
  - nra.
  - replace (det M) with (det M * / p * p) by (field; lra). rewrite H; ring.
  - rewrite H; ring.
Qed.

Lemma set_qform_qfac_is_det_sign polar eigmax A :
  0 < v1 (col_norms (lin A)) -> 0 < v2 (col_norms (lin A)) -> 0 < v3 (col_norms (lin A)) ->
  h_qfac (set_qform_R polar eigmax A) = (if Rlt_dec 0 (det (lin A)) then 1 else -1).
Proof.
  intros H1 H2 H3. unfold set_qform_R; cbn [h_qfac].
  destruct (det_sign_scale_invariant (lin A) (col_norms (lin A)) H1 H2 H3) as ((P1 & P2) & _).
  destruct (Rlt_dec 0 (det (div_cols (lin A) (col_norms (lin A))))) as [L|L];
    destruct (Rlt_dec 0 (det (lin A))) as [L'|L']; try reflexivity.
  - exfalso; apply L', P1, L.
  - exfalso; apply L, P2, L'.
Qed.

(* ------------------------------------------------------------- qform, ideal arithmetic *)
Section QformIdeal.
  Variable polar : M3 -> M3.
  Variable eigmax : M3 -> Qt.
  (* contracts of the NumPy kernels, exactly what the proof uses *)
  Hypothesis polar_orth : forall M, orthogonal M -> polar M = M.
  Hypothesis eigmax_unit : forall M, orthogonal M -> det M = 1 -> qnorm2 (eigmax M) = 1.
  Hypothesis eigmax_max : forall M u, orthogonal M -> det M = 1 -> qnorm2 u = 1 ->
                                      rayleigh M u <= rayleigh M (eigmax M).

  Lemma mat2quat_rotq q0 :
    qnorm2 q0 = 1 ->
    let q := mat2quat eigmax (rotq q0) in
    (q = q0 \/ q = qneg q0) /\ 0 <= qw q /\ qnorm2 q = 1.
  Proof.
    intros H0. cbv zeta. unfold mat2quat.
    pose proof (eigmax_unit (rotq q0) (rotq_orthogonal q0 H0) (rotq_det q0 H0)) as Hu.
    pose proof (top_eigvec q0 (eigmax (rotq q0)) H0 Hu
                  (fun u => eigmax_max (rotq q0) u (rotq_orthogonal q0 H0) (rotq_det q0 H0))) as T.
    set (v := eigmax (rotq q0)) in *.
    assert (NN : qnorm2 (qneg v) = 1) by (destruct v; unfold qnorm2, qneg in *; cbn in *; lra).
    destruct (Rlt_dec (qw v) 0) as [L|L].
    - split; [|split; [destruct v; cbn in *; lra|exact NN]].
      destruct T as [-> | ->]; [right; reflexivity|left].
      destruct q0; unfold qneg; cbn; f_equal; ring.
    - split; [exact T|split; [lra|exact Hu]].
  Qed.

  Lemma set_qform_rotation R0 z1 z2 z3 s t :
    orthogonal R0 -> det R0 = 1 -> 0 < z1 -> 0 < z2 -> 0 < z3 -> (s = 1 \/ s = -1) ->
    set_qform_R polar eigmax (mkAff (scale_cols R0 (mk3 z1 z2 (z3 * s))) t)
    = let q := qnormalize (mat2quat eigmax R0) in mkQH s (mk3 z1 z2 z3) (qx q) (qy q) (qz q) t.
  Proof.
    intros Ho Hd H1 H2 H3 Hs. cbv zeta.
    assert (Ho' := Ho). unfold orthogonal, mmul, transpose, I3 in Ho'.
    destruct R0 as [a b c d e f g h i]; cbn in Ho'. injection Ho' as O1 O2 O3 O4 O5 O6 O7 O8 O9.
    unfold set_qform_R. cbn [lin tr].
    assert (ZN : col_norms (scale_cols (mkM a b c d e f g h i) (mk3 z1 z2 (z3 * s))) = mk3 z1 z2 z3).
    { unfold col_norms, scale_cols; cbn. f_equal.
      - replace (a * z1 * (a * z1) + d * z1 * (d * z1) + g * z1 * (g * z1)) with (z1 * z1) by nsatz.
        apply sqrt_sq_pos; lra.
      - replace (b * z2 * (b * z2) + e * z2 * (e * z2) + h * z2 * (h * z2)) with (z2 * z2) by nsatz.
        apply sqrt_sq_pos; lra.
      - replace (c * (z3 * s) * (c * (z3 * s)) + f * (z3 * s) * (f * (z3 * s)) + i * (z3 * s) * (i * (z3 * s)))
          with (z3 * z3) by (destruct Hs; subst s; nsatz).
        apply sqrt_sq_pos; lra. }
    rewrite ZN.
    assert (DV : div_cols (scale_cols (mkM a b c d e f g h i) (mk3 z1 z2 (z3 * s))) (mk3 z1 z2 z3)
                 = mkM a b (c * s) d e (f * s) g h (i * s)).
    { unfold div_cols, scale_cols; cbn. apply M3_eq; field; lra. }
    rewrite DV.
    assert (DT : det (mkM a b (c * s) d e (f * s) g h (i * s)) = s).
    { unfold det in *; cbn in *. transitivity (s * (a * (e * i - f * h) - b * (d * i - f * g) + c * (d * h - e * g))); [ring|].
      rewrite Hd; ring. }
    rewrite DT.
    destruct Hs as [-> | ->].
    - destruct (Rlt_dec 0 1); [|lra].
      replace (mkM a b (c * 1) d e (f * 1) g h (i * 1)) with (mkM a b c d e f g h i) by (apply M3_eq; ring).
      rewrite (polar_orth _ Ho). reflexivity.
    - destruct (Rlt_dec 0 (-1)); [lra|].
      replace (negcol3 (mkM a b (c * -1) d e (f * -1) g h (i * -1))) with (mkM a b c d e f g h i)
        by (unfold negcol3; cbn; apply M3_eq; ring).
      rewrite (polar_orth _ Ho). reflexivity.
  Qed.

  Theorem qform_roundtrip_ideal thr feps q0 z1 z2 z3 s t :
    0 < Rabs thr -> feps <= 1 ->
    qnorm2 q0 = 1 -> (qw q0 = 0 \/ Rabs thr <= qw q0 * qw q0) ->
    0 < z1 -> 0 < z2 -> 0 < z3 -> (s = 1 \/ s = -1) ->
    let A := mkAff (scale_cols (quat2mat feps q0) (mk3 z1 z2 (z3 * s))) t in
    get_qform_R thr feps (set_qform_R polar eigmax A) = Some A.
  Proof.
    intros Ht Hf H0 Hw H1 H2 H3 Hs. cbv zeta.
    rewrite (quat2mat_unit feps q0 Hf H0).
    rewrite (set_qform_rotation (rotq q0) z1 z2 z3 s t (rotq_orthogonal q0 H0) (rotq_det q0 H0) H1 H2 H3 Hs).
    cbv zeta.
    destruct (mat2quat_rotq q0 H0) as (Hq & Hpos & Hun). cbv zeta in *.
    rewrite (qnormalize_unit _ Hun).
    set (q := mat2quat eigmax (rotq q0)) in *.
    unfold get_qform_R. cbn [h_b h_c h_d h_zooms h_qfac h_off v1 v2 v3].
    assert (Hwq : qw q = 0 \/ Rabs thr <= qw q * qw q).
    { destruct Hq as [-> | ->]; [assumption|].
      destruct q0; unfold qneg; cbn in *. destruct Hw as [-> | Hw]; [left; ring|right; lra]. }
    rewrite (fillpositive_unit thr q Ht Hun Hpos Hwq).
    rewrite (quat2mat_unit feps q Hf Hun).
    assert (RR : rotq q = rotq q0) by (destruct Hq as [-> | ->]; [reflexivity|apply rotq_neg]).
    rewrite RR.
    destruct (Rlt_dec z1 0); [lra|]. destruct (Rlt_dec z2 0); [lra|]. destruct (Rlt_dec z3 0); [lra|].
    destruct Hs as [-> | ->].
    - destruct (Req_EM_T 1 1); [reflexivity|contradiction].
    - destruct (Req_EM_T (-1) 1); [lra|]. destruct (Req_EM_T (-1) (-1)); [reflexivity|contradiction].
  Qed.
End QformIdeal.

(* ------------------------------------------------------------- MGH, ideal arithmetic *)
Theorem mgh_roundtrip_ideal A shape :
  v1 (col_norms (lin A)) <> 0 -> v2 (col_norms (lin A)) <> 0 -> v3 (col_norms (lin A)) <> 0 ->
  mgh_get_affine (mgh_affine2header A shape) = A.
Proof.
  destruct A as [[a b c d e f g h i] [t1 t2 t3]], shape as [s1 s2 s3].
  unfold mgh_get_affine, mgh_affine2header. cbn [lin tr g_delta g_MdcT g_Pc g_dims].
  set (n := col_norms (mkM a b c d e f g h i)). intros N1 N2 N3.
  unfold scale_cols, transpose, div_cols, mvec; cbn.
  f_equal; [apply M3_eq; field; assumption|].
  f_equal; field; repeat split; assumption.
Qed.

(* a non-zero column has a non-zero norm, so the hypothesis above is "no zero column" *)
Lemma col_norm_nonzero a d g : (a <> 0 \/ d <> 0 \/ g <> 0) -> sqrt (a * a + d * d + g * g) <> 0.
Proof.
  intros H E.
  assert (P : 0 <= a * a + d * d + g * g).
  { pose proof (Rle_0_sqr a); pose proof (Rle_0_sqr d); pose proof (Rle_0_sqr g). unfold Rsqr in *. lra. }
  apply sqrt_eq_0 in E; [|assumption].
  pose proof (Rle_0_sqr a) as Sa; pose proof (Rle_0_sqr d) as Sd; pose proof (Rle_0_sqr g) as Sg. unfold Rsqr in *.
  assert (a = 0) by (apply sq0; lra). assert (d = 0) by (apply sq0; lra). assert (g = 0) by (apply sq0; lra).
  destruct H as [H|[H|H]]; contradiction.
Qed.


Lemma quat_roundtrip_partial thr feps q :
  0 < Rabs thr -> feps <= 1 -> qnorm2 q = 1 -> 0 <= qw q ->
  (qw q = 0 \/ Rabs thr <= qw q * qw q) ->
  fillpositive thr (qx q) (qy q) (qz q) = Some q
  /\ orthogonal (quat2mat feps q) /\ det (quat2mat feps q) = 1.
Proof.
  intros Ht Hf Hn Hw Hc. split; [exact (fillpositive_unit thr q Ht Hn Hw Hc)|].
  rewrite (quat2mat_unit feps q Hf Hn). split; [exact (rotq_orthogonal q Hn)|exact (rotq_det q Hn)].
Qed.

Lemma K_eigen feps q : feps <= 1 -> qnorm2 q = 1 -> Kapply (quat2mat feps q) q = q.
Proof. intros Hf Hn. rewrite (quat2mat_unit feps q Hf Hn). exact (K_eigen_rotq q Hn). Qed.

(* ------------------------------------------------------------- non-vacuity of the premises *)
Lemma nonvacuous_qform_premises :
  0 < Rabs (3 / 8388608) /\ (1 / 4503599627370496 <= 1)
  /\ qnorm2 (mkQt 0 1 0 0) = 1 /\ (qw (mkQt 0 1 0 0) = 0 \/ Rabs (3 / 8388608) <= qw (mkQt 0 1 0 0) * qw (mkQt 0 1 0 0))
  /\ 0 < 1 /\ 0 < 2 /\ 0 < 3 /\ (-1 = 1 \/ -1 = -1).
Proof.
  split; [apply Rabs_pos_lt; lra|]. split; [lra|]. split; [unfold qnorm2; cbn; lra|].
  split; [left; reflexivity|]. split; [lra|]. split; [lra|]. split; [lra|]. right; reflexivity.
Qed.
