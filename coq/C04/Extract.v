(* C04/Extract.v — extraction of the executable decision / codec / exact-rational model
   (ExtrOcamlBasic only; Z, positive, Q stay inductive).  ModelR.v (Coq R) is not extracted. *)
Require Extraction. Require ExtrOcamlBasic.
From NV Require Import Base.Bytes C04.Tables C04.Model.
Extraction Language OCaml.
Extraction "c04_model.ml" xform_code_values aligned_code unknown_code n1_cw n1_fw n2_cw n2_fw
  x_flip_analyze x_flip_spm99 x_flip_spm2 x_flip_nifti1 x_flip_nifti2
  best_src get_best_affine get_sform_coded get_qform_coded resolve_code set_sform set_qform
  nifti_save_load analyze_save_load affine_block pixdim_block read_blocks
  shape_zoom_affine spm_origin_used spm_origin_affine spm_write spm_mat_choice spm_read allclose update_decision.
