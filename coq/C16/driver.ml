(* C16 driver body (after `open C16_model` and drvlib.ml).  Grammar: see harness/c16.py. *)
let string_of_err = function
  | EMagic -> "magic" | ENoEnd -> "noend" | EKey -> "key" | EDatatype -> "datatype" | EFile -> "file"
  | ESeek -> "seek" | EBuf -> "buf" | EShape -> "shape" | EDelim -> "delim" | EEof -> "eof"
  | EHdrSize -> "hdrsize" | EVersion -> "version" | EName -> "name" | EStruct -> "struct"
  | EBufSmall -> "bufsmall" | ETruncated -> "truncated" | ENegPts -> "negpts" | EColon -> "colon"
  | ENameLen -> "namelen" | ETooMany -> "toomany" | EZeroDiv -> "zerodiv" | EScalars -> "scalars"
  | EProps -> "props" | EBadPoint -> "badpoint" | EOrder -> "order" | EFuel -> "fuel"
let offs = match trk_offs_now with Some o -> o | None -> failwith "layout"
let rec take_pairs n args f = if n = 0 then ([], args) else match args with
  | a :: b :: r -> let (l, r') = take_pairs (n - 1) r f in (f a b :: l, r')
  | _ -> failwith "bad pair args"
let kv a b = (bytes_of_hex a, bytes_of_hex b)
let kw a b = (bytes_of_hex a, z_of_string b)
let rec take_n_args n args = if n = 0 then ([], args) else match args with
  | a :: r -> let (l, r') = take_n_args (n - 1) r in (a :: l, r')
  | _ -> failwith "bad args"
let streams_str sl = string_of_int (List.length sl) ^
  String.concat "" (List.map (fun s -> " " ^ hex_of_bytes (enc_points false s)) sl)
let tck_res = function Ok sl -> "ok " ^ streams_str sl | Err e -> "err " ^ string_of_err e
let q_of_string s = match String.split_on_char '/' s with
  | [a] -> { qnum = z_of_string a; qden = XH }
  | [a; b] -> { qnum = z_of_string a; qden = pos_of_big (BigZ.of_string b) }
  | _ -> failwith "bad rational"
let string_of_q q = string_of_z q.qnum ^ "/" ^ BigZ.to_string (big_of_pos q.qden)
let q3 = function [a; b; c] -> ((q_of_string a, q_of_string b), q_of_string c) | _ -> failwith "q3"
let aff_of = function
  | [a;b;c;d;e;f;g;h;i;j;k;l] -> let q = q_of_string in
    { a00 = q a; a01 = q b; a02 = q c; a10 = q d; a11 = q e; a12 = q f; a20 = q g; a21 = q h; a22 = q i;
      b0 = q j; b1 = q k; b2 = q l }
  | _ -> failwith "aff"
let string_of_aff a = String.concat " " (List.map string_of_q
  [a.a00; a.a01; a.a02; a.a10; a.a11; a.a12; a.a20; a.a21; a.a22; a.b0; a.b1; a.b2])
let ornt_of_string s = List.map (fun p -> match String.split_on_char ',' p with
  | [a; f] -> (z_of_string a, z_of_string f) | _ -> failwith "ornt") (String.split_on_char ';' s)
let string_of_ornt o = String.concat ";" (List.map (fun (a, f) -> string_of_z a ^ "," ^ string_of_z f) o)
let sdict_str d = "[" ^ String.concat "," (List.map (fun (k, (lo, hi)) ->
  hex_of_bytes k ^ ":" ^ string_of_z lo ^ ":" ^ string_of_z hi) d) ^ "]"
let stream_str s = " " ^ string_of_int (List.length s.s_rows) ^ " " ^
  hex_of_bytes (List.concat_map (enc_list false (nat_of_int 4)) s.s_rows) ^ " " ^
  hex_of_bytes (enc_list false (nat_of_int 4) s.s_props)
(* passes: "-" (none) or comma separated "c" (complete) / "a<k>" (abandoned after k items) *)
let passes_of s = if s = "-" then [] else
  List.map (fun t -> if t = "c" then PComplete
                     else PAbandon (nat_of_int (int_of_string (String.sub t 1 (String.length t - 1)))))
    (String.split_on_char ',' s)
let handle op args = match op, args with
  | "ndig", [n] -> "ok " ^ string_of_z (ndigits (z_of_string n))
  | "decstr", [n] -> "ok " ^ hex_of_bytes (dec_str (z_of_string n))
  | "tckoff", [n] -> "ok " ^ string_of_z (tck_hdr_offset (z_of_string n))
  | "tckhdr", c :: n :: r ->
    let (items, _) = take_pairs (int_of_string n) r kv in
    (match tck_header (z_of_string c) items with Ok h -> "ok " ^ hex_of_bytes h | Err e -> "err " ^ string_of_err e)
  | "tcksave", c :: n :: r ->
    let (items, r) = take_pairs (int_of_string n) r kv in
    (match r with
     | ns :: r ->
       let (hs, _) = take_n_args (int_of_string ns) r in
       let sl = List.map (fun h -> triples_of false (bytes_of_hex h)) hs in
       (match tck_save (z_of_string c) items sl with Ok b -> "ok " ^ hex_of_bytes b | Err e -> "err " ^ string_of_err e)
     | _ -> failwith "tcksave")
  | "tckparse", [h] ->
    (match tck_parse_header (bytes_of_hex h) with
     | Ok (be, off) -> "ok " ^ string_of_bool be ^ " " ^ string_of_z off
     | Err e -> "err " ^ string_of_err e)
  | "tckload", [b; h] -> tck_res (tck_load (z_of_string b) (bytes_of_hex h))
  | "tckdata", [be; bsz; h] -> tck_res (tck_read_data (bool_of_string be) (z_of_string bsz) (bytes_of_hex h))
  | "tckall", [be; h] -> tck_res (tck_read_all (bool_of_string be) (bytes_of_hex h))
  | "tckbuf", [b] -> "ok " ^ string_of_z (tck_bufsize (z_of_string b))
  | "trksave", p :: pre :: dims :: vs :: orig :: v2r :: ord :: c0 :: ns0 :: np0 :: nsk :: r ->
    let (sk, r) = take_pairs (int_of_string nsk) r kw in
    (match r with
     | npk :: r ->
       let (pk, r) = take_pairs (int_of_string npk) r kw in
       (match r with
        | ns :: r ->
          let rec streams n r = if n = 0 then [] else match r with
            | nc :: rows :: props :: r' ->
              { s_rows = rows_of false (z_of_string nc) (bytes_of_hex rows);
                s_props = words_of false (bytes_of_hex props) } :: streams (n - 1) r'
            | _ -> failwith "streams" in
          let sl = streams (int_of_string ns) r in
          let u = { u_dims = zlist_of_string dims; u_vsizes = zlist_of_string vs; u_origin = zlist_of_string orig;
                    u_v2r = zlist_of_string v2r; u_order = bytes_of_hex ord; u_count = z_of_string c0;
                    u_nscal = z_of_string ns0; u_nprop = z_of_string np0 } in
          let f0 = { fpos = z_of_string p; fbytes = bytes_of_hex pre } in
          (match trk_save offs f0 u sk pk sl with Ok b -> "ok " ^ hex_of_bytes b | Err e -> "err " ^ string_of_err e)
        | _ -> failwith "trksave")
     | _ -> failwith "trksave")
  | "trkload", [p; h] ->
    (match trk_load offs (z_of_string p) (bytes_of_hex h) with
     | Ok (i, sl) ->
       "ok be=" ^ string_of_bool i.i_be ^ " count=" ^ string_of_z i.i_count ^ " nscal=" ^ string_of_z i.i_nscal ^
       " nprop=" ^ string_of_z i.i_nprop ^ " ss=" ^ sdict_str i.i_sslices ^ " ps=" ^ sdict_str i.i_pslices ^
       " n=" ^ string_of_int (List.length sl) ^ String.concat "" (List.map stream_str sl)
     | Err e -> "err " ^ string_of_err e)
  | "wfoffs", [] -> "ok " ^ string_of_bool (wf_offs offs)
  | "tcksess", [b; lz; ps; pos; h] ->
    let f = { fpos = z_of_string pos; fbytes = bytes_of_hex h } in
    let lazy_ = bool_of_string lz in
    (match tck_session (z_of_string b) lazy_ (passes_of ps) f with
     | Ok (rs, f') -> let rs = if lazy_ then List.tl rs else rs in
                      "ok pos=" ^ string_of_z f'.fpos ^ " same=" ^ string_of_bool (f'.fbytes = f.fbytes) ^
                      " passes=" ^ String.concat "|" (List.map streams_str rs)
     | Err e -> "err " ^ string_of_err e)
  | "trksess", [lz; ps; pos; h] ->
    let f = { fpos = z_of_string pos; fbytes = bytes_of_hex h } in
    let lazy_ = bool_of_string lz in
    (match trk_session offs lazy_ (passes_of ps) f with
     | Ok (rs, f') -> let rs = if lazy_ then List.tl rs else rs in
                      "ok pos=" ^ string_of_z f'.fpos ^ " same=" ^ string_of_bool (f'.fbytes = f.fbytes) ^
                      " passes=" ^ String.concat "|" (List.map (fun sl -> string_of_int (List.length sl)) rs)
     | Err e -> "err " ^ string_of_err e)
  | "aff", v0 :: v1 :: v2 :: d0 :: d1 :: d2 :: ord :: oa :: r ->
    let vs = q3 [v0; v1; v2] and dims = q3 [d0; d1; d2] in
    let v = aff_of r in
    (match order_ornt (bytes_of_hex ord) with
     | None -> "err order"
     | Some oh ->
       let oa' = if oa = "sp" then io_orient_sp v else Some (ornt_of_string oa) in
       (match oa' with
        | None -> "err order"
        | Some oa' ->
          (match to_rasmm vs dims oh oa' v, to_trackvis vs dims oh oa' v with
           | Some t, Some ti -> "ok " ^ string_of_ornt oa' ^ " " ^ string_of_aff t ^ " " ^ string_of_aff ti
           | _, _ -> "err order")))
  (* lazy <hasdata> <R: 12 rationals | -> <nops> (W | A + 12 rationals)* <npts> (<x> <y> <z>)*
     -> ok torasmm=<12 rationals | none> streams=<points> items=<points>   | err unknown_space *)
  | "lazy", hd :: r ->
    let take12 r = let (l, r2) = take_n_args 12 r in (aff_of l, r2) in
    let (rr, r) = (match r with "-" :: r2 -> (None, r2) | _ -> let (a, r2) = take12 r in (Some a, r2)) in
    (match r with
     | nops :: r ->
       let rec ops n r = if n = 0 then ([], r) else (match r with
         | "W" :: r2 -> let (l, r3) = ops (n - 1) r2 in (None :: l, r3)
         | "A" :: r2 -> let (a, r3) = take12 r2 in let (l, r4) = ops (n - 1) r3 in (Some a :: l, r4)
         | _ -> failwith "ops") in
       let (opl, r) = ops (int_of_string nops) r in
       (match r with
        | npts :: r ->
          let rec pts n r = if n = 0 then [] else (match r with
            | x :: y :: z :: r2 -> ((q_of_string x, q_of_string y), q_of_string z) :: pts (n - 1) r2
            | _ -> failwith "pts") in
          let raw = [pts (int_of_string npts) r] in
          let t0 = if bool_of_string hd then { (lz_of_data_func raw) with lz_to_rasmm = rr } else lz_of_tractogram raw rr in
          let step acc op = (match acc with None -> None | Some t ->
            (match op with Some a -> Some (lz_apply_affine a t) | None -> lz_to_world t)) in
          (match List.fold_left step (Some t0) opl with
           | None -> "err unknown_space"
           | Some t ->
             let spts l = String.concat ";" (List.map (fun ((x, y), z) ->
               string_of_q (qred x) ^ "," ^ string_of_q (qred y) ^ "," ^ string_of_q (qred z)) (List.concat l)) in
             "ok torasmm=" ^ (match t.lz_to_rasmm with None -> "none" | Some a -> String.concat "," (String.split_on_char ' ' (string_of_aff (aff_red a)))) ^
             " streams=" ^ spts (lz_streamlines t) ^ " items=" ^ spts (lz_items t))
        | _ -> failwith "lazy")
     | _ -> failwith "lazy")
  | "ornts", [] -> "ok " ^ String.concat " " (List.map string_of_ornt all_ornts)
  | _ -> "err driver:badop"
let () = run_lines handle
