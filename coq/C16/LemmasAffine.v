(* C16/LemmasAffine.v — proofs about C16/ModelAffine.v (ideal arithmetic over Q) *)
From Coq Require Import ZArith QArith Qfield List Bool Lia Setoid.
From NV Require Import C16.ModelAffine.
Import ListNotations.
Open Scope Q_scope.

Lemma aff_eq_refl A : aff_eq A A.
Proof. unfold aff_eq. repeat split; reflexivity. Qed.
Lemma aff_eq_sym A B : aff_eq A B -> aff_eq B A.
Proof. unfold aff_eq. intuition (symmetry; assumption). Qed.
Lemma aff_eq_trans A B C : aff_eq A B -> aff_eq B C -> aff_eq A C.
Proof.
  unfold aff_eq. intros (a1&a2&a3&a4&a5&a6&a7&a8&a9&a10&a11&a12) (c1&c2&c3&c4&c5&c6&c7&c8&c9&c10&c11&c12).
  repeat split; etransitivity; eassumption.
Qed.

Lemma aff_red_eq A : aff_eq (aff_red A) A.
Proof. unfold aff_eq, aff_red; cbn. repeat split; apply Qred_correct. Qed.

Lemma aff_mul_proper A A' B B' : aff_eq A A' -> aff_eq B B' -> aff_eq (aff_mul A B) (aff_mul A' B').
Proof.
  unfold aff_eq. intros (a1&a2&a3&a4&a5&a6&a7&a8&a9&a10&a11&a12) (c1&c2&c3&c4&c5&c6&c7&c8&c9&c10&c11&c12).
  cbn. rewrite a1,a2,a3,a4,a5,a6,a7,a8,a9,a10,a11,a12,c1,c2,c3,c4,c5,c6,c7,c8,c9,c10,c11,c12.
  repeat split; reflexivity.
Qed.

Lemma aff_mul_r_eq A B : aff_eq (aff_mul_r A B) (aff_mul A B).
Proof. apply aff_red_eq. Qed.

Lemma aff_det_proper A A' : aff_eq A A' -> aff_det A == aff_det A'.
Proof.
  unfold aff_eq. intros (a1&a2&a3&a4&a5&a6&a7&a8&a9&_). unfold aff_det.
  rewrite a1,a2,a3,a4,a5,a6,a7,a8,a9. reflexivity.
Qed.

Lemma aff_det_mul A B : aff_det (aff_mul A B) == aff_det A * aff_det B.
Proof. unfold aff_det, aff_mul; cbn. ring. Qed.

Lemma aff_mul_assoc A B C : aff_eq (aff_mul (aff_mul A B) C) (aff_mul A (aff_mul B C)).
Proof. unfold aff_eq, aff_mul; cbn. repeat split; ring. Qed.

Lemma aff_mul_id_l A : aff_eq (aff_mul aff_id A) A.
Proof. unfold aff_eq, aff_mul, aff_id; cbn. repeat split; ring. Qed.
Lemma aff_mul_id_r A : aff_eq (aff_mul A aff_id) A.
Proof. unfold aff_eq, aff_mul, aff_id; cbn. repeat split; ring. Qed.

Lemma aff_inv_pure_r A : ~ aff_det A == 0 -> aff_eq (aff_mul A (aff_inv_pure A)) aff_id.
Proof.
  intros H. unfold aff_eq, aff_mul, aff_inv_pure, aff_id; cbn.
  unfold aff_det in H |- *. repeat split; field; exact H.
Qed.

Lemma aff_inv_pure_l A : ~ aff_det A == 0 -> aff_eq (aff_mul (aff_inv_pure A) A) aff_id.
Proof.
  intros H. unfold aff_eq, aff_mul, aff_inv_pure, aff_id; cbn.
  unfold aff_det in H |- *. repeat split; field; exact H.
Qed.

Lemma aff_inv_eq A : aff_eq (aff_inv A) (aff_inv_pure A).
Proof.
  unfold aff_eq, aff_inv, aff_inv_pure. cbv zeta. cbn [a00 a01 a02 a10 a11 a12 a20 a21 a22 b0 b1 b2].
  repeat split; rewrite !Qred_correct; reflexivity.
Qed.

Lemma aff_inv_r A : ~ aff_det A == 0 -> aff_eq (aff_mul A (aff_inv A)) aff_id.
Proof.
  intros H. eapply aff_eq_trans; [|apply aff_inv_pure_r; exact H].
  apply aff_mul_proper; [apply aff_eq_refl|apply aff_inv_eq].
Qed.
Lemma aff_inv_l A : ~ aff_det A == 0 -> aff_eq (aff_mul (aff_inv A) A) aff_id.
Proof.
  intros H. eapply aff_eq_trans; [|apply aff_inv_pure_l; exact H].
  apply aff_mul_proper; [apply aff_inv_eq|apply aff_eq_refl].
Qed.

(* points *)
Definition pt_eq (p q : Q * Q * Q) : Prop :=
  let '(x, y, z) := p in let '(u, v, w) := q in x == u /\ y == v /\ z == w.

Lemma aff_apply_mul A B p : pt_eq (aff_apply (aff_mul A B) p) (aff_apply A (aff_apply B p)).
Proof. destruct p as [[x y] z]. unfold pt_eq, aff_apply, aff_mul; cbn. repeat split; ring. Qed.

Lemma aff_apply_proper A B p : aff_eq A B -> pt_eq (aff_apply A p) (aff_apply B p).
Proof.
  destruct p as [[x y] z]. unfold aff_eq. intros (a1&a2&a3&a4&a5&a6&a7&a8&a9&a10&a11&a12).
  unfold pt_eq, aff_apply. rewrite a1,a2,a3,a4,a5,a6,a7,a8,a9,a10,a11,a12. repeat split; reflexivity.
Qed.

Lemma aff_apply_id p : pt_eq (aff_apply aff_id p) p.
Proof. destruct p as [[x y] z]. unfold pt_eq, aff_apply, aff_id; cbn. repeat split; ring. Qed.

Lemma pt_eq_trans p q r : pt_eq p q -> pt_eq q r -> pt_eq p r.
Proof.
  destruct p as [[a b] c], q as [[d e] f], r as [[g h] i]. unfold pt_eq.
  intros (A&B&C) (D&E&F). repeat split; etransitivity; eassumption.
Qed.
Lemma pt_eq_sym p q : pt_eq p q -> pt_eq q p.
Proof. destruct p as [[a b] c], q as [[d e] f]. unfold pt_eq. intuition (symmetry; assumption). Qed.

(* ---- the orientation part has determinant +-1 for all 48 x 48 pairs *)
Fixpoint ornt_eqb (a b : ornt) : bool :=
  match a, b with
  | [], [] => true
  | (x, f) :: a', (y, g) :: b' => ((x =? y) && (f =? g))%Z && ornt_eqb a' b'
  | _, _ => false
  end.

Lemma ornt_eqb_eq a : forall b, ornt_eqb a b = true -> a = b.
Proof.
  induction a as [|[x f] a IH]; intros [|[y g] b] H; simpl in H; try discriminate; [reflexivity|].
  apply andb_true_iff in H as [H1 H2]. apply andb_true_iff in H1 as [Hx Hf].
  apply Z.eqb_eq in Hx, Hf. subst. f_equal. now apply IH.
Qed.

Definition det_pm1 (o : ornt) : bool :=
  let d := aff_det (inv_ornt_aff o (0, 0, 0)) in Qeq_bool d 1 || Qeq_bool d (-1).

(* checked exhaustively over the 48 x 48 pairs of orientations *)
Lemma transform_closed_48 :
  forallb (fun oh => forallb (fun oa =>
    match ornt_transform oh oa with
    | Some o => existsb (ornt_eqb o) all_ornts && det_pm1 o
    | None => false
    end) all_ornts) all_ornts = true.
Proof. vm_compute. reflexivity. Qed.

Lemma det_inv_ornt_dims o dims : aff_det (inv_ornt_aff o dims) = aff_det (inv_ornt_aff o (0, 0, 0)).
Proof.
  destruct dims as [[d0 d1] d2].
  destruct o as [|[x0 f0] [|[x1 f1] [|[x2 f2] [|? ?]]]]; reflexivity.
Qed.

Lemma transform_48 oh oa dims : In oh all_ornts -> In oa all_ornts ->
  exists o, ornt_transform oh oa = Some o /\
    (aff_det (inv_ornt_aff o dims) == 1 \/ aff_det (inv_ornt_aff o dims) == -1).
Proof.
  intros Hh Ha. pose proof transform_closed_48 as H.
  rewrite forallb_forall in H. specialize (H _ Hh). rewrite forallb_forall in H. specialize (H _ Ha).
  destruct (ornt_transform oh oa) as [o|]; [|discriminate]. exists o. split; [reflexivity|].
  apply andb_true_iff in H as [_ H]. unfold det_pm1 in H. rewrite det_inv_ornt_dims.
  apply orb_true_iff in H as [H|H]; apply Qeq_bool_iff in H; [left|right]; exact H.
Qed.

(* the 48 three-letter voxel orders are exactly the 48 orientations *)
Definition all_orders : list (list Z) :=
  flat_map (fun p : (Z * Z) * (Z * Z) * (Z * Z) =>
    let '(a, b, c) := p in
    flat_map (fun x => flat_map (fun y => map (fun z => [x; y; z]) [fst c; snd c]) [fst b; snd b]) [fst a; snd a])
  [((76, 82), (80, 65), (73, 83)); ((76, 82), (73, 83), (80, 65)); ((80, 65), (76, 82), (73, 83));
   ((80, 65), (73, 83), (76, 82)); ((73, 83), (76, 82), (80, 65)); ((73, 83), (80, 65), (76, 82))]%Z.

Lemma orders_are_ornts :
  length all_orders = 48%nat /\
  forallb (fun c => match order_ornt c with Some o => existsb (ornt_eqb o) all_ornts | None => false end)
          all_orders = true /\
  forallb (fun o => existsb (fun c => match order_ornt c with Some o' => ornt_eqb o o' | None => false end)
                            all_orders) all_ornts = true.
Proof. vm_compute. repeat split; reflexivity. Qed.

Lemma order_ornt_in c o : In c all_orders -> order_ornt c = Some o -> In o all_ornts.
Proof.
  intros Hc E. destruct orders_are_ornts as (_ & H & _). rewrite forallb_forall in H.
  specialize (H _ Hc). rewrite E in H. apply existsb_exists in H as (o' & Hin & Heq).
  apply ornt_eqb_eq in Heq. now subst.
Qed.

(* ---- the theorem *)
Lemma Qmult_nonzero a b : ~ a == 0 -> ~ b == 0 -> ~ a * b == 0.
Proof. intros Ha Hb H. apply Qmult_integral in H. tauto. Qed.

Lemma det_scale vs : aff_det (aff_scale vs) == (1 / fst (fst vs)) * (1 / snd (fst vs)) * (1 / snd vs).
Proof. destruct vs as [[s0 s1] s2]. unfold aff_det, aff_scale; cbn. ring. Qed.
Lemma det_halfvox : aff_det aff_halfvox == 1.
Proof. unfold aff_det, aff_halfvox; cbn. ring. Qed.

Lemma Qinv_nonzero s : ~ s == 0 -> ~ 1 / s == 0.
Proof. intros H E. apply H. rewrite <- (Qmult_1_l s). rewrite <- (Qmult_inv_r s H) at 1.
  assert (E' : / s == 0) by (rewrite <- E; field; exact H). rewrite E'. ring. Qed.

Lemma to_rasmm_det vs dims oh oa V T :
  In oh all_ornts -> In oa all_ornts ->
  ~ fst (fst vs) == 0 -> ~ snd (fst vs) == 0 -> ~ snd vs == 0 -> ~ aff_det V == 0 ->
  to_rasmm vs dims oh oa V = Some T -> ~ aff_det T == 0.
Proof.
  intros Hh Ha H0 H1 H2 HV E. unfold to_rasmm in E.
  destruct (transform_48 oh oa dims Hh Ha) as (o & Eo & Hd). rewrite Eo in E. injection E as <-.
  rewrite (aff_det_proper _ _ (aff_mul_r_eq _ _)), aff_det_mul.
  rewrite (aff_det_proper _ _ (aff_mul_r_eq _ _)), aff_det_mul.
  rewrite (aff_det_proper _ _ (aff_mul_r_eq _ _)), aff_det_mul.
  rewrite det_halfvox, det_scale.
  apply Qmult_nonzero; [exact HV|]. apply Qmult_nonzero.
  - destruct Hd as [Hd|Hd]; rewrite Hd; discriminate.
  - apply Qmult_nonzero; [discriminate|].
    apply Qmult_nonzero; [apply Qmult_nonzero|]; apply Qinv_nonzero; assumption.
Qed.

Lemma to_rasmm_defined vs dims oh oa V : In oh all_ornts -> In oa all_ornts ->
  exists T, to_rasmm vs dims oh oa V = Some T.
Proof.
  intros Hh Ha. unfold to_rasmm. destruct (transform_48 oh oa dims Hh Ha) as (o & Eo & _).
  rewrite Eo. eexists; reflexivity.
Qed.

Lemma affine_inverse_ideal vs dims oh oa V :
  In oh all_ornts -> In oa all_ornts ->
  ~ fst (fst vs) == 0 -> ~ snd (fst vs) == 0 -> ~ snd vs == 0 -> ~ aff_det V == 0 ->
  exists T Ti, to_rasmm vs dims oh oa V = Some T /\ to_trackvis vs dims oh oa V = Some Ti
    /\ aff_eq (aff_mul T Ti) aff_id /\ aff_eq (aff_mul Ti T) aff_id
    /\ (forall p, pt_eq (aff_apply T (aff_apply Ti p)) p)
    /\ (forall p, pt_eq (aff_apply Ti (aff_apply T p)) p).
Proof.
  intros Hh Ha H0 H1 H2 HV.
  destruct (to_rasmm_defined vs dims oh oa V Hh Ha) as [T ET].
  pose proof (to_rasmm_det _ _ _ _ _ _ Hh Ha H0 H1 H2 HV ET) as HT.
  exists T, (aff_inv T). unfold to_trackvis. rewrite ET. cbn [option_map].
  pose proof (aff_inv_r T HT) as R. pose proof (aff_inv_l T HT) as L.
  split; [reflexivity|]. split; [reflexivity|]. split; [exact R|]. split; [exact L|].
  split; intros p.
  - eapply pt_eq_trans; [apply pt_eq_sym, aff_apply_mul|].
    eapply pt_eq_trans; [apply aff_apply_proper, R|apply aff_apply_id].
  - eapply pt_eq_trans; [apply pt_eq_sym, aff_apply_mul|].
    eapply pt_eq_trans; [apply aff_apply_proper, L|apply aff_apply_id].
Qed.
