(* C16/LemmasTrk.v — the TRK writer/reader round trip (structure: counts, order, names, columns) *)
From Coq Require Import ZArith List Bool Lia ZifyBool.
From NV Require Import Base.Bytes C16.Tables C16.Model C16.Lemmas.
Import ListNotations.
Open Scope Z_scope.

(* ------------------------------------------------------------------ get_at / set_at *)
Lemma take_take {A} i j (l : list A) : 0 <= i <= j -> take i (take j l) = take i l.
Proof. intros H. unfold take. rewrite firstn_firstn. f_equal. lia. Qed.

Lemma skipn_skipn' {A} (x y : nat) : forall l : list A, skipn x (skipn y l) = skipn (y + x) l.
Proof.
  induction y as [|y IH]; intros l; [reflexivity|]. destruct l as [|a l]; cbn [skipn plus].
  - now rewrite skipn_nil.
  - apply IH.
Qed.

Lemma drop_drop {A} i j (l : list A) : 0 <= i -> 0 <= j -> drop i (drop j l) = drop (i + j) l.
Proof. intros Hi Hj. unfold drop. rewrite skipn_skipn'. f_equal. lia. Qed.

Lemma take_drop_comm {A} n off (l : list A) : 0 <= n -> 0 <= off ->
  take n (drop off l) = drop off (take (off + n) l).
Proof.
  intros Hn Ho. unfold take, drop. rewrite firstn_skipn_comm. do 2 f_equal. lia.
Qed.

Lemma take_app_le {A} n (a b : list A) : n <= zlen a -> take n (a ++ b) = take n a.
Proof.
  intros H. unfold take. rewrite firstn_app.
  replace (Z.to_nat n - length a)%nat with 0%nat by (unfold zlen in H; lia).
  cbn [firstn]. apply app_nil_r.
Qed.

Lemma drop_app_ge {A} n (a b : list A) : zlen a <= n -> drop n (a ++ b) = drop (n - zlen a) b.
Proof.
  intros H. unfold drop. rewrite skipn_app. rewrite skipn_all2 by (unfold zlen in H; lia).
  cbn [app]. f_equal. unfold zlen in *. lia.
Qed.

Lemma zlen_set_at off d blk : 0 <= off -> off + zlen d <= zlen blk -> zlen (set_at off d blk) = zlen blk.
Proof.
  intros H0 H1. pose proof (zlen_nonneg d). unfold set_at. rewrite takez_eq, dropz_eq.
  rewrite !zlen_app, zlen_take, zlen_drop by lia. lia.
Qed.

Lemma get_set_same off d blk : 0 <= off -> off <= zlen blk ->
  get_at off (zlen d) (set_at off d blk) = d.
Proof.
  intros H0 H1. unfold get_at, set_at. rewrite !takez_eq, !dropz_eq.
  rewrite drop_app_ge by (rewrite zlen_take; lia). rewrite zlen_take by lia.
  replace (off - Z.min off (zlen blk)) with 0 by lia. rewrite drop_0 by lia.
  apply take_app_exact.
Qed.

Lemma get_set_other off n off' d blk :
  0 <= off -> 0 <= n -> 0 <= off' -> off' + zlen d <= zlen blk ->
  (off + n <= off' \/ off' + zlen d <= off) ->
  get_at off n (set_at off' d blk) = get_at off n blk.
Proof.
  intros H0 Hn H0' Hb Hd. pose proof (zlen_nonneg d) as Hdl.
  unfold get_at, set_at. rewrite !takez_eq, !dropz_eq.
  destruct Hd as [Hd|Hd].
  - (* read region before the written one *)
    rewrite !take_drop_comm by lia. f_equal.
    rewrite take_app_le by (rewrite zlen_take; lia). apply take_take. lia.
  - f_equal. rewrite app_assoc. rewrite drop_app_ge by (rewrite zlen_app, zlen_take; lia).
    rewrite zlen_app, zlen_take by lia. rewrite drop_drop by lia. f_equal. lia.
Qed.

(* ------------------------------------------------------------------ codecs of lists *)
Lemma zlen_enc be w x : zlen (enc be w x) = Z.of_nat w.
Proof. unfold zlen. now rewrite enc_length. Qed.
Lemma zlen_enc_s be w x : zlen (enc_s be w x) = Z.of_nat w.
Proof. unfold enc_s. apply zlen_enc. Qed.

Lemma zlen_enc_list be l : zlen (enc_list be 4 l) = 4 * zlen l.
Proof.
  induction l as [|x l IH]; [reflexivity|]. unfold enc_list. cbn [flat_map]. fold (enc_list be 4 l).
  rewrite zlen_app, zlen_enc, zlen_cons, IH. lia.
Qed.
Lemma zlen_enc_s_list be l : zlen (enc_s_list be 2 l) = 2 * zlen l.
Proof.
  induction l as [|x l IH]; [reflexivity|]. unfold enc_s_list. cbn [flat_map]. fold (enc_s_list be 2 l).
  rewrite zlen_app, zlen_enc_s, zlen_cons, IH. lia.
Qed.
Lemma zlen_zeros n : 0 <= n -> zlen (zeros n) = n.
Proof. apply zeros_length. Qed.
Lemma zlen_pad_to n l : 0 <= n -> zlen (pad_to n l) = n.
Proof.
  intros H. unfold pad_to. rewrite takez_eq, zlen_app, zlen_take by lia.
  destruct (Z.le_gt_cases n (zlen l)).
  - unfold zeros. replace (Z.to_nat (n - zlen l)) with 0%nat by lia. change (zlen (repeat 0 0)) with 0. lia.
  - rewrite zlen_zeros by lia. lia.
Qed.

Lemma chop_all_cons fuel w x rest : 0 < w -> zlen x = w -> x <> [] ->
  chop_all (S fuel) w (x ++ rest) = x :: chop_all fuel w rest.
Proof.
  intros Hw Hx Hne. cbn [chop_all]. destruct (x ++ rest) eqn:E.
  - destruct x; [congruence|discriminate].
  - rewrite <- E, takez_eq, dropz_eq, take_app_len, drop_app_len by assumption. reflexivity.
Qed.

Lemma chop_all_nil fuel w : chop_all fuel w [] = [].
Proof. destruct fuel; reflexivity. Qed.

Lemma enc_nonnil be x : enc be 4 x <> [].
Proof. intros E. pose proof (enc_length be 4 x) as H. rewrite E in H. discriminate. Qed.

Lemma words_of_enc_aux be : forall l fuel, (length l <= fuel)%nat -> Forall f32_ok l ->
  map (dec be) (chop_all fuel 4 (enc_list be 4 l)) = l.
Proof.
  induction l as [|x l IH]; intros fuel Hf Hok.
  - cbn. now rewrite chop_all_nil.
  - destruct fuel as [|fuel]; [simpl in Hf; lia|]. inversion Hok as [|? ? Hx Hl]; subst.
    unfold enc_list. cbn [flat_map]. fold (enc_list be 4 l).
    rewrite chop_all_cons; [|lia|apply zlen_enc|apply enc_nonnil].
    cbn [map]. rewrite dec_enc by (rewrite pow256_4; exact Hx). rewrite IH; [reflexivity|simpl in Hf; lia|assumption].
Qed.

Lemma words_of_enc be l : Forall f32_ok l -> words_of be (enc_list be 4 l) = l.
Proof.
  intros H. unfold words_of. apply words_of_enc_aux; [|assumption].
  pose proof (zlen_enc_list be l) as E. unfold zlen in E. lia.
Qed.

Definition row_ok (ncols : Z) (r : list Z) : Prop := zlen r = ncols /\ Forall f32_ok r.

Lemma rows_of_enc_aux be ncols : 0 < ncols -> forall rows fuel, (length rows <= fuel)%nat ->
  Forall (row_ok ncols) rows ->
  map (words_of be) (chop_all fuel (4 * ncols) (flat_map (enc_list be 4) rows)) = rows.
Proof.
  intros Hn. induction rows as [|r rows IH]; intros fuel Hf Hok.
  - cbn. now rewrite chop_all_nil.
  - destruct fuel as [|fuel]; [simpl in Hf; lia|]. inversion Hok as [|? ? [Hr Hro] Hl]; subst.
    cbn [flat_map]. rewrite chop_all_cons.
    + cbn [map]. rewrite words_of_enc by assumption. rewrite IH; [reflexivity|simpl in Hf; lia|assumption].
    + lia.
    + rewrite zlen_enc_list. lia.
    + destruct r as [|x r]; [change (zlen (@nil Z)) with 0 in Hn; lia|].
      unfold enc_list. cbn [flat_map]. intros E. apply app_eq_nil in E as [E _]. now apply enc_nonnil in E.
Qed.

Lemma zlen_rows_bytes be ncols rows : Forall (row_ok ncols) rows ->
  zlen (flat_map (enc_list be 4) rows) = zlen rows * (ncols * 4).
Proof.
  induction rows as [|r rows IH]; intros H; [reflexivity|]. inversion H as [|? ? [Hr _] Hl]; subst.
  cbn [flat_map]. rewrite zlen_app, zlen_enc_list, zlen_cons, IH by assumption. lia.
Qed.

Lemma rows_of_enc be ncols rows : 0 < ncols -> Forall (row_ok ncols) rows ->
  rows_of be ncols (flat_map (enc_list be 4) rows) = rows.
Proof.
  intros Hn H. unfold rows_of. apply rows_of_enc_aux; [assumption| |assumption].
  pose proof (zlen_rows_bytes be ncols rows H) as E. unfold zlen in E. nia.
Qed.

(* ------------------------------------------------------------------ records *)
Definition wf_tstream (S P : Z) (s : trk_stream) : Prop :=
  s_rows s <> [] /\ zlen (s_rows s) < 2 ^ 31 /\ Forall (row_ok (3 + S)) (s_rows s)
  /\ row_ok P (s_props s).

Lemma pow256_4_half : pow256 4 / 2 = 2 ^ 31.
Proof. reflexivity. Qed.

Lemma trk_step_record be S P nb k s rest :
  0 <= S -> 0 <= P -> wf_tstream S P s ->
  (match nb with Some n => k < n | None => True end) ->
  trk_step be (3 + S) P nb k (trk_record be s ++ rest)
  = SRec s (4 + zlen (s_rows s) * ((3 + S) * 4) + P * 4) rest.
Proof.
  intros HS HP (Hne & Hlt & Hrows & Hpl & Hpo) Hk. destruct s as [rows props]. cbn [s_rows s_props] in *.
  unfold trk_step.
  replace (match nb with Some n => n <=? k | None => false end) with false
    by (destruct nb; lia).
  unfold trk_record. cbn [s_rows s_props]. rewrite <- !app_assoc.
  pose proof (zlen_nonneg rows) as Hr0.
  rewrite !takez_eq, !dropz_eq.
  rewrite (take_app_len 4) by apply zlen_enc_s. rewrite zlen_enc_s.
  change (Z.of_nat 4 =? 0) with false. change (Z.of_nat 4 <? 4) with false. cbv iota.
  rewrite dec_s_enc_s by (rewrite ?pow256_4_half; lia).
  replace (zlen rows <? 0) with false by lia.
  rewrite (drop_app_len 4) by apply zlen_enc_s.
  pose proof (zlen_rows_bytes be (3 + S) rows Hrows) as Hb.
  rewrite (take_app_len (zlen rows * ((3 + S) * 4))) by exact Hb.
  rewrite Hb. replace (_ <? _) with false by lia.
  rewrite (drop_app_len (zlen rows * ((3 + S) * 4))) by exact Hb.
  assert (Hq : zlen (enc_list be 4 props) = P * 4) by (rewrite zlen_enc_list; lia).
  rewrite (take_app_len (P * 4)) by exact Hq. rewrite Hq. replace (P * 4 <? P * 4) with false by lia.
  rewrite (drop_app_len (P * 4)) by exact Hq.
  rewrite rows_of_enc by (assumption || lia). rewrite words_of_enc by assumption. reflexivity.
Qed.

Lemma trk_loop_records be S P : 0 <= S -> 0 <= P ->
  forall sl fuel k acc n, Forall (wf_tstream S P) sl -> (length sl < fuel)%nat -> n = k + zlen sl ->
  trk_loop fuel be (3 + S) P (Some n) k (flat_map (trk_record be) sl) acc = Ok (rev acc ++ sl).
Proof.
  intros HS HP. induction sl as [|s sl IH]; intros fuel k acc n Hwf Hf Hn.
  - destruct fuel as [|fuel]; [simpl in Hf; lia|]. cbn [trk_loop flat_map]. unfold trk_step.
    change (zlen (@nil trk_stream)) with 0 in Hn. replace (n <=? k) with true by lia. now rewrite app_nil_r.
  - destruct fuel as [|fuel]; [simpl in Hf; lia|]. inversion Hwf as [|? ? Hs Hsl]; subst.
    cbn [trk_loop flat_map]. rewrite zlen_cons. pose proof (zlen_nonneg sl).
    rewrite trk_step_record by (assumption || lia).
    rewrite IH; [|assumption|simpl in Hf; lia|lia]. cbn [rev]. now rewrite <- app_assoc.
Qed.

(* ------------------------------------------------------------------ decimal text read back *)
Lemma parse_digits_app : forall a b acc,
  parse_digits (a ++ b) acc = match parse_digits a acc with Some v => parse_digits b v | None => None end.
Proof.
  induction a as [|c a IH]; intros b acc; [reflexivity|]. cbn [app parse_digits].
  destruct ((48 <=? c) && (c <=? 57)); [apply IH|reflexivity].
Qed.

Lemma digits_fuel_acc : forall fuel n acc, digits_fuel fuel n acc = digits_fuel fuel n [] ++ acc.
Proof.
  induction fuel as [|fuel IH]; intros n acc; [reflexivity|]. cbn [digits_fuel].
  destruct (n <? 10); [reflexivity|]. rewrite IH, (IH _ [_]). rewrite <- app_assoc. reflexivity.
Qed.

Lemma parse_digits_fuel : forall fuel n, 0 <= n -> n < 10 ^ Z.of_nat fuel -> (0 < fuel)%nat ->
  parse_digits (digits_fuel fuel n []) 0 = Some n.
Proof.
  induction fuel as [|fuel IH]; intros n Hn Hlt Hf; [lia|]. cbn [digits_fuel].
  destruct (Z.ltb_spec n 10) as [H10|H10].
  - cbn [parse_digits]. replace ((48 <=? 48 + n) && (48 + n <=? 57)) with true by lia. f_equal. lia.
  - rewrite Nat2Z.inj_succ, Z.pow_succ_r in Hlt by lia.
    rewrite digits_fuel_acc, parse_digits_app. rewrite IH.
    + cbn [parse_digits].
      replace ((48 <=? 48 + n mod 10) && (48 + n mod 10 <=? 57)) with true
        by (Z.to_euclidean_division_equations; lia).
      f_equal. Z.to_euclidean_division_equations; lia.
    + apply Z.div_pos; lia.
    + apply Z.div_lt_upper_bound; lia.
    + destruct fuel as [|fuel']; [|lia]. simpl in Hlt. lia.
Qed.

Lemma digits_fuel_digits : forall fuel n acc, 0 <= n -> Forall (fun c => 48 <= c <= 57) acc ->
  Forall (fun c => 48 <= c <= 57) (digits_fuel fuel n acc).
Proof.
  induction fuel as [|fuel IH]; intros n acc Hn Ha; [exact Ha|]. cbn [digits_fuel].
  destruct (Z.ltb_spec n 10).
  - constructor; [lia|exact Ha].
  - apply IH; [apply Z.div_pos; lia|]. constructor; [Z.to_euclidean_division_equations; lia|exact Ha].
Qed.

Lemma dec_str_digits n : 0 <= n -> Forall (fun c => 48 <= c <= 57) (dec_str n) /\ dec_str n <> [].
Proof.
  intros H. split; [apply digits_fuel_digits; [assumption|constructor]|].
  unfold dec_str. cbn [digits_fuel]. destruct (n <? 10); [discriminate|].
  rewrite digits_fuel_acc. intros E. apply app_eq_nil in E as [_ E]. discriminate.
Qed.

Lemma fuel_enough n : 0 <= n -> n < 10 ^ Z.of_nat (S (Z.to_nat (Z.log2 n))).
Proof.
  intros H. destruct (Z.eq_dec n 0) as [->|Hn]; [reflexivity|].
  rewrite Nat2Z.inj_succ, Z2Nat.id by apply Z.log2_nonneg.
  pose proof (Z.log2_spec n ltac:(lia)) as [_ H2].
  pose proof (pow10_gt_pow2 (Z.succ (Z.log2 n))). pose proof (Z.log2_nonneg n). lia.
Qed.

Lemma parse_int_dec_str n : 0 <= n -> parse_int (dec_str n) = Some n.
Proof.
  intros H. destruct (dec_str_digits n H) as [Hd Hne].
  assert (P : parse_digits (dec_str n) 0 = Some n).
  { unfold dec_str. apply parse_digits_fuel; [assumption|now apply fuel_enough|lia]. }
  unfold parse_int. destruct (dec_str n) as [|c r]; [congruence|].
  inversion Hd as [|? ? Hc _]; subst.
  replace (c =? 45) with false by lia. replace (c =? 43) with false by lia. exact P.
Qed.

(* ------------------------------------------------------------------ names *)
Lemma list_eqb_spec a : forall b, list_eqb a b = true <-> a = b.
Proof.
  induction a as [|x a IH]; intros [|y b]; cbn [list_eqb]; split; intros H; try discriminate; try reflexivity.
  - apply andb_true_iff in H as [H1 H2]. apply Z.eqb_eq in H1. apply IH in H2. congruence.
  - injection H as -> ->. rewrite Z.eqb_refl. cbn. now apply IH.
Qed.

Definition nz (l : list Z) : Prop := Forall (fun c => c <> 0) l.

Lemma rstrip0_last a c : c <> 0 -> rstrip0 (a ++ [c]) = a ++ [c].
Proof.
  intros Hc. induction a as [|x a IH]; cbn [app rstrip0].
  - destruct (Z.eqb_spec c 0); [contradiction|reflexivity].
  - rewrite IH. destruct (a ++ [c]) eqn:E; [destruct a; discriminate|reflexivity].
Qed.

Lemma rstrip0_nz l : nz l -> rstrip0 l = l.
Proof.
  intros H. destruct l as [|x l'] using rev_ind; [reflexivity|].
  apply rstrip0_last. apply Forall_app in H as [_ H]. now inversion H.
Qed.

Lemma split_nul_nz : forall l cur, nz l -> split_nul l cur = [cur ++ l].
Proof.
  induction l as [|c l IH]; intros cur H; cbn [split_nul]; [now rewrite app_nil_r|].
  inversion H as [|? ? Hc Hl]; subst. destruct (Z.eqb_spec c 0); [contradiction|].
  rewrite IH by assumption. rewrite <- app_assoc. reflexivity.
Qed.

Lemma split_nul_zero : forall a b cur, nz a -> split_nul (a ++ 0 :: b) cur = (cur ++ a) :: split_nul b [].
Proof.
  induction a as [|c a IH]; intros b cur H; cbn [app split_nul].
  - now rewrite app_nil_r.
  - inversion H as [|? ? Hc Hl]; subst. destruct (Z.eqb_spec c 0); [contradiction|].
    rewrite IH by assumption. rewrite <- app_assoc. reflexivity.
Qed.

Definition name_body (kw : list Z * Z) : list Z :=
  if snd kw <=? 1 then fst kw else fst kw ++ 0 :: dec_str (snd kw).
Definition enc_field (kw : list Z * Z) : list Z := name_body kw ++ zeros (20 - zlen (name_body kw)).

(* a key the TRK format can carry and give back: non-empty, no NUL byte, at least one value,
   and short enough for encode_value_in_name *)
Definition wf_key (kw : list Z * Z) : Prop :=
  fst kw <> [] /\ nz (fst kw) /\ 1 <= snd kw /\ zlen (name_body kw) <= 20.

Lemma digits_nz n : 0 <= n -> nz (dec_str n).
Proof. intros H. destruct (dec_str_digits n H) as [Hd _]. eapply Forall_impl; [|exact Hd]. cbn. lia. Qed.

Lemma encode_name_wf kw : wf_key kw -> encode_name (snd kw) (fst kw) = Some (enc_field kw).
Proof.
  destruct kw as [name w]. intros (Hne & Hnz & Hw & Hl). unfold encode_name, enc_field, name_body in *.
  cbn [fst snd] in *.
  assert (zlen name <= 20).
  { destruct (w <=? 1); [assumption|]. rewrite zlen_app in Hl. pose proof (zlen_nonneg (0 :: dec_str w)). lia. }
  replace (zlen name >? 20) with false by lia.
  destruct (w <=? 1); replace (_ >? 20) with false by lia; reflexivity.
Qed.

Lemma zlen_enc_field kw : wf_key kw -> zlen (enc_field kw) = 20.
Proof.
  intros (_ & _ & _ & Hl). unfold enc_field. rewrite zlen_app, zlen_zeros by lia. lia.
Qed.

Lemma decode_enc_field kw : wf_key kw -> decode_name (enc_field kw) = Ok (fst kw, snd kw).
Proof.
  destruct kw as [name w]. intros (Hne & Hnz & Hw & Hl). unfold decode_name, enc_field, zeros.
  rewrite rstrip0_app_zeros. unfold name_body in *. cbn [fst snd] in *.
  destruct (Z.leb_spec w 1) as [H1|H1].
  - rewrite rstrip0_nz by assumption. destruct name as [|c name']; [congruence|].
    rewrite split_nul_nz by assumption. cbn [app]. f_equal. f_equal. lia.
  - assert (Hb : nz (name ++ 0 :: dec_str w) -> False) by (intros F; apply Forall_app in F as [_ F]; inversion F; congruence).
    pose proof (digits_nz w ltac:(lia)) as Hd. destruct (dec_str_digits w ltac:(lia)) as [_ Hdne].
    destruct (exists_last Hdne) as (ds & lastd & Eds).
    assert (Hlast : lastd <> 0).
    { rewrite Eds in Hd. apply Forall_app in Hd as [_ Hd]. now inversion Hd. }
    assert (Ers : rstrip0 (name ++ 0 :: dec_str w) = name ++ 0 :: dec_str w).
    { rewrite Eds. replace (name ++ 0 :: ds ++ [lastd]) with ((name ++ 0 :: ds) ++ [lastd])
        by (rewrite <- app_assoc; reflexivity). now apply rstrip0_last. }
    rewrite Ers. destruct (name ++ 0 :: dec_str w) eqn:E; [destruct name; discriminate|]. rewrite <- E.
    rewrite split_nul_zero by assumption. rewrite split_nul_nz by assumption. cbn [app].
    rewrite parse_int_dec_str by lia. reflexivity.
Qed.

Lemma names_block_wf keys : Forall wf_key keys -> names_block keys = Ok (flat_map enc_field keys).
Proof.
  induction keys as [|[name w] keys IH]; intros H; [reflexivity|]. inversion H as [|? ? Hk Hks]; subst.
  cbn [names_block flat_map]. pose proof (encode_name_wf _ Hk) as E. cbn [fst snd] in E.
  rewrite E, IH by assumption. reflexivity.
Qed.

Lemma zlen_fields keys : Forall wf_key keys -> zlen (flat_map enc_field keys) = 20 * zlen keys.
Proof.
  induction keys as [|k keys IH]; intros H; [reflexivity|]. inversion H; subst.
  cbn [flat_map]. rewrite zlen_app, zlen_enc_field, zlen_cons, IH by assumption. lia.
Qed.

Lemma names_field_wf keys : Forall wf_key keys -> zlen keys <= 10 ->
  names_field keys = Ok (flat_map enc_field keys ++ zeros (200 - 20 * zlen keys)).
Proof.
  intros H Hl. unfold names_field. change trk_max_scalars with 10.
  replace (zlen keys >? 10) with false by lia. rewrite names_block_wf by assumption.
  rewrite zlen_fields by assumption. reflexivity.
Qed.

Lemma zeros_add a b : 0 <= a -> 0 <= b -> zeros (a + b) = zeros a ++ zeros b.
Proof. intros Ha Hb. unfold zeros. rewrite Z2Nat.inj_add by assumption. apply repeat_app. Qed.

Lemma chop_cons n e rest : zlen e = 20 -> chop (S n) 20 (e ++ rest) = e :: chop n 20 rest.
Proof. intros H. cbn [chop]. rewrite takez_eq, dropz_eq, take_app_len, drop_app_len by assumption. reflexivity. Qed.

Lemma chop_zeros : forall n, chop n 20 (zeros (20 * Z.of_nat n)) = repeat (zeros 20) n.
Proof.
  induction n as [|n IH]; [reflexivity|].
  replace (20 * Z.of_nat (S n)) with (20 + 20 * Z.of_nat n) by lia.
  rewrite zeros_add by lia. rewrite chop_cons by reflexivity. rewrite IH. reflexivity.
Qed.

Lemma chop_fields : forall keys n rest, Forall wf_key keys ->
  chop (length keys + n) 20 (flat_map enc_field keys ++ rest) = map enc_field keys ++ chop n 20 rest.
Proof.
  induction keys as [|k keys IH]; intros n rest H; [reflexivity|]. inversion H; subst.
  cbn [length plus flat_map map]. rewrite <- app_assoc. rewrite chop_cons by now apply zlen_enc_field.
  rewrite IH by assumption. reflexivity.
Qed.

Fixpoint slices_of (keys : list (list Z * Z)) (cpt : Z) : sdict :=
  match keys with
  | [] => []
  | (n, w) :: r => (n, (cpt, cpt + w)) :: slices_of r (cpt + w)
  end.
Definition widths (keys : list (list Z * Z)) : Z := sum_z (map snd keys).

Lemma sd_set_fresh k v : forall d, ~ In k (map fst d) -> sd_set k v d = d ++ [(k, v)].
Proof.
  induction d as [|[k' v'] d IH]; intros H; [reflexivity|]. cbn [sd_set].
  destruct (list_eqb k k') eqn:E.
  - apply list_eqb_spec in E. subst. exfalso. apply H. now left.
  - rewrite IH; [reflexivity|]. intros F. apply H. now right.
Qed.

Lemma slices_of_names keys : forall cpt, map fst (slices_of keys cpt) = map fst keys.
Proof. induction keys as [|[n w] keys IH]; intros cpt; [reflexivity|]. cbn. now rewrite IH. Qed.

Lemma loop_zero_fields : forall m cpt d, name_slices_loop (repeat (zeros 20) m) cpt d = Ok (d, cpt).
Proof. induction m as [|m IH]; intros cpt d; [reflexivity|]. cbn [repeat name_slices_loop]. apply IH. Qed.

Lemma loop_keys : forall keys rest cpt d, Forall wf_key keys -> NoDup (map fst keys) ->
  (forall k, In k (map fst keys) -> ~ In k (map fst d)) ->
  name_slices_loop (map enc_field keys ++ rest) cpt d
  = name_slices_loop rest (cpt + widths keys) (d ++ slices_of keys cpt).
Proof.
  induction keys as [|[name w] keys IH]; intros rest cpt d Hwf Hnd Hfresh.
  - cbn. rewrite app_nil_r. unfold widths. cbn. now rewrite Z.add_0_r.
  - inversion Hwf as [|? ? Hk Hks]; subst. inversion Hnd as [|? ? Hnotin Hnd']; subst.
    cbn [map app name_slices_loop]. rewrite decode_enc_field by assumption. cbn [fst snd].
    destruct Hk as (_ & _ & Hw & _). cbn [snd] in Hw. replace (w =? 0) with false by lia.
    rewrite sd_set_fresh by (apply Hfresh; now left).
    rewrite IH; [|assumption|assumption|].
    + assert (Ew : widths ((name, w) :: keys) = w + widths keys) by reflexivity.
      rewrite Ew. cbn [slices_of]. rewrite <- app_assoc. cbn [app].
      replace (cpt + w + widths keys) with (cpt + (w + widths keys)) by lia. reflexivity.
    + intros k Hin. rewrite map_app. intros F. apply in_app_or in F as [F|F].
      * apply (Hfresh k); [now right|exact F].
      * cbn in F. destruct F as [F|[]]. subst. contradiction.
Qed.

Lemma widths_pos keys : Forall wf_key keys -> keys <> [] -> 0 < widths keys.
Proof.
  intros H Hne. destruct keys as [|k keys]; [congruence|]. inversion H as [|? ? (_&_&Hw&_) Hks]; subst.
  unfold widths. cbn [map sum_z fold_right].
  assert (0 <= sum_z (map snd keys)).
  { clear -Hks. induction keys as [|k keys IH]; [cbn; lia|]. inversion Hks as [|? ? (_&_&Hw&_) Hks']; subst.
    cbn [map sum_z fold_right]. specialize (IH Hks'). unfold sum_z in IH. lia. }
  unfold sum_z in *. lia.
Qed.

Lemma name_slices_field keys generic : Forall wf_key keys -> NoDup (map fst keys) -> zlen keys <= 10 ->
  name_slices (widths keys) (flat_map enc_field keys ++ zeros (200 - 20 * zlen keys)) generic
  = Ok (slices_of keys 0).
Proof.
  intros Hwf Hnd Hl. unfold name_slices.
  destruct keys as [|k0 keys0] eqn:Ek.
  - reflexivity.
  - rewrite <- Ek in *. assert (Hne : keys <> []) by (rewrite Ek; discriminate).
    pose proof (widths_pos keys Hwf Hne) as Hp. replace (widths keys >? 0) with true by lia.
    set (m := (10 - length keys)%nat).
    assert (E10 : (10 = length keys + m)%nat) by (unfold m, zlen in *; lia).
    rewrite E10 at 1. rewrite chop_fields by assumption.
    replace (200 - 20 * zlen keys) with (20 * Z.of_nat m) by (unfold m, zlen in *; lia).
    rewrite chop_zeros. rewrite loop_keys by (assumption || (intros ? ? []; fail) || auto).
    rewrite loop_zero_fields. cbn [app]. replace (0 + widths keys <? widths keys) with false by lia.
    reflexivity.
Qed.

(* ------------------------------------------------------------------ the header block *)
Lemma all_disj_nth : forall l, all_disj l = true -> forall i j, (i < j < length l)%nat ->
  span_disj (nth i l (0, 0)) (nth j l (0, 0)) = true.
Proof.
  induction l as [|a l IH]; intros H i j Hij; [simpl in Hij; lia|].
  cbn [all_disj] in H. apply andb_true_iff in H as [Ha Hl]. rewrite forallb_forall in Ha.
  destruct i as [|i].
  - destruct j as [|j]; [lia|]. cbn [nth]. apply Ha. apply nth_In. simpl in Hij. lia.
  - destruct j as [|j]; [lia|]. cbn [nth]. apply IH; [assumption|simpl in Hij; lia].
Qed.

Lemma wf_offs_disj o : wf_offs o = true -> forall i j, (i < j < 13)%nat ->
  let a := nth i (offs_spans o) (0, 0) in let b := nth j (offs_spans o) (0, 0) in
  fst a + snd a <= fst b \/ fst b + snd b <= fst a.
Proof.
  intros H i j Hij a b. unfold wf_offs in H. apply andb_true_iff in H as [_ H].
  pose proof (all_disj_nth _ H i j Hij) as D. fold a b in D. unfold span_disj in D. lia.
Qed.

Lemma wf_offs_bound o : wf_offs o = true -> forall i, (i < 13)%nat ->
  let a := nth i (offs_spans o) (0, 0) in 0 <= fst a /\ fst a + snd a <= 1000.
Proof.
  intros H i Hi a. unfold wf_offs in H. apply andb_true_iff in H as [H _]. rewrite forallb_forall in H.
  assert (Hi' : (i < length (offs_spans o))%nat) by exact Hi.
  specialize (H a (nth_In _ _ Hi')). change trk_header_size with 1000 in H. lia.
Qed.

Ltac offs_facts o H :=
  let rec go i :=
    match i with
    | 13%nat => idtac
    | _ => let B := fresh "B" in
           pose proof (wf_offs_bound o H i ltac:(lia)) as B; cbn in B;
           let i' := eval cbv in (S i) in go i'
    end in go 0%nat.

Ltac offs_disj o H i j :=
  let D := fresh "D" in pose proof (wf_offs_disj o H i j ltac:(lia)) as D; cbn in D.

Lemma get_set_other_idx o : wf_offs o = true -> forall i j, i <> j -> (i < 13)%nat -> (j < 13)%nat ->
  forall blk d, zlen d = snd (nth j (offs_spans o) (0, 0)) -> zlen blk = 1000 ->
  get_at (fst (nth i (offs_spans o) (0, 0))) (snd (nth i (offs_spans o) (0, 0)))
         (set_at (fst (nth j (offs_spans o) (0, 0))) d blk)
  = get_at (fst (nth i (offs_spans o) (0, 0))) (snd (nth i (offs_spans o) (0, 0))) blk.
Proof.
  intros H i j Hij Hi Hj blk d Hd Hb.
  pose proof (wf_offs_bound o H i Hi) as Bi. pose proof (wf_offs_bound o H j Hj) as Bj. cbv zeta in Bi, Bj.
  assert (Sz : 0 <= snd (nth i (offs_spans o) (0, 0))).
  { do 13 (destruct i as [|i]; [cbn; lia|]). lia. }
  apply get_set_other; try lia.
  destruct (Nat.lt_ge_cases i j) as [L|L].
  - pose proof (wf_offs_disj o H i j ltac:(lia)) as D. cbv zeta in D. lia.
  - pose proof (wf_offs_disj o H j i ltac:(lia)) as D. cbv zeta in D. lia.
Qed.

(* get field #i through a set of field #j (indices into offs_spans) *)
Ltac gso o H i j :=
  let G := fresh "G" in
  pose proof (get_set_other_idx o H i j ltac:(lia) ltac:(lia) ltac:(lia)) as G;
  cbn [nth offs_spans fst snd] in G;
  rewrite G by (rewrite ?zlen_enc_s; solve [assumption | reflexivity | lia]); clear G.

Definition wf_user (u : trk_user) : Prop :=
  zlen (u_dims u) = 3 /\ zlen (u_vsizes u) = 3 /\ zlen (u_origin u) = 3 /\ zlen (u_v2r u) = 16.

Lemma template_facts o u : wf_offs o = true -> wf_user u ->
  zlen (trk_template o u) = 1000
  /\ get_at (o_hsize o) 4 (trk_template o u) = enc_s false 4 1000
  /\ get_at (o_version o) 4 (trk_template o u) = enc_s false 4 2.
Proof.
  intros H (Hd & Hv & Ho & Hr). offs_facts o H. unfold trk_template. cbv zeta.
  change trk_header_size with 1000.
  set (b0 := zeros 1000).
  assert (L0 : zlen b0 = 1000) by (unfold b0; now rewrite zlen_zeros).
  set (b1 := set_at (o_magic o) _ b0).
  assert (L1 : zlen b1 = 1000) by (unfold b1; rewrite zlen_set_at; rewrite ?zlen_pad_to; lia).
  set (b2 := set_at (o_dims o) _ b1).
  assert (L2 : zlen b2 = 1000) by (unfold b2; rewrite zlen_set_at; rewrite ?zlen_enc_s_list; lia).
  set (b3 := set_at (o_vsizes o) _ b2).
  assert (L3 : zlen b3 = 1000) by (unfold b3; rewrite zlen_set_at; rewrite ?zlen_enc_list; lia).
  set (b4 := set_at (o_origin o) _ b3).
  assert (L4 : zlen b4 = 1000) by (unfold b4; rewrite zlen_set_at; rewrite ?zlen_enc_list; lia).
  set (b5 := set_at (o_v2r o) _ b4).
  assert (L5 : zlen b5 = 1000) by (unfold b5; rewrite zlen_set_at; rewrite ?zlen_enc_list; lia).
  set (b6 := set_at (o_order o) _ b5).
  assert (L6 : zlen b6 = 1000) by (unfold b6; rewrite zlen_set_at; rewrite ?zlen_pad_to; lia).
  set (b7 := set_at (o_count o) _ b6).
  assert (L7 : zlen b7 = 1000) by (unfold b7; rewrite zlen_set_at; rewrite ?zlen_enc_s; lia).
  set (b8 := set_at (o_nscal o) _ b7).
  assert (L8 : zlen b8 = 1000) by (unfold b8; rewrite zlen_set_at; rewrite ?zlen_enc_s; lia).
  set (b9 := set_at (o_nprop o) _ b8).
  assert (L9 : zlen b9 = 1000) by (unfold b9; rewrite zlen_set_at; rewrite ?zlen_enc_s; lia).
  set (b10 := set_at (o_version o) _ b9).
  assert (L10 : zlen b10 = 1000) by (unfold b10; rewrite zlen_set_at; rewrite ?zlen_enc_s; lia).
  split; [rewrite zlen_set_at; rewrite ?zlen_enc_s; lia|]. split.
  - change 4 with (zlen (enc_s false 4 1000)) at 1. apply get_set_same; lia.
  - gso o H 11%nat 12%nat.
    unfold b10. change 4 with (zlen (enc_s false 4 2)) at 1. apply get_set_same; lia.
Qed.

Lemma fo_write_over_mid d a x b : zlen d = zlen x ->
  fo_write d (mkF (zlen a) (a ++ x ++ b)) = mkF (zlen a + zlen d) (a ++ d ++ b).
Proof.
  intros H. unfold fo_write. cbn [fpos fbytes]. rewrite takez_eq, dropz_eq.
  rewrite take_app_exact. pose proof (zlen_nonneg (x ++ b)). pose proof (zlen_nonneg d). pose proof (zlen_nonneg a).
  replace (zeros (zlen a - zlen (a ++ x ++ b))) with (@nil Z).
  - rewrite app_nil_r. f_equal. f_equal. f_equal.
    rewrite drop_app_ge by lia. replace (zlen a + zlen d - zlen a) with (zlen x) by lia.
    apply drop_app_exact.
  - unfold zeros. rewrite zlen_app. replace (Z.to_nat (zlen a - (zlen a + zlen (x ++ b)))) with 0%nat by lia. reflexivity.
Qed.

(* sums over uniform streams *)
Lemma sum_rows_scalars S rows : Forall (row_ok (3 + S)) rows ->
  sum_z (map (fun r => zlen r - 3) rows) = S * zlen rows.
Proof.
  induction rows as [|r rows IH]; intros H; [cbn; lia|]. inversion H as [|? ? [Hr _] Hl]; subst.
  cbn [map sum_z fold_right]. fold (sum_z (map (fun r0 => zlen r0 - 3) rows)). rewrite IH, zlen_cons by assumption. lia.
Qed.

Lemma sums_streams S P sl : Forall (wf_tstream S P) sl ->
  sum_z (map (fun s => sum_z (map (fun r => zlen r - 3) (s_rows s))) sl)
    = S * sum_z (map (fun s => zlen (s_rows s)) sl)
  /\ sum_z (map (fun s => zlen (s_props s)) sl) = P * zlen sl
  /\ zlen sl <= sum_z (map (fun s => zlen (s_rows s)) sl).
Proof.
  induction sl as [|s sl IH]; intros H; [cbn; lia|]. inversion H as [|? ? (Hne & _ & Hr & Hp & _) Hl]; subst.
  destruct (IH Hl) as (I1 & I2 & I3). cbn [map sum_z fold_right].
  fold (sum_z (map (fun s0 => sum_z (map (fun r => zlen r - 3) (s_rows s0))) sl)).
  fold (sum_z (map (fun s0 => zlen (s_rows s0)) sl)). fold (sum_z (map (fun s0 => zlen (s_props s0)) sl)).
  rewrite I1, I2, (sum_rows_scalars S), zlen_cons by assumption.
  assert (1 <= zlen (s_rows s)).
  { destruct (s_rows s) as [|r0 rr]; [congruence|]. rewrite zlen_cons. pose proof (zlen_nonneg rr). lia. }
  repeat split; nia.
Qed.

Lemma records_length be sl : (length sl <= length (flat_map (trk_record be) sl))%nat.
Proof.
  induction sl as [|s sl IH]; [cbn; lia|]. cbn [flat_map length]. rewrite app_length.
  unfold trk_record at 1. rewrite !app_length. unfold enc_s. rewrite enc_length. lia.
Qed.

Definition hdr_final (o : trk_offs) (tmpl pn sn : list Z) (n S P : Z) : list Z :=
  set_at (o_nprop o) (enc_s false 2 P)
    (set_at (o_nscal o) (enc_s false 2 S)
      (set_at (o_count o) (enc_s false 4 n)
        (set_at (o_sname o) sn (set_at (o_pname o) pn tmpl)))).

Lemma hdr_final_parse o tmpl skeys pkeys n S P :
  wf_offs o = true -> zlen tmpl = 1000 ->
  get_at (o_hsize o) 4 tmpl = enc_s false 4 1000 -> get_at (o_version o) 4 tmpl = enc_s false 4 2 ->
  Forall wf_key skeys -> Forall wf_key pkeys -> NoDup (map fst skeys) -> NoDup (map fst pkeys) ->
  zlen skeys <= 10 -> zlen pkeys <= 10 -> S = widths skeys -> P = widths pkeys ->
  0 <= S < 2 ^ 15 -> 0 <= P < 2 ^ 15 -> 0 <= n < 2 ^ 31 ->
  let pn := flat_map enc_field pkeys ++ zeros (200 - 20 * zlen pkeys) in
  let sn := flat_map enc_field skeys ++ zeros (200 - 20 * zlen skeys) in
  zlen (hdr_final o tmpl pn sn n S P) = 1000 /\
  trk_parse_header o (hdr_final o tmpl pn sn n S P)
  = Ok (mkInfo false n S P (slices_of skeys 0) (slices_of pkeys 0)) /\
  get_at (o_hsize o) 4 (hdr_final o tmpl pn sn n S P) = enc_s false 4 1000.
Proof.
  intros H Lt Ths Tv Hsk Hpk Nds Ndp Lsk Lpk ES EP HS HP Hn pn sn.
  offs_facts o H.
  assert (Lpn : zlen pn = 200).
  { unfold pn. rewrite zlen_app, zlen_fields, zlen_zeros by (assumption || (pose proof (zlen_nonneg pkeys); lia)). lia. }
  assert (Lsn : zlen sn = 200).
  { unfold sn. rewrite zlen_app, zlen_fields, zlen_zeros by (assumption || (pose proof (zlen_nonneg skeys); lia)). lia. }
  unfold hdr_final.
  set (h1 := set_at (o_pname o) pn tmpl).
  assert (L1 : zlen h1 = 1000) by (unfold h1; rewrite zlen_set_at; lia).
  set (h2 := set_at (o_sname o) sn h1).
  assert (L2 : zlen h2 = 1000) by (unfold h2; rewrite zlen_set_at; lia).
  set (h3 := set_at (o_count o) (enc_s false 4 n) h2).
  assert (L3 : zlen h3 = 1000) by (unfold h3; rewrite zlen_set_at; rewrite ?zlen_enc_s; lia).
  set (h4 := set_at (o_nscal o) (enc_s false 2 S) h3).
  assert (L4 : zlen h4 = 1000) by (unfold h4; rewrite zlen_set_at; rewrite ?zlen_enc_s; lia).
  set (h5 := set_at (o_nprop o) (enc_s false 2 P) h4).
  assert (L5 : zlen h5 = 1000) by (unfold h5; rewrite zlen_set_at; rewrite ?zlen_enc_s; lia).
  split; [exact L5|].
  (* the seven fields read back *)
  assert (G_hs : get_at (o_hsize o) 4 h5 = enc_s false 4 1000).
  { unfold h5. gso o H 12%nat 6%nat. unfold h4. gso o H 12%nat 4%nat. unfold h3. gso o H 12%nat 10%nat.
    unfold h2. gso o H 12%nat 5%nat. unfold h1. gso o H 12%nat 7%nat. exact Ths. }
  assert (G_v : get_at (o_version o) 4 h5 = enc_s false 4 2).
  { unfold h5. gso o H 11%nat 6%nat. unfold h4. gso o H 11%nat 4%nat. unfold h3. gso o H 11%nat 10%nat.
    unfold h2. gso o H 11%nat 5%nat. unfold h1. gso o H 11%nat 7%nat. exact Tv. }
  assert (G_np : get_at (o_nprop o) 2 h5 = enc_s false 2 P).
  { unfold h5. change 2 with (zlen (enc_s false 2 P)) at 1. apply get_set_same; lia. }
  assert (G_ns : get_at (o_nscal o) 2 h5 = enc_s false 2 S).
  { unfold h5. gso o H 4%nat 6%nat.
    unfold h4. change 2 with (zlen (enc_s false 2 S)) at 1. apply get_set_same; lia. }
  assert (G_c : get_at (o_count o) 4 h5 = enc_s false 4 n).
  { unfold h5. gso o H 10%nat 6%nat. unfold h4. gso o H 10%nat 4%nat.
    unfold h3. change 4 with (zlen (enc_s false 4 n)) at 1. apply get_set_same; lia. }
  assert (G_sn : get_at (o_sname o) 200 h5 = sn).
  { unfold h5. gso o H 5%nat 6%nat. unfold h4. gso o H 5%nat 4%nat. unfold h3. gso o H 5%nat 10%nat.
    unfold h2. rewrite <- Lsn at 1. apply get_set_same; lia. }
  assert (G_pn : get_at (o_pname o) 200 h5 = pn).
  { unfold h5. gso o H 7%nat 6%nat. unfold h4. gso o H 7%nat 4%nat. unfold h3. gso o H 7%nat 10%nat.
    unfold h2. gso o H 7%nat 5%nat.
    unfold h1. rewrite <- Lpn at 1. apply get_set_same; lia. }
  split; [|exact G_hs].
  unfold trk_parse_header. rewrite G_hs, G_v, G_np, G_ns, G_c, G_sn, G_pn.
  change trk_header_size with 1000.
  assert (D4 : forall x, 0 <= x < 2 ^ 31 -> dec_s false (enc_s false 4 x) = x).
  { intros x Hx. apply dec_s_enc_s; [lia|rewrite pow256_4_half; lia]. }
  assert (D2 : forall x, 0 <= x < 2 ^ 15 -> dec_s false (enc_s false 2 x) = x).
  { intros x Hx. apply dec_s_enc_s; [lia|change (pow256 2 / 2) with (2 ^ 15); lia]. }
  rewrite (D4 1000) by lia. change (1000 =? 1000) with true. cbv iota beta.
  rewrite (D4 2), (D4 n), (D2 S), (D2 P) by lia.
  change ((2 =? 1) || (2 =? 2) || (2 =? 3)) with true. cbn [negb].
  unfold sn, pn. subst S P.
  rewrite !name_slices_field by assumption. reflexivity.
Qed.

(* ------------------------------------------------------------------ the round trip *)
Lemma trk_save_bytes o u skeys pkeys sl pre S P :
  wf_offs o = true -> wf_user u -> sl <> [] -> zlen sl < 2 ^ 31 ->
  Forall wf_key skeys -> Forall wf_key pkeys -> zlen skeys <= 10 -> zlen pkeys <= 10 ->
  Forall (wf_tstream S P) sl -> 0 <= S -> 0 <= P ->
  trk_save o (mkF (zlen pre) pre) u skeys pkeys sl
  = Ok (pre ++ hdr_final o (trk_template o u)
                 (flat_map enc_field pkeys ++ zeros (200 - 20 * zlen pkeys))
                 (flat_map enc_field skeys ++ zeros (200 - 20 * zlen skeys)) (zlen sl) S P
            ++ flat_map (trk_record false) sl).
Proof.
  intros H Hu Hne Hn Hsk Hpk Lsk Lpk Hsl HS HP.
  destruct (template_facts o u H Hu) as (Lt & _ & _).
  destruct (sums_streams S P sl Hsl) as (E1 & E2 & E3).
  unfold trk_save. cbn [fo_tell fpos].
  destruct sl as [|s0 sl0] eqn:Esl; [congruence|]. rewrite <- Esl in *. clear Esl.
  change trk_max_props with 10. change trk_max_scalars with 10.
  replace (zlen pkeys >? 10) with false by lia. rewrite names_field_wf by assumption.
  replace (zlen skeys >? 10) with false by lia. rewrite names_field_wf by assumption.
  set (np := sum_z (map (fun s => zlen (s_rows s)) sl)) in *.
  assert (Hnp : 0 < np).
  { destruct sl; [congruence|]. rewrite zlen_cons in E3. pose proof (zlen_nonneg sl). lia. }
  assert (Hsl0 : 0 < zlen sl).
  { destruct sl; [congruence|]. rewrite zlen_cons. pose proof (zlen_nonneg sl). lia. }
  rewrite E1, E2. replace (np =? 0) with false by lia.
  rewrite !Z.mod_mul by lia. change (0 =? 0) with true. cbn [negb].
  rewrite !Z.div_mul by lia.
  rewrite (fo_write_end (trk_template o u)) by reflexivity. cbn [fpos fbytes].
  rewrite (fo_write_end (flat_map (trk_record false) sl)) by (cbn [fpos fbytes]; rewrite zlen_app; lia).
  cbn [fpos fbytes]. unfold fo_seek_set. cbn [fbytes].
  rewrite <- app_assoc. rewrite fo_write_over_mid.
  - cbn [fbytes]. reflexivity.
  - fold (hdr_final o (trk_template o u)
            (flat_map enc_field pkeys ++ zeros (200 - 20 * zlen pkeys))
            (flat_map enc_field skeys ++ zeros (200 - 20 * zlen skeys)) (zlen sl) S P).
    rewrite Lt.
    (* the final header has the length of the template *)
    pose proof (zlen_nonneg pkeys). pose proof (zlen_nonneg skeys). offs_facts o H.
    unfold hdr_final.
    repeat (rewrite zlen_set_at;
            rewrite ?zlen_enc_s, ?zlen_app, ?zlen_fields, ?zlen_zeros by (assumption || lia); try lia).
Qed.

(* saving then loading, at any position of a file object: same number of streamlines in the
   same order, every point/scalar/property bit pattern as written, and the scalar and
   property columns under their names *)
Lemma trk_roundtrip_struct o u skeys pkeys sl pre :
  wf_offs o = true -> wf_user u -> sl <> [] -> zlen sl < 2 ^ 31 ->
  Forall wf_key skeys -> Forall wf_key pkeys ->
  NoDup (map fst skeys) -> NoDup (map fst pkeys) -> zlen skeys <= 10 -> zlen pkeys <= 10 ->
  widths skeys < 2 ^ 15 -> widths pkeys < 2 ^ 15 ->
  Forall (wf_tstream (widths skeys) (widths pkeys)) sl ->
  exists bytes,
    trk_save o (mkF (zlen pre) pre) u skeys pkeys sl = Ok bytes /\
    trk_load o (zlen pre) bytes
    = Ok (mkInfo false (zlen sl) (widths skeys) (widths pkeys) (slices_of skeys 0) (slices_of pkeys 0), sl).
Proof.
  intros H Hu Hne Hn Hsk Hpk Nds Ndp Lsk Lpk HS HP Hsl.
  assert (S0 : 0 <= widths skeys).
  { destruct skeys; [cbn; lia|]. pose proof (widths_pos _ Hsk ltac:(discriminate)). lia. }
  assert (P0 : 0 <= widths pkeys).
  { destruct pkeys; [cbn; lia|]. pose proof (widths_pos _ Hpk ltac:(discriminate)). lia. }
  eexists. split; [apply (trk_save_bytes o u skeys pkeys sl pre (widths skeys) (widths pkeys)); assumption|].
  destruct (template_facts o u H Hu) as (Lt & Ths & Tv).
  assert (Hsl0 : 0 < zlen sl).
  { destruct sl; [congruence|]. rewrite zlen_cons. pose proof (zlen_nonneg sl). lia. }
  destruct (hdr_final_parse o (trk_template o u) skeys pkeys (zlen sl) (widths skeys) (widths pkeys)
              H Lt Ths Tv Hsk Hpk Nds Ndp Lsk Lpk eq_refl eq_refl ltac:(lia) ltac:(lia) ltac:(lia)) as (L5 & Pr & _).
  cbv zeta in L5, Pr.
  set (hf := hdr_final _ _ _ _ _ _ _) in *.
  unfold trk_load. rewrite !takez_eq, !dropz_eq. change trk_header_size with 1000.
  rewrite drop_app_exact. rewrite (take_app_len 1000) by exact L5.
  rewrite L5. change (zeros (1000 - 1000)) with (@nil Z). rewrite app_nil_r, Pr.
  cbn [i_nscal i_nprop i_be i_count].
  replace ((widths skeys <? 0) || (widths pkeys <? 0)) with false by lia.
  replace (zlen sl =? 0) with false by lia.
  rewrite app_assoc. rewrite drop_app_len by (rewrite zlen_app; lia).
  rewrite (trk_loop_records false (widths skeys) (widths pkeys) S0 P0 sl _ 0 [] (zlen sl)).
  - reflexivity.
  - assumption.
  - pose proof (records_length false sl). lia.
  - lia.
Qed.
