(* C16/LemmasTckHdr.v — the TCK header text written by _write_header is read back by
   _read_header: data type Float32LE and the offset that the header states (= its length) *)
From Coq Require Import ZArith List Bool Lia ZifyBool.
From NV Require Import Base.Bytes C16.Tables C16.Model C16.Lemmas C16.LemmasTrk.
Import ListNotations.
Open Scope Z_scope.

(* text without newline or colon, not starting or ending with white space, not empty *)
Definition clean (l : list Z) : Prop :=
  l <> [] /\ Forall (fun c => c <> 10 /\ c <> 58) l /\ is_ws (hd 0 l) = false /\ is_ws (last l 0) = false.

Lemma lstrip_clean l : is_ws (hd 0 l) = false -> lstrip l = l.
Proof. destruct l as [|c r]; [reflexivity|]. cbn [hd lstrip]. now intros ->. Qed.

Lemma rstrip_ws w : Forall (fun c => is_ws c = true) w -> rstrip w = [].
Proof.
  induction w as [|c w IH]; intros H; [reflexivity|]. inversion H as [|? ? Hc Hw]; subst.
  cbn [rstrip]. rewrite IH by assumption. now rewrite Hc.
Qed.

Lemma rstrip_last a c w : is_ws c = false -> Forall (fun x => is_ws x = true) w ->
  rstrip (a ++ c :: w) = a ++ [c].
Proof.
  intros Hc Hw. induction a as [|x a IH]; cbn [app rstrip].
  - rewrite rstrip_ws by assumption. now rewrite Hc.
  - rewrite IH. destruct (a ++ [c]) eqn:E; [destruct a; discriminate|reflexivity].
Qed.

Lemma last_app_single {A} (a : list A) c d : last (a ++ [c]) d = c.
Proof. apply last_last. Qed.

Lemma rstrip_clean_tail l w : l <> [] -> is_ws (last l 0) = false -> Forall (fun x => is_ws x = true) w ->
  rstrip (l ++ w) = l.
Proof.
  intros Hne Hl Hw. destruct (exists_last Hne) as (a & c & ->).
  rewrite last_app_single in Hl. rewrite <- app_assoc. cbn [app]. now apply rstrip_last.
Qed.

Lemma read_line_nl : forall l rest, Forall (fun c => c <> 10) l ->
  read_line (l ++ 10 :: rest) = (l ++ [10], rest).
Proof.
  induction l as [|c l IH]; intros rest H; [reflexivity|]. inversion H as [|? ? Hc Hl]; subst.
  cbn [app read_line]. destruct (Z.eqb_spec c 10); [contradiction|]. rewrite IH by assumption. reflexivity.
Qed.

Lemma split_colon_at : forall k r, Forall (fun c => c <> 58) k -> split_colon (k ++ 58 :: r) = Some (k, r).
Proof.
  induction k as [|c k IH]; intros r H; [reflexivity|]. inversion H as [|? ? Hc Hk]; subst.
  cbn [app split_colon]. destruct (Z.eqb_spec c 58); [contradiction|]. now rewrite IH.
Qed.

Lemma list_eqb_neq_in a b x : In x a -> ~ In x b -> list_eqb a b = false.
Proof.
  intros Ha Hb. destruct (list_eqb a b) eqn:E; [|reflexivity]. apply list_eqb_spec in E. subst. contradiction.
Qed.

Definition kv_line (kv : list Z * list Z) : list Z := fst kv ++ S_colonsp_c ++ snd kv.
Definition wf_kv (kv : list Z * list Z) : Prop := clean (fst kv) /\ clean (snd kv).

Lemma clean_no10 l : clean l -> Forall (fun c => c <> 10) l.
Proof. intros (_ & H & _). eapply Forall_impl; [|exact H]. cbn. tauto. Qed.
Lemma clean_no58 l : clean l -> Forall (fun c => c <> 58) l.
Proof. intros (_ & H & _). eapply Forall_impl; [|exact H]. cbn. tauto. Qed.

Lemma hd_app_ne {A} (a b : list A) d : a <> [] -> hd d (a ++ b) = hd d a.
Proof. destruct a; [congruence|reflexivity]. Qed.
Lemma last_app_ne {A} (a b : list A) d : b <> [] -> last (a ++ b) d = last b d.
Proof.
  intros Hb. destruct (exists_last Hb) as (b' & c & ->). rewrite app_assoc, !last_last. reflexivity.
Qed.

(* one "key: value" line of the header goes into the dictionary *)
Lemma loop_kv_line fuel kv rest key d consumed : wf_kv kv ->
  tck_lines_loop (S fuel) (kv_line kv ++ 10 :: rest) key d consumed
  = tck_lines_loop fuel rest (Some (fst kv)) (hd_append (fst kv) (snd kv) d) (consumed + zlen (kv_line kv) + 1).
Proof.
  destruct kv as [k v]. intros [Hk Hv]. cbn [fst snd] in *. unfold kv_line. cbn [fst snd].
  change S_colonsp_c with [58; 32].
  set (line := k ++ [58; 32] ++ v).
  assert (Hline10 : Forall (fun c => c <> 10) line).
  { unfold line. apply Forall_app. split; [now apply clean_no10|]. apply Forall_app. split; [|now apply clean_no10].
    repeat constructor; discriminate. }
  destruct Hk as (Hkne & Hkc & Hkh & Hkl). destruct Hv as (Hvne & Hvc & Hvh & Hvl).
  cbn [tck_lines_loop]. destruct (line ++ 10 :: rest) eqn:E; [destruct line; [destruct k; [congruence|discriminate]|discriminate]|].
  rewrite <- E. clear E. rewrite read_line_nl by assumption.
  assert (Es : strip (line ++ [10]) = line).
  { unfold strip. rewrite lstrip_clean.
    - apply rstrip_clean_tail.
      + unfold line. destruct k; [congruence|discriminate].
      + unfold line. rewrite app_assoc, last_app_ne by assumption. exact Hvl.
      + repeat constructor.
    - unfold line. rewrite <- app_assoc, hd_app_ne by assumption. exact Hkh. }
  rewrite Es. destruct line as [|c0 line'] eqn:El; [destruct k; [congruence|discriminate]|]. rewrite <- El.
  assert (Hend : list_eqb line S_END = false).
  { apply (list_eqb_neq_in _ _ 58); [unfold line; apply in_or_app; right; now left|].
    intros F. vm_compute in F. intuition discriminate. }
  rewrite Hend. unfold line at 1. cbn [app]. rewrite split_colon_at by (eapply Forall_impl; [|exact Hkc]; cbn; tauto).
  assert (Ek : strip k = k).
  { unfold strip. rewrite lstrip_clean by exact Hkh. rewrite <- (app_nil_r k) at 1.
    apply rstrip_clean_tail; [assumption|assumption|constructor]. }
  cbv iota beta. rewrite !Ek.
  assert (Ev : strip (32 :: v) = v).
  { unfold strip. cbn [lstrip]. change (is_ws 32) with true. cbv iota. rewrite lstrip_clean by exact Hvh.
    rewrite <- (app_nil_r v) at 1. apply rstrip_clean_tail; [assumption|assumption|constructor]. }
  rewrite Ev. rewrite zlen_app. change (zlen [10]) with 1.
  replace (consumed + (zlen line + 1)) with (consumed + zlen line + 1) by lia. reflexivity.
Qed.

Lemma loop_end fuel data key d consumed :
  tck_lines_loop (S fuel) (S_END ++ 10 :: data) key d consumed = Ok (d, consumed + 4).
Proof. reflexivity. Qed.

Definition dict_of (kvs : list (list Z * list Z)) (d : hdict) : hdict :=
  fold_left (fun d kv => hd_append (fst kv) (snd kv) d) kvs d.
Definition lines_bytes (kvs : list (list Z * list Z)) : list Z :=
  flat_map (fun kv => kv_line kv ++ [10]) kvs.

Lemma loop_kv_lines : forall kvs fuel rest key d consumed, Forall wf_kv kvs -> (length kvs <= fuel)%nat ->
  exists key',
  tck_lines_loop (fuel + 1) (lines_bytes kvs ++ rest) key d consumed
  = tck_lines_loop (fuel + 1 - length kvs) rest key' (dict_of kvs d) (consumed + zlen (lines_bytes kvs)).
Proof.
  induction kvs as [|kv kvs IH]; intros fuel rest key d consumed Hwf Hf.
  - exists key. cbn [lines_bytes flat_map app length dict_of fold_left]. change (zlen (@nil Z)) with 0.
    rewrite Z.add_0_r, Nat.sub_0_r. reflexivity.
  - inversion Hwf as [|? ? Hkv Hkvs]; subst. destruct fuel as [|fuel]; [simpl in Hf; lia|].
    cbn [lines_bytes flat_map]. fold (lines_bytes kvs). rewrite <- !app_assoc. cbn [app plus].
    rewrite loop_kv_line by assumption.
    destruct (IH fuel rest (Some (fst kv)) (hd_append (fst kv) (snd kv) d) (consumed + zlen (kv_line kv) + 1) Hkvs
                ltac:(simpl in Hf; lia)) as [key' E].
    exists key'. rewrite E. cbn [length dict_of fold_left].
    replace (S fuel + 1 - S (length kvs))%nat with (fuel + 1 - length kvs)%nat by lia.
    f_equal. rewrite zlen_app, zlen_cons. lia.
Qed.

(* the dictionary: a key appended once, after which only other keys are appended *)
Lemma hd_get_append_other k k' v d : k <> k' -> hd_get k (hd_append k' v d) = hd_get k d.
Proof.
  intros Hne. induction d as [|[k2 vs] d IH]; cbn [hd_append hd_get].
  - destruct (list_eqb k k') eqn:E; [apply list_eqb_spec in E; contradiction|reflexivity].
  - destruct (list_eqb k' k2) eqn:E2; cbn [hd_get].
    + apply list_eqb_spec in E2. subst k2.
      destruct (list_eqb k k') eqn:E; [apply list_eqb_spec in E; contradiction|reflexivity].
    + destruct (list_eqb k k2); [reflexivity|exact IH].
Qed.

Lemma hd_get_append_new k v d : hd_get k d = None -> hd_get k (hd_append k v d) = Some v.
Proof.
  induction d as [|[k2 vs] d IH]; cbn [hd_append hd_get]; intros H.
  - replace (list_eqb k k) with true by (symmetry; now apply list_eqb_spec). reflexivity.
  - destruct (list_eqb k k2) eqn:E; [discriminate|]. cbn [hd_get]. rewrite E. now apply IH.
Qed.

Lemma hd_get_dict_other k kvs : forall d, Forall (fun kv => fst kv <> k) kvs -> hd_get k (dict_of kvs d) = hd_get k d.
Proof.
  induction kvs as [|kv kvs IH]; intros d H; [reflexivity|]. inversion H; subst.
  cbn [dict_of fold_left]. fold (dict_of kvs (hd_append (fst kv) (snd kv) d)).
  rewrite IH by assumption. apply hd_get_append_other. congruence.
Qed.

Lemma join_nl_lines l ls rest :
  join_nl (l :: ls) ++ 10 :: rest = flat_map (fun x => x ++ [10]) (l :: ls) ++ rest.
Proof.
  revert l. induction ls as [|l2 ls IH]; intros l.
  - cbn [join_nl flat_map]. rewrite app_nil_r, <- app_assoc. reflexivity.
  - cbn [join_nl flat_map]. rewrite <- !app_assoc. cbn [app]. f_equal. f_equal.
    specialize (IH l2). cbn [flat_map] in IH. rewrite <- !app_assoc in IH. exact IH.
Qed.

Lemma ws_split_nows : forall l cur, Forall (fun c => is_ws c = false) l -> cur ++ l <> [] ->
  ws_split_aux l cur = [cur ++ l].
Proof.
  induction l as [|c l IH]; intros cur H Hne; cbn [ws_split_aux].
  - rewrite app_nil_r in *. destruct cur; [congruence|reflexivity].
  - inversion H as [|? ? Hc Hl]; subst. rewrite Hc. rewrite IH; [now rewrite <- app_assoc|assumption|].
    rewrite <- app_assoc. exact Hne.
Qed.

Lemma digits_nows n : 0 <= n -> Forall (fun c => is_ws c = false) (dec_str n).
Proof.
  intros H. destruct (dec_str_digits n H) as [Hd _]. eapply Forall_impl; [|exact Hd].
  intros c Hc. cbn beta in Hc. unfold is_ws. lia.
Qed.

(* ------------------------------------------------------------------ the written header *)
Definition K_count : list Z := [99; 111; 117; 110; 116].   (* "count" *)
Definition is_digit (c : Z) : Prop := 48 <= c <= 57.

Lemma digits_clean l : l <> [] -> Forall is_digit l -> clean l.
Proof.
  intros Hne H. unfold clean. split; [assumption|]. split.
  - eapply Forall_impl; [|exact H]. unfold is_digit. intros c Hc. lia.
  - split.
    + destruct l as [|c r]; [congruence|]. inversion H as [|? ? Hc _]; subst. cbn [hd]. unfold is_digit in Hc. unfold is_ws. lia.
    + destruct (exists_last Hne) as (a & c & ->). rewrite last_last.
      apply Forall_app in H as [_ H]. inversion H as [|? ? Hc _]; subst. unfold is_digit in Hc. unfold is_ws. lia.
Qed.

Lemma pad10_clean n : 0 <= n -> clean (pad10 (dec_str n)).
Proof.
  intros H. destruct (dec_str_digits n H) as [Hd Hne]. apply digits_clean.
  - unfold pad10. intros E. apply app_eq_nil in E as [_ E]. contradiction.
  - unfold pad10. apply Forall_app. split; [|exact Hd]. apply Forall_forall. intros x Hx.
    apply repeat_spec in Hx. subst. unfold is_digit. lia.
Qed.

Lemma file_value_clean n : 0 <= n -> clean (46 :: 32 :: dec_str n).
Proof.
  intros H. destruct (dec_str_digits n H) as [Hd Hne]. unfold clean. split; [discriminate|]. split.
  - constructor; [lia|]. constructor; [lia|]. eapply Forall_impl; [|exact Hd]. intros c Hc. cbn beta in Hc. lia.
  - split; [reflexivity|].
    replace (46 :: 32 :: dec_str n) with ([46; 32] ++ dec_str n) by reflexivity.
    rewrite last_app_ne by assumption.
    destruct (exists_last Hne) as (a & c & E). rewrite E, last_last. rewrite E in Hd.
    apply Forall_app in Hd as [_ Hd]. inversion Hd as [|? ? Hc _]; subst. cbn beta in Hc. unfold is_ws. lia.
Qed.

Lemma excluded_neq k x : excluded k = false -> In x tck_exclude -> k <> x.
Proof.
  intros E Hx ->. unfold excluded in E. apply orb_false_iff in E as [E _].
  assert (existsb (list_eqb x) tck_exclude = true).
  { apply existsb_exists. exists x. split; [assumption|]. now apply list_eqb_spec. }
  congruence.
Qed.

Lemma exclude_has : In S_datatype tck_exclude /\ In S_file tck_exclude.
Proof. vm_compute. split; tauto. Qed.

Lemma lines_bytes_length kvs : (length kvs <= length (lines_bytes kvs))%nat.
Proof.
  induction kvs as [|kv kvs IH]; [cbn; lia|]. cbn [lines_bytes flat_map length]. fold (lines_bytes kvs).
  rewrite !app_length. cbn [length]. lia.
Qed.

Lemma lines_bytes_map kvs rest :
  flat_map (fun x => x ++ [10]) (map kv_line kvs) ++ rest = lines_bytes kvs ++ rest.
Proof. unfold lines_bytes. rewrite flat_map_concat_map, map_map, <- flat_map_concat_map. reflexivity. Qed.

Lemma lines_bytes_app a b : lines_bytes (a ++ b) = lines_bytes a ++ lines_bytes b.
Proof. unfold lines_bytes. apply flat_map_app. Qed.

Lemma dict_of_app a b d : dict_of (a ++ b) d = dict_of b (dict_of a d).
Proof. unfold dict_of. apply fold_left_app. Qed.

(* the header items the writer keeps, required to be plain "key: value" text *)
Definition kept (items : list (list Z * list Z)) := filter (fun kv => negb (excluded (fst kv))) items.
Definition wf_items (items : list (list Z * list Z)) : Prop := Forall wf_kv (kept items).

Lemma kept_not_excluded items : Forall (fun kv => excluded (fst kv) = false) (kept items).
Proof.
  apply Forall_forall. intros kv H. unfold kept in H. apply filter_In in H as [_ H].
  now apply negb_true_iff in H.
Qed.

Ltac clean_lit :=
  unfold clean; cbn [fst snd]; split; [discriminate|split;
    [repeat (constructor; [split; discriminate|]); constructor|split; reflexivity]].

Lemma tck_parse_written count items h data :
  0 <= count -> wf_items items -> tck_header count items = Ok h ->
  tck_parse_header (h ++ data) = Ok (false, zlen h).
Proof.
  intros Hc Hwf Eh.
  pose proof (tck_header_form _ _ _ Eh) as Ef.
  set (N := zlen h) in *.
  assert (HN : zlen h = N) by reflexivity.
  assert (HN0 : 0 <= N) by apply zlen_nonneg.
  clear Eh. rename Ef into Eh. symmetry in Eh.
  (* the lines as key/value pairs *)
  set (kvs := (K_count, pad10 (dec_str count)) :: (S_datatype, S_Float32LE) :: kept items).
  set (fkv := (S_file, 46 :: 32 :: dec_str N)).
  assert (Elines : tck_lines count items = map kv_line kvs).
  { unfold tck_lines, kvs. cbn [map]. f_equal. }
  assert (Ebody : h ++ data = tck_magic ++ 10 :: lines_bytes (kvs ++ [fkv]) ++ S_END ++ 10 :: data).
  { rewrite <- Eh. rewrite Elines. rewrite <- !app_assoc. f_equal. cbn [app]. f_equal.
    destruct kvs as [|kv0 kvs0] eqn:Ek; [discriminate|]. cbn [map].
    rewrite join_nl_lines. change (kv_line kv0 :: map kv_line kvs0) with (map kv_line (kv0 :: kvs0)).
    rewrite lines_bytes_map, lines_bytes_app. rewrite <- !app_assoc. f_equal.
    unfold lines_bytes, fkv, kv_line. cbn [flat_map fst snd app]. rewrite <- !app_assoc. reflexivity. }
  assert (Wkvs : Forall wf_kv (kvs ++ [fkv])).
  { apply Forall_app. split.
    - unfold kvs. constructor; [split; [clean_lit|now apply pad10_clean]|].
      constructor; [split; clean_lit|]. exact Hwf.
    - constructor; [|constructor]. split; [clean_lit|now apply file_value_clean]. }
  rewrite Ebody. unfold tck_parse_header. rewrite takez_eq, dropz_eq.
  rewrite take_app_exact. replace (list_eqb tck_magic tck_magic) with true by (symmetry; now apply list_eqb_spec).
  cbn [negb].
  replace (tck_magic ++ 10 :: lines_bytes (kvs ++ [fkv]) ++ S_END ++ 10 :: data)
    with ((tck_magic ++ [10]) ++ lines_bytes (kvs ++ [fkv]) ++ S_END ++ 10 :: data)
    by (rewrite <- app_assoc; reflexivity).
  rewrite (drop_app_len (zlen tck_magic + 1)) by (rewrite zlen_app; reflexivity).
  set (body := lines_bytes (kvs ++ [fkv]) ++ S_END ++ 10 :: data).
  assert (Hfuel : (length (kvs ++ [fkv]) <= length body)%nat).
  { pose proof (lines_bytes_length (kvs ++ [fkv])) as Q. unfold body.
    rewrite (app_length (lines_bytes (kvs ++ [fkv]))). lia. }
  replace (S (length body)) with (length body + 1)%nat by lia.
  destruct (loop_kv_lines (kvs ++ [fkv]) (length body) (S_END ++ 10 :: data) None [] 0 Wkvs Hfuel) as [key' El].
  unfold body at 2. rewrite El.
  replace (length body + 1 - length (kvs ++ [fkv]))%nat with (S (length body - length (kvs ++ [fkv])))%nat by lia.
  rewrite loop_end.
  (* the dictionary *)
  assert (Kdt : Forall (fun kv => fst kv <> S_datatype) (kept items ++ [fkv])).
  { apply Forall_app. split.
    - eapply Forall_impl; [|apply kept_not_excluded]. intros kv Hk. apply excluded_neq; [exact Hk|apply exclude_has].
    - constructor; [|constructor]. vm_compute. discriminate. }
  assert (Kf : Forall (fun kv => fst kv <> S_file) kvs).
  { unfold kvs. constructor; [vm_compute; discriminate|]. constructor; [vm_compute; discriminate|].
    eapply Forall_impl; [|apply kept_not_excluded]. intros kv Hk. apply excluded_neq; [exact Hk|apply exclude_has]. }
  assert (Gdt : hd_get S_datatype (dict_of (kvs ++ [fkv]) []) = Some S_Float32LE).
  { unfold kvs. cbn [app dict_of fold_left fst snd].
    change (fold_left _ (kept items ++ [fkv]) ?d) with (dict_of (kept items ++ [fkv]) d).
    rewrite hd_get_dict_other by exact Kdt. reflexivity. }
  assert (Gf : hd_get S_file (dict_of (kvs ++ [fkv]) []) = Some (46 :: 32 :: dec_str N)).
  { rewrite dict_of_app. unfold fkv at 1. cbn [dict_of fold_left fst snd].
    apply hd_get_append_new. rewrite hd_get_dict_other by exact Kf. reflexivity. }
  rewrite Gdt, Gf.
  change (starts_with S_Float32 S_Float32LE) with true. cbn [negb].
  assert (Ews : ws_split (46 :: 32 :: dec_str N) = [[46]; dec_str N]).
  { unfold ws_split. cbn [ws_split_aux]. change (is_ws 46) with false. change (is_ws 32) with true. cbv iota.
    cbn [app]. f_equal. destruct (dec_str_digits N HN0) as [_ Hne].
    rewrite ws_split_nows; [reflexivity|now apply digits_nows|exact Hne]. }
  rewrite Ews. change (list_eqb [46] [46]) with true. cbn [negb].
  rewrite parse_int_dec_str by exact HN0.
  change (ends_with S_BE S_Float32LE) with false. reflexivity.
Qed.

(* end to end: what TckFile.save writes, TckFile.load reads back exactly, for every buffer size *)
Lemma tck_file_roundtrip count0 items sl b h0 h :
  0 <= count0 -> wf_items items -> Forall wf_stream sl -> 0 <= b ->
  tck_header count0 items = Ok h0 -> tck_header (zlen sl) items = Ok h -> zlen h0 = zlen h ->
  exists f, tck_save count0 items sl = Ok f /\ f = h ++ tck_data sl /\ tck_load b f = Ok sl.
Proof.
  intros Hc Hwf Hsl Hb E0 E Hl. exists (h ++ tck_data sl). split; [now apply tck_save_bytes with (h0 := h0)|].
  split; [reflexivity|]. unfold tck_load.
  rewrite (tck_parse_written (zlen sl) items h (tck_data sl) (zlen_nonneg sl) Hwf E).
  pose proof (zlen_nonneg h). replace (zlen h <? 0) with false by lia.
  rewrite dropz_eq, drop_app_exact.
  destruct (tck_bufsize_ok b Hb) as [B1 B2]. now apply tck_data_roundtrip.
Qed.

(* ------------------------------------------------------------------ the count field has a fixed width *)
Lemma count_colons_app a b : count_colons (a ++ b) = count_colons a + count_colons b.
Proof. unfold count_colons. rewrite filter_app, zlen_app. reflexivity. Qed.

Lemma count_colons_digits l : Forall is_digit l -> count_colons l = 0.
Proof.
  induction l as [|c l IH]; intros H; [reflexivity|]. inversion H as [|? ? Hc Hl]; subst.
  unfold count_colons in *. cbn [filter]. unfold is_digit in Hc. replace (c =? 58) with false by lia. now apply IH.
Qed.

Lemma pad10_digits n : 0 <= n -> Forall is_digit (pad10 (dec_str n)).
Proof.
  intros H. destruct (dec_str_digits n H) as [Hd _]. unfold pad10. apply Forall_app. split; [|exact Hd].
  apply Forall_forall. intros x Hx. apply repeat_spec in Hx. subst. unfold is_digit. lia.
Qed.

Lemma ndigits_le10 n : 0 <= n < 10 ^ 10 -> ndigits n <= 10.
Proof.
  intros [H0 H1]. destruct (Z.eq_dec n 0) as [->|Hn]; [vm_compute; discriminate|].
  destruct (ndigits_spec n ltac:(lia)) as (Hd & Hlo & _).
  destruct (Z.le_gt_cases (ndigits n) 10); [assumption|].
  pose proof (pow10_mono 10 (ndigits n - 1) ltac:(lia)). lia.
Qed.

Lemma zlen_pad10 n : 0 <= n < 10 ^ 10 -> zlen (pad10 (dec_str n)) = 10.
Proof.
  intros H. pose proof (ndigits_le10 n H) as L. unfold ndigits, zlen in L. unfold pad10, zlen.
  rewrite app_length, repeat_length. lia.
Qed.

Lemma join_nl_cons l r : r <> [] -> join_nl (l :: r) = l ++ 10 :: join_nl r.
Proof. destruct r; [congruence|reflexivity]. Qed.

Lemma tck_header_count_indep c1 c2 items h1 :
  0 <= c1 < 10 ^ 10 -> 0 <= c2 < 10 ^ 10 -> tck_header c1 items = Ok h1 ->
  exists h2, tck_header c2 items = Ok h2 /\ zlen h2 = zlen h1.
Proof.
  intros H1 H2 E.
  assert (Q : forall c, 0 <= c < 10 ^ 10 ->
    let lines := tck_lines c items in
    count_colons (join_nl lines) = 1 + count_colons (join_nl (tl lines))
    /\ zlen lines = zlen (tck_lines 0 items)
    /\ zlen (tck_magic ++ 10 :: join_nl lines) = 14 + 17 + 1 + zlen (join_nl (tl lines))
    /\ tl lines = tl (tck_lines 0 items)).
  { intros c Hc. unfold tck_lines. cbv zeta. cbn [tl].
    set (rest := S_datatype_Float32LE :: map _ _).
    assert (Hr : rest <> []) by (unfold rest; discriminate).
    rewrite (join_nl_cons _ rest Hr).
    rewrite count_colons_app, count_colons_app, (count_colons_digits (pad10 _)) by (apply pad10_digits; lia).
    change (count_colons S_count_c) with 1.
    assert (Ec : count_colons (10 :: join_nl rest) = count_colons (join_nl rest)) by reflexivity.
    rewrite Ec. split; [lia|]. split; [reflexivity|]. split; [|reflexivity].
    rewrite zlen_app, zlen_cons, zlen_app, zlen_app, zlen_cons, zlen_pad10 by lia.
    change (zlen tck_magic) with 13. change (zlen S_count_c) with 7. lia. }
  destruct (Q c1 H1) as (A1 & B1 & C1 & D1). destruct (Q c2 H2) as (A2 & B2 & C2 & D2). cbv zeta in *.
  unfold tck_header in E |- *. rewrite A2, B2, D2. rewrite A1, B1, D1 in E.
  destruct (_ >? _); [discriminate|]. eexists. split; [reflexivity|].
  apply (f_equal (fun r => match r with Ok a => a | Err _ => [] end)) in E. cbv beta iota in E. rewrite <- E.
  set (o1 := tck_magic ++ 10 :: join_nl (tck_lines c1 items)) in *.
  set (o2 := tck_magic ++ 10 :: join_nl (tck_lines c2 items)) in *.
  assert (Eo : zlen o2 = zlen o1) by (rewrite C1, C2, D1, D2; reflexivity).
  rewrite !zlen_app, !zlen_cons, !zlen_app, !zlen_dec_str, Eo. reflexivity.
Qed.

Lemma tck_file_roundtrip' count0 items sl b :
  0 <= count0 < 10 ^ 10 -> zlen sl < 10 ^ 10 -> wf_items items -> Forall wf_stream sl -> 0 <= b ->
  (exists h0, tck_header count0 items = Ok h0) ->
  exists f h, tck_header (zlen sl) items = Ok h /\ tck_save count0 items sl = Ok f /\ f = h ++ tck_data sl
              /\ tck_load b f = Ok sl.
Proof.
  intros Hc Hn Hwf Hsl Hb [h0 E0]. pose proof (zlen_nonneg sl).
  destruct (tck_header_count_indep count0 (zlen sl) items h0 Hc ltac:(lia) E0) as (h & E & L).
  destruct (tck_file_roundtrip count0 items sl b h0 h ltac:(lia) Hwf Hsl Hb E0 E ltac:(lia)) as (f & F1 & F2 & F3).
  exists f, h. repeat split; assumption.
Qed.

(* the structure of a written header, for reuse (C08) *)
Lemma tck_header_structure count items h :
  0 <= count -> wf_items items -> tck_header count items = Ok h ->
  exists kvs,
    h = tck_magic ++ 10 :: lines_bytes (kvs ++ [(S_file, 46 :: 32 :: dec_str (zlen h))]) ++ S_END ++ [10]
    /\ Forall wf_kv (kvs ++ [(S_file, 46 :: 32 :: dec_str (zlen h))])
    /\ Forall (fun kv => fst kv <> S_file) kvs.
Proof.
  intros Hc Hwf Eh.
  pose proof (tck_header_form _ _ _ Eh) as Ef.
  set (N := zlen h) in *.
  assert (HN0 : 0 <= N) by apply zlen_nonneg.
  set (kvs := (K_count, pad10 (dec_str count)) :: (S_datatype, S_Float32LE) :: kept items).
  set (fkv := (S_file, 46 :: 32 :: dec_str N)).
  exists kvs.
  assert (Elines : tck_lines count items = map kv_line kvs).
  { unfold tck_lines, kvs. cbn [map]. f_equal. }
  split; [|split].
  - rewrite Ef at 1. rewrite Elines. rewrite <- !app_assoc. f_equal. cbn [app]. f_equal.
    destruct kvs as [|kv0 kvs0] eqn:Ek; [discriminate|]. cbn [map].
    rewrite join_nl_lines. change (kv_line kv0 :: map kv_line kvs0) with (map kv_line (kv0 :: kvs0)).
    rewrite lines_bytes_map, lines_bytes_app. rewrite <- !app_assoc. f_equal.
    unfold lines_bytes, kv_line. cbn [flat_map fst snd app]. rewrite <- !app_assoc. reflexivity.
  - apply Forall_app. split.
    + unfold kvs. constructor; [split; [clean_lit|now apply pad10_clean]|].
      constructor; [split; clean_lit|]. exact Hwf.
    + constructor; [|constructor]. split; [clean_lit|now apply file_value_clean].
  - unfold kvs. constructor; [vm_compute; discriminate|]. constructor; [vm_compute; discriminate|].
    eapply Forall_impl; [|apply kept_not_excluded]. intros kv Hk. apply excluded_neq; [exact Hk|apply exclude_has].
Qed.
