(* C16/ModelLazy.v — LazyTractogram's pending-affine bookkeeping and its two ways of producing
   points, in IDEAL ARITHMETIC over Q (nibabel/streamlines/tractogram.py:
     LazyTractogram.__init__ / from_tractogram / from_data_func  -> lz_of_tractogram / lz_of_data_func
     .streamlines (applies _affine_to_apply unless it is exactly the identity) -> lz_streamlines
     .data / __iter__ (items; with _data set: data_func() items with the pending affine) -> lz_items
     apply_affine(affine, lazy=True), to_world(lazy=True)                      -> lz_apply_affine / lz_to_world
     TrkFile.load(lazy_load=True), TckFile.save / TrkFile.save on a lazy tractogram -> lz_load_trk, lz_saved_tck, lz_saved_trk).
   Definitions only. *)
From Coq Require Import ZArith QArith List Bool.
From NV Require Import C16.ModelAffine.
Import ListNotations.
Open Scope Q_scope.

Definition pt := (Q * Q * Q)%type.

Record lazyt := mkL {
  lz_pending : aff;              (* _affine_to_apply *)
  lz_to_rasmm : option aff;      (* affine_to_rasmm *)
  lz_raw : list (list pt);       (* what _streamlines() / data_func() yields *)
  lz_has_data : bool             (* _data is set: built by from_data_func *)
}.

(* LazyTractogram.from_tractogram(t): generator over t.streamlines, affine_to_rasmm copied *)
Definition lz_of_tractogram (pts : list (list pt)) (to_rasmm : option aff) : lazyt :=
  mkL aff_id to_rasmm pts false.
(* LazyTractogram.from_data_func(f): _data = f, space unknown *)
Definition lz_of_data_func (pts : list (list pt)) : lazyt := mkL aff_id None pts true.

Definition aff_is_id (A : aff) : bool :=
  Qeq_bool (a00 A) 1 && Qeq_bool (a01 A) 0 && Qeq_bool (a02 A) 0 &&
  Qeq_bool (a10 A) 0 && Qeq_bool (a11 A) 1 && Qeq_bool (a12 A) 0 &&
  Qeq_bool (a20 A) 0 && Qeq_bool (a21 A) 0 && Qeq_bool (a22 A) 1 &&
  Qeq_bool (b0 A) 0 && Qeq_bool (b1 A) 0 && Qeq_bool (b2 A) 0.

(* the `streamlines` property *)
Definition lz_streamlines (t : lazyt) : list (list pt) :=
  if aff_is_id (lz_pending t) then lz_raw t
  else map (map (aff_apply (lz_pending t))) (lz_raw t).

(* iterating the tractogram (`for item in t`, what both save() methods do): item.streamline.
   With _data set (from_data_func) the items of data_func() are returned as they are when the
   pending affine is exactly the identity, otherwise with the pending affine applied (since
   commit 3c04c5b7); without _data the items are assembled from self.streamlines *)
Definition lz_items (t : lazyt) : list (list pt) :=
  if lz_has_data t then
    (if aff_is_id (lz_pending t) then lz_raw t
     else map (map (aff_apply (lz_pending t))) (lz_raw t))
  else lz_streamlines t.

(* apply_affine(affine, lazy=True): a copy whose pending affine is affine . pending and whose
   affine_to_rasmm is affine_to_rasmm . affine^-1 *)
Definition lz_apply_affine (B : aff) (t : lazyt) : lazyt :=
  mkL (aff_mul B (lz_pending t))
      (option_map (fun A => aff_mul A (aff_inv B)) (lz_to_rasmm t))
      (lz_raw t) (lz_has_data t).

(* to_world(lazy=True): None = ValueError (unknown space) *)
Definition lz_to_world (t : lazyt) : option lazyt :=
  match lz_to_rasmm t with
  | None => None
  | Some A => Some (lz_apply_affine A t)
  end.

(* TrkFile.load(lazy_load=True): from_data_func over the raw voxmm records, then
   affine_to_rasmm = T (trackvis -> RAS+mm) and to_world() *)
Definition lz_load_trk (raw : list (list pt)) (T : aff) : lazyt :=
  lz_apply_affine T (mkL aff_id (Some T) raw true).

(* TckFile.save(t): the points written = items of t.to_world(lazy=True) *)
Definition lz_saved_tck (t : lazyt) : option (list (list pt)) :=
  option_map lz_items (lz_to_world t).
(* TrkFile.save(t) under a header whose RAS+mm -> trackvis affine is Ti: items of
   t.to_world(lazy=True).apply_affine(Ti, lazy=True) *)
Definition lz_saved_trk (Ti : aff) (t : lazyt) : option (list (list pt)) :=
  option_map (fun w => lz_items (lz_apply_affine Ti w)) (lz_to_world t).
