(* C16/LemmasAbandon.v — an ABANDONED pass over a lazily loaded file (the generator is dropped
   after its k-th item, e.g. `next(iter(t.streamlines))`, zip with a shorter sequence, the
   first-item peek of LazyTractogram.from_data_func) yields exactly the first k streamlines of
   the eager load of the same file object, whenever the eager load succeeds.  (The converse
   does not hold and is not claimed: an abandoned pass never meets the errors of later
   records or buffers.) *)
From Coq Require Import ZArith List Bool Lia.
From NV Require Import Base.Bytes C16.Tables C16.Model C16.Lemmas C16.LemmasSession.
Import ListNotations.
Open Scope Z_scope.

(* ------------------------------------------------------------------ TRK *)
Lemma trk_loop_acc fuel be nc np nb : forall kd d acc sl,
  trk_loop fuel be nc np nb kd d acc = Ok sl -> exists more, sl = rev acc ++ more.
Proof.
  induction fuel as [|fuel IH]; intros kd d acc sl H; cbn [trk_loop] in H; [discriminate|].
  destruct (trk_step be nc np nb kd d) as [|e|s c rest] eqn:E.
  - injection H as <-. exists []. now rewrite app_nil_r.
  - discriminate.
  - apply IH in H. destruct H as (more & ->). exists (s :: more). cbn [rev]. now rewrite <- app_assoc.
Qed.

Lemma trk_take_prefix fuel be nc np nb want : forall kd d acc sl,
  trk_loop fuel be nc np nb kd d acc = Ok sl ->
  (length acc <= want)%nat ->
  trk_take_loop (S fuel) be nc np nb kd want d acc = Ok (firstn want sl).
Proof.
  induction fuel as [|fuel IH]; intros kd d acc sl H L; [discriminate|].
  pose proof (trk_loop_acc _ _ _ _ _ _ _ _ _ H) as (more & Esl).
  cbn [trk_loop] in H.
  change (trk_take_loop (S (S fuel)) be nc np nb kd want d acc) with
    (if (want <=? length acc)%nat then Ok (rev acc)
     else match trk_step be nc np nb kd d with
          | SDone => Ok (rev acc)
          | SErr e => Err e
          | SRec s _ rest => trk_take_loop (S fuel) be nc np nb (kd + 1) want rest (s :: acc)
          end).
  destruct (want <=? length acc)%nat eqn:W.
  - apply Nat.leb_le in W. assert (want = length (rev acc)) as -> by (rewrite rev_length; lia).
    subst sl. rewrite firstn_app, Nat.sub_diag, firstn_all. cbn [firstn]. now rewrite app_nil_r.
  - apply Nat.leb_gt in W.
    destruct (trk_step be nc np nb kd d) as [|e|s c rest] eqn:E.
    + injection H as <-. rewrite firstn_all2; [reflexivity|]. rewrite rev_length. lia.
    + discriminate.
    + apply IH; [exact H|]. cbn [length]. lia.
Qed.

Lemma trk_abandon_is_prefix hdr k f sl f1 :
  trk_read_fo hdr f = Ok (sl, f1) -> trk_abandon_fo hdr k f = Ok (firstn k sl, f1).
Proof.
  unfold trk_read_fo, trk_abandon_fo.
  destruct (fo_read (-1) (fo_seek_set (snd hdr) f)) as [d f2].
  destruct ((i_nscal (fst hdr) <? 0) || (i_nprop (fst hdr) <? 0)); [discriminate|].
  destruct (trk_loop _ _ _ _ _ _ _ _) as [sl'|e] eqn:E; [|discriminate].
  intros H. apply Ok_inj_pair in H. destruct H as [<- <-].
  rewrite (trk_take_prefix _ _ _ _ _ k _ _ _ _ E); [reflexivity|cbn; lia].
Qed.

(* ------------------------------------------------------------------ TCK *)
Lemma scan_extends cs : forall out cur out' cur',
  scan cs out cur = (out', cur') -> exists more, out' = out ++ more.
Proof.
  induction cs as [|t r IH]; intros out cur out' cur' H; cbn [scan] in H.
  - injection H as <- _. exists []. now rewrite app_nil_r.
  - destruct (nan3 t).
    + apply IH in H. destruct H as (more & ->). destruct cur as [|c cur].
      * now exists more.
      * exists ((c :: cur) :: more). now rewrite <- app_assoc.
    + eapply IH; exact H.
Qed.

Lemma tck_finish_out out cur sl : tck_finish out cur = Ok sl -> sl = out.
Proof.
  unfold tck_finish. destruct cur as [|t [|? ?]]; try (destruct out; discriminate).
  destruct (inf3 t); [now injection 1 as <-|destruct out; discriminate].
Qed.

Lemma tck_loop_extends fuel be B : forall f out cur sl,
  tck_loop fuel be B f out cur = Ok sl -> exists more, sl = out ++ more.
Proof.
  induction fuel as [|fuel IH]; intros f out cur sl H; cbn [tck_loop] in H; [discriminate|].
  destruct (chunk_check (takez B f)); [discriminate|].
  destruct (scan (triples_of be (takez B f)) out cur) as [out' cur'] eqn:S.
  apply scan_extends in S. destruct S as (m1 & ->).
  destruct (negb (zlen (takez B f) =? B)).
  - apply tck_finish_out in H. subst sl. now exists m1.
  - apply IH in H. destruct H as (m2 & ->). exists (m1 ++ m2). now rewrite app_assoc.
Qed.

Lemma tck_take_prefix fuel be B k : forall f out cur sl,
  tck_loop fuel be B f out cur = Ok sl ->
  tck_take_loop fuel be B k f out cur = Ok (firstn k sl).
Proof.
  induction fuel as [|fuel IH]; intros f out cur sl H; cbn [tck_loop] in H; [discriminate|].
  cbn [tck_take_loop].
  destruct (chunk_check (takez B f)); [discriminate|].
  destruct (scan (triples_of be (takez B f)) out cur) as [out' cur'] eqn:S.
  destruct (k <=? length out')%nat eqn:W.
  - apply Nat.leb_le in W.
    assert (P : exists more, sl = out' ++ more).
    { destruct (negb (zlen (takez B f) =? B)).
      - apply tck_finish_out in H. subst sl. exists []. now rewrite app_nil_r.
      - eapply tck_loop_extends; exact H. }
    destruct P as (more & ->). rewrite firstn_app.
    replace (k - length out')%nat with 0%nat by lia. cbn [firstn]. now rewrite app_nil_r.
  - apply Nat.leb_gt in W.
    destruct (negb (zlen (takez B f) =? B)).
    + pose proof (tck_finish_out _ _ _ H) as ->. rewrite firstn_all2 by lia. exact H.
    + apply IH. exact H.
Qed.

Lemma tck_abandon_is_prefix b hdr k f sl f1 :
  tck_read_fo b hdr f = Ok (sl, f1) -> tck_abandon_fo b hdr k f = Ok (firstn k sl, f1).
Proof.
  unfold tck_read_fo, tck_abandon_fo.
  destruct (snd hdr <? 0); [discriminate|].
  destruct (fo_read (-1) (fo_seek_set (snd hdr) f)) as [d f2].
  unfold tck_read_data.
  destruct (tck_loop _ _ _ _ _ _) as [sl'|e] eqn:E; [|discriminate].
  intros H. apply Ok_inj_pair in H. destruct H as [<- <-].
  now rewrite (tck_take_prefix _ _ _ k _ _ _ _ E).
Qed.

(* ------------------------------------------------------------------ sessions *)
(* what a pass must return, given the eager result re *)
Definition pass_exact {A} (re : list A) (p : pass) (a : list A) : Prop :=
  match p with PComplete => a = re | PAbandon k => a = firstn k re end.

Lemma tck_lazy_prefix b ps0 passes f r0 fe r f' :
  tck_session b false ps0 f = Ok (r0, fe) -> tck_session b true passes f = Ok (r, f') ->
  exists re, r0 = [re] /\ Forall2 (pass_exact re) (PAbandon 1 :: passes) r.
Proof.
  unfold tck_session. destruct (tck_header_fo f) as [[hdr f1]|] eqn:E; [|discriminate].
  intros HE HL.
  apply run_passes_each in HE; [|constructor; [apply tck_read_fo_keeps|constructor]].
  destruct HE as (r0' & -> & F0). inversion F0 as [|? re ? tl He Htl]; subst. inversion Htl; subst.
  exists re. split; [reflexivity|].
  apply run_passes_each in HL.
  2:{ apply Forall_forall. intros s Hs. apply in_map_iff in Hs as (p & <- & _). apply tck_pass_keeps. }
  destruct HL as (r' & -> & F). cbn [rev app].
  remember (PAbandon 1 :: passes) as ps eqn:Eps. clear Eps.
  revert r' F. induction ps as [|p ps IH]; intros r' F; inversion F; subst; constructor.
  - destruct p as [|k]; cbn [pass_exact tck_pass] in *; [congruence|].
    match goal with H : tck_abandon_fo _ _ _ _ = _ |- _ =>
      rewrite (tck_abandon_is_prefix _ _ k _ _ _ He) in H; apply Ok_inj_pair in H; destruct H as [<- _] end.
    reflexivity.
  - apply IH. assumption.
Qed.

Lemma trk_lazy_prefix o ps0 passes f r0 fe r f' :
  trk_session o false ps0 f = Ok (r0, fe) -> trk_session o true passes f = Ok (r, f') ->
  exists re, r0 = [re] /\ Forall2 (pass_exact re) (PAbandon 1 :: passes) r.
Proof.
  unfold trk_session. destruct (trk_header_fo o f) as [[hdr f1]|] eqn:E; [|discriminate].
  rewrite trk_size_fo_same. intros HE HL.
  apply run_passes_each in HE; [|constructor; [apply trk_read_fo_keeps|constructor]].
  destruct HE as (r0' & -> & F0). inversion F0 as [|? re ? tl He Htl]; subst. inversion Htl; subst.
  exists re. split; [reflexivity|].
  apply run_passes_each in HL.
  2:{ apply Forall_forall. intros s Hs. apply in_map_iff in Hs as (p & <- & _). apply trk_pass_keeps. }
  destruct HL as (r' & -> & F). cbn [rev app].
  remember (PAbandon 1 :: passes) as ps eqn:Eps. clear Eps.
  revert r' F. induction ps as [|p ps IH]; intros r' F; inversion F; subst; constructor.
  - destruct p as [|k]; cbn [pass_exact trk_pass] in *; [congruence|].
    match goal with H : trk_abandon_fo _ _ _ = _ |- _ =>
      rewrite (trk_abandon_is_prefix _ k _ _ _ He) in H; apply Ok_inj_pair in H; destruct H as [<- _] end.
    reflexivity.
  - apply IH. assumption.
Qed.

(* when the eager load succeeds, so does every lazy session: no pass can fail *)
Lemma run_passes_total {A} (steps : list (fobj -> res (A * fobj))) f :
  Forall (fun step => exists a, step f = Ok (a, f)) steps ->
  forall acc, exists r, run_passes steps f acc = Ok (r, f).
Proof.
  induction steps as [|s steps IH]; intros F acc; cbn [run_passes]; [eexists; reflexivity|].
  inversion F as [|? ? (a & Ea) F']; subst. rewrite Ea. apply IH. assumption.
Qed.

Lemma tck_lazy_total b ps0 passes f r0 fe :
  tck_session b false ps0 f = Ok (r0, fe) -> exists r f', tck_session b true passes f = Ok (r, f').
Proof.
  unfold tck_session. destruct (tck_header_fo f) as [[hdr f1]|] eqn:E; [|discriminate].
  intros HE.
  apply run_passes_each in HE; [|constructor; [apply tck_read_fo_keeps|constructor]].
  destruct HE as (r0' & -> & F0). inversion F0 as [|? re ? tl He Htl]; subst. inversion Htl; subst.
  destruct (run_passes_total (map (tck_pass b hdr) (PAbandon 1 :: passes)) f1) with (acc := @nil (list (list triple)))
    as (r & Hr); [|exists r, f1; exact Hr].
  apply Forall_forall. intros s Hs. apply in_map_iff in Hs as (p & <- & _).
  destruct p as [|k]; cbn [tck_pass]; eexists; [exact He|apply tck_abandon_is_prefix; exact He].
Qed.

Lemma trk_lazy_total o ps0 passes f r0 fe :
  trk_session o false ps0 f = Ok (r0, fe) -> exists r f', trk_session o true passes f = Ok (r, f').
Proof.
  unfold trk_session. destruct (trk_header_fo o f) as [[hdr f1]|] eqn:E; [|discriminate].
  rewrite trk_size_fo_same. intros HE.
  apply run_passes_each in HE; [|constructor; [apply trk_read_fo_keeps|constructor]].
  destruct HE as (r0' & -> & F0). inversion F0 as [|? re ? tl He Htl]; subst. inversion Htl; subst.
  destruct (run_passes_total (map (trk_pass hdr) (PAbandon 1 :: passes)) f1) with (acc := @nil (list trk_stream))
    as (r & Hr); [|exists r, f1; exact Hr].
  apply Forall_forall. intros s Hs. apply in_map_iff in Hs as (p & <- & _).
  destruct p as [|k]; cbn [trk_pass]; eexists; [exact He|apply trk_abandon_is_prefix; exact He].
Qed.
