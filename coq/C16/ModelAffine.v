(* C16/ModelAffine.v — the trackvis(voxmm, corner origin) <-> RAS+mm affine of
   nibabel/streamlines/trk.py:get_affine_trackvis_to_rasmm, in IDEAL ARITHMETIC over Q
   (the code computes in float64 and rounds the result to float32; the inverse is
   numpy.linalg.inv of that float32 matrix).  Also the orientation helpers of
   nibabel/orientations.py it uses: axcodes2ornt, ornt_transform, inv_ornt_aff, and
   io_orientation restricted to scaled signed-permutation matrices (in general an SVD: oracle).
   Definitions only. *)
From Coq Require Import ZArith QArith List Bool.
Import ListNotations.
Open Scope Q_scope.

(* x -> L x + b, row-major *)
Record aff := mkA {
  a00 : Q; a01 : Q; a02 : Q; a10 : Q; a11 : Q; a12 : Q; a20 : Q; a21 : Q; a22 : Q;
  b0 : Q; b1 : Q; b2 : Q }.

Definition aff_id : aff := mkA 1 0 0 0 1 0 0 0 1 0 0 0.

(* np.dot(A, B): first B then A *)
Definition aff_mul (A B : aff) : aff :=
  mkA (a00 A * a00 B + a01 A * a10 B + a02 A * a20 B)
      (a00 A * a01 B + a01 A * a11 B + a02 A * a21 B)
      (a00 A * a02 B + a01 A * a12 B + a02 A * a22 B)
      (a10 A * a00 B + a11 A * a10 B + a12 A * a20 B)
      (a10 A * a01 B + a11 A * a11 B + a12 A * a21 B)
      (a10 A * a02 B + a11 A * a12 B + a12 A * a22 B)
      (a20 A * a00 B + a21 A * a10 B + a22 A * a20 B)
      (a20 A * a01 B + a21 A * a11 B + a22 A * a21 B)
      (a20 A * a02 B + a21 A * a12 B + a22 A * a22 B)
      (a00 A * b0 B + a01 A * b1 B + a02 A * b2 B + b0 A)
      (a10 A * b0 B + a11 A * b1 B + a12 A * b2 B + b1 A)
      (a20 A * b0 B + a21 A * b1 B + a22 A * b2 B + b2 A).

Definition aff_apply (A : aff) (p : Q * Q * Q) : Q * Q * Q :=
  let '(x, y, z) := p in
  (a00 A * x + a01 A * y + a02 A * z + b0 A,
   a10 A * x + a11 A * y + a12 A * z + b1 A,
   a20 A * x + a21 A * y + a22 A * z + b2 A).

Definition aff_det (A : aff) : Q :=
  a00 A * (a11 A * a22 A - a12 A * a21 A)
  - a01 A * (a10 A * a22 A - a12 A * a20 A)
  + a02 A * (a10 A * a21 A - a11 A * a20 A).

(* the exact inverse (adjugate / determinant); meaningful when aff_det A is not 0 *)
Definition aff_inv_pure (A : aff) : aff :=
  let d := aff_det A in
  let i00 := (a11 A * a22 A - a12 A * a21 A) / d in
  let i01 := (a02 A * a21 A - a01 A * a22 A) / d in
  let i02 := (a01 A * a12 A - a02 A * a11 A) / d in
  let i10 := (a12 A * a20 A - a10 A * a22 A) / d in
  let i11 := (a00 A * a22 A - a02 A * a20 A) / d in
  let i12 := (a02 A * a10 A - a00 A * a12 A) / d in
  let i20 := (a10 A * a21 A - a11 A * a20 A) / d in
  let i21 := (a01 A * a20 A - a00 A * a21 A) / d in
  let i22 := (a00 A * a11 A - a01 A * a10 A) / d in
  mkA i00 i01 i02 i10 i11 i12 i20 i21 i22
      (- (i00 * b0 A + i01 * b1 A + i02 * b2 A))
      (- (i10 * b0 A + i11 * b1 A + i12 * b2 A))
      (- (i20 * b0 A + i21 * b1 A + i22 * b2 A)).

(* the same with every intermediate fraction brought to lowest terms (Qred x == x): the
   executable version, so that numerators and denominators stay small *)
Definition aff_inv (A : aff) : aff :=
  let d := Qred (aff_det A) in
  let i00 := Qred ((a11 A * a22 A - a12 A * a21 A) / d) in
  let i01 := Qred ((a02 A * a21 A - a01 A * a22 A) / d) in
  let i02 := Qred ((a01 A * a12 A - a02 A * a11 A) / d) in
  let i10 := Qred ((a12 A * a20 A - a10 A * a22 A) / d) in
  let i11 := Qred ((a00 A * a22 A - a02 A * a20 A) / d) in
  let i12 := Qred ((a02 A * a10 A - a00 A * a12 A) / d) in
  let i20 := Qred ((a10 A * a21 A - a11 A * a20 A) / d) in
  let i21 := Qred ((a01 A * a20 A - a00 A * a21 A) / d) in
  let i22 := Qred ((a00 A * a11 A - a01 A * a10 A) / d) in
  mkA i00 i01 i02 i10 i11 i12 i20 i21 i22
      (Qred (- (i00 * b0 A + i01 * b1 A + i02 * b2 A)))
      (Qred (- (i10 * b0 A + i11 * b1 A + i12 * b2 A)))
      (Qred (- (i20 * b0 A + i21 * b1 A + i22 * b2 A))).

Definition aff_red (A : aff) : aff :=
  mkA (Qred (a00 A)) (Qred (a01 A)) (Qred (a02 A)) (Qred (a10 A)) (Qred (a11 A)) (Qred (a12 A))
      (Qred (a20 A)) (Qred (a21 A)) (Qred (a22 A)) (Qred (b0 A)) (Qred (b1 A)) (Qred (b2 A)).
Definition aff_mul_r (A B : aff) : aff := aff_red (aff_mul A B).

Definition aff_eq (A B : aff) : Prop :=
  a00 A == a00 B /\ a01 A == a01 B /\ a02 A == a02 B /\
  a10 A == a10 B /\ a11 A == a11 B /\ a12 A == a12 B /\
  a20 A == a20 B /\ a21 A == a21 B /\ a22 A == a22 B /\
  b0 A == b0 B /\ b1 A == b1 B /\ b2 A == b2 B.

(* ---- orientations: one (output axis, direction) pair per input axis *)
Definition ornt := list (Z * Z).

(* axcodes2ornt on one upper-cased letter with the RAS labels *)
Definition code_ornt (c : Z) : option (Z * Z) :=
  let c := if ((97 <=? c) && (c <=? 122))%Z then (c - 32)%Z else c in
  if (c =? 76)%Z then Some (0, -1)%Z else if (c =? 82)%Z then Some (0, 1)%Z
  else if (c =? 80)%Z then Some (1, -1)%Z else if (c =? 65)%Z then Some (1, 1)%Z
  else if (c =? 73)%Z then Some (2, -1)%Z else if (c =? 83)%Z then Some (2, 1)%Z
  else None.

Definition is_perm3 (o : ornt) : bool :=
  match o with
  | [(a, _); (b, _); (c, _)] =>
    ((0 <=? a) && (a <=? 2) && (0 <=? b) && (b <=? 2) && (0 <=? c) && (c <=? 2)
     && negb (a =? b) && negb (a =? c) && negb (b =? c))%Z
  | _ => false
  end.
Definition flips_ok (o : ornt) : bool :=
  forallb (fun p => ((snd p =? 1) || (snd p =? -1))%Z) o.

(* the voxel order bytes (trailing NULs stripped) -> orientation; None: ValueError *)
Definition order_ornt (codes : list Z) : option ornt :=
  match codes with
  | [x; y; z] =>
    match code_ornt x, code_ornt y, code_ornt z with
    | Some a, Some b, Some c => let o := [a; b; c] in if is_perm3 o then Some o else None
    | _, _, _ => None
    end
  | _ => None
  end.

Fixpoint find_out (ax : Z) (e : ornt) (j : Z) : option (Z * Z) :=
  match e with
  | [] => None
  | (eo, ef) :: r => if (eo =? ax)%Z then Some (j, ef) else find_out ax r (j + 1)%Z
  end.

(* ornt_transform(start, end): row i = (input index of end carrying start's axis, relative flip) *)
Definition ornt_transform (s e : ornt) : option ornt :=
  let rows := map (fun p : Z * Z =>
                     match find_out (fst p) e 0%Z with
                     | Some (j, ef) => Some (j, if (snd p =? ef)%Z then 1%Z else (-1)%Z)
                     | None => None
                     end) s in
  if forallb (fun r => match r with Some _ => true | None => false end) rows
  then Some (map (fun r => match r with Some x => x | None => (0, 1)%Z end) rows) else None.

Definition q_of_flip (f : Z) : Q := inject_Z f.
Definition delta (i j : Z) (v : Q) : Q := if (i =? j)%Z then v else 0.

(* inv_ornt_aff(ornt, dims): undo_flip . undo_reorder *)
Definition inv_ornt_aff (o : ornt) (dims : Q * Q * Q) : aff :=
  let '(d0, d1, d2) := dims in
  match o with
  | [(x0, f0); (x1, f1); (x2, f2)] =>
    let c0 := - (d0 - 1) / 2 in
    let c1 := - (d1 - 1) / 2 in
    let c2 := - (d2 - 1) / 2 in
    mkA (delta x0 0 (q_of_flip f0)) (delta x0 1 (q_of_flip f0)) (delta x0 2 (q_of_flip f0))
        (delta x1 0 (q_of_flip f1)) (delta x1 1 (q_of_flip f1)) (delta x1 2 (q_of_flip f1))
        (delta x2 0 (q_of_flip f2)) (delta x2 1 (q_of_flip f2)) (delta x2 2 (q_of_flip f2))
        (q_of_flip f0 * c0 - c0) (q_of_flip f1 * c1 - c1) (q_of_flip f2 * c2 - c2)
  | _ => aff_id
  end.

Definition aff_scale (vs : Q * Q * Q) : aff :=
  let '(s0, s1, s2) := vs in mkA (1 / s0) 0 0 0 (1 / s1) 0 0 0 (1 / s2) 0 0 0.
Definition aff_halfvox : aff := mkA 1 0 0 0 1 0 0 0 1 (- (1 # 2)) (- (1 # 2)) (- (1 # 2)).

(* get_affine_trackvis_to_rasmm given the orientation of vox_to_ras (aff2axcodes: oracle) *)
Definition to_rasmm (vs dims : Q * Q * Q) (oh oa : ornt) (V : aff) : option aff :=
  match ornt_transform oh oa with
  | None => None
  | Some o => Some (aff_mul_r V (aff_mul_r (inv_ornt_aff o dims) (aff_mul_r aff_halfvox (aff_scale vs))))
  end.

Definition to_trackvis (vs dims : Q * Q * Q) (oh oa : ornt) (V : aff) : option aff :=
  option_map aff_inv (to_rasmm vs dims oh oa V).

(* ---- io_orientation for a scaled signed permutation (the polar factor is the matrix itself):
   per input axis (column), the unused output axis of largest magnitude *)
Definition qabs (x : Q) : Q := if Qle_bool 0 x then x else - x.
Definition col (V : aff) (j : Z) : Q * Q * Q :=
  if (j =? 0)%Z then (a00 V, a10 V, a20 V) else if (j =? 1)%Z then (a01 V, a11 V, a21 V)
  else (a02 V, a12 V, a22 V).
Definition mask (used : list Z) (i : Z) (v : Q) : Q :=
  if existsb (Z.eqb i) used then 0 else v.
Definition pick (c : Q * Q * Q) (used : list Z) : option (Z * Z) :=
  let '(x, y, z) := c in
  let x := mask used 0%Z x in let y := mask used 1%Z y in let z := mask used 2%Z z in
  if Qeq_bool x 0 && Qeq_bool y 0 && Qeq_bool z 0 then None
  else
    let ax := if Qle_bool (qabs y) (qabs x) && Qle_bool (qabs z) (qabs x) then 0%Z
              else if Qle_bool (qabs z) (qabs y) then 1%Z else 2%Z in
    let v := if (ax =? 0)%Z then x else if (ax =? 1)%Z then y else z in
    Some (ax, if Qle_bool 0 v then 1%Z else (-1)%Z).
Definition io_orient_sp (V : aff) : option ornt :=
  match pick (col V 0%Z) [] with
  | None => None
  | Some (x0, f0) =>
    match pick (col V 1%Z) [x0] with
    | None => None
    | Some (x1, f1) =>
      match pick (col V 2%Z) [x0; x1] with
      | None => None
      | Some (x2, f2) => Some [(x0, f0); (x1, f1); (x2, f2)]
      end
    end
  end.

(* all 48 orientations *)
Definition perms3 : list (Z * Z * Z) :=
  [(0, 1, 2); (0, 2, 1); (1, 0, 2); (1, 2, 0); (2, 0, 1); (2, 1, 0)]%Z.
Definition signs3 : list (Z * Z * Z) :=
  [(1, 1, 1); (1, 1, -1); (1, -1, 1); (1, -1, -1); (-1, 1, 1); (-1, 1, -1); (-1, -1, 1); (-1, -1, -1)]%Z.
Definition all_ornts : list ornt :=
  flat_map (fun p => let '(a, b, c) := p in
              map (fun s => let '(x, y, z) := s in [(a, x); (b, y); (c, z)]) signs3) perms3.
