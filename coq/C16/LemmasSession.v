(* C16/LemmasSession.v — lazy and eager loading agree: every COMPLETE pass over the streamlines
   of a lazily loaded file returns what the eager load of the same file object returns (each
   pass starts from the same position and bytes, because every pass - complete or abandoned -
   restores them). *)
From Coq Require Import ZArith List Bool Lia.
From NV Require Import Base.Bytes C16.Tables C16.Model C16.Lemmas.
Import ListNotations.
Open Scope Z_scope.

Lemma fobj_eta (g g' : fobj) : fpos g' = fpos g -> fbytes g' = fbytes g -> g' = g.
Proof. destruct g, g'; cbn. intros -> ->. reflexivity. Qed.

(* the result of a run of position-keeping passes: each pass gives what it gives on the file
   object the run started with *)
Lemma run_passes_each {A} (steps : list (fobj -> res (A * fobj))) : Forall keeps_pos steps ->
  forall f acc r f', run_passes steps f acc = Ok (r, f') ->
  exists r', r = rev acc ++ r' /\ Forall2 (fun step a => step f = Ok (a, f)) steps r'.
Proof.
  induction steps as [|step steps IH]; intros K f acc r f' H; cbn [run_passes] in H.
  - apply Ok_inj_pair in H. destruct H as [<- _]. exists []. split; [now rewrite app_nil_r|constructor].
  - inversion K as [|? ? K1 K2]; subst.
    destruct (step f) as [[a g]|e] eqn:E; [|discriminate].
    destruct (K1 _ _ _ E) as [P B]. assert (G : g = f) by (apply fobj_eta; assumption). subst g.
    destruct (IH K2 _ _ _ _ H) as (r' & -> & F2). exists (a :: r'). split.
    + cbn [rev]. rewrite <- app_assoc. reflexivity.
    + constructor; assumption.
Qed.

Definition pass_agrees {A} (re : A) (p : pass) (a : A) : Prop :=
  match p with PComplete => a = re | PAbandon _ => True end.

Lemma tck_lazy_eager b ps0 passes f r0 fe r f' :
  tck_session b false ps0 f = Ok (r0, fe) -> tck_session b true passes f = Ok (r, f') ->
  exists re, r0 = [re] /\ Forall2 (pass_agrees re) (PAbandon 1 :: passes) r.
Proof.
  unfold tck_session. destruct (tck_header_fo f) as [[hdr f1]|] eqn:E; [|discriminate].
  intros HE HL.
  apply run_passes_each in HE; [|constructor; [apply tck_read_fo_keeps|constructor]].
  destruct HE as (r0' & -> & F0). inversion F0 as [|? re ? tl He Htl]; subst. inversion Htl; subst.
  exists re. split; [reflexivity|].
  apply run_passes_each in HL.
  2:{ apply Forall_forall. intros s Hs. apply in_map_iff in Hs as (p & <- & _). apply tck_pass_keeps. }
  destruct HL as (r' & -> & F). cbn [rev app].
  remember (PAbandon 1 :: passes) as ps eqn:Eps. clear Eps.
  revert r' F. induction ps as [|p ps IH]; intros r' F; inversion F; subst; constructor.
  - destruct p; cbn [pass_agrees]; [|exact I]. cbn [tck_pass] in *. congruence.
  - apply IH. assumption.
Qed.

Lemma trk_size_fo_same f : snd (trk_size_fo f) = f.
Proof. unfold trk_size_fo, fo_seek_set, fo_seek_end, fo_tell. cbn [snd fbytes]. destruct f; reflexivity. Qed.

Lemma trk_lazy_eager o ps0 passes f r0 fe r f' :
  trk_session o false ps0 f = Ok (r0, fe) -> trk_session o true passes f = Ok (r, f') ->
  exists re, r0 = [re] /\ Forall2 (pass_agrees re) (PAbandon 1 :: passes) r.
Proof.
  unfold trk_session. destruct (trk_header_fo o f) as [[hdr f1]|] eqn:E; [|discriminate].
  rewrite trk_size_fo_same. intros HE HL.
  apply run_passes_each in HE; [|constructor; [apply trk_read_fo_keeps|constructor]].
  destruct HE as (r0' & -> & F0). inversion F0 as [|? re ? tl He Htl]; subst. inversion Htl; subst.
  exists re. split; [reflexivity|].
  apply run_passes_each in HL.
  2:{ apply Forall_forall. intros s Hs. apply in_map_iff in Hs as (p & <- & _). apply trk_pass_keeps. }
  destruct HL as (r' & -> & F). cbn [rev app].
  remember (PAbandon 1 :: passes) as ps eqn:Eps. clear Eps.
  revert r' F. induction ps as [|p ps IH]; intros r' F; inversion F; subst; constructor.
  - destruct p; cbn [pass_agrees]; [|exact I]. cbn [trk_pass] in *. congruence.
  - apply IH. assumption.
Qed.
