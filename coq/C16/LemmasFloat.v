(* C16/LemmasFloat.v — a first rounding-error bound for the TRK coordinate arithmetic in the
   diagonal case, from Flocq's relative error of rounding to nearest. *)
From Coq Require Import Reals ZArith Lia Lra Psatz.
From Flocq Require Import Core Relative.
From NV Require Import C16.ModelFloat.
Open Scope R_scope.

Lemma rnd64_err t : Rabs (rnd64 t - t) <= u64 * Rabs t.
Proof. unfold rnd64, u64. apply relative_error_N_FLX. lia. Qed.

Lemma rnd32_err t : Rabs (rnd32 t - t) <= u32 * Rabs t.
Proof. unfold rnd32, u32. apply relative_error_N_FLX. lia. Qed.

Lemma u64_pos : 0 < u64.
Proof. unfold u64. apply Rmult_lt_0_compat; [lra|apply bpow_gt_0]. Qed.
Lemma u32_pos : 0 < u32.
Proof. unfold u32. apply Rmult_lt_0_compat; [lra|apply bpow_gt_0]. Qed.
Lemma u64_le_1 : u64 <= 1.
Proof.
  unfold u64. assert (bpow radix2 (-53 + 1) <= bpow radix2 0) by (apply bpow_le; lia).
  change (bpow radix2 0) with 1 in H. pose proof (bpow_gt_0 radix2 (-53 + 1)). lra.
Qed.

Lemma Rabs_sub_le x y d : Rabs (x - y) <= d -> Rabs x <= Rabs y + d.
Proof. intros H. replace x with (y + (x - y)) at 1 by ring. eapply Rle_trans; [apply Rabs_triang|lra]. Qed.

(* float64 step: |fl(fl(a x) + b) - (a x + b)| <= 3 u64 (|a x| + |b|) *)
Lemma coord_apply64_err a b x :
  Rabs (coord_apply64 a b x - (a * x + b)) <= e64 * (Rabs (a * x) + Rabs b).
Proof.
  unfold coord_apply64, e64. set (p := a * x). set (p1 := rnd64 p).
  pose proof (rnd64_err p) as H1. fold p1 in H1.
  pose proof (rnd64_err (p1 + b)) as H2.
  pose proof u64_pos as U0. pose proof u64_le_1 as U1.
  assert (Hp1 : Rabs p1 <= Rabs p + u64 * Rabs p) by (apply Rabs_sub_le; exact H1).
  assert (Hs : Rabs (p1 + b) <= Rabs p1 + Rabs b) by apply Rabs_triang.
  replace (rnd64 (p1 + b) - (p + b)) with ((rnd64 (p1 + b) - (p1 + b)) + (p1 - p)) by ring.
  eapply Rle_trans; [apply Rabs_triang|].
  pose proof (Rabs_pos p) as P0. pose proof (Rabs_pos b) as B0.
  assert (u64 * Rabs (p1 + b) <= u64 * (Rabs p + u64 * Rabs p + Rabs b)).
  { apply Rmult_le_compat_l; lra. }
  assert (u64 * (u64 * Rabs p) <= u64 * Rabs p).
  { apply Rmult_le_compat_l; [lra|]. rewrite <- (Rmult_1_l (Rabs p)) at 2. apply Rmult_le_compat_r; lra. }
  nra.
Qed.

(* the stored float32 value: |f32(fl(fl(a x) + b)) - (a x + b)| <= e32 (|a x| + |b|) *)
Lemma coord_apply_err a b x :
  Rabs (coord_apply a b x - (a * x + b)) <= e32 * (Rabs (a * x) + Rabs b).
Proof.
  unfold coord_apply, e32. set (s := coord_apply64 a b x). set (t := a * x + b).
  set (M := Rabs (a * x) + Rabs b).
  pose proof (coord_apply64_err a b x) as H1. fold s t M in H1. unfold e64 in H1.
  pose proof (rnd32_err s) as H2.
  pose proof u32_pos as V0. pose proof u64_pos as U0.
  assert (Ht : Rabs t <= M) by (unfold t, M; apply Rabs_triang).
  assert (Hs : Rabs s <= Rabs t + 3 * u64 * M) by (apply Rabs_sub_le; exact H1).
  assert (M0 : 0 <= M) by (unfold M; pose proof (Rabs_pos (a * x)); pose proof (Rabs_pos b); lra).
  replace (rnd32 s - t) with ((rnd32 s - s) + (s - t)) by ring.
  eapply Rle_trans; [apply Rabs_triang|].
  assert (u32 * Rabs s <= u32 * (M + 3 * u64 * M)) by (apply Rmult_le_compat_l; lra).
  nra.
Qed.

(* save then load.  The two affines are each other's inverse only up to the residuals of the
   numerical inversion (np.linalg.inv): r1 = |a a' - 1|, r0 = |a b' + b| *)
Lemma trk_roundtrip_err a b a' b' x :
  let y := coord_apply a' b' x in
  Rabs (trk_coord_roundtrip a b a' b' x - x)
  <= e32 * (Rabs (a * y) + Rabs b) + Rabs a * (e32 * (Rabs (a' * x) + Rabs b'))
     + Rabs (a * a' - 1) * Rabs x + Rabs (a * b' + b).
Proof.
  intros y. unfold trk_coord_roundtrip. fold y.
  pose proof (coord_apply_err a b y) as H1. pose proof (coord_apply_err a' b' x) as H2. fold y in H2.
  replace (coord_apply a b y - x)
    with ((coord_apply a b y - (a * y + b)) + a * (y - (a' * x + b')) + ((a * a' - 1) * x + (a * b' + b))) by ring.
  eapply Rle_trans; [apply Rabs_triang|]. eapply Rle_trans; [apply Rplus_le_compat_r, Rabs_triang|].
  rewrite Rabs_mult.
  assert (Rabs a * Rabs (y - (a' * x + b')) <= Rabs a * (e32 * (Rabs (a' * x) + Rabs b'))).
  { apply Rmult_le_compat_l; [apply Rabs_pos|exact H2]. }
  assert (Rabs ((a * a' - 1) * x + (a * b' + b)) <= Rabs (a * a' - 1) * Rabs x + Rabs (a * b' + b)).
  { eapply Rle_trans; [apply Rabs_triang|]. rewrite Rabs_mult. lra. }
  lra.
Qed.

Lemma trk_roundtrip_lazy_err a b a' b' x :
  let y := coord_apply a' b' x in
  Rabs (trk_coord_roundtrip_lazy a b a' b' x - x)
  <= e64 * (Rabs (a * y) + Rabs b) + Rabs a * (e32 * (Rabs (a' * x) + Rabs b'))
     + Rabs (a * a' - 1) * Rabs x + Rabs (a * b' + b).
Proof.
  intros y. unfold trk_coord_roundtrip_lazy. fold y.
  pose proof (coord_apply64_err a b y) as H1. pose proof (coord_apply_err a' b' x) as H2. fold y in H2.
  replace (coord_apply64 a b y - x)
    with ((coord_apply64 a b y - (a * y + b)) + a * (y - (a' * x + b')) + ((a * a' - 1) * x + (a * b' + b))) by ring.
  eapply Rle_trans; [apply Rabs_triang|]. eapply Rle_trans; [apply Rplus_le_compat_r, Rabs_triang|].
  rewrite Rabs_mult.
  assert (Rabs a * Rabs (y - (a' * x + b')) <= Rabs a * (e32 * (Rabs (a' * x) + Rabs b'))).
  { apply Rmult_le_compat_l; [apply Rabs_pos|exact H2]. }
  assert (Rabs ((a * a' - 1) * x + (a * b' + b)) <= Rabs (a * a' - 1) * Rabs x + Rabs (a * b' + b)).
  { eapply Rle_trans; [apply Rabs_triang|]. rewrite Rabs_mult. lra. }
  lra.
Qed.

(* the constants, in closed form: u64 = 2^-53, u32 = 2^-24 *)
Lemma u_values : u64 = / IZR (2 ^ 53) /\ u32 = / IZR (2 ^ 24).
Proof.
  unfold u64, u32. split.
  - change (bpow radix2 (-53 + 1)) with (/ IZR (Z.pow_pos 2 52)).
    rewrite <- Rinv_mult. f_equal; try (rewrite <- mult_IZR; reflexivity).
  - change (bpow radix2 (-24 + 1)) with (/ IZR (Z.pow_pos 2 23)).
    rewrite <- Rinv_mult. f_equal; try (rewrite <- mult_IZR; reflexivity).
Qed.
