(* C16/Lemmas.v — proofs about C16/Model.v and C16/ModelAffine.v *)
From Coq Require Import ZArith List Bool Lia ZifyBool.
From NV Require Import Base.Bytes C16.Tables C16.Model.
Import ListNotations.
Open Scope Z_scope.
