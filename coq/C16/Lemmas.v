(* C16/Lemmas.v — proofs about C16/Model.v (the affine part is in LemmasAffine.v) *)
From Coq Require Import ZArith List Bool Lia ZifyBool.
From NV Require Import Base.Bytes C16.Tables C16.Model.
Import ListNotations.
Open Scope Z_scope.

(* ------------------------------------------------------------------ take / drop *)
Lemma takez_eq {A} (l : list A) : forall n, takez n l = take n l.
Proof.
  induction l as [|x r IH]; intros n; unfold take; cbn [takez].
  - now rewrite firstn_nil.
  - destruct (Z.leb_spec n 0) as [H|H].
    + replace (Z.to_nat n) with 0%nat by lia. reflexivity.
    + replace (Z.to_nat n) with (S (Z.to_nat (n - 1))) by lia. cbn [firstn]. now rewrite IH.
Qed.

Lemma dropz_eq {A} (l : list A) : forall n, dropz n l = drop n l.
Proof.
  induction l as [|x r IH]; intros n; unfold drop; cbn [dropz].
  - now rewrite skipn_nil.
  - destruct (Z.leb_spec n 0) as [H|H].
    + replace (Z.to_nat n) with 0%nat by lia. reflexivity.
    + replace (Z.to_nat n) with (S (Z.to_nat (n - 1))) by lia. cbn [skipn]. now rewrite IH.
Qed.

Lemma zlen_nonneg {A} (l : list A) : 0 <= zlen l.
Proof. unfold zlen; lia. Qed.
Lemma zlen_app {A} (a b : list A) : zlen (a ++ b) = zlen a + zlen b.
Proof. unfold zlen. rewrite app_length. lia. Qed.
Lemma zlen_cons {A} (x : A) l : zlen (x :: l) = 1 + zlen l.
Proof. unfold zlen. cbn [length]. lia. Qed.
Lemma zlen_nil {A} : zlen (@nil A) = 0.
Proof. reflexivity. Qed.

Lemma take_app_len {A} n (a r : list A) : zlen a = n -> take n (a ++ r) = a.
Proof. intros <-. apply take_app_exact. Qed.
Lemma drop_app_len {A} n (a r : list A) : zlen a = n -> drop n (a ++ r) = r.
Proof. intros <-. apply drop_app_exact. Qed.
Lemma take_all {A} n (a : list A) : zlen a <= n -> take n a = a.
Proof. intros H. unfold take. apply firstn_all2. unfold zlen in H. lia. Qed.
Lemma drop_all {A} n (a : list A) : zlen a <= n -> drop n a = [].
Proof. intros H. unfold drop. apply skipn_all2. unfold zlen in H. lia. Qed.
Lemma zlen_take {A} n (a : list A) : 0 <= n -> zlen (take n a) = Z.min n (zlen a).
Proof. intros H. unfold zlen, take. rewrite firstn_length. lia. Qed.
Lemma zlen_drop {A} n (a : list A) : 0 <= n -> zlen (drop n a) = Z.max 0 (zlen a - n).
Proof. intros H. unfold zlen, drop. rewrite skipn_length. lia. Qed.
Lemma take_drop_id {A} n (a : list A) : take n a ++ drop n a = a.
Proof. unfold take, drop. apply firstn_skipn. Qed.
Lemma take_0 {A} n (a : list A) : n <= 0 -> take n a = [].
Proof. intros H. unfold take. replace (Z.to_nat n) with 0%nat by lia. reflexivity. Qed.
Lemma drop_0 {A} n (a : list A) : n <= 0 -> drop n a = a.
Proof. intros H. unfold drop. replace (Z.to_nat n) with 0%nat by lia. reflexivity. Qed.

(* ------------------------------------------------------------------ decimal digits *)
Lemma digits_fuel_spec : forall fuel n acc, 0 <= n -> n < 10 ^ Z.of_nat fuel -> (0 < fuel)%nat ->
  exists d, 1 <= d <= Z.of_nat fuel /\ zlen (digits_fuel fuel n acc) = zlen acc + d
            /\ n < 10 ^ d /\ (d = 1 \/ 10 ^ (d - 1) <= n).
Proof.
  induction fuel as [|fuel IH]; intros n acc Hn Hlt Hf.
  - lia.
  - cbn [digits_fuel]. destruct (Z.ltb_spec n 10) as [H10|H10].
    + exists 1. rewrite zlen_cons. repeat split; try lia.
    + rewrite Nat2Z.inj_succ, Z.pow_succ_r in Hlt by lia.
      destruct (IH (n / 10) ((48 + n mod 10) :: acc)) as (d & Hd & Hl & Hu & Hlo).
      * apply Z.div_pos; lia.
      * apply Z.div_lt_upper_bound; lia.
      * destruct fuel as [|fuel']; [|lia]. simpl in Hlt. lia.
      * exists (d + 1). rewrite Hl, zlen_cons.
        replace (d + 1 - 1) with d by lia.
        assert (E : 10 ^ (d + 1) = 10 * 10 ^ d) by (rewrite Z.pow_add_r by lia; lia).
        assert (0 < 10 ^ (d - 1)) by (apply Z.pow_pos_nonneg; lia).
        assert (E' : 10 ^ d = 10 * 10 ^ (d - 1)).
        { replace d with (d - 1 + 1) at 1 by lia. rewrite Z.pow_add_r by lia. lia. }
        repeat split; try lia.
        -- rewrite E. Z.to_euclidean_division_equations; lia.
        -- right. destruct Hlo as [->|Hlo]; [simpl; lia|].
           rewrite E'. Z.to_euclidean_division_equations; lia.
Qed.

Lemma pow10_gt_pow2 k : 0 <= k -> 2 ^ k <= 10 ^ k.
Proof. intros H. apply Z.pow_le_mono_l. lia. Qed.

Lemma ndigits_spec n : 0 < n ->
  1 <= ndigits n /\ 10 ^ (ndigits n - 1) <= n < 10 ^ ndigits n.
Proof.
  intros Hn. unfold ndigits, dec_str.
  destruct (digits_fuel_spec (S (Z.to_nat (Z.log2 n))) n []) as (d & Hd & Hl & Hu & Hlo); [lia| |lia|].
  - rewrite Nat2Z.inj_succ, Z2Nat.id by apply Z.log2_nonneg.
    pose proof (Z.log2_spec n Hn) as [_ H2].
    pose proof (pow10_gt_pow2 (Z.succ (Z.log2 n))). pose proof (Z.log2_nonneg n). lia.
  - rewrite Hl. change (zlen (@nil Z)) with 0. replace (0 + d) with d by lia.
    destruct Hlo as [->|Hlo]; simpl; lia.
Qed.

Lemma pow10_mono a b : 0 <= a <= b -> 10 ^ a <= 10 ^ b.
Proof. intros H. apply Z.pow_le_mono_r; lia. Qed.

(* the number of digits is determined by the decade *)
Lemma ndigits_unique n d : 0 < n -> 1 <= d -> 10 ^ (d - 1) <= n < 10 ^ d -> ndigits n = d.
Proof.
  intros Hn Hd Hb. destruct (ndigits_spec n Hn) as (H1 & Hlo & Hhi).
  destruct (Z.lt_trichotomy (ndigits n) d) as [Hlt|[->|Hgt]]; [|reflexivity|].
  - pose proof (pow10_mono (ndigits n) (d - 1)). lia.
  - pose proof (pow10_mono d (ndigits n - 1)). lia.
Qed.

Lemma lt_pow10 d : 0 <= d -> d < 10 ^ d.
Proof.
  intros H. pattern d. apply natlike_ind; [simpl; lia| |assumption].
  intros x Hx IH. rewrite Z.pow_succ_r by lia. lia.
Qed.

(* the arithmetic of TckFile._write_header: whatever the length X of the rest of the header,
   the offset written, X + d2, has exactly d2 digits *)
Lemma tck_offset_fixpoint X : 0 < X ->
  let d1 := ndigits X in let d2 := ndigits (X + d1) in ndigits (X + d2) = d2.
Proof.
  intros HX d1 d2.
  destruct (ndigits_spec X HX) as (H1 & Hlo1 & Hhi1). fold d1 in H1, Hlo1, Hhi1.
  assert (HX1 : 0 < X + d1) by lia.
  destruct (ndigits_spec (X + d1) HX1) as (H2 & Hlo2 & Hhi2). fold d2 in H2, Hlo2, Hhi2.
  assert (Hle : d1 <= d2).
  { destruct (Z.le_gt_cases d1 d2); [assumption|].
    pose proof (pow10_mono d2 (d1 - 1)). lia. }
  destruct (Z.eq_dec d1 d2) as [E|NE].
  - rewrite <- E. fold d2. rewrite <- E. reflexivity.
  - assert (E10 : 10 ^ (d1 + 1) = 10 * 10 ^ d1) by (rewrite Z.pow_add_r by lia; lia).
    pose proof (lt_pow10 d1 ltac:(lia)) as Hd.
    assert (Hd2 : d2 = d1 + 1).
    { destruct (Z.le_gt_cases d2 (d1 + 1)); [lia|].
      pose proof (pow10_mono (d1 + 1) (d2 - 1)). lia. }
    apply ndigits_unique; [lia|lia|].
    rewrite Hd2. replace (d1 + 1 - 1) with d1 by lia. rewrite Hd2 in Hlo2.
    replace (d1 + 1 - 1) with d1 in Hlo2 by lia. lia.
Qed.

(* ------------------------------------------------------------------ TCK header text *)
Lemma zlen_dec_str n : zlen (dec_str n) = ndigits n.
Proof. reflexivity. Qed.

(* every header the writer produces states its own length *)
Lemma tck_header_states_its_length count items h :
  tck_header count items = Ok h ->
  exists out, h = out ++ 10 :: S_file_dot ++ dec_str (zlen h) ++ 10 :: S_END ++ [10]
              /\ zlen h = tck_hdr_offset (zlen out).
Proof.
  unfold tck_header. destruct (_ >? _); [discriminate|]. intros E.
  apply (f_equal (fun r => match r with Ok a => a | Err _ => [] end)) in E. cbv beta iota in E. subst h.
  set (out := tck_magic ++ 10 :: join_nl (tck_lines count items)).
  exists out.
  assert (L : zlen (out ++ 10 :: S_file_dot ++ dec_str (tck_hdr_offset (zlen out)) ++ 10 :: S_END ++ [10])
              = tck_hdr_offset (zlen out)).
  { rewrite zlen_app, zlen_cons, zlen_app, zlen_app, zlen_dec_str, zlen_cons, zlen_app.
    change (zlen S_file_dot) with 8. change (zlen S_END) with 3. change (zlen [10]) with 1.
    unfold tck_hdr_offset. cbv zeta.
    pose proof (zlen_nonneg out) as Hout.
    pose proof (tck_offset_fixpoint (zlen out + 8 + 3 + 3) ltac:(lia)) as F. cbv zeta in F.
    rewrite F. lia. }
  split; [|exact L]. rewrite L. reflexivity.
Qed.

Lemma tck_header_form count items h : tck_header count items = Ok h ->
  h = (tck_magic ++ 10 :: join_nl (tck_lines count items))
      ++ 10 :: S_file_dot ++ dec_str (zlen h) ++ 10 :: S_END ++ [10].
Proof.
  intros E. destruct (tck_header_states_its_length _ _ _ E) as (out & _ & EN).
  pose proof E as E'. unfold tck_header in E'. destruct (_ >? _); [discriminate|].
  apply (f_equal (fun r => match r with Ok a => a | Err _ => [] end)) in E'. cbv beta iota in E'.
  destruct (tck_header_states_its_length _ _ _ E) as (out2 & Eo & EN2).
  (* the length of h is the offset computed from the text before the file line *)
  assert (L : zlen h = tck_hdr_offset (zlen (tck_magic ++ 10 :: join_nl (tck_lines count items)))).
  { rewrite <- E' at 1. set (outv := tck_magic ++ 10 :: join_nl (tck_lines count items)).
    rewrite zlen_app, zlen_cons, zlen_app, zlen_app, zlen_dec_str, zlen_cons, zlen_app.
    change (zlen S_file_dot) with 8. change (zlen S_END) with 3. change (zlen [10]) with 1.
    set (ol := zlen outv).
    pose proof (zlen_nonneg outv) as Hol. fold ol in Hol.
    pose proof (tck_offset_fixpoint (ol + 8 + 3 + 3) ltac:(lia)) as F. cbv zeta in F.
    unfold tck_hdr_offset. cbv zeta. rewrite F. lia. }
  rewrite L. symmetry. exact E'.
Qed.

(* ------------------------------------------------------------------ TCK data: chunking *)
Lemma scan_app : forall x y out cur,
  scan (x ++ y) out cur = let '(o, c) := scan x out cur in scan y o c.
Proof.
  induction x as [|t x IH]; intros y out cur; [reflexivity|].
  cbn [app scan]. destruct (nan3 t); apply IH.
Qed.

Lemma triples_of_app be : forall n a b, length a = (12 * n)%nat ->
  triples_of be (a ++ b) = triples_of be a ++ triples_of be b.
Proof.
  induction n as [|n IH]; intros a b H.
  - destruct a; [reflexivity|simpl in H; lia].
  - do 12 (destruct a as [|? a]; [simpl in H; lia|]).
    cbn [app triples_of]. rewrite IH by (simpl in H; lia). reflexivity.
Qed.

Lemma chunk_check_nil : chunk_check [] = None.
Proof. reflexivity. Qed.

Lemma chunk_check_mult12 c : zlen c mod 12 = 0 -> chunk_check c = None.
Proof.
  intros H. unfold chunk_check.
  replace (zlen c mod 4 =? 0) with true by (Z.to_euclidean_division_equations; lia).
  replace (zlen c / 4 mod 3 =? 0) with true by (Z.to_euclidean_division_equations; lia).
  reflexivity.
Qed.

Lemma chunk_check_app c r : zlen c mod 12 = 0 -> chunk_check (c ++ r) = chunk_check r.
Proof.
  intros H. unfold chunk_check. rewrite zlen_app.
  replace ((zlen c + zlen r) mod 4) with (zlen r mod 4) by (Z.to_euclidean_division_equations; lia).
  replace ((zlen c + zlen r) / 4 mod 3) with (zlen r / 4 mod 3) by (Z.to_euclidean_division_equations; lia).
  reflexivity.
Qed.

Definition read_spec (be : bool) (f : list Z) (out : list (list triple)) (cur : list triple) :=
  match chunk_check f with
  | Some e => Err e
  | None => let '(o, c) := scan (triples_of be f) out cur in tck_finish o c
  end.

Lemma tck_loop_spec be B : 12 <= B -> B mod 12 = 0 ->
  forall fuel f out cur, (length f < fuel)%nat ->
  tck_loop fuel be B f out cur = read_spec be f out cur.
Proof.
  intros HB Hm. induction fuel as [|fuel IH]; intros f out cur Hf; [lia|].
  cbn [tck_loop]. rewrite takez_eq, dropz_eq.
  destruct (Z.lt_ge_cases (zlen f) B) as [Hlt|Hge].
  - (* last buffer *)
    rewrite take_all by lia. replace (zlen f =? B) with false by lia. cbn [negb].
    unfold read_spec. destruct (chunk_check f); [reflexivity|].
    destruct (scan (triples_of be f) out cur). reflexivity.
  - set (c := take B f). set (r := drop B f).
    assert (Hc : zlen c = B) by (unfold c; rewrite zlen_take; lia).
    assert (Ef : f = c ++ r) by (symmetry; apply take_drop_id).
    assert (Hr : (length r < fuel)%nat).
    { unfold r, drop. rewrite skipn_length. unfold zlen in *. lia. }
    clearbody c r. subst f.
    rewrite Hc. replace (B =? B) with true by lia. cbn [negb].
    rewrite (chunk_check_mult12 c) by (rewrite Hc; exact Hm).
    destruct (scan (triples_of be c) out cur) as [o' c'] eqn:Es.
    rewrite IH by exact Hr.
    unfold read_spec. rewrite chunk_check_app by (rewrite Hc; exact Hm).
    destruct (chunk_check r); [reflexivity|].
    rewrite (triples_of_app be (Z.to_nat (B / 12))).
    + rewrite scan_app, Es. reflexivity.
    + unfold zlen in Hc. Z.to_euclidean_division_equations; lia.
Qed.

Lemma tck_bufsize_ok b : 0 <= b -> 12 <= tck_bufsize b /\ tck_bufsize b mod 12 = 0.
Proof. intros H. unfold tck_bufsize. Z.to_euclidean_division_equations; lia. Qed.

(* the chunked reader computes the same thing as one unbounded buffer, for EVERY byte string
   (valid or not) and every buffer size that is a positive multiple of one point *)
Lemma chunk_independent be B f : 12 <= B -> B mod 12 = 0 ->
  tck_read_data be B f = tck_read_all be f.
Proof.
  intros HB Hm. unfold tck_read_data. rewrite (tck_loop_spec be B HB Hm) by lia. reflexivity.
Qed.

(* ------------------------------------------------------------------ TCK data: round trip *)
Definition f32_ok (u : Z) : Prop := 0 <= u < 2 ^ 32.
Definition triple_ok (t : triple) : Prop :=
  let '(x, y, z) := t in f32_ok x /\ f32_ok y /\ f32_ok z.
(* a streamline the format can carry: at least one point, no all-NaN point (the delimiter) and no
   all-inf point (the end-of-file marker); TckFile.save refuses the others *)
Definition wf_stream (s : list triple) : Prop :=
  s <> [] /\ Forall (fun t => triple_ok t /\ nan3 t = false /\ inf3 t = false) s.

Definition nan_delim3 : triple := Eval vm_compute in hd (0, 0, 0) (triples_of false tck_fiber_delim).
Definition inf_delim3 : triple := Eval vm_compute in hd (0, 0, 0) (triples_of false tck_eof_delim).

(* facts about the delimiter constants of the imported TckFile class (Tables.v) *)
Lemma tck_delims_wf :
  triples_of false tck_fiber_delim = [nan_delim3] /\ length tck_fiber_delim = 12%nat
  /\ triples_of false tck_eof_delim = [inf_delim3] /\ length tck_eof_delim = 12%nat
  /\ nan3 nan_delim3 = true /\ nan3 inf_delim3 = false /\ inf3 inf_delim3 = true.
Proof. vm_compute. repeat split; reflexivity. Qed.

Lemma enc4_shape be x : exists a b c d, enc be 4 x = [a; b; c; d].
Proof.
  pose proof (enc_length be 4 x) as H.
  destruct (enc be 4 x) as [|a [|b [|c [|d [|e l]]]]]; simpl in H; try lia.
  now exists a, b, c, d.
Qed.

Lemma pow256_4 : pow256 4 = 2 ^ 32.
Proof. reflexivity. Qed.

Lemma triples_of_enc_triple be t rest : triple_ok t ->
  triples_of be (enc_triple be t ++ rest) = t :: triples_of be rest.
Proof.
  destruct t as [[x y] z]. intros (Hx & Hy & Hz). unfold enc_triple.
  destruct (enc4_shape be x) as (a0 & a1 & a2 & a3 & Ex).
  destruct (enc4_shape be y) as (b0 & b1 & b2 & b3 & Ey).
  destruct (enc4_shape be z) as (c0 & c1 & c2 & c3 & Ez).
  rewrite Ex, Ey, Ez. cbn [app triples_of]. rewrite <- Ex, <- Ey, <- Ez.
  rewrite !dec_enc by (rewrite pow256_4; assumption). reflexivity.
Qed.

Lemma triples_of_enc_points be s rest : Forall triple_ok s ->
  triples_of be (enc_points be s ++ rest) = s ++ triples_of be rest.
Proof.
  induction s as [|t s IH]; intros H; [reflexivity|].
  inversion H as [|? ? Ht Hs]; subst. unfold enc_points. cbn [flat_map]. fold (enc_points be s).
  rewrite <- app_assoc, triples_of_enc_triple by assumption. rewrite IH by assumption. reflexivity.
Qed.

Lemma enc_triple_length be t : length (enc_triple be t) = 12%nat.
Proof. destruct t as [[x y] z]. unfold enc_triple. rewrite !app_length, !enc_length. reflexivity. Qed.

Lemma enc_points_length be s : length (enc_points be s) = (12 * length s)%nat.
Proof.
  induction s as [|t s IH]; [reflexivity|]. unfold enc_points. cbn [flat_map]. fold (enc_points be s).
  rewrite app_length, enc_triple_length, IH. cbn [length]. lia.
Qed.

Definition stream_bytes (s : list triple) : list Z := enc_points false s ++ tck_fiber_delim.
Definition streams_bytes (sl : list (list triple)) : list Z := flat_map stream_bytes sl.

Lemma tck_data_eq sl : tck_data sl = streams_bytes sl ++ tck_eof_delim.
Proof. reflexivity. Qed.

Lemma streams_bytes_length sl : exists n, length (streams_bytes sl) = (12 * n)%nat.
Proof.
  induction sl as [|s sl [n IH]]; [exists 0%nat; reflexivity|].
  destruct tck_delims_wf as (_ & Hl & _).
  exists (length s + 1 + n)%nat. unfold streams_bytes. cbn [flat_map]. fold (streams_bytes sl).
  unfold stream_bytes at 1. rewrite !app_length, enc_points_length, Hl, IH. lia.
Qed.

Lemma triples_of_streams sl rest : Forall wf_stream sl ->
  triples_of false (streams_bytes sl ++ rest)
  = flat_map (fun s => s ++ [nan_delim3]) sl ++ triples_of false rest.
Proof.
  destruct tck_delims_wf as (Hn & Hnl & _).
  induction sl as [|s sl IH]; intros H; [reflexivity|].
  inversion H as [|? ? Hs Hsl]; subst. destruct Hs as (_ & Hs).
  unfold streams_bytes. cbn [flat_map]. fold (streams_bytes sl). unfold stream_bytes at 1.
  rewrite <- !app_assoc. rewrite triples_of_enc_points.
  - rewrite (triples_of_app false 1 tck_fiber_delim) by exact Hnl. rewrite Hn, IH by assumption.
    rewrite <- ?app_assoc. reflexivity.
  - eapply Forall_impl; [|exact Hs]. intros t [Ht _]; exact Ht.
Qed.

Lemma scan_points : forall s rest out cur, Forall (fun t => nan3 t = false) s ->
  scan (s ++ rest) out cur = scan rest out (cur ++ s).
Proof.
  induction s as [|t s IH]; intros rest out cur H; [now rewrite app_nil_r|].
  inversion H as [|? ? Ht Hs]; subst. cbn [app scan]. rewrite Ht, IH by assumption.
  rewrite <- app_assoc. reflexivity.
Qed.

Lemma scan_streams : forall sl rest out, Forall wf_stream sl ->
  scan (flat_map (fun s => s ++ [nan_delim3]) sl ++ rest) out [] = scan rest (out ++ sl) [].
Proof.
  destruct tck_delims_wf as (_ & _ & _ & _ & Hnan & _).
  induction sl as [|s sl IH]; intros rest out H; [now rewrite app_nil_r|].
  inversion H as [|? ? Hs Hsl]; subst. destruct Hs as (Hne & Hs).
  cbn [flat_map]. rewrite <- !app_assoc. rewrite scan_points.
  - cbn [app scan]. rewrite Hnan. destruct s as [|t s']; [congruence|].
    cbn [app]. rewrite IH by assumption. rewrite <- app_assoc. reflexivity.
  - eapply Forall_impl; [|exact Hs]. intros t (_ & Ht & _); exact Ht.
Qed.

Lemma tck_read_all_data sl : Forall wf_stream sl -> tck_read_all false (tck_data sl) = Ok sl.
Proof.
  intros H. destruct tck_delims_wf as (_ & _ & He & Hel & _ & Hni & Hii).
  unfold tck_read_all. rewrite tck_data_eq.
  destruct (streams_bytes_length sl) as [n Hn].
  rewrite chunk_check_mult12.
  - rewrite triples_of_streams by assumption. rewrite He.
    rewrite scan_streams by assumption. cbn [scan app]. rewrite Hni. cbn [app].
    unfold tck_finish. rewrite Hii. reflexivity.
  - rewrite zlen_app. unfold zlen. rewrite Hn, Hel. Z.to_euclidean_division_equations; lia.
Qed.

(* exact round trip of the data part, for every buffer size *)
Lemma tck_data_roundtrip sl B : Forall wf_stream sl -> 12 <= B -> B mod 12 = 0 ->
  tck_read_data false B (tck_data sl) = Ok sl.
Proof. intros H HB Hm. rewrite chunk_independent by assumption. now apply tck_read_all_data. Qed.

(* ------------------------------------------------------------------ TCK: the written file *)
Lemma fo_write_end d f : fpos f = zlen (fbytes f) ->
  fo_write d f = mkF (fpos f + zlen d) (fbytes f ++ d).
Proof.
  intros H. unfold fo_write. rewrite takez_eq, dropz_eq, H.
  rewrite take_all by lia. rewrite drop_all by (pose proof (zlen_nonneg d); lia).
  replace (zlen (fbytes f) - zlen (fbytes f)) with 0 by lia. unfold zeros. cbn [Z.to_nat repeat].
  now rewrite !app_nil_r.
Qed.

(* overwriting the first bytes of a file with as many new bytes *)
Lemma fo_write_over_head d h rest : zlen d = zlen h ->
  fo_write d (mkF 0 (h ++ rest)) = mkF (zlen d) (d ++ rest).
Proof.
  intros H. unfold fo_write. cbn [fpos fbytes]. rewrite takez_eq, dropz_eq.
  rewrite take_0 by lia. pose proof (zlen_nonneg (h ++ rest)).
  replace (zeros (0 - zlen (h ++ rest))) with (@nil Z)
    by (unfold zeros; replace (Z.to_nat (0 - zlen (h ++ rest))) with 0%nat by lia; reflexivity).
  cbn [app]. replace (0 + zlen d) with (zlen h) by lia. rewrite drop_app_exact. f_equal. lia.
Qed.

Lemma no_bad_point sl : Forall wf_stream sl -> existsb (existsb (fun t => nan3 t || inf3 t)) sl = false.
Proof.
  intros H. induction sl as [|s sl IH]; [reflexivity|]. inversion H as [|? ? [_ Hs] Hsl]; subst.
  cbn [existsb]. rewrite IH by assumption. rewrite orb_false_r.
  clear - Hs. induction s as [|t s IHs]; [reflexivity|]. inversion Hs as [|? ? (_ & Hn & Hi) Hs']; subst.
  cbn [existsb]. rewrite Hn, Hi, IHs by assumption. reflexivity.
Qed.

(* the refusal: a streamline with an all-NaN or all-inf point is not written *)
Lemma tck_save_refuses count0 items sl h0 : tck_header count0 items = Ok h0 ->
  existsb (existsb (fun t => nan3 t || inf3 t)) sl = true -> tck_save count0 items sl = Err EBadPoint.
Proof.
  intros E0 Hb. unfold tck_save. rewrite E0. destruct sl as [|s sl']; [discriminate|]. now rewrite Hb.
Qed.

Lemma tck_save_bytes count0 items sl h0 h : Forall wf_stream sl ->
  tck_header count0 items = Ok h0 -> tck_header (zlen sl) items = Ok h -> zlen h0 = zlen h ->
  tck_save count0 items sl = Ok (h ++ tck_data sl).
Proof.
  intros Hwf E0 E Hl. unfold tck_save. rewrite E0. pose proof (no_bad_point sl Hwf) as Hnb.
  rewrite (fo_write_end h0 (mkF 0 [])) by reflexivity. cbn [fpos fbytes app].
  destruct sl as [|s sl'].
  - change (zlen (@nil (list triple))) with 0 in E. rewrite E. unfold fo_seek_set. cbn [fbytes].
    rewrite <- (app_nil_r h0). rewrite fo_write_over_head by lia.
    rewrite fo_write_end by (cbn [fpos fbytes]; rewrite app_nil_r; reflexivity).
    cbn [fbytes]. rewrite app_nil_r. reflexivity.
  - cbv beta iota. rewrite Hnb. set (sl := s :: sl') in *. set (body := flat_map (fun s0 => enc_points false s0 ++ tck_fiber_delim) sl).
    rewrite (fo_write_end body) by (cbn [fpos fbytes]; lia). cbn [fpos fbytes].
    rewrite (fo_write_end tck_eof_delim) by (cbn [fpos fbytes]; rewrite zlen_app; lia). cbn [fpos fbytes].
    rewrite E. unfold fo_seek_set. cbn [fbytes]. rewrite <- app_assoc.
    rewrite fo_write_over_head by lia. cbn [fbytes]. reflexivity.
Qed.

Lemma Ok_inj_pair {A B} (a a' : A) (b b' : B) : @Ok (A * B) (a, b) = Ok (a', b') -> a = a' /\ b = b'.
Proof. intros H. injection H as -> ->. split; reflexivity. Qed.

(* ------------------------------------------------------------------ file position *)
Definition keeps_pos {A} (step : fobj -> res (A * fobj)) : Prop :=
  forall g a g', step g = Ok (a, g') -> fpos g' = fpos g /\ fbytes g' = fbytes g.

Lemma run_passes_keeps {A} (steps : list (fobj -> res (A * fobj))) : Forall keeps_pos steps ->
  forall f acc r f', run_passes steps f acc = Ok (r, f') ->
  fpos f' = fpos f /\ fbytes f' = fbytes f.
Proof.
  induction steps as [|step steps IH]; intros K f acc r f' H; cbn [run_passes] in H.
  - apply Ok_inj_pair in H. destruct H as [_ <-]. split; reflexivity.
  - inversion K as [|? ? K1 K2]; subst.
    destruct (step f) as [[a g]|e] eqn:E; [|discriminate].
    destruct (K1 _ _ _ E) as [P B]. destruct (IH K2 _ _ _ _ H) as [P' B']. split; congruence.
Qed.

Lemma fo_read_bytes n f : fbytes (snd (fo_read n f)) = fbytes f.
Proof. reflexivity. Qed.

Lemma tck_read_fo_keeps b hdr : keeps_pos (tck_read_fo b hdr).
Proof.
  intros g a g' H. unfold tck_read_fo in H.
  destruct (snd hdr <? 0); [discriminate|].
  destruct (fo_read (-1) (fo_seek_set (snd hdr) g)) as [d f2] eqn:Er.
  destruct (tck_read_data _ _ d); [|discriminate]. apply Ok_inj_pair in H. destruct H as [_ <-].
  assert (fbytes f2 = fbytes g).
  { change f2 with (snd (d, f2)). rewrite <- Er. reflexivity. }
  split; [reflexivity|assumption].
Qed.

(* a pass abandoned after its k-th item: the finally clause restores the position all the same *)
Lemma tck_abandon_fo_keeps b hdr k : keeps_pos (tck_abandon_fo b hdr k).
Proof.
  intros g a g' H. unfold tck_abandon_fo in H.
  destruct (snd hdr <? 0); [discriminate|].
  destruct (fo_read (-1) (fo_seek_set (snd hdr) g)) as [d f2] eqn:Er.
  destruct (tck_take_loop _ _ _ _ d _ _); [|discriminate]. apply Ok_inj_pair in H. destruct H as [_ <-].
  assert (fbytes f2 = fbytes g).
  { change f2 with (snd (d, f2)). rewrite <- Er. reflexivity. }
  split; [reflexivity|assumption].
Qed.

Lemma tck_pass_keeps b hdr p : keeps_pos (tck_pass b hdr p).
Proof. destruct p; [apply tck_read_fo_keeps|apply tck_abandon_fo_keeps]. Qed.

Lemma tck_header_fo_keeps f hdr f1 : tck_header_fo f = Ok (hdr, f1) ->
  fpos f1 = fpos f /\ fbytes f1 = fbytes f.
Proof.
  unfold tck_header_fo. destruct (tck_parse_header _); [|discriminate].
  intros H. apply Ok_inj_pair in H. destruct H as [_ <-]. split; reflexivity.
Qed.

(* load - eager, or lazy followed by ANY sequence of complete or abandoned passes - from any
   position: the position and the bytes of the file object are what they were *)
Lemma tck_session_restores b lazy passes f r f' :
  tck_session b lazy passes f = Ok (r, f') -> fpos f' = fpos f /\ fbytes f' = fbytes f.
Proof.
  unfold tck_session. destruct (tck_header_fo f) as [[hdr f1]|] eqn:E; [|discriminate].
  intros H. destruct (tck_header_fo_keeps _ _ _ E) as [P B].
  apply run_passes_keeps in H.
  - destruct H as [P' B']. split; congruence.
  - apply Forall_forall. intros s Hs. apply in_map_iff in Hs as (p & <- & _). apply tck_pass_keeps.
Qed.

Lemma trk_read_fo_keeps hdr : keeps_pos (trk_read_fo hdr).
Proof.
  intros g a g' H. unfold trk_read_fo in H.
  destruct (fo_read (-1) (fo_seek_set (snd hdr) g)) as [d f2] eqn:Er.
  destruct (_ || _); [discriminate|].
  destruct (trk_loop _ _ _ _ _ _ _ _); [|discriminate]. apply Ok_inj_pair in H. destruct H as [_ <-].
  assert (fbytes f2 = fbytes g).
  { change f2 with (snd (d, f2)). rewrite <- Er. reflexivity. }
  split; [reflexivity|assumption].
Qed.

Lemma trk_abandon_fo_keeps hdr k : keeps_pos (trk_abandon_fo hdr k).
Proof.
  intros g a g' H. unfold trk_abandon_fo in H.
  destruct (fo_read (-1) (fo_seek_set (snd hdr) g)) as [d f2] eqn:Er.
  destruct (_ || _); [discriminate|].
  destruct (trk_take_loop _ _ _ _ _ _ _ _ _); [|discriminate]. apply Ok_inj_pair in H. destruct H as [_ <-].
  assert (fbytes f2 = fbytes g).
  { change f2 with (snd (d, f2)). rewrite <- Er. reflexivity. }
  split; [reflexivity|assumption].
Qed.

Lemma trk_pass_keeps hdr p : keeps_pos (trk_pass hdr p).
Proof. destruct p; [apply trk_read_fo_keeps|apply trk_abandon_fo_keeps]. Qed.

Lemma trk_header_fo_keeps o f hdr f1 : trk_header_fo o f = Ok (hdr, f1) ->
  fpos f1 = fpos f /\ fbytes f1 = fbytes f.
Proof.
  unfold trk_header_fo. destruct (fo_read trk_header_size f) as [got g] eqn:Er.
  destruct (trk_parse_header _ _); [|discriminate].
  intros H. apply Ok_inj_pair in H. destruct H as [_ <-]. split; [reflexivity|].
  cbn [fo_seek_set fbytes]. change g with (snd (got, g)). rewrite <- Er. reflexivity.
Qed.

Lemma trk_session_restores o lazy passes f r f' :
  trk_session o lazy passes f = Ok (r, f') -> fpos f' = fpos f /\ fbytes f' = fbytes f.
Proof.
  unfold trk_session. destruct (trk_header_fo o f) as [[hdr f1]|] eqn:E; [|discriminate].
  destruct (trk_header_fo_keeps _ _ _ _ E) as [P B]. destruct lazy; intros H; apply run_passes_keeps in H.
  - destruct H as [P' B']. split; congruence.
  - apply Forall_forall. intros s Hs. apply in_map_iff in Hs as (p & <- & _). apply trk_pass_keeps.
  - destruct H as [P' B']. unfold trk_size_fo, fo_seek_set, fo_seek_end, fo_tell in P', B'.
    cbn [snd fpos fbytes] in P', B'. split; congruence.
  - constructor; [apply trk_read_fo_keeps|constructor].
Qed.
